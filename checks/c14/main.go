// C14 — bidirectional (bisync) incremental replay resumes from the contiguous committed prefix.
//
// Request-prefix crash sweep (internal/bisweep, modelled on the C02 sweep): a base run replays a
// generated stream through the real RedisOutput in bisync mode (sync / pipeline / parallel) into
// a standalone target double; EVERY prefix of the requests the target executed is a crash point
// (grouped by the bookkeeping state it leaves: marker / latest / commit journal / index /
// frontier / root checkpoint); for each distinct state the state is rebuilt with Replay on a
// fresh double and a FRESH tool instance is started on it 2–4 times in a row (1–3 starts without
// traffic, some with a Send on an idle feeder that is then stopped, then one start that replays
// the rest of the stream; about one chain in four is configured with another replay mode than
// the namespace was last used in, so the start-up bookkeeping switches the namespace in place or
// migrates it across recovery families); the requests of those restarted runs — including the
// start-up recovery's own DEL/ZREM requests, the migration's requests and the coordinator's
// frontier HSET … journal DELs — are crash points again.
//
// Clean-stop schedule (stop-N cases): the same first start, but the Send context is cancelled —
// the way the tool is stopped — at a PRNG-chosen LOGICAL instant in mid-traffic (right after the
// feeder handed out stream byte n, or from the double's request hook at the k-th target request),
// 24 links at a time, with and without reply delays; Send returns, the double drains
// (WaitNoConns), then the usual chain of fresh starts on the final state.  Sync mode: the units the
// stopped run committed must be a gap-free prefix; all modes: the next start skips nothing.
//
// Cluster scenarios (cluster-ooo-N, cluster-inproc-N; internal/bisweep/cluster.go): parallel mode
// against a 3-node cluster double with 2–4 lanes, output built as cmd/syncer.go does for a cluster
// target (redis.FixTopology, VerifNewOutput).  (1) the connection carrying unit k is held at its
// node (ReplyDelay: before the transaction runs, or after EXEC before the reply) while 1–2 later
// units on other nodes and lanes are committed and acknowledged; a frontier flush gets three
// intervals to fire (the wait ends early on the logical event "frontier write seen"); stop, the
// held bytes are discarded (node killed and revived); 1–2 fresh instances, the last replays the
// rest.  (2) unit k's EXEC is answered with an error (Inject) or executed and its connection
// dropped (DropReply) after the later units were acknowledged; Send fails; StartPoint + Send on
// the SAME RedisOutput (its first StartPoint had seen only the root checkpoint), then a fresh
// instance.  (1b) "gap closes last": the held unit is released after the later ones were
// acknowledged, a flush is observed, stop, two fresh instances.  (3) SYNC mode on the cluster (one
// latest record per slot): era 1 into several slots, a second snapshot under the unchanged run id
// on the same instance (StartPoint → Send(snapshot) → StartPoint → Send(stream)), fewer units into
// other slots, stop; the fresh instance must resume exactly after the last committed unit and
// repeat nothing.  Which unit, node, lane, lane count, hold point: PRNG / scenario index.  Oracle: every
// stored frontier and every resume offset covers only committed units, unit boundary, never
// backwards, no unit missing at the end (repeats are allowed in parallel mode, none in sync mode);
// every stored frontier's (seq, offset) is the pair of ONE committed unit record.
//
// Fault sweeps (fault-N; internal/bisweep/faults.go; standalone double, pipeline and parallel
// mode): ONE request is answered with an error once (or executed with its connection closed
// instead of a reply) and the tool's own error handling / retry follows.  (1) every request of the
// first and second frontier flush of a run (frontier HSET: -OOM, -LOADING, drop; each journal DEL and
// the index ZREM: -LOADING, drop — -OOM only where Redis refuses, i.e. denyoom commands), in its own
// re-run; stop; a fresh instance must not resume behind what a fresh instance finds in the state
// right before the faulted request, and every committed unit is covered by the stored frontier or
// still has its journal record.  (2) every request of StartPoint's recovery on a journal-only, a
// frontier+journal and a frontier-only state (request sequence and answer learnt from an unfaulted
// start on the rebuilt state): StartPoint is called again on the same RedisOutput and must give the
// unfaulted answer; rest of the stream, stop, fresh instance — judged by the same oracle.
//
// Fail-over restarts (failover-N; internal/bisweep/failover.go; standalone, all three modes): the
// source's replication ids change to [NEW, OLD] between a stop and the next start with no traffic
// in between; the real start-up bookkeeping re-keys the root checkpoint to NEW before StartPoint;
// states after batch 1, with frontier + journal, and at the end of a gated run; plain restart,
// fail-over restart replaying the rest under NEW, fresh instance — ordinary oracle.  The sync
// cluster scenario additionally gives the latest records of its first units mtimes 10 s ahead
// of the later ones (records committed by a host with a fast clock), and two in three of them
// start era 1 a few units below 10^k (k = 3…9, own PRNG stream): units committed into different
// slots end on both sides of the power of ten, and the earlier slots keep records with a larger
// leading digit but a smaller value.
//
// Oracle (bisweep.Judge), per DESIGN C14: resume offset R of every start ∈ {unit ends} ∪ {stream
// start}; every unit ending at or before R is committed (complete target transaction: all business
// commands of the unit + its record [+ index]); sync mode: R = end of the last committed unit and
// no unit is committed twice; pipeline/parallel: repeats allowed, none skipped, in order; a unit's
// business commands and its record only ever appear in one target transaction; a stored frontier
// (seq f, offset o) implies every unit ≤ o and every sequence number ≤ f committed at that moment;
// successive starts never return a smaller R than a start that completed before them — or than the
// start that was interrupted inside its own recovery requests was about to return — and the
// stored frontier / latest never decrease; a start that fails for good on a state the tool itself
// produced ("bisync journal gap") is reported under its own signature.  Pure history check:
// checkpoint.RebuildBisyncFrontier on all subsets of ≤10 surviving journal records.
//
// How the tool is driven.  Every start goes through syncer.VerifNewOutput (build tag verif) =
// NewSyncer(cfg).newOutput(): the tool's real start-up bookkeeping — run-id lookup on a source
// double (INFO replication), resolveBisyncCheckpointName (namespace creation through HSETNX,
// bisync_mode bookkeeping / migration) and checkpoint.UpdateCheckpoint — rather than a
// re-implementation of it with NewRedisOutput + ResolveOrCreateBisyncCheckpointName +
// UpdateCheckpoint in the harness.  Reason: the namespace name is random and only discoverable
// through that code, the mode field it maintains decides which recovery structures are
// authoritative, and a hand-rolled copy would silently drift from syncer.newOutput.  The cost is
// the process-global configuration newOutput reads (config.GetSyncerConfig()); bisweep.Driver
// sets it and calls VerifNewOutput under one mutex, after which the RedisOutput only uses its own
// copy (nothing else in the replay path reads the global).  Then the protocol of
// RedisInput.run(): StartPoint(runIds) → Send(empty snapshot) → StartPoint → Send(stream reader)
// on the first start, bookkeeping → StartPoint → Send(stream reader at the returned offset) on
// every later one.
package main

import (
	"os"
	"runtime"
	"strconv"
	"time"

	"verif/internal/bisweep"
	"verif/internal/drive"
	"verif/internal/harness"

	"github.com/mgtv-tech/redis-GunYu/syncer"
)

func main() {
	drive.Quiet()
	run := harness.New("C14", "fault_enumeration",
		"base run = PRNG(seed,i) → (mode, window, generated stream with transactions/SELECTs/PINGs, feeding plan with idle gaps around the 100 ms frontier flush, EXEC reply delay, "+
			"optional unrelated key in another target DB) + 3 fixed directed cases; crash points = EVERY prefix of the requests the target executed during the incremental phase, grouped by the "+
			"bookkeeping state they leave (bisync keys incl. journal/index/frontier; one chain of 2–4 fresh tool starts per distinct state, 1 in 4 chains in another replay mode = namespace "+
			"switch/migration); restarted runs: every state inside start-up bookkeeping/recovery/migration and between starts exhaustively, traffic-phase states by PRNG (thorough: a third level, PRNG third of its states); exhaustive per observed request sequence, not over schedules; RebuildBisyncFrontier on all "+
			"subsets of ≤10 surviving journal records (observed states + synthetic windows); clean-stop schedule: PRNG(seed,i) → cancel of the Send context at stream byte n / target request k in mid-traffic, "+
			"target drained, fresh-start chain; cluster scenarios: PRNG(seed,i) → (held/failing unit, node and lane of every unit, 2–4 lanes, hold point, flush before) for out-of-order acknowledgement + stop and for "+
			"failed unit + in-process restart, plus gap-closes-last orders and sync-mode resynchronisation under the same run id; fault sweeps: every request of two frontier flushes and of start-up recovery on three kinds of states, "+
			"answered with an error once / connection closed, exhaustive per learnt request sequence; distinct = (mode[, other-db], modes of the restarted starts, depth, where the prefix falls: in-unit / between-units / "+
			"between-frontier-save-and-journal-delete / inside-recovery[/journal-cleanup] / idle / after-stop, whether the resumed run repeated units)")
	run.Watchdog(110 * time.Minute)
	run.Assume("target state after a crash = effects of a prefix of the requests the double executed; an open MULTI block is discarded (fakeredis); business writes are logged, not executed")
	run.Assume("a restarted instance runs syncer.VerifNewOutput (= syncer.newOutput) against a source double reporting a fixed replication id, then StartPoint, then Send from the returned offset")
	run.Assume("standalone target: one slot tag, one lane; unit i of the generator = i-th stand-alone write or non-empty MULTI/EXEC group (SELECT/PING/administrative commands/empty transactions form no unit)")
	run.Assume("mode switches across recovery families are only provoked from states that hold a migration seed (latest record / frontier / journal from seq 1); the refusal to migrate an unseeded namespace is not judged")
	run.Assume("fault sweeps: exactly one faulted request per run (error reply without execution, or execution with the connection closed); -OOM only on denyoom commands; a one-request -LOADING is a modelling simplification")
	run.Assume("cluster target: only the directed schedules (held unit + stop; gap closes last; failed unit + in-process restart; sync-mode resync under the same run id) on a stable 3-node double, single-key units; no request-prefix sweep there (a start scans 16384 slot tags)")
	run.MinDistinct(6)

	d := bisweep.NewDriver(syncer.VerifNewOutput)
	defer d.Close()
	// scratch-run knobs (rate measurements of the clean-stop schedule); the registered commands set neither
	nBase, nStops, directed := run.N(25, 400), run.N(400, 8000), true
	if v, err := strconv.Atoi(os.Getenv("VERIF_C14_STOPS")); err == nil {
		nStops = v
	}
	links := 24
	if v, err := strconv.Atoi(os.Getenv("VERIF_C14_LINKS")); err == nil {
		links = v
	}
	nOoo, nInproc, nSync := run.N(6, 160), run.N(3, 100), run.N(2, 60)
	nFault := run.N(2, 16)
	nFailover := run.N(3, 24)
	switch os.Getenv("VERIF_C14_ONLY") {
	case "failover":
		nBase, directed, nStops, nOoo, nInproc, nSync, nFault = 0, false, 0, 0, 0, 0, 0
	case "faults":
		nBase, directed, nStops, nOoo, nInproc, nSync, nFailover = 0, false, 0, 0, 0, 0, 0
	case "stops":
		nBase, directed, nOoo, nInproc, nSync, nFault, nFailover = 0, false, 0, 0, 0, 0, 0
	case "cluster":
		nBase, directed, nStops, nFault, nFailover = 0, false, 0, 0, 0
	}
	bisweep.SyntheticSubsets(run)
	depth := 2
	if !run.Quick() {
		depth = 3
	}
	// the cluster scenarios (CPU-bound: every start scans 16384 slot tags) run alongside the sweep
	// (after it when few processors are available: starving the tool instances only trips watchdogs)
	clusterDone := make(chan struct{})
	cluster := func() {
		defer close(clusterDone)
		bisweep.FailoverRestarts(run, bisweep.FailoverOptions{NCases: nFailover, Workers: 3, Driver: d, Factory: bisweep.NewStandalone})
		bisweep.FaultSweeps(run, bisweep.FaultOptions{NCases: nFault, Workers: 2, Driver: d, Factory: bisweep.NewStandalone})
		bisweep.ClusterScenarios(run, bisweep.ClusterOptions{NOutOfOrder: nOoo, NInProcess: nInproc, NSyncResync: nSync, Workers: 6, Driver: d})
	}
	few := runtime.GOMAXPROCS(0) < 8
	if few && links > 8 {
		links = 8
	}
	if !few {
		go cluster()
	}
	bisweep.Explore(run, bisweep.Options{Prop: "C14", NBase: nBase, Depth: depth, DeepPct: 12, Workers: 6,
		Driver: d, Factory: bisweep.NewStandalone, Directed: directed, NStops: nStops, StopLinks: links})
	if few {
		cluster()
	}
	<-clusterDone
	run.Exit()
}
