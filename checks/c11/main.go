// C11 — key-to-slot computation agrees with Redis Cluster's HASH_SLOT for every key.
//
// Differential of every place the tool derives a slot from a key against ref.HashSlot
// (written from the cluster specification, bit-wise CRC16/XMODEM):
//
//	KeyToSlot    redis.KeyToSlot                      (filters, bisync units, checkpoint key choice, slot tags)
//	GetSlot      cluster.GetSlot(string) / ([]byte)   (cluster client routing)
//	FilterSlot   filter.RedisKeyFilter.FilterSlot      with white list [s] / black list [s], s = ref slot
//	SlotTag      checkpoint.BisyncSlotTag(s) for all 16384 slots, and every control-key builder of
//	             pkg/redis/checkpoint/bisync.go that embeds "{tag}" (marker, index, latest, commit, rdb)
//
// choseKeyInSlots (syncer, unexported, no hook) is not reachable; the keys it tries are
// "<prefix>-" + 20 lower-case letters evaluated with redis.KeyToSlot, so that key family is fed to
// the KeyToSlot differential instead.
package main

import (
	"encoding/hex"
	"fmt"
	"math/rand"
	"runtime"
	"sort"
	"strconv"
	"sync"
	"time"
	"unicode/utf8"

	"github.com/mgtv-tech/redis-GunYu/config"
	"github.com/mgtv-tech/redis-GunYu/pkg/filter"
	"github.com/mgtv-tech/redis-GunYu/pkg/log"
	"github.com/mgtv-tech/redis-GunYu/pkg/redis"
	"github.com/mgtv-tech/redis-GunYu/pkg/redis/checkpoint"
	cluster "github.com/mgtv-tech/redis-GunYu/pkg/redis/client/cluster"
	"github.com/mgtv-tech/redis-GunYu/pkg/util"

	"verif/internal/harness"
	"verif/internal/ref"
)

var (
	r       *harness.Run
	whiteOf [ref.Slots]*filter.RedisKeyFilter // white list = [s]
	blackOf [ref.Slots]*filter.RedisKeyFilter // black list = [s]
)

func quiet() {
	t, f := true, false
	_ = log.InitLog(config.LogConfig{LevelStr: "fatal", Handler: config.LogHandlerConfig{StdOut: true}, Caller: &f, Func: &f, ModuleName: &t})
}

func lenBucket(n int) string {
	switch {
	case n == 0:
		return "0"
	case n <= 3:
		return "1-3"
	case n <= 8:
		return "4-8"
	case n <= 64:
		return "9-64"
	case n <= 4096:
		return "65-4K"
	default:
		return ">4K"
	}
}

func show(key []byte) map[string]any {
	m := map[string]any{"len": len(key)}
	if len(key) <= 256 {
		m["key_quoted"] = strconv.Quote(string(key))
		m["key_hex"] = hex.EncodeToString(key)
	} else {
		m["key_head_quoted"] = strconv.Quote(string(key[:128]))
		m["key_tail_quoted"] = strconv.Quote(string(key[len(key)-64:]))
		m["note"] = "long key: regenerate from seed + case"
	}
	return m
}

// lastPairSlot is the slot an implementation returns that lets the LAST '{' having a '}' to
// its right win (diagnostic only, goes into the witness).
func lastPairSlot(key []byte) int {
	tag := []byte(nil)
	for i := range key {
		if key[i] == '{' {
			for k := i; k < len(key); k++ {
				if key[k] == '}' {
					tag = key[i+1 : k]
					break
				}
			}
		}
	}
	if len(tag) > 0 {
		return int(ref.CRC16(tag)) % ref.Slots
	}
	return int(ref.CRC16(key)) % ref.Slots
}

// checkKey evaluates every implementation on one key.  family names the generator.
func checkKey(family, caseKey string, key []byte) {
	want := ref.HashSlot(key)
	class := ref.KeyClass(key)
	r.Eval(1)
	r.Count("keys_"+family, 1)
	u := "utf8"
	if !utf8.Valid(key) {
		u = "non-utf8"
	}
	r.Distinct(class + "|" + lenBucket(len(key)) + "|" + u)
	r.Seen("key_classes", class)

	fail := func(impl string, got int) {
		w := show(key)
		w["impl"] = impl
		w["got"] = got
		w["want"] = want
		w["hashed_part_per_spec"] = strconv.Quote(string(clip(ref.HashTag(key))))
		w["slot_if_last_brace_pair_wins"] = lastPairSlot(key)
		w["family"] = family
		r.Violation(impl+"|"+class, caseKey,
			fmt.Sprintf("%s(key) = %d but HASH_SLOT(key) = %d (key class %s)", impl, got, want, class), w)
	}

	s := string(key)
	if got := int(redis.KeyToSlot(s)); got != want {
		fail("KeyToSlot", got)
	}
	if got, err := cluster.GetSlot(s); err != nil || int(got) != want {
		fail("GetSlot", int(got))
	}
	if got, err := cluster.GetSlot(key); err != nil || int(got) != want {
		fail("GetSlot[]byte", int(got))
	}
	// slot-filter decisions: a white list holding exactly the key's slot accepts the key, a
	// black list holding exactly it rejects the key
	if whiteOf[want].FilterSlot(s) {
		w := show(key)
		w["want_slot"] = want
		w["KeyToSlot"] = int(redis.KeyToSlot(s))
		r.Violation("FilterSlot|white|"+class, caseKey,
			fmt.Sprintf("slot white list [%d] rejects a key whose HASH_SLOT is %d", want, want), w)
	}
	if !blackOf[want].FilterSlot(s) {
		w := show(key)
		w["want_slot"] = want
		w["KeyToSlot"] = int(redis.KeyToSlot(s))
		r.Violation("FilterSlot|black|"+class, caseKey,
			fmt.Sprintf("slot black list [%d] accepts a key whose HASH_SLOT is %d", want, want), w)
	}
}

func clip(b []byte) []byte {
	if len(b) > 128 {
		return b[:128]
	}
	return b
}

// enumerate calls fn for every string over alphabet of length 0..maxLen.
func enumerate(alphabet []byte, maxLen int, fn func([]byte)) int {
	n := 0
	buf := make([]byte, 0, maxLen)
	var rec func()
	rec = func() {
		fn(buf)
		n++
		if len(buf) == maxLen {
			return
		}
		for _, c := range alphabet {
			buf = append(buf, c)
			rec()
			buf = buf[:len(buf)-1]
		}
	}
	rec()
	return n
}

func main() {
	quiet()
	r = harness.New("C11", "exploration",
		"distinct = structural hash-tag class of the key (ref.KeyClass) x length bucket x valid/invalid UTF-8")
	r.Watchdog(time.Duration(r.N(10, 120)) * time.Minute)
	// ---- 0. the slot-tag table's FIRST use in this process comes from 16 goroutines at once ----
	// (two outputs building their first bidirectional unit together; nothing before this line
	// touches the table)
	if r.WantCase("slottags-first-use") {
		guard("slottags-first-use", slotTagsFirstUse)
	}
	for s := 0; s < ref.Slots; s++ {
		whiteOf[s] = &filter.RedisKeyFilter{}
		whiteOf[s].InsertSlotWhiteList([][]uint16{{uint16(s)}})
		blackOf[s] = &filter.RedisKeyFilter{}
		blackOf[s].InsertSlotBlackList([][]uint16{{uint16(s), uint16(s)}})
	}

	// ---- 1. exhaustive small alphabets ------------------------------------------------
	a6 := []byte{'{', '}', 'a', 0x00, 0xFF, 0xC3}
	a3 := []byte{'{', '}', 'a'}
	l6, l3 := r.N(5, 7), r.N(8, 12)
	if r.WantCase("exhaustive") {
		n6 := enumerate(a6, l6, func(k []byte) { checkKey("exh6", "exhaustive", k) })
		n3 := enumerate(a3, l3, func(k []byte) { checkKey("exh3", "exhaustive", k) })
		r.Set("exhaustive_part", fmt.Sprintf("all byte strings of length<=%d over {'{','}','a',0x00,0xFF,0xC3} (%d) and of length<=%d over {'{','}','a'} (%d); the PRNG families below are samples, not enumerations",
			l6, n6, l3, n3))
	}

	// ---- 2. every slot tag and every control key built from it -------------------------
	if r.WantCase("slottags") {
		guard("slottags", slotTags)
	}
	// ---- 3. PRNG families ------------------------------------------------------------
	prngFamilies()
	// ---- 4. the calling pattern of the checkpoint-key search ---------------------------
	if r.WantCase("inplace-search") {
		guard("inplace-search", inplaceSearch)
	}
	r.Assume("choseKeyInSlots is unexported and has no hook: covered only through redis.KeyToSlot on the key family it evaluates (checkpoint-suffix)")
	r.Assume("cluster-client routing is observed at cluster.GetSlot, the function getNodeByKey calls; the node a command is sent to is C19's concern")
	r.Exit()
}

// inplaceSearch: the checkpoint-key search of syncer/syncer.go (choseKeyInSlots → pickSuffixDfs)
// asks for the slot of candidate after candidate held in ONE buffer that it rewrites in place at
// constant length, handing KeyToSlot a string that aliases the buffer (util.BytesToString).  The
// slot of every candidate must be the slot of its bytes at the moment of the call, whatever was
// asked before (same address, same length, other content).  Odometer walks like the search's, from
// one and from several goroutines (each with its own buffer).
func inplaceSearch() {
	walk := func(prefix string, letters, steps int, seed int64) {
		rng := rand.New(rand.NewSource(seed))
		buf := make([]byte, len(prefix)+letters)
		copy(buf, prefix)
		for i := len(prefix); i < len(buf); i++ {
			buf[i] = 'a'
		}
		for n := 0; n < steps; n++ {
			// next candidate: odometer step on the last letters, sometimes a jump further left
			pos := len(buf) - 1
			if rng.Intn(8) == 0 {
				pos = len(prefix) + rng.Intn(letters)
			}
			for ; pos >= len(prefix); pos-- {
				if buf[pos] < 'z' {
					buf[pos]++
					break
				}
				buf[pos] = 'a'
			}
			want := ref.HashSlot(buf)
			got := int(redis.KeyToSlot(util.BytesToString(buf)))
			r.Eval(1)
			r.Count("keys_inplace-search", 1)
			if got != want {
				w := show(append([]byte(nil), buf...))
				w["impl"], w["got"], w["want"], w["step"] = "KeyToSlot", got, want, n
				w["pattern"] = "string aliasing a buffer that is rewritten in place between calls (util.BytesToString), as choseKeyInSlots does"
				r.Violation("KeyToSlot|inplace-search|stale-answer", "inplace-search",
					fmt.Sprintf("KeyToSlot(candidate) = %d but HASH_SLOT(candidate) = %d for the candidate the buffer held at the call (step %d of an in-place search)", got, want, n), w)
				return
			}
		}
	}
	for _, pre := range []string{config.CheckpointKey + "-", "cp-", "{", "x{y}-"} {
		for _, letters := range []int{1, 3, 20} {
			walk(pre, letters, r.N(4000, 200000), int64(len(pre)*31+letters))
		}
	}
	var wg sync.WaitGroup
	for g := 0; g < 8; g++ {
		wg.Add(1)
		go func(g int) {
			defer wg.Done()
			walk(fmt.Sprintf("%s-g%d-", config.CheckpointKey, g), 20, r.N(4000, 100000), int64(1000+g))
		}(g)
	}
	wg.Wait()
	r.Distinct("inplace-search|aliased-buffer|sequential+8-goroutines")
}

// guard turns a panic of the code under test into an inconclusive verdict (the statement
// does not speak about crashes); violations recorded before it are kept.
func guard(caseKey string, fn func()) {
	defer func() {
		if e := recover(); e != nil {
			r.Inconclusive("panic while running case %s: %v", caseKey, e)
		}
	}()
	fn()
}

// slotTagsFirstUse: 16 goroutines, released together, each ask for every 16th slot's tag (lane i
// starts at slot i); every answer must be a non-empty tag that hashes to the slot asked for.
func slotTagsFirstUse() {
	const g = 16
	type bad struct {
		slot int
		tag  string
	}
	var mu sync.Mutex
	var bads []bad
	start := make(chan struct{})
	var wg sync.WaitGroup
	for i := 0; i < g; i++ {
		wg.Add(1)
		go func(i int) {
			defer wg.Done()
			<-start
			for s := i; s < ref.Slots; s += g {
				tag := checkpoint.BisyncSlotTag(uint16(s))
				if tag == "" || ref.HashSlot([]byte("{"+tag+"}")) != s {
					mu.Lock()
					bads = append(bads, bad{s, tag})
					mu.Unlock()
				}
			}
		}(i)
	}
	close(start)
	wg.Wait()
	r.Eval(ref.Slots)
	r.Count("slot_tags_asked_for_concurrently_at_first_use", ref.Slots)
	if len(bads) > 0 {
		sort.Slice(bads, func(a, b int) bool { return bads[a].slot < bads[b].slot })
		b := bads[0]
		r.Violation("SlotTag|wrong-slot|concurrent-first-use", "slottags-first-use",
			fmt.Sprintf("%d of 16384 answers wrong when the table's first use comes from 16 goroutines at once; first: BisyncSlotTag(%d) = %q, HASH_SLOT({%s}) = %d",
				len(bads), b.slot, b.tag, b.tag, ref.HashSlot([]byte("{"+b.tag+"}"))),
			map[string]any{"wrong_answers": len(bads), "slot": b.slot, "tag": b.tag})
	}
}

func slotTags() {
	{
		names := []string{checkpoint.BisyncCheckpointKeyPrefix + ":0123456789abcdef01234567", config.CheckpointKey, "cp"}
		if n, err := checkpoint.NewBisyncCheckpointName(); err == nil {
			r.Sample(map[string]any{"generated_checkpoint_name": n})
			for i := 0; i < len(n); i++ {
				if n[i] == '{' || n[i] == '}' {
					r.Inconclusive("generated checkpoint name %q contains a brace: control keys cannot be judged with brace-free names", n)
				}
			}
		}
		tags := map[string]int{}
		for s := 0; s < ref.Slots; s++ {
			tag := checkpoint.BisyncSlotTag(uint16(s))
			r.Eval(1)
			r.Count("slot_tags", 1)
			if prev, dup := tags[tag]; dup {
				r.Violation("SlotTag|duplicate", "slottags", fmt.Sprintf("slots %d and %d share tag %q", prev, s, tag), nil)
			}
			tags[tag] = s
			if got := ref.HashSlot([]byte("{" + tag + "}")); got != s {
				r.Violation("SlotTag|wrong-slot", "slottags",
					fmt.Sprintf("BisyncSlotTag(%d) = %q but HASH_SLOT({%s}) = %d", s, tag, tag, got),
					map[string]any{"slot": s, "tag": tag, "got": got})
			}
			for _, name := range names {
				seq := int64(s)*7919 + 1
				for b, key := range map[string]string{
					"marker": checkpoint.BisyncMarkerKey(name, tag),
					"index":  checkpoint.BisyncCommitIndexKey(name, tag),
					"latest": checkpoint.BisyncLatestCheckpointKey(name, tag),
					"commit": checkpoint.BisyncCommitRecordKey(name, tag, seq),
					"rdb":    checkpoint.BisyncRdbRecordKey(name, tag, seq),
				} {
					r.Count("control_keys", 1)
					if got := ref.HashSlot([]byte(key)); got != s {
						r.Violation("SlotTag|control-key|"+b, "slottags",
							fmt.Sprintf("%s key %q of unit slot %d hashes to %d", b, key, s, got),
							map[string]any{"slot": s, "key": key, "got": got})
					}
					if name == names[0] && s%16 == 0 { // the control keys are keys too
						checkKey("control", "slottags", []byte(key))
					}
				}
			}
			if s == 0 || s == ref.Slots-1 {
				r.Sample(map[string]any{"slot": s, "tag": tag, "marker_key": checkpoint.BisyncMarkerKey(names[0], tag)})
			}
		}
		r.Set("slot_tags_distinct", len(tags))
	}
}

func prngFamilies() {
	workers := runtime.GOMAXPROCS(0)
	nRandom := r.N(200000, 20000000)
	const chunk = 2000
	nChunks := (nRandom + chunk - 1) / chunk
	harness.Parallel(nChunks, workers, func(ci int) {
		ck := fmt.Sprintf("prng-%d", ci)
		if !r.WantCase(ck) {
			return
		}
		rng := r.Rand(ck)
		defer func() {
			if e := recover(); e != nil {
				r.Inconclusive("panic while running case %s: %v", ck, e)
			}
		}()
		for i := 0; i < chunk; i++ {
			var key []byte
			fam := ""
			switch k := rng.Intn(100); {
			case k < 45:
				fam = "brace-dense"
				key = ref.BraceString(rng, 1+rng.Intn(24))
			case k < 60:
				// composed canonical shapes: prefix + {tag1} + middle + {tag2} + suffix with empty parts
				fam = "composed"
				part := func() []byte {
					if rng.Intn(3) == 0 {
						return nil
					}
					return ref.BraceString(rng, rng.Intn(4))
				}
				tag := func() []byte {
					b := []byte{'{'}
					if rng.Intn(3) != 0 {
						b = append(b, byte('a'+rng.Intn(26)), byte(rng.Intn(256)))
					}
					if rng.Intn(5) != 0 {
						b = append(b, '}')
					}
					return b
				}
				key = append(key, part()...)
				key = append(key, tag()...)
				key = append(key, part()...)
				key = append(key, tag()...)
				key = append(key, part()...)
			case k < 75:
				fam = "random-bytes"
				key = make([]byte, rng.Intn(40))
				rng.Read(key)
				if len(key) > 4 && rng.Intn(2) == 0 { // plant a tag
					p := rng.Intn(len(key) - 3)
					key[p] = '{'
					key[p+1+rng.Intn(3)] = '}'
				}
			case k < 85:
				fam = "invalid-utf8"
				// truncated / overlong / surrogate sequences around braces
				frags := [][]byte{{0xC3}, {0xE6, 0x97}, {0xF0, 0x9F, 0x98}, {0xC0, 0xAF}, {0xED, 0xA0, 0x80}, {0xFF}, {0xFE}, {'{'}, {'}'}, {'a'}, {0xC3, 0xA9}, {0x80}, {0xBF}, {'{', 0xC3, '}'}, {0xC3, '{'}, {0xE6, '}'}}
				for j, n := 0, 1+rng.Intn(8); j < n; j++ {
					key = append(key, frags[rng.Intn(len(frags))]...)
				}
			case k < 93:
				fam = "checkpoint-suffix" // the family choseKeyInSlots evaluates with KeyToSlot
				key = []byte(config.CheckpointKey + "-")
				for j := 0; j < 20; j++ {
					key = append(key, byte('a'+rng.Intn(26)))
				}
			default:
				fam = "tag-at-end"
				key = append(ref.BraceString(rng, rng.Intn(10)), '{')
				key = append(key, ref.BraceString(rng, rng.Intn(3))...)
				if rng.Intn(2) == 0 {
					key = append(key, '}')
				}
			}
			checkKey(fam, ck, key)
		}
	})

	// long keys (up to 64 KiB): few, the bit-wise reference CRC is slow
	nLong := r.N(300, 20000)
	harness.Parallel(nLong, workers, func(i int) {
		ck := fmt.Sprintf("long-%d", i)
		if !r.WantCase(ck) {
			return
		}
		rng := r.Rand(ck)
		n := []int{255, 256, 257, 4095, 4096, 4097, 65535, 65536}[rng.Intn(8)]
		if rng.Intn(2) == 0 {
			n = 100 + rng.Intn(65436)
		}
		key := make([]byte, n)
		switch rng.Intn(3) {
		case 0:
			rng.Read(key)
		case 1:
			for j := range key {
				key[j] = "ab{}"[rng.Intn(4)]
			}
		default:
			for j := range key {
				key[j] = 'x'
			}
		}
		// plant tags at the start, the end, or both
		switch rng.Intn(5) {
		case 0:
			copy(key, "{t}")
		case 1:
			copy(key[n-3:], "{t}")
		case 2:
			copy(key, "{a}")
			copy(key[n-3:], "{b}")
		case 3:
			copy(key, "{}")
			copy(key[n-3:], "{b}")
		}
		checkKey("long", ck, key)
	})

}
