package main

import (
	"bytes"
	"context"
	"fmt"
	"os"
	"path/filepath"
	"sort"
	"strconv"
	"strings"
	"time"

	"verif/internal/drive"
	"verif/internal/fakeredis"

	"github.com/mgtv-tech/redis-GunYu/config"
	"github.com/mgtv-tech/redis-GunYu/pkg/redis"
	"github.com/mgtv-tech/redis-GunYu/syncer"
)

// ---------------------------------------------------------------------------------------
// process-wide configuration (config.GetSyncerConfig()).  newOutput reads Output.Replay
// (BisyncEnabled, Mode, ResumeFromBreakPoint, …) from it and the GC cron body reads
// Input.Redis / Output.Redis / Channel.StaleCheckpointDuration.  It is only ever written
// between phases, while no tool code runs (see main.go).
// ---------------------------------------------------------------------------------------

const staleDur = 2 * time.Hour // GC threshold; planted mtimes sit ± 20 min around now − staleDur
const eps = 20 * time.Minute   // ≫ run time: the wall clock cannot flip a GC verdict

func initGlobalConfig() error {
	dir, err := os.MkdirTemp("", "c17-builder-")
	if err != nil {
		return err
	}
	defer os.RemoveAll(dir)
	y := `
input:
  redis:
    addresses: ["127.0.0.1:1"]
    type: standalone
channel:
  type: memory
  staleCheckpointDuration: 2h
output:
  redis:
    addresses: ["127.0.0.1:1"]
    type: standalone
  replay:
    bisyncEnabled: false
    resumeFromBreakPoint: true
    stats:
      disableLog: true
`
	p := filepath.Join(dir, "c17.yaml")
	if err := os.WriteFile(p, []byte(y), 0o644); err != nil {
		return err
	}
	if err := config.InitSyncerConfig(p); err != nil {
		return err
	}
	g := config.GetSyncerConfig()
	if g.Channel.StaleCheckpointDuration != staleDur {
		return fmt.Errorf("staleCheckpointDuration = %v after fix()", g.Channel.StaleCheckpointDuration)
	}
	g.Output.Replay.KeepaliveTicker = time.Hour
	g.Output.Replay.UpdateCheckpointTicker = time.Second
	g.Output.Replay.ReplayRdbParallel = 1
	return nil
}

// setReplayMode switches the process-wide replay configuration.  Callers guarantee quiescence.
func setReplayMode(bisync bool, mode config.ReplayMode) {
	g := config.GetSyncerConfig()
	b := bisync
	g.Output.Replay.BisyncEnabled = &b
	g.Output.Replay.Mode = mode
}

// setGcEndpoints points the GC cron body at one source and one target double.
func setGcEndpoints(srcAddr, tgtAddr string) error {
	g := config.GetSyncerConfig()
	g.Input.Redis.Addresses = config.SliceString{srcAddr}
	g.Output.Redis.Addresses = config.SliceString{tgtAddr}
	g.Input.Redis.Version, g.Output.Redis.Version = "7.2.0", "7.2.0"
	if err := redis.FixTopology(g.Input.Redis); err != nil {
		return err
	}
	return redis.FixTopology(g.Output.Redis)
}

// ---------------------------------------------------------------------------------------
// doubles
// ---------------------------------------------------------------------------------------

// newSource starts a double playing the replication source: INFO replication reports the
// given replication ids (everything else is the plain double).
func newSource(id1, id2 string) *fakeredis.Server {
	s := fakeredis.MustStart(fakeredis.Options{})
	body := []byte(fmt.Sprintf("# Replication\r\nrole:master\r\nconnected_slaves:0\r\nmaster_failover_state:no-failover\r\n"+
		"master_replid:%s\r\nmaster_replid2:%s\r\nmaster_repl_offset:0\r\nsecond_repl_offset:-1\r\n\r\n", id1, id2))
	s.SetHooks(nil, func(r *fakeredis.Req) (fakeredis.Reply, bool) {
		if r.Cmd == "INFO" && len(r.Args) == 1 && strings.EqualFold(string(r.Args[0]), "replication") {
			return body, true
		}
		return nil, false
	}, nil)
	return s
}

func newTarget(dbs []fakeredis.DB) *fakeredis.Server {
	s := fakeredis.MustStart(fakeredis.Options{})
	if dbs != nil {
		s.Load(dbs)
	}
	return s
}

func memChannel() config.ChannelConfig {
	return config.ChannelConfig{Type: config.ChannelTypeMemory, Memory: &config.MemoryConfig{MaxSize: 1 << 20, LogSize: 1 << 20},
		StaleCheckpointDuration: staleDur}
}

func syncerCfg(srcAddr, tgtAddr string) syncer.SyncerConfig {
	return syncer.SyncerConfig{Id: 1, Input: drive.StandaloneRedis(srcAddr, "7.2.0"), Output: drive.StandaloneRedis(tgtAddr, "7.2.0"),
		Channel: memChannel(), CanTransaction: true}
}

// ---------------------------------------------------------------------------------------
// the "next start"
// ---------------------------------------------------------------------------------------

// startCfg is one tool configuration as far as start-up bookkeeping is concerned.
type startCfg struct {
	ID1, ID2 string // what the source reports
	// Name != "" : the checkpoint key this topology selects is not the one VerifNewOutput can
	// compute against a standalone double (cluster-style chosen key): start-up = the same two
	// calls newOutput makes, checkpoint.UpdateCheckpoint(Name, ids) + NewRedisOutput{CheckpointName}.
	Name string
}

func (c startCfg) ids() []string { return []string{c.ID1, c.ID2} }

type found struct {
	Has    bool
	Offset int64
	DB     int
	RunID  string
	Err    string
	Out    *syncer.RedisOutput `json:"-"`
}

func (f found) String() string {
	if f.Err != "" {
		return "error: " + f.Err
	}
	if !f.Has {
		return "none"
	}
	return fmt.Sprintf("offset %d in db %d (id %s…)", f.Offset, f.DB, short(f.RunID))
}

func short(id string) string {
	if len(id) > 6 {
		return id[:6]
	}
	return id
}

// nextStart does what a (re)started process does before it replays anything: the start-up
// bookkeeping (VerifNewOutput = syncer.newOutput) and StartPoint on the output it returns.
func nextStart(src *fakeredis.Server, tgtAddr string, c startCfg) found {
	var out *syncer.RedisOutput
	var err error
	if c.Name == "" {
		out, err = syncer.VerifNewOutput(syncerCfg(src.Addr(), tgtAddr))
	} else {
		oc := drive.OutputConfig(tgtAddr, c.ID1)
		oc.CheckpointName = c.Name
		if err = drive.Bookkeeping(oc, c.ids()); err == nil {
			out = syncer.NewRedisOutput(oc)
		}
	}
	if err != nil {
		return found{Err: "start-up bookkeeping: " + err.Error()}
	}
	sp, err := out.StartPoint(context.Background(), c.ids())
	if err != nil {
		return found{Err: "StartPoint: " + err.Error(), Out: out}
	}
	f := found{Offset: sp.Offset, DB: sp.DbId, RunID: sp.RunId, Out: out}
	f.Has = sp.RunId != "?" && sp.RunId != "" && sp.Offset >= 0
	return f
}

// ---------------------------------------------------------------------------------------
// states
// ---------------------------------------------------------------------------------------

// canon is a canonical rendering of a keyspace (state identity for prefix grouping).
func canon(dbs []fakeredis.DB) string {
	var b bytes.Buffer
	for i, d := range dbs {
		if len(d) == 0 {
			continue
		}
		ks := make([]string, 0, len(d))
		for k := range d {
			ks = append(ks, k)
		}
		sort.Strings(ks)
		for _, k := range ks {
			o := d[k]
			fmt.Fprintf(&b, "%d|%s|%s|%d|", i, k, o.Kind, o.ExpireAt)
			switch o.Kind {
			case fakeredis.KString:
				b.Write(o.Str)
			case fakeredis.KHash:
				fs := make([]string, 0, len(o.Hash))
				for f := range o.Hash {
					fs = append(fs, f)
				}
				sort.Strings(fs)
				for _, f := range fs {
					fmt.Fprintf(&b, "%s=%s,", f, o.Hash[f])
				}
			case fakeredis.KZSet:
				fs := make([]string, 0, len(o.ZSet))
				for f := range o.ZSet {
					fs = append(fs, f)
				}
				sort.Strings(fs)
				for _, f := range fs {
					fmt.Fprintf(&b, "%s=%v,", f, o.ZSet[f])
				}
			case fakeredis.KList:
				for _, e := range o.List {
					fmt.Fprintf(&b, "%s,", e)
				}
			case fakeredis.KSet:
				fs := make([]string, 0, len(o.Set))
				for f := range o.Set {
					fs = append(fs, f)
				}
				sort.Strings(fs)
				b.WriteString(strings.Join(fs, ","))
			}
			b.WriteByte('\n')
		}
	}
	return b.String()
}

// bookDump renders the bookkeeping keys of a keyspace for witnesses (mtimes shortened).
func bookDump(dbs []fakeredis.DB) []string {
	var out []string
	for i, d := range dbs {
		ks := make([]string, 0, len(d))
		for k := range d {
			ks = append(ks, k)
		}
		sort.Strings(ks)
		for _, k := range ks {
			o := d[k]
			if !drive.Reserved([]byte(k)) {
				out = append(out, fmt.Sprintf("db%d %s (%s, business)", i, k, o.Kind))
				continue
			}
			switch o.Kind {
			case fakeredis.KHash:
				fs := make([]string, 0, len(o.Hash))
				for f := range o.Hash {
					fs = append(fs, f)
				}
				sort.Strings(fs)
				var sb strings.Builder
				for _, f := range fs {
					fmt.Fprintf(&sb, " %s=%s", shortField(f), shortVal(string(o.Hash[f])))
				}
				out = append(out, fmt.Sprintf("db%d %s {%s }", i, k, sb.String()))
			case fakeredis.KZSet:
				out = append(out, fmt.Sprintf("db%d %s (zset, %d members)", i, k, len(o.ZSet)))
			default:
				out = append(out, fmt.Sprintf("db%d %s (%s)", i, k, o.Kind))
			}
		}
	}
	return out
}

func shortField(f string) string {
	if i := strings.IndexByte(f, '_'); i == 40 {
		return f[:6] + "…" + f[i:]
	}
	if len(f) == 40 {
		return f[:6] + "…"
	}
	return f
}

func shortVal(v string) string {
	if len(v) == 40 {
		return v[:6] + "…"
	}
	return v
}

// cpEntry plants one checkpoint entry (the four fields SetCheckpoint writes).
func cpEntry(s *fakeredis.Server, db int, key, id string, offset int64, mtime int64) {
	if mtime == 0 { // what the incremental phase writes in a DB it SELECTed into
		s.DoS(db, "HSET", key, id+"_runid", id, id+"_version", config.Version, id+"_offset", strconv.FormatInt(offset, 10))
		return
	}
	s.DoS(db, "HSET", key, id+"_mtime", strconv.FormatInt(mtime, 10), id+"_runid", id, id+"_version", config.Version,
		id+"_offset", strconv.FormatInt(offset, 10))
}

func reqDump(reqs []fakeredis.Req) []string {
	var out []string
	for _, r := range reqs {
		var sb strings.Builder
		fmt.Fprintf(&sb, "#%d c%d db%d %s", r.Seq, r.Conn, r.DB, r.Cmd)
		for _, a := range r.Args {
			sb.WriteString(" " + shortField(shortVal(string(a))))
		}
		out = append(out, sb.String())
	}
	return out
}
