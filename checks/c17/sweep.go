package main

import (
	"fmt"
	"strings"

	"verif/internal/drive"
	"verif/internal/fakeredis"
	"verif/internal/harness"

	"github.com/mgtv-tech/redis-GunYu/config"
)

// opLog is one maintenance operation run to completion against a logging double.
type opLog struct {
	Kind   string
	S0     []fakeredis.DB
	Reqs   []fakeredis.Req // requests the operation issued on the target (Seq renumbered from 1)
	Apps   []fakeredis.App // their effects (ReqSeq renumbered)
	N      int64
	OpErr  string
	NewKey string // checkpoint key / namespace the operation moves to ("" = same key)
}

// capture extracts the requests/effects a target saw after request seq0.
func capture(kind string, s0 []fakeredis.DB, t *fakeredis.Server, seq0 int64) *opLog {
	l := &opLog{Kind: kind, S0: s0}
	for _, r := range t.Requests() {
		if r.Seq > seq0 {
			r.Seq -= seq0
			l.Reqs = append(l.Reqs, r)
		}
	}
	for _, a := range t.Applied() {
		if a.ReqSeq > seq0 {
			a.ReqSeq -= seq0
			a.QueuedSeq -= seq0
			if a.Txn != 0 {
				a.Txn -= seq0
			}
			l.Apps = append(l.Apps, a)
		}
	}
	l.N = int64(len(l.Reqs))
	return l
}

// marks are the request numbers that delimit the phases of a move operation.
type marks struct {
	WriteNew int64 // first write of the new entry / first seeding write of the new namespace
	Repoint  int64 // index (redis-gunyu-checkpoint-hash) repointed
	FirstDel int64 // first deletion
	GC       bool
}

func isIndex(key []byte) bool { return string(key) == config.CheckpointKeyHashKey }

// findMarks locates the phases in the operation's request log.  newID: the id the new entry
// is written under (checkpoint moves); gc: the operation only deletes.
func findMarks(l *opLog, newID string, gc bool) marks {
	m := marks{GC: gc}
	for _, a := range l.Apps {
		if !a.Write || a.IsErr || len(a.Args) == 0 {
			continue
		}
		switch a.Cmd {
		case "HSET", "HSETNX", "HMSET":
			if isIndex(a.Args[0]) {
				if m.Repoint == 0 {
					m.Repoint = a.ReqSeq
				}
				continue
			}
			if m.WriteNew == 0 {
				for i := 1; i+1 < len(a.Args); i += 2 {
					if string(a.Args[i]) == newID+"_offset" {
						m.WriteNew = a.ReqSeq
					}
				}
			}
		case "HDEL", "DEL", "UNLINK", "ZREM":
			if m.FirstDel == 0 {
				m.FirstDel = a.ReqSeq
			}
		}
	}
	return m
}

func (m marks) class(n, total int64) string {
	if n >= total {
		return "complete"
	}
	if m.GC {
		if m.FirstDel == 0 || n < m.FirstDel {
			return "before-first-delete"
		}
		return "mid-delete"
	}
	if m.WriteNew == 0 && m.Repoint == 0 {
		if m.FirstDel != 0 && n >= m.FirstDel {
			return "mid-delete"
		}
		return "nothing-moved"
	}
	if m.WriteNew == 0 || n < m.WriteNew {
		if m.Repoint != 0 && n >= m.Repoint {
			return "between-repoint-and-delete-old"
		}
		return "before-write-new"
	}
	if m.Repoint == 0 || n < m.Repoint {
		return "between-write-new-and-repoint"
	}
	return "between-repoint-and-delete-old"
}

// prefixState is one distinct target state reachable by stopping the operation after a
// request prefix.
type prefixState struct {
	N       int64 // first prefix that leaves this state
	Covers  int   // number of request prefixes that leave it
	Classes map[string]bool
	DBs     []fakeredis.DB
}

// prefixStates rebuilds the state after EVERY request prefix 0..N (effects of the prefix
// re-applied to a copy of the initial state) and groups the prefixes by the state they leave.
func prefixStates(l *opLog, m marks) []*prefixState {
	t := fakeredis.New(fakeredis.Options{})
	t.Load(l.S0)
	var order []*prefixState
	byCanon := map[string]*prefixState{}
	var cur *prefixState
	idx := 0
	for n := int64(0); n <= l.N; n++ {
		j := idx
		changed := cur == nil
		for j < len(l.Apps) && l.Apps[j].ReqSeq <= n {
			if l.Apps[j].Write && !l.Apps[j].IsErr {
				changed = true
			}
			j++
		}
		if j > idx {
			t.Replay(l.Apps[idx:j])
			idx = j
		}
		if changed {
			snap := t.Snapshot()
			c := canon(snap)
			ps, ok := byCanon[c]
			if !ok {
				ps = &prefixState{N: n, Classes: map[string]bool{}, DBs: snap}
				byCanon[c] = ps
				order = append(order, ps)
			}
			cur = ps
		}
		cur.Covers++
		cur.Classes[m.class(n, l.N)] = true
	}
	return order
}

// caseCtx carries what a verdict needs for its witness.
type caseCtx struct {
	Key    string // replay key
	Kind   string
	Rep    int
	Layout string
	Desc   any
	OldCfg startCfg
	NewCfg startCfg
	P0     found
	Extra  map[string]any
	SrcNew *fakeredis.Server
}

// judge compares what the next start found with the before-state's position.
// Returns (clause, outcome): clause == "" means the property held for this state.
func judge(p0, f found) (string, string) {
	if f.Err != "" {
		return "next-start-refused", "refused"
	}
	if !p0.Has {
		if f.Has {
			return "", "none-before/some-after"
		}
		return "", "none-before"
	}
	if !f.Has {
		return "position-lost", "lost"
	}
	if f.Offset < p0.Offset {
		return "position-regressed", "regressed"
	}
	if f.DB != p0.DB {
		return "wrong-db", "wrong-db"
	}
	if f.Offset > p0.Offset {
		return "", "advanced"
	}
	return "", "same"
}

// readsModeStateOutsideDb0: the start read a bisync frontier / latest / journal key on a
// connection that was not in database 0 (where the tool keeps them).
func readsModeStateOutsideDb0(reqs []fakeredis.Req) bool {
	for _, r := range reqs {
		if r.DB == 0 || len(r.Args) == 0 || (r.Cmd != "HGETALL" && r.Cmd != "ZRANGEBYSCORE") {
			continue
		}
		k := string(r.Args[0])
		if strings.HasSuffix(k, ":frontier") || strings.HasPrefix(k, "redis-gunyu-bisync:") {
			return true
		}
	}
	return false
}

// foreignFields returns, for every replication id other than the operation's own ids, the fields it
// owns anywhere in the bookkeeping (checkpoint hashes in every database and the index): the live
// positions of the other inputs that share the target.
func foreignFields(dbs []fakeredis.DB, own map[string]bool) map[string]string {
	out := map[string]string{}
	for i, d := range dbs {
		for k, o := range d {
			if !drive.Reserved([]byte(k)) || o.Kind != fakeredis.KHash {
				continue
			}
			for f, v := range o.Hash {
				id := f
				if j := strings.IndexByte(f, '_'); j == 40 {
					id = f[:40]
				}
				if len(id) != 40 || own[id] {
					continue
				}
				if strings.HasSuffix(f, "_mtime") {
					continue
				}
				out[fmt.Sprintf("db%d %s %s", i, k, f)] = string(v)
			}
		}
	}
	return out
}

// checkBystanders: a rename / re-key of one input's checkpoint leaves the entries of every other
// replication id exactly as they were, at every stop point.
func checkBystanders(run *harness.Run, cc *caseCtx, l *opLog, ps *prefixState, m marks) {
	own := map[string]bool{cc.OldCfg.ID1: true, cc.OldCfg.ID2: true, cc.NewCfg.ID1: true, cc.NewCfg.ID2: true}
	before := foreignFields(l.S0, own)
	if len(before) == 0 {
		return
	}
	after := foreignFields(ps.DBs, own)
	run.Count("bystander_fields_compared", int64(len(before)))
	for k, v := range before {
		if w, ok := after[k]; !ok || w != v {
			got := "removed"
			if ok {
				got = "changed to " + shortVal(w)
			}
			run.Violation(fmt.Sprintf("%s|other-input-entry-touched|%s", cc.Kind, m.class(ps.N, l.N)), cc.Key,
				fmt.Sprintf("%s stopped after request %d of %d: field %q of another replication id (another input sharing the target) was %s; it held %s before",
					cc.Kind, ps.N, l.N, k, got, shortVal(v)),
				map[string]any{"rep": cc.Rep, "layout_class": cc.Layout, "initial_bookkeeping": bookDump(l.S0), "state_at_stop": bookDump(ps.DBs),
					"operation_requests": reqDump(l.Reqs), "old_config": cc.OldCfg, "new_config": cc.NewCfg})
			return
		}
	}
}

// sweepOp runs the next start (new configuration, uncut) on every distinct prefix state of
// the operation and reports the clauses.
func sweepOp(run *harness.Run, cc *caseCtx, l *opLog, m marks) {
	states := prefixStates(l, m)
	run.Count("ops_run|"+cc.Kind, 1)
	run.Count("op_requests_logged", l.N)
	run.Count("request_prefixes_covered", l.N+1)
	run.Seen("op_request_counts", fmt.Sprintf("%s:%d", cc.Kind, l.N))
	for _, ps := range states {
		if !m.GC && !strings.HasPrefix(cc.Kind, "mode-switch") {
			checkBystanders(run, cc, l, ps, m)
		}
		t := newTarget(ps.DBs)
		f := nextStart(cc.SrcNew, t.Addr(), cc.NewCfg)
		startReqs := t.Requests()
		t.Close()
		run.Eval(1)
		run.Count("distinct_states_resumed", 1)
		clause, outcome := judge(cc.P0, f)
		classes := make([]string, 0, len(ps.Classes))
		for c := range ps.Classes {
			classes = append(classes, c)
		}
		cls := m.class(ps.N, l.N)
		for _, c := range classes {
			run.Distinct(fmt.Sprintf("%s|%s|%s|%s", cc.Kind, cc.Layout, c, outcome))
			run.Seen("prefix_classes", cc.Kind+"|"+c)
		}
		run.Seen("layout_classes", cc.Layout)
		if i := strings.LastIndexByte(cc.Layout, '/'); i > 0 {
			run.Seen("db_layouts", cc.Layout[:i])
		}
		run.Seen("outcomes", cc.Kind+"|"+outcome)
		if clause == "" {
			continue
		}
		if clause == "next-start-refused" {
			// fail-safe refusal (an error instead of a position): counted, not a violation
			run.Count("next_start_refusals", 1)
			run.Seen("refusals", cc.Kind+"/next-start: "+lastLine(f.Err))
			continue
		}
		sig := fmt.Sprintf("%s|%s|%s", cc.Kind, clause, cls)
		if readsModeStateOutsideDb0(startReqs) && clause != "wrong-db" {
			// minimal context: the start itself looked for the bisync recovery records in the
			// database its checkpoint scan ended in
			sig += "|start-reads-mode-state-in-dbK"
		}
		what := fmt.Sprintf("%s stopped after request %d of %d (%s; stands for %d prefixes): the next start with the new configuration finds %s; "+
			"before the operation a start found %s", cc.Kind, ps.N, l.N, cls, ps.Covers, f, cc.P0)
		w := map[string]any{
			"rep": cc.Rep, "layout_class": cc.Layout, "initial_state": cc.Desc, "initial_bookkeeping": bookDump(l.S0),
			"old_config": cc.OldCfg, "new_config": cc.NewCfg, "before": cc.P0.String(), "after": f.String(),
			"stopped_after_request": ps.N, "operation_requests": reqDump(l.Reqs), "state_at_stop": bookDump(ps.DBs),
			"next_start_requests": reqDump(startReqs), "operation_error": l.OpErr, "prefix_classes_of_state": strings.Join(classes, ","),
			"note": "INFO keyspace → Go map iteration randomises the scan order; the case is repeated (rep) to sample orders, replay re-samples them",
		}
		for k, v := range cc.Extra {
			w[k] = v
		}
		run.Violation(sig, cc.Key, what, w)
	}
}
