package main

import (
	"fmt"
	"math/rand"
	"sort"
	"strings"
	"time"

	"verif/internal/fakeredis"

	"github.com/mgtv-tech/redis-GunYu/config"
)

// Replication ids are 40 hex digits whose FIRST digit is the chronological rank of the id's
// first appearance on the target.  The double returns HGETALL sorted by field name whereas
// Redis returns a small (listpack) hash in insertion order; with ranked ids both orders agree,
// so fetchCheckpoint (which lets the last iterated id's fields win) sees what it would see on
// a real server.
func mkID(rank int, r *rand.Rand) string {
	const hex = "0123456789abcdef"
	b := make([]byte, 40)
	b[0] = hex[rank&15]
	for i := 1; i < 40; i++ {
		b[i] = hex[r.Intn(16)]
	}
	return string(b)
}

var zeroID = strings.Repeat("0", 40)

type entry struct {
	ID    string
	Key   string
	DB    int
	Off   int64
	Mtime int64
	Note  string
}

// layout is one initial bookkeeping state of the resume-from-breakpoint (non-bisync) scheme.
type layout struct {
	Name     string // checkpoint key the index names for the live id
	Old      string // id the source reported so far (live entry is recorded under it)
	Old2     string // its replid2
	New      string // id a failed-over source reports (re-key operations)
	Entries  []entry
	Index    map[string]string // redis-gunyu-checkpoint-hash content
	Business []int             // DBs holding unrelated keys
	None     bool              // no checkpoint at all
	Flags    []string
	LiveDB   int
	P        int64
}

func (l *layout) class(p0 found) string {
	where := "db0"
	if p0.DB != 0 {
		where = "dbK"
	}
	if !p0.Has {
		where = "none"
	}
	dbs := map[int]bool{0: true}
	for _, e := range l.Entries {
		dbs[e.DB] = true
	}
	for _, d := range l.Business {
		dbs[d] = true
	}
	f := append([]string{}, l.Flags...)
	sort.Strings(f)
	return fmt.Sprintf("cp@%s/dbs=%d/%s", where, len(dbs), strings.Join(f, "+"))
}

type genOpt struct {
	ClusterName bool // the index names a cluster-style key (redis-gunyu-checkpoint-<suffix>)
	Failback    bool // the id reported after failover has an old, smaller entry (A→B→A)
	GC          bool // mtimes placed around the staleness threshold
}

func clusterStyleName(r *rand.Rand) string {
	b := make([]byte, 20)
	for i := range b {
		b[i] = byte('a' + r.Intn(26))
	}
	return config.CheckpointKey + "-" + string(b)
}

// genLayout draws an initial state.  now = wall clock at generation (ns).
func genLayout(r *rand.Rand, o genOpt, now int64) *layout {
	l := &layout{Name: config.CheckpointKey, Index: map[string]string{}}
	if o.ClusterName {
		l.Name = clusterStyleName(r)
		l.Flags = append(l.Flags, "cluster-key")
	}
	l.Old = mkID(6, r)
	l.Old2 = zeroID
	if r.Intn(3) == 0 {
		l.Old2 = mkID(4, r)
	}
	// Failback (A→B→A): the id reported after the failover already has an old, smaller entry.
	// Variant "same object": it lives in the hash that also holds the live entry (then the id is
	// ranked before the live one and the layout has no lower entries of the live id elsewhere);
	// variant "own db": it lives in a DB holding no other entry (id ranked after the live one).
	// Either way sorted field order = insertion order in every hash an operation can produce.
	fbSame := o.Failback && r.Intn(2) == 0
	if fbSame {
		l.New = mkID(3, r)
	} else {
		l.New = mkID(9, r)
	}
	// mtime positions: GC states straddle the threshold, others are simply "some time ago"
	mt := func(class string) int64 {
		switch class {
		case "stale":
			return now - int64(staleDur) - int64(eps) - int64(r.Intn(1000))*int64(time.Second)
		case "fresh":
			return now - int64(staleDur) + int64(eps) + int64(r.Intn(600))*int64(time.Second)
		default: // recent
			return now - int64(time.Minute) - int64(r.Intn(600))*int64(time.Second)
		}
	}
	pick := func() string {
		if o.GC {
			return []string{"stale", "stale", "fresh", "recent"}[r.Intn(4)]
		}
		return []string{"stale", "fresh", "recent", "recent"}[r.Intn(4)]
	}
	if !o.GC && r.Intn(12) == 0 {
		l.None = true
		l.Flags = append(l.Flags, "no-checkpoint")
	}
	dbPool := r.Perm(15)
	for i := range dbPool {
		dbPool[i]++ // 1..15
	}
	nextDB := func() int { d := dbPool[0]; dbPool = dbPool[1:]; return d }

	l.P = int64(1000 + r.Intn(1_000_000_000))
	l.LiveDB = 0
	if r.Intn(3) != 0 {
		l.LiveDB = nextDB()
	}
	if !l.None {
		liveM := pick()
		live := entry{ID: l.Old, Key: l.Name, DB: l.LiveDB, Off: l.P, Mtime: mt(liveM), Note: "live/" + liveM}
		l.Index[l.Old] = l.Name
		if o.GC {
			l.Flags = append(l.Flags, "live-"+liveM)
		}
		// equal offset in a second DB (the mtimes decide which one a start picks)
		if r.Intn(4) == 0 {
			m := pick()
			edb := nextDB()
			if l.LiveDB != 0 && r.Intn(2) == 0 {
				edb = 0
			}
			e := entry{ID: l.Old, Key: l.Name, DB: edb, Off: l.P, Mtime: mt(m), Note: "equal-offset/" + m}
			if e.Mtime == live.Mtime {
				e.Mtime--
			}
			l.Entries = append(l.Entries, e)
			l.Flags = append(l.Flags, "equal-offsets-2dbs")
		}
		l.Entries = append(l.Entries, live)
		// smaller offsets of the same id in other DBs (left behind by earlier SELECTs)
		for k := r.Intn(3); k > 0 && !fbSame; k-- {
			m := pick()
			e := entry{ID: l.Old, Key: l.Name, DB: nextDB(), Off: l.P - int64(1+r.Intn(900)), Mtime: mt(m), Note: "lower/" + m}
			if r.Intn(3) == 0 {
				// entries written by the incremental phase in a DB it SELECTed into carry no mtime
				e.Mtime, e.Note = 0, "lower/no-mtime"
			}
			l.Entries = append(l.Entries, e)
			l.Flags = append(l.Flags, "lower-in-other-db")
		}
		if l.Old2 != zeroID && r.Intn(2) == 0 {
			// the previous id of the old source still has an (older, smaller) entry
			db := l.LiveDB
			if r.Intn(2) == 0 {
				db = nextDB()
			}
			l.Entries = append(l.Entries, entry{ID: l.Old2, Key: l.Name, DB: db, Off: l.P - int64(1000+r.Intn(5000)), Mtime: mt("stale"), Note: "replid2-entry"})
			if r.Intn(2) == 0 {
				l.Index[l.Old2] = l.Name
			}
			l.Flags = append(l.Flags, "replid2-entry")
		}
	}
	if o.Failback {
		db := nextDB()
		if fbSame {
			db = l.LiveDB
		}
		l.Entries = append(l.Entries, entry{ID: l.New, Key: l.Name, DB: db, Off: maxi64(1, l.P-int64(10_000+r.Intn(50_000))), Mtime: mt("stale"), Note: "failback-old-entry"})
		if r.Intn(2) == 0 {
			l.Index[l.New] = l.Name
		}
		if fbSame {
			l.Flags = append(l.Flags, "new-id-in-live-hash")
		} else {
			l.Flags = append(l.Flags, "new-id-in-own-db")
		}
	}
	// stale entries of unrelated ids (sources replaced long ago), possibly under another key
	for k := r.Intn(3); k > 0; k-- {
		id := mkID(1+r.Intn(2), r)
		key := l.Name
		if r.Intn(3) == 0 {
			key = clusterStyleName(r)
		}
		db := nextDB()
		if r.Intn(3) == 0 {
			db = l.LiveDB
		}
		m := pick()
		l.Entries = append(l.Entries, entry{ID: id, Key: key, DB: db, Off: int64(1 + r.Intn(2_000_000_000)), Mtime: mt(m), Note: "foreign/" + m})
		l.Index[id] = key
		l.Flags = append(l.Flags, "foreign-ids")
	}
	for k := r.Intn(3); k > 0; k-- {
		l.Business = append(l.Business, nextDB())
	}
	if r.Intn(2) == 0 {
		l.Business = append(l.Business, 0)
	}
	l.Flags = uniq(l.Flags)
	return l
}

func uniq(s []string) []string {
	m := map[string]bool{}
	var o []string
	for _, x := range s {
		if !m[x] {
			m[x] = true
			o = append(o, x)
		}
	}
	return o
}

func maxi64(a, b int64) int64 {
	if a > b {
		return a
	}
	return b
}

// build materialises the layout on a fresh double and returns its keyspace.
func (l *layout) build() []fakeredis.DB {
	s := fakeredis.New(fakeredis.Options{})
	// insertion order = chronological order (see mkID)
	es := append([]entry{}, l.Entries...)
	sort.SliceStable(es, func(i, j int) bool { return es[i].ID < es[j].ID })
	for _, e := range es {
		cpEntry(s, e.DB, e.Key, e.ID, e.Off, e.Mtime)
	}
	ids := make([]string, 0, len(l.Index))
	for id := range l.Index {
		ids = append(ids, id)
	}
	sort.Strings(ids)
	for _, id := range ids {
		s.DoS(0, "HSET", config.CheckpointKeyHashKey, id, l.Index[id])
	}
	for _, d := range l.Business {
		s.DoS(d, "SET", fmt.Sprintf("biz:%d", d), "v")
	}
	return s.Snapshot()
}

func (l *layout) describe() map[string]any {
	var es []string
	for _, e := range l.Entries {
		es = append(es, fmt.Sprintf("db%d %s id=%s… offset=%d mtime=%s (%s)", e.DB, e.Key, short(e.ID), e.Off, agoStr(e.Mtime), e.Note))
	}
	idx := []string{}
	for id, n := range l.Index {
		idx = append(idx, short(id)+"…→"+n)
	}
	sort.Strings(idx)
	return map[string]any{"old_id": l.Old, "old_replid2": l.Old2, "new_id": l.New, "entries": es, "index": idx, "business_dbs": l.Business}
}

func agoStr(mt int64) string {
	if mt == 0 {
		return "none"
	}
	return fmt.Sprintf("now-%v", time.Duration(time.Now().UnixNano()-mt).Round(time.Minute))
}
