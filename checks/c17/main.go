// C17 — resume bookkeeping maintenance never loses the live resume position.
//
// Operations under test (each issues 5–25 requests on the target): checkpoint key rename,
// re-key to a new replication id after a source failover (start-up path and
// RedisOutput.SetRunId), bisync replay-mode switch (namespace seeding / repointing / cleanup)
// and the stale-checkpoint GC (cron body and checkpoint.DelStaleCheckpoint).
//
// Method: an initial bookkeeping state is built on a target double; (P0, db0) = what the next
// start would find with the OLD configuration, measured by running the real start-up
// (syncer.VerifNewOutput + StartPoint) on a COPY of the state.  The operation is run once,
// fully, against a logging double.  For EVERY prefix of the requests it issued the state is
// rebuilt (effect log re-applied to a copy of the initial state; prefixes grouped by the state
// they leave) and the NEXT START with the NEW configuration is run uncut on it: it must find
// P ≥ P0 in db0 (or none only if none existed).
package main

import (
	"context"
	"fmt"
	"hash/crc32"
	"strings"
	"sync/atomic"
	"time"

	"verif/internal/bisweep"
	"verif/internal/drive"
	"verif/internal/fakeredis"
	"verif/internal/harness"

	"github.com/mgtv-tech/redis-GunYu/cmd"
	"github.com/mgtv-tech/redis-GunYu/config"
	"github.com/mgtv-tech/redis-GunYu/pkg/redis/checkpoint"
	"github.com/mgtv-tech/redis-GunYu/pkg/redis/client"
	"github.com/mgtv-tech/redis-GunYu/syncer"
)

const (
	opRenameFwd   = "rename-to-cluster-key" // checkpoint.UpdateCheckpoint(<cluster-style key>, ids)
	opRenameBack  = "rename-to-standard-key"
	opRekeyStart  = "rekey-at-start"
	opRekeySetRun = "rekey-setrunid"
	opRenameRekey = "rename+rekey-at-start"
	opModeSwitch  = "mode-switch"
	opGcCron      = "gc-cron"
	opGcDirect    = "gc-direct"
)

var reps = 8

func main() {
	drive.Quiet()
	run := harness.New("C17", "fault_enumeration",
		"case = PRNG(seed,i) → (operation kind, initial bookkeeping layout: which DBs hold checkpoints / equal offsets in two DBs / lower offsets / "+
			"foreign and previous ids / index content / unrelated non-empty DBs; bisync states are produced by a real bisync replay); every case is run 8× "+
			"(Go map order of the INFO-keyspace scan); per run EVERY request prefix of the operation is a stop point, prefixes are grouped by the target "+
			"state they leave and the real next start (VerifNewOutput + StartPoint, new configuration) is run once per distinct state; exhaustive per observed "+
			"request sequence; distinct = (operation kind, layout class, prefix class, outcome)")
	run.Watchdog(100 * time.Minute)
	run.Assume("target state after a stop = effects of a prefix of the requests the double executed (fakeredis effect log re-applied to a copy of the initial state)")
	run.Assume("the double returns HGETALL sorted by field; replication ids are ranked so that this equals Redis' insertion order for small hashes")
	run.Assume("the cluster role of the double is not built: the 'cluster-style' key is exercised through checkpoint.UpdateCheckpoint / RedisOutput with that CheckpointName against a standalone double")
	run.MinDistinct(12)
	if err := initGlobalConfig(); err != nil {
		run.Inconclusive("global configuration: %v", err)
		run.Exit()
	}
	if run.Replaying() {
		reps = 24
	}
	nCp := run.N(110, 2800) // layouts × the five checkpoint-move operations
	nGc := run.N(50, 1300)
	nBi := run.N(40, 900)

	transientCases = run.N(6, 120)
	setReplayMode(false, "sync")
	checkpointMoves(run, nCp)
	gcCases(run, nGc)
	gcOverlapsRekey(run, run.N(30, 400))
	bisyncCases(run, nBi)

	// the format switch with one lost reply on a target whose client stays usable (cluster of one
	// primary; engine of C14's fault sweeps, which installs its own process-wide configuration:
	// nothing of this check runs beside it)
	nSw := run.N(1, 12)
	drv := bisweep.NewDriver(syncer.VerifNewOutput)
	bisweep.SwitchSweeps(run, bisweep.FaultOptions{NCases: nSw, Workers: 3, Driver: drv, Factory: bisweep.NewStandalone, DelSamples: run.N(1, 8)})
	drv.Close()
	if err := initGlobalConfig(); err != nil {
		run.Inconclusive("global configuration: %v", err)
	}

	setReplayMode(false, "sync")
	run.Set("cases", map[string]int{"checkpoint_moves": nCp, "gc": nGc, "mode_switch": nBi, "mode_switch_lost_reply_on_cluster_of_one": nSw})
	run.Set("repetitions_per_case", reps)
	run.Exit()
}

// ---------------------------------------------------------------------------------------
// checkpoint key rename / re-key
// ---------------------------------------------------------------------------------------

func checkpointMoves(run *harness.Run, n int) {
	kinds := []string{opRenameFwd, opRenameBack, opRekeyStart, opRekeySetRun, opRenameRekey}
	harness.Parallel(n, 12, func(i int) {
		key := fmt.Sprintf("move-%d", i)
		if !run.WantCase(key) {
			return
		}
		r := run.Rand(key)
		kind := kinds[i%len(kinds)]
		o := genOpt{ClusterName: kind == opRenameBack || kind == opRenameRekey}
		if kind == opRekeyStart || kind == opRekeySetRun || kind == opRenameRekey {
			o.Failback = r.Intn(3) == 0
		}
		l := genLayout(r, o, time.Now().UnixNano())
		newKey := clusterStyleName(r)
		for rep := 0; rep < reps; rep++ {
			oneMove(run, key, kind, rep, l, newKey, i/len(kinds) < transientCases || run.Replaying())
		}
	})
}

func oneMove(run *harness.Run, key, kind string, rep int, l *layout, newKey string, transient bool) {
	if !l.None && len(l.Entries) > 0 && !hasFlag(l, "stale-copy-under-new-name") && crc32.ChecksumIEEE([]byte(key))%4 == 0 {
		// an earlier rename to the same destination was interrupted after its first write and the
		// name flapped back: a copy with a smaller offset of the same id waits under the new name
		dest := ""
		switch kind {
		case opRenameFwd:
			dest = newKey
		case opRenameBack:
			// (not for rename+rekey: two ids in one hash — the double returns HGETALL sorted by
			// field, a small Redis hash in insertion order, and fetchCheckpoint lets the last one win)
			dest = config.CheckpointKey
		}
		if dest != "" && dest != l.Name {
			l.Entries = append(l.Entries, entry{ID: l.Old, Key: dest, DB: l.LiveDB, Off: l.P - int64(1+crc32.ChecksumIEEE([]byte(key))%800), Mtime: time.Now().UnixNano() - int64(time.Hour), Note: "stale-copy-under-new-name"})
			l.Flags = append(l.Flags, "stale-copy-under-new-name")
		}
	}
	s0 := l.build()
	oldCfg := startCfg{ID1: l.Old, ID2: l.Old2}
	newCfg := oldCfg
	switch kind {
	case opRenameFwd:
		newCfg.Name = newKey
	case opRenameBack:
		oldCfg.Name = l.Name
	case opRekeyStart, opRekeySetRun:
		newCfg = startCfg{ID1: l.New, ID2: l.Old}
	case opRenameRekey:
		oldCfg.Name = l.Name
		newCfg = startCfg{ID1: l.New, ID2: l.Old}
	}
	srcOld := newSource(oldCfg.ID1, oldCfg.ID2)
	defer srcOld.Close()
	srcNew := newSource(newCfg.ID1, newCfg.ID2)
	defer srcNew.Close()

	t := newTarget(s0)
	defer t.Close()
	var running *syncer.RedisOutput
	if kind == opRekeySetRun {
		// the operation happens inside a running process: its own start comes first
		f := nextStart(srcOld, t.Addr(), oldCfg)
		if f.Err != "" {
			run.Inconclusive("%s: start of the running process failed: %s", key, f.Err)
			return
		}
		running = f.Out
		s0 = t.Snapshot()
	}
	// BEFORE: what the next start would find with the old configuration (on a copy)
	tc := newTarget(s0)
	p0 := nextStart(srcOld, tc.Addr(), oldCfg)
	tc.Close()
	if p0.Err != "" {
		run.Inconclusive("%s: before-measurement failed: %s", key, p0.Err)
		return
	}
	if l.None == p0.Has {
		run.Inconclusive("%s: layout none=%v but the old-configuration start found %s", key, l.None, p0)
		return
	}

	// the operation, run once fully against the logging double
	seq0 := t.Seq()
	var opErr error
	switch kind {
	case opRenameFwd:
		oc := drive.OutputConfig(t.Addr(), l.Old)
		oc.CheckpointName = newKey
		opErr = drive.Bookkeeping(oc, oldCfg.ids())
	case opRenameBack, opRekeyStart, opRenameRekey:
		_, opErr = syncer.VerifNewOutput(syncerCfg(srcNew.Addr(), t.Addr()))
	case opRekeySetRun:
		opErr = running.SetRunId(context.Background(), l.New)
	}
	lg := capture(kind, s0, t, seq0)
	lg.NewKey = newCfg.Name
	if opErr != nil {
		lg.OpErr = opErr.Error()
		run.Inconclusive("%s rep %d: operation returned %v", key, rep, opErr)
		return
	}
	m := findMarks(lg, newCfg.ID1, false)
	cc := &caseCtx{Key: key, Kind: kind, Rep: rep, Layout: l.class(p0), Desc: l.describe(), OldCfg: oldCfg, NewCfg: newCfg, P0: p0, SrcNew: srcNew}
	sweepOp(run, cc, lg, m)
	if kind == opRekeySetRun && rep == 0 && transient {
		transientSetRunId(run, cc, s0, srcOld, l.New, lg, m)
	}
	sampleOnce(run, cc, lg)
}

// number of rekey-setrunid cases that also get the transient-error sweep (each step costs one
// retry pause of the tool, ~4 s, steps run concurrently)
var transientCases int

var sampled = map[string]bool{}
var sampledMu = make(chan struct{}, 1)

func hasFlag(l *layout, f string) bool {
	for _, x := range l.Flags {
		if x == f {
			return true
		}
	}
	return false
}

func sampleOnce(run *harness.Run, cc *caseCtx, lg *opLog) {
	sampledMu <- struct{}{}
	defer func() { <-sampledMu }()
	if sampled[cc.Kind] || len(sampled) >= 4 {
		return
	}
	sampled[cc.Kind] = true
	run.Sample(map[string]any{"case": cc.Key, "kind": cc.Kind, "layout": cc.Layout, "before": cc.P0.String(), "operation_requests": reqDump(lg.Reqs)})
}

// ---------------------------------------------------------------------------------------
// stale-checkpoint GC
// ---------------------------------------------------------------------------------------

type gcJob struct {
	key    string
	kind   string
	rep    int
	l      *layout
	s0     []fakeredis.DB
	lg     *opLog
	cfg    startCfg
	stale  time.Duration
	direct []string
}

func gcCases(run *harness.Run, n int) {
	var jobs []*gcJob
	ctx := context.Background()
	// phase 1 (serial: the cron body reads its endpoints from the process-wide configuration)
	for i := 0; i < n; i++ {
		key := fmt.Sprintf("gc-%d", i)
		if !run.WantCase(key) {
			continue
		}
		r := run.Rand(key)
		kind := opGcCron
		if i%3 == 2 {
			kind = opGcDirect
		}
		l := genLayout(r, genOpt{GC: true, Failback: r.Intn(4) == 0}, time.Now().UnixNano())
		cfg := startCfg{ID1: l.Old, ID2: l.Old2}
		src := newSource(cfg.ID1, cfg.ID2)
		for rep := 0; rep < reps; rep++ {
			s0 := l.build()
			t := newTarget(s0)
			j := &gcJob{key: key, kind: kind, rep: rep, l: l, s0: s0, cfg: cfg, stale: staleDur}
			if kind == opGcCron {
				if err := setGcEndpoints(src.Addr(), t.Addr()); err != nil {
					run.Inconclusive("%s: %v", key, err)
					t.Close()
					continue
				}
				cmd.NewSyncerCmd().VerifGcStaleCheckpoint(ctx)
			} else {
				// clock positions by moving the threshold instead of the mtimes
				j.stale = []time.Duration{staleDur, staleDur - 2*eps, staleDur + 2*eps, 30 * time.Second, 100 * time.Hour}[r.Intn(5)]
				if err := gcDirect(t, l, cfg, j); err != nil {
					run.Inconclusive("%s: %v", key, err)
					t.Close()
					continue
				}
			}
			j.lg = capture(kind, s0, t, 0)
			t.Close()
			jobs = append(jobs, j)
		}
		src.Close()
	}
	// phase 2: judge every prefix
	harness.Parallel(len(jobs), 12, func(i int) {
		j := jobs[i]
		src := newSource(j.cfg.ID1, j.cfg.ID2)
		defer src.Close()
		tc := newTarget(j.s0)
		p0 := nextStart(src, tc.Addr(), j.cfg)
		tc.Close()
		if p0.Err != "" {
			run.Inconclusive("%s: before-measurement failed: %s", j.key, p0.Err)
			return
		}
		m := findMarks(j.lg, "", true)
		cc := &caseCtx{Key: j.key, Kind: j.kind, Rep: j.rep, Layout: j.l.class(p0), Desc: j.l.describe(), OldCfg: j.cfg, NewCfg: j.cfg, P0: p0, SrcNew: src,
			Extra: map[string]any{"stale_threshold": j.stale.String(), "direct_calls": j.direct}}
		sweepOp(run, cc, j.lg, m)
		gcNewestSurvives(run, cc, j)
		sampleOnce(run, cc, j.lg)
	})
}

// gcDirect calls checkpoint.DelStaleCheckpoint for every index entry the way the cron body
// does (exceptNewest = the id is one a source still reports), with the job's threshold.
func gcDirect(t *fakeredis.Server, l *layout, cfg startCfg, j *gcJob) error {
	cli, err := client.NewRedis(drive.StandaloneRedis(t.Addr(), "7.2.0"))
	if err != nil {
		return err
	}
	defer cli.Close()
	data, err := checkpoint.GetAllCheckpointHash(cli)
	if err != nil {
		return err
	}
	for i := 0; i+1 < len(data); i += 2 {
		id, name := data[i], data[i+1]
		live := id == cfg.ID1 || id == cfg.ID2
		total, deleted, err := checkpoint.DelStaleCheckpoint(cli, name, id, j.stale, live)
		j.direct = append(j.direct, fmt.Sprintf("DelStaleCheckpoint(%s, %s…, %v, exceptNewest=%v) = (%d, %d, %v)", name, short(id), j.stale, live, total, deleted, err))
		if err != nil {
			return err
		}
		if !live && total == deleted {
			if err := checkpoint.DelCheckpointHash(cli, id); err != nil {
				return err
			}
		}
	}
	return nil
}

// gcOverlapsRekey: two maintenance operations interleave.  The GC tick has just asked the source
// for its replication ids (A) when the source fails over and the running syncer, granted a
// continuation, re-keys the position from A to B (SetRunId → UpdateCheckpoint); the tick then reads
// the index and collects.  The position is older than the staleness threshold (replay never
// refreshes mtime), so all that protects it is what the move wrote.  Afterwards a start with the
// ids the source reports now (B, A) must find the position, in the same database.
func gcOverlapsRekey(run *harness.Run, n int) {
	ctx := context.Background()
	for i := 0; i < n; i++ {
		key := fmt.Sprintf("gcrekey-%d", i)
		if !run.WantCase(key) {
			continue
		}
		r := run.Rand(key)
		now := time.Now().UnixNano()
		l := genLayout(r, genOpt{GC: true}, now)
		if l.None {
			continue
		}
		for k := range l.Entries { // a long-running sync: nothing has touched the bookkeeping for days
			if l.Entries[k].Mtime != 0 {
				l.Entries[k].Mtime = now - int64(staleDur) - int64(time.Hour) - int64(r.Intn(100000))*int64(time.Second)
			}
		}
		oldCfg := startCfg{ID1: l.Old, ID2: l.Old2}
		newCfg := startCfg{ID1: l.New, ID2: l.Old}
		srcOld := newSource(oldCfg.ID1, oldCfg.ID2)
		srcNew := newSource(newCfg.ID1, newCfg.ID2)
		t := newTarget(l.build())
		f := nextStart(srcOld, t.Addr(), oldCfg) // the running syncer
		if f.Err != "" || f.Out == nil {
			run.Inconclusive("%s: start of the running process failed: %s", key, f.Err)
			srcOld.Close()
			srcNew.Close()
			t.Close()
			continue
		}
		s0 := t.Snapshot()
		tc := newTarget(s0)
		p0 := nextStart(srcOld, tc.Addr(), oldCfg)
		tc.Close()
		// the source the GC tick talks to: answers its first INFO replication with the old ids and
		// fails over right then (the re-key happens while that reply is in flight)
		oldBody := []byte(fmt.Sprintf("# Replication\r\nrole:master\r\nconnected_slaves:0\r\nmaster_failover_state:no-failover\r\n"+
			"master_replid:%s\r\nmaster_replid2:%s\r\nmaster_repl_offset:0\r\nsecond_repl_offset:-1\r\n\r\n", oldCfg.ID1, oldCfg.ID2))
		newBody := []byte(fmt.Sprintf("# Replication\r\nrole:master\r\nconnected_slaves:0\r\nmaster_failover_state:no-failover\r\n"+
			"master_replid:%s\r\nmaster_replid2:%s\r\nmaster_repl_offset:0\r\nsecond_repl_offset:-1\r\n\r\n", newCfg.ID1, newCfg.ID2))
		src := fakeredis.MustStart(fakeredis.Options{})
		var rekeyErr error
		rekeyed := false
		// topology discovery asks INFO too, and the tick asks every input node (masters, then
		// replicas — the same address again): the fail-over waits for the LAST question of the tick.
		// A dry tick against a copy of the target counts them.
		var armed atomic.Bool
		var asked, lastQuestion atomic.Int64
		src.SetHooks(nil, func(q *fakeredis.Req) (fakeredis.Reply, bool) {
			if q.Cmd != "INFO" || len(q.Args) != 1 || !strings.EqualFold(string(q.Args[0]), "replication") {
				return nil, false
			}
			if rekeyed {
				return newBody, true
			}
			if !armed.Load() {
				return oldBody, true
			}
			if asked.Add(1) < lastQuestion.Load() {
				return oldBody, true
			}
			rekeyed = true
			rekeyErr = f.Out.SetRunId(ctx, l.New) // talks to the target double only
			return oldBody, true
		}, nil)
		seq0 := t.Seq()
		if err := setGcEndpoints(src.Addr(), t.Addr()); err != nil {
			run.Inconclusive("%s: %v", key, err)
		} else {
			dry := newTarget(s0)
			_ = setGcEndpoints(src.Addr(), dry.Addr())
			lastQuestion.Store(1 << 40)
			armed.Store(true)
			cmd.NewSyncerCmd().VerifGcStaleCheckpoint(ctx)
			armed.Store(false)
			dry.Close()
			lastQuestion.Store(asked.Load())
			asked.Store(0)
			if err := setGcEndpoints(src.Addr(), t.Addr()); err != nil {
				run.Inconclusive("%s: %v", key, err)
			}
			armed.Store(true)
			cmd.NewSyncerCmd().VerifGcStaleCheckpoint(ctx)
			lg := capture("gc-overlaps-rekey", s0, t, seq0)
			after := t.Snapshot()
			switch {
			case !rekeyed:
				run.Inconclusive("%s: the GC tick never asked the source for its ids", key)
			case rekeyErr != nil:
				run.Inconclusive("%s: re-key failed: %v", key, rekeyErr)
			case p0.Err != "":
				run.Inconclusive("%s: before-measurement failed: %s", key, p0.Err)
			default:
				tn := newTarget(after)
				g := nextStart(srcNew, tn.Addr(), newCfg)
				tn.Close()
				run.Eval(1)
				run.Count("gc_ticks_overlapping_a_rekey", 1)
				clause, outcome := judge(p0, g)
				run.Distinct(fmt.Sprintf("gc-overlaps-rekey|%s|%s", l.class(p0), outcome))
				if clause != "" && clause != "next-start-refused" {
					run.Violation("gc-overlaps-rekey|"+clause, key,
						fmt.Sprintf("the GC tick read the source's ids, the source failed over and the position was re-keyed, the tick went on: the next start finds %s; before a start found %s", g, p0),
						map[string]any{"layout_class": l.class(p0), "initial_state": l.describe(), "initial_bookkeeping": bookDump(s0), "requests_rekey_and_gc": reqDump(lg.Reqs),
							"state_after": bookDump(after), "old_config": oldCfg, "new_config": newCfg})
				}
			}
		}
		src.Close()
		srcOld.Close()
		srcNew.Close()
		t.Close()
	}
}

// gcNewestSurvives: for every id the source still reports, an entry with the largest offset
// held before the GC is still there after it (clause 2 of the statement), whatever its mtime.
func gcNewestSurvives(run *harness.Run, cc *caseCtx, j *gcJob) {
	after := fakeredis.New(fakeredis.Options{})
	after.Load(j.s0)
	after.Replay(j.lg.Apps)
	post := after.Snapshot()
	for _, id := range []string{j.cfg.ID1, j.cfg.ID2} {
		best := int64(-1)
		bestAge := ""
		for _, e := range j.l.Entries {
			if e.ID == id && e.Off > best {
				best, bestAge = e.Off, e.Note
			}
		}
		if best < 0 {
			continue
		}
		run.Eval(1)
		run.Count("gc_live_ids_checked", 1)
		run.Seen("gc_newest_clock_positions", bestAge+"/threshold="+j.stale.String())
		ok := false
		for _, d := range post {
			for _, o := range d {
				if o.Kind == fakeredis.KHash && string(o.Hash[id+"_offset"]) == fmt.Sprint(best) {
					ok = true
				}
			}
		}
		if !ok {
			run.Violation(j.kind+"|newest-entry-of-live-id-removed", cc.Key,
				fmt.Sprintf("GC removed every entry with the largest offset (%d) of id %s… which the source still reports", best, short(id)),
				map[string]any{"rep": j.rep, "initial_state": cc.Desc, "requests": reqDump(j.lg.Reqs), "after": bookDump(post), "threshold": j.stale.String(), "direct_calls": j.direct})
		}
	}
}

// ---------------------------------------------------------------------------------------
// re-key inside a running process, one step answered with an error
// ---------------------------------------------------------------------------------------

// transientSetRunId: RedisOutput.SetRunId retries its bookkeeping when a step fails. For every
// request k of the uninterrupted operation the same operation is run again from the same
// initial state, the k-th request is answered with an error once (the step did not happen),
// the tool retries by itself, and the next start must still find the position. The stop
// point is the failed step; what follows it is the tool's own continuation.
func transientSetRunId(run *harness.Run, cc *caseCtx, s0 []fakeredis.DB, srcOld *fakeredis.Server, newID string, lg *opLog, m marks) {
	done := make(chan struct{}, lg.N)
	for k := int64(1); k <= lg.N; k++ {
		go func(k int64) {
			defer func() { done <- struct{}{} }()
			t := newTarget(s0)
			defer t.Close()
			f := nextStart(srcOld, t.Addr(), cc.OldCfg)
			if f.Err != "" || f.Out == nil {
				run.Inconclusive("%s: start of the running process failed (transient sweep): %s", cc.Key, f.Err)
				return
			}
			seq0 := t.Seq()
			var fired atomic.Bool
			var failed string
			t.SetHooks(nil, func(q *fakeredis.Req) (fakeredis.Reply, bool) {
				if q.Seq-seq0 == k && fired.CompareAndSwap(false, true) {
					failed = q.Cmd
					return fakeredis.Err("ERR injected transient failure"), true
				}
				return nil, false
			}, nil)
			opErr := f.Out.SetRunId(context.Background(), newID)
			t.SetHooks(nil, nil, nil)
			if !fired.Load() {
				run.Count("transient_step_not_reached", 1)
				return
			}
			after := t.Snapshot()
			reqs := capture(cc.Kind, s0, t, seq0).Reqs
			tn := newTarget(after)
			g := nextStart(cc.SrcNew, tn.Addr(), cc.NewCfg)
			tn.Close()
			run.Eval(1)
			run.Count("transient_error_steps_run", 1)
			clause, outcome := judge(cc.P0, g)
			cls := m.class(k-1, lg.N)
			run.Distinct(fmt.Sprintf("%s|transient|%s|%s|%s|%s", cc.Kind, cc.Layout, cls, failed, outcome))
			run.Seen("outcomes", cc.Kind+"/transient|"+outcome)
			if clause == "" {
				return
			}
			if clause == "next-start-refused" {
				run.Count("next_start_refusals", 1)
				return
			}
			sig := fmt.Sprintf("%s|%s|step-answered-with-error-then-retried|%s", cc.Kind, clause, cls)
			errs := "<nil>"
			if opErr != nil {
				errs = opErr.Error()
			}
			run.Violation(sig, cc.Key, fmt.Sprintf("%s: request %d of %d (%s, %s) was answered with an error once, SetRunId (with its own retries) returned %s; "+
				"the next start with the new configuration finds %s; before the operation a start found %s", cc.Kind, k, lg.N, failed, cls, errs, g, cc.P0),
				map[string]any{"rep": cc.Rep, "layout_class": cc.Layout, "initial_state": cc.Desc, "initial_bookkeeping": bookDump(s0),
					"old_config": cc.OldCfg, "new_config": cc.NewCfg, "before": cc.P0.String(), "after": g.String(), "failed_request": k,
					"requests_of_the_uninterrupted_operation": reqDump(lg.Reqs), "requests_with_the_failed_step": reqDump(reqs), "state_after": bookDump(after)})
		}(k)
	}
	for k := int64(1); k <= lg.N; k++ {
		<-done
	}
}
