package main

import (
	"bytes"
	"context"
	"fmt"
	"math/rand"
	"os"
	"strings"
	"sync/atomic"
	"time"

	"verif/internal/drive"
	"verif/internal/fakeredis"
	"verif/internal/harness"

	"github.com/mgtv-tech/redis-GunYu/config"
	"github.com/mgtv-tech/redis-GunYu/syncer"
)

// Bisync states are not hand-written: a real bisync replay (start-up through VerifNewOutput,
// full sync of an empty snapshot, then an incremental stream of SET commands / MULTI groups
// through RedisOutput.Send) produces the namespace of the old replay mode.

type biSpec struct {
	OldMode   config.ReplayMode
	Units     int
	FlushWait bool // let the frontier flush interval pass before the replay is stopped
	Resync    bool // a later full sync stored a newer root checkpoint than the mode-specific state
	Failover  bool // the mode switch coincides with a source failover
	Business  []int
	Base      int64
}

func (s biSpec) class() string {
	f := []string{}
	if s.FlushWait {
		f = append(f, "frontier-flushed")
	} else {
		f = append(f, "journal-tail")
	}
	if s.Resync {
		f = append(f, "root-newer-after-resync")
	}
	if s.Failover {
		f = append(f, "failover")
	}
	return fmt.Sprintf("bisync/dbs=%d/%s", 1+len(s.Business), strings.Join(f, "+"))
}

type biCase struct {
	idx   int
	key   string
	spec  biSpec
	id1   string
	id2   string
	newID string
	s0    []fakeredis.DB
	p0    found
	end   int64 // source offset after the last replayed unit
	why   string
}

func respCmd(b *bytes.Buffer, args ...string) {
	fmt.Fprintf(b, "*%d\r\n", len(args))
	for _, a := range args {
		fmt.Fprintf(b, "$%d\r\n%s\r\n", len(a), a)
	}
}

// biStream renders `units` replay units (single SETs and MULTI groups); returns the bytes and
// the id carried by the last command.
func biStream(r *rand.Rand, tag string, units int) ([]byte, string) {
	var b bytes.Buffer
	last := ""
	respCmd(&b, "select", "0")
	for u := 0; u < units; u++ {
		if r.Intn(3) == 0 {
			respCmd(&b, "multi")
			for k := 0; k < 2+r.Intn(2); k++ {
				last = fmt.Sprintf("%s-u%d-%d", tag, u, k)
				respCmd(&b, "set", fmt.Sprintf("k:%s:%d:%d", tag, u, k), last)
			}
			respCmd(&b, "exec")
		} else {
			last = fmt.Sprintf("%s-u%d", tag, u)
			respCmd(&b, "set", fmt.Sprintf("k:%s:%d", tag, u), last)
		}
	}
	return b.Bytes(), last
}

// buildBisync runs the real tool against a fresh target double under the process-wide
// (bisync, OldMode) configuration.
func buildBisync(r *rand.Rand, c *biCase) {
	ctx := context.Background()
	t := newTarget(nil)
	defer t.Close()
	for _, d := range c.spec.Business {
		t.DoS(d, "SET", fmt.Sprintf("biz:%d", d), "v")
	}
	src := newSource(c.id1, c.id2)
	defer src.Close()
	ids := []string{c.id1, c.id2}

	out, err := syncer.VerifNewOutput(syncerCfg(src.Addr(), t.Addr()))
	if err != nil {
		c.why = "first start: " + err.Error()
		return
	}
	sp, err := out.StartPoint(ctx, ids)
	if err != nil || sp.Offset >= 0 {
		c.why = fmt.Sprintf("first start point: %+v %v", sp, err)
		return
	}
	ss := &drive.Session{IDs: ids, Out: out, Watch: 60 * time.Second}
	if err := ss.FullSync(ctx, drive.EmptyRDB, c.spec.Base); err != nil {
		c.why = "full sync: " + err.Error()
		return
	}
	sp, err = out.StartPoint(ctx, ids)
	if err != nil || sp.Offset != c.spec.Base {
		c.why = fmt.Sprintf("start point after full sync: %+v %v", sp, err)
		return
	}
	data, last := biStream(r, strings.TrimPrefix(c.key, "bisync-"), c.spec.Units)
	seen := drive.WaitForID(t, last)
	ar := ss.SendAof(ctx, c.spec.Base, []drive.Step{{Data: data}}, false, 4096)
	select {
	case <-seen:
	case e := <-ar.Done:
		ar.F.Abort()
		c.why = fmt.Sprintf("replay ended early: %v", e)
		return
	case <-time.After(60 * time.Second):
		ar.Stop(5 * time.Second)
		c.why = "watchdog: last unit not applied"
		return
	}
	if c.spec.FlushWait {
		time.Sleep(260 * time.Millisecond) // > 2 × bisyncFrontierFlushInterval (state variety only, no verdict depends on it)
	}
	if _, ok := ar.Stop(30 * time.Second); !ok {
		c.why = "Send did not return after cancel"
		return
	}
	t.SetOnApplied(nil)
	c.end = c.spec.Base + int64(len(data))
	if c.spec.Resync {
		// the source forced a full resynchronisation later on: same namespace, newer root checkpoint
		out2, err := syncer.VerifNewOutput(syncerCfg(src.Addr(), t.Addr()))
		if err != nil {
			c.why = "second start: " + err.Error()
			return
		}
		if _, err := out2.StartPoint(ctx, ids); err != nil {
			c.why = "second start point: " + err.Error()
			return
		}
		ss2 := &drive.Session{IDs: ids, Out: out2, Watch: 60 * time.Second}
		if err := ss2.FullSync(ctx, drive.EmptyRDB, c.end+int64(1000+r.Intn(100000))); err != nil {
			c.why = "second full sync: " + err.Error()
			return
		}
	}
	c.s0 = t.Snapshot()
	// BEFORE: next start with the old configuration (old mode, old ids) on a copy
	// (the start's own scan order may make it miss the mode-specific records — see the
	// start-reads-mode-state-in-dbK signature — so the position HELD is the best of a few)
	for k := 0; k < 3; k++ {
		tc := newTarget(c.s0)
		f := nextStart(src, tc.Addr(), startCfg{ID1: c.id1, ID2: c.id2})
		tc.Close()
		if k == 0 || f.Err != "" || (c.p0.Err == "" && f.Has && f.Offset > c.p0.Offset) {
			c.p0 = f
		}
		if f.Err != "" {
			break
		}
	}
}

func bisyncCases(run *harness.Run, n int) {
	modes := []config.ReplayMode{config.ReplayModeSync, config.ReplayModePipeline, config.ReplayModeParallel}
	var cases []*biCase
	for i := 0; i < n; i++ {
		key := fmt.Sprintf("bisync-%d", i)
		if !run.WantCase(key) {
			continue
		}
		r := run.Rand(key + "/spec")
		c := &biCase{idx: i, key: key, id1: mkID(6, r), id2: zeroID, newID: mkID(9, r)}
		c.spec = biSpec{OldMode: modes[i%3], Units: 1 + r.Intn(6), FlushWait: r.Intn(2) == 0, Resync: r.Intn(4) == 0, Failover: r.Intn(4) == 0,
			Base: int64(1000 + r.Intn(1_000_000))}
		for k := r.Intn(3); k > 0; k-- {
			c.spec.Business = append(c.spec.Business, 1+r.Intn(15))
		}
		cases = append(cases, c)
	}
	for _, old := range modes {
		var batch []*biCase
		for _, c := range cases {
			if c.spec.OldMode == old {
				batch = append(batch, c)
			}
		}
		if len(batch) == 0 {
			continue
		}
		// phase A (process-wide configuration = bisync, old mode): produce the states and the before-measurement
		setReplayMode(true, old)
		harness.Parallel(len(batch), 12, func(i int) {
			c := batch[i]
			buildBisync(run.Rand(c.key+"/build"), c)
		})
		for _, c := range batch {
			if c.why != "" {
				run.Inconclusive("%s: building the bisync state (%s): %s", c.key, old, c.why)
			} else if c.p0.Err != "" {
				run.Inconclusive("%s: before-measurement failed: %s", c.key, c.p0.Err)
				c.why = "p0"
			} else if !c.p0.Has {
				run.Inconclusive("%s: the bisync replay left no resume position (%s)", c.key, old)
				c.why = "p0"
			} else {
				run.Count("bisync_states_built|"+string(old), 1)
			}
		}
		// phase B: switch the process-wide mode and run/sweep the migration
		for _, nm := range modes {
			if nm == old {
				continue
			}
			setReplayMode(true, nm)
			harness.Parallel(len(batch), 12, func(i int) {
				c := batch[i]
				if c.why != "" {
					return
				}
				for rep := 0; rep < reps/2; rep++ {
					if !oneSwitch(run, c, old, nm, rep) {
						break // refused without writing anything: deterministic, no need to repeat
					}
				}
			})
		}
	}
}

func oneSwitch(run *harness.Run, c *biCase, old, nm config.ReplayMode, rep int) bool {
	newCfg := startCfg{ID1: c.id1, ID2: c.id2}
	if c.spec.Failover {
		newCfg = startCfg{ID1: c.newID, ID2: c.id1}
	}
	src := newSource(newCfg.ID1, newCfg.ID2)
	defer src.Close()
	t := newTarget(c.s0)
	defer t.Close()
	_, opErr := syncer.VerifNewOutput(syncerCfg(src.Addr(), t.Addr()))
	kind := fmt.Sprintf("%s:%s→%s", opModeSwitch, old, nm)
	lg := capture(kind, c.s0, t, 0)
	if opErr != nil {
		if os.Getenv("C17_DEBUG") != "" {
			fmt.Printf("DEBUG %s %s: %v\nspec=%+v\nstate:\n  %s\nrequests:\n  %s\n", c.key, kind, opErr, c.spec, strings.Join(bookDump(c.s0), "\n  "), strings.Join(reqDump(lg.Reqs), "\n  "))
		}
		// a refusal (the tool returns an error and restarts) is fail-safe, not a loss; it is
		// counted, and the state it leaves is swept only if the refused run wrote anything
		run.Count("operations_refused", 1)
		run.Seen("refusals", kind+": "+lastLine(opErr.Error()))
		run.Eval(1)
		run.Distinct(fmt.Sprintf("%s|%s|refused-by-tool", kind, c.spec.class()))
		wrote := false
		for _, a := range lg.Apps {
			if a.Write && !a.IsErr {
				wrote = true
			}
		}
		if !wrote {
			return false
		}
	}
	m := findBisyncMarks(lg)
	cc := &caseCtx{Key: c.key, Kind: kind, Rep: rep, Layout: c.spec.class(), Desc: map[string]any{"spec": c.spec, "id1": c.id1, "id2": c.id2, "replayed_up_to": c.end},
		OldCfg: startCfg{ID1: c.id1, ID2: c.id2}, NewCfg: newCfg, P0: c.p0, SrcNew: src,
		Extra: map[string]any{"old_mode": string(old), "new_mode": string(nm)}}
	sweepOp(run, cc, lg, m)
	sampleOnce(run, cc, lg)
	// thorough tier only, one state in eight: every step costs the standalone client's reconnect back-off (≈ 1.5 s)
	if rep == 0 && opErr == nil && !run.Quick() && c.idx%8 == 0 {
		lostReplySwitch(run, cc, c, lg, m)
	}
	return true
}

// lostReplySwitch: the process is not killed - one request of the format switch is EXECUTED by the
// target and its connection dies before the reply (a reply lost on the way), the start-up fails or
// goes on as the tool sees fit, and the tool starts the bookkeeping again (its own retry / the
// restart of the syncer).  Whatever the failed attempt cleaned up or left behind: the next start
// must find a position not smaller than the one held before.  Every request of the operation in turn.
func lostReplySwitch(run *harness.Run, cc *caseCtx, c *biCase, lg *opLog, m marks) {
	for k := int64(1); k <= lg.N; k++ {
		t := newTarget(c.s0)
		seq0 := t.Seq()
		var fired atomic.Bool
		failed := ""
		t.SetHooks(nil, nil, func(q *fakeredis.Req) bool {
			if q.Seq-seq0 == k && fired.CompareAndSwap(false, true) {
				failed = q.Cmd
				return true
			}
			return false
		})
		_, err1 := syncer.VerifNewOutput(syncerCfg(cc.SrcNew.Addr(), t.Addr()))
		t.SetHooks(nil, nil, nil)
		if !fired.Load() {
			t.Close()
			run.Count("lost_reply_step_not_reached", 1)
			continue
		}
		_, err2 := syncer.VerifNewOutput(syncerCfg(cc.SrcNew.Addr(), t.Addr())) // the retry / the restarted syncer
		after := t.Snapshot()
		reqs := capture(cc.Kind, c.s0, t, seq0).Reqs
		t.Close()
		tn := newTarget(after)
		g := nextStart(cc.SrcNew, tn.Addr(), cc.NewCfg)
		tn.Close()
		run.Eval(1)
		run.Count("lost_reply_steps_run", 1)
		clause, outcome := judge(cc.P0, g)
		cls := m.class(k-1, lg.N)
		run.Distinct(fmt.Sprintf("%s|lost-reply|%s|%s|%s|%s", cc.Kind, cc.Layout, cls, failed, outcome))
		run.Seen("outcomes", cc.Kind+"/lost-reply|"+outcome)
		if clause == "" {
			continue
		}
		if clause == "next-start-refused" {
			run.Count("next_start_refusals", 1)
			continue
		}
		run.Violation(fmt.Sprintf("%s|%s|reply-lost-then-started-again|%s", cc.Kind, clause, cls), cc.Key,
			fmt.Sprintf("%s: request %d of %d (%s, %s) was executed and its reply lost (connection closed), the start-up returned %v, the next attempt returned %v; "+
				"the next start with the new configuration finds %s; before the operation a start found %s", cc.Kind, k, lg.N, failed, cls, err1, err2, g, cc.P0),
			map[string]any{"layout_class": cc.Layout, "initial_state": cc.Desc, "initial_bookkeeping": bookDump(c.s0),
				"old_config": cc.OldCfg, "new_config": cc.NewCfg, "before": cc.P0.String(), "after": g.String(), "failed_request": k,
				"requests_of_the_uninterrupted_operation": reqDump(lg.Reqs), "requests_with_the_lost_reply_and_the_second_attempt": reqDump(reqs), "state_after": bookDump(after)})
		return
	}
}

func lastLine(s string) string {
	if i := strings.LastIndexByte(strings.TrimSpace(s), '\n'); i >= 0 {
		s = strings.TrimSpace(s)[i+1:]
	}
	if i := strings.Index(s, ": checkpoint("); i >= 0 {
		s = s[:i]
	}
	return s
}

// findBisyncMarks: write-new = first write to a key of a namespace that did not exist in the
// initial state; repoint = index write; delete-old = first DEL.
func findBisyncMarks(l *opLog) marks {
	m := marks{}
	exists := map[string]bool{}
	for _, d := range l.S0 {
		for k := range d {
			exists[k] = true
		}
	}
	for _, a := range l.Apps {
		if !a.Write || a.IsErr || len(a.Args) == 0 {
			continue
		}
		switch a.Cmd {
		case "HSET", "HSETNX", "HMSET", "SET", "ZADD":
			if isIndex(a.Args[0]) {
				if m.Repoint == 0 {
					m.Repoint = a.ReqSeq
				}
			} else if !exists[string(a.Args[0])] && m.WriteNew == 0 {
				m.WriteNew = a.ReqSeq
			}
		case "DEL", "UNLINK", "HDEL", "ZREM":
			if m.FirstDel == 0 {
				m.FirstDel = a.ReqSeq
			}
		}
	}
	return m
}
