package main

import "verif/internal/harness"

func bisyncCases(run *harness.Run, n int) {}
