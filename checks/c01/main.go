// C01 — incremental replay applies every source write once, in order, in the right DB.
//
// The real RedisOutput replays generated replication streams (fed through a fragmenting,
// pausing ChannelReader) into the target double; the double's effect log restricted to
// data-modifying commands on non-reserved keys must equal the reference projection of the
// stream as a sequence (same ids, same order, same argument bytes, same mapped database).
package main

import (
	"bytes"
	"context"
	"fmt"
	"hash/crc32"
	"math/rand"
	"strings"
	"time"

	"verif/internal/drive"
	"verif/internal/fakeredis"
	"verif/internal/gen"
	"verif/internal/harness"

	"github.com/mgtv-tech/redis-GunYu/config"
)

type caseCfg struct {
	Txn, Pipeline bool
	BatchCount    uint
	BatchBytes    uint64
	BatchTicker   time.Duration
	KeepAlive     time.Duration
	CpTicker      time.Duration
	DbMode        string
	TargetDb      int
	TargetDbMap   map[int]int
	DbBlacklist   []int
	CmdBlack      []string
	PrefixBlack   []string
	PlanStyle     int
	PauseUnit     time.Duration
	BufSize       int
	NCmds         int
	BigArgs       bool
	EndByEOF      bool
	Resume        bool
}

func (c caseCfg) String() string {
	return fmt.Sprintf("txn=%v pipe=%v batch=%d/%dB tick=%v ka=%v cp=%v db=%s black=%v/%v/%v plan=%d pause=%v buf=%d n=%d big=%v eof=%v",
		c.Txn, c.Pipeline, c.BatchCount, c.BatchBytes, c.BatchTicker, c.KeepAlive, c.CpTicker, c.DbMode,
		c.DbBlacklist, c.CmdBlack, c.PrefixBlack, c.PlanStyle, c.PauseUnit, c.BufSize, c.NCmds, c.BigArgs, c.EndByEOF)
}

func genCase(r *rand.Rand, quick bool) caseCfg {
	c := caseCfg{TargetDb: -1, Resume: true}
	c.Txn = r.Intn(2) == 0
	c.Pipeline = r.Intn(2) == 0
	c.BatchCount = []uint{1, 2, 3, 7, 100}[r.Intn(5)]
	c.BatchBytes = []uint64{1, 64, 64 * 1024}[r.Intn(3)]
	c.BatchTicker = time.Duration(2+r.Intn(9)) * time.Millisecond
	c.KeepAlive = time.Duration(20+r.Intn(41)) * time.Millisecond
	c.CpTicker = []time.Duration{2 * time.Millisecond, 15 * time.Millisecond, time.Second}[r.Intn(3)]
	switch r.Intn(5) {
	case 0:
		c.DbMode = "identity"
	case 1:
		c.DbMode = "many-to-one"
		c.TargetDbMap = map[int]int{0: 5, 1: 5, 2: 5, 3: 5}
	case 2:
		c.DbMode = "swap"
		c.TargetDbMap = map[int]int{0: 1, 1: 0, 2: 7}
	case 3:
		c.DbMode = "fixed-target"
		c.TargetDb = r.Intn(4)
		c.Resume = r.Intn(2) == 0
	default:
		c.DbMode = "partial-map"
		c.TargetDbMap = map[int]int{2: 9}
	}
	if r.Intn(4) == 0 {
		c.DbBlacklist = []int{r.Intn(4)}
	}
	if r.Intn(3) == 0 {
		c.CmdBlack = []string{"PFADD", "lset"}[0 : 1+r.Intn(2)]
	}
	if r.Intn(3) == 0 {
		c.PrefixBlack = []string{"blk:", "tmp"}[0 : 1+r.Intn(2)]
	}
	c.PlanStyle = r.Intn(4)
	c.PauseUnit = []time.Duration{c.BatchTicker, c.KeepAlive, c.KeepAlive * 2, c.CpTicker}[r.Intn(4)]
	if c.PauseUnit > 150*time.Millisecond {
		c.PauseUnit = 150 * time.Millisecond
	}
	c.BufSize = []int{16, 64, 4096, 64 * 1024}[r.Intn(4)]
	c.NCmds = 20 + r.Intn(50)
	if !quick && r.Intn(25) == 0 {
		// multi-MiB arguments: fed in bursts (byte dribbling megabytes only burns the time budget)
		c.BigArgs = true
		c.NCmds = 15
		c.PlanStyle = []int{0, 3}[r.Intn(2)]
		c.BufSize = 64 * 1024
	}
	c.EndByEOF = r.Intn(4) == 0
	return c
}

func main() {
	drive.Quiet()
	run := harness.New("C01", "exploration",
		"case = PRNG(seed,i) → (batching/ticker/pipeline/txn/db-map/filter configuration, generated stream with unique ids, feeding plan); "+
			"non-trivial = the target log held ≥2 flushed batches and the stream held ≥1 SELECT and ≥1 write; distinct = (configuration class, batch-shape histogram)")
	run.Watchdog(25 * time.Minute)
	n := run.N(400, 6000)
	run.Assume("target double executes requests in arrival order per connection and logs them faithfully (fakeredis)")
	run.Assume("LogOnly mode: business writes are answered +OK without type checks; only the command log is judged")

	harness.Parallel(n, 24, func(i int) {
		key := fmt.Sprintf("case-%d", i)
		if !run.WantCase(key) {
			return
		}
		r := run.Rand(key)
		cc := genCase(r, run.Quick())
		oneCase(run, key, r, cc)
	})
	run.Exit()
}

func oneCase(run *harness.Run, key string, r *rand.Rand, cc caseCfg) {
	srv := fakeredis.MustStart(fakeredis.Options{Permissive: true, LogOnly: func(cmd string, args [][]byte) bool {
		return len(args) == 0 || !drive.Reserved(args[0])
	}})
	defer srv.Close()

	runID := fmt.Sprintf("%040x", r.Uint64())
	ids := []string{runID, strings.Repeat("0", 40)}
	cfg := drive.OutputConfig(srv.Addr(), runID)
	cfg.CanTransaction = cc.Txn
	cfg.ReplayPipeline = cc.Pipeline
	cfg.BatchCmdCount = cc.BatchCount
	cfg.BatchBufferSize = cc.BatchBytes
	cfg.BatchTicker = cc.BatchTicker
	cfg.KeepaliveTicker = cc.KeepAlive
	cfg.UpdateCheckpointTicker = cc.CpTicker
	cfg.TargetDb = cc.TargetDb
	cfg.TargetDbMap = cc.TargetDbMap
	cfg.EnableResumeFromBreakPoint = cc.Resume
	cfg.Filter = config.FilterConfig{DbBlacklist: cc.DbBlacklist, CmdBlacklist: cc.CmdBlack}
	if len(cc.PrefixBlack) > 0 {
		cfg.Filter.KeyFilter = &config.FilterKeyConfig{PrefixKeyBlacklist: cc.PrefixBlack}
	}

	txnSel := 0.0
	if crc32.ChecksumIEEE([]byte(key))%3 == 0 { // a third of the cases: transactions that switch databases inside MULTI/EXEC
		txnSel = 0.3
	}
	st := gen.GenStream(r, gen.StreamOptions{Hist: "h" + key[5:], NCmds: cc.NCmds, MaxDB: 3, PSelect: 0.12, PTxn: 0.12, PTxnSelect: txnSel, PNoise: 0.15,
		PCfgOut: 0.15, MaxTxnLen: minInt(int(cc.BatchCount)*3+1, 25), BigArgs: cc.BigArgs, BlackCmds: cc.CmdBlack, BlackPrefix: cc.PrefixBlack, StartDB: -1})
	// the completion sentinel must not be configured out: issue it in a database that is kept
	sdb := st.LastDB()
	pc := drive.ProjCfg{TargetDb: cc.TargetDb, TargetDbMap: cc.TargetDbMap, DbBlacklist: cc.DbBlacklist}
	if pc.DbOut(sdb) {
		sdb = (sdb + 1) % 4
		// explicit SELECT so the stream stays well-formed
		sel := gen.Encode("SELECT", [][]byte{[]byte(fmt.Sprint(sdb))})
		c := gen.Cmd{Kind: gen.KSelect, Name: "SELECT", Args: [][]byte{[]byte(fmt.Sprint(sdb))}, DB: sdb, Group: -1, Idx: len(st.Cmds),
			Start: int64(len(st.Bytes))}
		st.Bytes = append(st.Bytes, sel...)
		c.End = int64(len(st.Bytes))
		st.Cmds = append(st.Cmds, c)
	}
	end := st.AppendSentinel(sdb)

	ctx := context.Background()
	ss, err := drive.NewSession(cfg, ids)
	if err != nil {
		run.Inconclusive("%s: session: %v", key, err)
		return
	}
	base := int64(1000 + r.Intn(100000))
	if _, err := ss.Out.StartPoint(ctx, ids); err != nil {
		run.Inconclusive("%s: startpoint: %v", key, err)
		return
	}
	if err := ss.FullSync(ctx, drive.EmptyRDB, base); err != nil {
		run.Inconclusive("%s: initial full sync: %v", key, err)
		return
	}
	sp, err := ss.Out.StartPoint(ctx, ids)
	if err != nil || sp.Offset != base {
		run.Inconclusive("%s: startpoint after full sync: %v %v", key, sp, err)
		return
	}
	nApp0 := len(srv.Applied())
	seen := drive.WaitForID(srv, end.ID)
	plan := drive.Plan(r, st.Bytes, cc.PauseUnit, cc.PlanStyle)
	ar := ss.SendAof(ctx, sp.Offset, plan, false, cc.BufSize)
	var sendErr error
	select {
	case <-seen:
		if cc.EndByEOF {
			// the source side ends only after the whole stream was applied: the run itself is
			// uninterrupted, the way it ends (EOF vs. cancellation) varies
			ar.F.CloseEOF()
			e, ok := ar.Wait(60 * time.Second)
			if !ok {
				ar.Stop(10 * time.Second)
				run.Inconclusive("%s: Send did not return after EOF", key)
				return
			}
			sendErr = e
		} else {
			e, ok := ar.Stop(60 * time.Second)
			if !ok {
				run.Inconclusive("%s: Send did not return after cancel", key)
				return
			}
			sendErr = e
		}
	case e := <-ar.Done:
		sendErr = e
		ar.F.Abort()
	case <-time.After(90 * time.Second):
		ar.Stop(10 * time.Second)
		run.Inconclusive("%s: watchdog: sentinel not applied (handed %d of %d bytes)", key, ar.F.Handed(), len(st.Bytes))
		return
	}
	_ = sendErr

	apps := srv.Applied()[nApp0:]
	// the property speaks about the uninterrupted run: judge the log up to the request that
	// applied the completion sentinel (what the stop itself triggers afterwards is C02's business)
	for i, a := range apps {
		if gen.FindID(a.Args) == end.ID {
			lim := a.ReqSeq
			j := i
			for j < len(apps) && apps[j].ReqSeq == lim {
				j++
			}
			apps = apps[:j]
			break
		}
	}
	got := drive.BusinessApplied(apps)
	exp := drive.Project(st, pc)
	run.Eval(1)

	witness := func(at int) map[string]any {
		w := map[string]any{"config": cc.String(), "send_error": fmt.Sprint(sendErr)}
		lo := at - 3
		if lo < 0 {
			lo = 0
		}
		var e, g []string
		for i := lo; i < at+3 && i < len(exp); i++ {
			e = append(e, fmt.Sprintf("db%d %s", exp[i].DB, exp[i].Cmd.String()))
		}
		for i := lo; i < at+3 && i < len(got); i++ {
			g = append(g, got[i].String())
		}
		w["expected_around"] = e
		w["got_around"] = g
		w["expected_len"], w["got_len"] = len(exp), len(got)
		var sc []string
		for i := range st.Cmds {
			c := &st.Cmds[i]
			sc = append(sc, fmt.Sprintf("%d %s db%d g%d %s end=%d", i, c.Kind, c.DB, c.Group, c.Name, c.End))
		}
		w["source_stream"] = sc
		reqs := srv.Requests()
		if len(reqs) > 40 {
			reqs = reqs[len(reqs)-40:]
		}
		var rs []string
		for _, q := range reqs {
			a := ""
			if len(q.Args) > 0 {
				a = string(q.Args[0])
				if len(a) > 24 {
					a = a[:24]
				}
			}
			rs = append(rs, fmt.Sprintf("#%d c%d db%d %s %q -> %.40v", q.Seq, q.Conn, q.DB, q.Cmd, a, q.Reply))
		}
		w["last_target_requests"] = rs
		return w
	}

	// sequence equality
	nmin := len(exp)
	if len(got) < nmin {
		nmin = len(got)
	}
	bad := false
	for i := 0; i < nmin && !bad; i++ {
		e, g := exp[i], got[i]
		gid := gen.FindID(g.Args)
		switch {
		case gid != e.Cmd.ID:
			// classify: drop / dup / reorder / invent
			cls := "reordered-or-dropped"
			if gid == "" {
				cls = "invented"
			} else {
				for j := 0; j < i; j++ {
					if exp[j].Cmd.ID == gid {
						cls = "duplicated"
					}
				}
			}
			run.Violation("sequence|"+cls+modeSig(cc), key, fmt.Sprintf("position %d: expected id %s, target executed id %q", i, e.Cmd.ID, gid), witness(i))
			bad = true
		case !strings.EqualFold(e.Cmd.Name, g.Cmd) || !argsEqual(e.Cmd.Args, g.Args):
			run.Violation("altered"+modeSig(cc), key, fmt.Sprintf("position %d: command %s altered", i, e.Cmd.ID), witness(i))
			bad = true
		case e.DB != g.DB:
			run.Violation("wrong-db|"+cc.DbMode+modeSig(cc), key, fmt.Sprintf("position %d: %s executed in db %d, expected %d", i, e.Cmd.ID, g.DB, e.DB), witness(i))
			bad = true
		}
	}
	if !bad && len(got) != len(exp) {
		cls := "dropped-tail"
		if len(got) > len(exp) {
			cls = "extra-tail"
		}
		run.Violation("sequence|"+cls+modeSig(cc), key, fmt.Sprintf("target executed %d business writes, projection has %d", len(got), len(exp)), witness(nmin))
	}

	// coverage bookkeeping
	batches := map[int64]int{}
	nb := 0
	for _, a := range got {
		if a.Txn != 0 {
			batches[a.Txn]++
		}
	}
	if cc.Txn {
		nb = len(batches)
	} else {
		// approximate flushes by request adjacency gaps: count checkpoint writes + 1
		for _, a := range apps {
			if a.Cmd == "HSET" && len(a.Args) > 1 && strings.HasSuffix(string(a.Args[1]), "_offset") {
				nb++
			}
		}
		nb++
	}
	nsel, nw := 0, 0
	for _, c := range st.Cmds {
		if c.Kind == gen.KSelect {
			nsel++
		}
		if c.Kind == gen.KWrite {
			nw++
		}
	}
	run.Count("business_writes_compared", int64(nmin))
	run.Count("target_requests_logged", int64(len(apps)))
	run.Seen("config_class", fmt.Sprintf("txn=%v pipe=%v db=%s", cc.Txn, cc.Pipeline, cc.DbMode))
	if nb >= 2 && nsel >= 1 && nw >= 1 {
		hist := map[int]int{}
		for _, n := range batches {
			hist[n]++
		}
		run.Distinct(fmt.Sprintf("txn=%v pipe=%v db=%s bc=%d bb=%d plan=%d filt=%v%v%v|%v|%d", cc.Txn, cc.Pipeline, cc.DbMode, cc.BatchCount, cc.BatchBytes,
			cc.PlanStyle, len(cc.DbBlacklist) > 0, len(cc.CmdBlack) > 0, len(cc.PrefixBlack) > 0, hist, nb))
	}
	if !bad {
		run.Sample(map[string]any{"case": key, "config": cc.String(), "stream_cmds": len(st.Cmds), "writes_expected": len(exp), "writes_applied": len(got),
			"batches": nb, "first_applied": firstN(got, 3)})
	}
}

func firstN(a []fakeredis.App, n int) []string {
	var o []string
	for i := 0; i < n && i < len(a); i++ {
		o = append(o, a[i].String())
	}
	return o
}

func modeSig(cc caseCfg) string {
	return fmt.Sprintf("|txn=%v|pipe=%v", cc.Txn, cc.Pipeline)
}

func argsEqual(a, b [][]byte) bool {
	if len(a) != len(b) {
		return false
	}
	for i := range a {
		if !bytes.Equal(a[i], b[i]) {
			return false
		}
	}
	return true
}

func minInt(a, b int) int {
	if a < b {
		return a
	}
	return b
}
