package main

import (
	"bytes"
	"context"
	"fmt"
	"io"
	"math/rand"
	"os"
	"path/filepath"
	"strings"
	"sync"
	"sync/atomic"
	"time"

	"verif/internal/drive"
	"verif/internal/fakeredis"
	"verif/internal/gen"

	"github.com/mgtv-tech/redis-GunYu/config"
	usync "github.com/mgtv-tech/redis-GunYu/pkg/sync"
	"github.com/mgtv-tech/redis-GunYu/syncer"
)

const (
	sessionWatchdog = 90 * time.Second // wall clock, firing = inconclusive
	stopWatchdog    = 30 * time.Second
	refusalAttempts = 5  // source connections without any delivery → the tool refuses (fail-safe), decided by count
	churnPsyncs     = 12 // PSYNCs in one session without completion → give up (inconclusive)
)

type sessLog struct {
	Apps      []fakeredis.App
	Stamps    []int64
	Psync     []fakeredis.PsyncEvent // the PSYNCs the source served (+CONTINUE / +FULLRESYNC)
	Refused   []fakeredis.PsyncEvent // the PSYNCs it answered with a transient error reply
	Obs       map[int64]psyncObs
	CpTrace   map[int][]cpEntry // index into Apps → positions stored after that command
	Ended     string            // sentinel | tool-exited | refused | churn | watchdog
	RunErr    string
	Sentinels []string
	Attempts  int
}

type caseRun struct {
	key string
	r   *rand.Rand
	p   *plan
	tmp string

	tgt *fakeredis.Server
	ctr atomic.Int64

	mu     sync.Mutex
	stamps []int64
	want   map[string]chan struct{}

	// what the tool held at the instant each PSYNC arrived at the source (keyed by the stamp)
	curCache *cacheBox
	obs      map[int64]psyncObs

	cpModel map[int]map[string]string // db → checkpoint hash, rebuilt from the effect log
	cpTrace map[int][]cpEntry         // applied index → positions stored after that command

	abort chan struct{} // closed by a target hook: the phase ends ("cut")

	// target-fault state (atomics: read in the target's hook, written in the source's hook)
	psyncN      atomic.Int64 // PSYNCs decided by the source so far
	armedAt     atomic.Int64 // value of psyncN when the fault was armed (0 = not armed)
	faultOver   atomic.Bool
	faultErrors atomic.Int64
}

// onPsync is the source double's OnPsync hook (no calls into any double from here).
func (cr *caseRun) onPsync(ev fakeredis.PsyncEvent) {
	n := cr.psyncN.Add(1)
	switch cr.p.C.TFault {
	case "startup":
		// armed from the beginning, see armTargetFault
	case "reset":
		if !ev.Continue && cr.armedAt.Load() == 0 {
			cr.armedAt.Store(n) // first +FULLRESYNC of the reconnect
		}
	case "setrunid":
		if cr.armedAt.Load() == 0 {
			cr.armedAt.Store(n) // first answer of the reconnect
		}
	}
}

const targetDown = fakeredis.Err("ERR verif: target temporarily failing")

// armTargetFault installs the target double's fault for the judged reconnect.
func (cr *caseRun) armTargetFault() {
	p := cr.p
	if p.C.TFault == "" {
		return
	}
	cr.psyncN.Store(0)
	cr.armedAt.Store(0)
	cr.faultOver.Store(false)
	isCp := func(q *fakeredis.Req) bool {
		return len(q.Args) > 0 && string(q.Args[0]) == config.CheckpointKey && (q.Cmd == "HSET" || q.Cmd == "HDEL" || q.Cmd == "HMSET")
	}
	isHash := func(q *fakeredis.Req) bool {
		return len(q.Args) > 0 && string(q.Args[0]) == config.CheckpointKeyHashKey
	}
	// setrunid: an attempt of the run-id bookkeeping (checkpoint.UpdateCheckpoint) starts with the
	// look-up of the run id in the checkpoint-hash key; its writes are counted from there
	writes, attempts, inAttempt := 0, 0, false
	cr.tgt.SetHooks(nil, func(q *fakeredis.Req) (fakeredis.Reply, bool) {
		if p.C.TFault == "startup" {
			// one look-up of the checkpoint name under the PREVIOUS replication id fails (start-up bookkeeping)
			if !cr.faultOver.Load() && q.Conn >= 0 && q.Cmd == "HGET" && isHash(q) && len(q.Args) > 1 && string(q.Args[1]) == p.SrcID2 {
				cr.faultOver.Store(true)
				cr.faultErrors.Add(1)
				return fakeredis.Err("LOADING verif: target is loading the dataset in memory"), true
			}
			return nil, false
		}
		at := cr.armedAt.Load()
		if at == 0 || cr.faultOver.Load() || q.Conn < 0 {
			return nil, false
		}
		if cr.psyncN.Load() != at {
			// the tool gave the connection up: another PSYNC was decided
			cr.faultOver.Store(true)
			return nil, false
		}
		switch p.C.TFault {
		case "reset":
			// logical end: ... or the tool went on to the run-id bookkeeping although the reset had not succeeded
			if isHash(q) {
				cr.faultOver.Store(true)
				return nil, false
			}
			if isCp(q) {
				cr.faultErrors.Add(1)
				return targetDown, true
			}
		case "setrunid":
			if q.Cmd == "RESTORE" || q.Cmd == "MULTI" {
				cr.faultOver.Store(true) // the bookkeeping is behind, the replay has begun
				return nil, false
			}
			if isHash(q) && q.Cmd == "HGET" {
				if !inAttempt || writes > 0 {
					attempts++
					writes, inAttempt = 0, true
					if attempts > p.TFaultN {
						cr.faultOver.Store(true)
					}
				}
				return nil, false
			}
			if inAttempt && (isCp(q) || (isHash(q) && (q.Cmd == "HSET" || q.Cmd == "HDEL"))) {
				writes++
				if writes >= p.TFaultK {
					cr.faultErrors.Add(1)
					return targetDown, true
				}
			}
		}
		return nil, false
	}, nil)
}

// psyncObs: the tool's holdings when a PSYNC reached the source double.  The tool is blocked on
// the reply at that instant and no cache writer exists (the previous run's was closed, the next
// is created after the reply), so the values are exact.
type psyncObs struct {
	CacheID    string
	CacheRight int64 // -1: nothing cached
	CacheLeft  int64
	CacheRo    int64 // offset of the cached snapshot, -1 = none
	PosAbsent  bool
	Pos        int64
}

// psyncStamp is the source double's Stamp hook.
func (cr *caseRun) psyncStamp() int64 {
	st := cr.stamp()
	o := psyncObs{CacheRight: -1, CacheLeft: -1, CacheRo: -1}
	cr.mu.Lock()
	cb := cr.curCache
	cr.mu.Unlock()
	if cb != nil {
		if sp, err := cb.ch.StartPoint(nil); err == nil && sp.RunId != "" {
			o.CacheID, o.CacheRight = sp.RunId, sp.Offset
			o.CacheLeft, _ = cb.ch.GetOffsetRange(sp.RunId)
			if ro, sz := cb.ch.GetRdb(sp.RunId); sz >= 0 {
				o.CacheRo = ro
			}
		}
	}
	pos := readPosition(cr.tgt)
	o.PosAbsent, o.Pos = pos.Absent, pos.Off
	cr.mu.Lock()
	if cr.obs == nil {
		cr.obs = map[int64]psyncObs{}
	}
	cr.obs[st] = o
	cr.mu.Unlock()
	return st
}

func (cr *caseRun) setCache(cb *cacheBox) {
	cr.mu.Lock()
	cr.curCache = cb
	cr.mu.Unlock()
}

func (cr *caseRun) observations() map[int64]psyncObs {
	cr.mu.Lock()
	defer cr.mu.Unlock()
	out := make(map[int64]psyncObs, len(cr.obs))
	for k, v := range cr.obs {
		out[k] = v
	}
	return out
}

func newTarget() *fakeredis.Server {
	return fakeredis.MustStart(fakeredis.Options{Permissive: true, LogOnly: func(cmd string, args [][]byte) bool {
		return len(args) == 0 || !drive.Reserved(args[0])
	}})
}

func (cr *caseRun) stamp() int64 { return cr.ctr.Add(1) }

func (cr *caseRun) hookTarget() {
	cr.want = map[string]chan struct{}{}
	cr.cpModel = map[int]map[string]string{}
	cr.cpTrace = map[int][]cpEntry{}
	cr.tgt.SetOnApplied(func(a *fakeredis.App) {
		st := cr.stamp()
		cr.mu.Lock()
		cr.traceCheckpoint(a)
		for len(cr.stamps) <= a.Idx {
			cr.stamps = append(cr.stamps, 0)
		}
		cr.stamps[a.Idx] = st
		if len(cr.want) > 0 && a.Write {
			if id := gen.FindID(a.Args); id != "" {
				if ch, ok := cr.want[id]; ok {
					close(ch)
					delete(cr.want, id)
				}
			}
		}
		cr.mu.Unlock()
	})
}

// cpEntry: one stored position (run id, offset) in one database of the target.
type cpEntry struct {
	ID  string
	Off int64
	DB  int
}

// traceCheckpoint keeps a model of the checkpoint hash of every database (from the target's
// effect log) and remembers, for every command that touched it, the positions stored afterwards.
// Called with cr.mu held.
func (cr *caseRun) traceCheckpoint(a *fakeredis.App) {
	if a.IsErr || len(a.Args) == 0 {
		return
	}
	touched := false
	switch a.Cmd {
	case "HSET", "HMSET":
		if string(a.Args[0]) == config.CheckpointKey {
			m := cr.cpModel[a.DB]
			if m == nil {
				m = map[string]string{}
				cr.cpModel[a.DB] = m
			}
			for i := 1; i+1 < len(a.Args); i += 2 {
				m[string(a.Args[i])] = string(a.Args[i+1])
			}
			touched = true
		}
	case "HDEL":
		if string(a.Args[0]) == config.CheckpointKey {
			for _, f := range a.Args[1:] {
				delete(cr.cpModel[a.DB], string(f))
			}
			touched = true
		}
	case "DEL", "UNLINK":
		for _, k := range a.Args {
			if string(k) == config.CheckpointKey {
				delete(cr.cpModel, a.DB)
				touched = true
			}
		}
	}
	if !touched {
		return
	}
	var es []cpEntry
	for db, m := range cr.cpModel {
		for f, v := range m {
			if !strings.HasSuffix(f, "_offset") {
				continue
			}
			var off int64
			if _, err := fmt.Sscan(v, &off); err == nil {
				es = append(es, cpEntry{ID: strings.TrimSuffix(f, "_offset"), Off: off, DB: db})
			}
		}
	}
	cr.cpTrace[a.Idx] = es
}

func (cr *caseRun) traceFrom(n0, n int) map[int][]cpEntry {
	cr.mu.Lock()
	defer cr.mu.Unlock()
	out := map[int][]cpEntry{}
	for i := 0; i < n; i++ {
		if es, ok := cr.cpTrace[n0+i]; ok {
			out[i] = es
		}
	}
	return out
}

func (cr *caseRun) expect(id string) chan struct{} {
	ch := make(chan struct{})
	cr.mu.Lock()
	cr.want[id] = ch
	cr.mu.Unlock()
	return ch
}

func (cr *caseRun) stampsFrom(n0, n int) []int64 {
	cr.mu.Lock()
	defer cr.mu.Unlock()
	out := make([]int64, n)
	for i := 0; i < n; i++ {
		if n0+i < len(cr.stamps) {
			out[i] = cr.stamps[n0+i]
		}
	}
	return out
}

// servedPsyncs splits the source's log into served and refused requests.
func servedPsyncs(evs []fakeredis.PsyncEvent) (served, refused []fakeredis.PsyncEvent) {
	for _, e := range evs {
		if e.Refused {
			refused = append(refused, e)
		} else {
			served = append(served, e)
		}
	}
	return
}

// ---- the tool

type tool struct {
	in   *syncer.RedisInput
	done chan error
}

func (cr *caseRun) startTool(srcAddr string, ch syncer.Channel) (*tool, error) {
	scfg := syncer.SyncerConfig{Id: 1, Input: drive.StandaloneRedis(srcAddr, "7.2.0"), Output: drive.StandaloneRedis(cr.tgt.Addr(), "7.2.0"),
		Channel:        config.ChannelConfig{Type: config.ChannelTypeMemory, Memory: &config.MemoryConfig{MaxSize: 1 << 20, LogSize: 1 << 20}},
		CanTransaction: true}
	// the start-up sequence of syncer.runLeader: source ids, bookkeeping on the target, output, input
	out, err := syncer.VerifNewOutput(scfg)
	if err != nil {
		return nil, err
	}
	in := syncer.NewRedisInput(scfg.Input)
	in.SetOutput(out)
	in.SetChannel(ch)
	t := &tool{in: in, done: make(chan error, 1)}
	go func() { t.done <- in.Run() }()
	return t, nil
}

func (t *tool) stop() (string, bool) {
	t.in.Stop()
	select {
	case err := <-t.done:
		return fmt.Sprint(err), true
	case <-time.After(stopWatchdog):
		return "", false
	}
}

// feedPlan cuts the bytes of h from `from` to its end into command-aligned chunks.
func feedChunks(r *rand.Rand, h *history, from int64) [][]byte {
	var out [][]byte
	start := from
	n, want := 0, 1+r.Intn(4)
	for _, c := range h.Cmds {
		if c.End <= from {
			continue
		}
		n++
		if n >= want {
			out = append(out, h.slice(start, c.End))
			start, n, want = c.End, 0, 1+r.Intn(4)
		}
	}
	if start < h.End() {
		out = append(out, h.slice(start, h.End()))
	}
	return out
}

func countInfo(srv *fakeredis.Server, from int) int {
	n := 0
	for _, q := range srv.Requests()[from:] {
		if q.Cmd == "INFO" {
			n++
		}
	}
	return n
}

// drive one (re)connection phase: feed the live bytes, wait for logical completion.
// t == nil: the tool is already running (in-loop reconnect).
func (cr *caseRun) phase(t *tool, src *fakeredis.Server, h *history, liveFrom int64, sentinel string, tag string, preFeed int, n0 int, reqFrom int, psyncFrom int) *sessLog {
	if sentinel == "" {
		return cr.idlePhase(t, src, n0, reqFrom, psyncFrom)
	}
	s := &sessLog{}
	so := src.Source()
	// completion sentinel: the last command of the live part; further ones only when a full
	// resynchronisation was granted after it had been produced
	sentCh, sentEnd := cr.expect(sentinel), h.End()
	s.Sentinels = append(s.Sentinels, sentinel)
	chunks := feedChunks(cr.r, h, liveFrom)
	nSent := 0
	newSentinel := func() (chan struct{}, int64) {
		st, id := sentinelPiece(fmt.Sprintf("e%s%d", tag, nSent), h.Cmds[len(h.Cmds)-1].DB)
		nSent++
		ch := cr.expect(id)
		h.appendPiece(st)
		so.Append(st.Bytes)
		s.Sentinels = append(s.Sentinels, id)
		return ch, h.End()
	}
	// some live bytes may be produced before the tool asks; the rest once it has attached
	if preFeed > len(chunks)-1 {
		preFeed = len(chunks) - 1
	}
	if preFeed < 0 {
		preFeed = 0
	}
	for _, c := range chunks[:preFeed] {
		so.Append(c)
	}
	chunks = chunks[preFeed:]
	fed := false
	deadline := time.After(sessionWatchdog)
	tick := time.NewTicker(5 * time.Millisecond)
	defer tick.Stop()
	done := t.done
loop:
	for {
		select {
		case <-sentCh:
			s.Ended = "sentinel"
			break loop
		case err := <-done:
			s.Ended, s.RunErr = "tool-exited", fmt.Sprint(err)
			t.done <- err
			break loop
		case <-cr.abort:
			s.Ended = "cut"
			break loop
		case <-deadline:
			s.Ended = "watchdog"
			break loop
		case <-tick.C:
			evs, refusedEvs := servedPsyncs(so.PsyncLog()[psyncFrom:])
			if !fed && len(evs) > 0 {
				fed = true
				for i, c := range chunks {
					so.Append(c)
					if i%2 == 0 {
						time.Sleep(time.Duration(cr.r.Intn(3)) * time.Millisecond)
					}
				}
				continue
			}
			if fed && len(evs) > 0 {
				last := evs[len(evs)-1]
				if !last.Continue && last.MasterReplOffset >= sentEnd {
					// the snapshot was taken after the sentinel: the stream will not carry it again
					sentCh, sentEnd = newSentinel()
				}
			}
			s.Attempts = countInfo(src, reqFrom)
			delivered := false
			for _, a := range cr.tgt.Applied()[n0:] {
				if isBusiness(&a) {
					delivered = true
					break
				}
			}
			if !delivered && s.Attempts >= refusalAttempts+len(refusedEvs) {
				s.Ended = "refused"
				break loop
			}
			if len(evs) >= churnPsyncs {
				s.Ended = "churn"
				break loop
			}
		}
	}
	apps := cr.tgt.Applied()[n0:]
	s.Apps = apps
	s.Stamps = cr.stampsFrom(n0, len(apps))
	s.Psync, s.Refused = servedPsyncs(so.PsyncLog()[psyncFrom:])
	s.Obs = cr.observations()
	s.CpTrace = cr.traceFrom(n0, len(apps))
	return s
}

// idlePhase: the source produces nothing after the reconnect.  Logical completion: the newest
// PSYNC was granted and the tool has acknowledged on that link afterwards (REPLCONF ACK).
func (cr *caseRun) idlePhase(t *tool, src *fakeredis.Server, n0 int, reqFrom int, psyncFrom int) *sessLog {
	s := &sessLog{}
	so := src.Source()
	totalAcks := func() int {
		n := 0
		for _, a := range so.Acks() {
			n += a.Count
		}
		return n
	}
	deadline := time.After(sessionWatchdog)
	tick := time.NewTicker(5 * time.Millisecond)
	defer tick.Stop()
	seen, acksAt := 0, 0
loop:
	for {
		select {
		case err := <-t.done:
			s.Ended, s.RunErr = "tool-exited", fmt.Sprint(err)
			t.done <- err
			break loop
		case <-deadline:
			s.Ended = "watchdog"
			break loop
		case <-tick.C:
			evs, refusedEvs := servedPsyncs(so.PsyncLog()[psyncFrom:])
			if len(evs) != seen {
				seen, acksAt = len(evs), totalAcks()
			}
			if seen > 0 && evs[seen-1].Continue && totalAcks() > acksAt {
				s.Ended = "idle-acked"
				break loop
			}
			s.Attempts = countInfo(src, reqFrom)
			if s.Attempts >= refusalAttempts+len(refusedEvs) {
				s.Ended = "refused"
				break loop
			}
			if len(evs) >= churnPsyncs {
				s.Ended = "churn"
				break loop
			}
		}
	}
	apps := cr.tgt.Applied()[n0:]
	s.Apps = apps
	s.Stamps = cr.stampsFrom(n0, len(apps))
	s.Psync, s.Refused = servedPsyncs(so.PsyncLog()[psyncFrom:])
	s.Obs = cr.observations()
	s.CpTrace = cr.traceFrom(n0, len(apps))
	return s
}

// ---- the cache

type cacheBox struct {
	backend string
	dir     string
	ch      syncer.Channel
}

func (cr *caseRun) newCache(backend, sub string) (*cacheBox, error) {
	cb := &cacheBox{backend: backend}
	if backend == "mem" {
		cb.ch = syncer.NewMemoryChannel(syncer.MemoryConf{InputId: cr.key, MaxSize: 64 << 20, LogSize: 1 << 20})
		return cb, nil
	}
	cb.dir = filepath.Join(cr.tmp, sub)
	if err := os.MkdirAll(cb.dir, 0o777); err != nil {
		return nil, err
	}
	cb.ch = syncer.NewStoreChannel(syncer.StorerConf{InputId: cr.key, Dir: cb.dir, MaxSize: 64 << 20, LogSize: 1 << 20})
	return cb, nil
}

// reopen: the disk directory opened by a fresh channel object (a restarted process).
func (cb *cacheBox) reopen(key string) {
	if cb.backend != "disk" {
		return
	}
	cb.ch.Close()
	cb.ch = syncer.NewStoreChannel(syncer.StorerConf{InputId: key, Dir: cb.dir, MaxSize: 64 << 20, LogSize: 1 << 20})
}

// preload fills the cache through its writer API.
func (cb *cacheBox) preload(c cacheSpec) error {
	ch := cb.ch
	if err := ch.SetRunId(c.ID); err != nil {
		return err
	}
	ctx, cancel := context.WithTimeout(context.Background(), 20*time.Second)
	defer cancel()
	if c.Snap != nil {
		w, err := ch.NewRdbWriter(bytes.NewReader(c.Snap.RDB), c.Ro, int64(len(c.Snap.RDB)))
		if err != nil {
			return err
		}
		w.Start()
		if err := w.Wait(ctx); err != nil {
			return fmt.Errorf("snapshot writer: %w", err)
		}
		w.Close()
		if ctx.Err() != nil {
			return fmt.Errorf("snapshot writer: watchdog")
		}
	}
	data := c.Hist.slice(c.L, c.R)
	pr, pw := io.Pipe()
	w, err := ch.NewAofWritter(pr, c.L)
	if err != nil {
		return err
	}
	w.Start()
	go func() { pw.Write(data) }()
	for w.Right() != c.R {
		if ctx.Err() != nil {
			return fmt.Errorf("log writer: watchdog at %d of %d", w.Right(), c.R)
		}
		time.Sleep(time.Millisecond)
	}
	w.Close()
	pw.CloseWithError(io.EOF)
	pr.CloseWithError(io.EOF)
	return nil
}

// state returns the id, log range and snapshot (offset) the cache holds for one of ids.
func (cb *cacheBox) state(ids []string) (id string, l, r, ro int64) {
	sp, err := cb.ch.StartPoint(ids)
	if err != nil || sp.RunId == "?" || sp.RunId == "" {
		return "", -1, -1, -1
	}
	id = sp.RunId
	l, r = cb.ch.GetOffsetRange(id)
	ro, sz := cb.ch.GetRdb(id)
	if sz < 0 {
		ro = -1
	}
	return
}

// readLog reads the cached log bytes [l, r) back through the reader API.
func (cb *cacheBox) readLog(id string, l, r int64) ([]byte, error) {
	if r <= l {
		return nil, nil
	}
	rd, err := cb.ch.NewReader(syncer.Offset{RunId: id, Offset: l})
	if err != nil {
		return nil, err
	}
	if !rd.IsAof() {
		rd.Close()
		return nil, fmt.Errorf("reader at %d is not a log reader", l)
	}
	w := usync.NewWaitCloser(nil)
	rd.Start(w)
	buf := make([]byte, r-l)
	res := make(chan error, 1)
	go func() { _, err := io.ReadFull(rd.IoReader(), buf); res <- err }()
	select {
	case err = <-res:
	case <-time.After(20 * time.Second):
		err = fmt.Errorf("watchdog")
	}
	w.Close(nil)
	rd.Close()
	return buf, err
}

// ---- the target's stored position

type storedPos struct {
	Absent bool
	ID     string
	Off    int64
	DB     int
	N      int // number of (db,id) entries found
}

func readPosition(tgt *fakeredis.Server) storedPos {
	sp := storedPos{Absent: true, Off: -1}
	tgt.With(func(dbs []fakeredis.DB) {
		for db, d := range dbs {
			o := d[config.CheckpointKey]
			if o == nil || o.Hash == nil {
				continue
			}
			for f, val := range o.Hash {
				if !strings.HasSuffix(f, "_offset") {
					continue
				}
				id := strings.TrimSuffix(f, "_offset")
				var off int64
				if _, err := fmt.Sscan(string(val), &off); err != nil {
					continue
				}
				sp.N++
				if off < 0 {
					continue
				}
				if sp.Absent || off > sp.Off {
					sp.Absent, sp.ID, sp.Off, sp.DB = false, id, off, db
				}
			}
		}
	})
	return sp
}

// clearPositionFields removes the position but leaves the run id → checkpoint-name entry.
func clearPositionFields(tgt *fakeredis.Server) {
	for db := 0; db < fakeredis.NumDBs; db++ {
		tgt.DoS(db, "DEL", config.CheckpointKey)
	}
}

// cutSnapshotReplay arms the target double for the first session.
// mode "setcp"  : the HSET with which a finished snapshot replay stores its position is answered
//
//	with an error instead of being executed; the phase is told (the tool is stopped);
//
// mode "restore": the same from the k-th RESTORE of the replay on (the replay is interrupted inside);
// mode "loop"   : like "setcp", but the tool is left alone: the error lasts until the tool has given the run up and the
//
//	source has decided another PSYNC (the tool's own retry loop reconnects).
func (cr *caseRun) cutSnapshotReplay(mode string, k int) {
	if mode != "loop" {
		cr.abort = make(chan struct{})
	}
	loopAt := int64(-1)
	snap, fired, restores := false, false, 0
	fire := func() {
		if !fired && cr.abort != nil {
			close(cr.abort)
		}
		fired = true
	}
	cr.tgt.SetHooks(nil, func(q *fakeredis.Req) (fakeredis.Reply, bool) {
		switch {
		case q.Cmd == "RESTORE":
			snap = true
			restores++
			switch {
			case mode == "restore" && restores > k:
				fire()
				return fakeredis.Err("ERR verif: target unavailable"), true
			}
		case mode == "restore" && fired && len(q.Args) > 0 && string(q.Args[0]) == config.CheckpointKey && q.Conn >= 0:
			return fakeredis.Err("ERR verif: target unavailable"), true
		case mode == "loop" && snap && q.Cmd == "HSET" && len(q.Args) > 3 && string(q.Args[0]) == config.CheckpointKey:
			if loopAt < 0 {
				loopAt = cr.psyncN.Load()
			}
			if cr.psyncN.Load() == loopAt {
				cr.faultErrors.Add(1)
				return fakeredis.Err("ERR verif: target unavailable"), true
			}
		case mode == "setcp" && snap && q.Cmd == "HSET" && len(q.Args) > 3 && string(q.Args[0]) == config.CheckpointKey:
			fire()
			return fakeredis.Err("ERR verif: target unavailable"), true
		}
		return nil, false
	}, nil)
}

func clearPosition(tgt *fakeredis.Server) {
	for db := 0; db < fakeredis.NumDBs; db++ {
		tgt.DoS(db, "DEL", config.CheckpointKey)
	}
	tgt.DoS(0, "DEL", config.CheckpointKeyHashKey)
}

func writePosition(tgt *fakeredis.Server, id string, off int64, db int) {
	clearPosition(tgt)
	tgt.DoS(db, "HSET", config.CheckpointKey, id+"_runid", id, id+"_version", config.Version, id+"_offset", fmt.Sprint(off),
		id+"_mtime", fmt.Sprint(time.Now().UnixNano()))
	tgt.DoS(0, "HSET", config.CheckpointKeyHashKey, id, config.CheckpointKey)
}
