package main

import (
	"fmt"
	"math/rand"
	"strings"

	"verif/internal/fakeredis"
)

// combo is one point of the enumerated product.
type combo struct {
	Src     string // same | trim-past | trim-before | failover-late | failover-early | newid
	Cache   string // empty | natural | log-only | other-id | cur-id
	Pid     string // absent | id1 | cur | unknown
	Prel    string // na | at-right | inside | before-left | beyond-right   (position relative to the cached range)
	Backend string // disk | mem
	Restart string // restart (Stop + fresh instance, start-up bookkeeping) | inloop (connection lost, the tool's own retry loop)
}

func (c combo) Label() string {
	return fmt.Sprintf("src=%s|cache=%s|pid=%s|prel=%s|%s|%s", c.Src, c.Cache, c.Pid, c.Prel, c.Backend, c.Restart)
}

var (
	allSrc   = []string{"same", "trim-past", "trim-before", "failover-late", "failover-early", "newid"}
	allCache = []string{"empty", "natural", "log-only", "other-id", "cur-id"}
	allPid   = []string{"absent", "id1", "cur", "unknown"}
	allPrel  = []string{"at-right", "inside", "before-left", "beyond-right"}
)

func newIDSrc(src string) bool { return strings.HasPrefix(src, "failover") || src == "newid" }

// enumerate lists every combination of the product that can exist.
func enumerate() []combo {
	var out []combo
	for _, be := range []string{"disk", "mem"} {
		for _, src := range allSrc {
			out = append(out, combo{Src: src, Cache: "natural", Pid: "id1", Prel: "at-right", Backend: be, Restart: "inloop"})
			for _, ca := range allCache {
				if ca == "cur-id" && !newIDSrc(src) {
					continue // the current id is the first session's id: same as natural / log-only
				}
				for _, pid := range allPid {
					if pid == "cur" && !newIDSrc(src) {
						continue
					}
					prels := allPrel
					if pid == "absent" || ca == "empty" {
						prels = []string{"na"}
					} else if ca == "other-id" {
						prels = []string{"inside", "beyond-right"}
					}
					for _, pr := range prels {
						out = append(out, combo{Src: src, Cache: ca, Pid: pid, Prel: pr, Backend: be, Restart: "restart"})
					}
				}
			}
		}
	}
	return out
}

type cacheSpec struct {
	Kind    string
	ID      string
	Hist    *history  // history whose bytes fill the log
	Snap    *snapshot // nil = log only
	Ro      int64     // snapshot offset
	L, R    int64     // log range (R == L: empty log)
	Natural bool      // left as the first session produced it
}

type cpSpec struct {
	Absent  bool
	Natural bool
	ID      string
	Off     int64
	DB      int
}

type plan struct {
	C  combo
	B1 int64

	ID1   string
	H1    *history // first history: session-1 live part, then what the old master produced while the tool was away
	L1End int64    // end of the session-1 live part = the natural resume position
	End1  string   // sentinel id of session 1
	S1    *snapshot

	// session-2 source
	H2         *history // current history (== H1 for the same-id mutations)
	SrcID2     string
	S          int64 // switch offset (tool convention): bytes below S are shared with H1; -1 = no previous history
	BacklogOff int64 // Redis numbering: number of the first byte in the backlog
	S2         *snapshot
	HbReply    int
	HbRDB      int
	LiveFrom   int64 // bytes of H2 from here on are appended while session 2 runs

	CP    cpSpec
	Cache cacheSpec

	Constructed []string
	FreshDisk   bool // disk backend: second session opens the directory with a fresh channel object
}

type infeasible struct{ why string }

func (e infeasible) Error() string { return "infeasible: " + e.why }

func growPiece(r *rand.Rand, h *history, tag string, until int64, min int) {
	n := 0
	for n < min || h.End() < until {
		h.appendPiece(genPiece(r, fmt.Sprintf("%s%d", tag, n), 3+r.Intn(4)))
		n++
		if n > 400 {
			panic("growPiece runaway")
		}
	}
}

// buildPlan derives a concrete scenario from a combination (sizes and offsets by the PRNG).
func buildPlan(r *rand.Rand, c combo) (*plan, error) {
	p := &plan{C: c, S: -1}
	p.B1 = int64(1000 + r.Intn(1000000))
	p.ID1 = randID(r)
	p.H1 = newHistory(p.ID1, p.B1)
	p.H1.appendPiece(genPiece(r, "a", 6+r.Intn(10)))
	st, id := sentinelPiece("ea", p.H1.Cmds[len(p.H1.Cmds)-1].DB)
	p.H1.appendPiece(st)
	p.End1 = id
	p.L1End = p.H1.End()
	p.S1 = genSnapshot(r, "s1")
	p.S2 = genSnapshot(r, "s2")
	p.HbReply, p.HbRDB = r.Intn(3), r.Intn(3)
	// what the old master produced while the tool was away
	growPiece(r, p.H1, "g", 0, 2)
	P1 := p.L1End

	// ---- source of the second session
	switch c.Src {
	case "same", "trim-past", "trim-before":
		p.H2 = p.H1
		p.SrcID2 = ""
		if r.Intn(2) == 0 {
			p.SrcID2 = randID(r) // an unrelated older id
			p.S = -1
		}
	case "failover-early", "failover-late":
		var cand []int64
		if c.Src == "failover-early" {
			cand = p.H1.boundaries(p.B1, P1-1)
		} else {
			cand = p.H1.boundaries(P1, p.H1.End())
			if c.Prel == "beyond-right" {
				cand = filterI64(cand, func(x int64) bool { return x > P1 })
			}
		}
		if len(cand) == 0 {
			return nil, infeasible{"no switch offset"}
		}
		p.S = pickI64(r, cand)
		p.H2 = p.H1.prefix(randID(r), p.S)
		p.SrcID2 = p.ID1
		// the promoted replica's own writes: usually long enough to cover every offset of H1
		until := p.S
		if r.Intn(10) < 8 {
			until = p.H1.End() + int64(r.Intn(300))
		}
		growPiece(r, p.H2, "d", until, r.Intn(2))
	case "newid":
		b3 := P1 - int64(1+r.Intn(400))
		if r.Intn(4) == 0 {
			b3 = p.B1 + int64(r.Intn(2000)) - 1000
		}
		if b3 < 1 {
			b3 = 1
		}
		p.H2 = newHistory(randID(r), b3)
		if r.Intn(2) == 0 {
			p.SrcID2 = randID(r)
		}
		growPiece(r, p.H2, "p", p.H1.End()+int64(r.Intn(300)), 1)
	}
	p.LiveFrom = p.H2.End()
	cur := p.H2.ReplID

	// ---- cache
	switch c.Cache {
	case "empty":
		p.Cache = cacheSpec{Kind: "empty"}
		p.Constructed = append(p.Constructed, "cache-dropped")
	case "natural":
		p.Cache = cacheSpec{Kind: "natural", ID: p.ID1, Hist: p.H1, Snap: p.S1, Ro: p.B1, L: p.B1, R: P1, Natural: true}
	case "log-only", "cur-id":
		h, id := p.H1, p.ID1
		if c.Cache == "cur-id" {
			h, id = p.H2, cur
		}
		bs := h.boundaries(h.Base+1, p.LiveFrom)
		if c.Cache == "log-only" {
			bs = h.boundaries(h.Base+1, h.End()-1)
		}
		if len(bs) < 4 {
			return nil, infeasible{"history too short for a log-only cache"}
		}
		i := 1 + r.Intn(len(bs)-3)
		j := i + 1 + r.Intn(len(bs)-2-i)
		p.Cache = cacheSpec{Kind: c.Cache, ID: id, Hist: h, L: bs[i], R: bs[j]}
		p.Constructed = append(p.Constructed, "cache-built-through-writer-api")
	case "other-id":
		hx := newHistory(randID(r), P1-int64(50+r.Intn(300)))
		growPiece(r, hx, "x", P1+int64(r.Intn(200)), 2)
		bs := hx.boundaries(hx.Base, hx.End())
		i := r.Intn(len(bs) - 1)
		j := i + 1 + r.Intn(len(bs)-1-i)
		p.Cache = cacheSpec{Kind: "other-id", ID: hx.ReplID, Hist: hx, L: bs[i], R: bs[j]}
		if r.Intn(2) == 0 {
			p.Cache.Snap, p.Cache.Ro = genSnapshot(r, "sx"), bs[i]
		}
		p.Constructed = append(p.Constructed, "cache-built-through-writer-api")
	}

	// ---- resume position stored on the target
	switch c.Pid {
	case "absent":
		p.CP = cpSpec{Absent: true}
		p.Constructed = append(p.Constructed, "checkpoint-removed")
	default:
		var hp *history
		switch c.Pid {
		case "id1":
			p.CP.ID, hp = p.ID1, p.H1
		case "cur":
			p.CP.ID, hp = cur, p.H2
		case "unknown":
			p.CP.ID, hp = randID(r), p.H1
		}
		hi := hp.End()
		if hp == p.H2 {
			hi = p.LiveFrom
		}
		bs := hp.boundaries(hp.Base, hi)
		l, rr := p.Cache.L, p.Cache.R
		var cand []int64
		switch c.Prel {
		case "na":
			cand = bs
			if c.Pid == "id1" {
				cand = []int64{P1}
			}
		case "at-right":
			cand = filterI64(bs, func(x int64) bool { return x == rr })
		case "inside":
			cand = filterI64(bs, func(x int64) bool { return x >= l && x < rr })
		case "before-left":
			cand = filterI64(bs, func(x int64) bool { return x < l })
			if len(cand) == 0 {
				cand = []int64{l - int64(1+r.Intn(100))}
			}
		case "beyond-right":
			cand = filterI64(bs, func(x int64) bool { return x > rr })
		}
		// failover: keep the class the combination names when the position is under the first id
		if c.Pid == "id1" && c.Src == "failover-early" {
			if c2 := filterI64(cand, func(x int64) bool { return x > p.S }); len(c2) > 0 {
				cand = c2
			}
		}
		if c.Pid == "id1" && c.Src == "failover-late" {
			if c2 := filterI64(cand, func(x int64) bool { return x <= p.S }); len(c2) > 0 {
				cand = c2
			}
		}
		if len(cand) == 0 {
			return nil, infeasible{"no position satisfies " + c.Prel}
		}
		p.CP.Off = pickI64(r, cand)
		if p.CP.Off < 0 {
			return nil, infeasible{"negative position"}
		}
		p.CP.DB = hp.dbAt(p.CP.Off)
		if c.Pid == "id1" && p.CP.Off == P1 {
			p.CP.Natural = true
		} else {
			p.Constructed = append(p.Constructed, "checkpoint-written")
		}
	}

	// ---- backlog of the second source
	p.BacklogOff = p.H2.Base + 1
	if c.Src == "trim-past" || c.Src == "trim-before" {
		var need []int64
		if !p.CP.Absent {
			need = append(need, p.CP.Off+1)
		}
		if p.Cache.Kind != "empty" {
			need = append(need, p.Cache.R+1)
		}
		mx, mn := int64(-1), int64(-1)
		for _, n := range need {
			if n > mx {
				mx = n
			}
			if mn < 0 || n < mn {
				mn = n
			}
		}
		if c.Src == "trim-past" {
			if mx >= p.LiveFrom+1 {
				return nil, infeasible{"nothing lies past the needed offset"}
			}
			lo := mx + 1
			if lo < p.BacklogOff {
				lo = p.BacklogOff
			}
			p.BacklogOff = lo + int64(r.Intn(int(p.LiveFrom+1-lo)+1))
		} else {
			b := p.H2.Base + 1 + int64(r.Intn(40))
			if mn >= 0 {
				b = mn
				if r.Intn(2) == 0 {
					b -= int64(r.Intn(60))
				}
			}
			if b < p.H2.Base+1 {
				b = p.H2.Base + 1
			}
			if b > p.LiveFrom+1 {
				b = p.LiveFrom + 1
			}
			p.BacklogOff = b
		}
	}

	if c.Restart == "inloop" {
		p.Constructed = nil
	}
	p.FreshDisk = c.Backend == "disk" && r.Intn(2) == 0
	return p, nil
}

func (p *plan) sourceConfig(stamp func() int64) fakeredis.SourceConfig {
	h := p.H2
	cfg := fakeredis.SourceConfig{ReplID: h.ReplID, ReplID2: p.SrcID2, MasterReplOffset: p.LiveFrom,
		BacklogOff: p.BacklogOff, Backlog: append([]byte{}, h.Bytes[p.BacklogOff-1-h.Base:p.LiveFrom-h.Base]...),
		RDB: p.S2.RDB, HeartbeatsBeforeReply: p.HbReply, HeartbeatsBeforeRDB: p.HbRDB, Stamp: stamp}
	if p.S >= 0 {
		cfg.SecondReplidOffset = p.S + 1
	} else if p.SrcID2 != "" {
		cfg.SecondReplidOffset = p.B1 // an old switch far in the past
	}
	if len(cfg.Backlog) == 0 {
		cfg.Backlog = []byte{}
	}
	return cfg
}

// posClass names the class of the stored position as the property's quantifier does.
func (p *plan) posClass(id string, off int64, absent bool) string {
	if absent {
		return "absent"
	}
	switch {
	case id == p.H2.ReplID:
		return "current-id"
	case id == p.SrcID2 && p.S >= 0 && off <= p.S:
		return "previous-id<=s"
	case id == p.SrcID2 && p.S >= 0:
		return "previous-id>s"
	}
	return "unknown-id"
}

// onCurrent: does (id, off) lie on the current history?
func (p *plan) onCurrent(id string, off int64) bool {
	if id == p.H2.ReplID {
		return true
	}
	return p.S >= 0 && id == p.SrcID2 && off <= p.S
}

func (p *plan) cacheClass(pos int64, absent bool) string {
	c := p.Cache
	if c.Kind == "empty" {
		return "empty"
	}
	k := "log-only"
	if c.Snap != nil {
		k = "snapshot+log"
	}
	idc := "other-id"
	switch {
	case c.ID == p.H2.ReplID:
		idc = "current-id"
	case c.ID == p.SrcID2 && p.S >= 0:
		idc = "previous-id"
		if c.R > p.S {
			idc = "previous-id-beyond-s"
		}
	}
	rel := ""
	if !absent {
		switch {
		case c.R < pos:
			rel = "|shorter-than-P"
		case c.R > pos:
			rel = "|longer-than-P"
		default:
			rel = "|ends-at-P"
		}
	}
	return k + "|" + idc + rel
}
