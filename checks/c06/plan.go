package main

import (
	"bytes"
	"fmt"
	"math/rand"
	"strings"

	"verif/internal/fakeredis"
	"verif/internal/gen"
)

// combo is one point of the enumerated product.
type combo struct {
	Src     string // same | trim-past | trim-before | failover-late | failover-early | newid
	Cache   string // empty | natural | log-only | other-id | cur-id
	Pid     string // absent (position and checkpoint-hash entry gone) | nofields (position fields gone, hash entry kept) | id1 | cur | unknown
	Prel    string // na | at-right | inside | before-left | beyond-right   (position relative to the cached range)
	Backend string // disk | mem
	// restart (Stop + fresh instance, start-up bookkeeping) | inloop (connection lost, the tool's own retry loop) |
	// cut (first session stopped between the snapshot replay's DelCheckpoint and SetCheckpoint, then restart)
	Restart string
	Drop    bool // the first replica connection of the judged reconnect is cut by the source after some payload bytes
	// TFault: the TARGET answers bookkeeping writes of the reconnect with errors for a while.
	// reset    = the position writes that follow the source's +FULLRESYNC (ResetStartPoint) fail until the tool gives the
	//            connection up (a new PSYNC arrives) or goes on to the run-id bookkeeping (checkpoint-hash key touched)
	// setrunid = the run-id bookkeeping (UpdateCheckpoint) fails from its k-th write on, for n attempts
	// startup  = one look-up of the checkpoint name under the previous replication id is answered with an error while
	//            a fresh instance does its start-up bookkeeping
	TFault string
	// Base: "" = the first history starts at a PRNG offset; "0" / "1" = the very first FULLRESYNC is granted at
	// master_repl_offset 0 / 1 (a master that never had a replica)
	Base string
	// LoopCut: inside the FIRST session the snapshot replay cannot store its position (the target answers that HSET with
	// an error until the tool has given the run up); the tool's own retry loop reconnects (no position, snapshot cached)
	// — judged as a first connection
	LoopCut bool
	// Refuse: the source answers the first 1-3 PSYNCs of the judged reconnect with -NOMASTERLINK / -LOADING (keeping the
	// connection open) and serves normally afterwards
	Refuse bool
	Idle   bool // the source produces nothing after the reconnect (the tool is stopped in the idle period)
}

func (c combo) Label() string {
	l := fmt.Sprintf("src=%s|cache=%s|pid=%s|prel=%s|%s|%s", c.Src, c.Cache, c.Pid, c.Prel, c.Backend, c.Restart)
	if c.Drop {
		l += "|drop"
	}
	if c.TFault != "" {
		l += "|tfault=" + c.TFault
	}
	if c.Idle {
		l += "|idle"
	}
	if c.LoopCut {
		l += "|loopcut"
	}
	if c.Refuse {
		l += "|refuse"
	}
	if c.Base != "" {
		l += "|base=" + c.Base
	}
	return l
}

var (
	allSrc   = []string{"same", "trim-past", "trim-before", "failover-late", "failover-early", "newid"}
	allCache = []string{"empty", "natural", "log-only", "other-id", "cur-id"}
	allPid   = []string{"absent", "nofields", "id1", "cur", "unknown"}
	allPrel  = []string{"at-right", "inside", "before-left", "beyond-right"}
)

func newIDSrc(src string) bool { return strings.HasPrefix(src, "failover") || src == "newid" }

// enumerate lists every combination of the product that can exist.
func enumerate() []combo {
	var out []combo
	for _, be := range []string{"disk", "mem"} {
		for _, src := range allSrc {
			out = append(out, combo{Src: src, Cache: "natural", Pid: "id1", Prel: "at-right", Backend: be, Restart: "inloop"})
			out = append(out, combo{Src: src, Cache: "natural", Pid: "id1", Prel: "at-right", Backend: be, Restart: "inloop", Drop: true})
			out = append(out, combo{Src: src, Cache: "natural", Pid: "id1", Prel: "at-right", Backend: be, Restart: "restart", Drop: true})
			if newIDSrc(src) {
				for _, rs := range []string{"restart", "inloop"} {
					out = append(out, combo{Src: src, Cache: "natural", Pid: "id1", Prel: "at-right", Backend: be, Restart: rs, Drop: true, TFault: "reset"})
					out = append(out, combo{Src: src, Cache: "natural", Pid: "id1", Prel: "at-right", Backend: be, Restart: rs, Drop: true, TFault: "setrunid"})
					out = append(out, combo{Src: src, Cache: "natural", Pid: "id1", Prel: "at-right", Backend: be, Restart: rs, TFault: "setrunid"})
				}
			}
			// the source refuses the first PSYNCs of the reconnect for a while
			for _, rs := range []string{"restart", "inloop"} {
				out = append(out, combo{Src: src, Cache: "natural", Pid: "id1", Prel: "at-right", Backend: be, Restart: rs, Refuse: true})
			}
			out = append(out, combo{Src: src, Cache: "empty", Pid: "id1", Prel: "na", Backend: be, Restart: "restart", Refuse: true})
			out = append(out, combo{Src: src, Cache: "natural", Pid: "id1", Prel: "inside", Backend: be, Restart: "restart", Refuse: true})
			out = append(out, combo{Src: src, Cache: "log-only", Pid: "id1", Prel: "beyond-right", Backend: be, Restart: "restart", Refuse: true})
			out = append(out, combo{Src: src, Cache: "natural", Pid: "nofields", Prel: "na", Backend: be, Restart: "restart", Refuse: true})
			out = append(out, combo{Src: src, Cache: "empty", Pid: "absent", Prel: "na", Backend: be, Restart: "restart", Refuse: true})
			if strings.HasPrefix(src, "failover") {
				for _, ca := range []string{"empty", "natural"} {
					pr := "na"
					if ca == "natural" {
						pr = "at-right"
					}
					out = append(out, combo{Src: src, Cache: ca, Pid: "id1", Prel: pr, Backend: be, Restart: "restart", TFault: "startup"})
				}
			}
			if src == "same" || src == "trim-before" || src == "failover-late" {
				// the cache does not cover the stored position, the source grants it, then stays idle
				out = append(out, combo{Src: src, Cache: "empty", Pid: "id1", Prel: "na", Backend: be, Restart: "restart", Idle: true})
				out = append(out, combo{Src: src, Cache: "other-id", Pid: "id1", Prel: "beyond-right", Backend: be, Restart: "restart", Idle: true})
				out = append(out, combo{Src: src, Cache: "log-only", Pid: "id1", Prel: "beyond-right", Backend: be, Restart: "restart", Idle: true})
				out = append(out, combo{Src: src, Cache: "natural", Pid: "id1", Prel: "at-right", Backend: be, Restart: "restart", Idle: true})
			}
			if src == "same" || src == "trim-before" || src == "failover-late" {
				// the snapshot is cached and replayed, the tool stops before its position is stored
				for _, base := range []string{"", "0", "1"} {
					// ... before its position is stored ("cut") / inside the replay ("cutmid")
					out = append(out, combo{Src: src, Cache: "natural", Pid: "absent", Prel: "na", Backend: be, Restart: "cut", Base: base})
					out = append(out, combo{Src: src, Cache: "natural", Pid: "absent", Prel: "na", Backend: be, Restart: "cutmid", Base: base})
					out = append(out, combo{Src: src, Cache: "natural", Pid: "id1", Prel: "at-right", Backend: be, Restart: "restart", LoopCut: true, Base: base})
					if base != "" {
						out = append(out, combo{Src: src, Cache: "natural", Pid: "nofields", Prel: "na", Backend: be, Restart: "restart", Base: base})
						out = append(out, combo{Src: src, Cache: "natural", Pid: "id1", Prel: "inside", Backend: be, Restart: "restart", Base: base})
						out = append(out, combo{Src: src, Cache: "natural", Pid: "id1", Prel: "at-right", Backend: be, Restart: "inloop", Base: base})
					}
				}
			}
			for _, ca := range allCache {
				if ca == "cur-id" && !newIDSrc(src) {
					continue // the current id is the first session's id: same as natural / log-only
				}
				for _, pid := range allPid {
					if pid == "cur" && !newIDSrc(src) {
						continue
					}
					prels := allPrel
					if pid == "absent" || pid == "nofields" || ca == "empty" {
						prels = []string{"na"}
					} else if ca == "other-id" {
						prels = []string{"inside", "beyond-right"}
					}
					for _, pr := range prels {
						out = append(out, combo{Src: src, Cache: ca, Pid: pid, Prel: pr, Backend: be, Restart: "restart"})
					}
				}
			}
		}
	}
	return out
}

type cacheSpec struct {
	Kind    string
	ID      string
	Hist    *history  // history whose bytes fill the log
	Snap    *snapshot // nil = log only
	Ro      int64     // snapshot offset
	L, R    int64     // log range (R == L: empty log)
	Natural bool      // left as the first session produced it
}

type cpSpec struct {
	Absent   bool
	KeepHash bool // absent: only the position fields are gone, the run id → checkpoint-name entry stays
	Natural  bool
	ID       string
	Off      int64
	DB       int
}

type plan struct {
	C  combo
	B1 int64

	ID1   string
	H1    *history // first history: session-1 live part, then what the old master produced while the tool was away
	L1End int64    // end of the session-1 live part = the natural resume position
	End1  string   // sentinel id of session 1
	S1    *snapshot

	// session-2 source
	H2         *history // current history (== H1 for the same-id mutations)
	SrcID2     string
	S          int64 // switch offset (tool convention): bytes below S are shared with H1; -1 = no previous history
	BacklogOff int64 // Redis numbering: number of the first byte in the backlog
	S2         *snapshot
	HbReply    int
	HbRDB      int
	LiveFrom   int64 // bytes of H2 from here on are appended while session 2 runs

	CP    cpSpec
	Cache cacheSpec

	PTxn        float64
	RefuseN     int    // number of PSYNCs the source refuses first
	RefuseLine  string // the error reply
	TFaultK     int    // setrunid: the first failing write of the run-id bookkeeping (1-based)
	TFaultN     int    // setrunid: number of bookkeeping attempts that fail before the target recovers
	DropAfter   int64  // >0: the source cuts the first replica connection of the reconnect after that many payload bytes
	Constructed []string
	Behind      bool // failover: the new master has produced less than the stored position when the tool reconnects
	Aligned     bool // failover: a command boundary of the new history falls on the stored position's number
	FreshDisk   bool // disk backend: second session opens the directory with a fresh channel object
}

type infeasible struct{ why string }

func (e infeasible) Error() string { return "infeasible: " + e.why }

func growPiece(r *rand.Rand, h *history, tag string, until int64, min int, ptxn float64) {
	n := 0
	for n < min || h.End() < until {
		h.appendPiece(genPiece(r, fmt.Sprintf("%s%d", tag, n), 3+r.Intn(4), ptxn))
		n++
		if n > 400 {
			panic("growPiece runaway")
		}
	}
}

// padTo appends a write to h so that a command boundary falls exactly on `target`.
func padTo(h *history, tag string, target int64) bool {
	need := target - h.End()
	id := fmt.Sprintf("~%s.0~", tag)
	key := []byte("pad" + tag)
	for n := need - 80; n <= need; n++ {
		if n < int64(len(id)) {
			continue
		}
		val := append([]byte(id), bytes.Repeat([]byte{'x'}, int(n)-len(id))...)
		b := gen.Encode("set", [][]byte{key, val})
		if int64(len(b)) == need {
			db := 0
			if len(h.Cmds) > 0 {
				db = h.Cmds[len(h.Cmds)-1].DB
			}
			st := &gen.Stream{Hist: tag, Bytes: b}
			st.Cmds = []gen.Cmd{{Kind: gen.KWrite, Name: "set", Args: [][]byte{key, val}, DB: db, ID: id, Start: 0, End: int64(len(b)), Group: -1}}
			h.appendPiece(st)
			return true
		}
	}
	return false
}

// around picks a log range [l,r] among the boundaries bs that stands in relation prel to pivot.
func around(r *rand.Rand, bs []int64, pivot int64, prel string) (int64, int64, bool) {
	var ls, rs []int64
	switch prel {
	case "at-right":
		rs = filterI64(bs, func(x int64) bool { return x == pivot })
		ls = filterI64(bs, func(x int64) bool { return x < pivot })
	case "inside":
		ls = filterI64(bs, func(x int64) bool { return x <= pivot })
		rs = filterI64(bs, func(x int64) bool { return x > pivot })
	case "before-left":
		ls = filterI64(bs, func(x int64) bool { return x > pivot })
		if len(ls) > 1 {
			ls = ls[:len(ls)-1]
		}
	case "beyond-right":
		rs = filterI64(bs, func(x int64) bool { return x < pivot })
		if len(rs) > 1 {
			rs = rs[1:]
		}
	default: // na: anything
		ls = bs[:len(bs)-1]
	}
	if prel == "beyond-right" {
		if len(rs) == 0 {
			return 0, 0, false
		}
		rr := pickI64(r, rs)
		ls = filterI64(bs, func(x int64) bool { return x < rr })
		if len(ls) == 0 {
			return 0, 0, false
		}
		return pickI64(r, ls), rr, true
	}
	if len(ls) == 0 {
		return 0, 0, false
	}
	l := pickI64(r, ls)
	if rs == nil {
		rs = filterI64(bs, func(x int64) bool { return x > l })
	} else {
		rs = filterI64(rs, func(x int64) bool { return x > l })
	}
	if len(rs) == 0 {
		return 0, 0, false
	}
	return l, pickI64(r, rs), true
}

// buildPlan derives a concrete scenario from a combination (sizes and offsets by the PRNG).
func buildPlan(r *rand.Rand, c combo) (*plan, error) {
	p := &plan{C: c, S: -1}
	p.B1 = int64(1000 + r.Intn(1000000))
	switch c.Base {
	case "0":
		p.B1 = 0
	case "1":
		p.B1 = 1
	}
	p.ID1 = randID(r)
	p.H1 = newHistory(p.ID1, p.B1)
	// (with a connection cut inside the stream a source transaction may be torn; keep that for the
	// checks about transactions: the cut scenarios carry none)
	p.PTxn = 0.06
	if c.Drop {
		p.PTxn = 0
	}
	p.H1.appendPiece(genPiece(r, "a", 6+r.Intn(10), p.PTxn))
	st, id := sentinelPiece("ea", p.H1.Cmds[len(p.H1.Cmds)-1].DB)
	p.H1.appendPiece(st)
	p.End1 = id
	p.L1End = p.H1.End()
	p.S1 = genSnapshot(r, "s1")
	p.S2 = genSnapshot(r, "s2")
	p.HbReply, p.HbRDB = r.Intn(3), r.Intn(3)
	// what the old master produced while the tool was away
	if !c.Idle { // (idle: the stored position is the end of everything the source ever produced)
		growPiece(r, p.H1, "g", 0, 2, p.PTxn)
	}
	P1 := p.L1End
	natural := c.Cache == "natural"

	// ---- the stored position first (when it lives on the first history)
	havePos := false
	if c.Pid == "id1" || c.Pid == "unknown" {
		bs := p.H1.boundaries(p.B1, p.H1.End())
		var cand []int64
		switch {
		case c.Idle:
			cand = []int64{P1}
		case c.Prel == "na" && c.Pid == "id1":
			cand = []int64{P1}
		case natural && c.Prel == "at-right":
			cand = []int64{P1}
		case natural && c.Prel == "inside":
			cand = filterI64(bs, func(x int64) bool { return x >= p.B1 && x < P1 })
		case natural && c.Prel == "before-left":
			cand = []int64{p.B1 - int64(1+r.Intn(100))}
		case natural && c.Prel == "beyond-right":
			cand = filterI64(bs, func(x int64) bool { return x > P1 })
		default:
			if len(bs) < 6 {
				return nil, infeasible{"history too short"}
			}
			cand = bs[2 : len(bs)-2]
		}
		if len(cand) == 0 {
			return nil, infeasible{"no position satisfies " + c.Prel}
		}
		p.CP.Off = pickI64(r, cand)
		p.CP.ID = p.ID1
		if c.Pid == "unknown" {
			p.CP.ID = randID(r)
		}
		p.CP.DB = p.H1.dbAt(p.CP.Off)
		havePos = true
	}
	ref := P1 // what "early"/"late" refer to
	if havePos && c.Pid == "id1" && p.CP.Off >= p.B1 {
		ref = p.CP.Off
	}

	// ---- source of the second session
	switch c.Src {
	case "same", "trim-past", "trim-before":
		p.H2 = p.H1
		if r.Intn(2) == 0 {
			p.SrcID2 = randID(r) // an unrelated older id
		}
	case "failover-early", "failover-late":
		var cand []int64
		if c.Src == "failover-early" {
			cand = p.H1.boundaries(p.B1, ref-1)
		} else {
			cand = p.H1.boundaries(ref, p.H1.End())
		}
		if len(cand) == 0 {
			return nil, infeasible{"no switch offset"}
		}
		p.S = pickI64(r, cand)
		p.H2 = p.H1.prefix(randID(r), p.S)
		p.SrcID2 = p.ID1
		// the promoted replica's own writes.  Usually they cover every offset of H1, and when the
		// stored position lies beyond the switch a command boundary of the new history is made
		// to fall on the same number (the continuation then parses cleanly: the silent case).
		cacheCovers := c.Cache == "natural" || c.Cache == "log-only" // a cache under the first id decides by itself
		// (an abandoned full resynchronisation leaves the cache empty: same situation)
		abandoned := c.Drop || c.TFault != ""
		if havePos && c.Pid == "id1" && p.CP.Off > p.S && ((!cacheCovers && r.Intn(10) < 7) || (abandoned && r.Intn(10) < 8)) {
			for p.CP.Off-p.H2.End() > 400 {
				p.H2.appendPiece(genPiece(r, fmt.Sprintf("d%d", len(p.H2.Cmds)), 1+r.Intn(3), p.PTxn))
			}
			if p.CP.Off-p.H2.End() >= 60 && padTo(p.H2, "dp", p.CP.Off) {
				p.Aligned = true
			}
		}
		// ... or the promoted replica is still behind the stored position (a third of the cases)
		until := p.S
		// (with a target fault the interesting case is the new master being ahead of the stored position)
		if p.Aligned || c.TFault != "" || (cacheCovers && r.Intn(2) == 0) || (!cacheCovers && r.Intn(3) > 0) {
			until = p.H1.End() + int64(r.Intn(300))
		} else {
			p.Behind = true
		}
		if c.Idle {
			until = p.S
		}
		minD := r.Intn(2)
		if c.Idle {
			minD = 0
		}
		growPiece(r, p.H2, "dd", until, minD, p.PTxn)
	case "newid":
		b3 := ref - int64(1+r.Intn(400))
		if r.Intn(4) == 0 {
			b3 = p.B1 + int64(r.Intn(2000)) - 1000
		}
		if b3 < 1 {
			b3 = 1
		}
		p.H2 = newHistory(randID(r), b3)
		if r.Intn(2) == 0 {
			p.SrcID2 = randID(r)
		}
		growPiece(r, p.H2, "p", p.H1.End()+int64(r.Intn(300)), 1, p.PTxn)
	}
	p.LiveFrom = p.H2.End()
	cur := p.H2.ReplID

	// ---- a position under the current id lives on the current history
	if c.Pid == "cur" {
		bs := p.H2.boundaries(p.H2.Base, p.LiveFrom)
		var cand []int64
		switch {
		case natural && c.Prel == "at-right":
			cand = filterI64(bs, func(x int64) bool { return x == P1 })
		case natural && c.Prel == "inside":
			cand = filterI64(bs, func(x int64) bool { return x >= p.B1 && x < P1 })
		case natural && c.Prel == "before-left":
			cand = filterI64(bs, func(x int64) bool { return x < p.B1 })
			if len(cand) == 0 && p.B1 > 200 {
				cand = []int64{p.B1 - int64(1+r.Intn(100))}
			}
		case natural && c.Prel == "beyond-right":
			cand = filterI64(bs, func(x int64) bool { return x > P1 })
		default:
			if len(bs) < 6 {
				return nil, infeasible{"history too short"}
			}
			cand = bs[2 : len(bs)-2]
		}
		if len(cand) == 0 {
			return nil, infeasible{"no position on the current history satisfies " + c.Prel}
		}
		p.CP.Off = pickI64(r, cand)
		p.CP.ID = cur
		p.CP.DB = p.H2.dbAt(p.CP.Off)
		havePos = true
	}
	switch {
	case c.Pid == "absent" && (c.Restart == "cut" || c.Restart == "cutmid"):
		p.CP = cpSpec{Absent: true, KeepHash: true, Natural: true}
	case c.Pid == "absent":
		p.CP = cpSpec{Absent: true}
		p.Constructed = append(p.Constructed, "checkpoint-removed")
	case c.Pid == "nofields":
		p.CP = cpSpec{Absent: true, KeepHash: true}
		p.Constructed = append(p.Constructed, "checkpoint-fields-removed")
	case c.Pid == "id1" && p.CP.Off == P1:
		p.CP.Natural = true
	default:
		p.Constructed = append(p.Constructed, "checkpoint-written")
	}
	pivot := P1
	if havePos {
		pivot = p.CP.Off
	}

	// ---- cache, built around the position
	switch c.Cache {
	case "empty":
		p.Cache = cacheSpec{Kind: "empty"}
		p.Constructed = append(p.Constructed, "cache-dropped")
	case "natural":
		p.Cache = cacheSpec{Kind: "natural", ID: p.ID1, Hist: p.H1, Snap: p.S1, Ro: p.B1, L: p.B1, R: P1, Natural: true}
	case "log-only", "cur-id":
		h, id, hi := p.H1, p.ID1, p.H1.End()
		if c.Cache == "cur-id" {
			h, id, hi = p.H2, cur, p.LiveFrom
		}
		l, rr, ok := around(r, h.boundaries(h.Base, hi), pivot, c.Prel)
		if !ok {
			return nil, infeasible{"no cached range stands " + c.Prel + " to the position"}
		}
		p.Cache = cacheSpec{Kind: c.Cache, ID: id, Hist: h, L: l, R: rr}
		p.Constructed = append(p.Constructed, "cache-built-through-writer-api")
	case "other-id":
		hx := newHistory(randID(r), pivot-int64(50+r.Intn(300)))
		if hx.Base < 1 {
			hx.Base = 1
		}
		growPiece(r, hx, "x", pivot+int64(100+r.Intn(200)), 2, p.PTxn)
		l, rr, ok := around(r, hx.boundaries(hx.Base, hx.End()), pivot, c.Prel)
		if !ok {
			return nil, infeasible{"no foreign range stands " + c.Prel + " to the position"}
		}
		p.Cache = cacheSpec{Kind: "other-id", ID: hx.ReplID, Hist: hx, L: l, R: rr}
		if r.Intn(2) == 0 {
			p.Cache.Snap, p.Cache.Ro = genSnapshot(r, "sx"), l
		}
		p.Constructed = append(p.Constructed, "cache-built-through-writer-api")
	}

	// ---- backlog of the second source
	p.BacklogOff = p.H2.Base + 1
	if c.Src == "trim-past" || c.Src == "trim-before" {
		var need []int64
		if !p.CP.Absent {
			need = append(need, p.CP.Off+1)
		}
		if p.Cache.Kind != "empty" {
			need = append(need, p.Cache.R+1)
		}
		mx, mn := int64(-1), int64(-1)
		for _, n := range need {
			if n > mx {
				mx = n
			}
			if mn < 0 || n < mn {
				mn = n
			}
		}
		if c.Src == "trim-past" {
			if mx >= p.LiveFrom+1 {
				return nil, infeasible{"nothing lies past the needed offset"}
			}
			lo := mx + 1
			if lo < p.BacklogOff {
				lo = p.BacklogOff
			}
			p.BacklogOff = lo + int64(r.Intn(int(p.LiveFrom+1-lo)+1))
		} else {
			b := p.H2.Base + 1 + int64(r.Intn(40))
			if mn >= 0 {
				b = mn
				if r.Intn(2) == 0 {
					b -= int64(r.Intn(60))
				}
			}
			if b < p.H2.Base+1 {
				b = p.H2.Base + 1
			}
			if b > p.LiveFrom+1 {
				b = p.LiveFrom + 1
			}
			p.BacklogOff = b
		}
	}

	if c.Restart == "inloop" {
		p.Constructed = nil
	}
	if c.Refuse {
		p.RefuseN = 1 + r.Intn(3)
		p.RefuseLine = []string{"NOMASTERLINK Can't SYNC while not connected with my master", "LOADING Redis is loading the dataset in memory"}[r.Intn(2)]
	}
	if c.TFault == "setrunid" {
		p.TFaultK, p.TFaultN = 1+r.Intn(4), 1+r.Intn(2)
	}
	if c.Drop {
		// somewhere inside the snapshot when one is served, else inside the first stream bytes
		p.DropAfter = int64(1 + r.Intn(len(p.S2.RDB)-1))
	}
	p.FreshDisk = c.Backend == "disk" && r.Intn(2) == 0
	return p, nil
}

func (p *plan) sourceConfig(stamp func() int64, onPsync func(fakeredis.PsyncEvent)) fakeredis.SourceConfig {
	h := p.H2
	cfg := fakeredis.SourceConfig{ReplID: h.ReplID, ReplID2: p.SrcID2, MasterReplOffset: p.LiveFrom,
		BacklogOff: p.BacklogOff, Backlog: append([]byte{}, h.Bytes[p.BacklogOff-1-h.Base:p.LiveFrom-h.Base]...),
		RDB: p.S2.RDB, HeartbeatsBeforeReply: p.HbReply, HeartbeatsBeforeRDB: p.HbRDB, Stamp: stamp, OnPsync: onPsync}
	if p.S >= 0 {
		cfg.SecondReplidOffset = p.S + 1
	} else if p.SrcID2 != "" {
		cfg.SecondReplidOffset = p.B1 // an old switch far in the past
	}
	if len(cfg.Backlog) == 0 {
		cfg.Backlog = []byte{}
	}
	return cfg
}

// posClass names the class of the stored position as the property's quantifier does.
func (p *plan) posClass(id string, off int64, absent bool) string {
	if absent {
		if p.CP.KeepHash && p.C.Restart == "cut" {
			return "absent(stopped-before-setcheckpoint)"
		}
		if p.CP.KeepHash && p.C.Restart == "cutmid" {
			return "absent(stopped-inside-snapshot-replay)"
		}
		if p.CP.KeepHash {
			return "absent(hash-entry-kept)"
		}
		return "absent"
	}
	switch {
	case id == p.H2.ReplID:
		return "current-id"
	case id == p.SrcID2 && p.S >= 0 && off <= p.S:
		return "previous-id<=s"
	case id == p.SrcID2 && p.S >= 0:
		return "previous-id>s"
	}
	return "unknown-id"
}

// onCurrent: does (id, off) lie on the current history?
func (p *plan) onCurrent(id string, off int64) bool {
	if id == p.H2.ReplID {
		return true
	}
	return p.S >= 0 && id == p.SrcID2 && off <= p.S
}

func (p *plan) cacheClass(pre preState) string {
	if pre.CacheID == "" {
		return "empty"
	}
	k := "log-only"
	if pre.CacheSnap != nil {
		k = "snapshot+log"
	}
	idc := "other-id"
	switch {
	case pre.CacheID == p.H2.ReplID:
		idc = "current-id"
	case pre.CacheID == p.SrcID2 && p.S >= 0:
		idc = "previous-id"
		if pre.CacheR > p.S {
			idc = "previous-id-beyond-s"
		}
	}
	rel := ""
	if !pre.PosAbsent {
		switch {
		case pre.CacheR < pre.Pos:
			rel = "|shorter-than-P"
		case pre.CacheR > pre.Pos:
			rel = "|longer-than-P"
		default:
			rel = "|ends-at-P"
		}
		switch {
		case pre.Pos < pre.CacheL && pre.CacheSnap != nil:
			rel += "|P-before-left-with-snapshot"
		case pre.Pos < pre.CacheL:
			rel += "|P-before-left-no-snapshot"
		case pre.Pos <= pre.CacheR:
			rel += "|P-inside"
		default:
			rel += "|P-beyond-right"
		}
	}
	return k + "|" + idc + rel
}
