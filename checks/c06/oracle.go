package main

import (
	"fmt"
	"strconv"
	"strings"

	"verif/internal/drive"
	"verif/internal/fakeredis"
	"verif/internal/gen"

	"github.com/mgtv-tech/redis-GunYu/config"
)

// preState is what the harness knows right before the judged (re)connection.
type preState struct {
	PosAbsent bool
	PosID     string
	Pos       int64
	CacheID   string // "" = empty
	CacheL    int64
	CacheR    int64
	CacheSnap *snapshot
	CacheRo   int64
	CacheHist *history
}

type finding struct {
	Sig  string
	What string
}

type verdict struct {
	Outcome   string
	Findings  []finding
	Compared  int
	SnapKeys  int
	Reapplied int
	Notes     []string
}

func (v *verdict) add(sig, format string, a ...any) {
	v.Findings = append(v.Findings, finding{Sig: sig, What: fmt.Sprintf(format, a...)})
}

type cpWrite struct {
	ID    string
	Off   int64
	Multi bool
}

// checkpointWrite extracts a resume-position write from an applied command.
func checkpointWrite(a *fakeredis.App) (cpWrite, bool) {
	if a.IsErr || (a.Cmd != "HSET" && a.Cmd != "HMSET") || len(a.Args) < 3 {
		return cpWrite{}, false
	}
	k := string(a.Args[0])
	if !strings.HasPrefix(k, config.CheckpointKey) || k == config.CheckpointKeyHashKey {
		return cpWrite{}, false
	}
	for i := 1; i+1 < len(a.Args); i += 2 {
		f := string(a.Args[i])
		if strings.HasSuffix(f, "_offset") {
			v, err := strconv.ParseInt(string(a.Args[i+1]), 10, 64)
			if err != nil {
				continue
			}
			return cpWrite{ID: strings.TrimSuffix(f, "_offset"), Off: v, Multi: len(a.Args) > 3}, true
		}
	}
	return cpWrite{}, false
}

func isBusiness(a *fakeredis.App) bool {
	if !a.Write || a.IsErr {
		return false
	}
	if len(a.Args) > 0 && drive.Reserved(a.Args[0]) {
		return false
	}
	return true
}

func snapTag(id string) string {
	// ~s2.3~ → s2
	if len(id) > 2 && id[0] == '~' && id[1] == 's' {
		if i := strings.IndexByte(id, '.'); i > 0 {
			return id[1:i]
		}
	}
	return ""
}

// judge evaluates the property on one (re)connection scenario: the commands the target applied
// after the reconnect, the PSYNC dialogue the source double logged, the state before.
func judge(p *plan, pre preState, s *sessLog) *verdict {
	v := &verdict{}
	h := p.H2
	ctx := fmt.Sprintf("|pos=%s|cache=%s|src=%s", p.posClass(pre.PosID, pre.Pos, pre.PosAbsent), shortCache(p, pre), p.C.Src)

	// --- walk the target's log
	type snapRun struct {
		tag  string
		seen map[string]int
		at   int
	}
	var cur *snapRun
	phase := "start" // start | after-snapshot | stream : where in the reconnect the next stream command stands
	clause := map[string]string{"start": "continuation-not-at-stored-position", "after-snapshot": "stream-after-snapshot-not-at-snapshot-offset", "stream": "stream-not-consecutive"}
	next := -1          // expected position in h.proj; -1 = nothing delivered yet
	stored := cpWrite{} // newest resume position the tool wrote in this session
	haveStored := false
	var lastMulti *cpWrite
	first := ""
	fulls := []fakeredis.PsyncEvent{}
	for _, e := range s.Psync {
		if !e.Continue {
			fulls = append(fulls, e)
		}
	}
	usedFull := map[int]bool{}

	closeSnap := func(final bool) bool {
		// a snapshot run ended (a stream command follows, or the log ends after the tool stored
		// the snapshot's position): it must be complete and legitimate
		sr := cur
		cur = nil
		var set *snapshot
		switch sr.tag {
		case p.S2.Tag:
			set = p.S2
		default:
			if pre.CacheSnap != nil && sr.tag == pre.CacheSnap.Tag {
				set = pre.CacheSnap
			} else if sr.tag == p.S1.Tag {
				set = p.S1
			}
		}
		if set == nil {
			v.add("snapshot-unknown"+ctx, "target applied snapshot keys tagged %q that no source or cache of this scenario holds", sr.tag)
			return false
		}
		missing := []string{}
		for _, k := range set.Keys {
			if sr.seen[k] == 0 {
				missing = append(missing, k)
			}
		}
		if len(missing) > 0 && final {
			return true // nothing followed: completeness of an unfinished replay is not this property's business
		}
		if len(missing) > 0 {
			v.add("snapshot-incomplete-followed-by-stream"+ctx, "snapshot %s replayed without keys %v, then the stream was applied", sr.tag, missing)
			return false
		}
		v.SnapKeys += len(set.Keys)
		// where does the stream restart?  the position the tool stored after the replay
		if lastMulti == nil {
			v.add("snapshot-without-stored-offset"+ctx, "snapshot %s replayed but no resume position was stored before the stream followed", sr.tag)
			return false
		}
		off := lastMulti.Off
		switch {
		case set == p.S2:
			ok := false
			for i, e := range fulls {
				if !usedFull[i] && e.MasterReplOffset == off && strings.EqualFold(lastMulti.ID, e.MasterReplID) {
					usedFull[i], ok = true, true
					break
				}
			}
			if !ok {
				v.add("snapshot-offset-not-granted"+ctx, "after replaying the source's snapshot the tool stored (%s,%d) but no FULLRESYNC of this session carried that id and offset (%v)",
					short(lastMulti.ID), off, psyncStrings(s.Psync))
				return false
			}
		default:
			// a cached snapshot: admissible only if it belongs to the current history
			if set != pre.CacheSnap || !p.onCurrent(pre.CacheID, pre.CacheRo) {
				v.add("cached-snapshot-of-foreign-history-replayed"+ctx, "the tool replayed cached snapshot %s (cache id %s, offset %d) which is not on the current history",
					sr.tag, short(pre.CacheID), pre.CacheRo)
				return false
			}
			if off != pre.CacheRo {
				v.add("cached-snapshot-offset-mismatch"+ctx, "cached snapshot at %d replayed, stored offset %d", pre.CacheRo, off)
				return false
			}
		}
		next = h.firstAfter(off)
		return true
	}

	for i := range s.Apps {
		a := &s.Apps[i]
		if cw, ok := checkpointWrite(a); ok {
			stored, haveStored = cw, true
			if cw.Multi && cw.Off >= 0 { // (offset -1 is the "no position" marker, never a snapshot's offset)
				c := cw
				lastMulti = &c
			}
			continue
		}
		if !isBusiness(a) {
			continue
		}
		id := gen.FindID(a.Args)
		if tag := snapTag(id); tag != "" {
			if first == "" {
				first = "snapshot:" + tag
			}
			if cur != nil && cur.tag == tag && lastMulti != nil {
				// the previous replay of this snapshot was completed (its position was stored) and
				// nothing of the stream followed: another full resynchronisation begins
				if !closeSnap(true) {
					return finish(v, p, pre, s, first)
				}
			}
			if cur == nil || cur.tag != tag {
				if cur != nil {
					v.add("snapshot-mixed"+ctx, "snapshot keys of %s and %s interleaved", cur.tag, tag)
					return finish(v, p, pre, s, first)
				}
				cur = &snapRun{tag: tag, seen: map[string]int{}, at: i}
				lastMulti = nil
			}
			cur.seen[id]++
			continue
		}
		// a stream command
		if first == "" {
			first = "stream"
		}
		if cur == nil && next < 0 {
			// first delivery of the reconnect is a stream command: continuation (a)
			if pre.PosAbsent {
				v.add("continued-without-position"+ctx, "no resume position was stored, yet the target received %s without a snapshot", a.String())
				return finish(v, p, pre, s, first)
			}
			if !p.onCurrent(pre.PosID, pre.Pos) {
				sig := "continued-from-position-off-current-history"
				for _, e := range s.Psync {
					if !e.Continue && e.Stamp < s.Stamps[i] {
						// a full resynchronisation had been granted in this very reconnect and was given up
						sig += "|after-abandoned-fullresync"
						break
					}
				}
				v.add(sig+ctx,
					"stored position (%s,%d) is not on the current history (id %s, previous id %s valid up to %d) yet the stream was continued: first applied %s",
					short(pre.PosID), pre.Pos, short(h.ReplID), short(p.SrcID2), p.S, a.String())
				return finish(v, p, pre, s, first)
			}
		}
		if cur != nil {
			if !closeSnap(false) {
				return finish(v, p, pre, s, first)
			}
			phase = "after-snapshot"
		} else if next < 0 {
			next = h.firstAfter(pre.Pos)
		}
		expect := func() string {
			if next >= 0 && next < len(h.proj) {
				return fmt.Sprintf("%s (end %d)", h.write(next).ID, h.write(next).End)
			}
			return "(nothing: end of history)"
		}
		if !h.contains(id) {
			switch {
			case p.H1.contains(id):
				v.add("foreign-history-command|from=previous-history-beyond-switch|at="+phase+ctx, "target applied %s, a command of the previous history beyond the switch offset; expected %s", a.String(), expect())
			case pre.CacheHist != nil && pre.CacheHist.contains(id):
				v.add("foreign-history-command|from=foreign-cache|at="+phase+ctx, "target applied %s, which only the foreign cache holds; expected %s", a.String(), expect())
			default:
				v.add(clause[phase]+"|unparsable"+ctx, "expected %s, target applied %s which is no command of any history (the stream was entered off a command boundary)", expect(), a.String())
			}
			return finish(v, p, pre, s, first)
		}
		k := h.idx[id]
		switch {
		case k == next:
		case k > next:
			v.add(clause[phase]+"|gap"+ctx, "expected %s, target applied %s (end %d): %d writes skipped", expect(), id, h.write(k).End, k-next)
			return finish(v, p, pre, s, first)
		default:
			// re-delivery: legitimate only from the position stored on the target
			base := pre.Pos
			if haveStored {
				base = stored.Off
			}
			if k == h.firstAfter(base) {
				v.Reapplied++
			} else {
				v.add(clause[phase]+"|rewound"+ctx, "expected %s, target applied %s (end %d) which lies before it and is not the successor of the stored position %d",
					expect(), id, h.write(k).End, base)
				return finish(v, p, pre, s, first)
			}
		}
		phase = "stream"
		next = k + 1
		v.Compared++
	}
	if cur != nil && lastMulti != nil {
		closeSnap(true)
	}
	return finish(v, p, pre, s, first)
}

func shortCache(p *plan, pre preState) string {
	if pre.CacheID == "" {
		return "empty"
	}
	switch {
	case pre.CacheID == p.H2.ReplID:
		return "current-id"
	case pre.CacheID == p.SrcID2 && p.S >= 0:
		return "previous-id"
	}
	return "other-id"
}

func psyncStrings(evs []fakeredis.PsyncEvent) []string {
	var out []string
	for _, e := range evs {
		out = append(out, e.String())
	}
	return out
}

// finish adds the clauses about the PSYNC dialogue and names the outcome class.
func finish(v *verdict, p *plan, pre preState, s *sessLog, first string) *verdict {
	ctx := fmt.Sprintf("|pos=%s|cache=%s|src=%s", p.posClass(pre.PosID, pre.Pos, pre.PosAbsent), shortCache(p, pre), p.C.Src)
	// (1) offset convention: every PSYNC that was granted asked for the successor of what the tool
	// held at that instant — the right end of its cache or the position stored on the target
	for i, e := range s.Psync {
		if !e.Continue {
			continue
		}
		o, ok := s.Obs[e.Stamp]
		if !ok {
			continue
		}
		if i == 0 && !pre.PosAbsent {
			o.PosAbsent, o.Pos = false, pre.Pos // (the start-up bookkeeping re-keys, it never moves the offset)
		}
		if (o.CacheRight >= 0 && e.Offset == o.CacheRight+1) || (!o.PosAbsent && e.Offset == o.Pos+1) {
			continue
		}
		asked := "other"
		switch {
		case !o.PosAbsent && e.Offset == o.Pos:
			asked = "P"
		case o.CacheRight >= 0 && e.Offset == o.CacheRight:
			asked = "cacheRight"
		}
		v.add("psync-offset-convention|asked="+asked+ctx, "PSYNC %s %d was granted; at that instant the tool's cache ended at %d (id %s) and the target's stored position was %d (absent=%v): the successor of neither",
			short(e.ReplID), e.Offset, o.CacheRight, short(o.CacheID), o.Pos, o.PosAbsent)
		break
	}
	// (1a) the same convention for the requests the source refused with a transient error: whatever
	// the answer, a PSYNC asks for the successor of what the tool holds (or "? -1" / "<id> -1")
	for _, e := range s.Refused {
		o, ok := s.Obs[e.Stamp]
		if !ok || e.Offset < 0 {
			continue
		}
		if !pre.PosAbsent && len(s.Psync) == 0 || (!pre.PosAbsent && e.Stamp < s.Psync[0].Stamp) {
			o.PosAbsent, o.Pos = false, pre.Pos
		}
		if (o.CacheRight >= 0 && e.Offset == o.CacheRight+1) || (!o.PosAbsent && e.Offset == o.Pos+1) {
			continue
		}
		v.add("psync-offset-convention|asked=other|refused-request"+ctx, "PSYNC %s %d (answered -%s): at that instant the tool's cache ended at %d (id %s) and the target's stored position was %d (absent=%v): the successor of neither",
			short(e.ReplID), e.Offset, strings.SplitN(e.Reply, " ", 2)[0], o.CacheRight, short(o.CacheID), o.Pos, o.PosAbsent)
		break
	}
	// (1b) a granted continuation keeps the position it was requested from: from the +CONTINUE
	// until the first command of the reconnect reaches the target, what a fresh instance would read
	// as the stored position (fields of the source's ids, every database, largest offset) is never
	// absent / -1 / smaller than the position stored when the PSYNC was sent
	for i, e := range s.Psync {
		if !e.Continue {
			continue
		}
		o, ok := s.Obs[e.Stamp]
		if !ok || o.PosAbsent {
			continue
		}
		if i == 0 && !pre.PosAbsent {
			o.Pos = pre.Pos
		}
		hi := int64(1) << 62
		if i+1 < len(s.Psync) {
			hi = s.Psync[i+1].Stamp
		}
		bad := false
		for j := range s.Apps {
			if s.Stamps[j] <= e.Stamp {
				continue
			}
			if s.Stamps[j] >= hi || isBusiness(&s.Apps[j]) {
				break
			}
			es, ok := s.CpTrace[j]
			if !ok {
				continue
			}
			best, have := int64(-1), false
			for _, c := range es {
				if (strings.EqualFold(c.ID, e.MasterReplID) || strings.EqualFold(c.ID, e.MasterReplID2) || c.ID == pre.PosID) && c.Off >= 0 && c.Off > best {
					best, have = c.Off, true
				}
			}
			if !have || best < o.Pos {
				now := "absent/-1"
				if have {
					now = fmt.Sprint(best)
				}
				v.add("position-regressed-after-granted-continuation"+ctx, "the source granted PSYNC %s %d while the target stored position %d; before any command of the reconnect was applied the stored position became %s (%s)",
					short(e.ReplID), e.Offset, o.Pos, now, s.Apps[j].String())
				bad = true
				break
			}
		}
		if bad {
			break
		}
	}
	// (2) a FULLRESYNC answer is followed by the snapshot, never by stream commands
	for i, e := range s.Psync {
		if e.Continue {
			continue
		}
		hi := int64(1) << 62
		if i+1 < len(s.Psync) {
			hi = s.Psync[i+1].Stamp
		}
		for j := range s.Apps {
			if s.Stamps[j] <= e.Stamp || s.Stamps[j] >= hi || !isBusiness(&s.Apps[j]) {
				continue
			}
			id := gen.FindID(s.Apps[j].Args)
			if snapTag(id) != p.S2.Tag {
				v.add("fullresync-answer-followed-by-stream"+ctx, "the source answered %s; the next command the target received was %s, not the snapshot", e.String(), s.Apps[j].String())
			}
			break
		}
	}
	// outcome class
	switch {
	case first == "" && s.Ended == "idle-acked":
		v.Outcome = "continued-idle"
	case first == "":
		v.Outcome = "no-delivery(" + s.Ended + ")"
	case first == "snapshot:"+p.S2.Tag:
		v.Outcome = "fullresync"
	case strings.HasPrefix(first, "snapshot:"):
		v.Outcome = "cached-snapshot+log"
	default:
		v.Outcome = "continued-by-psync"
		if pre.CacheID != "" && !pre.PosAbsent && pre.Pos < pre.CacheR && pre.Pos >= pre.CacheL {
			v.Outcome = "continued-from-cache"
		}
	}
	return v
}
