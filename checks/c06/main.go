// C06 — each source (re)connection continues the stream gap-free or takes a snapshot.
//
// The REAL pipeline (start-up bookkeeping of syncer.runLeader, RedisInput.Run → cache channel →
// RedisOutput) runs between a replication-source double that applies Redis' own PSYNC admission
// rule and a target double.  A scenario is a first session (snapshot + live commands), a stop,
// a mutation of (source identity/history/backlog, stored resume position, cache contents), and a
// second (re)connection.  Histories carry ids, so every command the target applies after the
// reconnect says which history and which offset it came from; the oracle accepts exactly
// (a) the current history's commands beyond the stored position P — admissible only when (id_P,P)
// lies on the current history — or (b) a complete snapshot followed by the stream from the
// snapshot's offset.
package main

import (
	"bytes"
	"fmt"
	"math/rand"
	"os"
	"path/filepath"
	"sort"
	"strings"
	"sync"
	"time"

	"verif/internal/drive"
	"verif/internal/fakeredis"
	"verif/internal/harness"

	"github.com/mgtv-tech/redis-GunYu/config"
)

func initGlobalConfig(tmp string) error {
	// one process-wide configuration, constant for every case (input.go reads the rdb limiter,
	// the listen port and channel.verifyCrc from it; the start-up bookkeeping reads output.replay)
	y := fmt.Sprintf(`
input:
  redis:
    addresses: ["127.0.0.1:1"]
  rdbParallel: 64
output:
  redis:
    addresses: ["127.0.0.1:1"]
  replay:
    replayRdbParallel: 2
    batchCmdCount: 50
    batchTicker: 5ms
    keepaliveTicker: 2s
    updateCheckpointTicker: 200ms
    stats:
      disableLog: true
channel:
  storer:
    dirPath: %s
server:
  listen: "127.0.0.1:18001"
`, filepath.Join(tmp, "unused-storer"))
	path := filepath.Join(tmp, "gunyu.yaml")
	if err := os.WriteFile(path, []byte(y), 0o644); err != nil {
		return err
	}
	if err := config.InitSyncerConfig(path); err != nil {
		return err
	}
	drive.InitQuietLog() // InitSyncerConfig replaces the log section
	return nil
}

func main() {
	drive.Quiet()
	run := harness.New("C06", "exploration",
		"case = one point of {source mutation} x {stored position: id class x relation to the cached range} x {cache contents} x {disk,memory} x {restart, in-loop reconnect}, "+
			"sizes/offsets by PRNG(seed,label); non-trivial = the second (re)connection produced a PSYNC dialogue and a decided outcome; "+
			"distinct = (source mutation, position class, cache class, backend, outcome)")
	run.Watchdog(40 * time.Minute)
	tmp, err := os.MkdirTemp("", "c06-builder-")
	if err != nil {
		run.Inconclusive("tmp dir: %v", err)
		run.Exit()
	}
	defer os.RemoveAll(tmp)
	if err := initGlobalConfig(tmp); err != nil {
		run.Inconclusive("global config: %v", err)
		os.RemoveAll(tmp)
		run.Exit()
	}
	run.Assume("source double answers PSYNC exactly as masterTryPartialResynchronization (replid / replid2+second_replid_offset / backlog window) and streams the bytes it was given")
	run.Assume("target double logs business writes without executing them (LogOnly); bookkeeping keys are executed; the order of its effect log is the order of execution")
	run.Assume("a resume position is compared by the ids of the commands applied after it (ids are unique per history position)")
	run.Assume("constructed states (checkpoint written with HSET, cache filled through the channel's writer API) are marked; natural states come from a real first session")

	all := enumerate()
	type job struct {
		c    combo
		seed int
	}
	var jobs []job
	if run.Quick() {
		for _, c := range pickQuick(run.Rand("select"), all, 154) {
			jobs = append(jobs, job{c, 0})
			if staleShape(c) {
				// the outcome of this shape depends on the order in which the tool visits the target's
				// databases (a Go map): several draws
				for sd := 1; sd < 4; sd++ {
					jobs = append(jobs, job{c, sd})
				}
			}
		}
	} else {
		for sd := 0; sd < 3; sd++ {
			for _, c := range all {
				jobs = append(jobs, job{c, sd})
			}
		}
	}
	run.Set("combinations_enumerated", len(all))
	run.Set("combinations_scheduled", len(jobs))

	// the heavy "big snapshot, busy source" family, from its own PRNG stream
	nBig := run.N(3, 8)
	type bigJob struct {
		key, backend string
	}
	var bigs []bigJob
	for i := 0; i < nBig; i++ {
		for _, be := range []string{"disk", "mem"} {
			bigs = append(bigs, bigJob{fmt.Sprintf("big-snapshot|%s#%d", be, i), be})
		}
	}
	run.Set("big_snapshot_cases_scheduled", len(bigs))
	bigDone := make(chan struct{})
	go func() {
		defer close(bigDone)
		harness.Parallel(len(bigs), 4, func(i int) {
			if run.WantCase(bigs[i].key) {
				bigSnapshotCase(run, bigs[i].key, bigs[i].backend, tmp, i)
			}
		})
	}()

	harness.Parallel(len(jobs), 16, func(i int) {
		j := jobs[i]
		key := fmt.Sprintf("%s#%d", j.c.Label(), j.seed)
		if !run.WantCase(key) {
			return
		}
		oneCase(run, key, j.c, tmp, i)
	})
	<-bigDone
	os.RemoveAll(tmp)
	comboMu.Lock()
	sort.Strings(comboLog)
	if run.Quick() {
		run.Set("combinations_run", comboLog)
	} else {
		run.Set("combinations_run_count", len(comboLog))
		byOutcome := map[string]int{}
		for _, l := range comboLog {
			byOutcome[l[strings.Index(l, " → ")+len(" → "):]]++
		}
		run.Set("combinations_by_outcome", byOutcome)
	}
	comboMu.Unlock()
	run.Exit()
}

var (
	comboMu  sync.Mutex
	comboLog []string
)

func recordCombo(s string) {
	comboMu.Lock()
	comboLog = append(comboLog, s)
	comboMu.Unlock()
}

// pickQuick: a seeded selection that covers every value of every dimension and always holds the
// combinations the F13 suspicion is about.
func pickQuick(r *rand.Rand, all []combo, n int) []combo {
	chosen := map[string]combo{}
	add := func(c combo) { chosen[c.Label()] = c }
	for _, c := range all {
		if c.Src == "failover-early" && c.Pid == "id1" && (c.Cache == "cur-id" || c.Cache == "empty") && (c.Prel == "inside" || c.Prel == "na" || c.Prel == "beyond-right") {
			add(c) // the shape of suspicion F13
		}
		if c.Restart == "inloop" && (c.Backend == "disk" || c.Src == "failover-early" || c.Src == "same") {
			add(c)
		}
		if staleShape(c) {
			add(c)
		}
		if (c.Restart == "cut" || c.Restart == "cutmid") && c.Src == "same" {
			add(c) // every base
		}
		if c.LoopCut && c.Src == "same" {
			add(c)
		}
		if c.Base == "0" && c.Src == "same" && c.Backend == "disk" {
			add(c)
		}
		if c.Pid == "nofields" && c.Cache == "natural" && (c.Src == "same" || c.Src == "failover-late") {
			add(c) // no position, complete cached snapshot, the source still grants the cache's end
		}
		if c.Drop && c.Src == "failover-early" && c.TFault == "" {
			add(c)
		}
		if c.TFault == "reset" && c.Src == "failover-early" {
			add(c) // 4: both backends, restart and in-loop
		}
		if c.Refuse && (c.Src == "same" || (c.Src == "failover-late" && c.Backend == "disk")) {
			add(c)
		}
		if c.TFault == "startup" && c.Src == "failover-early" {
			add(c)
		}
		if c.Idle && (c.Src == "same" || (c.Src == "failover-late" && c.Backend == "disk")) {
			add(c)
		}
		if c.TFault == "setrunid" && (c.Src == "failover-early" || (c.Src == "failover-late" && !c.Drop && c.Backend == "disk")) {
			add(c)
		}
	}
	perm := r.Perm(len(all))
	covered := map[string]bool{}
	for _, c := range chosen {
		for _, d := range dims(c) {
			covered[d] = true
		}
	}
	// pair coverage over (src,cache), (src,pid), (cache,prel), (pid,prel), backend
	for _, i := range perm {
		c := all[i]
		newd := false
		for _, d := range dims(c) {
			if !covered[d] {
				newd = true
			}
		}
		if newd && len(chosen) < n {
			add(c)
			for _, d := range dims(c) {
				covered[d] = true
			}
		}
	}
	for _, i := range perm {
		if len(chosen) >= n {
			break
		}
		add(all[i])
	}
	out := make([]combo, 0, len(chosen))
	for _, c := range chosen {
		out = append(out, c)
	}
	sort.Slice(out, func(i, j int) bool { return out[i].Label() < out[j].Label() })
	return out
}

// staleShape: a failover to a node that may be behind the stored position, decided by a cache
// under the first id (full resynchronisation at an offset below the old position).
func staleShape(c combo) bool {
	return c.Src == "failover-early" && c.Cache == "natural" && c.Pid == "id1" && c.Prel == "at-right" && c.TFault == "" && !c.Refuse
}

func dims(c combo) []string {
	return []string{"s:" + c.Src + "/c:" + c.Cache, "s:" + c.Src + "/p:" + c.Pid, "c:" + c.Cache + "/r:" + c.Prel, "p:" + c.Pid + "/r:" + c.Prel,
		"b:" + c.Backend + "/c:" + c.Cache, "b:" + c.Backend + "/s:" + c.Src}
}

func oneCase(run *harness.Run, key string, c combo, tmp string, n int) {
	r := run.Rand(key)
	p, err := buildPlan(r, c)
	if err != nil {
		if _, ok := err.(infeasible); ok {
			run.Count("combinations_infeasible_for_drawn_sizes", 1)
			return
		}
		run.Inconclusive("%s: plan: %v", key, err)
		return
	}
	cr := &caseRun{key: fmt.Sprintf("c%d", n), r: r, p: p, tmp: filepath.Join(tmp, fmt.Sprintf("case-%d", n))}
	defer os.RemoveAll(cr.tmp)
	cr.tgt = newTarget()
	defer cr.tgt.Close()
	cr.hookTarget()

	// ---------------- first session: a natural full synchronisation
	src1 := fakeredis.MustStart(fakeredis.Options{})
	defer src1.Close()
	src1.EnableSource(fakeredis.SourceConfig{ReplID: p.ID1, MasterReplOffset: p.B1, RDB: p.S1.RDB, Stamp: cr.psyncStamp, OnPsync: cr.onPsync,
		HeartbeatsBeforeReply: r.Intn(2), HeartbeatsBeforeRDB: r.Intn(2)})
	cache, err := cr.newCache(c.Backend, "cache1")
	if err != nil {
		run.Inconclusive("%s: cache: %v", key, err)
		return
	}
	defer func() { cache.ch.Close() }()
	cr.setCache(cache)
	cutKind := c.Restart == "cut" || c.Restart == "cutmid"
	switch {
	case c.Restart == "cut":
		cr.cutSnapshotReplay("setcp", 0)
	case c.Restart == "cutmid":
		cr.cutSnapshotReplay("restore", r.Intn(len(p.S1.Keys)))
	case c.LoopCut:
		cr.cutSnapshotReplay("loop", 0)
	}
	n0 := len(cr.tgt.Applied())
	t1, err := cr.startTool(src1.Addr(), cache.ch)
	if err != nil {
		run.Inconclusive("%s: start of session 1: %v", key, err)
		return
	}
	// session 1 feeds the first part of H1 only (the rest is what the old master wrote later)
	h1live := p.H1.prefix(p.ID1, p.L1End)
	s1 := cr.phase(t1, src1, h1live, p.B1, p.End1, "a", 0, n0, 0, 0)
	judgeFirst(run, key, p, h1live, s1, cache)
	if c.LoopCut {
		cr.tgt.SetHooks(nil, nil, nil)
	}
	if cutKind {
		if s1.Ended == "tool-exited" {
			// the failing RESTORE ends the tool's run by itself; the cut has happened all the same
			select {
			case <-cr.abort:
				s1.Ended = "cut"
			default:
			}
		}
		if s1.Ended != "cut" {
			t1.stop()
			run.Inconclusive("%s: the first session was not cut before its position was stored: %s", key, s1.Ended)
			return
		}
	} else if s1.Ended != "sentinel" {
		t1.stop()
		run.Inconclusive("%s: session 1 did not complete: %s %s psync=%v", key, s1.Ended, s1.RunErr, psyncStrings(s1.Psync))
		return
	}
	if len(s1.Sentinels) != 1 {
		// an extra sentinel was appended: H1's offsets no longer match the plan
		t1.stop()
		run.Inconclusive("%s: session 1 needed a second sentinel (full resync after live data)", key)
		return
	}

	// the live part of the second session (none when the source stays idle)
	end2 := ""
	if !c.Idle {
		p.H2.appendPiece(genPiece(r, "l", 8+r.Intn(12), p.PTxn))
		stEnd, id2 := sentinelPiece("eb", p.H2.Cmds[len(p.H2.Cmds)-1].DB)
		p.H2.appendPiece(stEnd)
		end2 = id2
	}

	var s2 *sessLog
	var pre preState
	var t2 *tool
	src2 := src1
	if c.Restart == "inloop" {
		// the tool stays up; the source at the same address changes identity / loses the link
		nat := readPosition(cr.tgt)
		cid, cl, crr, cro := cache.state([]string{p.ID1})
		pre = preState{PosAbsent: nat.Absent, PosID: nat.ID, Pos: nat.Off, CacheID: cid, CacheL: cl, CacheR: crr, CacheHist: p.H1}
		if cro >= 0 {
			pre.CacheSnap, pre.CacheRo = p.S1, cro
		}
		if nat.Absent || nat.Off != p.L1End || crr != p.L1End {
			t1.stop()
			run.Inconclusive("%s: natural state after session 1 unexpected: pos %+v cache %s [%d,%d] want %d", key, nat, short(cid), cl, crr, p.L1End)
			return
		}
		reqFrom, psFrom := len(src1.Requests()), len(src1.Source().PsyncLog())
		n0 = len(cr.tgt.Applied())
		cr.armTargetFault()
		src1.Source().Reconfigure(p.sourceConfig(cr.psyncStamp, cr.onPsync))
		if p.DropAfter > 0 {
			src1.Source().DropReplicaAfter(p.DropAfter)
		}
		if p.RefuseN > 0 {
			src1.Source().RefusePsyncs(p.RefuseN, p.RefuseLine)
		}
		s2 = cr.phase(t1, src1, p.H2, p.LiveFrom, end2, "b", r.Intn(3), n0, reqFrom, psFrom)
		t2 = t1
	} else {
		if e, ok := t1.stop(); !ok {
			run.Inconclusive("%s: session 1 did not stop", key)
			return
		} else {
			_ = e
		}
		nat := readPosition(cr.tgt)
		cid, cl, crr, cro := cache.state([]string{p.ID1})
		if cutKind && cid == "" && c.Backend == "disk" {
			// what a restarted instance finds is what the directory holds: ask a fresh channel object
			cache.reopen(cr.key)
			cid, cl, crr, cro = cache.state([]string{p.ID1})
		}
		if cutKind {
			// natural state: snapshot replayed, DelCheckpoint done, SetCheckpoint never executed / replay interrupted inside
			cr.tgt.SetHooks(nil, nil, nil)
			cr.abort = nil
			if cid == "" && nat.Absent {
				// the cache kept nothing (its snapshot was dropped when the scope closed and no log byte
				// had arrived): the reconnect is judged with an empty cache
				run.Count("natural_caches_that_lost_their_snapshot", 1)
				run.Seen("empty_cache_after_cut", fmt.Sprintf("%s: files %v", c.Label(), listDir(cache.dir)))
			} else if !nat.Absent || cid != p.ID1 || cl != p.B1 || crr < p.B1 || crr > p.L1End || (cro != p.B1 && cro != -1) {
				run.Inconclusive("%s: state after the cut first session unexpected: pos %+v cache %s [%d,%d] rdb@%d", key, nat, short(cid), cl, crr, cro)
				return
			}
		} else if nat.Absent || nat.Off != p.L1End || nat.ID != p.ID1 || cid != p.ID1 || crr != p.L1End || cl != p.B1 || (cro != p.B1 && cro != -1) {
			run.Inconclusive("%s: natural state after session 1 unexpected: pos %+v cache %s [%d,%d] rdb@%d want [%d,%d] files %v psync %v", key, nat, short(cid), cl, crr, cro, p.B1, p.L1End,
				listDir(cache.dir), psyncStrings(s1.Psync))
			return
		}
		if cro == -1 {
			// the disk cache dropped its (complete) snapshot when the session's scope closed: the
			// natural cache is then log-only; recorded, judged as it is
			run.Count("natural_caches_that_lost_their_snapshot", 1)
		}
		// ---------------- mutate: target position
		switch {
		case p.CP.Absent && p.CP.Natural:
			pre.PosAbsent = true
		case p.CP.Absent && p.CP.KeepHash:
			clearPositionFields(cr.tgt)
			pre.PosAbsent = true
		case p.CP.Absent:
			clearPosition(cr.tgt)
			pre.PosAbsent = true
		case p.CP.Natural:
			pre.PosID, pre.Pos = nat.ID, nat.Off
		default:
			writePosition(cr.tgt, p.CP.ID, p.CP.Off, p.CP.DB)
			pre.PosID, pre.Pos = p.CP.ID, p.CP.Off
		}
		// ---------------- mutate: cache
		switch {
		case p.Cache.Natural && cid == "":
			if p.FreshDisk {
				cache.reopen(cr.key)
			}
		case p.Cache.Natural:
			pre.CacheID, pre.CacheL, pre.CacheR, pre.CacheHist = cid, cl, crr, p.H1
			if cro >= 0 {
				pre.CacheSnap, pre.CacheRo = p.S1, cro
			}
			if p.FreshDisk {
				cache.reopen(cr.key)
			}
		default:
			cache.ch.Close()
			cache, err = cr.newCache(c.Backend, "cache2")
			if err != nil {
				run.Inconclusive("%s: cache: %v", key, err)
				return
			}
			cr.setCache(cache)
			if p.Cache.Kind != "empty" {
				if err := cache.preload(p.Cache); err != nil {
					run.Inconclusive("%s: cache preload: %v", key, err)
					return
				}
				pre.CacheID, pre.CacheL, pre.CacheR, pre.CacheHist = p.Cache.ID, p.Cache.L, p.Cache.R, p.Cache.Hist
				if p.Cache.Snap != nil {
					pre.CacheSnap, pre.CacheRo = p.Cache.Snap, p.Cache.Ro
				}
				if p.FreshDisk {
					cache.reopen(cr.key)
				}
				gid, gl, gr, gro := cache.state([]string{p.Cache.ID})
				wantRo := int64(-1)
				if p.Cache.Snap != nil {
					wantRo = p.Cache.Ro
				}
				if gid != p.Cache.ID || gl != p.Cache.L || gr != p.Cache.R || gro != wantRo {
					run.Inconclusive("%s: constructed cache reads back as %s [%d,%d] rdb@%d, wanted %s [%d,%d] rdb@%d", key, short(gid), gl, gr, gro,
						short(p.Cache.ID), p.Cache.L, p.Cache.R, wantRo)
					return
				}
			}
		}
		// ---------------- mutate: source (a new node at a new address)
		src2 = fakeredis.MustStart(fakeredis.Options{})
		defer src2.Close()
		cr.armTargetFault()
		src2.EnableSource(p.sourceConfig(cr.psyncStamp, cr.onPsync))
		if p.DropAfter > 0 {
			src2.Source().DropReplicaAfter(p.DropAfter)
		}
		if p.RefuseN > 0 {
			src2.Source().RefusePsyncs(p.RefuseN, p.RefuseLine)
		}
		n0 = len(cr.tgt.Applied()) // the start-up bookkeeping belongs to the judged log
		t2, err = cr.startTool(src2.Addr(), cache.ch)
		if err != nil {
			run.Inconclusive("%s: start of session 2: %v", key, err)
			return
		}
		s2 = cr.phase(t2, src2, p.H2, p.LiveFrom, end2, "b", r.Intn(3), n0, 0, 0)
	}
	stopErr, stopped := t2.stop()
	_ = stopErr
	if c.TFault != "" {
		cr.tgt.SetHooks(nil, nil, nil)
		run.Count("target_fault_error_replies", cr.faultErrors.Load())
		run.Seen("target_fault_dialogues", fmt.Sprintf("%s#%d: errors=%d end=%s psync=%v", c.Label(), n, cr.faultErrors.Load(), s2.Ended, psyncBrief(s2.Psync)))
		if cr.faultErrors.Load() == 0 {
			run.Count("target_fault_scenarios_where_the_fault_never_fired", 1)
		}
	}

	if cutKind && pre.CacheID == "" && len(s2.Psync) > 0 {
		// a stopped full sync may finish closing its snapshot file after Stop() has returned: what the
		// tool really held is what it held when its first PSYNC of the reconnect reached the source
		if o, ok := s2.Obs[s2.Psync[0].Stamp]; ok && o.CacheID != "" {
			pre.CacheID, pre.CacheL, pre.CacheR, pre.CacheHist = o.CacheID, o.CacheLeft, o.CacheRight, p.H1
			if o.CacheRo >= 0 {
				pre.CacheSnap, pre.CacheRo = p.S1, o.CacheRo
			}
			run.Count("cache_state_taken_from_the_psync_time_observation", 1)
		}
	}
	// ---------------- judge the reconnect
	v := judge(p, pre, s2)
	// the cache after the session: what it serves under the current id must be the current history
	if stopped {
		checkCacheAfter(p, pre, cache, v)
	}
	// a reconnect that ended in a continuation: a fresh instance must still find a position, and not an older one
	if stopped && !pre.PosAbsent && strings.HasPrefix(v.Outcome, "continued") && len(v.Findings) == 0 {
		fin := readPosition(cr.tgt)
		if fin.Absent || fin.Off < pre.Pos {
			v.add("position-regressed-after-granted-continuation|at-end"+fmt.Sprintf("|pos=%s|cache=%s|src=%s", p.posClass(pre.PosID, pre.Pos, pre.PosAbsent), shortCache(p, pre), p.C.Src),
				"after the reconnect was continued from (%s,%d) and the tool was stopped, the target stores %+v", short(pre.PosID), pre.Pos, fin)
		}
	}
	run.Eval(1)
	posC, cacheC := p.posClass(pre.PosID, pre.Pos, pre.PosAbsent), p.cacheClass(pre)
	nCont, nFull := 0, 0
	for _, e := range s2.Psync {
		if e.Continue {
			nCont++
		} else {
			nFull++
		}
	}
	run.Count("psync_requests_seen", int64(len(s2.Psync)+len(s1.Psync)))
	run.Count("psync_answers_refused", int64(len(s2.Refused)))
	run.Count("psync_answers_continue", int64(nCont))
	run.Count("psync_answers_fullresync", int64(nFull))
	run.Count("stream_writes_compared", int64(v.Compared))
	run.Count("snapshot_keys_compared", int64(v.SnapKeys))
	run.Count("target_commands_logged", int64(len(s2.Apps)))
	run.Count("outcome:"+strings.SplitN(v.Outcome, "(", 2)[0], 1)
	if len(p.Constructed) > 0 {
		run.Count("combinations_with_constructed_state", 1)
	} else {
		run.Count("combinations_natural", 1)
	}
	recordCombo(c.Label() + " → " + v.Outcome + constructedMark(p))
	run.Seen("source_mutation", c.Src)
	run.Seen("position_class", posC)
	run.Seen("cache_class", cacheC)

	witness := func() map[string]any {
		w := map[string]any{
			"combination": c.Label(), "constructed": p.Constructed, "source_cuts_first_replica_connection_after_bytes": p.DropAfter,
			"target_fault": fmt.Sprintf("%s k=%d n=%d error_replies=%d", c.TFault, p.TFaultK, p.TFaultN, cr.faultErrors.Load()), "fresh_disk_object": p.FreshDisk, "new_history_has_boundary_at_P": p.Aligned, "new_master_behind_stored_position": p.Behind,
			"first_id": p.ID1, "first_history": fmt.Sprintf("[%d,%d) live part ends %d", p.B1, p.H1.End(), p.L1End),
			"source2": fmt.Sprintf("replid=%s replid2=%s switch_offset=%d (second_replid_offset=%d) history=[%d,%d) live from %d backlog_off(redis)=%d",
				p.H2.ReplID, p.SrcID2, p.S, p.S+1, p.H2.Base, p.H2.End(), p.LiveFrom, p.BacklogOff),
			"stored_position_before": fmt.Sprintf("absent=%v id=%s offset=%d class=%s", pre.PosAbsent, pre.PosID, pre.Pos, posC),
			"cache_before":           fmt.Sprintf("id=%s log=[%d,%d] snapshot@%d class=%s", pre.CacheID, pre.CacheL, pre.CacheR, pre.CacheRo, cacheC),
			"psync_dialogue":         psyncStrings(s2.Psync), "psync_refused": psyncStrings(s2.Refused), "session_end": s2.Ended, "run_error": s2.RunErr, "outcome": v.Outcome,
			"target_log_head": headApps(s2.Apps, 14),
		}
		if !pre.PosAbsent {
			k := p.H2.firstAfter(pre.Pos)
			var exp []string
			for i := k; i < k+4 && i < len(p.H2.proj); i++ {
				exp = append(exp, fmt.Sprintf("%s end=%d", p.H2.write(i).ID, p.H2.write(i).End))
			}
			w["current_history_after_P"] = exp
		}
		return w
	}
	for _, f := range v.Findings {
		run.Violation(f.Sig, key, f.What, witness())
	}
	switch s2.Ended {
	case "sentinel", "idle-acked":
	case "refused", "tool-exited":
		// a fail-safe refusal delivers nothing: not a violation of this property; recorded
		run.Count("reconnects_refused_by_the_tool", 1)
		note := ""
		if !pre.PosAbsent && !p.onCurrent(pre.PosID, pre.Pos) {
			for _, e := range s2.Psync {
				if e.Continue {
					// the source granted a continuation of a position that is not on its history and the
					// tool's parser then gave up on the bytes: nothing reached the target
					note = " (after a granted PSYNC for a position off the current history)"
					run.Count("refusals_after_continuing_a_position_off_the_current_history", 1)
					break
				}
			}
		}
		run.Seen("refusals", c.Label()+": "+s2.Ended+" "+firstLine(s2.RunErr)+note)
	default:
		allFull := s2.Ended == "churn"
		for _, e := range s2.Psync {
			if e.Continue {
				allFull = false
			}
		}
		switch {
		case len(v.Findings) > 0:
		case allFull:
			// the tool takes one full resynchronisation after the other (decided by count: churnPsyncs
			// answers, every one +FULLRESYNC, nothing inadmissible delivered): fail-safe with respect to
			// this property, recorded
			run.Count("reconnects_stuck_in_repeated_full_resyncs", 1)
			run.Seen("repeated_full_resyncs", c.Label()+": "+s2.Psync[len(s2.Psync)-1].String())
		default:
			run.Inconclusive("%s: second session did not complete: %s (psync %v, outcome %s)", key, s2.Ended, psyncStrings(s2.Psync), v.Outcome)
		}
	}
	if !stopped {
		run.Inconclusive("%s: the tool did not stop", key)
	}
	if len(s2.Psync) > 0 || s2.Ended == "refused" {
		run.Distinct(fmt.Sprintf("%s|%s|%s|%s|%s|drop=%v|tfault=%s|idle=%v|base=%s|loopcut=%v|refuse=%v|%s", c.Src, posC, cacheC, c.Backend, c.Restart, c.Drop, c.TFault, c.Idle, c.Base, c.LoopCut, c.Refuse, v.Outcome))
	}
	if len(v.Findings) == 0 && (s2.Ended == "sentinel" || s2.Ended == "idle-acked") {
		run.Sample(map[string]any{"case": key, "constructed": p.Constructed, "position": posC, "cache": cacheC, "psync": psyncStrings(s2.Psync),
			"outcome": v.Outcome, "writes_compared": v.Compared, "snapshot_keys": v.SnapKeys})
	}
}

func constructedMark(p *plan) string {
	if len(p.Constructed) == 0 {
		return " [natural]"
	}
	return " [constructed: " + strings.Join(p.Constructed, ",") + "]"
}

func firstLine(s string) string {
	if i := strings.IndexByte(s, '\n'); i >= 0 {
		s = s[:i]
	}
	if len(s) > 160 {
		s = s[:160]
	}
	return s
}

func headApps(apps []fakeredis.App, n int) []string {
	var out []string
	for i := range apps {
		a := &apps[i]
		if !isBusiness(a) {
			if _, ok := checkpointWrite(a); !ok {
				continue
			}
		}
		out = append(out, a.String())
		if len(out) >= n {
			break
		}
	}
	return out
}

// judgeFirst: the very first connection is itself a (re)connection without position or cache:
// it must take the snapshot and continue with the stream from the snapshot's offset.
func judgeFirst(run *harness.Run, key string, p *plan, h *history, s *sessLog, cache *cacheBox) {
	p1 := &plan{C: p.C, B1: p.B1, ID1: p.ID1, H1: h, H2: h, S: -1, S1: p.S1, S2: p.S1}
	pre := preState{PosAbsent: true}
	v := judge(p1, pre, s)
	if s.Ended == "sentinel" {
		checkCacheAfter(p1, pre, cache, v)
	}
	run.Count("first_connections_judged", 1)
	run.Count("stream_writes_compared", int64(v.Compared))
	run.Count("snapshot_keys_compared", int64(v.SnapKeys))
	for _, f := range v.Findings {
		run.Violation("first-connect|"+f.Sig, key, f.What, map[string]any{"psync_dialogue": psyncStrings(s.Psync), "target_log_head": headApps(s.Apps, 14)})
	}
}

// checkCacheAfter: E of the design — the cache's id/range after the reconnect and the bytes it
// then serves.  Log bytes cached under the current id must be the current history's bytes.
func checkCacheAfter(p *plan, pre preState, cache *cacheBox, v *verdict) {
	id := cache.ch.RunId()
	if id == "" {
		return
	}
	l, r := cache.ch.GetOffsetRange(id)
	if l < 0 || r <= l {
		return
	}
	ctx := fmt.Sprintf("|pos=%s|cache=%s|src=%s", p.posClass(pre.PosID, pre.Pos, pre.PosAbsent), shortCache(p, pre), p.C.Src)
	h := p.H2
	if id != h.ReplID {
		return // a cache the tool left under another id is not served for the current source
	}
	if l < h.Base || r > h.End() {
		v.add("cache-range-outside-current-history"+ctx, "cache holds [%d,%d] under the current id, the history spans [%d,%d]", l, r, h.Base, h.End())
		return
	}
	got, err := cache.readLog(id, l, r)
	if err != nil {
		v.Notes = append(v.Notes, "cache read-back: "+err.Error())
		return
	}
	want := h.slice(l, r)
	if !bytes.Equal(got, want) {
		at := 0
		for at < len(got) && got[at] == want[at] {
			at++
		}
		v.add("cache-log-differs-from-current-history"+ctx, "cache log [%d,%d] under the current id differs from the current history at offset %d: cached %q, history %q",
			l, r, l+int64(at), clip(got[at:]), clip(want[at:]))
	}
}

func clip(b []byte) []byte {
	if len(b) > 48 {
		return b[:48]
	}
	return b
}

func listDir(dir string) []string {
	var out []string
	filepath.Walk(dir, func(path string, info os.FileInfo, err error) error {
		if err == nil && !info.IsDir() {
			out = append(out, fmt.Sprintf("%s(%d)", strings.TrimPrefix(path, dir), info.Size()))
		}
		return nil
	})
	return out
}

func psyncBrief(evs []fakeredis.PsyncEvent) []string {
	var out []string
	for _, e := range evs {
		out = append(out, fmt.Sprintf("%s %s->%s", short(e.ReplID), e.RawOffset, strings.SplitN(e.Reply, " ", 2)[0]))
	}
	return out
}
