package main

import (
	"bytes"
	"fmt"
	"math/rand"
	"os"
	"path/filepath"

	"verif/internal/fakeredis"
	"verif/internal/gen"
	"verif/internal/harness"
	"verif/internal/rdbx"
)

// The "big snapshot, busy source" family: a first connection whose snapshot is 2-4 MiB and whose
// source has more than 1 MiB of stream waiting right behind the payload (writes executed while
// the snapshot was produced).  What the target is given after the snapshot must be the history
// from the snapshot's offset, and the cached log must hold the history's bytes at its offsets.
// The cases are drawn from their own PRNG stream (they do not take part in the enumeration).

func bigSnapshot(r *rand.Rand, tag string, size int) *snapshot {
	n := 3 + r.Intn(3)
	s := &snapshot{Tag: tag}
	var keys []rdbx.Key
	for i := 0; i < n; i++ {
		id := fmt.Sprintf("~%s.%d~", tag, i)
		s.Keys = append(s.Keys, id)
		val := make([]byte, size/n+r.Intn(4096))
		r.Read(val)
		keys = append(keys, rdbx.Key{DB: 0, Key: []byte("snap" + id), Value: rdbx.Value{Kind: rdbx.KindString, Str: val}, Enc: rdbx.Encoding{Type: rdbx.TypeString}})
	}
	s.RDB, _ = rdbx.EncodeFile(keys, rdbx.FileOptions{Version: 9})
	return s
}

// bulkPiece: n writes of about valLen bytes each (ids ~<tag>.<i>~), preceded by a SELECT.
func bulkPiece(r *rand.Rand, tag string, n, valLen int) *gen.Stream {
	st := &gen.Stream{Hist: tag}
	add := func(kind gen.CmdKind, name string, args [][]byte, id string) {
		b := gen.Encode(name, args)
		c := gen.Cmd{Kind: kind, Name: name, Args: args, DB: 0, ID: id, Group: -1, Idx: len(st.Cmds), Start: int64(len(st.Bytes))}
		st.Bytes = append(st.Bytes, b...)
		c.End = int64(len(st.Bytes))
		st.Cmds = append(st.Cmds, c)
	}
	add(gen.KSelect, "SELECT", [][]byte{[]byte("0")}, "")
	for i := 0; i < n; i++ {
		id := fmt.Sprintf("~%s.%d~", tag, i)
		val := append([]byte(id), bytes.Repeat([]byte{byte('a' + i%26)}, valLen/2+r.Intn(valLen))...)
		add(gen.KWrite, "set", [][]byte{[]byte(fmt.Sprintf("bulk%d", i%50)), val}, id)
	}
	return st
}

func bigSnapshotCase(run *harness.Run, key, backend string, tmp string, n int) {
	r := run.Rand(key)
	c := combo{Src: "big-snapshot-busy-source", Cache: "empty", Pid: "absent", Prel: "na", Backend: backend, Restart: "first"}
	p := &plan{C: c, S: -1}
	p.B1 = int64(1000 + r.Intn(1000000))
	p.ID1 = randID(r)
	size := (2 << 20) + r.Intn(2<<20)
	p.S1 = bigSnapshot(r, "s1", size)
	p.S2 = p.S1
	h := newHistory(p.ID1, p.B1)
	h.appendPiece(bulkPiece(r, "b", 300+r.Intn(200), 4096))
	st, end := sentinelPiece("eb", 0)
	h.appendPiece(st)
	p.H1, p.H2, p.End1, p.L1End = h, h, end, h.End()

	cr := &caseRun{key: fmt.Sprintf("big%d", n), r: r, p: p, tmp: filepath.Join(tmp, fmt.Sprintf("big-%d", n))}
	defer os.RemoveAll(cr.tmp)
	cr.tgt = newTarget()
	defer cr.tgt.Close()
	cr.hookTarget()
	src := fakeredis.MustStart(fakeredis.Options{})
	defer src.Close()
	so := src.EnableSource(fakeredis.SourceConfig{ReplID: p.ID1, MasterReplOffset: p.B1, RDB: p.S1.RDB, Stamp: cr.psyncStamp, OnPsync: cr.onPsync,
		HeartbeatsBeforeReply: r.Intn(2), HeartbeatsBeforeRDB: r.Intn(2)})
	// the whole live part is produced while the snapshot is: it follows the payload on the wire
	so.QueueAfterFullresync(h.Bytes)
	cache, err := cr.newCache(backend, "cache")
	if err != nil {
		run.Inconclusive("%s: cache: %v", key, err)
		return
	}
	defer func() { cache.ch.Close() }()
	cr.setCache(cache)
	n0 := len(cr.tgt.Applied())
	t, err := cr.startTool(src.Addr(), cache.ch)
	if err != nil {
		run.Inconclusive("%s: start: %v", key, err)
		return
	}
	s := cr.phase(t, src, h, h.End(), end, "z", 0, n0, 0, 0)
	_, stopped := t.stop()
	if stopped && s.Ended != "sentinel" {
		// (judgeFirst reads the cache back only after a completed session)
		v := &verdict{}
		checkCacheAfter(p, preState{PosAbsent: true}, cache, v)
		for _, f := range v.Findings {
			run.Violation("first-connect|"+f.Sig, key, f.What, map[string]any{"psync_dialogue": psyncStrings(s.Psync), "snapshot_bytes": len(p.S1.RDB), "stream_bytes_behind_the_payload": len(h.Bytes)})
		}
	}
	judgeFirst(run, key, p, h, s, cache)
	run.Eval(1)
	run.Count("big_snapshot_cases", 1)
	run.Count("big_snapshot_bytes", int64(len(p.S1.RDB)))
	run.Count("stream_bytes_queued_behind_snapshots", int64(len(h.Bytes)))
	recordCombo(fmt.Sprintf("%s snapshot=%dB stream=%dB → %s [natural]", c.Label(), len(p.S1.RDB), len(h.Bytes), s.Ended))
	if s.Ended != "sentinel" && run.ViolationCount() == 0 {
		run.Inconclusive("%s: big-snapshot session did not complete: %s %s (psync %v)", key, s.Ended, s.RunErr, psyncStrings(s.Psync))
	}
	if !stopped {
		run.Inconclusive("%s: the tool did not stop", key)
	}
	if len(s.Psync) > 0 {
		run.Distinct(fmt.Sprintf("big-snapshot|%s|%dMiB|%s", backend, len(p.S1.RDB)>>20, s.Ended))
	}
}
