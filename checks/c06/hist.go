package main

import (
	"fmt"
	"math/rand"
	"sort"

	"verif/internal/gen"
	"verif/internal/rdbx"
)

// Offsets in this check are the TOOL's: a position P means "P stream bytes processed"; the byte
// at tool offset o is Redis' stream byte number o+1; master_repl_offset == the history's End().
// PSYNC therefore carries P+1.

type hcmd struct {
	ID    string
	Kind  gen.CmdKind
	Start int64 // absolute
	End   int64 // absolute, just past the last byte
	Group int
	DB    int
	Piece string
}

// history is one replication history: an id, a base offset and the bytes produced so far with
// their offset table.  Shared prefixes of two histories hold the same bytes and ids.
type history struct {
	ReplID string
	Base   int64
	Bytes  []byte
	Cmds   []hcmd
	proj   []int          // indexes into Cmds of the data-modifying commands, in order
	idx    map[string]int // id → position in proj
	groups int
}

func newHistory(id string, base int64) *history {
	return &history{ReplID: id, Base: base, idx: map[string]int{}}
}

func (h *history) End() int64 { return h.Base + int64(len(h.Bytes)) }

// appendPiece appends a generated stream; returns the absolute offset where it starts.
func (h *history) appendPiece(st *gen.Stream) int64 {
	at := h.End()
	maxg := -1
	for _, c := range st.Cmds {
		g := -1
		if c.Group >= 0 {
			g = h.groups + c.Group
			if c.Group > maxg {
				maxg = c.Group
			}
		}
		hc := hcmd{ID: c.ID, Kind: c.Kind, Start: at + c.Start, End: at + c.End, Group: g, DB: c.DB, Piece: st.Hist}
		h.Cmds = append(h.Cmds, hc)
		if c.Kind == gen.KWrite {
			h.idx[c.ID] = len(h.proj)
			h.proj = append(h.proj, len(h.Cmds)-1)
		}
	}
	h.groups += maxg + 1
	h.Bytes = append(h.Bytes, st.Bytes...)
	return at
}

// prefix returns a copy holding the bytes below `upto` (a command boundary) under another id.
func (h *history) prefix(id string, upto int64) *history {
	n := newHistory(id, h.Base)
	n.Bytes = append([]byte{}, h.Bytes[:upto-h.Base]...)
	for _, c := range h.Cmds {
		if c.End > upto {
			break
		}
		n.Cmds = append(n.Cmds, c)
		if c.Kind == gen.KWrite {
			n.idx[c.ID] = len(n.proj)
			n.proj = append(n.proj, len(n.Cmds)-1)
		}
	}
	n.groups = h.groups
	return n
}

// boundaries: offsets at which a position may sit — the base and the end of every command that
// is not inside a source MULTI/EXEC group — restricted to [lo, hi].
func (h *history) boundaries(lo, hi int64) []int64 {
	var out []int64
	if h.Base >= lo && h.Base <= hi {
		out = append(out, h.Base)
	}
	for _, c := range h.Cmds {
		if c.Group >= 0 && c.Kind != gen.KExec {
			continue
		}
		if c.End >= lo && c.End <= hi {
			out = append(out, c.End)
		}
	}
	return out
}

func (h *history) slice(from, to int64) []byte { return h.Bytes[from-h.Base : to-h.Base] }

// firstAfter: position in proj of the first write whose end offset is > off.
func (h *history) firstAfter(off int64) int {
	return sort.Search(len(h.proj), func(i int) bool { return h.Cmds[h.proj[i]].End > off })
}

func (h *history) write(i int) *hcmd { return &h.Cmds[h.proj[i]] }

// dbAt: the source database in force after the command ending at off.
func (h *history) dbAt(off int64) int {
	db := 0
	for _, c := range h.Cmds {
		if c.End > off {
			break
		}
		if c.DB >= 0 {
			db = c.DB
		}
	}
	return db
}

func (h *history) contains(id string) bool { _, ok := h.idx[id]; return ok }

// genPiece generates a stretch of stream; ptxn is the share of source MULTI/EXEC groups.
func genPiece(r *rand.Rand, tag string, n int, ptxn float64) *gen.Stream {
	return gen.GenStream(r, gen.StreamOptions{Hist: tag, NCmds: n, MaxDB: 3, PSelect: 0.15, PTxn: ptxn, PNoise: 0.1, MaxTxnLen: 3, StartDB: -1})
}

func sentinelPiece(tag string, db int) (*gen.Stream, string) {
	st := &gen.Stream{Hist: tag}
	c := st.AppendSentinel(db)
	return st, c.ID
}

// snapshot: a small dataset whose keys carry ids ~<tag>.<i>~.
type snapshot struct {
	Tag  string
	Keys []string // ids
	RDB  []byte
}

func genSnapshot(r *rand.Rand, tag string) *snapshot {
	n := 1 + r.Intn(5)
	s := &snapshot{Tag: tag}
	var keys []rdbx.Key
	for i := 0; i < n; i++ {
		id := fmt.Sprintf("~%s.%d~", tag, i)
		s.Keys = append(s.Keys, id)
		keys = append(keys, rdbx.Key{DB: 0, Key: []byte("snap" + id), Value: rdbx.Value{Kind: rdbx.KindString, Str: []byte(fmt.Sprintf("v%d-%d", i, r.Intn(1000)))},
			Enc: rdbx.Encoding{Type: rdbx.TypeString}})
	}
	s.RDB, _ = rdbx.EncodeFile(keys, rdbx.FileOptions{Version: 9})
	return s
}

func randID(r *rand.Rand) string {
	return fmt.Sprintf("%016x%016x%08x", r.Uint64(), r.Uint64(), r.Uint32())
}

func pickI64(r *rand.Rand, xs []int64) int64 { return xs[r.Intn(len(xs))] }

func filterI64(xs []int64, f func(int64) bool) []int64 {
	var out []int64
	for _, x := range xs {
		if f(x) {
			out = append(out, x)
		}
	}
	return out
}

func short(id string) string {
	if len(id) > 8 {
		return id[:8]
	}
	return id
}
