// C10 (API level) — filters pass exactly the configured set.
//
// The real filter.RedisKeyFilter, configured with exactly the Insert* calls of
// syncer.NewRedisOutput (built-in NoRouteCmds, bookkeeping prefixes config.CheckpointKey /
// config.NamespacePrefixKey, then the user's lists), is compared with ref.Filter — a direct
// transcription of the property statement — on generated configurations, keys and commands:
//
//	FilterCmd / FilterDb                      vs command / database black lists
//	FilterKey                                 vs byte-prefix rules
//	FilterSlot                                vs union-of-ranges rule on ref.HashSlot, on generated
//	                                          keys and swept over all 16384 slots (one key per slot)
//	FilterKey||FilterSlot||FilterDb           the snapshot-entry rule of rdbReplay
//	FilterCmdKey                              vs key positions of ref.Keys + projection rule
//
// Case generators live in verif/internal/ref (filtergen.go) so that an end-to-end layer
// (streams / snapshots through RedisOutput) can reuse the same cases.
package main

import (
	"bytes"
	"fmt"
	"reflect"
	"runtime"
	"strconv"
	"strings"
	"time"
	"unicode/utf8"

	"github.com/mgtv-tech/redis-GunYu/config"
	"github.com/mgtv-tech/redis-GunYu/pkg/filter"
	"github.com/mgtv-tech/redis-GunYu/pkg/log"
	"github.com/mgtv-tech/redis-GunYu/pkg/redis"

	"verif/internal/harness"
	"verif/internal/ref"
)

var (
	r           *harness.Run
	bookkeeping = []string{config.CheckpointKey, config.NamespacePrefixKey}
	slotKey     [ref.Slots]string
	toolCmds    []string // reference commands inside the tool's scope
)

func quiet() {
	t, f := true, false
	_ = log.InitLog(config.LogConfig{LevelStr: "fatal", Handler: config.LogHandlerConfig{StdOut: true}, Caller: &f, Func: &f, ModuleName: &t})
}

// buildReal replicates syncer.NewRedisOutput (syncer/output.go:161-182).
func buildReal(c *ref.FilterConfig) *filter.RedisKeyFilter {
	f := &filter.RedisKeyFilter{}
	f.InsertCmdBlackList(filter.NoRouteCmds, true)
	f.InsertCmdBlackList(c.CmdBlacklist, true)
	f.InsertPrefixKeyBlackList([]string{config.CheckpointKey, config.NamespacePrefixKey})
	if c.PrefixBlack != nil || c.PrefixWhite != nil { // keyFilter != nil
		f.InsertPrefixKeyBlackList(c.PrefixBlack)
		f.InsertPrefixKeyWhiteList(c.PrefixWhite)
	}
	if c.SlotWhite != nil || c.SlotBlack != nil { // slotFilter != nil
		f.InsertSlotWhiteList(c.SlotWhite)
		f.InsertSlotBlackList(c.SlotBlack)
	}
	if len(c.DbBlacklist) > 0 {
		f.InsertDbBlackList(c.DbBlacklist)
	}
	return f
}

type cfgCase struct {
	key    string
	cfg    ref.FilterConfig
	real   *filter.RedisKeyFilter
	ref    *ref.Filter // empty prefix entries match nothing
	refAll *ref.Filter // empty prefix entries match everything
	wClass string
	bClass string
	oddPfx bool // some configured prefix is not valid UTF-8 or contains U+FFFD
}

func newCase(key string, c ref.FilterConfig) *cfgCase {
	cc := &cfgCase{key: key, cfg: c, real: buildReal(&c)}
	rc := c
	rc.CmdBlacklist = append(append([]string{}, filter.NoRouteCmds...), c.CmdBlacklist...)
	cc.ref = ref.NewFilter(rc)
	cc.refAll = ref.NewFilter(rc)
	cc.refAll.EmptyPrefixMatchesAll = true
	cc.wClass = ref.ClassifyRanges(c.SlotWhite)
	cc.bClass = ref.ClassifyRanges(c.SlotBlack)
	for _, p := range append(append([]string{}, c.PrefixWhite...), c.PrefixBlack...) {
		if !utf8.ValidString(p) || strings.ContainsRune(p, utf8.RuneError) {
			cc.oddPfx = true
		}
	}
	return cc
}

func (cc *cfgCase) witness(extra map[string]any) map[string]any {
	m := map[string]any{
		"slot_whitelist": cc.cfg.SlotWhite, "slot_blacklist": cc.cfg.SlotBlack,
		"prefix_whitelist": quoteAll(cc.cfg.PrefixWhite), "prefix_blacklist": quoteAll(cc.cfg.PrefixBlack),
		"db_blacklist": cc.cfg.DbBlacklist, "cmd_blacklist": cc.cfg.CmdBlacklist,
		"white_class": cc.wClass, "black_class": cc.bClass,
	}
	for k, v := range extra {
		m[k] = v
	}
	return m
}

func quoteAll(l []string) []string {
	out := make([]string, len(l))
	for i, s := range l {
		out[i] = strconv.Quote(s)
	}
	return out
}

func q(b []byte) string { return strconv.Quote(string(b)) }

func qArgs(a [][]byte) []string {
	out := make([]string, len(a))
	for i, b := range a {
		out[i] = q(b)
	}
	return out
}

// slotVerdict compares FilterSlot for one key whose reference slot is s; returns false on mismatch.
func (cc *cfgCase) slotVerdict(key string, s int, where string) bool {
	got := cc.real.FilterSlot(key)
	want := cc.ref.SlotRejectedSlot(s)
	if got == want {
		return true
	}
	kts := int(redis.KeyToSlot(key))
	if kts != s {
		r.Violation("FilterSlot|hashslot|"+ref.KeyClass([]byte(key)), cc.key,
			fmt.Sprintf("FilterSlot(key)=%v but the slot rule says %v: the filter computed slot %d, HASH_SLOT is %d", got, want, kts, s),
			cc.witness(map[string]any{"key": strconv.Quote(key), "slot": s, "KeyToSlot": kts, "where": where}))
		return false
	}
	// same slot: the range lookup is at fault; find which list
	list, class := "white", cc.wClass
	if len(cc.cfg.SlotBlack) > 0 {
		only := &filter.RedisKeyFilter{}
		only.InsertSlotBlackList(cc.cfg.SlotBlack)
		if only.FilterSlot(key) != ref.Union(cc.cfg.SlotBlack)[s] {
			list, class = "black", cc.bClass
		}
	}
	r.Violation("FilterSlot|rangelist|"+list+"|"+class, cc.key,
		fmt.Sprintf("slot %d: FilterSlot=%v, union of the configured ranges says rejected=%v", s, got, want),
		cc.witness(map[string]any{"key": strconv.Quote(key), "slot": s, "where": where, "in_white_union": inUnion(cc.cfg.SlotWhite, s), "in_black_union": inUnion(cc.cfg.SlotBlack, s)}))
	return false
}

func inUnion(raw [][]uint16, s int) any {
	if len(raw) == 0 {
		return "list absent"
	}
	return ref.Union(raw)[s]
}

// prefixVerdict compares FilterKey for one key; judged=false when the outcome depends on the
// reading of empty-string prefix entries.
func (cc *cfgCase) prefixVerdict(key []byte) (ok, judged bool) {
	want := cc.ref.PrefixRejected(key)
	if want != cc.refAll.PrefixRejected(key) {
		r.Count("not_judged_empty_prefix_reading", 1)
		return true, false
	}
	got := cc.real.FilterKey(string(key))
	if got == want {
		return true, true
	}
	cls := "valid-utf8"
	switch {
	case !utf8.Valid(key) && cc.oddPfx:
		cls = "non-utf8-key+odd-prefix"
	case !utf8.Valid(key):
		cls = "non-utf8-key"
	case cc.oddPfx:
		cls = "odd-prefix"
	}
	r.Violation("FilterKey|prefix|"+cls, cc.key,
		fmt.Sprintf("FilterKey(key)=%v but the byte-prefix rules say rejected=%v", got, want),
		cc.witness(map[string]any{"key": q(key), "key_hex": fmt.Sprintf("%x", key)}))
	return false, true
}

func (cc *cfgCase) checkKey(key []byte) {
	r.Eval(1)
	r.Count("keys", 1)
	s := ref.HashSlot(key)
	okS := cc.slotVerdict(string(key), s, "generated key")
	okP, judged := cc.prefixVerdict(key)
	// snapshot-entry rule (rdbReplay): FilterDb || FilterKey || FilterSlot
	if okS && okP && judged {
		db := len(key) % 16
		got := !(cc.real.FilterDb(db) || cc.real.FilterKey(string(key)) || cc.real.FilterSlot(string(key)))
		if got != cc.ref.SnapshotKey(db, key) {
			r.Violation("snapshot-entry|composition", cc.key, "FilterDb||FilterKey||FilterSlot differs from the statement although each part agrees",
				cc.witness(map[string]any{"key": q(key), "db": db}))
		}
	}
	out := "accept"
	switch {
	case cc.ref.PrefixRejected(key) && cc.ref.SlotRejectedSlot(s):
		out = "reject-both"
	case cc.ref.PrefixRejected(key):
		out = "reject-prefix"
	case cc.ref.SlotRejectedSlot(s):
		out = "reject-slot"
	}
	r.Distinct(fmt.Sprintf("key|w=%s|b=%s|pfx=%s|%s|%s", cc.wClass, cc.bClass, cc.pfxShape(), ref.KeyClass(key), out))
}

func (cc *cfgCase) pfxShape() string {
	s := ""
	if len(cc.cfg.PrefixWhite) > 0 {
		s += "W"
	}
	if len(cc.cfg.PrefixBlack) > 0 {
		s += "B"
	}
	if s == "" {
		s = "-"
	}
	return s
}

func (cc *cfgCase) checkCommand(cmd string, args [][]byte) {
	sortExt := cmd == "sort" && ref.SortExternalPattern(args)
	if sortExt {
		// SORT ... BY weight_* reads keys no argument names; its source key and STORE destination
		// are still key arguments, so the rules apply to them (the tool's key table returns no
		// keys for this form - FilterCmdKey handles it separately)
		r.Count("sort_external_pattern_commands", 1)
	}
	r.Eval(1)
	r.Count("commands", 1)
	wantOut, wantFwd, judged := cc.ref.CommandKeys(cmd, args)
	if !judged {
		r.Inconclusive("generator produced a command the reference does not judge: %s %q", cmd, args)
		return
	}
	allOut, allFwd, _ := cc.refAll.CommandKeys(cmd, args)
	if allFwd != wantFwd || !equalArgs(allOut, wantOut) {
		r.Count("not_judged_empty_prefix_reading", 1)
		return
	}
	in := cloneArgs(args)
	gotOut, reject := cc.real.FilterCmdKey(cmd, args)
	gotFwd := !reject
	if !equalArgs(in, args) {
		r.Violation("FilterCmdKey|mutates-input", cc.key, "FilterCmdKey modified its input arguments", cc.witness(map[string]any{"cmd": cmd, "args": qArgs(in)}))
	}
	outcome := "withheld"
	if wantFwd {
		outcome = "forwarded"
		if len(wantOut) != len(args) {
			outcome = "projected"
		}
	}
	r.Distinct(fmt.Sprintf("cmd|%s|%s|w=%s|b=%s|pfx=%s", ref.CmdShape(cmd), outcome, cc.wClass, cc.bClass, cc.pfxShape()))
	r.Seen("commands_exercised", cmd)
	r.Count("outcome_"+outcome, 1)
	if gotFwd == wantFwd && (!wantFwd || equalArgs(gotOut, wantOut)) {
		return
	}
	// ---- mismatch: find the cause ------------------------------------------------------
	base := map[string]any{"cmd": cmd, "args": qArgs(args), "tool_forwarded": gotFwd, "want_forwarded": wantFwd,
		"tool_args": qArgs(gotOut), "want_args": qArgs(wantOut)}
	refIdx, _ := ref.KeyIndexes(cmd, args)
	realIdx, realOk := filter.CommandKeyIndexes(cmd, args)
	base["reference_key_indexes"] = refIdx
	base["tool_key_indexes"] = realIdx
	if !realOk || !reflect.DeepEqual(realIdx, refIdx) {
		cls := "different-positions"
		if !realOk || len(realIdx) == 0 {
			cls = "tool-finds-no-keys"
		}
		r.Violation("FilterCmdKey|keypos|"+cmd+"|"+cls, cc.key,
			fmt.Sprintf("%s: the tool takes arguments %v as keys, the command reference says %v; a rejected key is %s", cmd, realIdx, refIdx,
				map[bool]string{true: "forwarded", false: "wrongly decisive"}[gotFwd]), cc.witness(base))
		return
	}
	// same key positions: does a per-key rule disagree?
	explained := false
	for _, k := range refIdx {
		key := args[k]
		if !cc.slotVerdict(string(key), ref.HashSlot(key), "key of "+cmd) {
			explained = true
		}
		if ok, _ := cc.prefixVerdict(key); !ok {
			explained = true
		}
	}
	if explained {
		r.Count("command_mismatch_explained_by_key_rule", 1)
		return
	}
	r.Violation("FilterCmdKey|projection|"+ref.CmdShape(cmd), cc.key,
		"same key positions and same per-key decisions, but the forwarded command differs from the statement (accepted keys only for DEL/UNLINK/MSET, withheld otherwise)",
		cc.witness(base))
}

func equalArgs(a, b [][]byte) bool {
	if len(a) != len(b) {
		return false
	}
	for i := range a {
		if !bytes.Equal(a[i], b[i]) {
			return false
		}
	}
	return true
}

func cloneArgs(a [][]byte) [][]byte {
	out := make([][]byte, len(a))
	for i := range a {
		out[i] = append([]byte{}, a[i]...)
	}
	return out
}

func (cc *cfgCase) checkCmdDb() {
	names := append(append([]string{}, filter.NoRouteCmds...), cc.cfg.CmdBlacklist...)
	names = append(names, "set", "del", "mset", "hset", "eval", "publish", "ping", "select", "multi", "exec", "expire", "unlink", "zadd", "rename", "flushall", "get")
	for _, n := range names {
		lc := strings.ToLower(n) // ParseArgs lower-cases the command name before FilterCmd sees it
		r.Eval(1)
		r.Count("cmd_name_decisions", 1)
		if got, want := cc.real.FilterCmd(lc), cc.ref.CmdRejected(lc); got != want {
			r.Violation("FilterCmd|"+map[bool]string{true: "blacklisted-passes", false: "not-blacklisted-filtered"}[want], cc.key,
				fmt.Sprintf("FilterCmd(%q)=%v, command black list says %v", lc, got, want), cc.witness(map[string]any{"cmd": lc}))
		}
	}
	for db := 0; db < 16; db++ {
		r.Eval(1)
		r.Count("db_decisions", 1)
		if got, want := cc.real.FilterDb(db), cc.ref.DbRejected(db); got != want {
			r.Violation("FilterDb", cc.key, fmt.Sprintf("FilterDb(%d)=%v, db black list says %v", db, got, want), cc.witness(map[string]any{"db": db}))
		}
	}
}

func (cc *cfgCase) sweep() {
	bad := 0
	for s := 0; s < ref.Slots; s++ {
		if !cc.slotVerdict(slotKey[s], s, "sweep of all slots") {
			bad++
		}
	}
	r.Eval(ref.Slots)
	r.Count("slot_sweep_decisions", ref.Slots)
	r.Count("slot_sweeps", 1)
	if bad > 0 {
		r.Count("slot_sweep_wrong_decisions", int64(bad))
	}
	r.Distinct(fmt.Sprintf("sweep|w=%s|b=%s", cc.wClass, cc.bClass))
	r.Seen("white_range_classes", cc.wClass)
	r.Seen("black_range_classes", cc.bClass)
}

func main() {
	quiet()
	r = harness.New("C10", "exploration",
		"distinct = (kind key|cmd|sweep) x white/black range-list class (ref.ClassifyRanges) x prefix lists present x key hash-tag class or command key layout x expected outcome")
	r.Watchdog(time.Duration(r.N(10, 120)) * time.Minute)
	slotKey = ref.KeyForSlot()
	for s, k := range slotKey {
		if ref.HashSlot([]byte(k)) != s {
			r.Inconclusive("harness: sweep key for slot %d is wrong", s)
		}
	}
	for _, c := range ref.Commands() {
		if !ref.OutOfToolScope[c] {
			toolCmds = append(toolCmds, c)
		}
	}
	// stable order
	sortStrings(toolCmds)
	r.Set("commands_in_scope", len(toolCmds))
	workers := runtime.GOMAXPROCS(0)

	// ---- A. range-list family: every shape, white-only / black-only / both, full sweep ----
	perShape := r.N(30, 400)
	nA := len(ref.RangeShapes) * perShape
	harness.Parallel(nA, workers, func(i int) {
		shape := i % len(ref.RangeShapes)
		ck := fmt.Sprintf("ranges-%s-%d", ref.RangeShapes[shape], i/len(ref.RangeShapes))
		if !r.WantCase(ck) {
			return
		}
		rng := r.Rand(ck)
		c := ref.FilterConfig{Bookkeeping: bookkeeping}
		switch rng.Intn(3) {
		case 0:
			c.SlotWhite = ref.GenRanges(rng, shape)
		case 1:
			c.SlotBlack = ref.GenRanges(rng, shape)
		default:
			c.SlotWhite = ref.GenRanges(rng, shape)
			c.SlotBlack = ref.GenRanges(rng, rng.Intn(len(ref.RangeShapes)))
		}
		cc := newCase(ck, c)
		cc.sweep()
		if i < 2*len(ref.RangeShapes) && i%5 == 0 {
			r.Sample(map[string]any{"case": ck, "slot_whitelist": c.SlotWhite, "slot_blacklist": c.SlotBlack, "white_class": cc.wClass, "black_class": cc.bClass})
		}
	})

	// ---- B. full configurations: keys, commands, names, dbs, sweep -------------------------
	nB := r.N(400, 8000)
	nKeys, nCmds := r.N(200, 400), r.N(400, 800)
	harness.Parallel(nB, workers, func(i int) {
		ck := fmt.Sprintf("cfg-%d", i)
		if !r.WantCase(ck) {
			return
		}
		rng := r.Rand(ck)
		c := ref.GenFilterConfig(rng, bookkeeping)
		cc := newCase(ck, c)
		cc.checkCmdDb()
		if len(c.SlotWhite)+len(c.SlotBlack) > 0 {
			cc.sweep()
		}
		// a small pool so that multi-key commands mix accepted and rejected keys
		pool := make([][]byte, 24)
		for j := range pool {
			pool[j] = ref.GenKey(rng, &c)
		}
		for j := 0; j < nKeys; j++ {
			if j < len(pool) {
				cc.checkKey(pool[j])
			} else {
				cc.checkKey(ref.GenKey(rng, &c))
			}
		}
		key := func() []byte {
			if rng.Intn(4) == 0 {
				return ref.GenKey(rng, &c)
			}
			return pool[rng.Intn(len(pool))]
		}
		for j := 0; j < nCmds; j++ {
			cmd := toolCmds[rng.Intn(len(toolCmds))]
			if rng.Intn(3) == 0 {
				cmd = []string{"del", "unlink", "mset"}[rng.Intn(3)]
			}
			cc.checkCommand(cmd, ref.GenCommand(rng, cmd, key))
		}
		if i < 2 {
			a := ref.GenCommand(rng, "mset", key)
			o, f, _ := cc.ref.CommandKeys("mset", a)
			r.Sample(map[string]any{"case": ck, "config": cc.witness(nil), "example": map[string]any{"cmd": "mset", "args": qArgs(a), "expected_forwarded": f, "expected_args": qArgs(o)}})
		}
	})

	r.Assume("empty-string prefix entries: the statement does not say whether \"\" matches every key or nothing; cases whose outcome depends on that reading are counted (not_judged_empty_prefix_reading) and not judged. Observed tool behaviour: \"\" matches nothing, so a white list [\"\"] rejects every key")
	r.Assume("command names reach FilterCmd lower-cased (client.ParseArgs); mixed-case lookups are not judged")
	r.Assume("non-key arguments of SORT/GEORADIUS/XREADGROUP are benign (never option keywords); SORT and GEORADIUS are generated with STORE only, the form a master propagates")
	r.Assume("FT.*, CMS.MERGE, TDIGEST.MERGE are in the tool's table but not judged: their declared key positions depend on the module build")
	r.Assume("end-to-end layer: streams and snapshots are replayed by the real RedisOutput under the generated filter configuration (configurations with empty-string prefix entries are not used there)")
	runE2E(r)
	r.Exit()
}

func sortStrings(a []string) {
	for i := 1; i < len(a); i++ {
		for j := i; j > 0 && a[j] < a[j-1]; j-- {
			a[j], a[j-1] = a[j-1], a[j]
		}
	}
}
