package main

// End-to-end layer of C10: the real RedisOutput replays a generated stream (SendAof) and a
// generated snapshot (SendRdb) under a generated filter configuration into the target double;
// the target's log / final key set must equal what the reference evaluator (ref.Filter, a
// transcription of the statement) lets through.

import (
	"bytes"
	"context"
	"fmt"
	"math/rand"
	"strconv"
	"strings"
	"time"

	"verif/internal/drive"
	"verif/internal/fakeredis"
	"verif/internal/gen"
	"verif/internal/harness"
	"verif/internal/rdbx"
	"verif/internal/ref"

	"github.com/mgtv-tech/redis-GunYu/config"
	"github.com/mgtv-tech/redis-GunYu/pkg/filter"
)

func toolFilterConfig(c ref.FilterConfig) config.FilterConfig {
	fc := config.FilterConfig{DbBlacklist: c.DbBlacklist, CmdBlacklist: c.CmdBlacklist}
	if len(c.PrefixWhite)+len(c.PrefixBlack) > 0 {
		fc.KeyFilter = &config.FilterKeyConfig{PrefixKeyWhitelist: c.PrefixWhite, PrefixKeyBlacklist: c.PrefixBlack}
	}
	if len(c.SlotWhite)+len(c.SlotBlack) > 0 {
		fc.SlotFilter = &config.FilterSlotConfig{KeySlotWhitelist: c.SlotWhite, KeySlotBlacklist: c.SlotBlack}
	}
	return fc
}

func hasEmptyPrefix(c ref.FilterConfig) bool {
	for _, p := range append(append([]string{}, c.PrefixWhite...), c.PrefixBlack...) {
		if p == "" {
			return true
		}
	}
	return false
}

type e2eCmd struct {
	db   int
	name string
	args [][]byte
}

func runE2E(r *harness.Run) {
	drive.Quiet()
	n := r.N(60, 1200)
	harness.Parallel(n, 16, func(i int) {
		ck := fmt.Sprintf("e2e-%d", i)
		if !r.WantCase(ck) {
			return
		}
		rng := r.Rand(ck)
		var c ref.FilterConfig
		for {
			c = ref.GenFilterConfig(rng, bookkeeping)
			if !hasEmptyPrefix(c) {
				break
			}
		}
		rc := c
		rc.CmdBlacklist = append(append([]string{}, filter.NoRouteCmds...), c.CmdBlacklist...)
		rf := ref.NewFilter(rc)
		e2eAof(r, ck, rng, c, rf)
		e2eRdb(r, ck, rng, c, rf)
	})
}

func e2eAof(r *harness.Run, ck string, rng *rand.Rand, c ref.FilterConfig, rf *ref.Filter) {
	pool := make([][]byte, 16)
	for j := range pool {
		pool[j] = ref.GenKey(rng, &c)
	}
	key := func() []byte {
		if rng.Intn(5) == 0 {
			return ref.GenKey(rng, &c)
		}
		return pool[rng.Intn(len(pool))]
	}
	// stream: SELECTs + commands of the tool's key-addressed set (+ blacklisted names, bookkeeping keys)
	var cmds []e2eCmd
	var stream []byte
	db := 0
	add := func(name string, args [][]byte) {
		cmds = append(cmds, e2eCmd{db, name, args})
		stream = append(stream, gen.Encode(name, args)...)
	}
	sel := func(d int) {
		db = d
		stream = append(stream, gen.Encode("SELECT", [][]byte{[]byte(strconv.Itoa(d))})...)
	}
	sel(rng.Intn(4))
	nc := 40 + rng.Intn(40)
	for j := 0; j < nc; j++ {
		switch {
		case rng.Intn(10) == 0:
			sel(rng.Intn(4))
		case rng.Intn(12) == 0 && len(c.CmdBlacklist) > 0:
			add(c.CmdBlacklist[rng.Intn(len(c.CmdBlacklist))], [][]byte{key(), []byte("v")})
		case rng.Intn(15) == 0:
			add("hset", [][]byte{[]byte(bookkeeping[rng.Intn(len(bookkeeping))] + "-x"), []byte("f"), []byte("v")})
		default:
			cmd := toolCmds[rng.Intn(len(toolCmds))]
			if rng.Intn(3) == 0 {
				cmd = []string{"del", "unlink", "mset"}[rng.Intn(3)]
			}
			add(cmd, ref.GenCommand(rng, cmd, key))
		}
	}
	// completion sentinel: a key every configuration accepts? not guaranteed — use the reference to find one
	var sentinelKey []byte
	for t := 0; t < 2000; t++ {
		k := []byte(fmt.Sprintf("verif-sentinel-%d", rng.Intn(1<<30)))
		if len(c.PrefixWhite) > 0 {
			k = append([]byte(c.PrefixWhite[rng.Intn(len(c.PrefixWhite))]), k...)
		}
		if !rf.KeyRejected(k) {
			sentinelKey = k
			break
		}
	}
	sdb := -1
	for d := 0; d < 16; d++ {
		if !rf.DbRejected(d) {
			sdb = d
			break
		}
	}
	if sentinelKey == nil || sdb < 0 || rf.CmdRejected("set") {
		r.Count("e2e_configs_rejecting_everything", 1)
		return
	}
	sel(sdb)
	add("set", [][]byte{sentinelKey, []byte("~END.0~")})

	// expectation
	type exp struct {
		db   int
		name string
		args [][]byte
	}
	var want []exp
	for _, cm := range cmds {
		out, fwd, judged := rf.Command(cm.db, cm.name, cm.args)
		if !judged {
			r.Count("e2e_commands_not_judged", 1)
			return // cannot align a sequence with unjudged members; the generator avoids them
		}
		if fwd {
			want = append(want, exp{cm.db, cm.name, out})
		}
	}

	srv := fakeredis.MustStart(fakeredis.Options{Permissive: true, LogOnly: func(cmd string, args [][]byte) bool {
		return len(args) == 0 || !strings.HasPrefix(string(args[0]), config.CheckpointKey)
	}})
	defer srv.Close()
	runID := fmt.Sprintf("%040x", rng.Uint64())
	ids := []string{runID, strings.Repeat("0", 40)}
	cfg := drive.OutputConfig(srv.Addr(), runID)
	cfg.CanTransaction = rng.Intn(2) == 0
	cfg.BatchCmdCount = uint(1 + rng.Intn(8))
	cfg.BatchTicker = 3 * time.Millisecond
	cfg.Filter = toolFilterConfig(c)
	ss, err := drive.NewSession(cfg, ids)
	if err != nil {
		r.Inconclusive("%s: session: %v", ck, err)
		return
	}
	ctx := context.Background()
	if _, err := ss.Out.StartPoint(ctx, ids); err != nil {
		r.Inconclusive("%s: startpoint: %v", ck, err)
		return
	}
	if err := ss.FullSync(ctx, drive.EmptyRDB, 1000); err != nil {
		r.Inconclusive("%s: full sync: %v", ck, err)
		return
	}
	sp, err := ss.Out.StartPoint(ctx, ids)
	if err != nil {
		r.Inconclusive("%s: startpoint2: %v", ck, err)
		return
	}
	n0 := len(srv.Applied())
	seen := drive.WaitForID(srv, "~END.0~")
	ar := ss.SendAof(ctx, sp.Offset, drive.Plan(rng, stream, time.Millisecond, rng.Intn(4)), false, 4096)
	select {
	case <-seen:
		ar.Stop(30 * time.Second)
	case e := <-ar.Done:
		ar.F.Abort()
		r.Inconclusive("%s: Send ended early: %v", ck, e)
		return
	case <-time.After(60 * time.Second):
		ar.Stop(10 * time.Second)
		r.Inconclusive("%s: watchdog (sentinel not applied)", ck)
		return
	}
	var got []fakeredis.App
	for _, a := range srv.Applied()[n0:] {
		if !a.Write || a.IsErr {
			continue
		}
		if len(a.Args) > 0 && strings.HasPrefix(string(a.Args[0]), config.CheckpointKey) && a.Cmd == "HSET" && isCheckpointWrite(a, runID) {
			continue
		}
		got = append(got, a)
		if gen.FindID(a.Args) == "~END.0~" {
			break
		}
	}
	r.Eval(1)
	r.Count("e2e_stream_commands", int64(len(cmds)))
	wit := func(at int) map[string]any {
		w := map[string]any{"config": (&cfgCase{cfg: c, wClass: ref.ClassifyRanges(c.SlotWhite), bClass: ref.ClassifyRanges(c.SlotBlack)}).witness(nil)}
		var e, g []string
		for j := at - 2; j < at+3; j++ {
			if j >= 0 && j < len(want) {
				e = append(e, fmt.Sprintf("db%d %s %v", want[j].db, want[j].name, qArgs(want[j].args)))
			}
			if j >= 0 && j < len(got) {
				g = append(g, got[j].String())
			}
		}
		w["expected_around"], w["got_around"], w["expected_len"], w["got_len"] = e, g, len(want), len(got)
		return w
	}
	m := len(want)
	if len(got) < m {
		m = len(got)
	}
	for j := 0; j < m; j++ {
		w, g := want[j], got[j]
		if !strings.EqualFold(w.name, g.Cmd) || !sameArgs(w.args, g.Args) || w.db != g.DB {
			kind := "e2e|stream|wrong-command-forwarded"
			if strings.EqualFold(w.name, g.Cmd) && w.db == g.DB {
				kind = "e2e|stream|projection|" + strings.ToLower(w.name)
			}
			r.Violation(kind, ck, fmt.Sprintf("position %d: expected db%d %s %v, target executed %s", j, w.db, w.name, qArgs(w.args), g.String()), wit(j))
			return
		}
	}
	if len(got) != len(want) {
		kind := "e2e|stream|accepted-command-withheld"
		if len(got) > len(want) {
			kind = "e2e|stream|rejected-command-forwarded"
		}
		r.Violation(kind, ck, fmt.Sprintf("target executed %d commands, the rules let %d through", len(got), len(want)), wit(m))
		return
	}
	r.Distinct(fmt.Sprintf("e2e-stream|w=%s|b=%s|pw=%v|pb=%v|db=%v|cmd=%v|txn=%v", ref.ClassifyRanges(c.SlotWhite), ref.ClassifyRanges(c.SlotBlack),
		len(c.PrefixWhite) > 0, len(c.PrefixBlack) > 0, len(c.DbBlacklist) > 0, len(c.CmdBlacklist) > 0, cfg.CanTransaction))
}

func isCheckpointWrite(a fakeredis.App, runID string) bool {
	for i := 1; i+1 < len(a.Args); i += 2 {
		if strings.HasPrefix(string(a.Args[i]), runID) {
			return true
		}
	}
	return false
}

func sameArgs(a, b [][]byte) bool {
	if len(a) != len(b) {
		return false
	}
	for i := range a {
		if !bytes.Equal(a[i], b[i]) {
			return false
		}
	}
	return true
}

func e2eRdb(r *harness.Run, ck string, rng *rand.Rand, c ref.FilterConfig, rf *ref.Filter) {
	// snapshot of plain string keys spread over databases
	var ds []rdbx.Key
	seen := map[string]bool{}
	for j := 0; j < 40; j++ {
		k := ref.GenKey(rng, &c)
		d := rng.Intn(4)
		id := fmt.Sprintf("%d/%s", d, k)
		if len(k) == 0 || seen[id] {
			continue
		}
		seen[id] = true
		ds = append(ds, rdbx.Key{DB: d, Key: k, Value: rdbx.Value{Kind: rdbx.KindString, Str: []byte("v" + strconv.Itoa(j))}, Enc: rdbx.Encoding{Type: rdbx.TypeString}})
	}
	ds = append(ds, rdbx.Key{DB: 0, Key: []byte(bookkeeping[0] + "-in-source"), Value: rdbx.Value{Kind: rdbx.KindString, Str: []byte("x")}, Enc: rdbx.Encoding{Type: rdbx.TypeString}})
	// group by db (RDB files list databases in order)
	var sorted []rdbx.Key
	for d := 0; d < 4; d++ {
		for _, k := range ds {
			if k.DB == d {
				sorted = append(sorted, k)
			}
		}
	}
	file, _ := rdbx.EncodeFile(sorted, rdbx.FileOptions{Version: 9})
	srv := fakeredis.MustStart(fakeredis.Options{})
	defer srv.Close()
	runID := fmt.Sprintf("%040x", rng.Uint64())
	ids := []string{runID, strings.Repeat("0", 40)}
	cfg := drive.OutputConfig(srv.Addr(), runID)
	cfg.ReplayRdbEnableRestore = false
	cfg.ReplayRdbParallel = 1 + rng.Intn(3)
	cfg.Filter = toolFilterConfig(c)
	ss, err := drive.NewSession(cfg, ids)
	if err != nil {
		r.Inconclusive("%s: session: %v", ck, err)
		return
	}
	ctx := context.Background()
	if _, err := ss.Out.StartPoint(ctx, ids); err != nil {
		r.Inconclusive("%s: startpoint: %v", ck, err)
		return
	}
	if err := ss.FullSync(ctx, file, 5000); err != nil {
		r.Inconclusive("%s: snapshot replay: %v", ck, err)
		return
	}
	final := srv.Snapshot()
	r.Eval(1)
	for _, k := range sorted {
		wantIn := rf.SnapshotKey(k.DB, k.Key)
		_, in := final[k.DB][string(k.Key)]
		if wantIn != in {
			kind := "e2e|snapshot|accepted-key-missing"
			if in {
				kind = "e2e|snapshot|rejected-key-replayed"
			}
			why := "key"
			switch {
			case rf.DbRejected(k.DB):
				why = "db"
			case rf.PrefixRejected(k.Key):
				why = "prefix"
			case rf.SlotRejected(k.Key):
				why = "slot|" + ref.KeyClass(k.Key)
			}
			r.Violation(kind+"|"+why, ck, fmt.Sprintf("snapshot key db%d %q (slot %d): rules say forwarded=%v, target has it=%v", k.DB, k.Key, ref.HashSlot(k.Key), wantIn, in),
				(&cfgCase{cfg: c, wClass: ref.ClassifyRanges(c.SlotWhite), bClass: ref.ClassifyRanges(c.SlotBlack)}).witness(nil))
			return
		}
	}
	r.Count("e2e_snapshot_keys", int64(len(sorted)))
	r.Distinct(fmt.Sprintf("e2e-snapshot|w=%s|b=%s|pw=%v|pb=%v|db=%v", ref.ClassifyRanges(c.SlotWhite), ref.ClassifyRanges(c.SlotBlack),
		len(c.PrefixWhite) > 0, len(c.PrefixBlack) > 0, len(c.DbBlacklist) > 0))
}
