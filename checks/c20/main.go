// C20 — pre-existing target keys are handled as the configured policy says, on any path.
//
// C03's machinery with a pre-populated target double: a PRNG subset of the snapshot's keys
// already exists (same or different type, with or without expiry) and the replay runs under
// each key-exists policy on the RESTORE path, the native-command path, the chunked path and the
// "Bad data format" fallback (older target).
package main

import (
	"fmt"
	"hash/crc32"
	"math/rand"
	"os"
	"path/filepath"
	"strings"
	"sync"
	"time"

	"verif/internal/drive"
	"verif/internal/fakeredis"
	"verif/internal/fullsync"
	"verif/internal/harness"
	"verif/internal/rdbx"

	"github.com/mgtv-tech/redis-GunYu/config"
)

func preObj(r *rand.Rand, same rdbx.Kind) *fakeredis.Obj {
	o := &fakeredis.Obj{}
	kinds := []fakeredis.Kind{fakeredis.KString, fakeredis.KList, fakeredis.KHash, fakeredis.KSet, fakeredis.KZSet}
	k := kinds[r.Intn(len(kinds))]
	if r.Intn(2) == 0 {
		switch same {
		case rdbx.KindString:
			k = fakeredis.KString
		case rdbx.KindList:
			k = fakeredis.KList
		case rdbx.KindHash:
			k = fakeredis.KHash
		case rdbx.KindSet:
			k = fakeredis.KSet
		case rdbx.KindZSet:
			k = fakeredis.KZSet
		}
	}
	o.Kind = k
	tag := fmt.Sprintf("old-%d", r.Intn(1000))
	switch k {
	case fakeredis.KString:
		o.Str = []byte(tag)
	case fakeredis.KList:
		o.List = [][]byte{[]byte(tag), []byte("old-b")}
	case fakeredis.KHash:
		o.Hash = map[string][]byte{"oldf": []byte(tag), "f1": []byte("old")}
	case fakeredis.KSet:
		o.Set = map[string]struct{}{tag: {}, "1": {}}
	case fakeredis.KZSet:
		o.ZSet = map[string]float64{tag: 1.5, "1": 2}
	}
	if r.Intn(2) == 0 {
		o.ExpireAt = time.Now().UnixMilli() + int64(3600+r.Intn(100000))*1000
	}
	return o
}

func main() {
	drive.Quiet()
	loadPolicies()
	run := harness.New("C20", "exploration",
		"case = PRNG(seed,i) → (dataset/encoding/replay configuration as in C03, key-exists policy, prior target contents: a PRNG subset of the snapshot's keys "+
			"pre-exists with the same or another type, with or without expiry); distinct = (policy, replay path taken for the pre-existing key: restore / expand / "+
			"chunked / bad-data-format fallback, same-or-different prior type, prior expiry)")
	run.Watchdog(100 * time.Minute)
	run.Assume("internal/rdbx is a faithful reading of the RDB format; the target double answers RESTORE like Redis (BUSYKEY before payload checks, Bad data format for unknown types)")
	n := run.N(3000, 40000)
	keys := make([]string, n)
	for i := range keys {
		keys[i] = fmt.Sprintf("case-%d", i)
	}
	harness.RunSharded(run, keys, harness.ShardOptions{PerCaseTimeout: 20 * time.Minute, Group: func(key string) string { return fmt.Sprint(fullsync.ChunkOf(key)) },
		AbnormalSig: func(key, why, tail string) (string, string) {
			return "replay-does-not-terminate-or-crashes", "replay " + why
		}}, func(key string, res *harness.CaseResult) {
		r := run.Rand(key)
		sc := &fullsync.Scenario{Key: key, TargetDb: -1}
		sc.KeyExists = []string{"replace", "ignore", "error"}[r.Intn(3)]
		// the policy the replay is given is what the tool's own configuration loader makes of the
		// YAML an operator writes: the key left out (every third replace case; "default replace"),
		// the documented spelling, or the same word in another letter case (the loader lower-cases)
		spelling := sc.KeyExists
		// (own hash stream: the other draws of the case stay as they were before this dimension existed)
		switch crc32.ChecksumIEEE([]byte("yaml-"+key)) % 6 {
		case 0, 1:
			if sc.KeyExists == "replace" {
				spelling = ""
			}
		case 2:
			spelling = strings.ToUpper(sc.KeyExists)
		}
		intended := sc.KeyExists
		loaded, lerr := policyThroughConfig(spelling)
		if lerr != nil {
			res.Evals = 1
			res.Violation(intended+"|configuration-rejected|yaml="+yamlClass(spelling), "the configuration loader refuses a valid keyExists setting: "+trunc(lerr.Error(), 200),
				map[string]any{"yaml_keyExists": spelling})
			return
		}
		sc.PolicyGiven = &loaded
		ver := 6 + r.Intn(7)
		sc.TargetVersion = []string{"7.2.4", "7.2.4", "6.2.14", "4.0.14", "7.0.15"}[r.Intn(5)]
		sc.Restore = r.Intn(3) != 0
		sc.MaxBulk = 512 * 1024 * 1024
		if r.Intn(4) == 0 {
			sc.MaxBulk = 64 + r.Intn(400)
		}
		sc.Parallel = []int{1, 4}[r.Intn(2)]
		sc.PipeSize = []int{1, 16, 1024}[r.Intn(3)]
		sc.PlanStyle = r.Intn(4)
		sc.Bisync = r.Intn(3) == 0
		opt := rdbx.GenOptions{Version: ver, NowMs: time.Now().UnixMilli(), IDPrefix: "k" + key[5:] + ":", Avoid: []string{"listpacks4"}, NumKeys: 1 + r.Intn(5)}
		if r.Intn(3) == 0 {
			sc.DbMap = map[int]int{0: 3, 1: 0, 5: 5}
		}
		if sc.Chunk = fullsync.ChunkOf(key); sc.Chunk > 0 {
			opt.MinValueBytes = sc.Chunk/2 + r.Intn(sc.Chunk*2)
			opt.NumKeys = 1 + r.Intn(2)
			if crc32.ChecksumIEEE([]byte(key))%2 == 0 {
				// several split values spread over the replay workers: what one worker remembers
				// about its split key between two chunks meets the other workers' keys
				opt.NumKeys = 4 + int(crc32.ChecksumIEEE([]byte(key))/2%5)
				sc.Parallel = 4
			}
		}
		sc.DS = rdbx.GenDataset(r, opt)
		sc.FO = rdbx.GenFileOptions(r, ver, false)
		sc.FO.SlotInfo = false
		sc.File, sc.Ser = rdbx.EncodeFile(sc.DS, sc.FO)
		sc.Offset = int64(1000 + r.Intn(1<<30))
		// prior contents
		sc.Pre = make([]fakeredis.DB, fakeredis.NumDBs)
		for i := range sc.Pre {
			sc.Pre[i] = fakeredis.DB{}
		}
		pre := map[string]*fakeredis.Obj{}
		now := time.Now().UnixMilli()
		for i := range sc.DS {
			k := &sc.DS[i]
			if r.Intn(2) == 0 {
				continue
			}
			o := preObj(r, k.Value.Kind)
			tdb := sc.MapDB(k.DB)
			sc.Pre[tdb][string(k.Key)] = o
			pre[fmt.Sprintf("%d/%s", tdb, k.Key)] = o
		}
		sc.Pre[9]["unrelated"] = &fakeredis.Obj{Kind: fakeredis.KString, Str: []byte("keep")}
		if len(pre) == 0 {
			k := &sc.DS[0]
			o := preObj(r, k.Value.Kind)
			sc.Pre[sc.MapDB(k.DB)][string(k.Key)] = o
			pre[fmt.Sprintf("%d/%s", sc.MapDB(k.DB), k.Key)] = o
		}
		before := map[string]*fakeredis.Obj{}
		for id, o := range pre {
			before[id] = o.Clone()
		}

		out, why := fullsync.Run(sc, nil)
		if out == nil {
			res.Inconc("harness: %s", why)
			return
		}
		res.Evals = 1
		witness := func() map[string]any {
			w := map[string]any{"scenario": sc.String(), "send_error": fmt.Sprint(out.Err), "rdb_hex": hexLimit(sc.File, 4000),
				"yaml_keyExists": spelling, "policy_after_config_loader": loaded}
			var ks []string
			for _, k := range sc.DS {
				p := ""
				if o := pre[fmt.Sprintf("%d/%s", sc.MapDB(k.DB), k.Key)]; o != nil {
					p = fmt.Sprintf(" PRE-EXISTS as %s ttl=%d", o.Kind, o.ExpireAt)
				}
				ks = append(ks, fmt.Sprintf("db%d %q %s ttl=%d%s", k.DB, k.Key, k.Enc.Describe(), k.ExpireAtMs, p))
			}
			w["keys"] = ks
			return w
		}
		if out.Slow {
			res.Inconc("replay still progressing after 15 min (slow, not hung): %s", sc.String())
			return
		}
		if !out.Returned {
			res.Violation("replay-hangs", "Send did not return and made no progress for two 3 s windows", witness())
			return
		}
		if sc.Bisync && out.Err != nil && strings.Contains(out.Err.Error(), "Bad data format") {
			// the bidirectional path has no native-command fallback for a target that does not know
			// the value's encoding: it refuses with the target's error (fail-safe, nothing judged)
			res.Count("bisync_refused_by_older_target", 1)
			return
		}
		pathOf := func(i int) string {
			k := &sc.DS[i]
			tdb := sc.MapDB(k.DB)
			restoreOK, restoreBad, expanded := false, false, false
			for _, a := range out.Apps {
				if a.DB != tdb || len(a.Args) == 0 || string(a.Args[0]) != string(k.Key) {
					continue
				}
				if a.Cmd == "RESTORE" {
					if !a.IsErr {
						restoreOK = true
					} else if e, ok := a.Reply.(fakeredis.Err); ok && len(e) > 8 && string(e[:8]) == "ERR Bad " {
						restoreBad = true
					}
				} else if a.Write && a.Cmd != "DEL" && a.Cmd != "PEXPIRE" {
					expanded = true
				}
			}
			p := "none"
			switch {
			case restoreOK:
				p = "restore"
			case restoreBad:
				p = "bad-data-format-fallback"
			case expanded:
				p = "expand"
			}
			if sc.Chunk > 0 && len(sc.Ser[i].ValueBytes) > sc.Chunk {
				p += "+chunked"
			}
			return p
		}
		sameType := func(i int, o *fakeredis.Obj) string {
			if string(o.Kind) == sc.DS[i].Value.Kind.String() {
				return "same-type"
			}
			return "other-type"
		}
		modified := func(i int) *fakeredis.App {
			k := &sc.DS[i]
			tdb := sc.MapDB(k.DB)
			for j := range out.Apps {
				a := &out.Apps[j]
				if !a.Write || a.IsErr || a.DB != tdb || len(a.Args) == 0 {
					continue
				}
				ki := 0
				if a.Cmd == "XGROUP" {
					ki = 1
				}
				if ki < len(a.Args) && string(a.Args[ki]) == string(k.Key) {
					// a command that reports "nothing changed" is still a write request on the key
					return a
				}
			}
			return nil
		}
		unchanged := func(id string, i int) (bool, string) {
			k := &sc.DS[i]
			got := out.Final[sc.MapDB(k.DB)][string(k.Key)]
			b := before[id]
			if got == nil {
				return false, "key vanished"
			}
			if ok, why := b.Equal(got); !ok {
				return false, why
			}
			if got.ExpireAt != b.ExpireAt {
				return false, fmt.Sprintf("expiry %d → %d", b.ExpireAt, got.ExpireAt)
			}
			return true, ""
		}
		_ = now
		res.DistinctAdd("policy-source|" + intended + "|yaml=" + yamlClass(spelling))
		switch intended {
		case "replace":
			if out.Err != nil {
				res.Violation("replace|valid-snapshot-rejected", "Send returned an error: "+trunc(out.Err.Error(), 300), witness())
				return
			}
			for _, f := range fullsync.CheckDataset(sc, out, nil) {
				res.Violation("replace|"+f.Sig, f.What, witness())
			}
		case "ignore":
			if out.Err != nil {
				res.Violation("ignore|valid-snapshot-rejected", "Send returned an error: "+trunc(out.Err.Error(), 300), witness())
				return
			}
			skip := map[string]bool{}
			for i := range sc.DS {
				id := fmt.Sprintf("%d/%s", sc.MapDB(sc.DS[i].DB), sc.DS[i].Key)
				if pre[id] == nil {
					continue
				}
				skip[id] = true
				p := pathOf(i)
				if ok, why := unchanged(id, i); !ok {
					res.Violation(fmt.Sprintf("ignore|existing-key-changed|%s|%s", p, sameType(i, before[id])), fmt.Sprintf("key %q existed (%s) and must be kept, but: %s", sc.DS[i].Key, before[id].Kind, why), witness())
				} else if a := modified(i); a != nil {
					res.Violation(fmt.Sprintf("ignore|existing-key-written|%s|%s", p, sameType(i, before[id])), fmt.Sprintf("key %q existed and must not be touched, but the target executed %s", sc.DS[i].Key, a.String()), witness())
				}
			}
			for _, f := range fullsync.CheckDataset(sc, out, skip) {
				res.Violation("ignore|"+f.Sig, f.What, witness())
			}
		case "error":
			if out.Err == nil {
				res.Violation("error|replay-succeeded-although-key-exists", "Send returned nil although snapshot keys pre-exist on the target", witness())
			}
			for i := range sc.DS {
				id := fmt.Sprintf("%d/%s", sc.MapDB(sc.DS[i].DB), sc.DS[i].Key)
				if pre[id] == nil {
					continue
				}
				if a := modified(i); a != nil {
					res.Violation(fmt.Sprintf("error|existing-key-modified-before-stop|%s|%s", pathOf(i), sameType(i, before[id])), fmt.Sprintf("key %q existed; the replay must stop before modifying it, but the target executed %s", sc.DS[i].Key, a.String()), witness())
				} else if ok, why := unchanged(id, i); !ok {
					res.Violation("error|existing-key-changed", fmt.Sprintf("key %q: %s", sc.DS[i].Key, why), witness())
				}
			}
			for _, v := range out.CpWrites {
				if v == sc.Offset {
					res.Violation("error|failed-replay-recorded-as-complete", "resume position advanced to the snapshot offset although the replay stopped with an error", witness())
				}
			}
		}
		if len(res.Violations) == 0 {
			for i := range sc.DS {
				id := fmt.Sprintf("%d/%s", sc.MapDB(sc.DS[i].DB), sc.DS[i].Key)
				if pre[id] == nil {
					continue
				}
				exp := "no-ttl"
				if before[id].ExpireAt != 0 {
					exp = "ttl"
				}
				res.DistinctAdd(fmt.Sprintf("%s|%s|%s|%s|restore=%v|bisync=%v", sc.KeyExists, pathOf(i), sameType(i, before[id]), exp, sc.Restore, sc.Bisync))
				res.Count("preexisting_keys_judged", 1)
			}
			if r.Intn(100) == 0 {
				res.Sample(map[string]any{"case": key, "scenario": sc.String(), "keys": witness()["keys"]})
			}
		}
	})
	run.Exit()
}

func trunc(s string, n int) string {
	if len(s) > n {
		return s[:n] + "..."
	}
	return s
}

func hexLimit(b []byte, n int) string {
	if len(b) > n {
		return fmt.Sprintf("%x...(%d bytes)", b[:n], len(b))
	}
	return fmt.Sprintf("%x", b)
}

// yamlClass names how the policy was written in the YAML.
func yamlClass(spelling string) string {
	switch {
	case spelling == "":
		return "left-out"
	case spelling == strings.ToLower(spelling):
		return "documented"
	}
	return "upper-case"
}

// loadPolicies runs the loader once per spelling before any replay goroutine exists (the loader
// writes the process-wide configuration).
func loadPolicies() {
	for _, p := range []string{"replace", "ignore", "error"} {
		policyThroughConfig(p)
		policyThroughConfig(strings.ToUpper(p))
	}
	policyThroughConfig("")
	policiesLoaded = true
}

var policiesLoaded bool

var (
	policyMu    sync.Mutex
	policyCache = map[string][2]string{}
)

// policyThroughConfig writes a configuration file whose output.replay section carries keyExists
// as given (left out when empty), loads it with the tool's own loader and returns the policy the
// output would be constructed with (syncer.newOutput copies Output.Replay.KeyExists).  The
// process-wide configuration is put back afterwards.
func policyThroughConfig(spelling string) (string, error) {
	policyMu.Lock()
	defer policyMu.Unlock()
	if v, ok := policyCache[spelling]; ok {
		if v[1] != "" {
			return "", fmt.Errorf("%s", v[1])
		}
		return v[0], nil
	}
	if policiesLoaded {
		return "", fmt.Errorf("harness: spelling %q was not loaded at start", spelling)
	}
	dir, err := os.MkdirTemp("", "c20-cfg-")
	if err != nil {
		return "", err
	}
	defer os.RemoveAll(dir)
	y := `input:
  redis:
    addresses: ["127.0.0.1:1"]
output:
  redis:
    addresses: ["127.0.0.1:2"]
  replay:
    batchCmdCount: 50
`
	if spelling != "" {
		y += "    keyExists: " + spelling + "\n"
	}
	y += "channel:\n  storer:\n    dirPath: " + filepath.Join(dir, "storer") + "\nserver:\n  listen: \"127.0.0.1:18001\"\n"
	path := filepath.Join(dir, "gunyu.yaml")
	if err := os.WriteFile(path, []byte(y), 0o644); err != nil {
		return "", err
	}
	saved := *config.GetSyncerConfig()
	*config.GetSyncerConfig() = config.SyncConfig{}
	lerr := config.InitSyncerConfig(path)
	got := ""
	if lerr == nil && config.GetSyncerConfig().Output != nil && true {
		got = config.GetSyncerConfig().Output.Replay.KeyExists
	}
	*config.GetSyncerConfig() = saved
	if lerr != nil {
		policyCache[spelling] = [2]string{"", lerr.Error()}
		return "", lerr
	}
	policyCache[spelling] = [2]string{got, ""}
	return got, nil
}
