// C12 — stream decoding is lossless and its offsets equal the bytes consumed; encoding a
// command for the target and decoding it again returns the same arguments.
//
// Observed: (resp, incrOffset) of client.MustDecodeOpt on a client.NewDecoder, client.ParseArgs
// on the result — exactly the calls RedisOutput.parseAofCommand (syncer/output.go) and the
// bisync parser (syncer/bisync.go, same three functions) make — over generated multi-bulk
// command streams read through bufio.Readers of many sizes on top of a reader that fragments
// the bytes arbitrarily.  Oracle: the generator's own (command, args, end offset) table.
// Encoders: proto.Writer.WriteArgs (the target connection's writer, fed the way
// RedisConn.send feeds it), client.Encode on client.NewCommand / ChangeArgsToResp; their
// output is parsed by a strict independent multi-bulk parser (what a Redis target accepts)
// and by the tool's decoder.
package main

import (
	"bufio"
	"bytes"
	"errors"
	"fmt"
	"io"
	"math"
	"math/rand"
	"runtime"
	"sort"
	"strconv"
	"strings"
	"sync"
	"time"

	"github.com/mgtv-tech/redis-GunYu/config"
	"github.com/mgtv-tech/redis-GunYu/pkg/log"
	"github.com/mgtv-tech/redis-GunYu/pkg/redis/client"
	"github.com/mgtv-tech/redis-GunYu/pkg/redis/client/proto"

	"verif/internal/harness"
)

var r *harness.Run

func quiet() {
	t, f := true, false
	_ = log.InitLog(config.LogConfig{LevelStr: "fatal", Handler: config.LogHandlerConfig{StdOut: true}, Caller: &f, Func: &f, ModuleName: &t})
}

// ---- generator ---------------------------------------------------------------------------

type command struct {
	name string
	args [][]byte
	end  int64 // offset of the first byte after this command in the stream
}

type stream struct {
	cmds  []command
	bytes []byte
	shape string
}

// appendCommand writes the canonical multi-bulk form; this is the generator's own encoder
// (RESP2: "*<n>\r\n" then per argument "$<len>\r\n<bytes>\r\n").
func appendCommand(buf []byte, name string, args [][]byte) []byte {
	buf = append(buf, '*')
	buf = strconv.AppendInt(buf, int64(1+len(args)), 10)
	buf = append(buf, '\r', '\n')
	bulk := func(b []byte) {
		buf = append(buf, '$')
		buf = strconv.AppendInt(buf, int64(len(b)), 10)
		buf = append(buf, '\r', '\n')
		buf = append(buf, b...)
		buf = append(buf, '\r', '\n')
	}
	bulk([]byte(name))
	for _, a := range args {
		bulk(a)
	}
	return buf
}

var framingLike = []string{"\r\n", "$5\r\n", "*2\r\n", "\n", "\r", "$-1\r\n", "*0\r\n", "+OK\r\n", "\r\n$3\r\nfoo\r\n", ":1\r\n", "$", "*", "\r\n\r\n"}
var names = []string{"SET", "set", "DEL", "MSET", "HSET", "RPUSH", "ZADD", "EXPIRE", "SELECT", "MULTI", "EXEC", "PING", "REPLCONF", "PUBLISH", "XADD", "EVAL", "Incr", "sAdD"}

func argClass(a []byte) string {
	switch {
	case len(a) == 0:
		return "empty"
	case len(a) >= 1<<20:
		return "MiB"
	case len(a) >= 60000:
		return "64K"
	case bytes.ContainsAny(a, "\r\n"):
		return "framing-like"
	case len(a) == 1:
		return "1byte"
	}
	for _, c := range a {
		if c < 0x20 || c > 0x7e {
			return "binary"
		}
	}
	return "text"
}

func genArg(rng *rand.Rand, id string, allowBig bool) []byte {
	switch k := rng.Intn(100); {
	case k < 8:
		return []byte{}
	case k < 14:
		return []byte{byte(rng.Intn(256))}
	case k < 30:
		s := framingLike[rng.Intn(len(framingLike))]
		if rng.Intn(2) == 0 {
			s = id + s + framingLike[rng.Intn(len(framingLike))]
		}
		return []byte(s)
	case k < 50:
		b := make([]byte, 1+rng.Intn(40))
		rng.Read(b)
		return b
	case k < 52 && allowBig:
		// around bufio / 64 KiB boundaries
		n := []int{4094, 4095, 4096, 4097, 65534, 65535, 65536, 65537}[rng.Intn(8)]
		b := make([]byte, n)
		rng.Read(b)
		return b
	case k < 53 && allowBig:
		b := make([]byte, (1<<20)+rng.Intn(3<<20))
		rng.Read(b[:4096]) // PRF head + tail, zero middle: cheap and position-sensitive
		rng.Read(b[len(b)-4096:])
		copy(b[len(b)/2:], id)
		return b
	default:
		return []byte(id + ":" + strconv.Itoa(rng.Intn(1000000)))
	}
}

func genStream(rng *rand.Rand, sid string, nCmds int, allowBig bool) *stream {
	st := &stream{}
	buf := make([]byte, 0, 1024)
	maxArgs, maxArg := 0, 0
	for i := 0; i < nCmds; i++ {
		id := fmt.Sprintf("%s.%d", sid, i)
		var c command
		switch k := rng.Intn(100); {
		case k < 4:
			c = command{name: "PING"}
		case k < 8:
			c = command{name: "REPLCONF", args: [][]byte{[]byte("GETACK"), []byte("*")}}
		case k < 11:
			c = command{name: "SELECT", args: [][]byte{[]byte(strconv.Itoa(rng.Intn(16)))}}
		default:
			c.name = names[rng.Intn(len(names))]
			n := rng.Intn(6)
			switch rng.Intn(20) {
			case 0:
				n = 0
			case 1:
				n = 64
			case 2:
				n = 10 + rng.Intn(55)
			}
			for j := 0; j < n; j++ {
				c.args = append(c.args, genArg(rng, id, allowBig))
			}
		}
		buf = appendCommand(buf, c.name, c.args)
		c.end = int64(len(buf))
		st.cmds = append(st.cmds, c)
		if len(c.args) > maxArgs {
			maxArgs = len(c.args)
		}
		for _, a := range c.args {
			if len(a) > maxArg {
				maxArg = len(a)
			}
		}
	}
	st.bytes = buf
	st.shape = fmt.Sprintf("cmds=%s|maxargs=%s|maxarg=%s", bucket(nCmds, 1, 10, 100, 1000), bucket(maxArgs, 0, 5, 63), bucket(maxArg, 0, 64, 4096, 65535, 1<<20-1))
	return st
}

func bucket(n int, edges ...int) string {
	for _, e := range edges {
		if n <= e {
			return "<=" + strconv.Itoa(e)
		}
	}
	return ">" + strconv.Itoa(edges[len(edges)-1])
}

// ---- fragmenting reader ------------------------------------------------------------------

var modes = []string{"1byte", "tiny", "random", "whole", "split-crlf", "mixed+empty-reads"}

type fragReader struct {
	data  []byte
	pos   int
	rng   *rand.Rand
	mode  string
	reads int
}

func (f *fragReader) Read(p []byte) (int, error) {
	if len(p) == 0 {
		return 0, nil
	}
	if f.pos >= len(f.data) {
		return 0, io.EOF
	}
	f.reads++
	rest := len(f.data) - f.pos
	n := len(p)
	switch f.mode {
	case "1byte":
		n = 1
	case "tiny":
		n = 1 + f.rng.Intn(7)
	case "random":
		n = 1 + f.rng.Intn(len(p))
	case "whole":
	case "split-crlf":
		// deliver up to and including the next '\r', so that the next read starts with '\n'
		lim := len(p)
		if lim > rest {
			lim = rest
		}
		if i := bytes.IndexByte(f.data[f.pos:f.pos+lim], '\r'); i >= 0 {
			n = i + 1
		}
	default:
		switch f.rng.Intn(6) {
		case 0:
			if f.reads%3 != 0 { // never many empty reads in a row (bufio gives up after 100)
				return 0, nil
			}
			n = 1
		case 1:
			n = 1
		case 2:
			n = 1 + f.rng.Intn(3)
		default:
			n = 1 + f.rng.Intn(len(p))
		}
	}
	if n > rest {
		n = rest
	}
	if n > len(p) {
		n = len(p)
	}
	copy(p, f.data[f.pos:f.pos+n])
	f.pos += n
	return n, nil
}

var bufSizes = []int{16, 17, 23, 32, 64, 255, 4096, 65536, 1 << 20}

func bufClass(n int) string {
	switch {
	case n <= 64:
		return "tiny"
	case n <= 4096:
		return "mid"
	}
	return "large"
}

// ---- strict independent multi-bulk parser (the "target") ---------------------------------

func parseStrict(data []byte) (cmds [][][]byte, err error) {
	pos := 0
	line := func() ([]byte, error) {
		i := bytes.Index(data[pos:], []byte("\r\n"))
		if i < 0 {
			return nil, fmt.Errorf("no CRLF after offset %d", pos)
		}
		l := data[pos : pos+i]
		pos += i + 2
		return l, nil
	}
	num := func(l []byte) (int, error) {
		if len(l) == 0 {
			return 0, fmt.Errorf("empty number")
		}
		n := 0
		for _, c := range l {
			if c < '0' || c > '9' {
				return 0, fmt.Errorf("bad number %q", l)
			}
			n = n*10 + int(c-'0')
		}
		return n, nil
	}
	for pos < len(data) {
		l, err := line()
		if err != nil {
			return cmds, err
		}
		if len(l) < 2 || l[0] != '*' {
			return cmds, fmt.Errorf("expected *<n>, got %q", l)
		}
		n, err := num(l[1:])
		if err != nil {
			return cmds, err
		}
		var argv [][]byte
		for i := 0; i < n; i++ {
			l, err := line()
			if err != nil {
				return cmds, err
			}
			if len(l) < 2 || l[0] != '$' {
				return cmds, fmt.Errorf("expected $<len>, got %q", l)
			}
			m, err := num(l[1:])
			if err != nil {
				return cmds, err
			}
			if pos+m+2 > len(data) || data[pos+m] != '\r' || data[pos+m+1] != '\n' {
				return cmds, fmt.Errorf("bulk of %d bytes at %d not terminated by CRLF", m, pos)
			}
			argv = append(argv, data[pos:pos+m])
			pos += m + 2
		}
		cmds = append(cmds, argv)
	}
	return cmds, nil
}

// ---- checks ------------------------------------------------------------------------------

// Decoder violations are aggregated by failing clause; the (bufio size class, fragmentation)
// contexts in which a clause failed are summarised into the signature afterwards ("any" when it
// failed in every class), so that a context-independent defect yields one signature and a
// buffer-boundary defect names the contexts that trigger it.
type aggViolation struct {
	bufs, frags map[string]bool
	n           int
	first       []func(sig string)
}

var (
	aggMu sync.Mutex
	aggs  = map[string]*aggViolation{}
)

func report(base, buf, frag, caseKey, what string, witness map[string]any) {
	aggMu.Lock()
	defer aggMu.Unlock()
	a := aggs[base]
	if a == nil {
		a = &aggViolation{bufs: map[string]bool{}, frags: map[string]bool{}}
		aggs[base] = a
	}
	a.bufs[buf], a.frags[frag] = true, true
	a.n++
	if len(a.first) < 3 {
		a.first = append(a.first, func(sig string) { r.Violation(sig, caseKey, what, witness) })
	}
}

func flushReports() {
	summar := func(m map[string]bool, all int) string {
		if len(m) >= all {
			return "any"
		}
		var l []string
		for k := range m {
			l = append(l, k)
		}
		sort.Strings(l)
		return strings.Join(l, ",")
	}
	var bases []string
	for b := range aggs {
		bases = append(bases, b)
	}
	sort.Strings(bases)
	for _, b := range bases {
		a := aggs[b]
		frag := summar(a.frags, len(modes))
		if len(a.frags) >= 4 {
			frag = "any"
		}
		sig := b + "|buf=" + summar(a.bufs, 3) + "|frag=" + frag
		for _, f := range a.first {
			f(sig)
		}
		r.Count("decoder_violation_occurrences", int64(a.n))
	}
}

func clip(b []byte) string {
	if len(b) > 80 {
		return strconv.Quote(string(b[:60])) + fmt.Sprintf("...(%d bytes)", len(b))
	}
	return strconv.Quote(string(b))
}

func diffPos(a, b []byte) int {
	n := len(a)
	if len(b) < n {
		n = len(b)
	}
	for i := 0; i < n; i++ {
		if a[i] != b[i] {
			return i
		}
	}
	return n
}

// decodeRun decodes st (or its first cut bytes) through one (bufio size, fragmentation) pair.
func decodeRun(st *stream, caseKey string, rng *rand.Rand, bufSize int, mode string, cut int) {
	data := st.bytes
	truncated := cut >= 0 && cut < len(data)
	if truncated {
		data = data[:cut]
	}
	fr := &fragReader{data: data, rng: rng, mode: mode}
	dec := client.NewDecoder(bufio.NewReaderSize(fr, bufSize))
	ctx := fmt.Sprintf("buf=%s|%s", bufClass(bufSize), mode)
	wit := func(i int, extra map[string]any) map[string]any {
		m := map[string]any{"bufio_size": bufSize, "fragmentation": mode, "command_index": i, "stream_shape": st.shape,
			"stream_bytes": len(st.bytes), "truncated_at": cut}
		if i < len(st.cmds) {
			m["command"] = st.cmds[i].name
			m["argc"] = len(st.cmds[i].args)
			start := int64(0)
			if i > 0 {
				start = st.cmds[i-1].end
			}
			m["command_start_offset"] = start
			m["command_end_offset"] = st.cmds[i].end
			if st.cmds[i].end-start <= 400 {
				m["command_bytes_quoted"] = strconv.Quote(string(st.bytes[start:st.cmds[i].end]))
			}
		}
		for k, v := range extra {
			m[k] = v
		}
		return m
	}
	r.Distinct(st.shape + "|" + ctx + map[bool]string{true: "|truncated", false: ""}[truncated])
	for i := 0; ; i++ {
		complete := i < len(st.cmds) && st.cmds[i].end <= int64(len(data))
		resp, off, err := client.MustDecodeOpt(dec)
		if !complete {
			// end of the (possibly truncated) stream: anything but an error is a fabricated command
			if err == nil {
				_, argv, _ := client.ParseArgs(resp)
				report("decode|phantom-command", bufClass(bufSize), mode, caseKey,
					"the decoder returned a command after the last complete command of the stream",
					wit(i, map[string]any{"returned_argc": len(argv), "offset": off}))
			} else if errors.Is(err, io.EOF) || errors.Is(err, io.ErrUnexpectedEOF) {
				r.Count("end_of_stream_eof", 1)
			} else {
				r.Count("end_of_stream_other_error", 1)
			}
			return
		}
		want := st.cmds[i]
		r.Eval(1)
		if err != nil {
			report("decode|error", bufClass(bufSize), mode, caseKey,
				fmt.Sprintf("MustDecodeOpt failed on a well-formed command: %v", err), wit(i, map[string]any{"error": err.Error()}))
			return
		}
		name, argv, err := client.ParseArgs(resp)
		if err != nil {
			report("decode|parseargs-error", bufClass(bufSize), mode, caseKey,
				fmt.Sprintf("ParseArgs failed on a well-formed command: %v", err), wit(i, map[string]any{"error": err.Error()}))
			return
		}
		if name != strings.ToLower(want.name) {
			report("decode|cmd", bufClass(bufSize), mode, caseKey, "command name differs",
				wit(i, map[string]any{"got": name, "want_lowercase_of": want.name}))
			return
		}
		if len(argv) != len(want.args) {
			report("decode|argc", bufClass(bufSize), mode, caseKey, "argument count differs",
				wit(i, map[string]any{"got": len(argv), "want": len(want.args)}))
			return
		}
		for j := range argv {
			if !bytes.Equal(argv[j], want.args[j]) {
				report("decode|arg-bytes|arg="+argClass(want.args[j]), bufClass(bufSize), mode, caseKey,
					"argument bytes differ from the bytes sent",
					wit(i, map[string]any{"arg_index": j, "got": clip(argv[j]), "want": clip(want.args[j]),
						"got_len": len(argv[j]), "want_len": len(want.args[j]), "first_diff": diffPos(argv[j], want.args[j])}))
				return
			}
			if argv[j] == nil {
				report("decode|arg-nil", bufClass(bufSize), mode, caseKey, "an empty argument was decoded as a null bulk", wit(i, map[string]any{"arg_index": j}))
				return
			}
		}
		if off != want.end {
			d := off - want.end
			ds := "other"
			if d >= -3 && d <= 3 {
				ds = fmt.Sprintf("%+d", d)
			}
			last := "none"
			if len(want.args) > 0 {
				last = argClass(want.args[len(want.args)-1])
			}
			report("decode|offset|delta="+ds+"|lastarg="+last, bufClass(bufSize), mode, caseKey,
				fmt.Sprintf("offset after command %d is %d, bytes consumed up to and including it are %d", i, off, want.end),
				wit(i, map[string]any{"got_offset": off, "want_offset": want.end}))
			return
		}
		// decode then encode gives back the bytes (canonical multi-bulk form is unique)
		if want.end-startOf(st, i) <= 1<<16 {
			if enc, err := client.EncodeToBytes(resp); err != nil || !bytes.Equal(enc, st.bytes[startOf(st, i):want.end]) {
				report("roundtrip|Encode-of-decoded", bufClass(bufSize), mode, caseKey, "client.Encode(decoded resp) differs from the bytes decoded",
					wit(i, map[string]any{"encoded": clip(enc), "err": fmt.Sprint(err)}))
				return
			}
			r.Count("reencode_compared", 1)
		}
		for _, a := range want.args {
			r.Seen("arg_classes", argClass(a))
		}
	}
}

func startOf(st *stream, i int) int64 {
	if i == 0 {
		return 0
	}
	return st.cmds[i-1].end
}

// encodeRoundTrip: the command travels the way the tool forwards it — decoded args as []byte
// and the command name as a string into proto.Writer.WriteArgs — and, separately, through
// client.Encode; both outputs must parse (strictly) to the same argument list.
func encodeRoundTrip(st *stream, caseKey string, rng *rand.Rand) {
	wsize := []int{16, 64, 4096, 65536}[rng.Intn(4)]
	var out bytes.Buffer
	w := proto.NewWriter(&out, wsize)
	var out2 bytes.Buffer
	bw := bufio.NewWriterSize(&out2, wsize)
	for i, c := range st.cmds {
		args := make([]interface{}, 0, 1+len(c.args))
		args = append(args, strings.ToLower(c.name))
		for _, a := range c.args {
			if rng.Intn(8) == 0 {
				args = append(args, string(a))
			} else {
				args = append(args, a)
			}
		}
		if err := w.WriteArgs(args); err != nil {
			r.Violation("roundtrip|WriteArgs|error", caseKey, err.Error(), map[string]any{"command_index": i})
			return
		}
		var resp client.Resp
		if rng.Intn(2) == 0 {
			resp = client.NewCommand(strings.ToLower(c.name), args[1:]...)
		} else {
			resp = client.ChangeArgsToResp([]byte(strings.ToLower(c.name)), c.args)
		}
		if err := client.Encode(bw, resp, rng.Intn(3) == 0); err != nil {
			r.Violation("roundtrip|Encode|error", caseKey, err.Error(), map[string]any{"command_index": i})
			return
		}
	}
	_ = w.Flush()
	_ = bw.Flush()
	for which, enc := range map[string][]byte{"WriteArgs": out.Bytes(), "Encode": out2.Bytes()} {
		got, err := parseStrict(enc)
		if err != nil {
			r.Violation("roundtrip|"+which+"|not-strict-resp", caseKey, "encoder output is not a sequence of well-formed multi-bulk commands: "+err.Error(),
				map[string]any{"writer_buf": wsize, "stream_shape": st.shape, "parsed_commands": len(got)})
			continue
		}
		if len(got) != len(st.cmds) {
			r.Violation("roundtrip|"+which+"|command-count", caseKey, "number of commands differs",
				map[string]any{"got": len(got), "want": len(st.cmds)})
			continue
		}
		for i, c := range st.cmds {
			r.Eval(1)
			r.Count("roundtrip_"+which, 1)
			bad := len(got[i]) != 1+len(c.args) || string(got[i][0]) != strings.ToLower(c.name)
			j := 0
			for ; !bad && j < len(c.args); j++ {
				if !bytes.Equal(got[i][1+j], c.args[j]) {
					bad = true
					break
				}
			}
			if bad {
				cls := "argc"
				if j < len(c.args) && len(got[i]) == 1+len(c.args) {
					cls = "arg=" + argClass(c.args[j])
				}
				r.Violation("roundtrip|"+which+"|"+cls, caseKey, "encode then strict-decode does not return the arguments",
					map[string]any{"command_index": i, "command": c.name, "argc": len(c.args), "got_argc": len(got[i]) - 1, "arg_index": j, "writer_buf": wsize})
				break
			}
		}
		// and the tool's own decoder reads the tool's own encoding back
		dec := client.NewDecoder(bufio.NewReaderSize(bytes.NewReader(enc), 64))
		for i, c := range st.cmds {
			resp, off, err := client.MustDecodeOpt(dec)
			if err != nil {
				r.Violation("roundtrip|"+which+"|own-decoder-error", caseKey, err.Error(), map[string]any{"command_index": i})
				break
			}
			name, argv, err := client.ParseArgs(resp)
			ok := err == nil && name == strings.ToLower(c.name) && len(argv) == len(c.args) && off == c.end
			for j := 0; ok && j < len(argv); j++ {
				ok = bytes.Equal(argv[j], c.args[j])
			}
			if !ok {
				r.Violation("roundtrip|"+which+"|own-decoder", caseKey, "decode(encode(cmd)) differs from cmd or its offset from the bytes written",
					map[string]any{"command_index": i, "command": c.name, "offset": off, "want_offset": c.end, "err": fmt.Sprint(err)})
				break
			}
		}
	}
}

// typedArgs: WriteArgs with the non-byte argument types the tool passes (ints, floats, bools,
// nil) — numeric arguments compare to their decimal text / parse back to the same float.
func typedArgs(caseKey string, rng *rand.Rand) {
	type exp struct {
		v    interface{}
		text string // "" = float, compared numerically
		f    float64
	}
	var es []exp
	n := 1 + rng.Intn(12)
	for i := 0; i < n; i++ {
		switch rng.Intn(9) {
		case 0:
			v := int(rng.Int63()) >> uint(rng.Intn(64))
			if rng.Intn(2) == 0 {
				v = -v
			}
			es = append(es, exp{v: v, text: fmt.Sprintf("%d", v)})
		case 1:
			v := []int64{math.MinInt64, math.MaxInt64, 0, -1, 1}[rng.Intn(5)]
			es = append(es, exp{v: v, text: fmt.Sprintf("%d", v)})
		case 2:
			v := rng.Uint64() >> uint(rng.Intn(64))
			if rng.Intn(4) == 0 {
				v = math.MaxUint64
			}
			es = append(es, exp{v: v, text: fmt.Sprintf("%d", v)})
		case 3:
			v := int32(rng.Uint32())
			es = append(es, exp{v: v, text: fmt.Sprintf("%d", v)})
		case 4:
			v := math.Float64frombits(rng.Uint64())
			if math.IsNaN(v) || math.IsInf(v, 0) {
				v = 0.1
			}
			if rng.Intn(3) == 0 {
				v = []float64{0, 1.5, -2.25, 1e21, 1e-7, 123456789.125, math.MaxFloat64, math.SmallestNonzeroFloat64}[rng.Intn(8)]
			}
			es = append(es, exp{v: v, f: v})
		case 5:
			b := rng.Intn(2) == 0
			es = append(es, exp{v: b, text: map[bool]string{true: "1", false: "0"}[b]})
		case 6:
			es = append(es, exp{v: nil, text: ""})
		case 7:
			s := framingLike[rng.Intn(len(framingLike))]
			es = append(es, exp{v: s, text: s})
		default:
			b := make([]byte, rng.Intn(20))
			rng.Read(b)
			es = append(es, exp{v: b, text: string(b)})
		}
	}
	args := []interface{}{"cmd"}
	for _, e := range es {
		args = append(args, e.v)
	}
	var out bytes.Buffer
	w := proto.NewWriter(&out, 16+rng.Intn(100))
	if err := w.WriteArgs(args); err != nil {
		r.Violation("roundtrip|WriteArgs|typed|error", caseKey, err.Error(), nil)
		return
	}
	_ = w.Flush()
	got, err := parseStrict(out.Bytes())
	if err != nil || len(got) != 1 || len(got[0]) != len(args) {
		r.Violation("roundtrip|WriteArgs|typed|not-strict-resp", caseKey, fmt.Sprintf("err=%v", err), map[string]any{"bytes": clip(out.Bytes())})
		return
	}
	for i, e := range es {
		r.Eval(1)
		r.Count("roundtrip_typed", 1)
		g := string(got[0][1+i])
		_, isFloat := e.v.(float64)
		if isFloat {
			pf, err := strconv.ParseFloat(g, 64)
			if err != nil || pf != e.f {
				r.Violation("roundtrip|WriteArgs|typed|float", caseKey, "float argument does not read back as the same number",
					map[string]any{"value_bits": math.Float64bits(e.f), "text": g})
			}
			continue
		}
		if g != e.text {
			r.Violation(fmt.Sprintf("roundtrip|WriteArgs|typed|%T", e.v), caseKey, "argument text differs",
				map[string]any{"got": g, "want": e.text})
		}
	}
}

func main() {
	quiet()
	r = harness.New("C12", "exploration",
		"distinct = stream shape (command-count bucket, max argc bucket, max arg-size bucket) x bufio size class x fragmentation mode (x truncated)")
	r.Watchdog(time.Duration(r.N(10, 120)) * time.Minute)
	workers := runtime.GOMAXPROCS(0)

	nStreams := r.N(2000, 100000)
	harness.Parallel(nStreams, workers, func(si int) {
		ck := fmt.Sprintf("s%d", si)
		if !r.WantCase(ck) {
			return
		}
		rng := r.Rand(ck)
		nCmds := 1 + rng.Intn(40)
		allowBig := si%10 == 0
		switch {
		case si%500 == 7:
			nCmds = 10000
			allowBig = false
		case si%50 == 3:
			nCmds = 300 + rng.Intn(700)
		}
		st := genStream(rng, ck, nCmds, allowBig)
		r.Count("streams", 1)
		r.Count("stream_bytes", int64(len(st.bytes)))
		if si < 3 {
			r.Sample(map[string]any{"stream": ck, "shape": st.shape, "commands": len(st.cmds), "bytes": len(st.bytes),
				"head_quoted": clip(st.bytes), "end_offsets_head": func() []int64 {
					var o []int64
					for i := 0; i < len(st.cmds) && i < 5; i++ {
						o = append(o, st.cmds[i].end)
					}
					return o
				}()})
		}
		// three PRNG-chosen (bufio size, fragmentation) pairs + one truncated run
		big := len(st.bytes) > 1<<20
		for k := 0; k < 3; k++ {
			bs := bufSizes[rng.Intn(len(bufSizes))]
			mode := modes[rng.Intn(len(modes))]
			if big && (mode == "1byte" || mode == "tiny") && k > 0 {
				mode = "random"
			}
			decodeRun(st, ck, rng, bs, mode, -1)
		}
		if len(st.bytes) < 1<<20 {
			decodeRun(st, ck, rng, bufSizes[rng.Intn(len(bufSizes))], modes[rng.Intn(len(modes))], rng.Intn(len(st.bytes)))
		}
		if len(st.bytes) < 4<<20 {
			encodeRoundTrip(st, ck, rng)
		}
		typedArgs(ck, rng)
	})

	// full grid bufio sizes x fragmentation modes on a fixed family of small streams
	nGrid := r.N(20, 400)
	harness.Parallel(nGrid, workers, func(gi int) {
		ck := fmt.Sprintf("grid%d", gi)
		if !r.WantCase(ck) {
			return
		}
		rng := r.Rand(ck)
		st := genStream(rng, ck, 1+rng.Intn(60), gi%4 == 0)
		for _, bs := range bufSizes {
			for _, mode := range modes {
				if len(st.bytes) > 1<<20 && (mode == "1byte" || mode == "tiny") && bs != 16 {
					continue
				}
				decodeRun(st, ck, rng, bs, mode, -1)
				r.Seen("grid_pairs", fmt.Sprintf("%d/%s", bs, mode))
			}
		}
	})

	// very wide commands ("any argument count"): a master propagates SADD / RPUSH / HSET / DEL with
	// as many elements as the client sent (Redis 7 accepts multi-bulk lengths up to 2^31-1; 6.2 and
	// older stop at 1024*1024), between two ordinary commands
	widths := []int{1000, 65535, 65536, 1 << 20, 1<<20 + 1, 1<<20 + 4097}
	if !r.Quick() {
		widths = append(widths, 3_000_000)
	}
	harness.Parallel(len(widths), 3, func(wi int) {
		ck := fmt.Sprintf("wide%d", widths[wi])
		if !r.WantCase(ck) {
			return
		}
		rng := r.Rand(ck)
		st := &stream{}
		add := func(name string, args [][]byte) {
			st.bytes = appendCommand(st.bytes, name, args)
			st.cmds = append(st.cmds, command{name: name, args: args, end: int64(len(st.bytes))})
		}
		add("SET", [][]byte{[]byte("k-" + ck), []byte("before")})
		wide := make([][]byte, 0, widths[wi])
		wide = append(wide, []byte("set-"+ck))
		for j := 1; j < widths[wi]; j++ { // the command name is the first of the width elements
			wide = append(wide, strconv.AppendInt([]byte("m"), int64(j), 36))
		}
		add("SADD", wide[:widths[wi]-1])
		add("INCR", [][]byte{[]byte("after-" + ck)})
		st.shape = fmt.Sprintf("cmds=3|maxargs=%s|maxarg=small", bucket(widths[wi], 0, 5, 63, 65535, 1<<20))
		r.Count("streams", 1)
		r.Count("wide_commands", 1)
		r.Count("stream_bytes", int64(len(st.bytes)))
		decodeRun(st, ck, rng, 65536, "random", -1)
		decodeRun(st, ck, rng, 4096, "whole", -1)
	})

	flushReports()
	r.Assume("inline commands and stray new-lines are not fed (quantifier: sequences of multi-bulk commands)")
	r.Assume("command names are ASCII; ParseArgs lower-cases the name, which is compared case-insensitively")
	r.Assume("syncer/bisync.go decodes with the same client.NewDecoder/MustDecodeOpt/ParseArgs calls as parseAofCommand; no separate path exists")
	r.Exit()
}
