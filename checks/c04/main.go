// C04 — an incomplete snapshot replay is never recorded as a completed full sync.
//
// Valid checksummed snapshots (internal/rdbx) are damaged / the target fails / the replay is
// cancelled, and the real parser and RedisOutput.Send are observed:
//
//	trunc-i, alter-i : every truncation length and every single-byte alteration (+1, ^0x80, →0xFF)
//	                   of snapshot i through rdb.ParseRdb (+ the per-type expansion of every entry)
//	full-i           : a PRNG sample of those damages through the full Send path (restore on/off)
//	tgterr-i         : the target answers an error at its k-th write request, for every k
//	cancel-i         : the replay context is cancelled at the k-th target request for every k, and
//	                   right after the last snapshot byte was consumed while replies are slow
package main

import (
	"bufio"
	"bytes"
	"context"
	"fmt"
	"hash/crc32"
	"math/rand"
	"os"
	"strings"
	"sync/atomic"
	"time"

	"verif/internal/drive"
	"verif/internal/fakeredis"
	"verif/internal/fullsync"
	"verif/internal/harness"
	"verif/internal/rdbx"

	"github.com/mgtv-tech/redis-GunYu/pkg/rdb"
)

func baseScenario(r *rand.Rand, idx string, parallelBias bool) *fullsync.Scenario {
	return baseScenarioX(r, idx, parallelBias, false)
}

// baseScenarioX: rich = the target-error class wants entries that are replayed outside the plain
// per-key path: function libraries (FUNCTION RESTORE) and collections of more than 100 elements
// expanded into native commands (full pipeline batches of 100).
func baseScenarioX(r *rand.Rand, idx string, parallelBias, rich bool) *fullsync.Scenario {
	sc := &fullsync.Scenario{Key: idx, TargetDb: -1, KeyExists: "replace", TargetVersion: "7.2.4", MaxBulk: 512 * 1024 * 1024}
	ver := 6 + r.Intn(7)
	sc.Restore = r.Intn(2) == 0
	sc.Parallel = []int{1, 2, 8}[r.Intn(3)]
	sc.PipeSize = []int{1, 16, 1024}[r.Intn(3)]
	sc.Bisync = r.Intn(4) == 0
	if sc.Bisync {
		// replay mode of the bidirectional link and whether an earlier completed snapshot left a
		// root checkpoint the instance has already looked up (own hash stream: the other draws stay as they were)
		h := crc32.ChecksumIEEE([]byte("bisync-" + idx))
		sc.BisyncMode = []string{"sync", "pipeline", "parallel"}[h%3]
		sc.Prime = (h/3)%2 == 0
	}
	opt := rdbx.GenOptions{Version: ver, NowMs: time.Now().UnixMilli(), IDPrefix: "k" + idx + ":", Avoid: []string{"listpacks4"}, NumKeys: 2 + r.Intn(5), NoTTL: r.Intn(2) == 0}
	if parallelBias {
		opt.NumKeys = 6 + r.Intn(10)
	}
	sc.DS = rdbx.GenDataset(r, opt)
	if rich && r.Intn(2) == 0 {
		// a 150-300 element collection that must be expanded (restore off)
		sc.Restore = false
		n := 150 + r.Intn(150)
		big := rdbx.Key{DB: 0, Key: []byte("k" + idx + ":big"), Enc: rdbx.Encoding{Type: rdbx.TypeList}}
		big.Value.Kind = rdbx.KindList
		for j := 0; j < n; j++ {
			big.Value.List = append(big.Value.List, []byte(fmt.Sprintf("e%d", j)))
		}
		if r.Intn(2) == 0 {
			big.Enc.Type = rdbx.TypeHash
			big.Value = rdbx.Value{Kind: rdbx.KindHash}
			for j := 0; j < n; j++ {
				big.Value.Hash = append(big.Value.Hash, [2][]byte{[]byte(fmt.Sprintf("f%d", j)), []byte("v")})
			}
		}
		sc.DS = append([]rdbx.Key{big}, sc.DS...)
	}
	sc.FO = rdbx.GenFileOptions(r, ver, false)
	if rich && ver >= 10 && r.Intn(2) == 0 && len(sc.FO.Functions) == 0 {
		sc.FO.Functions = [][]byte{[]byte("#!lua name=lib" + idx + "\nredis.register_function('f" + idx + "', function(keys, args) return args[1] end)")}
	}
	sc.FO.SlotInfo = false
	sc.FO.NoChecksum = false
	sc.File, sc.Ser = rdbx.EncodeFile(sc.DS, sc.FO)
	sc.Offset = int64(1000 + r.Intn(1<<30))
	return sc
}

// parseOnly runs the tool's parser (and the expansion of every entry) over data.
// Returns whether an error entry was delivered, whether Done was delivered without a preceding
// error, and hung=true when the parse neither finished nor made any logical progress (entries
// delivered, commands emitted by an expansion) during two consecutive 3 s windows.
func parseOnly(data []byte) (sawErr bool, doneWithoutErr bool, entries int, hung bool) {
	var progress atomic.Int64
	type result struct {
		sawErr, done bool
		entries      int
	}
	ch := make(chan result, 1)
	go func() {
		var r result
		pipe := rdb.ParseRdb(bytes.NewReader(data), nil, 16)
		for e := range pipe {
			progress.Add(1)
			if e.Err != nil {
				r.sawErr = true
				continue
			}
			if e.Done {
				if !r.sawErr {
					r.done = true
				}
				continue
			}
			r.entries++
			if e.ObjectParser != nil {
				func() {
					defer func() { recover() }() // the replay path converts expansion panics into errors
					n := 0
					e.ObjectParser.ExecCmd(func(cmd string, args ...interface{}) error {
						progress.Add(1)
						// a real target answers the commands; a damaged value that expands into an endless
						// command sequence is stopped by the target's first error reply.  Only an expansion
						// that spins WITHOUT emitting commands is a hang of the tool itself.
						if n++; n > 200000 {
							return fmt.Errorf("target error (expansion of a %d-byte snapshot exceeded 200000 commands)", len(data))
						}
						return nil
					})
				}()
			}
		}
		ch <- r
	}()
	idle := 0
	last := int64(-1)
	wait := 10 * time.Second
	for {
		select {
		case r := <-ch:
			return r.sawErr, r.done, r.entries, false
		case <-time.After(wait):
		}
		wait = 3 * time.Second
		if p := progress.Load(); p == last {
			idle++
		} else {
			idle = 0
			last = p
		}
		if idle >= 2 {
			return false, false, 0, true
		}
	}
}

func alterations(b byte) [3]byte { return [3]byte{b + 1, b ^ 0x80, 0xFF} }

func main() {
	drive.Quiet()
	run := harness.New("C04", "fault_enumeration",
		"snapshots = PRNG(seed,i) → small valid checksummed snapshots over all encodings; faults: EVERY truncation length and EVERY single-byte alteration "+
			"(3 per byte) of each snapshot through the parser + expansion; a PRNG sample of them through the full Send path; target error at EVERY k-th write; "+
			"cancellation at EVERY k-th target request and right after the last byte was consumed with slow replies; "+
			"distinct = (fault class, replay path, outcome class); exhaustive per snapshot for the byte sweeps and per observed request sequence for k, not over schedules")
	run.Watchdog(100 * time.Minute)
	run.Assume("internal/rdbx produces valid snapshots (validated against the repo's real-Redis fixtures); CRC64 detects every single-byte alteration of the covered bytes")
	run.Assume("cancellation is delivered from a callback at the target double's k-th request (logical instant), not from a timer")
	nsnap := run.N(30, 300)
	var keys []string
	for i := 0; i < nsnap; i++ {
		keys = append(keys, fmt.Sprintf("trunc-%d", i), fmt.Sprintf("alter-%d", i), fmt.Sprintf("full-%d", i), fmt.Sprintf("tgterr-%d", i), fmt.Sprintf("cancel-%d", i))
	}
	stdout := bufio.NewWriter(os.Stdout)
	progress := func(format string, a ...any) {
		fmt.Fprintf(stdout, format+"\n", a...)
		stdout.Flush()
	}
	harness.RunSharded(run, keys, harness.ShardOptions{PerCaseTimeout: 20 * time.Minute,
		AbnormalSig: func(key, why, tail string) (string, string) {
			cls := strings.SplitN(key, "-", 2)[0]
			last := ""
			for _, ln := range strings.Split(tail, "\n") {
				if strings.HasPrefix(ln, "P ") {
					last = ln
				}
			}
			return "damaged-or-interrupted-replay-hangs-or-crashes|" + cls, fmt.Sprintf("%s; last position journaled: %q", why, last)
		}}, func(key string, res *harness.CaseResult) {
		parts := strings.SplitN(key, "-", 2)
		cls, idx := parts[0], parts[1]
		r := run.Rand("snap-" + idx)
		sc := baseScenarioX(r, idx, cls == "cancel", cls == "tgterr")
		file := sc.File
		describe := func() map[string]any {
			var ks []string
			for _, k := range sc.DS {
				ks = append(ks, fmt.Sprintf("db%d %q %s", k.DB, k.Key, k.Enc.Describe()))
			}
			return map[string]any{"snapshot_hex": fmt.Sprintf("%x", file), "keys": ks, "scenario": sc.String()}
		}
		switch cls {
		case "trunc":
			// sanity: the intact file parses
			if e, d, _, _ := parseOnly(file); e || !d {
				res.Inconc("intact snapshot does not parse (err=%v done=%v)", e, d)
				return
			}
			for l := 0; l < len(file); l++ {
				progress("P trunc %s len=%d", idx, l)
				sawErr, done, _, hung := parseOnly(file[:l])
				res.Evals++
				if hung {
					w := describe()
					w["truncated_to"] = l
					res.Violation("damaged-snapshot-parse-hangs|trunc", fmt.Sprintf("snapshot cut to %d of %d bytes: parser/expansion neither finished nor made progress", l, len(file)), w)
					res.RestartWorker = true
					return
				}
				if done || !sawErr {
					w := describe()
					w["truncated_to"] = l
					res.Violation("truncated-snapshot-accepted|parser", fmt.Sprintf("snapshot cut to %d of %d bytes: parser delivered err=%v done-without-error=%v", l, len(file), sawErr, done), w)
					break
				}
			}
			res.DistinctAdd(fmt.Sprintf("trunc|len=%d|ver=%d", len(file)/256, sc.FO.Version))
			res.Count("truncations_parsed", int64(len(file)))
		case "alter":
			bad := 0
			for p := 0; p < len(file)-8; p++ {
				for ai, nb := range alterations(file[p]) {
					if nb == file[p] {
						continue
					}
					progress("P alter %s pos=%d alt=%d", idx, p, ai)
					mut := append([]byte{}, file...)
					mut[p] = nb
					sawErr, done, _, hung := parseOnly(mut)
					res.Evals++
					if hung {
						w := describe()
						w["position"], w["new_byte"] = p, nb
						res.Violation("damaged-snapshot-parse-hangs|alter|"+regionOf(sc, p), fmt.Sprintf("byte %d changed %#x→%#x: parser/expansion neither finished nor made progress", p, file[p], nb), w)
						res.RestartWorker = true
						return
					}
					if (done || !sawErr) && bad < 3 {
						bad++
						w := describe()
						w["position"], w["new_byte"] = p, nb
						res.Violation("altered-snapshot-accepted|parser|"+regionOf(sc, p), fmt.Sprintf("byte %d changed %#x→%#x: parser delivered err=%v done-without-error=%v", p, file[p], nb, sawErr, done), w)
					}
				}
			}
			// header class: the nine bytes "REDIS00vv" take EVERY other value (the version digits
			// decide which parts of the file are read at all - a damaged digit must not switch the
			// checksum off)
			for p := 0; p < 9 && p < len(file)-8 && bad < 3; p++ {
				for v := 0; v < 256; v++ {
					nb := byte(v)
					if nb == file[p] {
						continue
					}
					mut := append([]byte{}, file...)
					mut[p] = nb
					sawErr, done, _, hung := parseOnly(mut)
					res.Evals++
					if hung {
						w := describe()
						w["position"], w["new_byte"] = p, nb
						res.Violation("damaged-snapshot-parse-hangs|alter|header", fmt.Sprintf("header byte %d changed %#x→%#x: parser neither finished nor made progress", p, file[p], nb), w)
						res.RestartWorker = true
						return
					}
					if (done || !sawErr) && bad < 3 {
						bad++
						w := describe()
						w["position"], w["new_byte"] = p, nb
						res.Violation("altered-snapshot-accepted|parser|header", fmt.Sprintf("header byte %d changed %#x→%#x (%q → %q): parser delivered err=%v done-without-error=%v", p, file[p], nb, file[:9], mut[:9], sawErr, done), w)
					}
				}
			}
			res.Count("header_alterations_parsed", 9*255)
			// footer class
			for p := len(file) - 8; p < len(file); p++ {
				mut := append([]byte{}, file...)
				mut[p] ^= 0x80
				sawErr, done, _, _ := parseOnly(mut)
				res.Evals++
				if done || !sawErr {
					w := describe()
					w["position"] = p
					res.Violation("altered-footer-accepted|parser", fmt.Sprintf("footer byte %d flipped: err=%v done-without-error=%v", p, sawErr, done), w)
					break
				}
			}
			res.DistinctAdd(fmt.Sprintf("alter|len=%d|ver=%d", len(file)/256, sc.FO.Version))
			res.Count("alterations_parsed", int64(3*(len(file)-8)))
		case "full":
			n := 40
			for j := 0; j < n; j++ {
				mut := append([]byte{}, file...)
				kind := "alter"
				var where int
				if j%4 == 0 {
					kind = "trunc"
					where = r.Intn(len(file))
					mut = mut[:where]
				} else {
					where = r.Intn(len(file) - 8)
					nb := alterations(file[where])[r.Intn(3)]
					if j%10 == 1 { // a version digit of the header becomes another digit
						where = 5 + r.Intn(4)
						nb = byte('0' + r.Intn(10))
					}
					if nb == file[where] {
						nb ^= 1
					}
					mut[where] = nb
				}
				progress("P full %s %s at=%d", idx, kind, where)
				s2 := *sc
				s2.File = mut
				s2.Restore = j%2 == 0
				out, why := fullsync.Run(&s2, nil)
				if out == nil {
					res.Inconc("harness: %s", why)
					continue
				}
				res.Evals++
				path := "expand"
				if s2.Restore {
					path = "restore"
				}
				w := describe()
				w["damage"], w["at"], w["send_error"] = kind, where, fmt.Sprint(out.Err)
				switch {
				case !out.Returned:
					res.Violation("damaged-snapshot-replay-hangs|"+kind+"|"+path, "Send did not return and made no progress for two 3 s windows", w)
				case out.Err == nil:
					res.Violation("damaged-snapshot-reported-complete|"+kind+"|"+path, fmt.Sprintf("Send returned nil for a snapshot with %s at %d", kind, where), w)
				case hasCp(out, sc.Offset):
					w["same_instance_start_point_after_send"] = fmt.Sprintf("%+v", out.AfterSP)
					res.Violation("failed-replay-recorded-as-complete|"+kind+"|"+path+inProc(out, sc.Offset), "the resume position was advanced to the snapshot offset although Send failed", w)
				default:
					res.DistinctAdd(fmt.Sprintf("full|%s|%s|%s", kind, path, errClass(out.Err)))
				}
			}
		case "tgterr":
			// base run to learn the request sequence
			s0 := *sc
			base, why := fullsync.Run(&s0, nil)
			if base == nil || base.Err != nil {
				res.Inconc("base run: %s %v", why, errOf(base))
				return
			}
			var writes []int64
			for _, rq := range base.Reqs {
				if isTargetWrite(&rq) {
					writes = append(writes, rq.Seq)
				}
			}
			// the fault at the k-th write: a one-shot error reply, or - every second point - a target
			// that keeps refusing from that write on (loading a dataset, cluster down, out of
			// memory, read-only replica ...), in the reply classes a client may be tempted to retry
			classes := []string{"ERR injected failure", "LOADING Redis is loading the dataset in memory",
				"TRYAGAIN Multiple keys request during rehashing of slot", "CLUSTERDOWN The cluster is down",
				"MASTERDOWN Link with MASTER is down and replica-serve-stale-data is set to 'no'.",
				"OOM command not allowed when used memory > 'maxmemory'.", "READONLY You can't write against a read only replica.",
				"BUSY Redis is busy running a script. You can only call SCRIPT KILL or SHUTDOWN NOSAVE."}
			for k := 1; k <= len(writes); k++ {
				progress("P tgterr %s k=%d", idx, k)
				s2 := *sc
				cnt := 0
				persistent := k%2 == 0
				class := classes[0]
				if k%4 >= 2 {
					class = classes[1+(k/4)%(len(classes)-1)]
				}
				out, why := fullsync.Run(&s2, func(srv *fakeredis.Server, cancel context.CancelFunc, f *drive.Feeder) {
					srv.SetHooks(nil, func(rq *fakeredis.Req) (fakeredis.Reply, bool) {
						if !isTargetWrite(rq) {
							return nil, false
						}
						cnt++
						if cnt == k || (persistent && cnt > k) {
							return fakeredis.Err(class), true
						}
						return nil, false
					}, nil)
				})
				if out == nil {
					res.Inconc("harness: %s", why)
					continue
				}
				res.Evals++
				w := describe()
				w["error_injected_at_write"], w["send_error"] = k, fmt.Sprint(out.Err)
				w["error_reply"], w["target_keeps_refusing"] = class, persistent
				flavour := strings.SplitN(class, " ", 2)[0]
				if persistent {
					flavour += "+persistent"
				}
				// a tool that answers a refusal by trying again may legitimately finish: "reported
				// complete" is wrong exactly when an entry has not been applied
				missing, first := 0, ""
				if out.Returned && (out.Err == nil || hasCp(out, sc.Offset)) {
					for _, f := range fullsync.CheckDataset(&s2, out, nil) {
						if strings.HasPrefix(f.Sig, "key-missing") || strings.HasPrefix(f.Sig, "content-differs") {
							if missing == 0 {
								first = f.What
							}
							missing++
						}
					}
				}
				switch {
				case !out.Returned:
					res.Violation("target-error-replay-hangs", "Send did not return after a target error and made no progress for two 3 s windows", w)
					return // every further point of this snapshot would wait out the same hang
				case out.Err == nil && missing > 0:
					res.Violation("target-error-swallowed|"+pathName(sc), fmt.Sprintf("the target answered %q to write %d of %d (keeps refusing: %v) but Send returned nil although %d snapshot keys were not (fully) applied; first: %s", flavour, k, len(writes), persistent, missing, first), w)
				case hasCp(out, sc.Offset) && missing > 0:
					w["same_instance_start_point_after_send"] = fmt.Sprintf("%+v", out.AfterSP)
					res.Violation("failed-replay-recorded-as-complete|target-error|"+pathName(sc)+inProc(out, sc.Offset), fmt.Sprintf("the resume position was advanced to the snapshot offset although the target failed a write (%q) and %d snapshot keys were not (fully) applied", flavour, missing), w)
				case out.Err == nil:
					res.Count("target_error_points_finished_completely_after_a_refusal", 1)
				default:
					res.DistinctAdd(fmt.Sprintf("tgterr|%s|workers=%d|%s|%s", pathName(sc), sc.Parallel, posClass(k, len(writes)), flavour))
				}
			}
			res.Count("target_error_points", int64(len(writes)))
		case "cancel":
			s0 := *sc
			base, why := fullsync.Run(&s0, nil)
			if base == nil || base.Err != nil {
				res.Inconc("base run: %s %v", why, errOf(base))
				return
			}
			nreq := len(base.Reqs)
			hung := false
			judge := func(label string, out *fullsync.Outcome, s2 *fullsync.Scenario) {
				res.Evals++
				w := describe()
				w["cancel"], w["send_error"] = label, fmt.Sprint(out.Err)
				if !out.Returned {
					res.Violation("cancelled-replay-hangs", "Send did not return after cancellation and made no progress for two 3 s windows", w)
					hung = true
					return
				}
				complete := out.Err == nil || hasCp(out, sc.Offset)
				if !complete {
					res.DistinctAdd(fmt.Sprintf("cancel|%s|workers=%d|pipe=%d|interrupted", pathName(sc), sc.Parallel, sc.PipeSize))
					return
				}
				// reported complete (or position advanced): then every entry must have been applied
				fs := fullsync.CheckDataset(s2, out, nil)
				missing := 0
				for _, f := range fs {
					if strings.HasPrefix(f.Sig, "key-missing") || strings.HasPrefix(f.Sig, "content-differs") {
						missing++
					}
				}
				if missing > 0 {
					how := "Send returned nil"
					if out.Err != nil {
						how = "the resume position was advanced to the snapshot offset"
					}
					res.Violation(fmt.Sprintf("cancelled-replay-recorded-as-complete|%s|workers=%d", pathName(sc), sc.Parallel),
						fmt.Sprintf("%s although %d snapshot keys were not (fully) applied; first: %s", how, missing, fs[0].What), w)
					return
				}
				res.DistinctAdd(fmt.Sprintf("cancel|%s|workers=%d|pipe=%d|completed-before-cancel", pathName(sc), sc.Parallel, sc.PipeSize))
			}
			for k := 1; k <= nreq; k++ {
				progress("P cancel %s k=%d", idx, k)
				s2 := *sc
				seq0 := int64(-1)
				out, why := fullsync.Run(&s2, func(srv *fakeredis.Server, cancel context.CancelFunc, f *drive.Feeder) {
					srv.ReplyDelay = func(cmd string) { time.Sleep(200 * time.Microsecond) }
					srv.SetHooks(func(rq *fakeredis.Req) {
						if seq0 < 0 {
							seq0 = rq.Seq - 1
						}
						if rq.Seq-seq0 == int64(k) {
							cancel()
						}
					}, nil, nil)
				})
				if out == nil {
					res.Inconc("harness: %s", why)
					continue
				}
				judge(fmt.Sprintf("at target request %d of %d", k, nreq), out, &s2)
				if hung {
					return
				}
			}
			// cancellation right after the parser consumed the last byte, workers still busy
			for rep := 0; rep < 6; rep++ {
				progress("P cancel %s allout rep=%d", idx, rep)
				s2 := *sc
				out, why := fullsync.Run(&s2, func(srv *fakeredis.Server, cancel context.CancelFunc, f *drive.Feeder) {
					srv.ReplyDelay = func(cmd string) { time.Sleep(time.Duration(200+rep*300) * time.Microsecond) }
					go func() {
						<-f.AllOut()
						cancel()
					}()
				})
				if out == nil {
					res.Inconc("harness: %s", why)
					continue
				}
				judge(fmt.Sprintf("right after the last snapshot byte was consumed (rep %d)", rep), out, &s2)
			}
			// cancellation at the moment the parser has been given the b-th snapshot byte, for every b:
			// the parser, the distributor and the workers all learn of it while they are running
			if sc.Parallel <= 2 {
				for b := 1; b < len(sc.File); b++ {
					if b%64 == 0 {
						progress("P cancel %s byte=%d", idx, b)
					}
					s2 := *sc
					s2.CancelAtByte = b
					out, why := fullsync.Run(&s2, nil)
					if out == nil {
						res.Inconc("harness: %s", why)
						continue
					}
					judge(fmt.Sprintf("when the parser had been given %d of %d snapshot bytes", b, len(sc.File)), out, &s2)
					if hung {
						return
					}
				}
				res.Count("cancel_points_by_snapshot_byte", int64(len(sc.File)-1))
			}
			res.Count("cancel_points", int64(nreq+6))
		}
		if len(res.Violations) == 0 && r.Intn(20) == 0 {
			res.Sample(map[string]any{"case": key, "scenario": sc.String(), "evaluations": res.Evals})
		}
	})
	run.Exit()
}

func errOf(o *fullsync.Outcome) error {
	if o == nil {
		return nil
	}
	return o.Err
}

// hasCp: the snapshot's offset became the resume position — stored on the target, or answered by
// the same instance when it is asked for its start point again (RedisInput.Run re-uses the output).
func hasCp(out *fullsync.Outcome, off int64) bool {
	for _, v := range out.CpWrites {
		if v == off {
			return true
		}
	}
	return resumesAt(out, off)
}

// inProc marks a finding that only the same instance's own start point shows (nothing stored).
func inProc(out *fullsync.Outcome, off int64) string {
	for _, v := range out.CpWrites {
		if v == off {
			return ""
		}
	}
	return "|in-process-start-point-only"
}

func resumesAt(out *fullsync.Outcome, off int64) bool {
	return out.AfterSP != nil && out.AfterSP.Offset == off && out.AfterSP.RunId == out.RunID
}

func pathName(sc *fullsync.Scenario) string {
	p := "expand"
	if sc.Restore {
		p = "restore"
	}
	if sc.Bisync {
		p += "+bisync"
	}
	return p
}

func posClass(k, n int) string {
	switch {
	case k == 1:
		return "first"
	case k == n:
		return "last"
	}
	return "middle"
}

func errClass(err error) string {
	s := err.Error()
	switch {
	case strings.Contains(s, "checksum"):
		return "checksum"
	case strings.Contains(s, "panic"):
		return "recovered-panic"
	case strings.Contains(s, "EOF"):
		return "eof"
	case strings.Contains(s, "ERR"), strings.Contains(s, "WRONGTYPE"):
		return "target-error"
	}
	return "other"
}

// regionOf names the file region a byte offset falls into (header / key record i / trailer).
func regionOf(sc *fullsync.Scenario, p int) string {
	if p < 9 {
		return "header"
	}
	for i, s := range sc.Ser {
		if p >= s.Offset && p < s.Offset+s.Len {
			if p < s.ValueOffset {
				return "record-prefix"
			}
			_ = i
			return "value:" + rdbx.TypeName(s.TypeByte)
		}
	}
	return "opcode-or-aux"
}

// isTargetWrite: the requests at which a target error is injected (replay traffic on business keys).
func isTargetWrite(rq *fakeredis.Req) bool {
	if rq.Cmd == "FUNCTION" || rq.Cmd == "SCRIPT" {
		return true
	}
	return len(rq.Args) > 0 && !drive.Reserved(rq.Args[0]) && (fakeredis.IsWrite(rq.Cmd) || rq.Cmd == "EXISTS")
}
