// C03 — a full sync reproduces the source snapshot's dataset on the target.
//
// Snapshots are produced by the independent codec internal/rdbx from generated datasets (every
// encoding / integer width / boundary), replayed by the real RedisOutput.Send into the target
// double (RESTORE decoded by rdbx, native commands executed), and the final keyspace, the
// expiries and every RESTORE payload are compared with the dataset.
package main

import (
	"fmt"
	"hash/crc32"
	"math/rand"
	"time"

	"verif/internal/drive"
	"verif/internal/fullsync"
	"verif/internal/harness"
	"verif/internal/rdbx"
)

func genScenario(r *rand.Rand, key string, quick bool) *fullsync.Scenario {
	sc := &fullsync.Scenario{Key: key, TargetDb: -1, KeyExists: "replace"}
	ver := 6 + r.Intn(7) // 6..12 (13 only adds the unverified stream v4)
	sc.TargetVersion = []string{"7.2.4", "7.2.4", "7.2.4", "6.2.14", "4.0.14", "7.0.15"}[r.Intn(6)]
	sc.Restore = r.Intn(3) != 0
	sc.MaxBulk = 512 * 1024 * 1024
	if r.Intn(4) == 0 {
		sc.MaxBulk = 64 + r.Intn(400)
	}
	sc.Parallel = []int{1, 2, 8}[r.Intn(3)]
	sc.PipeSize = []int{1, 16, 1024}[r.Intn(3)]
	sc.PlanStyle = r.Intn(4)
	sc.Bisync = r.Intn(5) == 0
	opt := rdbx.GenOptions{Version: ver, NowMs: time.Now().UnixMilli(), IDPrefix: "k" + key[5:] + ":", Avoid: []string{"listpacks4"}}
	switch r.Intn(4) {
	case 0:
		sc.DbMap = map[int]int{0: 3, 1: 0, 5: 5}
	case 1:
		sc.TargetDb = r.Intn(3)
	}
	if r.Intn(6) == 0 {
		sc.DbBlack = []int{[]int{0, 1, 5, 15}[r.Intn(4)]}
		opt.DBs = []int{0, 1, 5, 15}
	}
	if r.Intn(8) == 0 {
		sc.PrefixBlack = []string{"k" + key[5:] + ":1"}
	}
	if r.Intn(5) == 0 {
		opt.MaxElemBytes = 17000
		opt.NumKeys = 1 + r.Intn(3)
	}
	if sc.Chunk = fullsync.ChunkOf(key); sc.Chunk > 0 {
		// value chunking: values on both sides of the threshold
		opt.MinValueBytes = sc.Chunk/2 + r.Intn(sc.Chunk*2)
		opt.NumKeys = 1 + r.Intn(3)
		if h := crc32.ChecksumIEEE([]byte(key)); h%3 == 0 {
			// several split values spread over the replay workers
			opt.NumKeys = 4 + int(h/3%5)
			sc.Parallel = 4
		}
		if r.Intn(2) == 0 {
			opt.Kinds = []rdbx.Kind{[]rdbx.Kind{rdbx.KindHash, rdbx.KindList, rdbx.KindSet, rdbx.KindZSet}[r.Intn(4)]}
		}
	}
	if !quick && r.Intn(200) == 0 {
		opt.MinValueBytes = 600 * 1024
		opt.MaxElemBytes = 64 * 1024
		opt.NumKeys = 1
	}
	sc.DS = rdbx.GenDataset(r, opt)
	sc.FO = rdbx.GenFileOptions(r, ver, false)
	sc.FO.SlotInfo = false // unverified opcode: not part of any verdict
	sc.File, sc.Ser = rdbx.EncodeFile(sc.DS, sc.FO)
	sc.Offset = int64(1000 + r.Intn(1<<30))
	return sc
}

func main() {
	drive.Quiet()
	run := harness.New("C03", "exploration",
		"case = PRNG(seed,i) → (dataset with boundary-heavy values in a PRNG-chosen on-disk encoding per key, RDB version 6-12, file options, "+
			"replay configuration: restore on/off, max bulk length, parallelism, pipe size, db map/filters, chunk threshold via hook, target version); "+
			"distinct = (encoding label incl. the element feature exercised, replay path actually taken per key, chunked or not) of keys that were compared")
	run.Watchdog(100 * time.Minute)
	run.Assume("internal/rdbx is a faithful reading of the RDB format (validated against the real-Redis fixture blobs embedded in the repo's tests)")
	run.Assume("the target double executes the native commands and decodes RESTORE payloads like a Redis of the configured version")
	run.Assume("stream listpacks v4 and SLOT_INFO are not generated (no real bytes available to validate the codec)")
	n := run.N(4000, 60000)
	keys := make([]string, n)
	for i := range keys {
		keys[i] = fmt.Sprintf("case-%d", i)
	}
	harness.RunSharded(run, keys, harness.ShardOptions{PerCaseTimeout: 20 * time.Minute, Group: func(key string) string { return fmt.Sprint(fullsync.ChunkOf(key)) },
		AbnormalSig: func(key, why, tail string) (string, string) {
			return "replay-of-valid-snapshot-does-not-terminate-or-crashes", "replay of a valid snapshot " + why
		}}, func(key string, res *harness.CaseResult) {
		r := run.Rand(key)
		sc := genScenario(r, key, run.Quick())
		out, why := fullsync.Run(sc, nil)
		if out == nil {
			res.Inconc("harness: %s", why)
			return
		}
		res.Evals = 1
		res.Count("snapshot_keys", int64(len(sc.DS)))
		res.Count("snapshot_bytes", int64(len(sc.File)))
		res.Count("target_requests_logged", int64(len(out.Reqs)))
		witness := func() map[string]any {
			w := map[string]any{"scenario": sc.String(), "send_error": fmt.Sprint(out.Err), "rdb_hex": hexLimit(sc.File, 6000)}
			var ks []string
			for _, k := range sc.DS {
				ks = append(ks, fmt.Sprintf("db%d %q %s ttl=%d", k.DB, k.Key, k.Enc.Describe(), k.ExpireAtMs))
			}
			w["keys"] = ks
			return w
		}
		if out.Slow {
			res.Inconc("replay still progressing after 15 min (slow, not hung): %s", sc.String())
			return
		}
		if !out.Returned {
			res.Violation("replay-of-valid-snapshot-hangs", "Send did not return and neither the target received a request nor the snapshot reader a byte for two 3 s windows", witness())
			return
		}
		if sc.Bisync && out.Err != nil && contains(out.Err.Error(), "Bad data format") {
			// bidirectional replay has no native-command fallback for a target that does not know the
			// value's encoding; it refuses with the target's error (fail-safe, nothing to judge)
			res.Count("bisync_refused_by_older_target", 1)
			return
		}
		if out.Err != nil {
			lab := "?"
			if len(sc.DS) > 0 {
				lab = sc.DS[0].Enc.Describe()
			}
			res.Violation("valid-snapshot-rejected|"+classifyErr(out.Err)+"|first="+lab, "Send returned an error for a valid snapshot: "+trunc(out.Err.Error(), 300), witness())
			return
		}
		fs := fullsync.CheckDataset(sc, out, nil)
		for _, f := range fs {
			res.Violation(f.Sig, f.What, witness())
		}
		// the completed full sync must have stored the snapshot's offset
		okCp := false
		for _, v := range out.CpWrites {
			if v == sc.Offset {
				okCp = true
			}
		}
		if !okCp {
			res.Violation("completed-full-sync-without-position", fmt.Sprintf("Send returned nil but no resume position %d was stored (%v)", sc.Offset, out.CpWrites), witness())
		}
		if len(fs) == 0 {
			for i := range sc.DS {
				k := &sc.DS[i]
				if sc.Filtered(k) {
					continue
				}
				path := "expand"
				for _, a := range out.Apps {
					if a.Cmd == "RESTORE" && len(a.Args) > 0 && string(a.Args[0]) == string(k.Key) {
						path = "restore"
					}
				}
				ch := ""
				if sc.Chunk > 0 && len(sc.Ser[i].ValueBytes) > sc.Chunk {
					ch = "|chunked"
				}
				bs := ""
				if sc.Bisync {
					bs = "|bisync"
				}
				res.DistinctAdd(k.Enc.Describe() + "|" + path + ch + bs)
				res.SeenAdd("rdb_type_path", fmt.Sprintf("%s/%s|%s%s", kindName(k), rdbx.TypeName(sc.Ser[i].TypeByte), path, ch))
			}
			if r.Intn(50) == 0 {
				res.Sample(map[string]any{"case": key, "scenario": sc.String(), "first_key": fmt.Sprintf("%q %s", sc.DS[0].Key, sc.DS[0].Enc.Describe())})
			}
		}
	})
	run.Exit()
}

func kindName(k *rdbx.Key) string { return k.Value.Kind.String() }

func classifyErr(err error) string {
	s := err.Error()
	switch {
	case contains(s, "panic"):
		return "panic"
	case contains(s, "checksum"):
		return "checksum"
	case contains(s, "EOF"):
		return "eof"
	case contains(s, "ERR"), contains(s, "WRONGTYPE"):
		return "target-error"
	}
	return "other"
}

func contains(s, sub string) bool {
	for i := 0; i+len(sub) <= len(s); i++ {
		if s[i:i+len(sub)] == sub {
			return true
		}
	}
	return false
}

func trunc(s string, n int) string {
	if len(s) > n {
		return s[:n] + "..."
	}
	return s
}

func hexLimit(b []byte, n int) string {
	if len(b) > n {
		return fmt.Sprintf("%x...(%d bytes)", b[:n], len(b))
	}
	return fmt.Sprintf("%x", b)
}
