package main

import (
	"errors"
	"fmt"
	"net"
	"sync"
	"sync/atomic"

	"google.golang.org/grpc"

	pb "github.com/mgtv-tech/redis-GunYu/pkg/api/golang"
	usync "github.com/mgtv-tech/redis-GunYu/pkg/sync"
	"github.com/mgtv-tech/redis-GunYu/syncer"
)

var errCut = errors.New("c16: transfer cut by the harness")

type msgRec struct {
	Code   string `json:"code"`
	Aof    bool   `json:"aof,omitempty"`
	RunID  string `json:"run_id,omitempty"`
	Offset int64  `json:"offset"`
	Size   int64  `json:"size"`
}

type rpcRec struct {
	Idx       int      `json:"idx"`
	Handshake bool     `json:"handshake"`
	ReqRunID  string   `json:"req_run_id"`
	ReqOffset int64    `json:"req_offset"`
	Transfer  int      `json:"transfer_idx"` // index among non-handshake RPCs, -1 for a handshake
	Msgs      []msgRec `json:"msgs"`
	NMsgs     int      `json:"n_msgs"`
	DataBytes int64    `json:"data_bytes"`
	LastEnd   int64    `json:"last_end_offset"` // stream position after the last message sent
	Cut       bool     `json:"cut,omitempty"`
	Done      bool     `json:"done"`
	Err       string   `json:"err,omitempty"`
}

// leaderNode is a real ReplicaLeader behind a real gRPC server on loop-back.  Its Sync handler
// does what syncer.ServiceReplica does (WgAdd/Handle/WgDone) with the stream wrapped so that
// the harness sees every message and can cut the transfer after message k.
type leaderNode struct {
	pb.UnimplementedApiServiceServer
	ch    syncer.Channel
	input *stubInput
	rl    *syncer.ReplicaLeader
	wait  usync.WaitCloser
	svr   *grpc.Server
	addr  string

	mu         sync.Mutex
	rpcs       []*rpcRec
	handshakes int
	transfers  int
	cutXfer    int // cut the cutXfer-th transfer RPC ... (-1: never)
	cutAfter   int // ... after this many messages got through
	cutDone    bool
	beforeRPC  func(rec rpcRec) // runs in the handler before Handle (may reconfigure the leader)
	afterRPC   func(rec rpcRec)
	afterSend  func(rec rpcRec) // runs in the handler after every message that got through
	msgsTotal  atomic.Int64
	bytesTotal atomic.Int64
}

func newLeaderNode(ch syncer.Channel, input *stubInput) (*leaderNode, error) {
	ln := &leaderNode{ch: ch, input: input, cutXfer: -1}
	ln.rl = syncer.NewReplicaLeader(input, ch)
	ln.rl.Start()
	ln.wait = usync.NewWaitCloser(nil)
	lis, err := net.Listen("tcp", "127.0.0.1:0")
	if err != nil {
		return nil, err
	}
	ln.addr = lis.Addr().String()
	ln.svr = grpc.NewServer()
	pb.RegisterApiServiceServer(ln.svr, ln)
	go func() { _ = ln.svr.Serve(lis) }()
	return ln, nil
}

func (ln *leaderNode) close() {
	ln.rl.Stop()
	ln.wait.Close(nil)
	ln.svr.Stop()
	ln.wait.WgWait()
}

func (ln *leaderNode) setCut(transferIdx, afterMsgs int) {
	ln.mu.Lock()
	ln.cutXfer, ln.cutAfter, ln.cutDone = transferIdx, afterMsgs, false
	ln.mu.Unlock()
}

func (ln *leaderNode) counts() (handshakes, transfers int) {
	ln.mu.Lock()
	defer ln.mu.Unlock()
	return ln.handshakes, ln.transfers
}

// cutState: (armed cut has fired, and the handler of the cut RPC has returned)
func (ln *leaderNode) cutState() (fired, handlerReturned bool) {
	ln.mu.Lock()
	defer ln.mu.Unlock()
	if !ln.cutDone {
		return false, false
	}
	for _, r := range ln.rpcs {
		if r.Cut {
			return true, r.Done
		}
	}
	return true, false
}

// lastDelivered: stream position after the last message of the most recent transfer RPC.
func (ln *leaderNode) lastDelivered() (end int64, ok bool) {
	ln.mu.Lock()
	defer ln.mu.Unlock()
	for i := len(ln.rpcs) - 1; i >= 0; i-- {
		if r := ln.rpcs[i]; r.Transfer >= 0 {
			return r.LastEnd, r.NMsgs > 0 && !r.Done
		}
	}
	return 0, false
}

// refused = false: rounds the leader served (a follower that repeats those makes no progress);
// refused = true: rounds the leader answered with CLEAR ("wait a moment" / nothing to read).
// identicalRounds: length of the trailing run of completed RPCs (index >= from) that carried the same
// request and got the same answer (first message, message count, data bytes, error).
func (ln *leaderNode) identicalRounds(from int, refused bool) (int, string) {
	ln.mu.Lock()
	defer ln.mu.Unlock()
	n, key := 0, ""
	for i := len(ln.rpcs) - 1; i >= from; i-- {
		r := ln.rpcs[i]
		if !r.Done {
			if i == len(ln.rpcs)-1 {
				continue // the round in progress
			}
			break
		}
		k := fmt.Sprintf("request(id %.8s, offset %d)", r.ReqRunID, r.ReqOffset)
		if len(r.Msgs) > 0 {
			m := r.Msgs[0]
			k += fmt.Sprintf(" -> %s aof=%v offset=%d size=%d", m.Code, m.Aof, m.Offset, m.Size)
		}
		k += fmt.Sprintf(", %d messages, %d bytes, err=%q", r.NMsgs, r.DataBytes, r.Err)
		if r.Cut {
			break
		}
		if refused != (len(r.Msgs) > 0 && r.Msgs[0].Code == "CLEAR") {
			break
		}
		if n == 0 {
			key = k
		} else if k != key {
			break
		}
		n++
	}
	return n, key
}

func (ln *leaderNode) snapshotRPCs() []rpcRec {
	ln.mu.Lock()
	defer ln.mu.Unlock()
	out := make([]rpcRec, 0, len(ln.rpcs))
	for _, r := range ln.rpcs {
		c := *r
		c.Msgs = append([]msgRec(nil), r.Msgs...)
		out = append(out, c)
	}
	return out
}

func (ln *leaderNode) Sync(req *pb.SyncRequest, stream pb.ApiService_SyncServer) error {
	id := req.GetNode().GetRunId()
	ln.mu.Lock()
	rec := &rpcRec{Idx: len(ln.rpcs), ReqRunID: id, ReqOffset: req.GetOffset(), Transfer: -1}
	rec.Handshake = id == "" || id == "?"
	cutAfter := -1
	if rec.Handshake {
		ln.handshakes++
	} else {
		rec.Transfer = ln.transfers
		ln.transfers++
		if ln.cutXfer == rec.Transfer && !ln.cutDone {
			cutAfter = ln.cutAfter
		}
	}
	ln.rpcs = append(ln.rpcs, rec)
	before, after := ln.beforeRPC, ln.afterRPC
	snap := *rec
	ln.mu.Unlock()

	if before != nil {
		before(snap)
	}
	ws := &cutStream{ApiService_SyncServer: stream, ln: ln, rec: rec, cutAfter: cutAfter}
	ln.wait.WgAdd(1)
	err := ln.rl.Handle(ln.wait, req, ws)
	ln.wait.WgDone()

	ln.mu.Lock()
	rec.Done = true
	if err != nil {
		rec.Err = err.Error()
	}
	snap = *rec
	ln.mu.Unlock()
	if after != nil {
		after(snap)
	}
	return err
}

type cutStream struct {
	pb.ApiService_SyncServer
	ln       *leaderNode
	rec      *rpcRec
	cutAfter int
	dead     bool
}

func (s *cutStream) Send(m *pb.SyncResponse) error {
	if s.dead {
		return errCut
	}
	s.ln.mu.Lock()
	n := s.rec.NMsgs
	if s.cutAfter >= 0 && n >= s.cutAfter {
		s.dead = true
		s.rec.Cut = true
		s.ln.cutDone = true
		s.ln.mu.Unlock()
		return errCut
	}
	s.ln.mu.Unlock()

	err := s.ApiService_SyncServer.Send(m)

	s.ln.mu.Lock()
	if err == nil {
		s.rec.NMsgs++
		s.rec.DataBytes += int64(len(m.GetData()))
		s.rec.LastEnd = m.GetOffset()
		if len(s.rec.Msgs) < 12 {
			s.rec.Msgs = append(s.rec.Msgs, msgRec{Code: m.GetCode().String(), Aof: m.GetMeta().GetAof(),
				RunID: m.GetMeta().GetRunId(), Offset: m.GetOffset(), Size: m.GetSize()})
		}
	}
	s.ln.mu.Unlock()
	if err == nil {
		s.ln.msgsTotal.Add(1)
		s.ln.bytesTotal.Add(int64(len(m.GetData())))
		if h := s.ln.afterSend; h != nil {
			s.ln.mu.Lock()
			snap := *s.rec
			snap.Msgs = append([]msgRec(nil), s.rec.Msgs...)
			s.ln.mu.Unlock()
			h(snap)
		}
	}
	return err
}
