package main

import (
	"bytes"
	"crypto/sha1"
	"encoding/binary"
	"encoding/hex"
	"fmt"
	"sync"

	"github.com/mgtv-tech/redis-GunYu/pkg/digest"
)

// Every byte fed into a cache identifies where it came from: the log byte at offset o of
// replication id r is PRF(r,"aof",o); byte i of the snapshot taken at offset `left` of id r is
// PRF(r,"rdb@left",i).  Two ids (or a snapshot and a log) never produce the same run of bytes,
// so a read-back tells which history, and which offset, a stored byte belongs to.

func mix64(x uint64) uint64 {
	x += 0x9E3779B97F4A7C15
	x = (x ^ (x >> 30)) * 0xBF58476D1CE4E5B9
	x = (x ^ (x >> 27)) * 0x94D049BB133111EB
	return x ^ (x >> 31)
}

func keyOf(s string) uint64 {
	h := sha1.Sum([]byte(s))
	return binary.LittleEndian.Uint64(h[:8])
}

func aofKey(id string) uint64 { return keyOf("aof|" + id) }

func rdbKey(id string, left int64) uint64 { return keyOf(fmt.Sprintf("rdb|%s|%d", id, left)) }

func prfByte(key uint64, pos int64) byte {
	w := mix64(key ^ mix64(uint64(pos>>3)))
	return byte(w >> (8 * uint(pos&7)))
}

// prfFill writes PRF(key, pos..pos+len(dst)) into dst.
func prfFill(dst []byte, key uint64, pos int64) {
	i := 0
	for i < len(dst) {
		w := mix64(key ^ mix64(uint64(pos>>3)))
		for b := pos & 7; b < 8 && i < len(dst); b++ {
			dst[i] = byte(w >> (8 * uint(b)))
			i++
			pos++
		}
	}
}

func prfBytes(key uint64, pos int64, n int) []byte {
	b := make([]byte, n)
	prfFill(b, key, pos)
	return b
}

// firstDiff returns the index of the first byte of got that differs from PRF(key,pos+i), or -1.
func firstDiff(got []byte, key uint64, pos int64) int {
	const blk = 4096
	exp := make([]byte, blk)
	for base := 0; base < len(got); base += blk {
		n := len(got) - base
		if n > blk {
			n = blk
		}
		prfFill(exp[:n], key, pos+int64(base))
		for i := 0; i < n; i++ {
			if got[base+i] != exp[i] {
				return base + i
			}
		}
	}
	return -1
}

// matchesAt tells whether got[at:at+n] equals PRF(key,pos..).
func matchesAt(got []byte, at int, key uint64, pos int64, n int) bool {
	if at+n > len(got) {
		n = len(got) - at
	}
	if n < 1 {
		return false
	}
	exp := prfBytes(key, pos, n)
	for i := 0; i < n; i++ {
		if got[at+i] != exp[i] {
			return false
		}
	}
	return true
}

func hexSnippet(b []byte, at, n int) string {
	if at < 0 {
		at = 0
	}
	if at > len(b) {
		at = len(b)
	}
	if at+n > len(b) {
		n = len(b) - at
	}
	return hex.EncodeToString(b[at : at+n])
}

// runID derives a 40-hex-digit replication id (the shape Redis uses) from a label.
func runID(label string) string {
	h := sha1.Sum([]byte("c16-runid|" + label))
	return hex.EncodeToString(h[:])
}

// rdbBytes is the snapshot taken at offset left of replication id `id`: PRF bytes followed by the
// 8-byte little-endian CRC64 trailer a real RDB ends with (the disk cache verifies it when
// channel.verifyCrc is on).  Memoised: every side of a case feeds and expects the same bytes.
var rdbMemo sync.Map

func rdbBytes(id string, left, size int64) []byte {
	k := fmt.Sprintf("%s|%d|%d", id, left, size)
	if v, ok := rdbMemo.Load(k); ok {
		return v.([]byte)
	}
	b := make([]byte, size)
	prfFill(b, rdbKey(id, left), 0)
	if size > 8 {
		h := digest.New()
		h.Write(b[:size-8])
		binary.LittleEndian.PutUint64(b[size-8:], h.Sum64())
	}
	rdbMemo.Store(k, b)
	return b
}

// diffBytes: index of the first byte of got that differs from exp (got may be a prefix), or -1.
func diffBytes(got, exp []byte) int {
	n := len(got)
	if n > len(exp) {
		n = len(exp)
	}
	if bytes.Equal(got[:n], exp[:n]) {
		if len(got) > len(exp) {
			return len(exp)
		}
		return -1
	}
	for i := 0; i < n; i++ {
		if got[i] != exp[i] {
			return i
		}
	}
	return -1
}
