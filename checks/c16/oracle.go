package main

import (
	"bytes"
	"fmt"
	"math/rand"
	"os"
	"path/filepath"
	"strconv"
	"strings"
	"sync"
	"sync/atomic"
	"time"

	usync "github.com/mgtv-tech/redis-GunYu/pkg/sync"
	"github.com/mgtv-tech/redis-GunYu/syncer"
)

// chanState is what a Channel declares at one instant.
type chanState struct {
	ID      string `json:"id"`
	Left    int64  `json:"left"`
	Right   int64  `json:"right"`
	RdbLeft int64  `json:"rdb_left"`
	RdbSize int64  `json:"rdb_size"`
}

func (s chanState) String() string {
	id := s.ID
	if len(id) > 6 {
		id = id[:6]
	}
	return fmt.Sprintf("{%s [%d,%d] rdb(%d,%d)}", id, s.Left, s.Right, s.RdbLeft, s.RdbSize)
}

func stateOf(ch syncer.Channel) chanState {
	id := ch.RunId()
	s := chanState{ID: id, Left: -1, Right: -1, RdbLeft: -1, RdbSize: -1}
	if id == "" {
		return s
	}
	s.Left, s.Right = ch.GetOffsetRange(id)
	s.RdbLeft, s.RdbSize = ch.GetRdb(id)
	return s
}

type readRes struct {
	openErr error
	isAof   bool
	left    int64
	size    int64
	data    []byte
	err     error
	stalled bool
}

// readAt opens a reader of ch at (id, off) and reads up to n bytes.  A read that makes no
// progress for readStallTime is abandoned (stalled); the caller never turns a stall into a verdict
// by itself.
func readAt(ch syncer.Channel, id string, off int64, n int64, stall time.Duration) readRes {
	rd, err := ch.NewReader(syncer.Offset{RunId: id, Offset: off})
	if err != nil {
		return readRes{openErr: err}
	}
	res := readRes{isAof: rd.IsAof(), left: rd.Left(), size: rd.Size()}
	w := usync.NewWaitCloser(nil)
	rd.Start(w)
	buf := make([]byte, n)
	var got atomic.Int64
	done := make(chan error, 1)
	go func() {
		ior := rd.IoReader()
		for got.Load() < n {
			m, err := ior.Read(buf[got.Load():])
			if m > 0 {
				got.Add(int64(m))
			}
			if err != nil {
				done <- err
				return
			}
		}
		done <- nil
	}()
	tick := time.NewTicker(50 * time.Millisecond)
	defer tick.Stop()
	last, lastChange := int64(-1), time.Now()
	finished := false
	for !finished {
		select {
		case e := <-done:
			res.err = e
			finished = true
		case <-tick.C:
			if g := got.Load(); g != last {
				last, lastChange = g, time.Now()
			} else if time.Since(lastChange) > stall {
				res.stalled = true
				finished = true
			}
		}
	}
	w.Close(nil)
	rd.Close()
	if res.stalled {
		<-done // the reader has been closed: the pending Read returns
	}
	w.WgWait()
	res.data = buf[:got.Load()]
	return res
}

type finding struct {
	Sig     string         `json:"signature"`
	What    string         `json:"what"`
	Detail  map[string]any `json:"detail"`
	Harness bool           `json:"-"` // not a verdict about the follower: inconclusive
}

type checkStats struct {
	bytesCompared    int64
	leaderCompared   int64
	refusedSnapshot  int
	refusedLog       int
	resumedReads     int
	spotReads        int
	transientDropped int
	midChecks        int
	emptySnapshots   int
}

// world is what the harness knows about the histories of a case: every replication id used, the
// snapshots (offset,size) that exist anywhere under each id and the lowest log offset ever fed under it.
// All data of one id are pieces of one PRF history, so whatever a cache declares under an id must lie
// inside these.  After a source fail-over (+CONTINUE <new id>) the new id's history IS the old id's
// up to the switch offset and PRF(new) from there on; the old id's history ends at the switch offset
// (a byte filed under the old id beyond it can only mismatch).
type snapRef struct {
	Left, Size int64
	KeyID      string // the id the snapshot was taken under (its bytes are rdbBytes(KeyID, Left, Size))
}

type span struct {
	from int64  // offsets >= from ...
	id   string // ... carry PRF(aof|id, offset)
}

type world struct {
	mu       sync.RWMutex
	ids      []string
	snaps    map[string][]snapRef
	minLeft  map[string]int64
	spans    map[string][]span // per id, ascending from; absent = the id's own PRF everywhere
	nameEnds map[string]nameEnd
}

func newWorld(ids []string, hs ...hist) *world {
	w := &world{ids: ids, snaps: map[string][]snapRef{}, minLeft: map[string]int64{}, spans: map[string][]span{}}
	for _, h := range hs {
		if h.ID == "" || h.Continues {
			continue
		}
		if h.RdbSize > 0 {
			w.snaps[h.ID] = append(w.snaps[h.ID], snapRef{h.RdbLeft, h.RdbSize, h.ID})
		}
		if m, ok := w.minLeft[h.ID]; !ok || h.LogLeft < m {
			w.minLeft[h.ID] = h.LogLeft
		}
	}
	return w
}

// continuation records a fail-over: newID continues oldID's history at offset at.
//
// Why the LABEL alone is not judged after a continuation: +CONTINUE <new id> does not start a second
// history, it renames one (PSYNC2: the old id stays valid up to the switch offset).  The leader itself
// keeps both parts under one id (SetRunId(new) relabels its whole cache, the bytes below the switch are
// the old id's).  A follower whose stream was opened before the switch and simply carries on stores the
// same bytes, contiguous, at the same offsets as the leader, under the label it opened the stream with;
// it learns the new label at its next handshake.  That is "the leader's cached stream at the same
// offsets".  So both labels stand for the ONE joined history (bytes are compared piecewise against
// it, contiguity and equality with the leader's cache as everywhere), and what remains forbidden is:
// bytes that are not the joined history's at their offsets (unrelated id, gap, shift, overlap), and a
// cache that lies entirely beyond the switch offset under the OLD label — the old id never named any of
// those offsets, so such a cache can only come from a request with the old id that was granted after the
// switch and answered from a newer position (the follower should have been turned away to re-handshake).
func (w *world) continuation(newID, oldID string, at int64) {
	w.mu.Lock()
	defer w.mu.Unlock()
	sp := append([]span(nil), w.spans[oldID]...)
	if len(sp) == 0 {
		sp = []span{{from: -1 << 62, id: oldID}}
	}
	joined := append(sp, span{from: at, id: newID})
	w.spans[newID], w.spans[oldID] = joined, joined
	all := append(append([]snapRef(nil), w.snaps[oldID]...), w.snaps[newID]...)
	w.snaps[newID], w.snaps[oldID] = all, all
	if m, ok := w.minLeft[oldID]; ok {
		w.minLeft[newID] = m
	}
	if w.nameEnds == nil {
		w.nameEnds = map[string]nameEnd{}
	}
	w.nameEnds[oldID] = nameEnd{at: at, next: newID}
}

type nameEnd struct {
	at   int64  // the source used this id up to (not including) offset at ...
	next string // ... and this one from there on
}

// joined: a and b name the same history (one continues the other).
func (w *world) joined(a, b string) bool {
	w.mu.RLock()
	defer w.mu.RUnlock()
	return w.nameEnds[a].next == b && b != "" || w.nameEnds[b].next == a && a != ""
}

func (w *world) nameEndOf(id string) (nameEnd, bool) {
	w.mu.RLock()
	defer w.mu.RUnlock()
	e, ok := w.nameEnds[id]
	return e, ok
}

func (w *world) spansOf(id string) []span {
	w.mu.RLock()
	defer w.mu.RUnlock()
	if sp := w.spans[id]; len(sp) > 0 {
		return sp
	}
	return []span{{from: -1 << 62, id: id}}
}

// keyAt: the PRF key of the history of id at offset off.
func (w *world) keyAt(id string, off int64) uint64 {
	sp := w.spansOf(id)
	k := aofKey(sp[0].id)
	for _, x := range sp {
		if off >= x.from {
			k = aofKey(x.id)
		}
	}
	return k
}

// aofDiff: index of the first byte of got that is not the byte of id's history at pos+i, or -1.
func (w *world) aofDiff(id string, got []byte, pos int64) int {
	sp := w.spansOf(id)
	for i, x := range sp {
		lo, hi := x.from, int64(1)<<62
		if i+1 < len(sp) {
			hi = sp[i+1].from
		}
		a, b := pos, pos+int64(len(got))
		if a < lo {
			a = lo
		}
		if b > hi {
			b = hi
		}
		if b <= a {
			continue
		}
		if d := firstDiff(got[a-pos:b-pos], aofKey(x.id), a); d >= 0 {
			return int(a-pos) + d
		}
	}
	return -1
}

func (w *world) snapsOf(id string) []snapRef {
	w.mu.RLock()
	defer w.mu.RUnlock()
	return append([]snapRef(nil), w.snaps[id]...)
}

func (w *world) snap(id string, left, size int64) (snapRef, bool) {
	for _, x := range w.snapsOf(id) {
		if x.Left == left && x.Size == size {
			return x, true
		}
	}
	return snapRef{}, false
}

func (w *world) hasSnap(id string, left, size int64) bool {
	_, ok := w.snap(id, left, size)
	return ok
}

func (w *world) minLeftOf(id string) (int64, bool) {
	w.mu.RLock()
	defer w.mu.RUnlock()
	m, ok := w.minLeft[id]
	return m, ok
}

// metaFindings: what can be judged from the declared state alone, at any instant.
func (w *world) metaFindings(s chanState, ctx string) []finding {
	var out []finding
	if s.ID == "" {
		return nil
	}
	// (a declared snapshot of size 0 claims no byte: counted by the caller, not judged)
	if s.RdbLeft >= 0 && s.RdbSize > 0 && !w.hasSnap(s.ID, s.RdbLeft, s.RdbSize) {
		out = append(out, finding{Sig: "snapshot-offset-not-leaders", What: fmt.Sprintf(
			"follower offers a snapshot (offset %d, size %d) under id %.8s, but no snapshot of that id exists at that offset (the id's snapshots: %v)",
			s.RdbLeft, s.RdbSize, s.ID, w.snapsOf(s.ID)), Detail: map[string]any{"where": ctx, "follower_declares": s, "snapshots_of_id": w.snapsOf(s.ID)}})
	}
	if m, ok := w.minLeftOf(s.ID); ok && s.Left >= 0 && s.Right >= s.Left && s.Left < m {
		out = append(out, finding{Sig: "declares-below-history", What: fmt.Sprintf(
			"follower declares [%d,%d] valid under id %.8s although nothing of that id exists below offset %d", s.Left, s.Right, s.ID, m),
			Detail: map[string]any{"where": ctx, "follower_declares": s}})
	}
	if e, ok := w.nameEndOf(s.ID); ok && s.Left > e.at && (s.Right > s.Left || s.RdbSize > 0) {
		out = append(out, finding{Sig: "two-ids-under-one-id", What: fmt.Sprintf(
			"follower keeps [%d,%d] under id %.8s, but the source stopped using that id at offset %d (continued as %.8s): the whole cache lies in the newer id's part of the history, filed under the old id",
			s.Left, s.Right, s.ID, e.at, e.next), Detail: map[string]any{"where": ctx, "follower_declares": s, "old_id_ends_at": e.at, "continued_as": e.next}})
	}
	return out
}

func (a *checkStats) add(b checkStats) {
	a.bytesCompared += b.bytesCompared
	a.leaderCompared += b.leaderCompared
	a.refusedSnapshot += b.refusedSnapshot
	a.refusedLog += b.refusedLog
	a.resumedReads += b.resumedReads
	a.spotReads += b.spotReads
	a.transientDropped += b.transientDropped
	a.midChecks += b.midChecks
	a.emptySnapshots += b.emptySnapshots
}

// checkFollower verifies everything the follower's channel declares valid under its current id:
// log range readable end to end, contiguous, byte == PRF(id, offset); offered snapshot complete and
// == PRF(id, left, i); and (when the leader holds the same id) byte-identical to the leader's copy.
// ids = every replication id used in the case (to tell whose bytes a mismatching run is).
func checkFollower(fc, lc syncer.Channel, fdir string, wd *world, rng *rand.Rand, ctx string, quiescent bool, st *checkStats) (s chanState, out []finding) {
	s = stateOf(fc)
	if s.ID == "" {
		return s, nil
	}
	ids := wd.ids
	stall := readStallTime
	if !quiescent {
		// the follower is working: only bytes actually served can be judged; refusals, short and
		// stalled reads are what a cache in motion legitimately shows
		stall = 400 * time.Millisecond
		defer func() {
			if now := stateOf(fc); now.ID != s.ID || now.RdbLeft != s.RdbLeft || now.RdbSize != s.RdbSize || now.Left != s.Left {
				// the cache was re-labelled or reset while it was being read (the disk backend opens
				// readers by offset only): what was read cannot be attributed to the sampled state
				st.transientDropped += len(out)
				for _, f := range out {
					fmt.Printf("DROPPED (state moved %v -> %v) %s: %s\n", s, now, f.Sig, f.What)
				}
				out = nil
			}
		}()
	}
	out = append(out, wd.metaFindings(s, ctx)...)
	// Side finding S3 (pkg/store/ds.go, not this property): dataSetRdb.Close() closes its readers and
	// writer while holding its own mutex, and their close observers (DelReader/DelWriter) take that
	// mutex again: resetting a disk cache (DelRunId, NewRdbWriter) while a snapshot reader is open
	// dead-locks the whole Storer.  The disk backend opens readers by offset only, so while Run() is
	// active any NewReader of the monitor may turn out to be a snapshot reader.  Hence, while the
	// follower is working, a disk cache is read back from its files (no lock taken, nothing
	// registered) and the leader's disk cache is not read at all; through the API only once the
	// follower has stopped.
	_, fDisk := fc.(*syncer.StoreChannel)
	_, lDisk := lc.(*syncer.StoreChannel)
	if !quiescent && lDisk {
		lc = nil
	}
	cur := s.ID
	if !quiescent && fDisk {
		if fdir != "" {
			out = append(out, diskFilesCheck(fdir, s, wd, ctx, st)...)
		}
		return s, out
	}
	whose := func(data []byte, at int, off int64) string {
		for _, o := range ids {
			if o != cur && matchesAt(data, at, aofKey(o), off, 32) {
				return o
			}
		}
		return ""
	}
	base := func() map[string]any {
		return map[string]any{"where": ctx, "follower_declares": s}
	}

	if s.Left >= 0 && s.Right > s.Left {
		n := s.Right - s.Left
		// read the whole declared range; a reader that stops making progress although the next
		// offset is covered by a stored segment is resumed at that offset (and counted): only the
		// bytes served and the structure decide, never the clock
		res := readAt(fc, cur, s.Left, n, stall)
		for res.openErr == nil && res.isAof && int64(len(res.data)) < n {
			p := s.Left + int64(len(res.data))
			if probeGap(fc, s, p, map[string]any{}) != nil {
				break
			}
			more := readAt(fc, cur, p, s.Right-p, stall)
			if more.openErr != nil || !more.isAof || len(more.data) == 0 {
				break
			}
			st.resumedReads++
			res.data = append(res.data, more.data...)
			res.err, res.stalled = more.err, more.stalled
		}
		switch {
		case res.openErr != nil:
			st.refusedLog++
			d := base()
			d["open_error"] = res.openErr.Error()
			// declared valid yet refused: a refusal serves no wrong byte; probe the structure instead
			if f := probeGap(fc, s, s.Left, d); f != nil && quiescent {
				out = append(out, *f)
			}
		case !res.isAof:
			// the declared left edge is served from the snapshot (left == snapshot offset and no log
			// segment covers it): nothing of the log to compare at this offset
		default:
			st.bytesCompared += int64(len(res.data))
			if i := wd.aofDiff(cur, res.data, s.Left); i >= 0 {
				off := s.Left + int64(i)
				key := wd.keyAt(cur, off)
				d := base()
				d["first_bad_offset"] = off
				d["got"] = hexSnippet(res.data, i, 24)
				d["expected"] = hexSnippet(prfBytes(key, off, 24), 0, 24)
				if o := whose(res.data, i, off); o != "" {
					d["bytes_belong_to_id"] = o
					out = append(out, finding{Sig: "two-ids-under-one-id", What: fmt.Sprintf(
						"follower declares offset %d valid under id %.8s but serves the bytes of id %.8s there", off, cur, o), Detail: d})
				} else if sh := shiftOf(res.data, i, key, off, s); sh != 0 {
					d["bytes_are_of_offset"] = off + sh
					out = append(out, finding{Sig: "non-contiguous", What: fmt.Sprintf(
						"follower's declared range [%d,%d] is not contiguous: at offset %d it serves the bytes of offset %d", s.Left, s.Right, off, off+sh), Detail: d})
				} else {
					out = append(out, finding{Sig: "bytes-differ", What: fmt.Sprintf(
						"follower serves a byte at offset %d under id %.8s that the leader's stream does not have there", off, cur), Detail: d})
				}
			} else if int64(len(res.data)) < n {
				p := s.Left + int64(len(res.data))
				d := base()
				d["served_up_to"] = p
				d["stalled"] = res.stalled
				if res.err != nil {
					d["read_error"] = res.err.Error()
				}
				if f := probeGap(fc, s, p, d); f != nil {
					if quiescent {
						out = append(out, *f)
					}
				} else {
					out = append(out, finding{Harness: true, Sig: "short-read", What: fmt.Sprintf(
						"%s: read of declared range [%d,%d] ended at %d without a structural explanation (stalled=%v err=%v)", ctx, s.Left, s.Right, p, res.stalled, res.err), Detail: d})
				}
			}
			// byte-identical to the leader's copy where both declare the offset
			if lid := ""; lc != nil && len(res.data) > 0 {
				lid = lc.RunId()
				if lid != cur && !wd.joined(lid, cur) {
					lid = ""
				}
				ll, lr := int64(-1), int64(-1)
				if lid != "" {
					ll, lr = lc.GetOffsetRange(lid)
				}
				a, b := s.Left, s.Left+int64(len(res.data))
				if ll > a {
					a = ll
				}
				if lr < b {
					b = lr
				}
				if ll >= 0 && b > a {
					lres := readAt(lc, lid, a, b-a, stall)
					if lres.openErr == nil && lres.isAof && int64(len(lres.data)) == b-a {
						st.leaderCompared += b - a
						fo := int(a - s.Left)
						same := bytes.Equal(lres.data, res.data[fo:fo+int(b-a)])
						for i := 0; i < int(b-a) && !same; i++ {
							if lres.data[i] != res.data[fo+i] {
								d := base()
								d["first_bad_offset"] = a + int64(i)
								d["leader"] = hexSnippet(lres.data, i, 24)
								d["follower"] = hexSnippet(res.data, fo+i, 24)
								if wd.aofDiff(cur, lres.data, a) >= 0 {
									out = append(out, finding{Harness: true, Sig: "leader-not-prf", What: ctx + ": the leader's own cache does not hold the fed bytes", Detail: d})
								} else if len(out) == 0 {
									out = append(out, finding{Sig: "differs-from-leader", What: fmt.Sprintf(
										"follower and leader hold different bytes at offset %d of id %.8s", a+int64(i), cur), Detail: d})
								}
								break
							}
						}
					}
				}
			}
			// any offset inside the declared range must be a valid start and serve the same bytes
			for k := 0; k < 3 && len(out) == 0 && n > 2; k++ {
				o := s.Left + 1 + rng.Int63n(n-1)
				if !fc.IsValidOffset(syncer.Offset{RunId: cur, Offset: o}) {
					continue // a refusal is not a wrong byte
				}
				m := s.Right - o
				if m > 1500 {
					m = 1500
				}
				sr := readAt(fc, cur, o, m, stall)
				st.spotReads++
				if sr.openErr != nil || !sr.isAof {
					continue
				}
				st.bytesCompared += int64(len(sr.data))
				if i := wd.aofDiff(cur, sr.data, o); i >= 0 {
					d := base()
					d["reader_from"] = o
					d["first_bad_offset"] = o + int64(i)
					d["got"] = hexSnippet(sr.data, i, 24)
					sig := "bytes-differ"
					if w := whose(sr.data, i, o+int64(i)); w != "" {
						sig = "two-ids-under-one-id"
						d["bytes_belong_to_id"] = w
					}
					out = append(out, finding{Sig: sig, What: fmt.Sprintf(
						"a reader opened at valid offset %d of id %.8s serves foreign bytes at %d", o, cur, o+int64(i)), Detail: d})
				}
			}
		}
	}

	// an offered snapshot must be complete and the leader's
	if s.RdbLeft >= 0 && s.RdbSize == 0 {
		st.emptySnapshots++
	}
	if s.RdbLeft >= 0 && s.RdbSize > 0 {
		res := readAt(fc, cur, s.RdbLeft-1, s.RdbSize, stall)
		switch {
		case res.openErr != nil:
			st.refusedSnapshot++ // declared, but nothing is served: fail-safe
		case res.isAof:
			// a log segment covers the offset below the snapshot: the snapshot is not what is served
		case !quiescent && (res.left != s.RdbLeft || res.size != s.RdbSize):
			// the reader is one of a newer snapshot than the sampled declaration
		default:
			st.bytesCompared += int64(len(res.data))
			ref, _ := wd.snap(cur, s.RdbLeft, s.RdbSize) // unknown (offset,size): judged by metaFindings; bytes vs the id's own
			if ref.KeyID == "" {
				ref = snapRef{s.RdbLeft, s.RdbSize, cur}
			}
			d := base()
			if i := diffBytes(res.data, rdbBytes(ref.KeyID, ref.Left, ref.Size)); i >= 0 {
				d["first_bad_snapshot_byte"] = i
				d["got"] = hexSnippet(res.data, i, 24)
				sig, what := "snapshot-bytes-differ", fmt.Sprintf("follower's snapshot at %d of id %.8s differs from the leader's at byte %d", s.RdbLeft, cur, i)
				for _, o := range ids {
					if o != cur && matchesAt(res.data, i, rdbKey(o, s.RdbLeft), int64(i), 32) {
						sig, what = "two-ids-under-one-id", fmt.Sprintf("follower offers under id %.8s the snapshot bytes of id %.8s", cur, o)
						d["bytes_belong_to_id"] = o
					}
				}
				for _, x := range wd.snapsOf(cur) {
					if x.Left != s.RdbLeft && matchesAt(res.data, i, rdbKey(x.KeyID, x.Left), int64(i), 32) {
						sig, what = "snapshot-of-another-offset", fmt.Sprintf(
							"follower offers a snapshot at offset %d of id %.8s whose bytes are the id's snapshot taken at offset %d", s.RdbLeft, cur, x.Left)
						d["bytes_are_snapshot_of_offset"] = x.Left
					}
				}
				out = append(out, finding{Sig: sig, What: what, Detail: d})
			} else if int64(len(res.data)) < s.RdbSize {
				d["snapshot_bytes_held"] = len(res.data)
				d["stalled"] = res.stalled
				if res.err != nil {
					d["read_error"] = res.err.Error()
				}
				if !quiescent {
					// a snapshot in transfer is legitimately shorter than announced
				} else {
					// (after Run() has returned nothing writes the snapshot any more: a reader that
					// stops short of the declared size, by error or by waiting for bytes that cannot
					// come, shows the same fact — fewer bytes are held than are offered)
					out = append(out, finding{Sig: "incomplete-snapshot-offered", What: fmt.Sprintf(
						"GetRdb offers snapshot (%d,%d) of id %.8s and a reader serves it, but only %d bytes of it are held", s.RdbLeft, s.RdbSize, cur, len(res.data)), Detail: d})
				}
			}
		}
	}
	return s, out
}

// diskFilesCheck reads what a disk cache holds for its declared state straight from the files of
// <dir>/<run id>/ : <left>.aof = 16-byte header + the log bytes from offset <left>;
// <left>_<size>.rdb(.tmp) = the snapshot taken at <left>.  Only files backing the declared range /
// snapshot are judged, only bytes present (files in the making are prefixes).
func diskFilesCheck(dir string, s chanState, wd *world, ctx string, st *checkStats) []finding {
	var out []finding
	d := filepath.Join(dir, s.ID)
	ents, err := os.ReadDir(d)
	if err != nil {
		return nil
	}
	base := func() map[string]any {
		return map[string]any{"where": ctx + " (files)", "follower_declares": s}
	}
	for _, e := range ents {
		name := e.Name()
		switch {
		case strings.HasSuffix(name, ".aof") && s.Left >= 0 && s.Right > s.Left:
			left, err := strconv.ParseInt(strings.TrimSuffix(name, ".aof"), 10, 64)
			if err != nil {
				continue
			}
			b, err := os.ReadFile(filepath.Join(d, name))
			if err != nil || len(b) <= 16 {
				continue
			}
			b = b[16:]
			a, z := left, left+int64(len(b))
			if a < s.Left {
				a = s.Left
			}
			if z > s.Right {
				z = s.Right
			}
			if z <= a {
				continue
			}
			seg := b[a-left : z-left]
			st.bytesCompared += int64(len(seg))
			if i := wd.aofDiff(s.ID, seg, a); i >= 0 {
				off := a + int64(i)
				dd := base()
				dd["file"], dd["first_bad_offset"], dd["got"] = name, off, hexSnippet(seg, i, 24)
				sig, what := "bytes-differ", fmt.Sprintf("follower stores in %s a byte at offset %d of id %.8s that the leader's stream does not have there", name, off, s.ID)
				for _, o := range wd.ids {
					if o != s.ID && matchesAt(seg, i, aofKey(o), off, 32) {
						sig, what = "two-ids-under-one-id", fmt.Sprintf("follower stores under id %.8s, at declared-valid offset %d, the bytes of id %.8s", s.ID, off, o)
						dd["bytes_belong_to_id"] = o
					}
				}
				out = append(out, finding{Sig: sig, What: what, Detail: dd})
			}
		case s.RdbLeft >= 0 && (name == fmt.Sprintf("%d_%d.rdb", s.RdbLeft, s.RdbSize) || name == fmt.Sprintf("%d_%d.rdb.tmp", s.RdbLeft, s.RdbSize)):
			b, err := os.ReadFile(filepath.Join(d, name))
			if err != nil || len(b) == 0 {
				continue
			}
			if int64(len(b)) > s.RdbSize {
				b = b[:s.RdbSize]
			}
			st.bytesCompared += int64(len(b))
			ref, _ := wd.snap(s.ID, s.RdbLeft, s.RdbSize)
			if ref.KeyID == "" {
				ref = snapRef{s.RdbLeft, s.RdbSize, s.ID}
			}
			if i := diffBytes(b, rdbBytes(ref.KeyID, ref.Left, ref.Size)); i >= 0 {
				dd := base()
				dd["file"], dd["first_bad_snapshot_byte"], dd["got"] = name, i, hexSnippet(b, i, 24)
				sig, what := "snapshot-bytes-differ", fmt.Sprintf("follower's snapshot at %d of id %.8s differs from the leader's at byte %d", s.RdbLeft, s.ID, i)
				for _, o := range wd.ids {
					if o != s.ID && matchesAt(b, i, rdbKey(o, s.RdbLeft), int64(i), 32) {
						sig, what = "two-ids-under-one-id", fmt.Sprintf("follower stores under id %.8s the snapshot bytes of id %.8s", s.ID, o)
					}
				}
				for _, x := range wd.snapsOf(s.ID) {
					if x.Left != s.RdbLeft && matchesAt(b, i, rdbKey(x.KeyID, x.Left), int64(i), 32) {
						sig, what = "snapshot-of-another-offset", fmt.Sprintf(
							"follower stores a snapshot at offset %d of id %.8s whose bytes are the id's snapshot taken at offset %d", s.RdbLeft, s.ID, x.Left)
						dd["bytes_are_snapshot_of_offset"] = x.Left
					}
				}
				out = append(out, finding{Sig: sig, What: what, Detail: dd})
			}
		}
	}
	return out
}

// shiftOf: does the mismatching run equal the stream of the same id at another offset (a later
// segment glued on)?  Candidates: any offset up to 64 MiB ahead aligned on what a leader could send is
// unknowable, so try the distances to the declared right edge and a window of small shifts.
func shiftOf(data []byte, at int, key uint64, off int64, s chanState) int64 {
	if len(data)-at < 8 {
		return 0
	}
	for sh := int64(1); sh <= 1<<16; sh++ {
		if prfByte(key, off+sh) == data[at] && matchesAt(data, at, key, off+sh, 24) {
			return sh
		}
	}
	return 0
}

// probeGap decides, from the channel's own answers and without a clock, whether position p inside
// the declared range is backed by a segment: the channel calls p+1 valid but cannot open a reader
// there (no segment covers it) => the declared range has a hole.
func probeGap(fc syncer.Channel, s chanState, p int64, d map[string]any) *finding {
	for _, q := range []int64{p + 1, p + 2, (p + s.Right) / 2} {
		if q <= s.Left || q >= s.Right {
			continue
		}
		if !fc.IsValidOffset(syncer.Offset{RunId: s.ID, Offset: q}) {
			continue
		}
		rd, err := fc.NewReader(syncer.Offset{RunId: s.ID, Offset: q})
		if err != nil {
			d["hole_at"] = q
			d["open_error_at_hole"] = err.Error()
			return &finding{Sig: "non-contiguous", What: fmt.Sprintf(
				"follower declares [%d,%d] valid under id %.8s but no stored segment covers offset %d (data ends at %d)", s.Left, s.Right, s.ID, q, p), Detail: d}
		}
		w := usync.NewWaitCloser(nil)
		rd.Start(w)
		w.Close(nil)
		rd.Close()
		w.WgWait()
	}
	return nil
}
