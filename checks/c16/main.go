// C16 — a follower's cache is a faithful copy of the leader's stream.
//
// Observed system: a real syncer.ReplicaLeader behind a real gRPC server on loop-back whose Sync
// handler does what syncer.ServiceReplica does (the stream is wrapped: every message is logged and
// a transfer can be cut after message k), a real syncer.ReplicaFollower.Run(), and both sides'
// Channels (disk StoreChannel and MemoryChannel, all four combinations).  Both caches are fed with
// PRF(run-id, offset) bytes through the writer calls RedisInput makes (DelRunId/SetRunId,
// NewRdbWriter Start/Wait/Close, NewAofWritter Start over one *bufio.Reader), so every byte read
// back identifies the history and offset it belongs to.
//
// Histories (per side): E empty · P snapshot+short log of id X · Q the same history further ·
// C log only, older positions gone, no snapshot · CS newer snapshot + log · O another id Y reaching
// beyond every X state · OL id Y below every X state · G (leader) Q grown and then trimmed by the
// cache's own collector · E as leader = no cache yet, takes a full resynchronisation (> 10 MiB ahead)
// while the follower is connected.  Follower caches are either the object already used in this
// process (current id set: a node that was leader/follower before) or a fresh object over the same
// directory (process restart; disk only).
// Scenarios: plain (+ live appends in bursts of 1..9000 bytes while the follower streams) · cut of
// transfer RPC x after k messages, then Stop + inspect + a new follower over the same cache (as
// syncer.run does), or left to the follower's own 3 s retry · leader restarted under another id
// between handshake and meta sync, or once the follower has caught up · leader stopped for exactly
// the first meta-sync RPC.
//
// Further states/scenarios: S/BA/BB — the same history differing by exactly the follower's 10 MiB
// gap threshold (+1 byte / +0), follower ahead and behind (caches > 10 MiB written in 256 KiB pieces);
// switchrdb — the leader restarts under another id while the follower downloads its snapshot (all
// backends since the S3 dead-lock was repaired in the repository; VERIF_C16_NO_S3=1 leaves the
// disk leaders out).
//
// Intermediate states: the sampler judges every declared state from the declaration alone (snapshot
// (offset,size) must be a snapshot of that id; range not below the id's history; not beyond what the
// leader was fed) and hands every distinct one to a state checker that reads its bytes back while
// Run() is active (memory: through the API, bytes actually served only; disk: from the cache's files,
// because an API reader may be a snapshot reader and those dead-lock a cache reset — S3).  A result
// is dropped when the declaration moved while it was being read.  Progress: livelockRounds identical
// sync rounds (same request, same answer) against an unchanged leader end the wait with the verdict
// sync-livelock; 4 sessions without storing anything of a healthy leader = no-resync.
//
// Oracle (oracle.go): whenever inspected — once while Run() is active and idle, after a cut, after
// Stop — everything the follower's channel declares valid under its current id must read back, end
// to end, as PRF(id, offset) (log) / PRF(id, left, i) (snapshot, complete), equal the leader's copy
// where both hold the offset, with no hole in the declared range; a metadata sampler checks during
// Run() that the follower never declares more of the leader's id than the leader was ever fed; a
// follower ahead of the leader must get ErrLeaderTakeover from Run() with an unchanged cache; a
// follower that faces a healthy leader through 4 sessions without storing anything of it has not
// resynchronised.  Refusals (reader cannot be opened) are counted, not alarmed.  Waits end on
// logical events (declared right edge == bytes fed to the leader, Run returned, cut fired, 4
// handshakes, everything delivered and no new session); the wall-clock watchdog is inconclusive.
package main

import (
	"encoding/json"
	"errors"
	"fmt"
	"math/rand"
	"os"
	"path/filepath"
	"sort"
	"strconv"
	"strings"
	"sync"
	"sync/atomic"
	"time"

	"verif/internal/harness"

	"github.com/mgtv-tech/redis-GunYu/config"
	"github.com/mgtv-tech/redis-GunYu/pkg/cluster"
	"github.com/mgtv-tech/redis-GunYu/syncer"
)

const (
	scPlain      = "plain"
	scCut        = "cut"          // cut, stop the follower, inspect, start a new follower on the same cache
	scCutRetry   = "cutretry"     // cut and let the follower's own retry loop recover
	// cut; while no follower request is served the leader takes in more than its size limit, so that
	// the position the follower stands at is collected; then requests are served again and the
	// follower's own retry has to cope with a leader that relocates its request to the newest offset
	scCutCollect = "cutcollect"
	scSwitch2    = "switch2"      // leader restarts under another id between handshake and meta sync
	scSwitchLate = "switchlate"   // leader restarts under another id once the follower has caught up
	scFailover2  = "failover2"    // the source fails over (+CONTINUE <new id>) between the follower's handshake and its data request
	scFailoverX1 = "failoverx1"   // ... between the snapshot transfer and the follower's next request
	scFailoverLt = "failoverlate" // ... once the follower has caught up
	scSwitchRdb  = "switchrdb"    // leader restarts under another id while the follower downloads its snapshot
	scBounce     = "bounce"       // leader stopped for exactly the first meta-sync RPC
)

// ReplicaFollower.preSync drops the cache when it is more than this far behind the leader
const gapThreshold = 10 * 1024 * 1024

var stateNames = []string{"E", "P", "Q", "C", "CS", "O", "OL"}

type caseSpec struct {
	Key       string   `json:"key"`
	L         string   `json:"leader_state"`
	F         string   `json:"follower_state"`
	BL        string   `json:"leader_backend"`
	BF        string   `json:"follower_backend"`
	Proc      string   `json:"follower_process"` // same: cache object already used in this process; fresh: new object over the directory
	Scn       string   `json:"scenario"`
	CutXfer   int      `json:"cut_transfer_rpc"`
	CutK      int      `json:"cut_after_msgs"`
	SwitchLow bool     `json:"switch_low"`
	Variant   int      `json:"variant"`
	LogSizeL  int64    `json:"log_size_leader"`
	LogSizeF  int64    `json:"log_size_follower"`
	MaxSizeL  int64    `json:"max_size_leader,omitempty"`
	LH        hist     `json:"leader_history"`
	FH        hist     `json:"follower_history"`
	ZH        hist     `json:"switch_history"`
	IDs       []string `json:"ids"`
	Bursts    []int64  `json:"live_bursts"`
	Crc       bool     `json:"verify_crc"` // run in the phase with channel.verifyCrc = true (process-wide setting)
	weight    int
}

// histories on a common time line of id X, plus another id Y.  j = per-case jitter.
func mkHist(name, idX, idY string, j int64) hist {
	// "Q+n": the Q history with a small lead of n bytes
	if strings.HasPrefix(name, "Q+") {
		n, _ := strconv.ParseInt(name[2:], 10, 64)
		h := mkHist("Q", idX, idY, j)
		h.Name, h.LogRight = name, h.LogRight+n
		return h
	}
	switch name {
	case "P": // snapshot + short log
		return hist{Name: name, ID: idX, RdbLeft: 1000 + j, RdbSize: 20000, LogLeft: 1000 + j, LogRight: 13000 + j}
	case "Q": // the same history, further
		return hist{Name: name, ID: idX, RdbLeft: 1000 + j, RdbSize: 20000, LogLeft: 1000 + j, LogRight: 29000 + j}
	case "C": // older positions collected, no snapshot
		return hist{Name: name, ID: idX, RdbLeft: -1, LogLeft: 17000 + j, LogRight: 37000 + j}
	case "CS": // older positions collected, newer snapshot
		return hist{Name: name, ID: idX, RdbLeft: 45000 + j, RdbSize: 16000, LogLeft: 45000 + j, LogRight: 57000 + j}
	case "O": // another id, reaching beyond every X state
		return hist{Name: name, ID: idY, RdbLeft: 500 + j, RdbSize: 9000, LogLeft: 500 + j, LogRight: 70000 + j}
	case "R": // leader only: the source's run id adopted, cache voided, new log writer got no byte
		return hist{Name: name, ID: idX, RdbLeft: -1, LogLeft: -1, LogRight: -1, IDOnly: true, Voided: 5000 + j}
	case "R0": // leader only: run id adopted, no writer yet
		return hist{Name: name, ID: idX, RdbLeft: -1, LogLeft: -1, LogRight: -1, IDOnly: true}
	case "S": // short history of X (for the 10 MiB threshold cases)
		return hist{Name: name, ID: idX, RdbLeft: 1000 + j, RdbSize: 20000, LogLeft: 1000 + j, LogRight: 3000 + j}
	case "BA": // the same history, more than 10 MiB (the follower's gap threshold) further than S: by one byte
		return hist{Name: name, ID: idX, RdbLeft: 1000 + j, RdbSize: 20000, LogLeft: 1000 + j, LogRight: 3000 + j + gapThreshold + 1}
	case "BB": // exactly the threshold further than S (not above it)
		return hist{Name: name, ID: idX, RdbLeft: 1000 + j, RdbSize: 20000, LogLeft: 1000 + j, LogRight: 3000 + j + gapThreshold}
	case "G": // leader only: the Q history grown further, then older positions removed by the cache's collector
		return hist{Name: name, ID: idX, RdbLeft: 1000 + j, RdbSize: 20000, LogLeft: 1000 + j, LogRight: 41000 + j}
	case "OL": // another id, below every X state
		return hist{Name: name, ID: idY, RdbLeft: 300, RdbSize: 5000, LogLeft: 300, LogRight: 700 + j%200}
	}
	return hist{Name: "E", RdbLeft: -1}
}

func buildCases(r *harness.Run) []*caseSpec {
	var cases []*caseSpec
	combos := [][2]string{{backendDisk, backendDisk}, {backendDisk, backendMem}, {backendMem, backendDisk}, {backendMem, backendMem}}
	variants := r.N(1, 6)
	add := func(c caseSpec) {
		key := fmt.Sprintf("L=%s/F=%s/%s-%s/%s/%s", c.L, c.F, c.BL, c.BF, c.Proc, c.Scn)
		switch c.Scn {
		case scCut, scCutRetry, scCutCollect:
			key += fmt.Sprintf(":x%d:k%d", c.CutXfer, c.CutK)
		case scSwitch2, scSwitchLate, scSwitchRdb:
			if c.SwitchLow {
				key += ":low"
			} else {
				key += ":high"
			}
		}
		key += fmt.Sprintf("/v%d", c.Variant)
		if c.Crc {
			key += "/crc"
		}
		c.Key = key
		rng := r.Rand("case|" + key)
		j := int64(rng.Intn(400))
		idX, idY, idZ := runID(key+"|X"), runID(key+"|Y"), runID(key+"|Z")
		c.IDs = []string{idX, idY, idZ}
		c.LH, c.FH = mkHist(c.L, idX, idY, j), mkHist(c.F, idX, idY, j)
		if c.L == "E" {
			// the leader starts without a cache and takes a full resynchronisation of X far ahead
			// (more than the follower's 10 MiB gap threshold) while the follower is connected
			c.LH = hist{Name: "E"}
			c.ZH = hist{Name: "E-live", ID: idX, RdbLeft: 30000000 + j, RdbSize: 24000, LogLeft: 30000000 + j, LogRight: 30000000 + j + 6000}
		}
		if c.Scn == scSwitchRdb && c.BL == backendDisk {
			// larger than the disk reader's pipe and buffer (2 MiB): the leader's snapshot reader is
			// still open when the restart resets the cache
			c.LH.RdbSize = 3 << 20
		}
		if c.Scn == scSwitch2 || c.Scn == scSwitchLate || c.Scn == scSwitchRdb {
			if c.SwitchLow { // new id whose positions lie inside what an X follower already holds
				c.ZH = hist{Name: "Z-low", ID: idZ, RdbLeft: 2000 + j, RdbSize: 8000, LogLeft: 2000 + j, LogRight: 7000 + j}
			} else {
				c.ZH = hist{Name: "Z-high", ID: idZ, RdbLeft: 90000 + j, RdbSize: 8000, LogLeft: 90000 + j, LogRight: 95000 + j}
			}
		}
		if c.Scn == scFailover2 || c.Scn == scFailoverX1 || c.Scn == scFailoverLt {
			c.ZH = hist{Name: "Z-continues", ID: idZ, Continues: true}
		}
		sizes := []int64{4096, 10000, 1 << 20}
		c.LogSizeL, c.LogSizeF = sizes[rng.Intn(3)], sizes[rng.Intn(3)]
		if c.L == "G" || c.Scn == scCutCollect {
			c.LogSizeL, c.MaxSizeL = 4096, 30000
		}
		if strings.HasPrefix(c.L, "B") || strings.HasPrefix(c.F, "B") {
			c.LogSizeL, c.LogSizeF = 4<<20, 3<<20
		}
		burst := []int64{1, 17, 700, 4095, 4096, 4097, 9000}
		nb := 3
		if c.Crc && !strings.HasPrefix(c.L, "B") {
			// the leader's log must rotate, several times, while the follower is tailing it
			c.LogSizeL = 4096
			burst, nb = []int64{700, 3000, 4097, 6000, 9000, 9000}, 5
		}
		for i := 0; i < nb; i++ {
			c.Bursts = append(c.Bursts, burst[rng.Intn(len(burst))])
		}
		// slow cases first
		switch {
		case strings.HasPrefix(c.L, "B") || strings.HasPrefix(c.F, "B"):
			c.weight = 5
		case c.L == "E" || c.L == "R" || c.L == "R0":
			c.weight = 3
		case c.Scn == scFailover2 || c.Scn == scFailoverX1 || c.Scn == scFailoverLt || c.Scn == scSwitchRdb || c.Scn == scCutRetry || c.Scn == scCutCollect || c.Scn == scSwitch2 || c.Scn == scSwitchLate || c.Scn == scBounce:
			c.weight = 2
		case c.F == "O" || c.L == "OL":
			c.weight = 4
		}
		cc := c
		cases = append(cases, &cc)
	}
	for v := 0; v < variants; v++ {
		// A. every pair of states, every backend combination
		for _, l := range stateNames {
			for _, f := range stateNames {
				for _, cb := range combos {
					add(caseSpec{L: l, F: f, BL: cb[0], BF: cb[1], Proc: "same", Scn: scPlain, Variant: v})
					if cb[1] == backendDisk && f != "E" {
						add(caseSpec{L: l, F: f, BL: cb[0], BF: cb[1], Proc: "fresh", Scn: scPlain, Variant: v})
					}
				}
			}
		}
		// A'. positions collected at the leader by the cache's own collector
		for _, f := range []string{"E", "P", "Q", "C", "O"} {
			for _, cb := range combos {
				add(caseSpec{L: "G", F: f, BL: cb[0], BF: cb[1], Proc: "same", Scn: scPlain, Variant: v})
			}
		}
		// A+. a leader that carries the source's run id but has not cached a byte yet: every
		// follower holding data of that id is ahead of it
		for _, cb := range combos {
			for _, f := range []string{"C", "P", "Q", "E", "O"} {
				add(caseSpec{L: "R", F: f, BL: cb[0], BF: cb[1], Proc: "same", Scn: scPlain, Variant: v})
				if cb[1] == backendDisk && (f == "C" || f == "P" || f == "Q") {
					add(caseSpec{L: "R", F: f, BL: cb[0], BF: cb[1], Proc: "fresh", Scn: scPlain, Variant: v})
				}
			}
			for _, f := range []string{"C", "Q"} {
				add(caseSpec{L: "R0", F: f, BL: cb[0], BF: cb[1], Proc: "same", Scn: scPlain, Variant: v})
			}
			if v < r.N(1, 2) && (cb[0] == cb[1] || !r.Quick()) {
				add(caseSpec{L: "R", F: "BA", BL: cb[0], BF: cb[1], Proc: "same", Scn: scPlain, Variant: v})
			}
		}
		// A-. small leads: the follower holds 1 .. 4097 bytes more than the leader (around the 4 KiB
		// chunk the leader sends).  Each case draws its parameters from its own stream (keyed by the
		// case key), so adding these does not shift the existing mix.
		for _, lead := range []int{1, 7, 100, 4095, 4096, 4097} {
			f := fmt.Sprintf("Q+%d", lead)
			for _, cb := range combos {
				add(caseSpec{L: "Q", F: f, BL: cb[0], BF: cb[1], Proc: "same", Scn: scPlain, Variant: v})
				if cb[1] == backendDisk {
					add(caseSpec{L: "Q", F: f, BL: cb[0], BF: cb[1], Proc: "fresh", Scn: scPlain, Variant: v})
				}
			}
		}
		// A''. the 10 MiB gap threshold, crossed in both directions, follower ahead and behind
		bigCombos := [][2]string{{backendDisk, backendDisk}, {backendMem, backendMem}}
		if !r.Quick() {
			bigCombos = combos
		}
		if v < r.N(1, 2) {
			for _, p := range [][2]string{{"S", "BA"}, {"S", "BB"}, {"BA", "S"}, {"BB", "S"}} {
				for _, cb := range bigCombos {
					add(caseSpec{L: p[0], F: p[1], BL: cb[0], BF: cb[1], Proc: "same", Scn: scPlain, Variant: v})
					if cb[1] == backendDisk && p[0] == "S" && (p[1] == "BA" || !r.Quick()) {
						add(caseSpec{L: p[0], F: p[1], BL: cb[0], BF: cb[1], Proc: "fresh", Scn: scPlain, Variant: v})
					}
				}
			}
		}
		// B. a cut at every message of small transfers
		cutPairs := [][2]string{{"Q", "P"}, {"CS", "P"}, {"Q", "E"}, {"C", "P"}}
		if !r.Quick() {
			cutPairs = append(cutPairs, [2]string{"CS", "C"}, [2]string{"CS", "E"}, [2]string{"O", "OL"}, [2]string{"Q", "Q"}, [2]string{"CS", "O"})
		}
		for _, p := range cutPairs {
			for _, cb := range combos {
				for k := 0; k <= r.N(6, 8); k++ {
					add(caseSpec{L: p[0], F: p[1], BL: cb[0], BF: cb[1], Proc: "same", Scn: scCut, CutXfer: 0, CutK: k, Variant: v})
				}
				if p[0] == "CS" { // the log transfer that follows the snapshot
					for k := 0; k <= r.N(2, 4); k++ {
						add(caseSpec{L: p[0], F: p[1], BL: cb[0], BF: cb[1], Proc: "same", Scn: scCut, CutXfer: 1, CutK: k, Variant: v})
					}
				}
				ks := []int{1, 3}
				if !r.Quick() {
					ks = []int{0, 1, 2, 3, 4, 5}
				}
				if p[1] == "P" {
					for _, k := range ks {
						add(caseSpec{L: p[0], F: p[1], BL: cb[0], BF: cb[1], Proc: "same", Scn: scCutRetry, CutXfer: 0, CutK: k, Variant: v})
					}
					for _, k := range ks {
						add(caseSpec{L: p[0], F: p[1], BL: cb[0], BF: cb[1], Proc: "same", Scn: scCutCollect, CutXfer: 0, CutK: k + 1, Variant: v})
					}
				}
			}
		}
		// C. leader restarts inside one follower session
		for _, cb := range combos {
			for _, low := range []bool{true, false} {
				for _, f := range []string{"E", "P", "Q"} {
					add(caseSpec{L: "Q", F: f, BL: cb[0], BF: cb[1], Proc: "same", Scn: scSwitch2, SwitchLow: low, Variant: v})
				}
				for _, f := range []string{"E", "P"} {
					add(caseSpec{L: "Q", F: f, BL: cb[0], BF: cb[1], Proc: "same", Scn: scSwitchLate, SwitchLow: low, Variant: v})
				}
			}
			// (a disk leader dead-locked here before side finding S3 was repaired)
			if cb[0] == backendMem || os.Getenv("VERIF_C16_NO_S3") == "" {
				for _, low := range []bool{true, false} {
					for _, f := range []string{"P", "C"} {
						add(caseSpec{L: "CS", F: f, BL: cb[0], BF: cb[1], Proc: "same", Scn: scSwitchRdb, SwitchLow: low, Variant: v})
					}
				}
			}
			// D. the source fails over and continues under a new id ([new, old] reported by the input)
			for _, f := range []string{"E", "P", "Q"} {
				add(caseSpec{L: "Q", F: f, BL: cb[0], BF: cb[1], Proc: "same", Scn: scFailover2, Variant: v})
			}
			for _, f := range []string{"P", "C"} {
				add(caseSpec{L: "CS", F: f, BL: cb[0], BF: cb[1], Proc: "same", Scn: scFailoverX1, Variant: v})
			}
			for _, f := range []string{"E", "P"} {
				add(caseSpec{L: "Q", F: f, BL: cb[0], BF: cb[1], Proc: "same", Scn: scFailoverLt, Variant: v})
			}
			add(caseSpec{L: "Q", F: "P", BL: cb[0], BF: cb[1], Proc: "same", Scn: scBounce, Variant: v})
			add(caseSpec{L: "CS", F: "P", BL: cb[0], BF: cb[1], Proc: "same", Scn: scBounce, Variant: v})
		}
	}
	// E. the same kinds of session with channel.verifyCrc on (disk leader, log rotating under the
	// follower's live tail): run as a second phase, the setting is process-wide
	for v := 0; v < r.N(1, 3); v++ {
		for _, bf := range []string{backendDisk, backendMem} {
			for _, l := range []string{"P", "Q", "C", "CS", "G"} {
				for _, f := range []string{"E", "P", "Q", "C"} {
					add(caseSpec{L: l, F: f, BL: backendDisk, BF: bf, Proc: "same", Scn: scPlain, Variant: v, Crc: true})
				}
			}
			for _, f := range []string{"E", "P"} {
				add(caseSpec{L: "E", F: f, BL: backendDisk, BF: bf, Proc: "same", Scn: scPlain, Variant: v, Crc: true})
			}
			for _, p := range [][2]string{{"Q", "P"}, {"CS", "P"}} {
				for _, k := range []int{1, 3} {
					add(caseSpec{L: p[0], F: p[1], BL: backendDisk, BF: bf, Proc: "same", Scn: scCut, CutK: k, Variant: v, Crc: true})
				}
				add(caseSpec{L: p[0], F: p[1], BL: backendDisk, BF: bf, Proc: "same", Scn: scCutRetry, CutK: 2, Variant: v, Crc: true})
			}
			add(caseSpec{L: "Q", F: "P", BL: backendDisk, BF: bf, Proc: "same", Scn: scSwitch2, SwitchLow: false, Variant: v, Crc: true})
			add(caseSpec{L: "Q", F: "P", BL: backendDisk, BF: bf, Proc: "same", Scn: scSwitchLate, SwitchLow: true, Variant: v, Crc: true})
			add(caseSpec{L: "CS", F: "P", BL: backendDisk, BF: bf, Proc: "same", Scn: scSwitchRdb, SwitchLow: false, Variant: v, Crc: true})
			add(caseSpec{L: "Q", F: "P", BL: backendDisk, BF: bf, Proc: "same", Scn: scFailover2, Variant: v, Crc: true})
			add(caseSpec{L: "Q", F: "E", BL: backendDisk, BF: bf, Proc: "same", Scn: scFailoverLt, Variant: v, Crc: true})
			add(caseSpec{L: "S", F: "BB", BL: backendDisk, BF: bf, Proc: "same", Scn: scPlain, Variant: v, Crc: true})
		}
	}
	sort.SliceStable(cases, func(i, j int) bool { return cases[i].weight > cases[j].weight })
	return cases
}

func main() {
	r := harness.New("C16", "exploration",
		"distinct (leader state, follower state, leader backend, follower backend, transfer kind, outcome class)")
	r.Watchdog(time.Duration(r.N(600, 3000)) * time.Second)
	tmp, err := initEnv()
	if err != nil {
		r.Inconclusive("environment: %v", err)
		r.Exit()
	}
	defer os.RemoveAll(tmp)
	r.Assume("the leader's Input is a stub (Id, RunIds); its cache is fed through the same Channel writer calls RedisInput makes")
	r.Assume("a gRPC handler error after k messages stands for a connection cut after message k")
	r.MinDistinct(r.N(20, 40))

	cases := buildCases(r)
	var sel []*caseSpec
	for _, c := range cases {
		if r.WantCase(c.Key) {
			sel = append(sel, c)
		}
	}
	fmt.Printf("C16: %d cases (tier %s, seed %d)\n", len(sel), r.Tier, r.Seed)
	var mu sync.Mutex
	doneN := 0
	// channel.verifyCrc is one process-wide setting read whenever a disk cache opens a reader: the
	// cases that want it on run as a second phase, after every case of the first has been torn down
	for phase, crc := range []bool{false, true} {
		var part []*caseSpec
		for _, c := range sel {
			if c.Crc == crc {
				part = append(part, c)
			}
		}
		if len(part) == 0 {
			continue
		}
		config.GetSyncerConfig().Channel.VerifyCrc = crc
		r.Count(fmt.Sprintf("cases_verify_crc_%v", crc), int64(len(part)))
		harness.Parallel(len(part), 48, func(i int) {
			runCase(r, part[i], filepath.Join(tmp, fmt.Sprintf("p%dc%04d", phase, i)))
			mu.Lock()
			doneN++
			if doneN%100 == 0 {
				fmt.Printf("C16: %d/%d cases done\n", doneN, len(sel))
			}
			mu.Unlock()
		})
	}
	code := r.Finish()
	os.RemoveAll(tmp)
	os.Exit(code)
}

type follHandle struct {
	rf   *syncer.ReplicaFollower
	done chan error
	err  error
	ret  bool
}

type traceEntry struct {
	At    string    `json:"at"`
	State chanState `json:"follower"`
}

type caseRun struct {
	r      *harness.Run
	c      *caseSpec
	lch    syncer.Channel
	fch    syncer.Channel
	lf     *feeder
	ln     *leaderNode
	pre    chanState
	wd     *world
	fdir   string
	rng    *rand.Rand
	st     checkStats
	t0     time.Time
	hsBase int

	stateCh   chan chanState // distinct declared states, for byte checks while Run() is active
	checkDone chan struct{}
	checked   map[chanState]bool
	livelock  string

	mu       sync.Mutex
	trace    []traceEntry
	beyond   map[string]any
	samples  int
	stopSamp chan struct{}
	sampDone chan struct{}
	findings []finding
	notes    []string
}

func (cr *caseRun) note(f string, a ...any) {
	cr.mu.Lock()
	if len(cr.notes) < 40 {
		cr.notes = append(cr.notes, fmt.Sprintf("%6.3fs ", time.Since(cr.t0).Seconds())+fmt.Sprintf(f, a...))
	}
	cr.mu.Unlock()
}

func (cr *caseRun) witness(extra map[string]any) map[string]any {
	cr.mu.Lock()
	defer cr.mu.Unlock()
	w := map[string]any{
		"case": cr.c, "follower_before": cr.pre, "rpcs": cr.ln.snapshotRPCs(),
		"follower_trace": cr.trace, "notes": cr.notes,
		"replay": fmt.Sprintf("VERIF_SEED=%d VERIF_CASE='%s' ./run.sh C16 %s", cr.r.Seed, cr.c.Key, cr.r.Tier),
	}
	for k, v := range extra {
		w[k] = v
	}
	return w
}

// sampler: what the follower declares while Run() is active (metadata only).
func (cr *caseRun) sampler() {
	defer close(cr.sampDone)
	var last chanState
	first := true
	for {
		select {
		case <-cr.stopSamp:
			return
		default:
		}
		fs := stateOf(cr.fch)
		// compared with what the leader has been fed so far (sampled after the follower; it only
		// grows under one id).  The leader's own declared right edge may lag behind the bytes its
		// readers already serve, so it is not used here.
		lid, fed := cr.lf.fedUpTo()
		cr.mu.Lock()
		cr.samples++
		if first || fs.ID != last.ID || fs.Left != last.Left || fs.RdbLeft != last.RdbLeft || fs.RdbSize != last.RdbSize || (fs.Right != last.Right && (last.Right < 0 || fs.Right < last.Right)) {
			if len(cr.trace) < 60 {
				cr.trace = append(cr.trace, traceEntry{At: fmt.Sprintf("%.3fs", time.Since(cr.t0).Seconds()), State: fs})
			}
			// every distinct intermediate state: what can be judged from the declaration alone is
			// judged here, the bytes behind it by the state checker
			for _, f := range cr.wd.metaFindings(fs, "while-running") {
				dup := false
				for _, g := range cr.findings {
					dup = dup || g.Sig == f.Sig
				}
				if !dup {
					cr.findings = append(cr.findings, f)
				}
			}
			k := fs
			k.Right = 0
			if fs.ID != "" && !cr.checked[k] && len(cr.checked) < 12 {
				cr.checked[k] = true
				select {
				case cr.stateCh <- fs:
				default:
				}
			}
		}
		first = false
		last = fs
		// (an empty range [x,x] without snapshot bytes claims no byte)
		if cr.beyond == nil && fs.ID != "" && fs.ID == lid && fs.Right > fed && (fs.Right > fs.Left || fs.RdbSize > 0) {
			// not the follower's own earlier data of the same id (the ahead case)
			if !(fs.ID == cr.pre.ID && fs.Right <= cr.pre.Right) {
				cr.beyond = map[string]any{"follower": fs, "leader_fed_up_to": fed}
			}
		}
		cr.mu.Unlock()
		time.Sleep(time.Millisecond)
	}
}

// stateChecker reads back, while Run() is active, what the follower declares in each distinct
// intermediate state (bytes actually served only; see checkFollower's non-quiescent mode).
func (cr *caseRun) stateChecker() {
	defer close(cr.checkDone)
	rng := cr.r.Rand("statechecker|" + cr.c.Key)
	for range cr.stateCh {
		var st checkStats
		_, fs := checkFollower(cr.fch, cr.lch, cr.fdir, cr.wd, rng, "while-running", false, &st)
		cr.mu.Lock()
		cr.st.bytesCompared += st.bytesCompared
		cr.st.leaderCompared += st.leaderCompared
		cr.st.spotReads += st.spotReads
		cr.st.transientDropped += st.transientDropped
		cr.st.midChecks++
		for _, f := range fs {
			if !f.Harness {
				cr.findings = append(cr.findings, f)
			}
		}
		cr.mu.Unlock()
	}
}

func (cr *caseRun) startFollower() *follHandle {
	h := &follHandle{done: make(chan error, 1)}
	hs, _ := cr.ln.counts()
	cr.hsBase = hs
	h.rf = syncer.NewReplicaFollower(1, "src-"+shortKey(cr.c.Key), cr.fch, &cluster.RoleInfo{Address: cr.ln.addr})
	go func() { h.done <- h.rf.Run() }()
	return h
}

func shortKey(k string) string {
	return strings.NewReplacer("/", "_", "=", "", ":", "_").Replace(k)
}

func (cr *caseRun) stopFollower(h *follHandle) bool {
	if h.ret {
		return true
	}
	ok := make(chan struct{})
	go func() { h.rf.Stop(); close(ok) }()
	select {
	case <-ok:
	case <-time.After(40 * time.Second):
		cr.r.Inconclusive("%s: ReplicaFollower.Stop did not return (watchdog)", cr.c.Key)
		return false
	}
	select {
	case h.err = <-h.done:
		h.ret = true
	case <-time.After(40 * time.Second):
		cr.r.Inconclusive("%s: Run did not return after Stop (watchdog)", cr.c.Key)
		return false
	}
	return true
}

func (cr *caseRun) converged() bool {
	lid := cr.lf.curID()
	if lid == "" {
		return false
	}
	if cr.fch.RunId() != lid {
		return false
	}
	lr := cr.lf.curRight()
	if lr < 0 {
		return false // the leader holds nothing: there is nothing to catch up with
	}
	_, fr := cr.fch.GetOffsetRange(lid)
	return fr == lr
}

const (
	maxHandshakes  = 4
	livelockRounds = 6
	refusedRounds  = 3
	quietTime      = 10 * time.Second
)

// waitEvent blocks until a logical event: the follower caught up, Run returned, the armed cut
// fired, or the follower went through maxHandshakes sessions without catching up.
func (cr *caseRun) waitEvent(h *follHandle, wantCut bool) string {
	deliveredSince, deliveredRPCs := time.Now(), -1
	if h.ret {
		return "returned"
	}
	quietSince, quietSig := time.Now(), ""
	hs0, xf0 := cr.ln.counts()
	rpc0 := hs0 + xf0 // rounds are counted from here on: the leader is not being changed while we wait
	for i := 0; ; i++ {
		select {
		case h.err = <-h.done:
			h.ret = true
			return "returned"
		default:
		}
		if wantCut {
			if fired, ret := cr.ln.cutState(); fired && ret {
				return "cut"
			}
		}
		if cr.converged() {
			return "converged"
		}
		if hs, _ := cr.ln.counts(); hs-cr.hsBase >= maxHandshakes {
			return "noconv"
		}
		// the same request answered the same way livelockRounds times in a row, with a leader that
		// did not change in between: the follower makes no progress and never will
		if n, what := cr.ln.identicalRounds(rpc0, false); n >= livelockRounds {
			cr.livelock = what
			return "livelock"
		}
		// the leader has nothing to serve and says so (CLEAR) round after round: no verdict about
		// progress; stop waiting and judge what the follower holds
		if n, _ := cr.ln.identicalRounds(rpc0, true); n >= refusedRounds {
			return "refused"
		}
		// the open transfer has carried everything the leader holds, yet the follower's declared
		// range does not say so, and the follower starts no new session either (its retry sleep is
		// 3 s): stop waiting — what it declares is checked all the same
		hs, xf := cr.ln.counts()
		if end, open := cr.ln.lastDelivered(); open && end == cr.lf.curRight() && hs+xf == deliveredRPCs {
			if time.Since(deliveredSince) > 4*time.Second {
				return "delivered"
			}
		} else {
			deliveredSince, deliveredRPCs = time.Now(), hs+xf
		}
		// nothing at all moves (no RPC, no message, no change of what the follower declares) for
		// far longer than any of the follower's own sleeps (3 s): a shorter watchdog — inconclusive
		// like the long one, but what the follower holds is still judged
		if i%50 == 0 {
			hs, xf := cr.ln.counts()
			sig := fmt.Sprintf("%d|%d|%d|%v", hs, xf, cr.ln.msgsTotal.Load(), stateOf(cr.fch))
			if sig != quietSig {
				quietSig, quietSince = sig, time.Now()
			} else if time.Since(quietSince) > quietTime {
				return "quiet"
			}
		}
		if time.Since(cr.t0) > caseWatchdog {
			return "watchdog"
		}
		if i < 100 {
			time.Sleep(300 * time.Microsecond)
		} else {
			time.Sleep(2 * time.Millisecond)
		}
	}
}

// waitSteps: like waitEvent, but bounded by a number of polling steps instead of waiting for an event.
func (cr *caseRun) waitSteps(h *follHandle, steps int) string {
	if h.ret {
		return "returned"
	}
	for i := 0; i < steps; i++ {
		select {
		case h.err = <-h.done:
			h.ret = true
			return "returned"
		default:
		}
		if cr.converged() {
			return "converged"
		}
		if fid := cr.fch.RunId(); fid != "" {
			if _, fr := cr.fch.GetOffsetRange(fid); fr >= 0 && fr == cr.lf.curRight() {
				return "followed" // everything the leader holds, under the label the stream was opened with
			}
		}
		time.Sleep(2 * time.Millisecond)
	}
	return "steps"
}

func (cr *caseRun) check(where string, quiescent bool) chanState {
	var st checkStats
	s, fs := checkFollower(cr.fch, cr.lch, cr.fdir, cr.wd, cr.rng, where, quiescent, &st)
	cr.mu.Lock()
	cr.st.add(st)
	for _, f := range fs {
		if f.Harness && !quiescent {
			continue // transient while the follower is working
		}
		cr.findings = append(cr.findings, f)
	}
	cr.mu.Unlock()
	return s
}

// failoverLeader: the source fails over (+CONTINUE <new id>); grow > 0 lets the promoted master's
// stream advance by that many bytes before anything else happens (the leader's newest offset then
// lies beyond the switch offset).
func (cr *caseRun) failoverLeader(grow int64) error {
	oldID, at, err := cr.lf.failover(cr.c.ZH.ID)
	if err != nil {
		return err
	}
	cr.wd.continuation(cr.c.ZH.ID, oldID, at)
	return cr.lf.append(grow)
}

func (cr *caseRun) switchLeader() error {
	z := cr.c.ZH
	if cr.c.BL == backendDisk && os.Getenv("VERIF_C16_AVOID_S1") != "" {
		// Side finding S1 (pkg/store, repaired in the repository; the avoidance is kept on request only): when the log writer is closed right after
		// a rotation, the empty last segment is dropped from the data set without closing the
		// readers positioned on it; such a reader (the stream serving the follower) then polls a
		// removed file for ever and the follower is never told that the leader moved on.  Two
		// separate one-byte appends leave a non-empty last segment, so the restart below is seen
		// by the follower.
		for i := 0; i < 2; i++ {
			if err := cr.lf.append(1); err != nil {
				return err
			}
		}
	}
	if err := cr.lf.fullSync(z.ID, z.LogLeft, z.RdbSize, nil); err != nil {
		return err
	}
	return cr.lf.append(z.LogRight - z.LogLeft)
}

func runCase(r *harness.Run, c *caseSpec, dir string) {
	fmt.Printf("CASE start %s\n", c.Key)
	cr := &caseRun{r: r, c: c, rng: r.Rand("oracle|" + c.Key), t0: time.Now(),
		stopSamp: make(chan struct{}), sampDone: make(chan struct{}),
		stateCh: make(chan chanState, 16), checkDone: make(chan struct{}), checked: map[chanState]bool{}}
	cr.wd = newWorld(c.IDs, c.LH, c.FH, c.ZH)
	sk := shortKey(c.Key)
	ldir, fdir := filepath.Join(dir, "L"), filepath.Join(dir, "F")
	defer os.RemoveAll(dir)
	cr.fdir = fdir
	harnessFail := func(format string, a ...any) {
		r.Inconclusive("%s: %s", c.Key, fmt.Sprintf(format, a...))
	}

	// ---- both caches, through the writer protocol
	input := &stubInput{id: "src-" + sk}
	cr.lch = newChannel(c.BL, ldir, "L-"+sk, c.LogSizeL, c.MaxSizeL)
	cr.fch = newChannel(c.BF, fdir, "F-"+sk, c.LogSizeF, 0)
	cr.lf = &feeder{ch: cr.lch, input: input}
	ff := &feeder{ch: cr.fch}
	defer func() { cr.lch.Close(); cr.fch.Close() }()
	defer cr.lf.closeLog()
	if c.LH.empty() {
		input.set(c.IDs[0], zeroReplID)
	} else if err := cr.lf.load(c.LH); err != nil {
		harnessFail("leader load: %v", err)
		return
	}
	if c.L == "G" {
		// the disk backend collects on a 30 s timer: run one pass now (memory collects while appending)
		if g, ok := cr.lch.(interface{ VerifGcNow() }); ok {
			g.VerifGcNow()
		}
		if l, _ := cr.lch.GetOffsetRange(c.LH.ID); l <= c.LH.LogLeft {
			harnessFail("collector did not remove anything at the leader: %v", stateOf(cr.lch))
			return
		}
		r.Count("leader_states_made_by_collector", 1)
	}
	if err := ff.load(c.FH); err != nil {
		harnessFail("follower load: %v", err)
		return
	}
	ff.closeLog()
	// what was fed must read back before the session starts (else the cache itself is at fault: C05)
	var st0 checkStats
	if _, fs := checkFollower(cr.fch, nil, cr.fdir, cr.wd, cr.rng, "before", true, &st0); len(fs) > 0 {
		harnessFail("follower's pre-loaded cache does not read back: %s %s", fs[0].Sig, fs[0].What)
		return
	}
	if _, fs := checkFollower(cr.lch, nil, "", cr.wd, cr.rng, "leader-before", true, &st0); len(fs) > 0 {
		harnessFail("leader's cache does not read back: %s %s", fs[0].Sig, fs[0].What)
		return
	}
	cr.pre = stateOf(cr.fch)
	if !c.FH.empty() && (cr.pre.ID != c.FH.ID || cr.pre.Right != c.FH.LogRight) {
		harnessFail("follower pre-state %v does not match the plan %+v", cr.pre, c.FH)
		return
	}
	if c.Proc == "fresh" {
		cr.fch.Close()
		cr.fch = newChannel(c.BF, fdir, "F-"+sk, c.LogSizeF, 0)
	}

	ln, err := newLeaderNode(cr.lch, input)
	if err != nil {
		harnessFail("listen: %v", err)
		return
	}
	cr.ln = ln
	defer ln.close()

	// ---- scenario hooks
	var once sync.Once
	var hookErr error
	serveAgain := make(chan struct{}) // cutcollect: closed when transfer requests are served again
	var serveOnce sync.Once
	defer serveOnce.Do(func() { close(serveAgain) })
	var switched atomic.Bool
	switch c.Scn {
	case scSwitch2:
		ln.beforeRPC = func(rec rpcRec) {
			if rec.Transfer == 0 {
				once.Do(func() {
					hookErr = cr.switchLeader()
					cr.note("leader restarted under id %.8s before meta sync", c.ZH.ID)
					switched.Store(true)
				})
			}
		}
	case scFailover2, scFailoverX1:
		want := 0
		if c.Scn == scFailoverX1 {
			want = 1
		}
		ln.beforeRPC = func(rec rpcRec) {
			if rec.Transfer == want {
				once.Do(func() {
					hookErr = cr.failoverLeader(2000)
					cr.note("source failed over: leader continues under id %.8s (reports [new, old]) before transfer RPC %d is handled", c.ZH.ID, want)
					switched.Store(true)
				})
			}
		}
	case scSwitchRdb:
		ln.afterSend = func(rec rpcRec) {
			if rec.Transfer == 0 && rec.NMsgs == 3 && len(rec.Msgs) > 0 && !rec.Msgs[0].Aof {
				once.Do(func() {
					hookErr = cr.switchLeader()
					cr.note("leader restarted under id %.8s while the follower was downloading the snapshot", c.ZH.ID)
					switched.Store(true)
				})
			}
		}
	case scBounce:
		ln.beforeRPC = func(rec rpcRec) {
			if rec.Transfer == 0 {
				ln.rl.Stop()
			}
		}
		ln.afterRPC = func(rec rpcRec) {
			if rec.Transfer == 0 {
				ln.rl.Start()
			}
		}
	case scCut, scCutRetry:
		ln.setCut(c.CutXfer, c.CutK)
	case scCutCollect:
		ln.setCut(c.CutXfer, c.CutK)
		// from the cut on no transfer request is served until the leader has collected (handleCut)
		ln.beforeRPC = func(rec rpcRec) {
			if fired, _ := ln.cutState(); fired && !rec.Handshake {
				select {
				case <-serveAgain:
				case <-time.After(caseWatchdog):
				}
			}
		}
	}

	expectTakeover := c.Scn == scPlain && !c.FH.empty() && !c.LH.empty() && c.FH.ID == c.LH.ID && c.FH.LogRight > c.LH.LogRight

	// ---- run
	h := cr.startFollower()
	go cr.sampler()
	go cr.stateChecker()
	samplerStopped := false
	stopSampler := func() {
		if !samplerStopped {
			samplerStopped = true
			close(cr.stopSamp)
			<-cr.sampDone
			close(cr.stateCh)
			<-cr.checkDone
		}
	}
	defer stopSampler()
	defer func() { cr.stopFollower(h) }()

	outcome, cutOutcome := "", ""
	ev := ""
	// first handshake answered (or Run already over)
	waitUntil(caseWatchdog, func() bool {
		select {
		case h.err = <-h.done:
			h.ret = true
			return true
		default:
		}
		for _, rp := range ln.snapshotRPCs() {
			if rp.Handshake && rp.Done {
				return true
			}
		}
		return false
	})

	if c.L == "E" && !h.ret {
		// live full resynchronisation at the leader; the second half of the snapshot is held back
		// until the follower has been answered a transfer (or has given up trying)
		z := c.ZH
		pace := func(done int64) {
			if done >= z.RdbSize/2 && done < z.RdbSize/2+3000 {
				waitUntil(caseWatchdog, func() bool {
					hs, x := ln.counts()
					return x >= 1 || hs >= 3 || len(h.done) > 0
				})
			}
		}
		if err := cr.lf.fullSync(z.ID, z.LogLeft, z.RdbSize, pace); err != nil {
			harnessFail("leader live full sync: %v", err)
			return
		}
		if err := cr.lf.append(z.LogRight - z.LogLeft); err != nil {
			harnessFail("leader live log: %v", err)
			return
		}
	}

	handleCut := func() bool {
		// the k-th message was the last one through and the handler has returned
		cr.r.Seen("cut_points", fmt.Sprintf("x%d:k%d", c.CutXfer, c.CutK))
		cr.r.Count("cuts_fired", 1)
		if c.Scn == scCutCollect {
			before, _ := cr.lch.GetOffsetRange(cr.lch.RunId())
			for fed := int64(0); fed < 2*c.MaxSizeL+9000; fed += 3000 {
				if err := cr.lf.append(3000); err != nil {
					harnessFail("leader append while no follower is served: %v", err)
					return false
				}
			}
			if g, ok := cr.lch.(interface{ VerifGcNow() }); ok {
				g.VerifGcNow()
			}
			after, _ := cr.lch.GetOffsetRange(cr.lch.RunId())
			if after > before {
				cr.r.Count("cuts_followed_by_a_collection_at_the_leader", 1)
			}
			cr.note("cut fired; leader took in %d bytes unserved, its left edge moved %d -> %d; follower left to its own retry", 2*c.MaxSizeL+9000, before, after)
			// requests are served again; once the follower's next transfer request has been answered
			// (its own retry comes after a 3 s sleep) the source goes on sending
			serveOnce.Do(func() { close(serveAgain) })
			_, x0 := ln.counts()
			waitUntil(8*time.Second, func() bool {
				_, x := ln.counts()
				return x > x0 || len(h.done) > 0
			})
			for i := 0; i < 3; i++ {
				time.Sleep(15 * time.Millisecond) // pacing only
				if err := cr.lf.append(2000); err != nil {
					harnessFail("leader append after serving again: %v", err)
					return false
				}
			}
			return true
		}
		if c.Scn == scCutRetry {
			cr.note("cut fired; follower left to its own retry")
			return true
		}
		time.Sleep(30 * time.Millisecond) // let the follower meet the error by itself (schedule bias only)
		if !cr.stopFollower(h) {
			return false
		}
		s := cr.check("after-cut", true)
		switch {
		case s.ID == "":
			cutOutcome = "cut-empty"
		case s == cr.pre:
			cutOutcome = "cut-old"
		default:
			cutOutcome = "cut-prefix"
		}
		cr.note("after cut: %v (%s)", s, cutOutcome)
		*h = *cr.startFollower() // the syncer's run loop builds a new follower over the same cache
		return true
	}

	if expectTakeover {
		ev = cr.waitEvent(h, false)
		if ev != "returned" && !c.LH.IDOnly {
			// leadership was not offered: a live leader goes on appending; let what that does to the
			// follower's cache (which holds more than the leader) show before it is judged
			for _, b := range c.Bursts {
				if err := cr.lf.append(b); err != nil {
					harnessFail("leader live append: %v", err)
					return
				}
				if e2 := cr.waitSteps(h, 400); e2 == "returned" {
					ev = e2
					break
				}
			}
		}
	} else if !h.ret {
		wantCut := c.Scn == scCut || c.Scn == scCutRetry || c.Scn == scCutCollect
		midChecked := false
		if c.Scn == scSwitch2 || c.Scn == scSwitchRdb || c.Scn == scFailover2 {
			// the leader restarts inside the handler of the first meta-sync RPC (or in the middle of
			// the snapshot transfer); live appends go to the new history
			waitUntil(caseWatchdog, func() bool {
				if switched.Load() || len(h.done) > 0 {
					return true
				}
				for _, rp := range ln.snapshotRPCs() {
					if rp.Transfer == 0 && (rp.Done || (len(rp.Msgs) > 0 && rp.Msgs[0].Aof)) {
						return true // no snapshot transfer to interrupt
					}
				}
				return false
			})
		}
		if c.Scn == scFailoverX1 {
			// live appends start once the fail-over has happened, or it is clear that no snapshot
			// transfer (hence no second request inside the session) takes place
			waitUntil(caseWatchdog, func() bool {
				if switched.Load() || len(h.done) > 0 {
					return true
				}
				for _, rp := range ln.snapshotRPCs() {
					if rp.Transfer == 0 && len(rp.Msgs) > 0 && (rp.Msgs[0].Aof || rp.Msgs[0].Code != "META") {
						return true
					}
				}
				return false
			})
		}
		bursts := c.Bursts
		if c.LH.IDOnly {
			bursts = nil // no source connection, no log writer: the leader cannot grow
			ev = cr.waitEvent(h, false)
		}
		for bi, b := range bursts {
			if hookErr != nil {
				break
			}
			if err := cr.lf.append(b); err != nil {
				harnessFail("leader live append: %v", err)
				return
			}
			ev = cr.waitEvent(h, wantCut)
			if ev == "cut" {
				wantCut = false
				if !handleCut() {
					return
				}
				ev = cr.waitEvent(h, false)
			}
			if ev != "converged" {
				break
			}
			if !midChecked && c.Scn == scPlain && c.L != "E" {
				midChecked = true
				cr.check("while-running", false)
			}
			if bi == 0 && c.Scn == scFailoverLt {
				if err := cr.failoverLeader(0); err != nil {
					harnessFail("leader fail-over: %v", err)
					return
				}
				cr.note("source failed over after the follower caught up: leader continues under id %.8s", c.ZH.ID)
				// the leader's new writer goes on appending; the follower gets a bounded number of
				// steps after each burst, then it is stopped and what it holds is judged (whether its
				// open stream carries on, fails and is re-opened, or stalls is not this property's)
				msgs0, rpcs0 := ln.msgsTotal.Load(), len(ln.snapshotRPCs())
				for _, b2 := range bursts[1:] {
					if err := cr.lf.append(b2); err != nil {
						harnessFail("leader live append: %v", err)
						return
					}
					if ev = cr.waitSteps(h, 1500); ev == "returned" || ev == "steps" {
						break
					}
				}
				if ev == "steps" && ln.msgsTotal.Load() == msgs0 && len(ln.snapshotRPCs()) == rpcs0 {
					// observation (liveness, outside C16): the stream opened before the fail-over neither
					// delivered a message nor ended, and the follower opened no new one
					ev = "stalled-after-failover"
					r.Count("follower_stream_stalled_after_leader_failover", 1)
				}
				break
			}
			if bi == 0 && c.Scn == scSwitchLate {
				if err := cr.switchLeader(); err != nil {
					harnessFail("leader switch: %v", err)
					return
				}
				cr.note("leader restarted under id %.8s after the follower caught up", c.ZH.ID)
				if ev = cr.waitEvent(h, false); ev != "converged" {
					break
				}
			}
		}
	} else {
		ev = "returned"
	}
	if hookErr != nil {
		harnessFail("leader switch: %v", hookErr)
		return
	}
	if ev == "watchdog" || ev == "quiet" {
		cr.mu.Lock()
		tr := fmt.Sprint(cr.trace)
		cr.mu.Unlock()
		if b, err := json.Marshal(cr.witness(nil)); err == nil {
			fmt.Printf("WATCHDOG %s\n", b)
		}
		// inconclusive as to progress; what the follower holds is judged below all the same
		harnessFail("watchdog (%s): follower neither caught up nor returned although the leader holds id %.8s up to %d (trace %s)",
			ev, cr.lf.curID(), cr.lf.curRight(), tr)
	}
	if !cr.stopFollower(h) {
		return
	}
	stopSampler()
	final := cr.check("final", true)

	// ---- classification of what happened
	rpcs := ln.snapshotRPCs()
	kind := "none"
	var firstMeta *msgRec
	for i := range rpcs {
		if rpcs[i].Transfer >= 0 && len(rpcs[i].Msgs) > 0 && rpcs[i].Msgs[0].Code == "META" {
			firstMeta = &rpcs[i].Msgs[0]
			if firstMeta.Aof {
				kind = "aof"
			} else {
				kind = "rdb"
			}
			break
		}
	}
	takeover := h.err != nil && errors.Is(h.err, syncer.ErrLeaderTakeover)
	switch {
	case takeover:
		outcome = "takeover"
	case ev == "returned":
		outcome = "returned-other"
	case ev == "stalled-after-failover":
		outcome = "stream-stalled-after-leader-failover"
	case ev == "followed":
		outcome = "followed-under-old-label"
	case ev == "steps":
		outcome = "behind-after-leader-failover"
	case ev == "watchdog" || ev == "quiet":
		outcome = "stalled"
	case ev == "refused":
		outcome = "leader-has-nothing"
	case ev == "livelock":
		outcome = "sync-livelock"
	case ev == "noconv":
		outcome = "no-convergence"
	case ev == "delivered":
		outcome = "delivered-not-declared"
	case kind == "rdb":
		outcome = "resynced-with-snapshot"
	case cr.pre.ID == "" || cr.pre.Right < 0:
		outcome = "started"
	case final.ID == cr.pre.ID && final.Left == cr.pre.Left && firstMeta != nil && firstMeta.Offset == cr.pre.Right:
		outcome = "continued"
	case final.ID == cr.pre.ID && final.Left == cr.pre.Left:
		outcome = "kept"
	default:
		outcome = "cleared"
	}
	if cutOutcome != "" {
		outcome = cutOutcome + "+" + outcome
	}

	// ---- a follower that holds more than the leader: leadership offered, cache untouched
	if expectTakeover && c.BF == backendDisk {
		// ... and still there when the directory is scanned again (process restart / next session)
		cr.fch.Close()
		cr.fch = newChannel(c.BF, fdir, "F-"+sk, c.LogSizeF, 0)
		if _, err := cr.fch.StartPoint([]string{cr.pre.ID}); err != nil {
			harnessFail("re-scan of the follower's directory: %v", err)
		} else if again := stateOf(cr.fch); again != cr.pre {
			cr.findings = append(cr.findings, finding{Sig: "ahead-overwritten", What: fmt.Sprintf(
				"follower was ahead of the leader; after its directory is scanned again its cache is %v instead of %v", again, cr.pre),
				Detail: map[string]any{"follower_after_session": final, "follower_after_rescan": again}})
		} else {
			var st checkStats
			_, fs := checkFollower(cr.fch, nil, fdir, cr.wd, cr.rng, "after-rescan", true, &st)
			cr.st.add(st)
			cr.findings = append(cr.findings, fs...)
			r.Count("ahead_followers_rescanned", 1)
		}
	}
	if expectTakeover {
		if !takeover {
			cr.findings = append(cr.findings, finding{Sig: "ahead-no-takeover", What: fmt.Sprintf(
				"follower holds id %.8s up to %d, leader only up to %d, but Run did not return ErrLeaderTakeover (event %s, err %v)",
				c.FH.ID, c.FH.LogRight, c.LH.LogRight, ev, h.err), Detail: map[string]any{"follower_after": final}})
		}
		if final != cr.pre {
			cr.findings = append(cr.findings, finding{Sig: "ahead-overwritten", What: fmt.Sprintf(
				"follower was ahead of the leader but its cache changed from %v to %v", cr.pre, final),
				Detail: map[string]any{"follower_after": final}})
		}
	}
	// logical progress: the same sync round repeated livelockRounds times against an unchanged leader
	if ev == "livelock" {
		cr.findings = append(cr.findings, finding{Sig: "sync-livelock", What: fmt.Sprintf(
			"%d identical sync rounds in a row against an unchanged leader (%s): the follower keeps re-requesting the same position, declares %v and never reaches the leader's stream (leader holds id %.8s up to %d)",
			livelockRounds, cr.livelock, final, cr.lf.curID(), cr.lf.curRight()), Detail: map[string]any{"follower_after": final, "round": cr.livelock}})
	}
	// a healthy leader answered every handshake, the follower went through maxHandshakes sessions
	// and still holds nothing of what the leader has now: it neither joined nor resynchronised
	if ev == "noconv" && !expectTakeover {
		healthy := true
		for _, rp := range rpcs {
			if rp.Handshake && rp.Done && (len(rp.Msgs) == 0 || rp.Msgs[0].Code != "META" || rp.Msgs[0].RunID == "") {
				healthy = false
			}
		}
		if healthy {
			cr.findings = append(cr.findings, finding{Sig: "no-resync", What: fmt.Sprintf(
				"after %d sessions with a leader that answered every handshake the follower still declares %v (before: %v) while the leader holds id %.8s up to %d",
				maxHandshakes, final, cr.pre, cr.lf.curID(), cr.lf.curRight()), Detail: map[string]any{"follower_after": final}})
		}
	}
	// while running, the follower never declared more of an id than the leader held
	cr.mu.Lock()
	beyond := cr.beyond
	nReal := 0
	for _, f := range cr.findings {
		if !f.Harness {
			nReal++
		}
	}
	cr.mu.Unlock()
	if beyond != nil && nReal == 0 {
		cr.findings = append(cr.findings, finding{Sig: "declares-beyond-leader", What: "while Run() was active the follower declared offsets valid under the leader's id that the leader did not hold", Detail: beyond})
	}

	// ---- verdicts
	r.Eval(1)
	r.Count("cases", 1)
	r.Count("outcome_"+outcome, 1)
	r.Seen("outcomes", outcome)
	r.Seen("pairs", c.L+"x"+c.F)
	r.Count("bytes_compared_with_prf", cr.st.bytesCompared)
	r.Count("bytes_compared_with_leader", cr.st.leaderCompared)
	r.Count("snapshot_declared_but_refused", int64(cr.st.refusedSnapshot))
	r.Count("spot_reads", int64(cr.st.spotReads))
	r.Count("reader_stalls_resumed", int64(cr.st.resumedReads))
	r.Count("empty_snapshot_declared", int64(cr.st.emptySnapshots))
	r.Count("intermediate_states_read_back", int64(cr.st.midChecks))
	r.Count("intermediate_reads_dropped_state_moved", int64(cr.st.transientDropped))
	r.Count("rpcs", int64(len(rpcs)))
	r.Count("stream_messages", ln.msgsTotal.Load())
	r.Count("stream_bytes", ln.bytesTotal.Load())
	cr.mu.Lock()
	r.Count("follower_state_samples", int64(cr.samples))
	cr.mu.Unlock()
	if (c.Scn == scCut || c.Scn == scCutRetry || c.Scn == scCutCollect) && cutOutcome == "" {
		if fired, _ := ln.cutState(); !fired {
			r.Count("cuts_not_reached", 1)
		}
	}
	if r.Replaying() { // a single case was asked for: show what happened
		fmt.Printf("NOTE case %s: outcome=%s transfer=%s before=%s after=%s\n", c.Key, outcome, kind, cr.pre.String(), final.String())
		for _, n := range cr.notes {
			fmt.Printf("NOTE   %s\n", n)
		}
		for _, rp := range rpcs {
			fmt.Printf("NOTE   rpc#%d handshake=%v req=(%.8s,%d) transfer=%d msgs=%d bytes=%d last_end=%d cut=%v err=%q first=%+v\n", rp.Idx, rp.Handshake, rp.ReqRunID, rp.ReqOffset, rp.Transfer, rp.NMsgs, rp.DataBytes, rp.LastEnd, rp.Cut, rp.Err, rp.Msgs)
		}
	}
	r.Distinct(strings.Join([]string{c.L, c.F, c.BL, c.BF, kind, outcome}, "|"))
	r.Sample(map[string]any{"case": c.Key, "outcome": outcome, "transfer": kind, "follower_before": cr.pre.String(),
		"follower_after": final.String(), "rpcs": len(rpcs), "bytes_compared": cr.st.bytesCompared})

	seen := map[string]bool{}
	for _, f := range cr.findings {
		if f.Harness {
			harnessFail("%s: %s", f.Sig, f.What)
			continue
		}
		sig := fmt.Sprintf("%s|F=%s|proc=%s", f.Sig, c.BF, c.Proc)
		if seen[sig] {
			continue
		}
		seen[sig] = true
		r.Violation(sig, c.Key, f.What, cr.witness(map[string]any{"finding": f.Detail, "outcome": outcome, "follower_after": final}))
	}
	sigs := []string{}
	for _, f := range cr.findings {
		sigs = append(sigs, f.Sig)
	}
	fmt.Printf("CASE done  %s -> %s (%s) %.1fs findings=%d %v\n", c.Key, outcome, kind, time.Since(cr.t0).Seconds(), len(cr.findings), sigs)
}
