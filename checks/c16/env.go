package main

import (
	"bufio"
	"context"
	"errors"
	"fmt"
	"io"
	"os"
	"sync"
	"time"

	"github.com/mgtv-tech/redis-GunYu/config"
	"github.com/mgtv-tech/redis-GunYu/pkg/log"
	usync "github.com/mgtv-tech/redis-GunYu/pkg/sync"
	"github.com/mgtv-tech/redis-GunYu/syncer"
)

const (
	backendDisk = "disk"
	backendMem  = "mem"

	// generous wall-clock guards; their firing is never a verdict
	feedWatchdog  = 30 * time.Second
	caseWatchdog  = 100 * time.Second
	readStallTime = 3 * time.Second
)

var errHarness = errors.New("harness")

func initEnv() (string, error) {
	f, t := false, true
	if err := log.InitLog(config.LogConfig{
		LevelStr: "fatal",
		Handler:  config.LogHandlerConfig{StdOut: true},
		Caller:   &f, Func: &f, ModuleName: &t,
	}); err != nil {
		return "", err
	}
	// the disk backend consults the global configuration when it opens a reader
	cfg := config.GetSyncerConfig()
	cfg.Channel = &config.ChannelConfig{Type: config.ChannelTypeStorer, VerifyCrc: false}

	base := os.Getenv("VERIF_TMP")
	if base == "" {
		base = os.TempDir()
	}
	return os.MkdirTemp(base, "c16-builder-")
}

// maxSize 0 = no collection
func newChannel(backend, dir, inputID string, logSize, maxSize int64) syncer.Channel {
	if backend == backendMem {
		return syncer.NewMemoryChannel(syncer.MemoryConf{InputId: inputID, MaxSize: maxSize, LogSize: logSize})
	}
	return syncer.NewStoreChannel(syncer.StorerConf{InputId: inputID, Dir: dir, MaxSize: maxSize, LogSize: logSize})
}

// stubInput is the part of an Input a ReplicaLeader consults: an id and the source's run ids.
type stubInput struct {
	id  string
	mu  sync.RWMutex
	ids []string
}

func (s *stubInput) Id() string                                     { return s.id }
func (s *stubInput) Run() error                                     { return nil }
func (s *stubInput) Stop() error                                    { return nil }
func (s *stubInput) SetOutput(syncer.Output)                        {}
func (s *stubInput) SetChannel(syncer.Channel)                      {}
func (s *stubInput) StateNotify(syncer.SyncState) usync.WaitChannel { return nil }
func (s *stubInput) RunIds() []string {
	s.mu.RLock()
	defer s.mu.RUnlock()
	return s.ids
}
func (s *stubInput) set(ids ...string) {
	s.mu.Lock()
	s.ids = ids
	s.mu.Unlock()
}

const zeroReplID = "0000000000000000000000000000000000000000"

// hist is what one side holds before the session starts.
type hist struct {
	Name     string `json:"name"`
	ID       string `json:"id"` // "" = nothing
	RdbLeft  int64  `json:"rdb_left"`
	RdbSize  int64  `json:"rdb_size"` // 0 = no snapshot
	LogLeft  int64  `json:"log_left"`
	LogRight int64  `json:"log_right"`
	// run id adopted but not a byte cached: Voided > 0 = a log writer was opened at that offset and
	// its source connection broke before the first byte; Voided = 0 with IDOnly = only SetRunId so far
	Voided int64 `json:"voided_at,omitempty"`
	IDOnly bool  `json:"id_only,omitempty"`
	// Continues: not a history of its own — the id the leader's source switches to by +CONTINUE
	Continues bool `json:"continues,omitempty"`
}

func (h hist) empty() bool { return h.ID == "" }

// feeder drives a Channel through the writer protocol RedisInput uses (syncMeta + syncData):
// full sync = DelRunId(current), SetRunId(id), NewRdbWriter(reader,left,size) Start/Wait/Close,
// NewAofWritter(same reader,left) Start; incremental / log-only = (DelRunId), SetRunId,
// NewAofWritter(reader,offset).  The reader is a *bufio.Reader like the source connection's.
type feeder struct {
	ch    syncer.Channel
	input *stubInput // nil on the follower side
	mu    sync.Mutex
	id    string
	pw    *io.PipeWriter
	aw    syncer.AofChannelWriter
	right int64
	upper int64 // every byte handed to the writers so far ends below this offset
}

func (f *feeder) curID() string {
	f.mu.Lock()
	defer f.mu.Unlock()
	return f.id
}

// fedUpTo returns the current id and an upper bound of the offsets fed under it (bytes may still
// be in flight to the channel).
func (f *feeder) fedUpTo() (string, int64) {
	f.mu.Lock()
	defer f.mu.Unlock()
	return f.id, f.upper
}

func (f *feeder) curRight() int64 {
	f.mu.Lock()
	defer f.mu.Unlock()
	return f.right
}

func waitUntil(d time.Duration, cond func() bool) bool {
	deadline := time.Now().Add(d)
	for i := 0; ; i++ {
		if cond() {
			return true
		}
		if time.Now().After(deadline) {
			return false
		}
		if i < 50 {
			time.Sleep(200 * time.Microsecond)
		} else {
			time.Sleep(2 * time.Millisecond)
		}
	}
}

func writeChunks(w io.Writer, key uint64, pos int64, n int64, pace func(done int64)) error {
	chunk := int64(3000)
	if n > 1<<20 {
		chunk = 256 << 10 // large histories are written in big pieces
	}
	buf := make([]byte, chunk)
	var done int64
	for done < n {
		c := n - done
		if c > chunk {
			c = chunk
		}
		prfFill(buf[:c], key, pos+done)
		if _, err := w.Write(buf[:c]); err != nil {
			return err
		}
		done += c
		if pace != nil {
			pace(done)
		}
	}
	return nil
}

// fullSync mirrors a full resynchronisation of the leader's input under id at `left`.
// pace (optional) is called after every chunk of snapshot bytes handed to the writer.
func (f *feeder) fullSync(id string, left, size int64, pace func(done int64)) error {
	f.closeLog()
	if f.input != nil {
		f.input.set(id)
	}
	if err := f.ch.DelRunId(f.ch.RunId()); err != nil {
		return fmt.Errorf("%w: DelRunId: %v", errHarness, err)
	}
	if err := f.ch.SetRunId(id); err != nil {
		return fmt.Errorf("%w: SetRunId: %v", errHarness, err)
	}
	pr, pw := io.Pipe()
	br := bufio.NewReaderSize(pr, 64*1024)
	f.mu.Lock()
	f.id, f.pw, f.right, f.aw, f.upper = id, pw, left, nil, left
	f.mu.Unlock()
	if size > 0 {
		w, err := f.ch.NewRdbWriter(br, left, size)
		if err != nil {
			return fmt.Errorf("%w: NewRdbWriter: %v", errHarness, err)
		}
		w.Start()
		snap := rdbBytes(id, left, size)
		for done := int64(0); done < size; {
			c := size - done
			if c > 3000 {
				c = 3000
			}
			if _, err := pw.Write(snap[done : done+c]); err != nil {
				return fmt.Errorf("%w: snapshot feed: %v", errHarness, err)
			}
			done += c
			if pace != nil {
				pace(done)
			}
		}
		ctx, cancel := context.WithTimeout(context.Background(), feedWatchdog)
		err = w.Wait(ctx)
		expired := ctx.Err() != nil
		cancel()
		w.Close()
		if err != nil || expired {
			return fmt.Errorf("%w: snapshot writer: err=%v expired=%v", errHarness, err, expired)
		}
	}
	aw, err := f.ch.NewAofWritter(br, left)
	if err != nil {
		return fmt.Errorf("%w: NewAofWritter: %v", errHarness, err)
	}
	aw.Start()
	f.mu.Lock()
	f.aw = aw
	f.mu.Unlock()
	return nil
}

// load builds a static history through the writer protocol and leaves the log writer open.
func (f *feeder) load(h hist) error {
	if h.empty() {
		return nil
	}
	if h.IDOnly {
		return f.adoptIDOnly(h.ID, h.Voided)
	}
	if f.input != nil {
		f.input.set(h.ID, zeroReplID)
	}
	if err := f.fullSync(h.ID, h.LogLeft, h.RdbSize, nil); err != nil {
		return err
	}
	if f.input != nil {
		f.input.set(h.ID, zeroReplID)
	}
	return f.append(h.LogRight - h.LogLeft)
}

// failover mirrors what RedisInput.syncMeta/syncData do when the source has failed over and answers
// the PSYNC with +CONTINUE <new id>: the source connection is new (the old log writer ended), the
// input reports [new, old], the cache is re-keyed with SetRunId(new) - no DelRunId - and a new log
// writer continues at the same offset, now fed by the promoted master.
func (f *feeder) failover(newID string) (oldID string, at int64, err error) {
	f.mu.Lock()
	oldID, at = f.id, f.right
	f.mu.Unlock()
	f.closeLog()
	if f.input != nil {
		f.input.set(newID, oldID)
	}
	if err := f.ch.SetRunId(newID); err != nil {
		return oldID, at, fmt.Errorf("%w: SetRunId: %v", errHarness, err)
	}
	pr, pw := io.Pipe()
	aw, err := f.ch.NewAofWritter(bufio.NewReaderSize(pr, 64*1024), at)
	if err != nil {
		return oldID, at, fmt.Errorf("%w: NewAofWritter after fail-over: %v", errHarness, err)
	}
	aw.Start()
	f.mu.Lock()
	f.id, f.pw, f.aw, f.right, f.upper = newID, pw, aw, at, at
	f.mu.Unlock()
	return oldID, at, nil
}

// adoptIDOnly leaves the channel with the source's run id and no byte: what RedisInput.syncMeta +
// syncData leave behind when the cache was voided (DelRunId, SetRunId) and the source connection broke
// before the first byte of the new log writer (at > 0), or the window before that writer exists (at = 0).
func (f *feeder) adoptIDOnly(id string, at int64) error {
	f.closeLog()
	if f.input != nil {
		f.input.set(id, zeroReplID)
	}
	if err := f.ch.DelRunId(f.ch.RunId()); err != nil {
		return fmt.Errorf("%w: DelRunId: %v", errHarness, err)
	}
	if err := f.ch.SetRunId(id); err != nil {
		return fmt.Errorf("%w: SetRunId: %v", errHarness, err)
	}
	f.mu.Lock()
	f.id, f.pw, f.aw, f.right, f.upper = id, nil, nil, -1, -1
	f.mu.Unlock()
	if at > 0 {
		pr, pw := io.Pipe()
		aw, err := f.ch.NewAofWritter(bufio.NewReaderSize(pr, 64*1024), at)
		if err != nil {
			return fmt.Errorf("%w: NewAofWritter: %v", errHarness, err)
		}
		aw.Start()
		pw.Close() // the connection breaks before the first byte
		ctx, cancel := context.WithTimeout(context.Background(), feedWatchdog)
		_ = aw.Wait(ctx)
		cancel()
		aw.Close()
	}
	if sp, _ := f.ch.StartPoint(nil); sp.RunId != id || sp.Offset != -1 {
		return fmt.Errorf("%w: expected a cache with run id and no data, channel reports %v", errHarness, sp)
	}
	return nil
}

// append writes the next n log bytes and waits until the channel accounts for them.
func (f *feeder) append(n int64) error {
	if n <= 0 {
		return nil
	}
	f.mu.Lock()
	pw, id, pos := f.pw, f.id, f.right
	if pw != nil {
		f.upper = pos + n
	}
	f.mu.Unlock()
	if pw == nil {
		return fmt.Errorf("%w: append without a log writer", errHarness)
	}
	if err := writeChunks(pw, aofKey(id), pos, n, nil); err != nil {
		return fmt.Errorf("%w: log feed: %v", errHarness, err)
	}
	want := pos + n
	f.mu.Lock()
	f.right = want
	f.mu.Unlock()
	if !waitUntil(feedWatchdog, func() bool { _, r := f.ch.GetOffsetRange(id); return r >= want }) {
		_, r := f.ch.GetOffsetRange(id)
		return fmt.Errorf("%w: channel did not account for fed bytes: want right %d, has %d", errHarness, want, r)
	}
	return nil
}

// closeLog ends the source connection: the log writer sees EOF and closes its segment.
func (f *feeder) closeLog() {
	f.mu.Lock()
	pw, aw := f.pw, f.aw
	f.pw, f.aw = nil, nil
	f.mu.Unlock()
	if pw != nil {
		pw.Close()
	}
	if aw != nil {
		ctx, cancel := context.WithTimeout(context.Background(), feedWatchdog)
		_ = aw.Wait(ctx)
		cancel()
		aw.Close()
	}
}
