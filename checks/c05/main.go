// C05 — the local cache returns exactly the bytes written, at the offsets written.
//
// Runtime monitor for both implementations of syncer.Channel (disk: StoreChannel over pkg/store,
// memory: MemoryChannel).  Source bytes are a PRF of (epoch, stream, offset); internal/chanmodel
// keeps, per epoch, what was handed to the cache writers; every byte a cache reader delivers and
// every answer of IsValidOffset / GetOffsetRange / GetRdb / StartPoint is checked against it.
// The call protocol mirrors syncer.RedisInput (sessions: StartPoint(ids) → [DelRunId] → SetRunId →
// NewRdbWriter/NewAofWritter → Start/Wait/Close) and syncer.ReplicaLeader (IsValidOffset →
// NewReader → Start(wait) → IoReader; readers are closed through their wait).
package main

import (
	"context"
	"errors"
	"fmt"
	"io"
	"math/rand"
	"os"
	"path/filepath"
	"runtime"
	"sort"
	"strings"
	"sync"
	"sync/atomic"
	"time"

	"github.com/mgtv-tech/redis-GunYu/config"
	"github.com/mgtv-tech/redis-GunYu/pkg/log"
	usync "github.com/mgtv-tech/redis-GunYu/pkg/sync"
	"github.com/mgtv-tech/redis-GunYu/syncer"

	cm "verif/internal/chanmodel"
	"verif/internal/harness"
)

const watchdog = 40 * time.Second // per blocking wait; firing is inconclusive, never a violation

type caseCfg struct {
	Backend string `json:"backend"` // disk | mem
	LogSize int64  `json:"log_size"`
	MaxSize int64  `json:"max_size"` // <=0: unlimited
	Mode    string `json:"mode"`     // sequential | concurrent
	Procs   int    `json:"gomaxprocs,omitempty"`
	Readers int    `json:"readers,omitempty"`
}

// wr is one cache writer and its feed.
type wr struct {
	stream cm.Stream
	feed   *cm.Feed
	w      syncer.RdbChannelWriter
	aw     syncer.AofChannelWriter
	start  int64
	size   int64
	done   chan struct{} // closed when Wait(background) returned
	err    error
	ended  bool
}

// rdr is one cache reader with its consumer.
type rdr struct {
	id      int
	rd      syncer.ChannelReader
	wait    usync.WaitCloser
	rc      *cm.ReaderCheck
	isAof   bool
	start   int64 // replication offset (aof) / 0 (rdb)
	size    int64
	askedAt int64
	gen     int64 // writer generation when opened
	current bool  // opened in a stable state: liveness may be demanded while gen is unchanged
	probe   bool
	dir     string // disk backend: the directory of the replication id the reader was opened under

	started   atomic.Bool
	harnessCl atomic.Bool // closed by the harness (set before closing)
	term      atomic.Bool // the byte stream ended (EOF or error)
	bad       atomic.Bool // a violation was reported for it
	mu        sync.Mutex
	termErr   error
	changed   chan struct{}
	pace      func()
}

func (r *rdr) notify() {
	r.mu.Lock()
	close(r.changed)
	r.changed = make(chan struct{})
	r.mu.Unlock()
}

func (r *rdr) terr() error { r.mu.Lock(); defer r.mu.Unlock(); return r.termErr }

type env struct {
	run  *harness.Run
	key  string
	cfg  caseCfg
	rng  *rand.Rand
	ch   syncer.Channel
	sc   *syncer.StoreChannel
	base string
	m    *cm.Model
	h    *cm.History

	mu      sync.Mutex
	feats   map[string]bool
	readers []*rdr
	nextRd  int
	oldIDs  []string
	oldOffs []int64

	w      *wr
	gen    atomic.Int64
	failed atomic.Bool
	soft   atomic.Bool // a violation was reported but the history went on
	incon  atomic.Bool
	idSeq  int

	guard       bool         // NewReader calls are supervised (verifyCrc group)
	gcSeq       atomic.Int64 // odd while a disk collector pass runs
	maxAofFiles int
	verified    atomic.Int64
}

func (e *env) be() string { return e.cfg.Backend }

func (e *env) feat(f string) {
	e.mu.Lock()
	e.feats[f] = true
	e.mu.Unlock()
}

func (e *env) violate(sig, what string, extra map[string]any) {
	if e.guard && !strings.Contains(sig, "verifycrc") {
		sig += "|verifycrc=true"
	}
	// An aborted snapshot that is still offered is a wrong answer, not a wrong state: the history
	// can go on legally (the next session resynchronises), so it is reported once and the history
	// continues — otherwise this frequent alarm would hide everything that comes later.
	if strings.Contains(sig, "snapshot=incomplete") {
		e.mu.Lock()
		seen := e.feats["reported:"+sig]
		e.feats["reported:"+sig] = true
		e.mu.Unlock()
		if seen {
			return
		}
		e.soft.Store(true)
	} else if e.failed.Swap(true) {
		// one witness per history is enough; later alarms of the same history are usually
		// consequences of the first
		return
	}
	w := map[string]any{"config": e.cfg, "history": e.h.Events()}
	for k, v := range extra {
		w[k] = v
	}
	e.h.Note("VIOLATION %s: %s", sig, what)
	e.run.Violation(sig, e.key, what, w)
}

func (e *env) inconclusive(format string, a ...any) {
	e.incon.Store(true)
	msg := fmt.Sprintf(format, a...)
	e.h.Note("INCONCLUSIVE %s", msg)
	e.run.Inconclusive("%s: %s", e.key, msg)
	if os.Getenv("C05_DEBUG") != "" {
		var files []string
		if e.base != "" {
			filepath.Walk(e.base, func(p string, info os.FileInfo, err error) error {
				if err == nil && !info.IsDir() {
					files = append(files, fmt.Sprintf("%s(%d)", strings.TrimPrefix(p, e.base), info.Size()))
				}
				return nil
			})
		}
		fmt.Printf("DEBUG %s %+v inconclusive: %s\n  files: %v\n  %s\n", e.key, e.cfg, msg, files, strings.Join(e.h.Tail(60), "\n  "))
	}
}

func (e *env) listFiles() []string {
	var files []string
	if e.base != "" {
		filepath.Walk(e.base, func(p string, info os.FileInfo, err error) error {
			if err == nil && !info.IsDir() {
				files = append(files, fmt.Sprintf("%s(%d)", strings.TrimPrefix(p, e.base), info.Size()))
			}
			return nil
		})
	}
	return files
}

func (e *env) stopped() bool { return e.failed.Load() || e.incon.Load() }

func newEnv(run *harness.Run, key string, c caseCfg, rng *rand.Rand) *env {
	e := &env{run: run, key: key, cfg: c, rng: rng, feats: map[string]bool{}}
	hmax := 400
	if c.Mode == "concurrent" {
		hmax = 240
	}
	e.h = cm.NewHistory(hmax)
	e.m = cm.NewModel(cm.PRF{Key: uint64(rng.Int63())})
	if c.Backend == "disk" {
		dir, err := os.MkdirTemp("", "verif-c05-")
		if err != nil {
			e.inconclusive("mkdtemp: %v", err)
			return e
		}
		e.base = dir
		e.ch = syncer.NewStoreChannel(syncer.StorerConf{InputId: key, Dir: dir, MaxSize: c.MaxSize, LogSize: c.LogSize})
		e.sc = e.ch.(*syncer.StoreChannel)
	} else {
		e.ch = syncer.NewMemoryChannel(syncer.MemoryConf{InputId: key, MaxSize: c.MaxSize, LogSize: c.LogSize})
	}
	return e
}

func (e *env) newID() string {
	e.idSeq++
	return fmt.Sprintf("%s-id%d-%08x", strings.ReplaceAll(e.key, "-", ""), e.idSeq, e.rng.Uint32())
}

// yield perturbs the schedule at the harness boundary.
func yield(rng *rand.Rand) {
	switch n := rng.Intn(20); {
	case n < 9:
	case n < 17:
		runtime.Gosched()
	default:
		time.Sleep(time.Duration(20+rng.Intn(400)) * time.Microsecond)
	}
}

// ---- files of the disk backend (evidence only: rotation and collection actually observed) ----

func (e *env) diskFiles() (aof, rdb int) {
	if e.base == "" {
		return
	}
	filepath.Walk(e.base, func(p string, info os.FileInfo, err error) error {
		if err != nil || info.IsDir() {
			return nil
		}
		if strings.HasSuffix(p, ".aof") {
			aof++
		} else if strings.HasSuffix(p, ".rdb") {
			rdb++
		}
		return nil
	})
	return
}

func (e *env) noteFiles() {
	if e.base == "" {
		return
	}
	a, _ := e.diskFiles()
	e.mu.Lock()
	if a > e.maxAofFiles {
		e.maxAofFiles = a
	}
	e.mu.Unlock()
	if a >= 2 {
		e.feat("rot")
	}
}

// gc runs one synchronous collector pass of the disk backend.
func (e *env) gc() {
	if e.sc == nil {
		return
	}
	a0, r0 := e.diskFiles()
	e.mu.Lock()
	if a0 > e.maxAofFiles {
		e.maxAofFiles = a0
	}
	e.mu.Unlock()
	if a0 >= 2 {
		e.feat("rot")
	}
	e.gcSeq.Add(1)
	e.sc.VerifGcNow()
	e.gcSeq.Add(1)
	a1, r1 := e.diskFiles()
	if a1 != a0 || r1 != r0 || e.cfg.Mode == "sequential" {
		e.h.Op("gc", "VerifGcNow", "", fmt.Sprintf("aof files %d->%d rdb files %d->%d", a0, a1, r0, r1))
	}
	e.run.Count("collector_passes", 1)
	if a1 < a0 || r1 < r0 {
		e.run.Count("collector_passes_that_removed", 1)
		if a1 < a0 {
			e.feat("gc.aof")
		}
		if r1 < r0 {
			e.feat("gc.rdb")
		}
	}
}

// ---- cache operations (each recorded in the history) ----

func (e *env) startPoint(ids []string) syncer.StartPoint {
	// on the disk backend StartPoint(ids) re-reads the directory and replaces the index
	if len(ids) > 0 {
		e.m.BeginChange()
		defer e.m.EndChange()
		e.gen.Add(1)
	}
	id := e.h.Call("ctl", "StartPoint", fmt.Sprint(ids))
	sp, err := e.ch.StartPoint(ids)
	e.h.Ret("ctl", id, fmt.Sprintf("{%s %d} err=%v", sp.RunId, sp.Offset, err))
	return sp
}

func (e *env) delRunId(id string) {
	e.m.BeginChange()
	defer e.m.EndChange()
	cur := e.ch.RunId()
	effective := id != "" && id != "?" && id == cur // disk: anything else is a no-op for the data of cur
	if e.be() == "mem" {
		effective = !(id != "" && id != "?" && cur != "" && id != cur)
	}
	if effective {
		e.gen.Add(1)
		e.rememberEpoch()
		e.m.NewEpoch("")
	}
	c := e.h.Call("ctl", "DelRunId", id)
	err := e.ch.DelRunId(id)
	e.h.Ret("ctl", c, fmt.Sprintf("err=%v effective=%v", err, effective))
	if err != nil {
		e.inconclusive("DelRunId(%s): %v", id, err)
	}
}

func (e *env) setRunId(id string) {
	e.m.BeginChange()
	defer e.m.EndChange()
	e.gen.Add(1)
	if old := e.m.Cur().RunID(); old != "" && old != id {
		e.mu.Lock()
		e.oldIDs = append(e.oldIDs, old)
		e.mu.Unlock()
		if e.m.Cur().HasData() {
			e.feat("runid-switch")
		}
	}
	c := e.h.Call("ctl", "SetRunId", id)
	err := e.ch.SetRunId(id)
	e.h.Ret("ctl", c, fmt.Sprintf("err=%v", err))
	if err != nil {
		e.inconclusive("SetRunId(%s): %v", id, err)
		return
	}
	e.m.Cur().SetRunID(id)
}

// rememberEpoch keeps coordinates of the epoch about to be reset, to probe them later.
func (e *env) rememberEpoch() {
	ep := e.m.Cur()
	e.mu.Lock()
	defer e.mu.Unlock()
	if id := ep.RunID(); id != "" {
		e.oldIDs = append(e.oldIDs, id)
	}
	if l, _, ok := ep.RdbInfo(); ok {
		e.oldOffs = append(e.oldOffs, l)
	}
	if _, hi, ok := ep.AofBounds(); ok {
		e.oldOffs = append(e.oldOffs, hi)
	}
}

func (e *env) watch(w *wr) {
	w.w.Start()
	go func() {
		err := w.w.Wait(context.Background())
		w.err = err
		close(w.done)
	}()
}

func (e *env) newRdbWriter(left, size int64) *wr {
	e.m.BeginChange()
	defer e.m.EndChange()
	e.gen.Add(1)
	e.rememberEpoch()
	rid := e.m.Cur().RunID()
	ep := e.m.NewEpoch(rid)
	f := cm.NewFeed(e.m.PRF, ep.RdbID(left), cm.Rdb, 0)
	ep.BeginRdb(left, size, f)
	c := e.h.Call("ctl", "NewRdbWriter", fmt.Sprintf("left=%d size=%d epoch=%d", left, size, ep.ID))
	w, err := e.ch.NewRdbWriter(f, left, size)
	e.h.Ret("ctl", c, fmt.Sprintf("err=%v", err))
	if err != nil {
		e.inconclusive("NewRdbWriter: %v", err)
		return nil
	}
	x := &wr{stream: cm.Rdb, feed: f, w: w, start: left, size: size, done: make(chan struct{})}
	e.watch(x)
	e.w = x
	e.feat("rdb")
	e.run.Count("epochs", 1)
	return x
}

// newAofWriter creates a replication-stream writer at off.  mustAccept=false: a refusal is a
// legitimate answer (memory backend, discontinuous offset) and nothing changes.
func (e *env) newAofWriter(off int64, mustAccept bool) *wr {
	e.m.BeginChange()
	defer e.m.EndChange()
	ep := e.m.Cur()
	f := cm.NewFeed(e.m.PRF, ep.AofID(), cm.Aof, off)
	c := e.h.Call("ctl", "NewAofWritter", fmt.Sprintf("off=%d epoch=%d", off, ep.ID))
	w, err := e.ch.NewAofWritter(f, off)
	e.h.Ret("ctl", c, fmt.Sprintf("err=%v", err))
	if err != nil {
		if mustAccept {
			e.inconclusive("NewAofWritter(%d): %v", off, err)
		}
		return nil
	}
	if !mustAccept {
		e.inconclusive("a discontinuous writer at %d was accepted: the harness cannot continue this history legally", off)
		return nil
	}
	e.gen.Add(1)
	if !ep.HasData() {
		e.run.Count("epochs", 1)
	}
	ep.BeginAof(off, f)
	x := &wr{stream: cm.Aof, feed: f, w: w, aw: w, start: off, done: make(chan struct{})}
	e.watch(x)
	e.w = x
	e.feat("aof")
	return x
}

// push hands n more bytes to the current writer; wait=true blocks until they are stored.
func (e *env) push(n int, wait bool) {
	w := e.w
	if w == nil || w.ended || n <= 0 {
		return
	}
	e.guardCapacity(int64(n))
	w.feed.Push(n)
	e.h.Op("ctl", "append", fmt.Sprintf("%s +%d", w.stream, n), fmt.Sprintf("pushed=%d", w.feed.Pushed()))
	if wait {
		e.waitStored(w)
	}
}

// waitStored blocks until the writer has stored everything pushed (it is back in Read) or ended.
func (e *env) waitStored(w *wr) bool {
	stop := make(chan struct{})
	t := time.AfterFunc(watchdog, func() { close(stop) })
	defer t.Stop()
	res := make(chan bool, 1)
	go func() { res <- w.feed.WaitIdle(stop) }()
	select {
	case ok := <-res:
		if !ok {
			e.inconclusive("watchdog: writer did not take %d pushed bytes (handed %d)", w.feed.Pushed(), w.feed.Handed())
		}
		return ok
	case <-w.done:
		return false
	}
}

// endWriter finishes the current writer.  style: "eof" (connection ends), "close" (Close() while
// the writer waits for input: the path taken when the run's context is cancelled).
func (e *env) endWriter(style string) {
	w := e.w
	if w == nil || w.ended {
		return
	}
	w.ended = true
	// finishing a writer can change what the cache offers (an aborted snapshot is dropped, an
	// empty segment removed, a collection triggered)
	e.m.BeginChange()
	defer e.m.EndChange()
	switch style {
	case "close":
		c := e.h.Call("ctl", "writer.Close", w.stream.String())
		w.w.Close()
		e.h.Ret("ctl", c, "")
		w.feed.End(io.ErrClosedPipe)
	default:
		w.feed.End(io.EOF)
	}
	select {
	case <-w.done:
	case <-time.After(watchdog):
		e.inconclusive("watchdog: writer did not finish after %s", style)
		return
	}
	w.w.Close()
	e.h.Op("ctl", "writer.Wait", w.stream.String()+" "+style, fmt.Sprintf("err=%v handed=%d", w.err, w.feed.Handed()))
	if w.stream == cm.Rdb {
		e.m.Cur().EndRdb()
	}
	e.noteFiles()
}

// guardCapacity: the memory backend applies back-pressure (the writer blocks) while a reader
// pins the oldest segment; a reader the harness has not started yet would pin it forever.
func (e *env) guardCapacity(n int64) {
	if e.be() != "mem" || e.cfg.MaxSize <= 0 {
		return
	}
	ep := e.m.Cur()
	var upper int64
	if _, hi := ep.RdbBounds(); hi > 0 {
		upper += hi
	}
	if st, ok := ep.AofStart(); ok {
		_, hi, _ := ep.AofBounds()
		upper += hi - st
	}
	if e.w != nil {
		upper += e.w.feed.Pushed() - e.w.feed.Handed()
	}
	if upper+n <= e.cfg.MaxSize {
		return
	}
	for _, r := range e.liveReaders() {
		if !r.started.Load() {
			e.startReader(r)
		}
	}
}

func (e *env) liveReaders() []*rdr {
	e.mu.Lock()
	defer e.mu.Unlock()
	return append([]*rdr(nil), e.readers...)
}

// ---- readers ----

// openReader calls NewReader(off) and, on success, wraps the reader with its verifier.  s1/e1
// are the change sequence and epoch observed before the validity question that led here.
func (e *env) openReader(who string, rid string, off int64, s1 int64, e1 int) (*rdr, error) {
	c := e.h.Call(who, "NewReader", fmt.Sprintf("%s:%d", rid, off))
	gen := e.gen.Load()
	rd, err := e.guardedNewReader(rid, off)
	e2 := e.m.CurID()
	s2 := e.m.ChangeSeq()
	if err != nil {
		e.h.Ret(who, c, fmt.Sprintf("err=%v", err))
		return nil, err
	}
	lo := e1
	if s1%2 == 1 && lo > 0 {
		lo--
	}
	r := &rdr{rd: rd, isAof: rd.IsAof(), size: rd.Size(), askedAt: off, gen: gen, changed: make(chan struct{})}
	r.current = s1 == s2 && s1%2 == 0 && gen == e.gen.Load()
	if e.base != "" {
		r.dir = filepath.Join(e.base, rid)
	}
	if r.isAof {
		r.start = off
		r.rc = e.m.NewReaderCheck(lo, e2, cm.Aof, off)
	} else {
		r.rc = e.m.NewReaderCheck(lo, e2, cm.Rdb, 0)
	}
	e.mu.Lock()
	e.nextRd++
	r.id = e.nextRd
	e.readers = append(e.readers, r)
	e.mu.Unlock()
	e.h.Ret(who, c, fmt.Sprintf("reader#%d aof=%v left=%d size=%d epochs=%v", r.id, r.isAof, rd.Left(), rd.Size(), r.rc.Epochs()))
	e.run.Count("readers_opened", 1)
	return r, nil
}

var errHung = errors.New("NewReader did not return")

// guardedNewReader calls NewReader; if the call does not return it inspects the goroutine stacks:
// a goroutine that waits for the read lock of Storer.dataSetMux below Storer.GetReader, which
// holds the write lock of the same mutex, waits for itself — a structural fact, not a timing one.
func (e *env) guardedNewReader(rid string, off int64) (syncer.ChannelReader, error) {
	if !e.guard {
		return e.ch.NewReader(syncer.Offset{RunId: rid, Offset: off})
	}
	type res struct {
		rd  syncer.ChannelReader
		err error
	}
	ch := make(chan res, 1)
	go func() {
		rd, err := e.ch.NewReader(syncer.Offset{RunId: rid, Offset: off})
		ch <- res{rd, err}
	}()
	for i := 0; ; i++ {
		select {
		case r := <-ch:
			return r.rd, r.err
		case <-time.After(1500 * time.Millisecond):
		}
		buf := make([]byte, 4<<20)
		buf = buf[:runtime.Stack(buf, true)]
		for _, g := range strings.Split(string(buf), "\n\n") {
			if strings.Contains(g, "store.(*Storer).GetReader") && strings.Contains(g, "store.(*Storer).getDataSet") && strings.Contains(g, "RWMutex).RLock") {
				e.violate(fmt.Sprintf("iii-unreadable|%s|newreader-self-deadlock|verifycrc=%v", e.be(), config.GetSyncerConfig().Channel.VerifyCrc),
					fmt.Sprintf("(iii) IsValidOffset said offset %d is readable; NewReader never returns: Storer.GetReader holds dataSetMux for writing and, through AofRotateReader.isCorrupted → hasWriter → getDataSet, waits for the same mutex for reading", off),
					map[string]any{"goroutine": strings.Split(g, "\n")})
				return nil, errHung
			}
		}
		if i > 20 {
			e.inconclusive("watchdog: NewReader(%d) did not return", off)
			return nil, errHung
		}
	}
}

func (e *env) startReader(r *rdr) {
	if r.started.Swap(true) {
		return
	}
	if r.gen != e.gen.Load() {
		e.feat("rd.started-after-invalidation")
		e.run.Count("readers_started_after_invalidation", 1)
	}
	r.wait = usync.NewWaitCloser(nil)
	e.h.Op("rd", "reader.Start", fmt.Sprintf("#%d", r.id), "")
	r.rd.Start(r.wait)
	go e.consume(r)
}

func (e *env) consume(r *rdr) {
	br := r.rd.IoReader()
	buf := make([]byte, 1+e.consumerBuf(r))
	sincePace := 0
	for {
		n, err := br.Read(buf)
		if n > 0 {
			e.verified.Add(int64(n))
			if mm := r.rc.Verify(buf[:n]); mm != nil && !r.bad.Swap(true) {
				if len(mm.Got) < 16 { // a short read: look at what follows to identify the bytes
					if br.Buffered() < 16 {
						time.Sleep(20 * time.Millisecond)
					}
					k := br.Buffered()
					if k > 16 {
						k = 16
					}
					if more, _ := br.Peek(k); len(more) > 0 {
						e.m.Extend(mm, more)
					}
				}
				kind := "current"
				if !r.current || r.gen != e.gen.Load() {
					kind = "invalidated"
				}
				e.violate(fmt.Sprintf("i-bytes|%s|%s|reader=%s", e.be(), mm.Kind, kind),
					"(i) a reader delivered bytes that are not the source bytes at its offsets: "+mm.String(),
					map[string]any{"reader": r.describe(), "mismatch": mm.String()})
			}
			r.notify()
		}
		if err != nil {
			r.mu.Lock()
			r.termErr = err
			r.mu.Unlock()
			r.term.Store(true)
			r.notify()
			if !r.probe {
				e.h.Note("reader#%d ended after %d bytes: %v (closed by harness: %v)", r.id, r.rc.Pos(), err, r.harnessCl.Load())
			}
			return
		}
		if r.pace != nil {
			sincePace += n
			if sincePace >= 4096 {
				sincePace = 0
				r.pace()
			}
		}
	}
}

func (e *env) consumerBuf(r *rdr) int {
	return []int{0, 6, 63, 511, 4095, 16383, 65535}[uint64(int64(r.id)*7+r.askedAt)%7]
}

func (r *rdr) describe() string {
	k := "rdb"
	if r.isAof {
		k = "aof"
	}
	return fmt.Sprintf("reader#%d kind=%s opened_at=%d left=%d size=%d epochs=%v verified=%d", r.id, k, r.askedAt, r.rd.Left(), r.size, r.rc.Epochs(), r.rc.Pos())
}

type waitResult int

const (
	waitDone     waitResult = iota // reached n, or the stream ended, or stop()
	waitStarved                    // see starved
	waitWatchdog                   // no progress for the watchdog period: inconclusive
)

// waitReader blocks until the reader verified n bytes, or its stream ended, or stop() is true.
func (e *env) waitReader(r *rdr, n int64, stop func() bool) waitResult {
	lastPos, lastProgress, lastCheck := r.rc.Pos(), time.Now(), time.Now()
	for {
		r.mu.Lock()
		ch := r.changed
		r.mu.Unlock()
		if r.rc.Pos() >= n || r.term.Load() || r.bad.Load() || (stop != nil && stop()) {
			return waitDone
		}
		if p := r.rc.Pos(); p != lastPos {
			lastPos, lastProgress, lastCheck = p, time.Now(), time.Now()
		} else if time.Since(lastCheck) > 1500*time.Millisecond {
			// the consumer has been blocked in Read for over a second: the pipe is empty, so the
			// cache reader itself is at this position
			if e.starved(r) && r.rc.Pos() == lastPos {
				return waitStarved
			}
			lastCheck = time.Now()
			if time.Since(lastProgress) > watchdog {
				return waitWatchdog
			}
		}
		select {
		case <-ch:
		case <-time.After(5 * time.Millisecond):
		}
	}
}

// starved: disk backend, stream reader: the next offset the reader owes has certainly been stored
// (it is below the confirmed right edge) but is in no segment file any more, and the reader has
// made no progress for over a second (its own poll interval is 10 ms): it can never progress, the
// collector removed a segment the reader still needed.  A stored offset whose file is gone never
// comes back, so the fact is stable.
func (e *env) starved(r *rdr) bool {
	if e.base == "" || !r.isAof || r.term.Load() {
		return false
	}
	next := r.start + r.rc.Pos()
	if lo, _, ok := e.m.Cur().AofBounds(); !ok || next >= lo {
		return false // the byte may not be stored yet
	}
	covered := false
	// a disk reader looks for its next segment under the directory it was opened under; after the
	// replication id was switched (directory renamed) that directory does not come back
	root := e.base
	if r.dir != "" && r.gen != e.gen.Load() {
		root = r.dir
	}
	filepath.Walk(root, func(p string, info os.FileInfo, err error) error {
		if err != nil || info.IsDir() || !strings.HasSuffix(p, ".aof") {
			return nil
		}
		var left int64
		if _, err := fmt.Sscanf(filepath.Base(p), "%d.aof", &left); err == nil {
			if left <= next && next < left+info.Size()-16 {
				covered = true
			}
		}
		return nil
	})
	return !covered
}

// closeReader closes a reader the way the tool does (through the wait it was started with).
func (e *env) closeReader(r *rdr) {
	if r.harnessCl.Swap(true) {
		return
	}
	if !r.probe {
		e.h.Op("rd", "reader.Close", fmt.Sprintf("#%d", r.id), fmt.Sprintf("verified=%d", r.rc.Pos()))
	}
	if !r.started.Swap(true) && e.be() == "disk" {
		// the disk reader releases its file and reference only through the wait it was started with
		r.wait = usync.NewWaitCloser(nil)
		r.rd.Start(r.wait)
	}
	if r.wait != nil {
		r.wait.Close(nil)
		r.wait.WgWait()
	}
	r.rd.Close()
	e.mu.Lock()
	for i, x := range e.readers {
		if x == r {
			e.readers = append(e.readers[:i], e.readers[i+1:]...)
			break
		}
	}
	e.mu.Unlock()
}

// ---- oracle: quiescent checks (writer idle or ended, no collector pass running) ----

type facts struct {
	ep                *cm.Epoch
	rid               string
	hasAof            bool
	aofStart, right   int64 // right: exact right edge (lo == hi at quiescence)
	hasRdb            bool
	rdbLeft, rdbSize  int64
	rdbEnded, rdbDone bool
	rdbStored         int64
	snapshot          string // none | writing | complete | incomplete
	exact             bool
}

func (e *env) facts() facts {
	ep := e.m.Cur()
	f := facts{ep: ep, rid: ep.RunID()}
	lo, hi, ok := ep.AofBounds()
	f.hasAof = ok
	f.exact = true
	if ok {
		f.aofStart, _ = ep.AofStart()
		f.right = hi
		f.exact = lo == hi
	}
	f.rdbLeft, f.rdbSize, f.hasRdb = ep.RdbInfo()
	f.snapshot = "none"
	if f.hasRdb {
		f.rdbEnded, f.rdbDone = ep.RdbState()
		rlo, rhi := ep.RdbBounds()
		f.rdbStored = rhi
		if rlo != rhi {
			f.exact = false
		}
		switch {
		case !f.rdbEnded:
			f.snapshot = "writing"
		case f.rdbDone:
			f.snapshot = "complete"
		default:
			f.snapshot = "incomplete"
		}
		if !f.hasAof {
			f.right = f.rdbLeft
		}
	}
	return f
}

// confirmUnreadable is asked after a NewReader that failed although the cache had just reported the
// offset readable.  The disk store runs its own collector every 30 s (Storer.gcLogJob) and the
// memory backend collects on size pressure; neither can be paused by the harness, and a collected
// offset simply is no longer valid (GetReader answers ErrNotExist for an offset outside the range as
// well as for a missing file).  A hole is different: it stays reported readable and stays
// unreadable.  So the question is asked again and only the persistent answer is a violation.
func (e *env) confirmUnreadable(who, rid string, off int64) bool {
	if !e.ch.IsValidOffset(syncer.Offset{RunId: rid, Offset: off}) {
		e.h.Op(who, "IsValidOffset(again)", fmt.Sprintf("%s:%d", rid, off), "false")
		e.run.Count("newreader_error_excused_offset_collected_meanwhile", 1)
		return false
	}
	r, err := e.openReader(who, rid, off, e.m.ChangeSeq(), e.m.CurID())
	if err == nil {
		e.closeReader(r)
		e.run.Count("newreader_error_transient_second_attempt_succeeded", 1)
		return false
	}
	return err != errHung
}

// expectReadable: the cache said a read at off is possible (why = which answer said so); open a
// reader there and verify what it delivers up to the known right edge.  Returns false when a
// violation or inconclusive result was recorded.
func (e *env) expectReadable(f facts, off int64, why string) bool {
	s1 := e.m.ChangeSeq()
	r, err := e.openReader("probe", f.rid, off, s1, e.m.CurID())
	ctx := map[string]any{"offset": off, "said_by": why, "snapshot_state": f.snapshot, "model": fmt.Sprintf("%+v", f)}
	if err == errHung {
		return false
	}
	if err != nil {
		if !e.confirmUnreadable("probe", f.rid, off) {
			return true
		}
		e.violate(fmt.Sprintf("iii-unreadable|%s|%s|newreader-error|snapshot=%s", e.be(), why, f.snapshot),
			fmt.Sprintf("(iii)/(iv)/(v) the cache reported offset %d readable (%s) but NewReader failed: %v", off, why, err), ctx)
		return false
	}
	r.probe = true
	defer e.closeReader(r)
	ctx["reader"] = r.describe()
	var want int64
	if r.isAof {
		if !f.hasAof || off < f.aofStart || off > f.right {
			e.violate(fmt.Sprintf("iii-unreadable|%s|%s|stream-reader-outside-written", e.be(), why),
				fmt.Sprintf("(iii) offset %d was reported readable (%s) and a stream reader was handed out, but the epoch holds stream bytes only in [%d,%d)", off, why, f.aofStart, f.right), ctx)
			return false
		}
		want = f.right - off
		if want > 24<<10 {
			want = 24 << 10
		}
	} else {
		if !f.hasRdb || off > f.rdbLeft || r.rd.Left() != f.rdbLeft || r.size != f.rdbSize {
			e.violate(fmt.Sprintf("iii-unreadable|%s|%s|snapshot-reader-mismatch", e.be(), why),
				fmt.Sprintf("(iii) offset %d reported readable (%s): snapshot reader left=%d size=%d, the epoch's snapshot is left=%d size=%d present=%v", off, why, r.rd.Left(), r.size, f.rdbLeft, f.rdbSize, f.hasRdb), ctx)
			return false
		}
		if f.snapshot == "writing" {
			want = f.rdbStored
		} else {
			want = f.rdbSize
		}
	}
	e.startReader(r)
	if e.waitReader(r, want, nil) != waitDone {
		e.inconclusive("watchdog: probe reader at %d (%s) delivered %d of %d bytes and neither ended nor progressed", off, why, r.rc.Pos(), want)
		return false
	}
	if r.bad.Load() {
		return false
	}
	if r.rc.Pos() < want {
		e.violate(fmt.Sprintf("iii-unreadable|%s|%s|short-read|snapshot=%s", e.be(), why, f.snapshot),
			fmt.Sprintf("(iii)/(iv) offset %d was reported readable (%s) but the reader ended after %d of the %d bytes present/promised: %v", off, why, r.rc.Pos(), want, r.terr()), ctx)
		return false
	}
	e.run.Count("probe_reads_verified", 1)
	return true
}

// probe runs the query clauses at a quiescent point.
func (e *env) probe(tag string) {
	if e.stopped() {
		return
	}
	f := e.facts()
	if !f.exact {
		return
	}
	rid := e.ch.RunId()
	e.run.Count("quiescent_probes", 1)
	l, r := e.ch.GetOffsetRange(rid)
	rl, rs := e.ch.GetRdb(rid)
	sp, _ := e.ch.StartPoint(nil)
	e.h.Op("probe", "queries", tag, fmt.Sprintf("RunId=%s GetOffsetRange=(%d,%d) GetRdb=(%d,%d) StartPoint(nil)={%s %d}", rid, l, r, rl, rs, sp.RunId, sp.Offset))
	f.rid = rid
	ctx := map[string]any{"model": fmt.Sprintf("%+v", f), "at": tag}

	// (v) GetOffsetRange
	if l != -1 || r != -1 {
		e.run.Count("ranges_checked", 1)
		if !f.ep.HasData() || r != f.right || l > r {
			e.violate(fmt.Sprintf("v-range|%s|right-edge", e.be()),
				fmt.Sprintf("(v) GetOffsetRange=(%d,%d) but the bytes written end at %d (has data: %v)", l, r, f.right, f.ep.HasData()), ctx)
			return
		}
		if e.be() == "mem" && f.hasAof && l > f.aofStart {
			e.feat("gc.aof")
			e.run.Count("mem_collections_observed", 1)
		}
		xs := []int64{l, r, (l + r) / 2}
		if r-l > 2 {
			xs = append(xs, l+1+e.rng.Int63n(r-l-1), r-1)
		}
		for _, x := range pick(e.rng, xs, 3) {
			if !e.expectReadable(f, x, "in-range") {
				return
			}
		}
	}
	// (iv) GetRdb
	if rl != -1 || rs != -1 {
		e.run.Count("snapshot_offers_checked", 1)
		if !f.hasRdb || rl != f.rdbLeft || rs != f.rdbSize {
			e.violate(fmt.Sprintf("iv-rdb-offered|%s|unknown-snapshot", e.be()),
				fmt.Sprintf("(iv) GetRdb=(%d,%d) but the epoch's snapshot is (%d,%d) present=%v", rl, rs, f.rdbLeft, f.rdbSize, f.hasRdb), ctx)
			return
		}
		if f.snapshot != "writing" && !e.expectReadable(f, rl-rs, "snapshot-offered") {
			return
		}
	} else if e.be() == "mem" && f.snapshot == "complete" {
		e.feat("gc.rdb")
	}
	// (iii) IsValidOffset
	cands := []int64{l, r, r + 1, l - 1, f.right, f.right + 1, f.right + 100}
	if f.hasRdb {
		cands = append(cands, f.rdbLeft, f.rdbLeft-1, f.rdbLeft-f.rdbSize, f.rdbLeft+1)
	}
	if f.hasAof {
		cands = append(cands, f.aofStart, f.aofStart-1, f.aofStart+(f.right-f.aofStart)/2, f.aofStart+e.rng.Int63n(f.right-f.aofStart+1))
	}
	e.mu.Lock()
	cands = append(cands, e.oldOffs...)
	olds := append([]string(nil), e.oldIDs...)
	e.mu.Unlock()
	opened := 0
	for _, x := range pick(e.rng, cands, 7) {
		v := e.ch.IsValidOffset(syncer.Offset{RunId: rid, Offset: x})
		e.h.Op("probe", "IsValidOffset", fmt.Sprintf("%s:%d", rid, x), fmt.Sprint(v))
		e.run.Count("validity_answers_checked", 1)
		if !v {
			continue
		}
		if !f.ep.HasData() || x > f.right {
			e.violate(fmt.Sprintf("iii-valid|%s|beyond-right", e.be()),
				fmt.Sprintf("(iii) IsValidOffset(%d)=true but the bytes written end at %d", x, f.right), ctx)
			return
		}
		if opened < 3 {
			opened++
			if !e.expectReadable(f, x, "valid") {
				return
			}
		}
	}
	// answers for a replication id the cache does not hold
	foreign := "no-such-id"
	if len(olds) > 0 && e.rng.Intn(2) == 0 {
		foreign = olds[e.rng.Intn(len(olds))]
	}
	if foreign != rid && rid != "" {
		x := f.right
		v := e.ch.IsValidOffset(syncer.Offset{RunId: foreign, Offset: x})
		fl, fr := e.ch.GetOffsetRange(foreign)
		frl, frs := e.ch.GetRdb(foreign)
		e.h.Op("probe", "foreign-id", foreign, fmt.Sprintf("IsValidOffset(%d)=%v range=(%d,%d) rdb=(%d,%d)", x, v, fl, fr, frl, frs))
		if v || fl != -1 || fr != -1 || frl != -1 || frs != -1 {
			e.violate(fmt.Sprintf("iii-valid|%s|foreign-runid", e.be()),
				fmt.Sprintf("(iii) the cache holds replication id %q but answered for %q: IsValidOffset(%d)=%v range=(%d,%d) rdb=(%d,%d)", rid, foreign, x, v, fl, fr, frl, frs), ctx)
		}
	}
}

func pick(rng *rand.Rand, xs []int64, n int) []int64 {
	seen := map[int64]bool{}
	var u []int64
	for _, x := range xs {
		if !seen[x] {
			seen[x] = true
			u = append(u, x)
		}
	}
	rng.Shuffle(len(u), func(i, j int) { u[i], u[j] = u[j], u[i] })
	if len(u) > n {
		u = u[:n]
	}
	return u
}

// catchUp: liveness clause (ii) for readers that were never invalidated: they must reach the
// right edge; a stream that ended earlier is a violation, no progress is inconclusive.
func (e *env) catchUp(why string) {
	if e.stopped() {
		return
	}
	f := e.facts()
	if !f.exact {
		return
	}
	for _, r := range e.liveReaders() {
		if !r.current || r.gen != e.gen.Load() || !r.started.Load() || r.harnessCl.Load() || r.probe {
			continue
		}
		var want int64
		switch {
		case r.isAof && f.hasAof:
			want = f.right - r.start
		case !r.isAof && f.snapshot == "complete":
			want = f.rdbSize
		default:
			continue
		}
		if res := e.waitReader(r, want, nil); res != waitDone {
			if res == waitStarved {
				e.violate(fmt.Sprintf("ii-live|%s|starved-by-collector|aof", e.be()),
					fmt.Sprintf("(ii) a reader that was not closed and not invalidated stopped at offset %d of %d: the segment holding its next byte has been removed by the collector while the reader was open (%s)", r.start+r.rc.Pos(), f.right, why),
					map[string]any{"reader": r.describe(), "files": e.listFiles()})
				return
			}
			if r.isAof && e.stalledBehindFreshReader(r) {
				e.violate(fmt.Sprintf("ii-live|%s|stalled-while-a-fresh-reader-delivers|aof", e.be()),
					fmt.Sprintf("(ii) a reader that was not closed and not invalidated stopped at offset %d of %d and stayed there while a second reader opened at that very offset delivered the bytes it owes (%s)", r.start+r.rc.Pos(), f.right, why),
					map[string]any{"reader": r.describe(), "files": e.listFiles(), "model": fmt.Sprintf("%+v", f)})
				return
			}
			e.inconclusive("watchdog: %s delivered %d of %d bytes, still open, no progress (%s)", r.describe(), r.rc.Pos(), want, why)
			return
		}
		if r.bad.Load() {
			return
		}
		if r.rc.Pos() < want {
			e.violate(fmt.Sprintf("ii-live|%s|ended-early|%s", e.be(), map[bool]string{true: "aof", false: "rdb"}[r.isAof]),
				fmt.Sprintf("(ii) a reader that was not closed and not invalidated ended after %d bytes while %d were written (%s): %v", r.rc.Pos(), want, why, r.terr()),
				map[string]any{"reader": r.describe(), "model": fmt.Sprintf("%+v", f)})
			return
		}
		e.run.Count("live_reader_catchups", 1)
	}
	e.checkRegistrations(why)
}

// checkRegistrations: structural invariant of the disk cache at a quiescent point of a sequential
// history (writer idle, every live reader has just delivered everything up to the right edge):
// every open log reader holds a registration on the segment it reads - that registration is all
// that keeps the collector from removing the segment under it and all that lets a cache reset
// end it.  So the number of registrations the data set holds is at least the number of readers
// that are live now (started, not ended, not closed, opened in the current generation).  A
// reader that the store has just closed is seen as ended a moment later by its consumer, so a
// deficit only counts when it persists over several looks during which no reader ended.
// (A first version also looked after the writer had ended and raised an alarm on the unchanged
// tree for a reader parked behind a trimmed empty segment: stricter than what correct code does.)
func (e *env) checkRegistrations(why string) {
	if e.sc == nil || e.cfg.Mode != "sequential" || e.stopped() {
		return
	}
	// only while a log writer is active: its segment is open-ended, so every live reader stands
	// inside a segment.  After the writer ended a caught-up reader may legitimately be parked
	// behind the last segment without a registration (it followed the rotation into a new,
	// still empty segment that was trimmed when the writer ended) until the next writer appears.
	if w := e.w; w == nil || w.ended || w.aw == nil {
		return
	}
	live := func() map[int]*rdr {
		out := map[int]*rdr{}
		for _, r := range e.liveReaders() {
			if r.isAof && r.started.Load() && !r.term.Load() && !r.harnessCl.Load() && !r.bad.Load() && r.current && r.gen == e.gen.Load() {
				out[r.id] = r
			}
		}
		return out
	}
	var last string
	for look := 0; look < 6; look++ {
		before := live()
		regs := e.sc.VerifAofReaderRegistrations()
		n := 0
		var perSeg []string
		for left, c := range regs {
			n += c
			perSeg = append(perSeg, fmt.Sprintf("%d.aof:%d", left, c))
		}
		sort.Strings(perSeg)
		after := live()
		need := 0
		var who []string
		for id, r := range before {
			if after[id] != nil {
				need++
				who = append(who, r.describe())
			}
		}
		e.run.Count("registration_invariant_looks", 1)
		if n >= need {
			if need > 0 {
				e.run.Count("registration_invariant_held_with_live_readers", 1)
			}
			return
		}
		sort.Strings(who)
		last = fmt.Sprintf("%d registrations (%s) for %d live readers: %s", n, strings.Join(perSeg, " "), need, strings.Join(who, "; "))
		time.Sleep(25 * time.Millisecond)
	}
	e.violate("ii-live|disk|live-reader-holds-no-segment-registration",
		fmt.Sprintf("(ii) at a quiescent point (%s) the data set holds fewer reader registrations than there are live log readers, over six looks 25 ms apart: %s - the collector may remove the segment under such a reader and a cache reset does not end it", why, last),
		map[string]any{"files": e.listFiles()})
}

// stalledBehindFreshReader decides a reader that made no progress for the whole watchdog period
// without trusting the clock: a second reader is opened at the very offset the first one stands
// at.  If that one delivers (verified) bytes while the first still has not moved, the bytes are
// there and readable on this machine at this load, and the first reader is stuck, not slow.
func (e *env) stalledBehindFreshReader(r *rdr) bool {
	rid := e.ch.RunId()
	pos := r.rc.Pos()
	next := r.start + pos
	if r.gen != e.gen.Load() || !e.ch.IsValidOffset(syncer.Offset{RunId: rid, Offset: next}) {
		return false
	}
	fr, err := e.openReader("rd2", rid, next, e.m.ChangeSeq(), e.m.CurID())
	if err != nil || !fr.isAof {
		if err == nil {
			e.closeReader(fr)
		}
		return false
	}
	fr.probe = true
	e.startReader(fr)
	e.waitReader(fr, 1, nil)
	got := fr.rc.Pos()
	bad := fr.bad.Load()
	e.closeReader(fr)
	e.run.Count("stalled_reader_differential_probes", 1)
	return got >= 1 && !bad && r.rc.Pos() == pos && !r.term.Load() && r.gen == e.gen.Load()
}

// freshReaderDelivers: a second reader opened now at offset next delivers at least one verified byte.
func (e *env) freshReaderDelivers(next int64) bool {
	rid := e.ch.RunId()
	if !e.ch.IsValidOffset(syncer.Offset{RunId: rid, Offset: next}) {
		return false
	}
	fr, err := e.openReader("rd2", rid, next, e.m.ChangeSeq(), e.m.CurID())
	if err != nil || !fr.isAof {
		if err == nil {
			e.closeReader(fr)
		}
		return false
	}
	fr.probe = true
	e.startReader(fr)
	e.waitReader(fr, 1, nil)
	got := fr.rc.Pos()
	bad := fr.bad.Load()
	e.closeReader(fr)
	e.run.Count("stalled_reader_differential_probes", 1)
	return got >= 1 && !bad
}

// storeStacks: the stacks of the goroutines that are inside the cache packages right now (for a
// witness: where a reader that neither follows nor ends is waiting).
func storeStacks() []string {
	buf := make([]byte, 4<<20)
	buf = buf[:runtime.Stack(buf, true)]
	var out []string
	for _, g := range strings.Split(string(buf), "\n\n") {
		if strings.Contains(g, "redis-GunYu/pkg/store") || strings.Contains(g, "redis-GunYu/pkg/io/pipe") {
			var fr []string
			for _, l := range strings.Split(g, "\n") {
				if !strings.HasPrefix(l, "\t") {
					fr = append(fr, strings.TrimSpace(l))
				} else if i := strings.LastIndex(l, "/"); i >= 0 {
					fr[len(fr)-1] += " @" + strings.Fields(l[i+1:])[0]
				}
			}
			if len(fr) > 14 {
				fr = fr[:14]
			}
			out = append(out, strings.Join(fr, " <- "))
		}
	}
	return out
}

// judgeSurvivors: clause (ii) for stream readers that lived through a re-opening of the cache which
// kept the data (the tool reconnects to its source: the disk cache is re-indexed, the data stays
// filed under the same replication id or - after a fail-over answered with +CONTINUE <new id> - is
// re-filed under the new one, and a new writer continues at the right edge).  The statement lets
// such a reader keep following the writer, or end, or fail.  What it may not do is stay open and
// wait for ever for bytes it can never get: neither following nor ended.  Decided on a stable
// structural fact (the file that holds the reader's next byte does not exist where the reader
// looks for it, although that byte is stored) plus a second reader that is given that very byte;
// no progress without that fact stays inconclusive.
func (e *env) judgeSurvivors(surv []*rdr, kind string) {
	if e.stopped() {
		return
	}
	f := e.facts()
	if !f.exact || !f.hasAof {
		return
	}
	for _, r := range surv {
		if r.harnessCl.Load() || r.bad.Load() || !r.isAof || !r.started.Load() {
			continue
		}
		want := f.right - r.start
		res := e.waitReader(r, want, nil)
		switch {
		case r.bad.Load():
			return
		case res == waitDone && r.term.Load() && r.rc.Pos() < want:
			e.run.Count("survivors_ended", 1)
			e.feat("survivor.ended")
		case res == waitDone:
			e.run.Count("survivors_followed_the_new_writer", 1)
			e.feat("survivor.followed")
		case res == waitStarved:
			// stable fact (see starved): the byte the reader owes next is stored history, and the
			// file that held it is not where the reader polls for it - the directory was renamed
			// away, or the collector took the segment because the reader's registration did not
			// survive the re-opening.  It can never be given that byte, and it has not ended.
			next := r.start + r.rc.Pos()
			second := "the offset has meanwhile been collected from the cache altogether"
			if e.freshReaderDelivers(next) {
				second = "a second reader opened at that very offset was given the byte"
			}
			if r.term.Load() || r.rc.Pos()+r.start != next {
				e.run.Count("survivors_ended", 1)
				continue
			}
			e.violate(fmt.Sprintf("ii-live|%s|survivor-left-waiting|%s|aof", e.be(), kind),
				fmt.Sprintf("(ii) a reader that was open when the cache was re-opened (%s, data kept, new writer continued at the right edge) neither followed the new writer nor ended: it stands at offset %d of %d and polls for a segment file that does not exist under %s; %s", kind, next, f.right, strings.TrimPrefix(r.dir, e.base), second),
				map[string]any{"reader": r.describe(), "files": e.listFiles(), "model": fmt.Sprintf("%+v", f), "goroutines_inside_the_cache": storeStacks()})
			return
		default:
			e.inconclusive("watchdog: survivor %s delivered %d of %d bytes, still open, no progress (%s)", r.describe(), r.rc.Pos(), want, kind)
			return
		}
	}
}

// directedSurvivor: readers are open (caught up, or obtained by a slow caller that has not started
// them yet) when the tool reconnects to its source and continues the same history: the writer
// ends, StartPoint(ids) re-opens the cache, SetRunId keeps the data (same id, or a new id with
// the old one second in the list), a new writer continues at the right edge and writes more than
// the size limit while the collector runs.  See judgeSurvivors.
func (e *env) directedSurvivor() {
	rng := e.rng
	seg := int(e.cfg.LogSize)
	src := e.newID()
	e.startPoint([]string{src})
	e.h.Note("session 0 mode=clear (directed: readers that live through a re-opening of the cache)")
	e.delRunId(e.ch.RunId())
	e.setRunId(src)
	off := 1 + rng.Int63n(1<<20)
	if e.newAofWriter(off, true) == nil {
		return
	}
	var surv []*rdr
	total := (2+rng.Intn(3))*seg + rng.Intn(seg)
	for fed := 0; fed < total && !e.stopped(); {
		n := 1 + rng.Intn(seg)
		e.push(n, true)
		fed += n
		if len(surv) < 3 && fed > seg && rng.Intn(2) == 0 {
			if r := e.openAt([]string{"left", "mid", "right"}[rng.Intn(3)], rng.Intn(2) == 0); r != nil && r.isAof {
				surv = append(surv, r)
			}
		}
	}
	if e.stopped() {
		return
	}
	if len(surv) == 0 {
		if r := e.openAt("left", rng.Intn(2) == 0); r != nil && r.isAof {
			surv = append(surv, r)
		}
	}
	e.catchUp("before the cache is re-opened")
	if e.stopped() {
		return
	}
	e.endWriter([]string{"eof", "close"}[rng.Intn(2)])
	kind, ids := "same-id", []string{src}
	if rng.Intn(2) == 0 {
		kind, ids = "new-id", []string{e.newID(), src}
	}
	sp := e.startPoint(ids)
	f := e.facts()
	if !contains(ids, sp.RunId) || sp.Offset != f.right {
		e.run.Count("survivor_histories_not_continuable", 1)
		e.finishHistory()
		return
	}
	e.h.Note("session 1 mode=continue (%s)", kind)
	e.setRunId(ids[0])
	if e.newAofWriter(sp.Offset, true) == nil {
		return
	}
	e.feat("survivor." + kind)
	more := int64((3 + rng.Intn(4)) * seg)
	if e.cfg.MaxSize > 0 && more < e.cfg.MaxSize+int64(2*seg) {
		more = e.cfg.MaxSize + int64(2*seg)
	}
	for fed := int64(0); fed < more && !e.stopped(); {
		n := 1 + rng.Intn(seg)
		e.push(n, true)
		fed += int64(n)
		if rng.Intn(3) == 0 {
			e.gc()
		}
	}
	e.gc()
	for _, r := range surv {
		if !r.started.Load() {
			e.startReader(r)
		}
	}
	e.run.Count("survivor_histories", 1)
	e.judgeSurvivors(surv, kind)
	if e.stopped() {
		return
	}
	e.endWriter("eof")
	e.probe("end of the survivor history")
	e.finishHistory()
}

// directedOpenDuringCollection (verifyCrc group): opening a reader takes long when the segment it
// starts in has to be checksummed first; a collector pass that starts in the middle of that must
// either come too late (the reader holds its registration, nothing it needs is removed) or early
// enough for the open to be refused - it must not take the segments away under a reader that is
// then handed out.  One 1.5-2.5 MiB closed segment, four small closed segments behind it (four short
// continue sessions), size limit 100 KiB, so the pass wants everything but the tail.  The pass is
// started a PRNG fraction of the measured open time after the open was called (the clock shapes
// the schedule only); the reader, if handed out, must reach the right edge (catchUp).
func (e *env) directedOpenDuringCollection() {
	rng := e.rng
	src := e.newID()
	e.startPoint([]string{src})
	e.h.Note("session 0 mode=clear (directed: reader opened while a collector pass runs, verifyCrc)")
	e.delRunId(e.ch.RunId())
	e.setRunId(src)
	off := 1 + rng.Int63n(1<<20)
	if e.newAofWriter(off, true) == nil {
		return
	}
	big := 3<<19 + rng.Intn(1<<20)
	for fed := 0; fed < big && !e.stopped(); fed += 128 << 10 {
		e.push(128<<10, true)
	}
	if e.stopped() {
		return
	}
	e.endWriter("eof")
	t0 := time.Now()
	r0 := e.openAt("left", false)
	d0 := time.Since(t0)
	if r0 != nil {
		e.closeReader(r0)
	}
	if e.stopped() {
		return
	}
	for s := 0; s < 4 && !e.stopped(); s++ {
		sp := e.startPoint([]string{src})
		e.setRunId(src)
		if e.newAofWriter(sp.Offset, true) == nil {
			return
		}
		e.push(40<<10+rng.Intn(30<<10), true)
		if s < 3 {
			e.endWriter("eof")
		}
	}
	if e.stopped() {
		return
	}
	d := time.Duration(rng.Int63n(int64(d0) + 1))
	done := make(chan struct{})
	go func() {
		defer close(done)
		time.Sleep(d)
		e.gc()
	}()
	r := e.openAt("left", false)
	<-done
	e.gc()
	e.run.Count("readers_opened_while_a_collector_pass_was_started", 1)
	if r != nil {
		e.run.Count("readers_handed_out_while_a_collector_pass_was_started", 1)
	}
	e.catchUp(fmt.Sprintf("reader opened while a collector pass was started %v into an open that takes about %v", d, d0))
	if e.stopped() {
		return
	}
	e.endWriter("eof")
	e.probe("end of the open-during-collection history")
	e.finishHistory()
}

// ---- sequential histories ----

// belowPowerOfTen: a start offset at most two segments below a power of ten, so that the names
// of the stream's segment files differ in their number of digits.
func belowPowerOfTen(rng *rand.Rand, logSize int64) int64 {
	p := int64(1000)
	for k := rng.Intn(8); k > 0; k-- {
		p *= 10
	}
	left := p - 1 - rng.Int63n(2*logSize+1)
	if left < 1 {
		left = 1
	}
	return left
}

func chunkSize(rng *rand.Rand) int {
	switch rng.Intn(10) {
	case 0:
		return 1
	case 1, 2:
		return 1 + rng.Intn(16)
	case 3, 4, 5:
		return 1 + rng.Intn(300)
	case 6, 7:
		return 1 + rng.Intn(2048)
	case 8:
		return 4096 // exactly the writers' read buffer
	default:
		return 1 + rng.Intn(16<<10)
	}
}

func genCfg(rng *rand.Rand, i int, mode string) caseCfg {
	c := caseCfg{Mode: mode, Backend: []string{"disk", "mem"}[i%2]}
	c.LogSize = []int64{64, 100, 256, 1000, 4096}[rng.Intn(5)]
	switch rng.Intn(4) {
	case 0:
		c.MaxSize = -1
	case 1:
		c.MaxSize = 3 * c.LogSize
	case 2:
		c.MaxSize = 6 * c.LogSize
	default:
		c.MaxSize = 20 * c.LogSize
	}
	return c
}

// openAt asks the cache about an offset the way ReplicaLeader.sendData / RedisInput do and opens
// a long-lived reader there.  delayed: Start is left for later (a slow caller).
func (e *env) openAt(class string, delayed bool) *rdr {
	f := e.facts()
	rid := e.ch.RunId()
	l, r := e.ch.GetOffsetRange(rid)
	var x int64
	switch class {
	case "left":
		x = l
	case "right":
		x = r
	case "mid":
		x = l
		if r > l {
			x = l + e.rng.Int63n(r-l+1)
		}
	case "rdb":
		if !f.hasRdb {
			return nil
		}
		x = f.rdbLeft - f.rdbSize // what RedisInput asks for after a full sync
		if e.rng.Intn(3) == 0 {
			x = f.rdbLeft - e.rng.Int63n(3)
		}
	case "beyond":
		x = r + 1 + e.rng.Int63n(50)
	case "below":
		x = l - 1 - e.rng.Int63n(50)
	}
	s1, e1 := e.m.ChangeSeq(), e.m.CurID()
	v := e.ch.IsValidOffset(syncer.Offset{RunId: rid, Offset: x})
	e.h.Op("rd", "IsValidOffset", fmt.Sprintf("%s:%d (%s)", rid, x, class), fmt.Sprint(v))
	e.run.Count("validity_answers_checked", 1)
	if v && (!f.ep.HasData() || x > f.right) && f.exact {
		e.violate(fmt.Sprintf("iii-valid|%s|beyond-right", e.be()),
			fmt.Sprintf("(iii) IsValidOffset(%d)=true but the bytes written end at %d", x, f.right), map[string]any{"model": fmt.Sprintf("%+v", f)})
		return nil
	}
	if !v {
		// ReplicaLeader falls back to the cache's own start point without asking again
		sp, _ := e.ch.StartPoint(nil)
		e.h.Op("rd", "StartPoint", "nil", fmt.Sprintf("{%s %d}", sp.RunId, sp.Offset))
		x = sp.Offset
		if e.rng.Intn(2) == 0 || x < 0 {
			return nil
		}
	}
	rd, err := e.openReader("rd", rid, x, s1, e1)
	if err != nil {
		if v && err != errHung && e.confirmUnreadable("rd", rid, x) {
			e.violate(fmt.Sprintf("iii-unreadable|%s|valid|newreader-error|snapshot=%s", e.be(), f.snapshot),
				fmt.Sprintf("(iii) IsValidOffset(%d)=true, nothing happened in between, NewReader failed: %v", x, err), map[string]any{"model": fmt.Sprintf("%+v", f)})
		}
		return nil
	}
	if rd.isAof {
		if !f.hasAof || x < f.aofStart || x > f.right {
			e.violate(fmt.Sprintf("iii-unreadable|%s|valid|stream-reader-outside-written", e.be()),
				fmt.Sprintf("a stream reader was handed out at %d, the epoch holds stream bytes in [%d,%d) (has: %v)", x, f.aofStart, f.right, f.hasAof), map[string]any{"reader": rd.describe()})
			return nil
		}
		e.feat("rd.aof." + class)
	} else {
		e.feat("rd.rdb")
		if f.snapshot == "writing" {
			e.feat("rd.rdb.tail-live-writer")
		}
	}
	if delayed {
		e.feat("rd.delayed-start")
	} else {
		e.startReader(rd)
	}
	return rd
}

func (e *env) sequential() {
	rng := e.rng
	nSess := 1 + rng.Intn(4)
	src := e.newID()
	prevLeft := int64(-1)
	crossing := false // the current epoch's stream started just below a power of ten
	for s := 0; s < nSess && !e.stopped(); s++ {
		ids := []string{src}
		if s > 0 && rng.Intn(3) == 0 { // the source got a new replication id and remembers the old one
			old := src
			src = e.newID()
			ids = []string{src, old}
		}
		sp := e.startPoint(ids)
		f := e.facts()
		canContinue := f.ep.HasData() && contains(ids, sp.RunId) && sp.Offset == f.right && (f.hasAof || f.snapshot == "complete")
		if f.ep.HasData() && contains(ids, sp.RunId) && sp.Offset != f.right && (f.hasAof || f.snapshot == "complete") {
			e.run.Count("startpoint_offset_differs_from_written_right", 1)
		}
		mode := "full"
		switch n := rng.Intn(100); {
		case canContinue && (n < 50 || (crossing && n < 80)):
			mode = "continue"
		case n >= 85:
			mode = "clear"
		}
		e.h.Note("session %d mode=%s ids=%v", s, mode, ids)
		e.feat("sess." + mode)
		switch mode {
		case "full":
			e.delRunId(e.ch.RunId())
			e.setRunId(ids[0])
			left := 1 + rng.Int63n(1<<20)
			if rng.Intn(8) == 0 {
				left += 1 << 33
			}
			if prevLeft > 0 && rng.Intn(3) == 0 {
				left = prevLeft // e.g. an idle source: the next full sync starts at the same offset
				e.feat("same-left-as-previous-epoch")
			} else if crossing = rng.Intn(4) == 0; crossing {
				left = belowPowerOfTen(rng, e.cfg.LogSize)
				e.feat("stream-crosses-a-power-of-ten")
			}
			prevLeft = left
			size := int64(1 + rng.Intn(int(3*e.cfg.LogSize)))
			if rng.Intn(4) == 0 {
				size = int64(1 + rng.Intn(40))
			}
			if e.guard {
				// with verifyCrc the snapshot reader checks the RDB checksum trailer, which PRF
				// bytes do not carry; files of at most 8 bytes are exempt from that check
				size = int64(1 + rng.Intn(8))
			}
			if !e.rdbPhase(left, size) || e.stopped() {
				continue
			}
			if e.newAofWriter(left, true) == nil {
				continue
			}
		case "continue":
			e.setRunId(ids[0])
			if crossing || rng.Intn(2) == 0 {
				// a follower is served from the re-opened cache before the new writer exists (the
				// PSYNC round trip lies in between): everything stored must still be delivered
				if rd := e.openAt([]string{"left", "mid", "mid"}[rng.Intn(3)], false); rd != nil {
					e.feat("reader-on-reopened-cache-before-writer")
					e.catchUp("reader opened on the re-opened cache before the writer")
					if e.stopped() {
						continue
					}
				}
			}
			if e.newAofWriter(sp.Offset, true) == nil {
				continue
			}
			e.feat("writer-continued")
		case "clear":
			e.delRunId(e.ch.RunId())
			e.setRunId(ids[0])
			off := 1 + rng.Int63n(1<<20)
			if prevLeft > 0 && rng.Intn(3) == 0 {
				off = prevLeft
				e.feat("same-left-as-previous-epoch")
			} else if crossing = rng.Intn(4) == 0; crossing {
				off = belowPowerOfTen(rng, e.cfg.LogSize)
				e.feat("stream-crosses-a-power-of-ten")
			}
			prevLeft = off
			if e.newAofWriter(off, true) == nil {
				continue
			}
		}
		if rng.Intn(3) > 0 {
			// RedisInput opens its reader right after creating the writer
			e.openAt([]string{"left", "right", "rdb"}[rng.Intn(3)], false)
		}
		e.aofPhase()
		if e.stopped() {
			break
		}
		e.endWriter([]string{"eof", "eof", "close"}[rng.Intn(3)])
		e.catchUp("writer finished")
		e.probe(fmt.Sprintf("end of session %d", s))
	}
	e.finishHistory()
}

// directedStaleReader: a shape the random generator reaches rarely, generated directly (sizes
// still PRNG): a reader is obtained at the left edge but its caller is slow to start it; the
// cache is reset by a full resync from another source (new replication id) that begins at the
// same replication offset, and the new stream rotates through several segments; then the old
// reader is started.  It may deliver the bytes of its own epoch it still holds, or nothing;
// never the other source's.
func (e *env) directedStaleReader() {
	rng := e.rng
	src := e.newID()
	left := 1 + rng.Int63n(1<<20)
	seg := int(e.cfg.LogSize)
	var stale []*rdr
	for s := 0; s < 2 && !e.stopped(); s++ {
		if s == 1 {
			src = e.newID() // another source (restarted / replaced master) whose offsets happen to coincide
		}
		e.startPoint([]string{src})
		e.h.Note("session %d mode=full (directed: stale reader, other source, same left)", s)
		e.delRunId(e.ch.RunId())
		e.setRunId(src)
		size := int64(1 + rng.Intn(2*seg))
		w := e.newRdbWriter(left, size)
		if w == nil {
			return
		}
		e.push(int(size), false)
		select {
		case <-w.done:
		case <-time.After(watchdog):
			e.inconclusive("watchdog: snapshot writer did not finish")
			return
		}
		e.endWriter("eof")
		if e.newAofWriter(left, true) == nil {
			return
		}
		total := (2+rng.Intn(3))*seg + rng.Intn(seg)
		for fed := 0; fed < total && !e.stopped(); {
			n := 1 + rng.Intn(seg)
			e.push(n, true)
			fed += n
			if s == 0 && len(stale) < 2 && fed > seg && rng.Intn(2) == 0 {
				if r := e.openAt([]string{"left", "mid"}[rng.Intn(2)], true); r != nil {
					stale = append(stale, r)
				}
			}
		}
		if s == 0 && len(stale) == 0 {
			if r := e.openAt("left", true); r != nil {
				stale = append(stale, r)
			}
		}
		if s == 1 {
			e.feat("same-left-as-previous-epoch")
			for _, r := range stale {
				e.startReader(r)
			}
			e.push(1+rng.Intn(seg), true)
		}
		e.endWriter("eof")
		e.catchUp("writer finished")
		e.probe(fmt.Sprintf("end of session %d", s))
	}
	e.finishHistory()
}

func contains(l []string, s string) bool {
	for _, x := range l {
		if x == s && s != "" {
			return true
		}
	}
	return false
}

// rdbPhase feeds a snapshot; returns true when it completed.
func (e *env) rdbPhase(left, size int64) bool {
	rng := e.rng
	w := e.newRdbWriter(left, size)
	if w == nil {
		return false
	}
	planned := size
	incomplete := rng.Intn(4) == 0
	if incomplete {
		planned = rng.Int63n(size) // 0..size-1 bytes arrive
	}
	if rng.Intn(2) == 0 {
		e.openAt("rdb", rng.Intn(5) == 0)
	}
	fed := int64(0)
	for fed < planned && !e.stopped() {
		n := int64(chunkSize(rng))
		if n > planned-fed {
			n = planned - fed
		}
		e.push(int(n), true)
		fed += n
		switch rng.Intn(8) {
		case 0:
			e.openAt("rdb", false)
		case 1:
			e.probe("snapshot being written")
		case 2:
			e.gc()
		}
	}
	if e.stopped() {
		return false
	}
	if incomplete {
		style := []string{"eof", "close"}[rng.Intn(2)]
		e.feat("rdb.incomplete." + style)
		e.run.Count("incomplete_snapshots", 1)
		e.endWriter(style)
		e.gen.Add(1) // readers of the aborted snapshot are not expected to go on
		e.probe("after incomplete snapshot (" + style + ")")
		return false
	}
	select {
	case <-w.done:
	case <-time.After(watchdog):
		e.inconclusive("watchdog: snapshot writer did not finish after all %d bytes", size)
		return false
	}
	e.endWriter("eof")
	e.feat("rdb.complete")
	e.catchUp("snapshot complete")
	if rng.Intn(2) == 0 {
		e.probe("snapshot complete")
	}
	return true
}

func (e *env) aofPhase() {
	rng := e.rng
	steps := 4 + rng.Intn(22)
	for i := 0; i < steps && !e.stopped(); i++ {
		switch n := rng.Intn(100); {
		case n < 38:
			e.push(chunkSize(rng), true)
		case n < 46:
			k := 2 + rng.Intn(5)
			for j := 0; j < k; j++ {
				e.push(chunkSize(rng), false)
			}
			e.waitStored(e.w)
		case n < 60:
			cls := []string{"left", "mid", "right", "rdb", "beyond", "below", "mid", "left"}[rng.Intn(8)]
			e.openAt(cls, rng.Intn(4) == 0)
		case n < 68:
			e.catchUp("catch-up step")
		case n < 73:
			if rs := e.liveReaders(); len(rs) > 0 {
				e.closeReader(rs[rng.Intn(len(rs))])
			}
		case n < 81:
			e.gc()
		case n < 89:
			e.probe(fmt.Sprintf("step %d", i))
		case n < 92:
			for _, r := range e.liveReaders() {
				if !r.started.Load() && rng.Intn(2) == 0 {
					e.startReader(r)
				}
			}
		case n < 95:
			e.heldReaderGC()
		case n < 97:
			if e.be() == "mem" && e.w != nil && !e.w.ended { // a refusal is the correct answer
				f := e.facts()
				off := f.right + 1 + rng.Int63n(1000)
				if rng.Intn(2) == 0 && f.right > 10 {
					off = f.right - 1 - rng.Int63n(10)
				}
				if e.newAofWriter(off, false) == nil && !e.stopped() {
					e.feat("discontinuous-writer-refused")
					e.run.Count("discontinuous_writers_refused", 1)
				}
			}
		case n < 99:
			// writer replacement at the continuous offset while the old writer still waits for input
			f := e.facts()
			old := e.w
			if old != nil && !old.ended && f.exact {
				if e.newAofWriter(f.right, true) != nil {
					e.feat("writer-replaced-live")
					old.ended = true
					old.feed.End(io.ErrClosedPipe)
					select {
					case <-old.done:
					case <-time.After(watchdog):
						e.inconclusive("watchdog: replaced writer did not finish")
					}
				}
			}
		default:
			c := e.h.Call("ctl", "DelRunId", "unrelated-id")
			err := e.ch.DelRunId("unrelated-id")
			e.h.Ret("ctl", c, fmt.Sprintf("err=%v", err))
		}
	}
}

// heldReaderGC: a reader is opened at the left edge and not started (a slow caller) while more
// than the size limit is appended and the collector runs; once started it must still deliver
// everything from its offset (its segment is pinned by the reference it took at open).
func (e *env) heldReaderGC() {
	if e.cfg.MaxSize <= 0 || e.w == nil || e.w.ended {
		return
	}
	r := e.openAt("left", true)
	if r == nil || e.stopped() {
		return
	}
	total := int64(0)
	for total < e.cfg.MaxSize+e.cfg.LogSize {
		n := 1 + e.rng.Intn(int(e.cfg.LogSize))
		w := e.w
		w.feed.Push(n) // not through push(): the writer may legitimately block on the size limit until the reader moves
		e.h.Op("ctl", "append", fmt.Sprintf("aof +%d (reader #%d held)", n, r.id), "")
		total += int64(n)
		if e.be() == "disk" {
			e.waitStored(w)
			if e.rng.Intn(3) == 0 {
				e.gc()
			}
		}
	}
	e.gc()
	e.startReader(r)
	if e.be() == "mem" {
		for _, x := range e.liveReaders() { // any other reader not started yet pins a segment too
			e.startReader(x)
		}
	}
	e.waitStored(e.w)
	e.feat("held-reader-over-limit")
	e.catchUp("held reader released")
}

func (e *env) finishHistory() {
	if !e.stopped() {
		for _, r := range e.liveReaders() {
			if !r.started.Load() {
				e.startReader(r)
			}
		}
		// readers invalidated earlier may still be draining what they legitimately hold; give
		// them a moment (this delay decides nothing: whatever they deliver is verified)
		time.Sleep(15 * time.Millisecond)
		e.probe("end of history")
	}
}

// ---- concurrent histories ----

type conc struct {
	e       *env
	stop    atomic.Bool
	pauseGC atomic.Bool
	gcMu    sync.Mutex // held by the collector around a pass and by the feeder around its strict quiescent probe
	wg      sync.WaitGroup
	slots   []atomic.Pointer[rdr]
}

// boundsNow returns the interval the right edge must lie in, for the current epoch.
func (e *env) boundsNow() (ep *cm.Epoch, lo, hi int64, ok bool) {
	ep = e.m.Cur()
	lo, hi, ok = ep.AofBounds()
	if !ok {
		if l, _, has := ep.RdbInfo(); has {
			return ep, l, l, true
		}
	}
	return
}

func (c *conc) poller(idx int) {
	defer c.wg.Done()
	e := c.e
	rng := e.run.Rand(fmt.Sprintf("%s/poller%d", e.key, idx))
	who := fmt.Sprintf("poll%d", idx)
	for !c.stop.Load() && !e.stopped() {
		yield(rng)
		s1 := e.m.ChangeSeq()
		if s1%2 == 1 {
			continue
		}
		ep, lo, _, ok := e.boundsNow()
		rid := ep.RunID()
		if rid == "" {
			continue
		}
		switch rng.Intn(5) {
		case 0, 1:
			l, r := e.ch.GetOffsetRange(rid)
			_, _, hi, ok2 := e.boundsNow()
			if e.m.ChangeSeq() != s1 || !ok || !ok2 || (l == -1 && r == -1) {
				continue
			}
			e.run.Count("concurrent_ranges_checked", 1)
			if r < lo || r > hi || l > r {
				e.h.Op(who, "GetOffsetRange", rid, fmt.Sprintf("(%d,%d)", l, r))
				e.violate(fmt.Sprintf("v-range|%s|right-edge|concurrent", e.be()),
					fmt.Sprintf("(v) GetOffsetRange=(%d,%d): the right edge must lie in [%d,%d] (bytes stored before the call, bytes handed to the writer when it returned)", l, r, lo, hi), nil)
			}
		case 2:
			_, _, hi0, _ := e.boundsNow()
			x := hi0 - 3 + rng.Int63n(8)
			v := e.ch.IsValidOffset(syncer.Offset{RunId: rid, Offset: x})
			_, _, hi, ok2 := e.boundsNow()
			if e.m.ChangeSeq() != s1 || !ok2 {
				continue
			}
			e.run.Count("concurrent_validity_checked", 1)
			if v && x > hi {
				e.h.Op(who, "IsValidOffset", fmt.Sprintf("%s:%d", rid, x), "true")
				e.violate(fmt.Sprintf("iii-valid|%s|beyond-right|concurrent", e.be()),
					fmt.Sprintf("(iii) IsValidOffset(%d)=true but at most %d had been handed to the writer when the call returned", x, hi), nil)
			}
		case 3:
			rl, rs := e.ch.GetRdb(rid)
			left, size, has := ep.RdbInfo()
			ended, complete := ep.RdbState()
			if e.m.ChangeSeq() != s1 || (rl == -1 && rs == -1) { // validate after reading the model
				continue
			}
			e.run.Count("concurrent_snapshot_offers_checked", 1)
			if !has || rl != left || rs != size || (ended && !complete) {
				e.h.Op(who, "GetRdb", rid, fmt.Sprintf("(%d,%d)", rl, rs))
				e.violate(fmt.Sprintf("iv-rdb-offered|%s|snapshot=%s|concurrent", e.be(), map[bool]string{true: "incomplete", false: "unknown"}[has && ended && !complete]),
					fmt.Sprintf("(iv) GetRdb=(%d,%d) but the epoch's snapshot is (%d,%d) present=%v writer-finished=%v all-bytes-written=%v", rl, rs, left, size, has, ended, complete), nil)
			}
		default:
			foreign := "no-such-id"
			v := e.ch.IsValidOffset(syncer.Offset{RunId: foreign, Offset: lo})
			if v {
				e.violate(fmt.Sprintf("iii-valid|%s|foreign-runid|concurrent", e.be()), fmt.Sprintf("IsValidOffset(%s:%d)=true, the cache holds %q", foreign, lo, rid), nil)
			}
		}
	}
}

func (c *conc) collector() {
	defer c.wg.Done()
	e := c.e
	rng := e.run.Rand(e.key + "/collector")
	for !c.stop.Load() && !e.stopped() {
		time.Sleep(time.Duration(100+rng.Intn(3000)) * time.Microsecond)
		// check-and-collect is one step with respect to the feeder's quiescent probe: without the
		// lock the collector could read pauseGC == false, be descheduled, and start its pass after
		// the feeder had seen "no pass running" (a false alarm of the monitor, seen once in a thorough run)
		c.gcMu.Lock()
		if !c.pauseGC.Load() {
			e.gc()
		}
		c.gcMu.Unlock()
	}
}

// readerLoop keeps one reader slot busy: ask, open, follow, close, again.
func (c *conc) readerLoop(idx int) {
	defer c.wg.Done()
	e := c.e
	rng := e.run.Rand(fmt.Sprintf("%s/reader%d", e.key, idx))
	who := fmt.Sprintf("rd%d", idx)
	follower := idx%2 == 0 // followers keep a reader until its stream ends
	for !c.stop.Load() && !e.stopped() {
		yield(rng)
		rid := e.ch.RunId()
		l, r := e.ch.GetOffsetRange(rid)
		if l == -1 && r == -1 {
			time.Sleep(200 * time.Microsecond)
			continue
		}
		var x int64
		class := []string{"left", "mid", "right", "rdb", "mid", "right"}[rng.Intn(6)]
		switch class {
		case "left":
			x = l
		case "right":
			x = r
		case "mid":
			x = l
			if r > l {
				x = l + rng.Int63n(r-l+1)
			}
		case "rdb":
			rl, rs := e.ch.GetRdb(rid)
			if rl == -1 {
				continue
			}
			x = rl - rs
		}
		s1, e1 := e.m.ChangeSeq(), e.m.CurID()
		g1 := e.gcSeq.Load()
		v := e.ch.IsValidOffset(syncer.Offset{RunId: rid, Offset: x})
		if !v {
			if rng.Intn(2) == 0 {
				continue
			}
			sp, _ := e.ch.StartPoint(nil)
			x = sp.Offset
			if x < 0 {
				continue
			}
		}
		yield(rng)
		rd, err := e.openReader(who, rid, x, s1, e1)
		if err != nil {
			if !v {
				continue
			}
			// the memory backend collects on size pressure whenever its writer is waiting for
			// space: any append, but also any reader moving on or closing, can trigger it
			excused := e.m.ChangeSeq() != s1 || s1%2 == 1 || e.gcSeq.Load() != g1 || g1%2 == 1 ||
				(e.be() == "mem" && e.cfg.MaxSize > 0)
			if excused {
				e.run.Count("valid_then_gone_excused_by_overlapping_reset_or_collection", 1)
				continue
			}
			if !e.confirmUnreadable(who, rid, x) {
				continue
			}
			e.violate(fmt.Sprintf("iii-unreadable|%s|valid|newreader-error|snapshot=%s|concurrent", e.be(), e.facts().snapshot),
				fmt.Sprintf("(iii) IsValidOffset(%d)=true; no reset, no collector pass and no size-triggered collection overlapped; NewReader failed: %v", x, err), nil)
			return
		}
		e.feat("conc.rd." + map[bool]string{true: "aof." + class, false: "rdb"}[rd.isAof])
		c.slots[idx].Store(rd)
		if rng.Intn(3) == 0 { // a slow consumer
			d := time.Duration(rng.Intn(300)) * time.Microsecond
			rd.pace = func() { time.Sleep(d) }
		}
		switch rng.Intn(8) {
		case 0, 1:
			time.Sleep(time.Duration(rng.Intn(2000)) * time.Microsecond) // slow to start
		case 2:
			// very slow to start: the writer gets more than the size limit ahead (disk), or is
			// held back by this reader's reference (memory); then the reader has to run through
			// many segments while the collector is active
			if e.cfg.MaxSize > 0 {
				e.feat("conc.rd.held-while-writer-runs-ahead")
				_, _, h0, _ := e.boundsNow()
				for i := 0; i < 60 && !c.stop.Load() && !e.stopped(); i++ {
					if _, _, h, _ := e.boundsNow(); h-h0 > 3*e.cfg.MaxSize {
						break
					}
					time.Sleep(500 * time.Microsecond)
				}
			}
		}
		e.startReader(rd)
		budget := int64(1<<62 - 1)
		if !follower {
			budget = 1 + rng.Int63n(64<<10)
		}
		e.waitReaderQuiet(rd, budget, func() bool { return c.stop.Load() || e.stopped() })
		if !rd.term.Load() {
			e.closeReader(rd)
		} else {
			// the stream ended by itself: release it (liveness is judged by the controller)
			c.slots[idx].Store(nil)
			e.retire(rd)
		}
	}
}

// waitReaderQuiet is waitReader without a watchdog (the loop is ended by stop).
func (e *env) waitReaderQuiet(r *rdr, n int64, stop func() bool) {
	for {
		r.mu.Lock()
		ch := r.changed
		r.mu.Unlock()
		if r.rc.Pos() >= n || r.term.Load() || stop() {
			return
		}
		select {
		case <-ch:
		case <-time.After(2 * time.Millisecond):
		}
	}
}

// retire releases a reader whose stream ended by itself; it stays listed until the controller
// has judged it (sessionEnd) — see judged.
func (e *env) retire(r *rdr) {
	if r.wait != nil {
		r.wait.Close(nil)
		r.wait.WgWait()
	}
	r.rd.Close()
}

// judge: liveness (ii) at the end of a writer: every reader that was opened in a stable state
// under this writer, not closed by the harness, must have delivered everything up to total, or
// still be open.
func (c *conc) judge(total int64, snapshotDone bool, gen int64) {
	e := c.e
	for _, r := range e.liveReaders() {
		if !r.current || r.gen != gen || r.probe || !r.started.Load() {
			continue
		}
		var want int64
		if r.isAof {
			if snapshotDone {
				continue
			}
			want = total - r.start
		} else {
			if !snapshotDone {
				continue
			}
			want = total
		}
		res := e.waitReader(r, want, func() bool { return r.harnessCl.Load() })
		if r.harnessCl.Load() || r.bad.Load() {
			continue
		}
		ok := res == waitDone
		if res == waitStarved {
			e.violate(fmt.Sprintf("ii-live|%s|starved-by-collector|aof|concurrent", e.be()),
				fmt.Sprintf("(ii) a reader that was not closed and not invalidated stopped at offset %d of %d: the segment holding its next byte has been removed by the collector while the reader was open (it polls for a file that no longer exists)", r.start+r.rc.Pos(), total),
				map[string]any{"reader": r.describe(), "files": e.listFiles()})
			return
		}
		if !ok {
			e.inconclusive("watchdog: %s delivered %d of %d bytes, still open, no progress", r.describe(), r.rc.Pos(), want)
			return
		}
		if r.rc.Pos() < want && r.term.Load() && !r.harnessCl.Load() {
			e.violate(fmt.Sprintf("ii-live|%s|ended-early|%s|concurrent", e.be(), map[bool]string{true: "aof", false: "rdb"}[r.isAof]),
				fmt.Sprintf("(ii) a reader that was not closed and not invalidated ended after %d bytes while %d were written: %v", r.rc.Pos(), want, r.terr()),
				map[string]any{"reader": r.describe()})
			return
		}
		e.run.Count("live_reader_catchups", 1)
	}
	// forget readers whose stream has ended
	e.mu.Lock()
	keep := e.readers[:0]
	for _, r := range e.readers {
		if !(r.term.Load() && !r.harnessCl.Load() && r.gen <= gen) {
			keep = append(keep, r)
		}
	}
	e.readers = keep
	e.mu.Unlock()
}

// feedConcurrently pushes total bytes in PRNG chunks with yields, pausing once for a strict
// quiescent probe.
func (c *conc) feedConcurrently(w *wr, total int64) {
	e := c.e
	rng := e.rng
	fed := int64(0)
	probeAt := int64(-1)
	if rng.Intn(2) == 0 && total > 0 {
		probeAt = rng.Int63n(total)
	}
	for fed < total && !e.stopped() {
		n := int64(chunkSize(rng))
		if n > total-fed {
			n = total - fed
		}
		w.feed.Push(int(n))
		fed += n
		// keep at most ~64 KiB in flight so that chunk boundaries keep reaching the writer
		for w.feed.Pushed()-w.feed.Handed() > 64<<10 && !e.stopped() {
			select {
			case <-w.done:
				return
			case <-time.After(100 * time.Microsecond):
			}
		}
		yield(rng)
		if probeAt >= 0 && fed >= probeAt {
			probeAt = -1
			c.pauseGC.Store(true)
			c.gcMu.Lock()
			for e.gcSeq.Load()%2 == 1 {
				runtime.Gosched()
			}
			if e.waitStored(w) {
				e.feat("conc.quiescent-probe")
				e.probe("quiescent point inside a concurrent history")
			}
			c.gcMu.Unlock()
			c.pauseGC.Store(false)
		}
	}
}

func (e *env) concurrent() {
	rng := e.rng
	c := &conc{e: e, slots: make([]atomic.Pointer[rdr], e.cfg.Readers)}
	src := e.newID()
	volume := int64(e.run.N(48<<10, 96<<10))
	if rng.Intn(5) == 0 {
		volume *= 4
	}
	nSess := 1 + rng.Intn(3)
	started := false
	prevLeft := int64(-1)
	for s := 0; s < nSess && !e.stopped(); s++ {
		sp := e.startPoint([]string{src})
		f := e.facts()
		canContinue := f.ep.HasData() && sp.RunId == src && f.exact && sp.Offset == f.right && (f.hasAof || f.snapshot == "complete")
		mode := "full"
		if canContinue && rng.Intn(2) == 0 {
			mode = "continue"
		}
		e.h.Note("session %d mode=%s", s, mode)
		e.feat("conc.sess." + mode)
		var w *wr
		if mode == "continue" {
			e.setRunId(src)
			w = e.newAofWriter(sp.Offset, true)
		} else {
			e.delRunId(e.ch.RunId())
			e.setRunId(src)
			left := 1 + rng.Int63n(1<<24)
			if prevLeft > 0 && rng.Intn(2) == 0 {
				left = prevLeft
				e.feat("same-left-as-previous-epoch")
			}
			prevLeft = left
			size := 1 + rng.Int63n(volume/2)
			rw := e.newRdbWriter(left, size)
			if rw == nil {
				break
			}
			if !started {
				started = true
				c.start()
			}
			gen := e.gen.Load()
			planned := size
			incomplete := rng.Intn(5) == 0
			if incomplete {
				planned = rng.Int63n(size)
			}
			c.feedConcurrently(rw, planned)
			if e.stopped() {
				break
			}
			if incomplete {
				style := []string{"eof", "close"}[rng.Intn(2)]
				e.feat("conc.rdb.incomplete." + style)
				e.run.Count("incomplete_snapshots", 1)
				e.endWriter(style)
				e.gen.Add(1)
				time.Sleep(time.Duration(rng.Intn(3000)) * time.Microsecond) // let pollers and readers meet the aborted snapshot
				continue
			}
			select {
			case <-rw.done:
			case <-time.After(watchdog):
				e.inconclusive("watchdog: snapshot writer did not finish")
			}
			e.endWriter("eof")
			c.judge(size, true, gen)
			if e.stopped() {
				break
			}
			w = e.newAofWriter(left, true)
		}
		if w == nil {
			break
		}
		if !started {
			started = true
			c.start()
		}
		gen := e.gen.Load()
		total := 1 + rng.Int63n(volume)
		c.feedConcurrently(w, total)
		if e.stopped() {
			break
		}
		style := []string{"eof", "eof", "close"}[rng.Intn(3)]
		if style == "close" {
			e.waitStored(w) // Close() while bytes are in flight may drop them: the right edge would be unknown
		}
		e.endWriter(style)
		c.judge(w.start+w.feed.Handed(), false, gen)
	}
	c.stop.Store(true)
	c.wg.Wait()
	e.finishHistory()
}

func (c *conc) start() {
	e := c.e
	for i := 0; i < e.cfg.Readers; i++ {
		c.wg.Add(1)
		go c.readerLoop(i)
	}
	for i := 0; i < 2; i++ {
		c.wg.Add(1)
		go c.poller(i)
	}
	if e.be() == "disk" && e.cfg.MaxSize > 0 {
		c.wg.Add(1)
		go c.collector()
	}
}

// ---- per-history bookkeeping ----

func (e *env) cleanup() {
	if e.w != nil && !e.w.ended {
		e.w.ended = true
		e.w.feed.End(io.EOF)
		select {
		case <-e.w.done:
		case <-time.After(watchdog):
		}
		e.w.w.Close()
	}
	for _, r := range e.liveReaders() {
		r.harnessCl.Store(true)
		if !r.started.Swap(true) && e.be() == "disk" {
			r.wait = usync.NewWaitCloser(nil)
			r.rd.Start(r.wait)
		}
		if r.wait != nil {
			r.wait.Close(nil)
			r.wait.WgWait()
		}
		r.rd.Close()
	}
	if e.ch != nil {
		e.ch.Close()
	}
	if e.base != "" {
		os.RemoveAll(e.base)
	}
}

// account turns what the history observed into evidence.
func (e *env) account() {
	run := e.run
	run.Eval(1)
	run.Count("histories_"+e.cfg.Mode, 1)
	run.Count("reader_bytes_verified", e.verified.Load())
	for k, v := range e.h.Kinds() {
		run.Count("op_"+k, v)
	}
	ep := e.m.Cur()
	// rotation: disk — several segment files seen; memory — more stream bytes in one epoch than
	// a segment holds (segments are cut at exactly log_size)
	if e.be() == "mem" {
		for id := 0; id < e.m.Epochs(); id++ {
			x := e.m.Epoch(id)
			if st, ok := x.AofStart(); ok {
				if _, hi, _ := x.AofBounds(); hi-st > e.cfg.LogSize {
					e.feat("rot")
				}
			}
		}
	}
	_ = ep
	e.mu.Lock()
	fs := make([]string, 0, len(e.feats))
	for f := range e.feats {
		if !strings.HasPrefix(f, "reported:") {
			fs = append(fs, f)
		}
	}
	maxFiles := e.maxAofFiles
	e.mu.Unlock()
	sort.Strings(fs)
	if e.feats["rot"] {
		run.Count("histories_with_rotation", 1)
	}
	if e.feats["gc.aof"] || e.feats["gc.rdb"] {
		run.Count("histories_with_collection_that_removed_data", 1)
	}
	if maxFiles > 0 {
		run.Count("disk_segment_files_seen_max_sum", int64(maxFiles))
	}
	if e.stopped() || e.soft.Load() {
		return
	}
	sig := e.be() + "|" + e.cfg.Mode + "|" + strings.Join(fs, "+")
	run.Distinct(sig)
	for _, f := range fs {
		run.Seen("features_"+e.be(), f)
	}
	run.Sample(map[string]any{"case": e.key, "config": e.cfg, "shape": sig, "epochs": e.m.Epochs(), "bytes_verified": e.verified.Load(), "first_events": head(e.h.Events(), 12)})
}

func head(s []string, n int) []string {
	if len(s) > n {
		return s[:n]
	}
	return s
}

func runCase(run *harness.Run, key string, mode string, i int, procs int) {
	if !run.WantCase(key) {
		return
	}
	rng := run.Rand(key)
	c := genCfg(rng, i, mode)
	if mode == "concurrent" {
		c.Procs = procs
		c.Readers = 1 + rng.Intn(6)
		if c.LogSize < 256 {
			c.LogSize = 256
		}
		switch rng.Intn(3) {
		case 0:
			c.MaxSize = -1
		case 1:
			c.MaxSize = 4 * c.LogSize
		default:
			c.MaxSize = 12 * c.LogSize
		}
	}
	if mode == "verifycrc" {
		c.Backend = "disk"
		c.Mode = "sequential"
	}
	if mode == "verifycrc-gc" {
		c.Backend = "disk"
		c.Mode = "sequential"
		c.LogSize = 8 << 20
		c.MaxSize = 100 << 10
	}
	e := newEnv(run, key, c, rng)
	e.guard = mode == "verifycrc" || mode == "verifycrc-gc"
	defer e.cleanup()
	if e.ch == nil {
		return
	}
	switch {
	case mode == "verifycrc":
		e.feat("verifycrc")
		e.sequential()
	case mode == "verifycrc-gc":
		e.feat("verifycrc")
		e.feat("directed.open-during-collection")
		e.directedOpenDuringCollection()
	case mode == "concurrent":
		e.concurrent()
	case i%12 == 5 || i%12 == 10: // one disk, one memory history in twelve
		e.feat("directed.stale-reader")
		e.directedStaleReader()
	case i%12 == 3 || i%12 == 8: // one memory, one disk history in twelve
		e.feat("directed.survivor")
		e.directedSurvivor()
	default:
		e.sequential()
	}
	e.account()
}

func main() {
	run := harness.New("C05", "exploration",
		"history = PRNG(seed, case key) → (backend, segment size, size limit, sessions of cache operations following the RedisInput / ReplicaLeader call protocol); "+
			"distinct = (backend, sequential|concurrent, set of features the history actually exhibited: rotation seen (≥2 segment files / more bytes than a segment), "+
			"collector pass that removed files / left edge advanced, reader classes opened, incomplete snapshot, writer replacement, run-id switch, same-left epoch, reader started after invalidation, ...)")
	run.Watchdog(time.Duration(run.N(14, 100)) * time.Minute)
	run.MinDistinct(8)
	t, f := true, false
	if err := log.InitLog(config.LogConfig{LevelStr: "fatal", Handler: config.LogHandlerConfig{StdOut: true}, Caller: &t, Func: &f, ModuleName: &t}); err != nil {
		run.Inconclusive("InitLog: %v", err)
	}
	// StoreChannel.NewReader reads the global configuration; VerifyCrc=false is the documented default
	config.GetSyncerConfig().Channel = &config.ChannelConfig{VerifyCrc: false}
	run.Assume("source bytes are a PRF of (epoch, stream, offset): a delivered run of ≥4 bytes identifies where it was written")
	run.Assume("call protocol restricted to what syncer/input.go and syncer/replica.go do: writers are created at the cache's own right edge, after DelRunId, or at a finished snapshot's left; discontinuous writers only offered to the memory backend (refusal expected); readers are closed through the wait passed to Start")
	run.Assume("channel.verifyCrc=false (default); liveness is judged only for readers opened under the writer that is still current, and only when their stream ended")

	nSeq, nConc := run.N(300, 10000), run.N(40, 1500)
	switch os.Getenv("C05_ONLY") { // development aid; the registered command never sets it
	case "conc":
		nSeq = 0
	case "seq":
		nConc = 0
	case "crc":
		nSeq, nConc = 0, 0
	}
	workers := run.N(12, 16)
	runtime.GOMAXPROCS(16)
	harness.Parallel(nSeq, workers, func(i int) {
		runCase(run, fmt.Sprintf("seq-%d", i), "sequential", i, 16)
	})
	fmt.Printf("progress: %d sequential histories done, %d violations so far\n", nSeq, run.ViolationCount())
	// quick: a third of the concurrent histories per GOMAXPROCS value; thorough: 1/5, 2/5, 2/5
	// (two procs make slow histories)
	procsOf := func(i int) int {
		if run.Quick() {
			return []int{2, 4, 16}[i%3]
		}
		return []int{2, 4, 4, 16, 16}[i%5]
	}
	for _, procs := range []int{2, 4, 16} {
		runtime.GOMAXPROCS(procs)
		var idx []int
		for i := 0; i < nConc; i++ {
			if procsOf(i) == procs {
				idx = append(idx, i)
			}
		}
		par := map[int]int{2: 4, 4: 4, 16: run.N(4, 8)}[procs]
		harness.Parallel(len(idx), par, func(k int) {
			i := idx[k]
			runCase(run, fmt.Sprintf("conc-%d", i), "concurrent", i, procs)
		})
		fmt.Printf("progress: concurrent group GOMAXPROCS=%d done (%d histories), %d violations so far\n", procs, len(idx), run.ViolationCount())
	}
	runtime.GOMAXPROCS(16)
	run.Set("gomaxprocs_groups", []int{2, 4, 16})
	// the optional checksum verification of segment files when a reader is opened
	// (channel.verifyCrc=true), disk backend; one history at a time: the setting is global
	if os.Getenv("C05_ONLY") == "" || os.Getenv("C05_ONLY") == "crc" {
		config.GetSyncerConfig().Channel.VerifyCrc = true
		for i := 0; i < run.N(4, 40); i++ {
			runCase(run, fmt.Sprintf("crc-%d", i), "verifycrc", 2*i, 16)
		}
		for i := 0; i < run.N(6, 40); i++ {
			runCase(run, fmt.Sprintf("crcgc-%d", i), "verifycrc-gc", 2*i, 16)
		}
		fmt.Printf("progress: verifyCrc group done, %d violations so far\n", run.ViolationCount())
	}
	if run.Counter("histories_with_rotation") == 0 || run.Counter("histories_with_collection_that_removed_data") == 0 {
		if !run.Replaying() {
			run.Inconclusive("no history exhibited rotation (%d) or a collection that removed data (%d)", run.Counter("histories_with_rotation"), run.Counter("histories_with_collection_that_removed_data"))
		}
	}
	_ = errors.Is
	run.Exit()
}
