// C19 — cluster replay reaches each key's slot owner and keeps per-key order.
//
// The real RedisOutput (cluster client, blocking and pipeline senders, transactional and
// non-transactional mode) replays generated streams into a 3–5 node cluster double whose slot
// table changes under a scripted migration schedule (MOVED between / inside batches, ASK
// windows over existing and missing keys, back-and-forth, node added).  The double executes a
// command only where Redis would ("executed by the owner" is enforced, §2.1) and serialises all
// nodes under one lock, so the cluster-wide effect log is totally ordered.
//
// Oracle, per key K with projected source sequence s1…sm (unique ids):
//   - the applications of K's commands, in global order, never jump forward by more than one
//     position (a retried batch may repeat a suffix; a skip or an inversion is a violation);
//   - the run was not ended by an error reported by Send  ⇒  the last applied is sm;
//   - Send reported an error/restart  ⇒  the resume position stored on the target does not lie
//     beyond the start of the command following K's last applied one (a restart would skip it);
//   - transactional mode: no id is applied twice within the run.
package main

import (
	"context"
	"errors"
	"fmt"
	"math/rand"
	"os"
	"sort"
	"strconv"
	"strings"
	"sync"
	"sync/atomic"
	"time"

	"verif/internal/drive"
	"verif/internal/fakeredis"
	"verif/internal/gen"
	"verif/internal/harness"
	"verif/internal/ref"

	"github.com/mgtv-tech/redis-GunYu/config"
	"github.com/mgtv-tech/redis-GunYu/pkg/redis"
	"github.com/mgtv-tech/redis-GunYu/pkg/redis/checkpoint"
	"github.com/mgtv-tech/redis-GunYu/syncer"
)

var schedKinds = []string{"none", "moved-between", "moved-mid", "ask", "back-forth", "node-added", refreshMidBuild, connReset, connLost, abandonedWorker, crossNode, movedUnreachable}

// movedUnreachable: a new master joins, takes the victim slots, and cannot be reached from where
// the tool runs (it announces 127.0.0.1:1, where connections are refused: an address that is not routable from
// the tool's host).  The old owners answer MOVED to it.  Whatever the tool does with a redirect
// it cannot follow, it must not count the command as done.
const movedUnreachable = "moved-to-unreachable"

// crossNode: no topology change at all.  The stream (a standalone source's) carries one two-key
// DEL / UNLINK / MSET whose keys live in slots of two different nodes: a command no node of the
// cluster can execute.  The tool may stop and report it (its documented answer to what it cannot
// replay safely) — it must not acknowledge it, store a position behind it and go on (see crossPlan).
const crossNode = "cross-node-command"

// abandonedWorker: one batch spans two nodes; node X resets the connection at once, node Y
// executes the first command of its share and then stalls.  The tool reports the failure and is
// restarted from the stored position (as its input loop does); the stall is released once the
// restarted run has applied a newer write to Y's key (see abandonPlan).
const abandonedWorker = "abandoned-node-worker"

// connLost: the second connection fault: a node applies a complete (small) pipelined node batch —
// not the first one it got from this client — and closes the connection before writing any
// reply; later connections are served normally (see lostPlan).
const connLost = "conn-lost-before-reply"

// connReset: not a migration but a connection fault on a cluster node: the node executes the
// first k commands of a multi-megabyte node batch, stops reading and resets the connection while
// the client is still writing; new connections are served normally (see resetPlan).
const connReset = "conn-reset"

// refreshMidBuild: the client's slot-table refresh is made to land between two Put calls of ONE
// batch that touch the migrated slot (see midBuildPlan).
const refreshMidBuild = "refresh-mid-build"

type caseCfg struct {
	Txn, Pipeline bool
	Nodes         int
	Sched         string
	MultiKey      bool // same-slot multi-key commands in the stream (TRYAGAIN candidates)
	SlowRefresh   bool // CLUSTER SLOTS replies are delayed by 0–2 ms (moves the client's refresh around)
	BatchCount    uint
	BatchBytes    uint64
	BatchTicker   time.Duration
	KeepAlive     time.Duration
	CpTicker      time.Duration
	NCmds         int
	NTags         int
	Version       string
	PlanStyle     int
	PauseUnit     time.Duration
	BufSize       int
}

func (c caseCfg) String() string {
	return fmt.Sprintf("txn=%v pipe=%v nodes=%d sched=%s multikey=%v slowrefresh=%v batch=%d/%dB tick=%v ka=%v cp=%v n=%d tags=%d ver=%s plan=%d pause=%v buf=%d",
		c.Txn, c.Pipeline, c.Nodes, c.Sched, c.MultiKey, c.SlowRefresh, c.BatchCount, c.BatchBytes, c.BatchTicker, c.KeepAlive, c.CpTicker,
		c.NCmds, c.NTags, c.Version, c.PlanStyle, c.PauseUnit, c.BufSize)
}

// hazards (C19_HAZARDS=1, never set by the registered commands) re-enables what the connection
// fault schedules leave out behind a PIPELINED sender — a tail after the faulted batch, a first
// part before it — to reproduce the two ordering hazards written up in
// proposed_fixes/C19-4-*.md and C19-5-*.md.  They are not raised by default.
var hazards = os.Getenv("C19_HAZARDS") != ""

func modeSig(c caseCfg) string { return fmt.Sprintf("txn=%v|pipe=%v", c.Txn, c.Pipeline) }

// genCase: the (mode, sender, schedule) triple cycles with the case index so that every
// combination is present in every tier; everything else is drawn from the case PRNG.
func genCase(i int, r *rand.Rand) caseCfg {
	c := caseCfg{}
	c.Sched = schedKinds[i%len(schedKinds)]
	c.Txn = (i/len(schedKinds))%2 == 1
	c.Pipeline = (i/(2*len(schedKinds)))%2 == 1
	c.Nodes = 3 + r.Intn(3)
	c.MultiKey = r.Intn(3) == 0
	if c.Sched == "ask" {
		c.MultiKey = r.Intn(3) != 0 // the ASK window is where multi-key commands are refused (TRYAGAIN)
	}
	c.SlowRefresh = r.Intn(2) == 0
	c.BatchCount = []uint{3, 7, 20, 100}[r.Intn(4)]
	if c.Sched == "moved-mid" && c.BatchCount < 7 {
		c.BatchCount = 20
	}
	c.BatchBytes = []uint64{256, 64 * 1024}[r.Intn(2)]
	c.BatchTicker = time.Duration(2+r.Intn(6)) * time.Millisecond
	c.KeepAlive = time.Duration(15+r.Intn(15)) * time.Millisecond
	c.CpTicker = []time.Duration{2 * time.Millisecond, 10 * time.Millisecond, 40 * time.Millisecond}[r.Intn(3)]
	c.NCmds = 150 + r.Intn(350)
	c.NTags = 6 + r.Intn(8)
	c.Version = []string{"7.2.0", "6.2.0"}[r.Intn(2)]
	c.PlanStyle = r.Intn(4)
	c.PauseUnit = time.Duration(1+r.Intn(8)) * time.Millisecond
	c.BufSize = []int{64, 4096, 64 * 1024}[r.Intn(3)]
	if c.Sched == refreshMidBuild {
		// only the blocking non-transactional sender follows redirects in place and refreshes
		// its table behind the back of the batch that is being built
		c.Txn, c.Pipeline = false, false
		c.BatchTicker = time.Duration(15+r.Intn(10)) * time.Millisecond
		c.CpTicker = 40 * time.Millisecond
		c.NCmds = 40 + r.Intn(80)
		c.BufSize = 64 * 1024
	}
	if c.Sched == crossNode {
		// keys on two nodes exist only behind the non-transactional sender (a transactional one
		// talks to a single shard, whose keys the stream is confined to)
		c.Txn = false
		c.NCmds = 20 + r.Intn(60)
	}
	if c.Sched == movedUnreachable {
		c.Txn = false
		c.NCmds = 60 + r.Intn(120)
	}
	if c.Sched == abandonedWorker {
		// a batch spanning two nodes exists only behind the non-transactional sender (a
		// transactional one talks to a single shard), and only the blocking one runs node
		// workers per batch
		c.Txn, c.Pipeline = false, false
		c.NCmds = 30 + r.Intn(40)
		c.BufSize = 64 * 1024
	}
	if c.Sched == connReset {
		// one flush must carry the whole big batch.  Transactional mode: the batch is a source
		// MULTI…EXEC group, which no ticker cuts.  Non-transactional mode: the batch is flushed by
		// its command count and the tickers are far longer than the batch takes to be parsed
		// (at most two such cases run their heavy phase at a time, see heavyPhase)
		tick := 300 * time.Millisecond
		c.NCmds = 20 + r.Intn(40)
		if !c.Txn {
			tick = 2 * time.Second
		}
		if !c.Txn && c.Pipeline && !hazards {
			// a pipelined sender must never have a second batch in flight behind the big one
			// (see the note on the tail in genWorkload): the stream is the big batch alone and
			// no ticker fires while it is parsed; the run ends with the reported write error
			tick = 10 * time.Minute
			c.NCmds = 0
		}
		c.BatchTicker, c.KeepAlive, c.CpTicker = tick, tick, tick
		c.BufSize = 64 * 1024
		c.MultiKey = false
	}
	return c
}

func main() {
	drive.Quiet()
	run := harness.New("C19", "exploration",
		"case = (mode, sender, schedule kind) cycled by index × PRNG(seed,i) → (3–5 node cluster double, batching/tickers, typed keys spread over all nodes by hash tag, "+
			"generated stream with unique ids, migration schedule keyed on the cluster-wide request counter, or — refresh-mid-build — on the request the client issues between two Put calls of one batch); non-trivial = the scripted topology change fired while the tool was replaying "+
			"(schedule 'none': ≥2 nodes executed business writes); distinct = (mode, sender, schedule kind, outcome, redirect kinds served)")
	run.Watchdog(25 * time.Minute)
	run.MinDistinct(8)
	n := run.N(240, 3000)
	run.Assume("cluster double (fakeredis): one cluster-wide lock serialises all nodes; MOVED/ASK/TRYAGAIN/CROSSSLOT decided as Redis 7 getNodeByQuery does, slots by ref.HashSlot; a command is executed only by the node Redis would execute it on")
	run.Assume("transactional cluster mode is driven as cmd/syncer.go configures it: output = one shard of the cluster (FixTopology + SelNodes), stream keys inside that shard's slots, checkpoint key chosen inside the shard's slots (choseKeyInSlots re-implemented: prefix + '-' + 20 letters, first DFS hit)")
	run.Assume("workload: every hash tag owns typed keys (string/list/hash/set/zset) so no generated command can fail on a consistent replica; the double executes them for real (key existence drives ASK/TRYAGAIN); an error reply of the double to a generated command makes the case inconclusive")
	run.Assume("a Send that returns by itself (any error, or nil) is followed by StartPoint+Send in the tool's input loop: it counts as a reported restart from the stored resume position")
	run.Assume("schedule refresh-mid-build (blocking non-transactional sender only): after the victim slot migrated, a lone write on it is answered MOVED and makes the client request a fresh slot table; the double holds that CLUSTER SLOTS reply back until it sees the COMMAND GETKEYS request the client issues while building the next batch — the stream carries one EXISTS (a command outside the client's key table, not something a master propagates) between the writes on the victim key for that purpose — then waits 4 ms before answering; the old owner answers every request 1 ms late. Delays only shape the interleaving, the verdict is the per-key order oracle's")
	run.Assume("schedule conn-reset (a connection fault, at the edge of the property's quantifier): a node executes the first k (1–12) commands of a 12–14 MB node batch (64 KiB values; more than the loop-back socket buffers take in, so the client is still writing), then closes the connection with the rest unread (the kernel resets it); later connections are served normally. Expected: the run ends with a reported error and, in transactional mode, no id is applied twice; in non-transactional mode a re-sent batch (repeat from an earlier position) is allowed by the statement")
	run.Assume("schedule conn-lost-before-reply (connection fault, edge of the quantifier): a node that already served earlier node batches of this client executes a complete small pipelined node batch (2–8 non-idempotent writes, one TCP segment) and closes the connection without having written a reply; later connections are served normally. Expected: reported connection error, nothing applied twice in transactional mode")
	run.Assume("schedule abandoned-node-worker (blocking non-transactional sender; connection fault, edge of the quantifier): in one batch spanning two nodes, node X closes the connection on the first request of its share and node Y executes the first command of its share and then stops serving that connection; the reported failure is followed by the tool's restart sequence (bookkeeping, StartPoint, Send from the stored position) without waiting for the double to go idle; Y's stall ends when the restarted run has applied a newer write to Y's key (or, where no restart can happen meanwhile, after 2 s — a fallback that decides nothing); connections are attributed to the run during which they were opened")
	run.Assume("schedule cross-node-command (non-transactional senders; no topology change): the stream carries one two-key DEL / UNLINK / MSET whose keys are owned by two different nodes; in two of three cases everything before it has been applied when it is handed out and the source is silent behind it for three periods of the sender's slowest ticker. No node can execute it (the double would answer MOVED/CROSSSLOT); a run that ends with a reported error is the tool's documented answer, a run that goes on must not have stored a position behind it")
	run.Assume("schedule moved-to-unreachable (non-transactional senders; a connection fault at the edge of the quantifier): a new master joins, takes the victim slots and announces an address at which connections are refused (127.0.0.1:1: an announced address the tool's host cannot reach); the old owners answer MOVED to it. Expected: a reported error; never an acknowledged batch with a position stored behind a command that no node executed")
	run.Assume("quiescence = the sender stored the stream's end offset as resume position (it consumed every item and flushed its queue) and 4 keep-alive PING batches were served afterwards (at most 3 batches are in flight behind the dispatcher)")

	harness.Parallel(n, 16, func(i int) {
		key := fmt.Sprintf("case-%d", i)
		if !run.WantCase(key) {
			return
		}
		r := run.Rand(key)
		cc := genCase(i, r)
		oneCase(run, key, i, r, cc)
	})
	run.Exit()
}

// ---- workload

type tagT struct {
	name  string
	slot  int
	node  int     // owner at start
	first float64 // fraction of the stream before which the tag is not used (its keys are missing until then)
	uses  int
}

func (t *tagT) key(suffix string) string { return "{" + t.name + "}:" + suffix }

type wr struct {
	id   string
	keys []string
	cmd  int // index into st.Cmds
}

// midBuild describes the scripted tail of a refresh-mid-build stream.
type midBuild struct {
	victim, other *tagT // two tags (slots) of the same node
	trigger       *wr   // a lone write on the victim key: its MOVED makes the client refresh
	offTrigger    int64 // stream offsets of the three sections
	offBatch      int64
	offTail       int64
	batchLen      int // queue items of the victim batch (= BatchCmdCount of the case)
	firstV, lastV string
}

// resetPlan describes the scripted part of a conn-reset stream.
type resetPlan struct {
	node     int   // the node whose connection is reset
	offBig   int64 // start of the big batch
	offTail  int64
	batchLen int // commands of the big batch (= BatchCmdCount of the case)
	k        int // the node executes k of them, then resets the connection
	bytes    int
}

// lostPlan describes the scripted part of a conn-lost-before-reply stream.
type lostPlan struct {
	node     int    // the node that loses the connection
	offBatch int64  // start of the victim batch (everything before it is applied first)
	offTail  int64  //
	batchLen int    // commands of the victim batch (= BatchCmdCount of the case)
	lastID   string // id of its last command: when the node has executed it, it hangs up
}

// abandonPlan describes the scripted part of an abandoned-node-worker stream.
type abandonPlan struct {
	x, y     int             // node X resets, node Y stalls
	offBatch int64           // start of the two-node batch (everything before is applied first)
	offLater int64           // end of that batch
	batchLen int             // its commands (= BatchCmdCount of the case)
	xIDs     map[string]bool // ids of X's share
	newerY   map[string]bool // ids of the later writes on Y's key: applying one releases the stall
	keyY     string
}

// crossPlan: where the cross-node command sits in the stream.  In two of three cases the source
// is silent behind it for longer than every ticker of the sender, so that the command is alone
// in the sender's queue when the batch / keep-alive / checkpoint tickers fire.
type crossPlan struct {
	off, offAfter int64 // the command's bytes
	id            string
	alone         bool
}

type workload struct {
	cross  *crossPlan
	aban   *abandonPlan
	mid    *midBuild
	reset  *resetPlan
	lost   *lostPlan
	st     *gen.Stream
	writes []*wr
	byID   map[string]*wr
	seq    map[string][]string       // key -> ids in source order
	pos    map[string]map[string]int // key -> id -> index in seq[key]
	tags   []*tagT
}

// pickTags chooses hash tags so that every node owns at least two of them (non-transactional
// mode) or all of them live on node `only` (transactional mode: one shard).
func pickTags(r *rand.Rand, cl *fakeredis.Cluster, nodes, want, only int, hist string) []*tagT {
	var tags []*tagT
	perNode := map[int]int{}
	for j := r.Intn(1000); len(tags) < want || (only < 0 && lacking(perNode, nodes)); j++ {
		name := fmt.Sprintf("%st%d", hist, j)
		slot := ref.HashSlot([]byte("{" + name + "}:x"))
		nd := cl.Owner(slot)
		if only >= 0 && nd != only {
			continue
		}
		if only < 0 && len(tags) >= want && perNode[nd] >= 2 {
			continue
		}
		perNode[nd]++
		tags = append(tags, &tagT{name: name, slot: slot, node: nd})
	}
	r.Shuffle(len(tags), func(a, b int) { tags[a], tags[b] = tags[b], tags[a] })
	for i, t := range tags {
		if i >= len(tags)/2 {
			t.first = []float64{0, 0.25, 0.5, 0.7}[r.Intn(4)]
		}
	}
	return tags
}

func lacking(per map[int]int, nodes int) bool {
	for i := 0; i < nodes; i++ {
		if per[i] < 2 {
			return true
		}
	}
	return false
}

func genWorkload(r *rand.Rand, cc caseCfg, tags []*tagT, hist string) *workload {
	w := &workload{st: &gen.Stream{Hist: hist}, byID: map[string]*wr{}, seq: map[string][]string{}, pos: map[string]map[string]int{}, tags: tags}
	st := w.st
	add := func(kind gen.CmdKind, name string, args [][]byte, id string, g int) int {
		c := gen.Cmd{Kind: kind, Name: name, Args: args, DB: 0, ID: id, Group: g, Idx: len(st.Cmds)}
		c.Start = int64(len(st.Bytes))
		st.Bytes = append(st.Bytes, gen.Encode(name, args)...)
		c.End = int64(len(st.Bytes))
		st.Cmds = append(st.Cmds, c)
		return c.Idx
	}
	b := func(s string) []byte { return []byte(s) }
	nextID := 0
	emit := func(name string, args [][]byte, keys []string, id string, g int) *wr {
		ci := add(gen.KWrite, name, args, id, g)
		x := &wr{id: id, keys: keys, cmd: ci}
		w.writes = append(w.writes, x)
		w.byID[id] = x
		for _, k := range keys {
			if w.pos[k] == nil {
				w.pos[k] = map[string]int{}
			}
			w.pos[k][id] = len(w.seq[k])
			w.seq[k] = append(w.seq[k], id)
		}
		return x
	}
	// strWrite: a write on a string key of tag t
	strWrite := func(t *tagT, suffix string) *wr {
		id := fmt.Sprintf("~%s.%d~", hist, nextID)
		nextID++
		t.uses++
		k := t.key(suffix)
		name := []string{"set", "append"}[r.Intn(2)]
		return emit(name, [][]byte{b(k), b(id + "v" + strconv.Itoa(r.Intn(1000)))}, []string{k}, id, -1)
	}
	write := func(g int) {
		id := fmt.Sprintf("~%s.%d~", hist, nextID)
		nextID++
		progress := float64(len(w.writes)) / float64(cc.NCmds)
		var avail []*tagT
		for _, t := range tags {
			if t.first <= progress {
				avail = append(avail, t)
			}
		}
		t := avail[int(float64(len(avail))*r.Float64()*r.Float64())] // skewed: a few hot tags
		t.uses++
		idv := b(id + "v" + strconv.Itoa(r.Intn(1000)))
		var name string
		var args [][]byte
		var keys []string
		one := func(n, k string, rest ...[]byte) {
			name, keys = n, []string{k}
			args = append([][]byte{b(k)}, rest...)
		}
		nk := 19
		if cc.MultiKey {
			nk = 23
		}
		switch r.Intn(nk) {
		case 0, 1:
			one("set", t.key("s1"), idv)
		case 2:
			one("append", t.key("s1"), idv)
		case 3:
			one("setnx", t.key("s2"), idv)
		case 4:
			one("set", t.key("s2"), idv, b("PXAT"), b("4102444800000"))
		case 5, 6:
			one("rpush", t.key("l"), idv)
		case 7:
			one("lpush", t.key("l"), idv, b("x"))
		case 8, 9:
			one("hset", t.key("h"), b("f"), idv)
		case 10:
			one("hmset", t.key("h"), b("f"), idv, b("g"), b("1"))
		case 11:
			one("hdel", t.key("h"), b("f"), b("g"), b(id)) // empties the hash: the key disappears
		case 12:
			one("sadd", t.key("e"), idv)
		case 13:
			one("srem", t.key("e"), idv)
		case 14:
			one("zadd", t.key("z"), b("1.5"), idv)
		case 15:
			one("zrem", t.key("z"), idv)
		// writes whose reply is legally the null bulk ($-1): a SET NX that does not apply, GETSET
		// and SET … GET on a key that does not exist (yet)
		case 16:
			one("set", t.key("s1"), idv, b("NX"))
		case 17:
			one("getset", t.key("s2"), idv)
		case 18:
			one("set", t.key("s2"), idv, b("GET"))
		case 19, 20:
			name = "mset"
			keys = []string{t.key("s1"), t.key("s2")}
			args = [][]byte{b(keys[0]), idv, b(keys[1]), b("w")}
		default:
			name = []string{"del", "unlink"}[r.Intn(2)]
			k := t.key([]string{"s1", "s2", "l", "h", "e", "z"}[r.Intn(6)])
			keys = []string{k, t.key("gone" + id)} // the companion key carries the id and never exists
			args = [][]byte{b(keys[0]), b(keys[1])}
		}
		emit(name, args, keys, id, g)
		// schedule "ask": a multi-key command is often followed at once by a single-key write on
		// its first key — what a refused (TRYAGAIN) command must not be overtaken by
		if cc.Sched == "ask" && len(keys) > 1 && r.Intn(4) != 0 {
			id2 := fmt.Sprintf("~%s.%d~", hist, nextID)
			nextID++
			k := keys[0]
			v := b(id2 + "v" + strconv.Itoa(r.Intn(1000)))
			switch k[strings.LastIndexByte(k, ':')+1:] {
			case "s1", "s2":
				emit("append", [][]byte{b(k), v}, []string{k}, id2, g)
			case "l":
				emit("rpush", [][]byte{b(k), v}, []string{k}, id2, g)
			case "h":
				emit("hset", [][]byte{b(k), b("f"), v}, []string{k}, id2, g)
			case "e":
				emit("sadd", [][]byte{b(k), v}, []string{k}, id2, g)
			default:
				emit("zadd", [][]byte{b(k), b("1.5"), v}, []string{k}, id2, g)
			}
		}
	}
	add(gen.KSelect, "SELECT", [][]byte{b("0")}, "", -1)
	groups := 0
	for len(w.writes) < cc.NCmds {
		x := r.Float64()
		switch {
		case x < 0.05:
			add(gen.KPing, "PING", nil, "", -1)
		case x < 0.13:
			g := groups
			groups++
			add(gen.KMulti, "MULTI", nil, "", g)
			for i, n := 0, 1+r.Intn(4); i < n; i++ {
				write(g)
			}
			add(gen.KExec, "EXEC", nil, "", g)
		default:
			write(-1)
		}
	}
	if cc.Sched == crossNode {
		var ta, tb *tagT
		for try := 0; try < 200 && (ta == nil || ta.node == tb.node); try++ {
			ta, tb = tags[r.Intn(len(tags))], tags[r.Intn(len(tags))]
		}
		if ta != nil && ta.node != tb.node {
			id := fmt.Sprintf("~%s.%d~", hist, nextID)
			nextID++
			ta.uses++
			tb.uses++
			p := &crossPlan{off: int64(len(st.Bytes)), id: id, alone: r.Intn(3) != 0}
			switch r.Intn(3) {
			case 0:
				ka, kb := ta.key("s1"), tb.key("s2")
				emit("mset", [][]byte{b(ka), b(id + "v"), b(kb), b("w")}, []string{ka, kb}, id, -1)
			default:
				ka, kb := ta.key([]string{"s1", "l", "h"}[r.Intn(3)]), tb.key("gone"+id)
				emit([]string{"del", "unlink"}[r.Intn(2)], [][]byte{b(ka), b(kb)}, []string{ka, kb}, id, -1)
			}
			p.offAfter = int64(len(st.Bytes))
			for i, n := 0, 5+r.Intn(20); i < n; i++ {
				write(-1)
			}
			w.cross = p
		}
	}
	if cc.Sched == abandonedWorker {
		byNode := map[int][]*tagT{}
		var nodes []int
		for _, t := range tags {
			if len(byNode[t.node]) == 0 {
				nodes = append(nodes, t.node)
			}
			byNode[t.node] = append(byNode[t.node], t)
		}
		sort.Ints(nodes)
		xi := r.Intn(len(nodes))
		yi := (xi + 1 + r.Intn(len(nodes)-1)) % len(nodes)
		tx := byNode[nodes[xi]][r.Intn(len(byNode[nodes[xi]]))]
		ty := byNode[nodes[yi]][r.Intn(len(byNode[nodes[yi]]))]
		p := &abandonPlan{x: nodes[xi], y: nodes[yi], xIDs: map[string]bool{}, newerY: map[string]bool{}, keyY: ty.key("s1")}
		// both nodes have served this client before
		strWrite(tx, "s1")
		strWrite(ty, "s1")
		// the two-node batch: several writes on ONE key of Y, interleaved with X's share
		p.offBatch = int64(len(st.Bytes))
		n0 := len(st.Cmds)
		// (X's share opens the batch in half of the cases: node workers are awaited in the
		// order in which their nodes first appear in the batch)
		if r.Intn(2) == 0 {
			p.xIDs[strWrite(tx, "s1").id] = true
			strWrite(ty, "s1")
		} else {
			strWrite(ty, "s1")
			p.xIDs[strWrite(tx, "s1").id] = true
		}
		for i, n := 0, 2+r.Intn(3); i < n; i++ {
			strWrite(ty, "s1")
			if r.Intn(2) == 0 {
				p.xIDs[strWrite(tx, "s2").id] = true
			}
		}
		p.batchLen = len(st.Cmds) - n0
		p.offLater = int64(len(st.Bytes))
		// later: newer writes on Y's key, then an ordinary tail
		for i, n := 0, 1+r.Intn(3); i < n; i++ {
			write(-1)
		}
		for i, n := 0, 1+r.Intn(3); i < n; i++ {
			p.newerY[strWrite(ty, "s1").id] = true
		}
		for i, n := 0, 5+r.Intn(10); i < n; i++ {
			write(-1)
		}
		w.aban = p
	}
	if cc.Sched == connLost {
		// a few earlier commands on the node (so that the victim batch is not the first node batch
		// it gets: the client's connection to it comes out of the pool), then the victim batch:
		// 2–8 small non-idempotent writes, all on keys of that node
		target := tags[r.Intn(len(tags))].node
		var on []*tagT
		for _, t := range tags {
			if t.node == target {
				on = append(on, t)
			}
		}
		small := func() *wr {
			id := fmt.Sprintf("~%s.%d~", hist, nextID)
			nextID++
			t := on[r.Intn(len(on))]
			t.uses++
			val := b(id + "v" + strconv.Itoa(r.Intn(1000)))
			switch r.Intn(4) {
			case 0:
				return emit("append", [][]byte{b(t.key("s1")), val}, []string{t.key("s1")}, id, -1)
			case 1:
				return emit("rpush", [][]byte{b(t.key("l")), val}, []string{t.key("l")}, id, -1)
			case 2:
				return emit("sadd", [][]byte{b(t.key("e")), val}, []string{t.key("e")}, id, -1)
			default:
				return emit("hset", [][]byte{b(t.key("h")), b("f"), val}, []string{t.key("h")}, id, -1)
			}
		}
		for i, n := 0, 2+r.Intn(3); i < n; i++ {
			small()
		}
		p := &lostPlan{node: target, offBatch: int64(len(st.Bytes)), batchLen: 2 + r.Intn(7)}
		for i := 0; i < p.batchLen; i++ {
			p.lastID = small().id
		}
		p.offTail = int64(len(st.Bytes))
		if !cc.Pipeline || hazards { // no tail behind a pipelined sender (see the note in the conn-reset block)
			for i, n := 0, 5+r.Intn(10); i < n; i++ {
				write(-1)
			}
		}
		w.lost = p
	}
	if cc.Sched == connReset {
		// a node batch of 12–14 MB, all on keys of one node: far more than the loop-back socket
		// buffers take in (measured here: at most ~5.5 MB beyond what the peer has read), so the
		// client is certainly still writing when the node gives up after k×64 KiB
		target := tags[r.Intn(len(tags))].node
		var on []*tagT
		for _, t := range tags {
			if t.node == target {
				on = append(on, t)
			}
		}
		p := &resetPlan{node: target, offBig: int64(len(st.Bytes)), batchLen: 185 + r.Intn(30), k: 1 + r.Intn(12)}
		pad := strings.Repeat("x", 64*1024)
		if cc.Txn {
			add(gen.KMulti, "MULTI", nil, "", groups)
		}
		for i := 0; i < p.batchLen; i++ {
			id := fmt.Sprintf("~%s.%d~", hist, nextID)
			nextID++
			t := on[r.Intn(len(on))]
			t.uses++
			val := b(id + pad)
			switch r.Intn(4) {
			case 0:
				emit("set", [][]byte{b(t.key("s1")), val}, []string{t.key("s1")}, id, -1)
			case 1:
				emit("append", [][]byte{b(t.key("s2")), val}, []string{t.key("s2")}, id, -1)
			case 2:
				emit("rpush", [][]byte{b(t.key("l")), val}, []string{t.key("l")}, id, -1)
			default:
				emit("hset", [][]byte{b(t.key("h")), b("f"), val}, []string{t.key("h")}, id, -1)
			}
		}
		if cc.Txn {
			add(gen.KExec, "EXEC", nil, "", groups)
			groups++
		}
		p.offTail = int64(len(st.Bytes))
		p.bytes = int(p.offTail - p.offBig)
		// an ordinary tail — not behind a pipelined sender: that one dispatches the tail to the
		// node while the big batch is still being written / failing, and the node pipeline sends
		// it on a fresh connection, so the tail takes effect although its predecessors never did
		// (reported, repaired by the restart; a connection-fault hazard outside this property's
		// migration quantifier, reported to the coordinator rather than raised here)
		if !cc.Pipeline || hazards {
			for i, n := 0, 5+r.Intn(10); i < n; i++ {
				write(-1)
			}
		}
		w.reset = p
	}
	if cc.Sched == refreshMidBuild {
		// two tags of one node: the victim slot migrates, the other one stays
		byNode := map[int][]*tagT{}
		for _, t := range tags {
			byNode[t.node] = append(byNode[t.node], t)
		}
		var cands []int
		for nd, ts := range byNode {
			if len(ts) >= 2 {
				cands = append(cands, nd)
			}
		}
		sort.Ints(cands)
		ts := byNode[cands[r.Intn(len(cands))]]
		vi := r.Intn(len(ts))
		m := &midBuild{victim: ts[vi], other: ts[(vi+1+r.Intn(len(ts)-1))%len(ts)]}
		// (1) a lone write on the victim key: flushed by the batch ticker, answered MOVED after
		//     the migration, retried in place — and the client asks for a fresh slot table
		m.offTrigger = int64(len(st.Bytes))
		m.trigger = strWrite(m.victim, "s1")
		// (2) the victim batch, one flush: command(s) of ANOTHER slot of the old owner first (they
		//     open the node batch), then the victim key, then a command whose keys the client has
		//     to ask the cluster for (COMMAND GETKEYS: a request the double sees while the batch
		//     is being built — the refresh is released there), then the victim key again
		m.offBatch = int64(len(st.Bytes))
		n0 := len(st.Cmds)
		for i, n := 0, 1+r.Intn(3); i < n; i++ {
			strWrite(m.other, "s1")
		}
		for i, n := 0, 1+r.Intn(2); i < n; i++ {
			x := strWrite(m.victim, "s1")
			if m.firstV == "" {
				m.firstV = x.id
			}
		}
		if r.Intn(2) == 0 {
			strWrite(m.other, "s2")
		}
		add(gen.KAdmin, "exists", [][]byte{b(m.other.key("s1"))}, "", -1) // keys not in the client's table
		for i, n := 0, 1+r.Intn(3); i < n; i++ {
			m.lastV = strWrite(m.victim, "s1").id
			if r.Intn(3) == 0 {
				strWrite(m.other, "s1")
			}
		}
		m.batchLen = len(st.Cmds) - n0
		m.offTail = int64(len(st.Bytes))
		// (3) an ordinary tail
		for i, n := 0, 5+r.Intn(20); i < n; i++ {
			write(-1)
		}
		w.mid = m
	}
	return w
}

// choseKeyInSlots re-implements syncer.choseKeyInSlots (unexported): the first key
// prefix-<20 letters> in DFS order that hashes into one of the ranges.
func choseKeyInSlots(prefix string, ranges [][2]int) string {
	try := func(rg [2]int) string {
		buf := []byte(prefix + "-")
		var dfs func(depth int) string
		dfs = func(depth int) string {
			if depth >= 20 {
				if s := ref.HashSlot(buf); s >= rg[0] && s <= rg[1] {
					return string(buf)
				}
				return ""
			}
			for c := byte('a'); c <= 'z'; c++ {
				buf = append(buf, c)
				if k := dfs(depth + 1); k != "" {
					return k
				}
				buf = buf[:len(buf)-1]
			}
			return ""
		}
		return dfs(0)
	}
	for _, rg := range ranges {
		if rg[0] != rg[1] {
			if k := try(rg); k != "" {
				return k
			}
		}
	}
	for _, rg := range ranges {
		if rg[0] == rg[1] {
			if k := try(rg); k != "" {
				return k
			}
		}
	}
	return ""
}

// ---- schedule

type victim struct {
	slot int
	tag  string
}

// installSchedule scripts the topology changes of the case; rel(k) is the cluster-wide request
// number k requests after the start of the replay.
func installSchedule(r *rand.Rand, cc caseCfg, cl *fakeredis.Cluster, victims []victim, base int64, W int) {
	nodes := cc.Nodes
	other := func(t *fakeredis.Topo, slot int) int {
		from := t.Owner(slot)
		return (from + 1 + r.Intn(nodes-1)) % nodes
	}
	frac := func(lo, hi float64) int64 { return base + int64((lo+(hi-lo)*r.Float64())*float64(W)) }
	switch cc.Sched {
	case "moved-mid":
		// every victim slot moves at its own moment (several refreshes of the client's table)
		for _, v := range victims {
			v := v
			cl.At(frac(0.05, 0.8), func(t *fakeredis.Topo) { t.MigrateSlot(v.slot, other(t, v.slot)) })
		}
	case "ask":
		k1 := frac(0.05, 0.4)
		k2 := k1 + int64((0.1+0.4*r.Float64())*float64(W))
		for _, v := range victims {
			v := v
			to := -1
			cl.At(k1, func(t *fakeredis.Topo) {
				to = other(t, v.slot)
				t.SetMigrating(v.slot, to)
				var mv []string
				for _, k := range t.KeysInSlot(t.Owner(v.slot), v.slot) {
					if r.Intn(2) == 0 {
						mv = append(mv, k)
					}
				}
				if len(mv) > 0 {
					t.MoveKeys(v.slot, mv...)
				}
			})
			if r.Intn(2) == 0 {
				cl.At((k1+k2)/2, func(t *fakeredis.Topo) {
					ks := t.KeysInSlot(t.Owner(v.slot), v.slot)
					if len(ks) > 0 {
						t.MoveKeys(v.slot, ks[:1+r.Intn(len(ks))]...)
					}
				})
			}
			cl.At(k2, func(t *fakeredis.Topo) { t.SetSlotOwner(v.slot, to) })
		}
	case "back-forth":
		k := frac(0.05, 0.3)
		for _, v := range victims {
			v := v
			home := -1
			away := -1
			at := k
			for leg := 0; leg < 3+r.Intn(2); leg++ {
				leg := leg
				windowed := r.Intn(3) == 0
				cl.At(at, func(t *fakeredis.Topo) {
					if leg == 0 {
						home = t.Owner(v.slot)
						away = other(t, v.slot)
					}
					to := away
					if leg%2 == 1 {
						to = home
					}
					if windowed {
						t.SetMigrating(v.slot, to)
					} else {
						t.MigrateSlot(v.slot, to)
					}
				})
				if windowed {
					at += int64(2 + r.Intn(W/8+1))
					cl.At(at, func(t *fakeredis.Topo) {
						if to := t.MigratingTo(v.slot); to >= 0 {
							t.SetSlotOwner(v.slot, to)
						}
					})
				}
				// legs usually fall into different batches; now and then the slot bounces
				// within a few requests
				if r.Intn(4) == 0 {
					at += int64(2 + r.Intn(6))
				} else {
					at += int64(W/8 + r.Intn(W/4+1))
				}
			}
		}
	case movedUnreachable:
		at := frac(0.1, 0.5)
		cl.At(at, func(t *fakeredis.Topo) {
			n := t.AddNode()
			t.Unreachable(n)
			for _, v := range victims {
				t.MigrateSlot(v.slot, n)
			}
		})
	case "node-added":
		at := frac(0.1, 0.6)
		cl.At(at, func(t *fakeredis.Topo) {
			n := t.AddNode()
			for _, v := range victims {
				// the new master takes the victim slots and their neighbourhood
				for s := v.slot - 20; s <= v.slot+20; s++ {
					if s >= 0 && s < fakeredis.NumSlots && t.Owner(s) == t.Owner(v.slot) && s != v.slot {
						t.MigrateSlot(s, n)
					}
				}
				t.MigrateSlot(v.slot, n)
			}
		})
	}
}

// heavyPhase limits how many conn-reset cases push their multi-megabyte batch through the tool
// at the same time (keeps the parse of such a batch short compared with the sender's tickers).
var heavyPhase = make(chan struct{}, 2)

// ---- one case

type outcome struct {
	kind string // completed | error
	err  error
}

func errClass(err error) string {
	switch {
	case err == nil:
		return "nil"
	case errors.Is(err, syncer.ErrRedisTypologyChanged):
		return "typology-changed"
	case errors.Is(err, syncer.ErrRestart):
		return "restart"
	case errors.Is(err, syncer.ErrBreak):
		return "break"
	}
	s := err.Error()
	for _, w := range []string{"TRYAGAIN", "CROSSSLOT", "MOVED", "ASK"} {
		if strings.Contains(s, w) {
			return "other:" + w
		}
	}
	for _, w := range []string{"connection reset", "broken pipe", "EOF", "connection", "closed"} {
		if strings.Contains(s, w) {
			return "other:connection"
		}
	}
	return "other"
}

func oneCase(run *harness.Run, key string, idx int, r *rand.Rand, cc caseCfg) {
	cl := fakeredis.NewCluster(cc.Nodes, fakeredis.Options{Version: cc.Version})
	defer cl.Close()
	hist := fmt.Sprintf("c%d", idx)
	var slowNode atomic.Int64 // the congested node: the owner of the hottest victim slot
	slowNode.Store(-1)
	// refresh-mid-build: the reply to the client's CLUSTER SLOTS refresh is held back (phase 1 ->
	// 2) until the double sees the COMMAND GETKEYS request the client issues while it builds the
	// victim batch (2 -> 3); back-pressure only, the verdict is the per-key order oracle's
	var phase atomic.Int32
	held := make(chan struct{})
	release := make(chan struct{})
	var relOnce sync.Once
	releaseRefresh := func() { relOnce.Do(func() { close(release) }) }
	defer releaseRefresh()
	// abandoned-node-worker: node Y stalls after the first command of its share
	var stallNode atomic.Int64
	stallNode.Store(-1)
	var stallArmed, stallHeld, stallByEvent atomic.Bool
	stallRelease := make(chan struct{})
	var stallOnce sync.Once
	releaseStall := func(byEvent bool) {
		stallOnce.Do(func() {
			stallByEvent.Store(byEvent)
			close(stallRelease)
		})
	}
	defer releaseStall(false)
	if cc.SlowRefresh || cc.Sched == refreshMidBuild || cc.Sched == abandonedWorker {
		// back-pressure only (never a verdict): topology replies take 0–2 ms, so the client's
		// asynchronous slot-table refresh lands at varying points of the following batches
		// ...and one node answers every request late, so that a pipelined sender really has
		// several batches in flight on that node's connection / the old owner's node batch is
		// slower than the new owner's
		var n atomic.Int64
		for i := 0; i < cc.Nodes; i++ {
			i := int64(i)
			cl.Node(int(i)).ReplyDelay = func(cmd string) {
				switch {
				case cmd == "CLUSTER" && cc.Sched == refreshMidBuild:
					if phase.CompareAndSwap(1, 2) {
						close(held)
						select {
						case <-release:
						case <-time.After(5 * time.Second):
						}
					}
				case cmd == "COMMAND" && cc.Sched == refreshMidBuild:
					if phase.CompareAndSwap(2, 3) {
						releaseRefresh()
						time.Sleep(4 * time.Millisecond) // let the refresh goroutine install the new table
					}
				case cc.Sched == abandonedWorker && i == stallNode.Load() && (cmd == "SET" || cmd == "APPEND") && stallArmed.Load():
					// the reply to the first command of Y's share is held back — and with it the
					// execution of the rest of the share, which waits in this connection's input —
					// until the restarted run has applied a newer write to Y's key (logical event).
					// On a tree whose Exec waits for every node worker no restart can happen while
					// the stall lasts: there the 2 s fallback ends it (it decides nothing).
					if stallHeld.CompareAndSwap(false, true) {
						select {
						case <-stallRelease:
						case <-time.After(2 * time.Second):
							releaseStall(false)
						}
					}
				case cmd == "CLUSTER" && !cc.SlowRefresh:
				case cmd == "CLUSTER":
					time.Sleep(time.Duration(n.Add(1)*7919%21) * 100 * time.Microsecond)
				case i == slowNode.Load() && cc.Sched == refreshMidBuild:
					time.Sleep(time.Millisecond)
				case i == slowNode.Load() && cc.Pipeline:
					time.Sleep(150 * time.Microsecond)
				}
			}
		}
	}

	// target configuration the way cmd/syncer.go derives it
	full := config.RedisConfig{Addresses: cl.Addrs(), Type: config.RedisTypeCluster, Otype: config.RedisTypeCluster, Version: cc.Version,
		ClusterOptions: &config.RedisClusterOptions{HandleMoveErr: true, HandleAskErr: true}}
	if err := redis.FixTopology(&full); err != nil {
		run.Inconclusive("%s: FixTopology: %v", key, err)
		return
	}
	if len(full.GetClusterShards()) != cc.Nodes || full.IsMigrating() {
		run.Inconclusive("%s: FixTopology saw %d shards (migrating=%v) on a stable %d-node double", key, len(full.GetClusterShards()), full.IsMigrating(), cc.Nodes)
		return
	}
	target := full
	cpName := config.CheckpointKey
	shard := -1
	if cc.Txn {
		shard = r.Intn(cc.Nodes)
		found := false
		for _, o := range full.SelNodes(true, config.SelNodeStrategyMaster) {
			if o.Addresses[0] == cl.Addr(shard) {
				target, found = o, true
			}
		}
		if !found {
			run.Inconclusive("%s: SelNodes did not return shard %d", key, shard)
			return
		}
		var rgs [][2]int
		for _, rg := range target.GetAllSlots().Ranges {
			rgs = append(rgs, [2]int{rg.Left, rg.Right})
		}
		cpName = choseKeyInSlots(config.CheckpointKey, rgs)
		if cpName == "" || cl.OwnerOfKey([]byte(cpName)) != shard {
			run.Inconclusive("%s: no checkpoint key inside shard %d", key, shard)
			return
		}
	}

	tags := pickTags(r, cl, cc.Nodes, cc.NTags, shard, hist)
	w := genWorkload(r, cc, tags, hist)
	st := w.st

	runID := fmt.Sprintf("%040x", r.Uint64())
	ids := []string{runID, strings.Repeat("0", 40)}
	cfg := drive.OutputConfig("", runID)
	cfg.Redis = target
	cfg.CheckpointName = cpName
	cfg.CanTransaction = cc.Txn
	cfg.ReplayPipeline = cc.Pipeline
	cfg.BatchCmdCount = cc.BatchCount
	if w.mid != nil {
		cfg.BatchCmdCount = uint(w.mid.batchLen) // the victim batch is flushed when it is complete
	}
	cfg.BatchBufferSize = cc.BatchBytes
	cfg.BatchTicker = cc.BatchTicker
	cfg.KeepaliveTicker = cc.KeepAlive
	cfg.UpdateCheckpointTicker = cc.CpTicker
	if w.lost != nil {
		cfg.BatchCmdCount = uint(w.lost.batchLen) // the victim batch goes out when it is complete
	}
	if w.aban != nil {
		cfg.BatchCmdCount = uint(w.aban.batchLen) // the two-node batch goes out when it is complete
	}
	if w.reset != nil {
		cfg.BatchCmdCount = uint(w.reset.batchLen) // the big batch goes out in one flush
		if cc.NCmds == 0 {
			// the leading SELECT is queued (and counted) with the batch; nothing may be left
			// in the sender's queue: the non-transactional pipelined sender flushes whatever is
			// queued when a batch fails asynchronously, i.e. commands later than the failed ones
			cfg.BatchCmdCount++
		}
		cfg.BatchBufferSize = 1 << 30
	}

	ctx := context.Background()
	ss, err := drive.NewSession(cfg, ids)
	if err != nil {
		run.Inconclusive("%s: session: %v", key, err)
		return
	}
	base := int64(1000 + r.Intn(100000))
	if _, err := ss.Out.StartPoint(ctx, ids); err != nil {
		run.Inconclusive("%s: startpoint: %v", key, err)
		return
	}
	if err := ss.FullSync(ctx, drive.EmptyRDB, base); err != nil {
		run.Inconclusive("%s: initial full sync: %v", key, err)
		return
	}
	sp, err := ss.Out.StartPoint(ctx, ids)
	if err != nil || sp.Offset != base {
		run.Inconclusive("%s: startpoint after full sync: %v %v", key, sp, err)
		return
	}

	// victims: the hottest tags' slots
	used := append([]*tagT{}, tags...)
	sort.SliceStable(used, func(a, b int) bool { return used[a].uses > used[b].uses })
	var victims []victim
	for i, nv := 0, 1+r.Intn(4); i < len(used) && i < nv; i++ {
		if used[i].uses > 0 {
			victims = append(victims, victim{used[i].slot, used[i].name})
		}
	}

	if len(victims) > 0 {
		slowNode.Store(int64(cl.Owner(victims[0].slot)))
	}
	if w.mid != nil {
		victims = []victim{{w.mid.victim.slot, w.mid.victim.name}}
		slowNode.Store(int64(w.mid.victim.node)) // the old owner answers late
	}

	// monitors on the double: keep-alive pings, the stored resume offset reaching the end of the
	// stream, and (schedule moved-between) the applications of the first part of the stream
	var pings, tryAgainSettled atomic.Int64
	pingCh := make(chan struct{}, 1)
	cl.SetOnRequest(func(q *fakeredis.CReq) {
		if q.Cmd == "PING" {
			pings.Add(1)
			select {
			case pingCh <- struct{}{}:
			default:
			}
		}
		// schedule "ask": a -TRYAGAIN served for a slot ends that slot's migration window at once
		// (the keys still on the old owner are carried over, SETSLOT NODE): a client that repeats
		// the refused command a moment later finds the slot settled.  Called under the cluster
		// lock, so the change itself is made right after this request.
		if cc.Sched == "ask" {
			if e, isErr := q.Reply.(fakeredis.Err); isErr && strings.HasPrefix(string(e), "TRYAGAIN") && len(q.Args) > 0 {
				slot := ref.HashSlot(q.Args[0])
				tryAgainSettled.Add(1)
				go cl.Update(func(t *fakeredis.Topo) {
					to := t.MigratingTo(slot)
					if to < 0 {
						return
					}
					t.SetSlotOwner(slot, to)
				})
			}
		}
	})
	endOff := base + int64(len(st.Bytes))
	cpField := (&checkpoint.CheckpointInfo{RunId: runID}).OffsetKey()
	cpAtEnd := make(chan struct{})
	var cpOnce sync.Once
	var part1Hook func(id string)
	var resetArmed, resetFired, heavyHeld, crossHanded atomic.Bool
	// waitApplied returns a channel closed once every id of the set has been applied (to be
	// called before the replay starts)
	var hooks []func(id string)
	waitApplied := func(ids map[string]bool) chan struct{} {
		done := make(chan struct{})
		var mu sync.Mutex
		if len(ids) == 0 {
			close(done)
		}
		hooks = append(hooks, func(id string) {
			mu.Lock()
			if ids[id] {
				delete(ids, id)
				if len(ids) == 0 {
					close(done)
				}
			}
			mu.Unlock()
		})
		return done
	}
	onApplied := func(a *fakeredis.CApp) {
		if a.Cmd == "HSET" && len(a.Args) >= 3 && string(a.Args[0]) == cpName {
			for i := 1; i+1 < len(a.Args); i += 2 {
				if string(a.Args[i]) == cpField {
					if v, err := strconv.ParseInt(string(a.Args[i+1]), 10, 64); err == nil && v == endOff {
						cpOnce.Do(func() { close(cpAtEnd) })
					}
				}
			}
			return
		}
		id := gen.FindID(a.Args)
		if part1Hook != nil {
			part1Hook(id)
		}
		for _, h := range hooks {
			h(id)
		}
	}

	plan := drive.Plan(r, st.Bytes, cc.PauseUnit, cc.PlanStyle)
	appBase := len(cl.Applied())
	reqBase := cl.ReqCount()

	if cc.Sched == "moved-between" {
		// the stream is handed out in two parts; the slots move once every write of the first
		// part has been applied, then the second part is released
		cut := w.writes[len(w.writes)*(20+r.Intn(50))/100]
		cutOff := st.Cmds[cut.cmd].Start
		if g := st.Cmds[cut.cmd].Group; g >= 0 { // never split a source transaction
			for i := cut.cmd; i >= 0 && st.Cmds[i].Group == g; i-- {
				cutOff = st.Cmds[i].Start
			}
		}
		var mu sync.Mutex
		pending := map[string]bool{}
		for _, x := range w.writes {
			if st.Cmds[x.cmd].Start < cutOff {
				pending[x.id] = true
			}
		}
		part1 := make(chan struct{})
		gate := make(chan struct{})
		if len(pending) == 0 {
			close(part1)
		}
		part1Hook = func(id string) {
			mu.Lock()
			if pending[id] {
				delete(pending, id)
				if len(pending) == 0 {
					close(part1)
				}
			}
			mu.Unlock()
		}
		go func() {
			<-part1
			cl.Update(func(t *fakeredis.Topo) {
				for _, v := range victims {
					t.MigrateSlot(v.slot, (t.Owner(v.slot)+1+r.Intn(cc.Nodes-1))%cc.Nodes)
				}
			})
			close(gate)
		}()
		plan = append(drive.Plan(r, st.Bytes[:cutOff], cc.PauseUnit, cc.PlanStyle),
			drive.Step{Gate: gate})
		plan = append(plan, drive.Plan(r, st.Bytes[cutOff:], cc.PauseUnit, cc.PlanStyle)...)
	} else if p := w.cross; p != nil {
		// everything before the cross-node command | (alone: gate: all of it applied, the sender's
		// queue is empty) | the command | (alone: the source is silent for three periods of the
		// slowest ticker) | the rest
		plan = drive.Plan(r, st.Bytes[:p.off], cc.PauseUnit, cc.PlanStyle)
		cmdStep := drive.Step{Data: st.Bytes[p.off:p.offAfter], Then: func() { crossHanded.Store(true) }}
		if p.alone {
			before := map[string]bool{}
			for _, x := range w.writes {
				if st.Cmds[x.cmd].Start < p.off {
					before[x.id] = true
				}
			}
			cmdStep.Gate = waitApplied(before)
			slowest := cc.CpTicker
			for _, d := range []time.Duration{cc.BatchTicker, cc.KeepAlive} {
				if d > slowest {
					slowest = d
				}
			}
			plan = append(plan, cmdStep, drive.Step{Pause: 3 * slowest})
		} else {
			plan = append(plan, cmdStep)
		}
		plan = append(plan, drive.Plan(r, st.Bytes[p.offAfter:], cc.PauseUnit, cc.PlanStyle)...)
	} else if p := w.aban; p != nil {
		// everything before the two-node batch | gate: both faults armed | the batch in one piece
		// | the rest.  X closes the connection on the first request of its share; Y stalls after
		// the first command of its share (ReplyDelay above).
		before := map[string]bool{}
		for _, x := range w.writes {
			if st.Cmds[x.cmd].Start < p.offBatch {
				before[x.id] = true
			}
		}
		part1 := waitApplied(before)
		gate := make(chan struct{})
		stallNode.Store(int64(p.y))
		cl.Node(p.x).SetHooks(nil, nil, func(q *fakeredis.Req) bool {
			if !resetArmed.Load() || !p.xIDs[gen.FindID(q.Args)] {
				return false
			}
			resetArmed.Store(false)
			resetFired.Store(true)
			return true
		})
		// a newer write on Y's key applied (by the restarted run) releases the stall
		hooks = append(hooks, func(id string) {
			if p.newerY[id] && stallHeld.Load() {
				releaseStall(true)
			}
		})
		go func() {
			<-part1
			stallArmed.Store(true)
			resetArmed.Store(true)
			close(gate)
		}()
		plan = append(drive.Plan(r, st.Bytes[:p.offBatch], cc.PauseUnit, cc.PlanStyle), drive.Step{Gate: gate},
			drive.Step{Data: st.Bytes[p.offBatch:p.offLater]})
		plan = append(plan, drive.Plan(r, st.Bytes[p.offLater:], cc.PauseUnit, cc.PlanStyle)...)
	} else if p := w.lost; p != nil {
		// everything before the victim batch | gate: the fault is armed | the victim batch in one
		// piece | tail.  The node executes the node batch up to and including its last command and
		// hangs up without having written a reply (the replies of a pipelined burst are only
		// flushed once its input is drained); later connections are served normally.
		before := map[string]bool{}
		for _, x := range w.writes {
			if st.Cmds[x.cmd].Start < p.offBatch {
				before[x.id] = true
			}
		}
		part1 := waitApplied(before)
		gate := make(chan struct{})
		cl.Node(p.node).SetHooks(nil, nil, func(q *fakeredis.Req) bool {
			// called with the node's lock held
			if !resetArmed.Load() || gen.FindID(q.Args) != p.lastID {
				return false
			}
			resetArmed.Store(false)
			resetFired.Store(true)
			return true
		})
		go func() {
			<-part1
			resetArmed.Store(true)
			close(gate)
		}()
		plan = append(drive.Plan(r, st.Bytes[:p.offBatch], cc.PauseUnit, cc.PlanStyle), drive.Step{Gate: gate},
			drive.Step{Data: st.Bytes[p.offBatch:p.offTail]})
		plan = append(plan, drive.Plan(r, st.Bytes[p.offTail:], cc.PauseUnit, cc.PlanStyle)...)
	} else if p := w.reset; p != nil {
		// part 1 | gate: the fault is armed | the big batch in one piece | tail.  The node executes
		// k of the big commands, then closes the connection with the rest unread (the kernel
		// answers the client's pending writes with RST); later connections are served normally.
		before := map[string]bool{}
		for _, x := range w.writes {
			if st.Cmds[x.cmd].Start < p.offBig {
				before[x.id] = true
			}
		}
		part1 := waitApplied(before)
		gate := make(chan struct{})
		seen := 0
		cl.Node(p.node).SetHooks(nil, nil, func(q *fakeredis.Req) bool {
			// called with the node's lock held
			if !resetArmed.Load() || len(q.Args) < 2 || len(q.Args[len(q.Args)-1]) < 32*1024 {
				return false
			}
			seen++
			if seen < p.k {
				return false
			}
			resetArmed.Store(false)
			resetFired.Store(true)
			return true
		})
		go func() {
			<-part1
			heavyPhase <- struct{}{}
			heavyHeld.Store(true)
			resetArmed.Store(true)
			close(gate)
		}()
		defer func() {
			if heavyHeld.Load() {
				<-heavyPhase
			}
		}()
		plan = append(drive.Plan(r, st.Bytes[:p.offBig], cc.PauseUnit, cc.PlanStyle), drive.Step{Gate: gate},
			drive.Step{Data: st.Bytes[p.offBig:p.offTail]})
		plan = append(plan, drive.Plan(r, st.Bytes[p.offTail:], cc.PauseUnit, cc.PlanStyle)...)
	} else if m := w.mid; m != nil {
		// part 1 | gate 1: victim slot migrates | trigger write | gate 2: the client's refresh is
		// on its way and held back | victim batch in one piece | tail
		before := map[string]bool{}
		for _, x := range w.writes {
			if st.Cmds[x.cmd].Start < m.offTrigger {
				before[x.id] = true
			}
		}
		part1 := waitApplied(before)
		trig := waitApplied(map[string]bool{m.trigger.id: true})
		gate1, gate2 := make(chan struct{}), make(chan struct{})
		to := (m.victim.node + 1 + r.Intn(cc.Nodes-1)) % cc.Nodes
		go func() {
			<-part1
			cl.Update(func(t *fakeredis.Topo) { t.MigrateSlot(m.victim.slot, to) })
			phase.Store(1)
			close(gate1)
			<-trig
			select {
			case <-held:
			case <-time.After(3 * time.Second): // no refresh was requested: the case stays trivial
			}
			close(gate2)
		}()
		plan = append(drive.Plan(r, st.Bytes[:m.offTrigger], cc.PauseUnit, cc.PlanStyle), drive.Step{Gate: gate1})
		plan = append(plan, drive.Step{Data: st.Bytes[m.offTrigger:m.offBatch]}, drive.Step{Gate: gate2},
			drive.Step{Data: st.Bytes[m.offBatch:m.offTail]})
		plan = append(plan, drive.Plan(r, st.Bytes[m.offTail:], cc.PauseUnit, cc.PlanStyle)...)
	} else {
		installSchedule(r, cc, cl, victims, reqBase, len(w.writes))
	}

	cl.SetOnApplied(onApplied)
	// await: one tool run until it is quiescent (logical: the sender stored the end offset of the
	// stream as resume position — it has consumed every item and flushed its queue — and 4
	// keep-alive batches were served after that; at most 3 batches are in flight behind the
	// dispatcher) or until Send returns by itself
	await := func(ar *drive.AofRun) (outcome, bool) {
		quiet := make(chan struct{})
		stopQ := make(chan struct{})
		defer close(stopQ)
		go func() {
			select {
			case <-cpAtEnd:
			case <-stopQ:
				return
			}
			from := pings.Load()
			for pings.Load() < from+4 {
				select {
				case <-pingCh:
				case <-stopQ:
					return
				}
			}
			close(quiet)
		}()
		var oc outcome
		select {
		case <-quiet:
			oc.kind = "completed"
			if _, ok := ar.Stop(60 * time.Second); !ok {
				run.Inconclusive("%s: Send did not return after cancel", key)
				return oc, false
			}
		case e := <-ar.Done:
			oc.kind, oc.err = "error", e
			ar.F.Abort()
		case <-time.After(45 * time.Second):
			ar.Stop(10 * time.Second)
			run.Inconclusive("%s: watchdog: neither quiescent nor ended (handed %d bytes, %d pings) [%s]", key, ar.F.Handed(), pings.Load(), cc)
			return oc, false
		}
		return oc, true
	}
	ar := ss.SendAof(ctx, sp.Offset, plan, false, cc.BufSize)
	oc, ok := await(ar)
	if !ok {
		return
	}
	// abandoned-node-worker: the reported failure is followed by what the tool's input loop does —
	// start-up bookkeeping, StartPoint, Send from the stored position — WITHOUT waiting for the
	// double to go idle: whatever the first run left behind is still on its way
	restartReq := int64(-1)
	var firstErr error
	if w.aban != nil && oc.kind == "error" {
		firstErr = oc.err
		restartReq = cl.ReqCount()
		ss2, err := drive.NewSession(cfg, ids)
		if err != nil {
			run.Inconclusive("%s: restart: session: %v", key, err)
			return
		}
		sp2, err := ss2.Out.StartPoint(ctx, ids)
		if err != nil || sp2.Offset < base || sp2.Offset > endOff {
			run.Inconclusive("%s: restart: startpoint %v %v", key, sp2, err)
			return
		}
		rest := st.Bytes[sp2.Offset-base:]
		ar2 := ss2.SendAof(ctx, sp2.Offset, drive.Plan(r, rest, cc.PauseUnit, cc.PlanStyle), false, cc.BufSize)
		if oc, ok = await(ar2); !ok {
			return
		}
	}
	// a Send that returns by itself — with whatever error, or none — makes the input loop call
	// StartPoint and Send again: it resumes from the stored position
	if !cl.WaitIdle(300*time.Millisecond, 20*time.Second) {
		run.Inconclusive("%s: cluster double did not become idle after Send returned", key)
		return
	}
	cl.SetOnApplied(nil)
	cl.SetOnRequest(nil)

	// ---- observe
	apps := cl.Applied()[appBase:]
	var reqs []fakeredis.CReq
	for _, q := range cl.Requests() {
		if q.GReq > reqBase {
			reqs = append(reqs, q)
		}
	}
	type seen struct {
		p    int
		gseq int64
		greq int64
		node int
		run  int // 1, or 2 when the connection that carried it was opened after the restart
	}
	// connections are attributed to the tool run during which they were opened
	connRun := func(node int, conn int64) int { return 1 }
	if restartReq >= 0 {
		first := map[[2]int64]int64{}
		for _, q := range reqs {
			k := [2]int64{int64(q.Node), q.Conn}
			if _, ok := first[k]; !ok {
				first[k] = q.GReq
			}
		}
		connRun = func(node int, conn int64) int {
			if first[[2]int64{int64(node), conn}] > restartReq {
				return 2
			}
			return 1
		}
	}
	// what the double answered to the requests carrying an id (in request order)
	idReplies := map[string][]fakeredis.CReq{}
	for _, q := range reqs {
		if id := gen.FindID(q.Args); id != "" {
			idReplies[id] = append(idReplies[id], q)
		}
	}
	// lastReply: the answer to the last request carrying id before cluster request `before`
	lastReply := func(id string, before int64) (string, *fakeredis.CReq) {
		cls := "not-sent"
		var rq *fakeredis.CReq
		for i := range idReplies[id] {
			q := &idReplies[id][i]
			if q.GReq >= before {
				break
			}
			cls, rq = "ok", q
			if e, isErr := q.Reply.(fakeredis.Err); isErr {
				cls = string(e)
				if i := strings.IndexByte(cls, ' '); i > 0 {
					cls = cls[:i]
				}
			}
		}
		return cls, rq
	}
	replyClass := func(id string, before int64) string {
		c, _ := lastReply(id, before)
		return c
	}
	reqByGReq := map[int64]*fakeredis.CReq{}
	for i := range reqs {
		reqByGReq[reqs[i].GReq] = &reqs[i]
	}
	const never = int64(1) << 62
	posOf := map[string][]seen{}
	idCount := map[string]int{}
	nodesUsed := map[int]bool{}
	nBiz, nilReplies := 0, 0
	for _, a := range apps {
		if !a.Write || (len(a.Args) > 0 && drive.Reserved(a.Args[0])) {
			continue
		}
		id := gen.FindID(a.Args)
		x := w.byID[id]
		if x == nil {
			run.Inconclusive("%s: the double applied a business write that is not in the stream: %s", key, a.String())
			return
		}
		if a.IsErr {
			run.Inconclusive("%s: the double answered a generated command with an error: %s -> %v", key, a.String(), a.Reply)
			return
		}
		nBiz++
		if a.Reply == nil {
			nilReplies++
		}
		idCount[id]++
		nodesUsed[a.Node] = true
		for _, k := range x.keys {
			posOf[k] = append(posOf[k], seen{w.pos[k][id], a.GSeq, a.GReq, a.Node, connRun(a.Node, a.Conn)})
		}
	}
	redir := cl.Redirects()
	var rk []string
	for k, v := range redir {
		if v > 0 {
			rk = append(rk, k)
		}
	}
	sort.Strings(rk)
	redirSig := strings.Join(rk, "+")
	if redirSig == "" {
		redirSig = "none"
	}

	// resume position stored on the target (read from the checkpoint hash on the double)
	cp := int64(-1)
	if _, obj := cl.Lookup(cpName); obj != nil && obj.Kind == fakeredis.KHash {
		ci := checkpoint.CheckpointInfo{RunId: runID}
		if v, ok := obj.Hash[ci.OffsetKey()]; ok {
			cp, _ = strconv.ParseInt(string(v), 10, 64)
		}
	}

	run.Eval(1)
	allKeys := make([]string, 0, len(w.seq))
	for k := range w.seq {
		allKeys = append(allKeys, k)
	}
	sort.Strings(allKeys)
	witness := func(k string, focus int) map[string]any {
		wt := map[string]any{"config": cc.String(), "outcome": oc.kind, "send_error": fmt.Sprint(oc.err), "error_class": errClass(oc.err),
			"redirects_served": redir, "stored_resume_offset": cp, "stream_base_offset": base, "checkpoint_key": cpName}
		var ev []string
		for i, e := range cl.Events() {
			if i >= 40 {
				ev = append(ev, fmt.Sprintf("... %d more", len(cl.Events())-i))
				break
			}
			if len(e.What) > 200 {
				e.What = e.What[:200] + "..."
			}
			ev = append(ev, fmt.Sprintf("after cluster req %d, effect %d: %s", e.AfterGReq, e.AfterGSeq, e.What))
		}
		wt["topology_events"] = ev
		if k != "" {
			wt["key"] = k
			wt["key_slot"] = ref.HashSlot([]byte(k))
			// the neighbourhood of the offending position (whole sequences when short)
			near := func(p int) bool { return len(w.seq[k]) <= 16 || (p >= focus-5 && p <= focus+5) }
			var exp, got []string
			for i, id := range w.seq[k] {
				if near(i) {
					c := st.Cmds[w.byID[id].cmd]
					exp = append(exp, fmt.Sprintf("#%d %s [%d,%d) %s", i, id, base+c.Start, base+c.End, c.Name))
				}
			}
			for _, s := range posOf[k] {
				if near(s.p) {
					got = append(got, fmt.Sprintf("#%d@node%d(effect %d, cluster req %d)", s.p, s.node, s.gseq, s.greq))
				}
			}
			wt["key_source_sequence"] = exp
			wt["key_applied_in_global_order"] = got
			wt["key_sequence_length"] = len(w.seq[k])
			// wire-level trace of what concerns the key around the offending position: its
			// commands on every node (with the reply) and the client's topology refreshes /
			// ASKING requests in between
			lo, hi := never, int64(-1)
			for _, q := range reqs {
				if p, mine := w.pos[k][gen.FindID(q.Args)]; mine && near(p) {
					if q.GReq < lo {
						lo = q.GReq
					}
					if q.GReq > hi {
						hi = q.GReq
					}
				}
			}
			var tr []string
			for _, q := range reqs {
				if q.GReq < lo-8 || q.GReq > hi {
					continue
				}
				id := gen.FindID(q.Args)
				p, mine := w.pos[k][id]
				if !(mine && near(p)) && q.Cmd != "CLUSTER" && q.Cmd != "ASKING" && q.Cmd != "COMMAND" {
					continue
				}
				rep := fmt.Sprint(q.Reply)
				if q.Cmd == "CLUSTER" || q.Cmd == "COMMAND" {
					rep = "..."
				}
				if len(rep) > 60 {
					rep = rep[:60] + "..."
				}
				arg0 := ""
				if len(q.Args) > 0 {
					arg0 = string(q.Args[0])
				}
				tr = append(tr, fmt.Sprintf("req %d node%d conn%d %s %s %s -> %s", q.GReq, q.Node, q.Conn, q.Cmd, arg0, id, rep))
				if len(tr) >= 120 {
					tr = append(tr, "...")
					break
				}
			}
			wt["key_request_trace"] = tr
			// everything the cluster received in that window, whatever key it concerns (who sent
			// what in between: checkpoint writes, other keys of the same batch, re-sent batches)
			var all []string
			for _, q := range reqs {
				if q.GReq < lo-8 || q.GReq > hi+24 {
					continue
				}
				a0 := ""
				if len(q.Args) > 0 {
					a0 = string(q.Args[0])
					if len(a0) > 40 {
						a0 = a0[:40] + "..."
					}
				}
				rep := fmt.Sprint(q.Reply)
				if len(rep) > 40 {
					rep = rep[:40] + "..."
				}
				all = append(all, fmt.Sprintf("req %d node%d conn%d %s %s %s -> %s", q.GReq, q.Node, q.Conn, q.Cmd, a0, gen.FindID(q.Args), rep))
				if len(all) >= 160 {
					all = append(all, "...")
					break
				}
			}
			wt["all_requests_in_window"] = all
		}
		return wt
	}

	// every violation is counted by signature (the harness keeps only the first witnesses)
	viol := func(sig, caseKey, what string, wt any) {
		run.Count("violations["+sig+"]", 1)
		run.Violation(sig, caseKey, what, wt)
	}
	// clause 1b (runs that were restarted): what a previous run left behind must not take effect
	// after the restarted run has applied something newer to the key — that is an old write
	// overwriting a new one, not the repetition of a suffix
	lateFlagged := map[string]bool{}
	if restartReq >= 0 {
		for _, k := range allKeys {
			maxByRun2 := -1
			for _, a := range posOf[k] {
				if a.run == 2 && a.p > maxByRun2 {
					maxByRun2 = a.p
				}
				if a.run == 1 && a.p < maxByRun2 {
					lateFlagged[k] = true
					viol(fmt.Sprintf("order|inversion|%s|jumped-over=ok|successor=previous-run-connection|run=acknowledged|after=abandoned-node-worker", modeSig(cc)), key,
						fmt.Sprintf("key %q: command #%d (of %d) took effect on a connection of the FIRST run (ended with %q) after the restarted run had already applied #%d — an abandoned node worker delivered late; final outcome %s [schedule %s]",
							k, a.p, len(w.seq[k]), errClass(firstErr), maxByRun2, oc.kind, cc.Sched),
						witness(k, a.p))
					break
				}
			}
		}
	}
	// clause 1: per-key order
	keysChecked := 0
	for _, k := range allKeys {
		exp := w.seq[k]
		keysChecked++
		got := posOf[k]
		prev := -1
		if lateFlagged[k] {
			continue
		}
		for j, s := range got {
			if s.p > prev+1 {
				cls := "skip"
				for _, later := range got[j+1:] {
					if later.p > prev && later.p < s.p {
						cls = "inversion"
						break
					}
				}
				// what had happened to the command that was jumped over when this one took effect,
				// and where the overtaking command ran: pipelined behind it on the same connection
				// (the node went on executing after redirecting/refusing a command) or elsewhere
				// (routed around it)
				jumped, jq := lastReply(exp[prev+1], s.greq)
				via := "elsewhere"
				if oq := reqByGReq[s.greq]; jq != nil && oq != nil && jq.Node == oq.Node && jq.Conn == oq.Conn {
					via = "same-pipeline"
				}
				// how the run dealt with it: reported-error = Send returned an error and the stored
				// resume position does not cover the overtaken command (the restart re-applies it
				// and what follows); acknowledged = nothing was reported (the run went on to the end
				// of the stream) or the stored resume position already lies beyond the overtaken
				// command — the disorder stays
				dealt := "acknowledged"
				over := st.Cmds[w.byID[exp[prev+1]].cmd]
				if oc.kind == "error" && cp <= base+over.Start {
					dealt = "reported-error"
				}
				sig := fmt.Sprintf("order|%s|%s|jumped-over=%s|successor=%s|run=%s", cls, modeSig(cc), jumped, via, dealt)
				// an acknowledged disorder can still have been repaired inside the run: the sender
				// re-sends a whole batch (up to three times) when one of its commands could not be
				// redirected, and the re-sent batch applies the overtaken command and its
				// successors again, in order.  healed = the LAST application of every command of
				// the key from the overtaken one on is in source order (the overtaken one included)
				if dealt == "acknowledged" {
					lastApp := map[int]int64{}
					for _, a := range got {
						if a.p > prev && a.gseq > lastApp[a.p] {
							lastApp[a.p] = a.gseq
						}
					}
					healed := lastApp[prev+1] > 0
					idx := make([]int, 0, len(lastApp))
					for p := range lastApp {
						idx = append(idx, p)
					}
					sort.Ints(idx)
					for i := 1; i < len(idx) && healed; i++ {
						if lastApp[idx[i-1]] > lastApp[idx[i]] {
							healed = false
						}
					}
					if healed {
						sig += "|healed=in-run-retry"
					}
				}
				if cc.Sched == connReset || cc.Sched == connLost {
					sig += "|after=" + cc.Sched // behind a connection fault, not a redirect
				}
				viol(sig, key,
					fmt.Sprintf("key %q: command #%d took effect right after #%d (of %d) — %s; #%d had been answered %q by then, the overtaking command ran %s; the run %s it (outcome %s/%s, stored resume offset %d, overtaken command starts at %d) [schedule %s]",
						k, s.p, prev, len(exp), cls, prev+1, jumped, via,
						map[string]string{"acknowledged": "acknowledged", "reported-error": "reported an error and will re-apply"}[dealt],
						oc.kind, errClass(oc.err), cp, base+over.Start, cc.Sched),
					witness(k, prev+1))
				break
			}
			prev = s.p
		}
	}
	// clause 2/3: no silent loss
	lossReported := false
	for _, k := range allKeys {
		exp := w.seq[k]
		got := posOf[k]
		last := -1
		if len(got) > 0 {
			last = got[len(got)-1].p
		}
		if oc.kind == "completed" {
			// nothing was reported: every command of the key must have been applied (an
			// application order that does not end with the last one is clause 1's business)
			applied := map[int]bool{}
			for _, s := range got {
				applied[s.p] = true
			}
			for j := range exp {
				if !applied[j] && !lossReported {
					lossReported = true
					viol(fmt.Sprintf("silent-loss|%s|lost-got=%s", modeSig(cc), replyClass(exp[j], never)), key,
						fmt.Sprintf("key %q: Send reported nothing and the tool went idle after storing the stream's end offset, but command #%d of %d (%s) was never applied [schedule %s]",
							k, j, len(exp), exp[j], cc.Sched),
						witness(k, j))
				}
			}
			continue
		}
		if last == len(exp)-1 || lossReported {
			continue
		}
		next := st.Cmds[w.byID[exp[last+1]].cmd]
		if cp > base+next.Start {
			lossReported = true
			viol(fmt.Sprintf("resume-past-unapplied|%s|err=%s|unapplied-got=%s", modeSig(cc), errClass(oc.err), replyClass(exp[last+1], never)), key,
				fmt.Sprintf("key %q: Send reported %q; the stored resume offset %d lies beyond the start %d of %s (#%d, the command after the last applied #%d): a restart skips it [schedule %s]",
					k, errClass(oc.err), cp, base+next.Start, exp[last+1], last+1, last, cc.Sched),
				witness(k, last+1))
		}
	}
	// clause 4: transactional mode applies nothing twice
	dups := 0
	dupReported := false
	for _, x := range w.writes {
		if n := idCount[x.id]; n > 1 {
			dups++
			if cc.Txn && !dupReported {
				dupReported = true
				sig := "txn-duplicate|" + modeSig(cc)
				if cc.Sched == connReset || cc.Sched == connLost {
					sig += "|after=" + cc.Sched // re-sent after a connection fault, not after a redirect
				}
				viol(sig, key, fmt.Sprintf("transactional mode: %s applied %d times within one run [schedule %s]", x.id, n, cc.Sched),
					witness(x.keys[0], w.pos[x.keys[0]][x.id]))
			}
		}
	}

	// ---- coverage
	fired := cc.Sched == "none" || len(cl.Events()) > 0 || resetFired.Load() || crossHanded.Load() // at least one scripted change / fault happened during the replay
	oSig := oc.kind
	if oc.kind == "error" {
		oSig = "error:" + errClass(oc.err)
	}
	run.Count("runs", 1)
	run.Count("runs_"+oc.kind, 1)
	if oc.kind == "error" {
		run.Count("runs_ended_by_reported_"+errClass(oc.err), 1)
	}
	for k, v := range redir {
		run.Count("redirects_served_"+k, v)
	}
	run.Count("business_writes_in_streams", int64(len(w.writes)))
	run.Count("business_applications_observed", int64(nBiz))
	run.Count("business_applications_answered_null_bulk", int64(nilReplies))
	run.Count("ids_applied_more_than_once", int64(dups))
	run.Count("per_key_sequences_checked", int64(keysChecked))
	run.Count("topology_events_fired", int64(len(cl.Events())))
	run.Count("cluster_requests_logged", cl.ReqCount()-reqBase)
	run.Seen("modes", modeSig(cc))
	run.Seen("schedules", cc.Sched)
	run.Seen("outcomes", oSig)
	if !fired {
		run.Count("runs_schedule_not_reached", 1)
	}
	if n := tryAgainSettled.Load(); n > 0 {
		run.Count("ask_windows_closed_right_after_a_TRYAGAIN", n)
	}
	if w.aban != nil {
		run.Count("abandoned_worker_runs", 1)
		if resetFired.Load() && stallHeld.Load() {
			run.Count("abandoned_worker_node_X_reset_and_node_Y_stalled", 1)
		}
		if restartReq >= 0 {
			run.Count("abandoned_worker_tool_restarted_from_stored_position", 1)
		}
		if stallByEvent.Load() {
			run.Count("abandoned_worker_stall_released_by_newer_write_of_restarted_run", 1)
		}
	}
	if w.cross != nil {
		run.Count("cross_node_command_runs", 1)
		if crossHanded.Load() {
			run.Count("cross_node_command_consumed_by_the_tool", 1)
			if w.cross.alone {
				run.Count("cross_node_command_alone_in_the_queue_for_three_ticker_periods", 1)
			}
			run.Count("cross_node_command_runs_"+oc.kind, 1)
		}
	}
	if w.lost != nil {
		run.Count("conn_lost_before_reply_runs", 1)
		if resetFired.Load() {
			run.Count("conn_lost_before_reply_node_hung_up_after_executing_the_batch", 1)
		}
	}
	if w.reset != nil {
		run.Count("conn_reset_runs", 1)
		run.Count("conn_reset_batch_bytes", int64(w.reset.bytes))
		if resetFired.Load() {
			run.Count("conn_reset_node_reset_the_connection_mid_batch", 1)
		}
	}
	if w.mid != nil {
		run.Count("refresh_mid_build_runs", 1)
		if phase.Load() == 3 {
			// the held slot-table refresh was released by the COMMAND GETKEYS request issued
			// between two Put calls on the victim key
			run.Count("refresh_mid_build_refresh_released_between_puts", 1)
		}
	}
	if (cc.Sched == "none" && len(nodesUsed) >= 2) || (cc.Sched != "none" && fired) || (cc.Txn && cc.Sched == "none" && nBiz > 0) {
		run.Distinct(fmt.Sprintf("%s|%s|%s|%s", modeSig(cc), cc.Sched, oSig, redirSig))
	}
	run.Sample(map[string]any{"case": key, "config": cc.String(), "outcome": oSig, "redirects": redir, "writes": len(w.writes), "applied": nBiz,
		"keys": keysChecked, "nodes_executing": len(nodesUsed), "topology_events": len(cl.Events()), "stored_resume_offset": cp, "stream_end_offset": base + int64(len(st.Bytes))})
}
