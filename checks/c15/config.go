package main

import (
	"context"
	"fmt"
	"go/ast"
	"go/parser"
	"go/token"
	"os"
	"path/filepath"
	"strconv"
	"time"

	"github.com/mgtv-tech/redis-GunYu/config"
	"github.com/mgtv-tech/redis-GunYu/pkg/cluster"

	"verif/internal/harness"
	"verif/internal/leasestore"
)

// Clause (v): generated YAML configs go through the repo's own config.InitSyncerConfig (-> fix());
// afterwards LeaseRenewInterval <= LeaseTimeout/3, and the TTL the election really leaves in the
// store — obtained by running a Campaign with the ttl cmd/syncer.go derives from the config — is
// the configured LeaseTimeout (EX has whole-second granularity: LeaseTimeout - 1 s < ttl <=
// LeaseTimeout) and at least 3 s.

const yamlTemplate = `input:
  redis:
    addresses: [127.0.0.1:6379]
    type: standalone
channel:
  type: memory
output:
  redis:
    addresses: [127.0.0.1:6479]
    type: standalone
log:
  level: fatal
  handler:
    stdout: true
server:
  listen: 127.0.0.1:18001
cluster:
  groupName: g1
`

// repoDir is where the tree under test lives (run.sh points VERIF_REPO at scratch copies).
func repoDir() string {
	if d := os.Getenv("VERIF_REPO"); d != "" {
		return d
	}
	return "/repo"
}

// syncerTTL finds, in cmd/syncer.go, the third argument of the cluster.NewRedisCluster(…) call
// (resolving one local variable) and returns an evaluator of that expression for a given
// Cluster.LeaseTimeout.  (*SyncerCmd).Run cannot be executed without a whole syncer, so the check
// evaluates the tool's own conversion expression instead of assuming it.
func syncerTTL(src []byte) (eval func(lt time.Duration) (int64, error), text string, err error) {
	fset := token.NewFileSet()
	f, err := parser.ParseFile(fset, "syncer.go", src, 0)
	if err != nil {
		return nil, "", err
	}
	var arg ast.Expr
	var callPos token.Pos
	var encl *ast.FuncDecl
	for _, d := range f.Decls {
		fd, ok := d.(*ast.FuncDecl)
		if !ok || fd.Body == nil {
			continue
		}
		ast.Inspect(fd.Body, func(n ast.Node) bool {
			c, ok := n.(*ast.CallExpr)
			if !ok {
				return true
			}
			if se, ok := c.Fun.(*ast.SelectorExpr); ok && se.Sel.Name == "NewRedisCluster" && len(c.Args) == 3 {
				if x, ok := se.X.(*ast.Ident); ok && x.Name == "cluster" && arg == nil {
					arg, callPos, encl = c.Args[2], c.Pos(), fd
				}
			}
			return true
		})
	}
	if arg == nil {
		return nil, "", fmt.Errorf("no cluster.NewRedisCluster(ctx, cfg, ttl) call found")
	}
	if id, ok := arg.(*ast.Ident); ok { // resolve the local variable: last assignment before the call
		var def ast.Expr
		ast.Inspect(encl.Body, func(n ast.Node) bool {
			as, ok := n.(*ast.AssignStmt)
			if !ok || as.Pos() >= callPos || len(as.Lhs) != 1 || len(as.Rhs) != 1 {
				return true
			}
			if l, ok := as.Lhs[0].(*ast.Ident); ok && l.Name == id.Name {
				def = as.Rhs[0]
			}
			return true
		})
		if def == nil {
			return nil, "", fmt.Errorf("definition of %s not found", id.Name)
		}
		arg = def
	}
	text = string(src[fset.Position(arg.Pos()).Offset:fset.Position(arg.End()).Offset])
	if _, err := evalTTLExpr(arg, 10*time.Second); err != nil {
		return nil, text, err
	}
	return func(lt time.Duration) (int64, error) { return evalTTLExpr(arg, lt) }, text, nil
}

var timeUnits = map[string]int64{"Nanosecond": 1, "Microsecond": 1e3, "Millisecond": 1e6, "Second": 1e9, "Minute": 60e9, "Hour": 3600e9}

func evalTTLExpr(e ast.Expr, lt time.Duration) (int64, error) {
	switch x := e.(type) {
	case *ast.BasicLit:
		if x.Kind == token.INT {
			return strconv.ParseInt(x.Value, 0, 64)
		}
	case *ast.ParenExpr:
		return evalTTLExpr(x.X, lt)
	case *ast.BinaryExpr:
		l, err := evalTTLExpr(x.X, lt)
		if err != nil {
			return 0, err
		}
		r, err := evalTTLExpr(x.Y, lt)
		if err != nil {
			return 0, err
		}
		switch x.Op {
		case token.ADD:
			return l + r, nil
		case token.SUB:
			return l - r, nil
		case token.MUL:
			return l * r, nil
		case token.QUO:
			if r == 0 {
				return 0, fmt.Errorf("division by zero")
			}
			return l / r, nil
		}
	case *ast.SelectorExpr:
		if p, ok := x.X.(*ast.Ident); ok && p.Name == "time" {
			if u, ok := timeUnits[x.Sel.Name]; ok {
				return u, nil
			}
		}
		if x.Sel.Name == "LeaseTimeout" {
			return int64(lt), nil
		}
	case *ast.CallExpr:
		if len(x.Args) == 1 { // conversions
			switch fn := x.Fun.(type) {
			case *ast.Ident:
				switch fn.Name {
				case "int", "int64", "int32", "uint", "uint32", "uint64":
					return evalTTLExpr(x.Args[0], lt)
				}
			case *ast.SelectorExpr:
				if p, ok := fn.X.(*ast.Ident); ok && p.Name == "time" && fn.Sel.Name == "Duration" {
					return evalTTLExpr(x.Args[0], lt)
				}
			}
		}
		if se, ok := x.Fun.(*ast.SelectorExpr); ok && len(x.Args) == 0 { // d.Milliseconds(), int(d.Seconds())
			d, err := evalTTLExpr(se.X, lt)
			if err != nil {
				return 0, err
			}
			switch se.Sel.Name {
			case "Nanoseconds":
				return d, nil
			case "Microseconds":
				return d / 1e3, nil
			case "Milliseconds":
				return d / 1e6, nil
			case "Seconds":
				return d / 1e9, nil
			}
		}
	}
	return 0, fmt.Errorf("expression form %T not understood", e)
}

func checkConfig(r *harness.Run) {
	// The ttl handed to NewRedisCluster is computed inside (*SyncerCmd).Run, which cannot be run
	// without a full syncer; the check replicates the expression and verifies it is still there.
	var ttlOf func(time.Duration) (int64, error)
	src, err := os.ReadFile(filepath.Join(repoDir(), "cmd", "syncer.go"))
	if err == nil {
		var text string
		ttlOf, text, err = syncerTTL(src)
		r.Set("syncer_ttl_expression", text)
	}
	replicated := err == nil
	if !replicated {
		r.Inconclusive("config: cannot evaluate the ttl cmd/syncer.go hands to cluster.NewRedisCluster (%v); clause (v) TTL part not decided", err)
	}
	r.Assume("election ttl = the third argument of cluster.NewRedisCluster in cmd/syncer.go, read from the source under test and evaluated by the check for each fixed config ((*SyncerCmd).Run itself cannot run without a full syncer)")

	dir, err := os.MkdirTemp("", "c15-builder-cfg-")
	if err != nil {
		r.Inconclusive("config: %v", err)
		return
	}
	defer os.RemoveAll(dir)
	st, err := leasestore.New(5_000_000)
	if err != nil {
		r.Inconclusive("config: %v", err)
		return
	}
	defer st.Close()

	rng := r.Rand("config")
	fixedLT := []string{"", "0s", "1ns", "1s", "2999ms", "3s", "3001ms", "3500ms", "3999ms", "4s", "9s", "10s", "10500ms", "599s", "599999ms", "600s", "600001ms", "601s", "1h", "-5s", "100ms", "1m30s"}
	fixedRI := []string{"", "0s", "1ns", "500ms", "999ms", "1s", "1001ms", "2s", "3s", "3334ms", "5s", "200s", "201s", "300s", "-1s", "1h"}
	type cfgCase struct{ lt, ri string }
	var cases []cfgCase
	for _, lt := range fixedLT {
		for _, ri := range fixedRI {
			cases = append(cases, cfgCase{lt, ri})
		}
	}
	for i := 0; i < r.N(150, 3000); i++ {
		lt := time.Duration(rng.Int63n(700_000)) * time.Millisecond
		var ri time.Duration
		switch rng.Intn(5) {
		case 0:
			ri = lt / 3
		case 1:
			ri = lt/3 + time.Millisecond
		case 2:
			ri = lt/3 - time.Millisecond
		default:
			ri = time.Duration(rng.Int63n(250_000)) * time.Millisecond
		}
		cases = append(cases, cfgCase{lt.String(), ri.String()})
	}

	for i, c := range cases {
		caseKey := "config"
		yaml := yamlTemplate
		if c.lt != "" {
			yaml += "  leaseTimeout: " + c.lt + "\n"
		}
		if c.ri != "" {
			yaml += "  leaseRenewInterval: " + c.ri + "\n"
		}
		path := filepath.Join(dir, fmt.Sprintf("c%d.yaml", i))
		if err := os.WriteFile(path, []byte(yaml), 0o644); err != nil {
			r.Inconclusive("config: %v", err)
			return
		}
		*config.GetSyncerConfig() = config.SyncConfig{} // InitSyncerConfig unmarshals onto the global
		if err := config.InitSyncerConfig(path); err != nil {
			r.Count("config_rejected", 1)
			r.Seen("config_reject_reasons", truncate(err.Error(), 80))
			continue
		}
		cc := config.GetSyncerConfig().Cluster
		if cc == nil {
			r.Inconclusive("config: cluster section vanished for %q/%q", c.lt, c.ri)
			continue
		}
		r.Eval(1)
		r.Count("config_cases", 1)
		wit := map[string]any{"yaml_leaseTimeout": c.lt, "yaml_leaseRenewInterval": c.ri, "fixed_LeaseTimeout": cc.LeaseTimeout.String(), "fixed_LeaseRenewInterval": cc.LeaseRenewInterval.String()}
		if cc.LeaseRenewInterval <= 0 {
			r.Violation("config|renew-interval-not-positive", caseKey, fmt.Sprintf("LeaseRenewInterval = %v after fix()", cc.LeaseRenewInterval), wit)
		}
		if cc.LeaseRenewInterval > cc.LeaseTimeout/3 {
			r.Violation("config|renew-interval>lease-timeout/3", caseKey, fmt.Sprintf("LeaseRenewInterval %v > LeaseTimeout %v / 3 after fix()", cc.LeaseRenewInterval, cc.LeaseTimeout), wit)
		}
		if !replicated {
			continue
		}
		ttl64, err := ttlOf(cc.LeaseTimeout)
		if err != nil {
			r.Inconclusive("config: %v", err)
			return
		}
		ttl := int(ttl64)
		// what reaches the store
		key := fmt.Sprintf("cfg-lease-%d", i)
		tag := fmt.Sprintf("cfg-%d", i)
		cl, err := cluster.NewRedisCluster(context.Background(), config.RedisConfig{Addresses: []string{st.Addr()}, Type: config.RedisTypeStandalone, UserName: tag, Password: "pw"}, ttl)
		if err != nil {
			r.Inconclusive("config: connect: %v", err)
			return
		}
		mark := st.LogLen()
		role, cerr := cl.NewElection(context.Background(), key, "10.0.0.1:18001").Campaign(context.Background())
		cl.Close()
		var ent *leasestore.Entry
		for _, e := range st.LogFrom(mark) {
			if e.Tag == tag && e.Call > 0 && e.Key == key {
				e := e
				ent = &e
			}
		}
		wit["ttl_s_passed_to_NewRedisCluster"] = ttl
		wit["campaign_role"], wit["campaign_err"] = role.String(), fmt.Sprint(cerr)
		if ent != nil {
			wit["store_entry"] = ent
		}
		if cerr != nil || role != cluster.RoleLeader || ent == nil || !ent.After.Exists {
			// e.g. EX 0 rejected by the store: nobody can ever become leader; not a safety violation of the
			// statement, but clause (v) demands ttl >= 3 s
			r.Violation("config|campaign-on-free-lease-not-granted", caseKey, fmt.Sprintf("with LeaseTimeout %v (ttl %d s) a Campaign on a free lease was not granted: role=%v err=%v", cc.LeaseTimeout, ttl, role, cerr), wit)
			continue
		}
		storeTTL := ent.After.ExpiresAt - ent.Now // ms
		if ent.After.ExpiresAt == 0 {
			storeTTL = -1
		}
		wit["store_ttl_ms"] = storeTTL
		ltMs := cc.LeaseTimeout.Milliseconds()
		switch {
		case storeTTL < 0:
			r.Violation("config|store-ttl|none", caseKey, "lease written without expiry", wit)
		case storeTTL > ltMs:
			r.Violation("config|store-ttl|exceeds-lease-timeout", caseKey, fmt.Sprintf("store TTL %d ms > LeaseTimeout %d ms", storeTTL, ltMs), wit)
		case storeTTL <= ltMs-1000:
			r.Violation("config|store-ttl|undershoots-lease-timeout", caseKey, fmt.Sprintf("store TTL %d ms is more than a second short of LeaseTimeout %d ms", storeTTL, ltMs), wit)
		case storeTTL < 3000:
			r.Violation("config|store-ttl|below-3s", caseKey, fmt.Sprintf("store TTL %d ms < 3 s", storeTTL), wit)
		}
		if storeTTL != ltMs {
			r.Count("config_ttl_truncated_to_whole_seconds", 1)
		}
		if 3*cc.LeaseRenewInterval.Milliseconds() > storeTTL {
			r.Count("config_renew_interval_above_store_ttl_third", 1) // observation only (sub-second LeaseTimeout)
		}
		r.Distinct(fmt.Sprintf("config|lt=%s|ri=%s", classDur(cc.LeaseTimeout), classRI(cc)))
	}
}

func truncate(s string, n int) string {
	if len(s) > n {
		return s[:n]
	}
	return s
}

func classDur(d time.Duration) string {
	switch {
	case d == 3*time.Second:
		return "min"
	case d == 600*time.Second:
		return "max"
	case d%time.Second != 0:
		return "fractional"
	}
	return "whole"
}

func classRI(cc *config.ClusterConfig) string {
	switch {
	case cc.LeaseRenewInterval == cc.LeaseTimeout/3:
		return "=lt/3"
	case cc.LeaseRenewInterval == time.Second:
		return "min"
	}
	return "<lt/3"
}
