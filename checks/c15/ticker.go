package main

import (
	"context"
	"errors"
	"fmt"
	"io"
	"sync"
	"time"

	"github.com/mgtv-tech/redis-GunYu/cmd"
	"github.com/mgtv-tech/redis-GunYu/config"
	"github.com/mgtv-tech/redis-GunYu/pkg/cluster"
	usync "github.com/mgtv-tech/redis-GunYu/pkg/sync"
	"github.com/mgtv-tech/redis-GunYu/syncer"

	"verif/internal/harness"
)

// Clause (vi): "a failed renewal is reported as loss of leadership" at the place where the tool
// acts on it.  The real election ticker of cmd/syncer.go (through the build-tag hook) runs with a
// scripted cluster.Election: k good renewals, then a tick whose renewals (the ticker retries once
// in place) all fail with one of the errors Renew can return.  Decided on the call log, not on the
// clock: the syncer's wait must be closed with an error when that tick ends, so every election
// call the ticker makes afterwards - if it makes one at all - already carries a cancelled context.
// A call with a live context after a failed tick is an instance that goes on leading on a lease it
// could not renew.  A follower's failed campaign is held to the same rule, and a campaign that
// wins closes the wait without an error (the syncer is restarted as leader).

type tickCall struct {
	Idx      int    `json:"idx"`
	Kind     string `json:"kind"`
	CtxDead  bool   `json:"context_already_cancelled"`
	Result   string `json:"result"`
	WaitDone bool   `json:"wait_closed_at_entry"`
}

type scriptedElection struct {
	mu     sync.Mutex
	good   int    // calls answered nil / the unchanged role before the failure starts
	class  string // failure class
	second string // what the in-place retry of the failing tick gets: "fail" | "ok"
	role   cluster.ClusterRole
	wait   usync.WaitCloser
	calls  []tickCall
	failed int // failing answers given so far
	lookups int // Leader() calls
	limit  chan struct{}
}

var errStoreReply = errors.New("ERR lease store is read only")

func (s *scriptedElection) failure(ctx context.Context) error {
	switch s.class {
	case "not-leader":
		return cluster.ErrNotLeader
	case "io":
		return fmt.Errorf("read lease store: %w", io.ErrUnexpectedEOF)
	case "store-error-reply":
		return errStoreReply
	default: // "no-answer": the store does not answer within the call's deadline
		<-ctx.Done()
		return ctx.Err()
	}
}

func (s *scriptedElection) step(ctx context.Context, kind string) (bool, error) {
	s.mu.Lock()
	idx := len(s.calls)
	c := tickCall{Idx: idx, Kind: kind, CtxDead: ctx.Err() != nil, WaitDone: s.wait.IsClosed()}
	ok := idx < s.good || s.class == "wins" || (s.second == "ok" && s.failed == 1 && idx == s.good+1)
	if !ok {
		s.failed++
	}
	s.mu.Unlock()
	var err error
	if !ok {
		err = s.failure(ctx)
	}
	c.Result = fmt.Sprint(err)
	s.mu.Lock()
	s.calls = append(s.calls, c)
	n := len(s.calls)
	s.mu.Unlock()
	if n >= s.good+6 {
		select {
		case s.limit <- struct{}{}:
		default:
		}
	}
	return ok, err
}

func (s *scriptedElection) Renew(ctx context.Context) error {
	_, err := s.step(ctx, "renew")
	return err
}

func (s *scriptedElection) Campaign(ctx context.Context) (cluster.ClusterRole, error) {
	ok, err := s.step(ctx, "campaign")
	if err != nil {
		return cluster.RoleCandidate, err
	}
	if ok && s.class == "wins" {
		s.mu.Lock()
		n := len(s.calls)
		s.mu.Unlock()
		if n > s.good {
			return cluster.RoleLeader, nil
		}
	}
	return cluster.RoleFollower, nil
}

// Leader: what a look at the lease shows while the scripted failure lasts - another instance's
// address when the renewals fail because that instance holds the lease, the store's failure
// otherwise.  Not an election call: it is not entered into the call log the clauses are judged on
// (an implementation may look before it reports the loss).
func (s *scriptedElection) Leader(ctx context.Context) (*cluster.RoleInfo, error) {
	s.mu.Lock()
	failing := s.failed > 0
	s.lookups++
	s.mu.Unlock()
	switch {
	case !failing:
		return nil, cluster.ErrNoLeader
	case s.class == "not-leader":
		return &cluster.RoleInfo{Address: "10.0.0.99:18001", Role: cluster.RoleLeader}, nil
	case s.class == "no-answer":
		if _, ok := ctx.Deadline(); ok {
			<-ctx.Done()
			return nil, ctx.Err()
		}
		return nil, fmt.Errorf("read lease store: %w", io.ErrUnexpectedEOF)
	default:
		return nil, s.failure(ctx)
	}
}
func (s *scriptedElection) Resign(ctx context.Context) error { return nil }

func checkTicker(r *harness.Run) {
	saved := config.GetSyncerConfig().Cluster
	defer func() { config.GetSyncerConfig().Cluster = saved }()
	n := r.N(60, 400)
	for i := 0; i < n; i++ {
		key := fmt.Sprintf("ticker-%d", i)
		if !r.WantCase(key) {
			continue
		}
		rng := r.Rand(key)
		interval := time.Duration(8+rng.Intn(20)) * time.Millisecond
		lease := interval * time.Duration(3+rng.Intn(400)) // from the tightest legal ratio to the 10 s default over a short interval
		config.GetSyncerConfig().Cluster = &config.ClusterConfig{GroupName: "c15", LeaseRenewInterval: interval, LeaseTimeout: lease}
		role := cluster.RoleLeader
		classes := []string{"not-leader", "io", "store-error-reply", "no-answer"}
		if rng.Intn(4) == 0 {
			role = cluster.RoleFollower
			classes = []string{"io", "store-error-reply", "no-answer", "wins"}
		}
		el := &scriptedElection{good: rng.Intn(5), class: classes[rng.Intn(len(classes))], second: "fail", role: role, limit: make(chan struct{}, 1)}
		if role == cluster.RoleLeader && rng.Intn(4) == 0 {
			el.second = "ok" // one failed attempt, the in-place retry succeeds: the tick is a good one
		}
		wait := usync.NewWaitCloser(nil)
		el.wait = wait
		done := make(chan struct{})
		go func() {
			defer close(done)
			cmd.NewSyncerCmd().VerifClusterTicker(wait, role, el, "127.0.0.1:1", "c15/"+key)
		}()
		// the run ends when the ticker closed the wait, or when it has made six calls past the
		// scripted good ones (more than any correct run makes); the watchdog is only a backstop
		outcome := ""
		select {
		case <-wait.Context().Done():
			outcome = "wait-closed"
		case <-el.limit:
			outcome = "call-limit"
		case <-time.After(60 * time.Second):
			outcome = "watchdog"
		}
		werr := wait.Error()
		wait.Close(nil)
		select {
		case <-done:
		case <-time.After(30 * time.Second):
			r.Inconclusive("%s: the ticker did not return after its wait was closed", key)
			continue
		}
		if outcome == "watchdog" {
			r.Inconclusive("%s: neither closed nor called for 60 s (interval %v)", key, interval)
			continue
		}
		el.mu.Lock()
		calls := append([]tickCall{}, el.calls...)
		el.mu.Unlock()
		r.Eval(1)
		r.Count("ticker_runs", 1)
		r.Count("ticker_election_calls", int64(len(calls)))
		w := map[string]any{"role": role.String(), "interval": interval.String(), "lease_timeout": lease.String(), "good_calls_first": el.good,
			"failure": el.class, "in_place_retry": el.second, "calls": calls, "wait_error": fmt.Sprint(werr), "ended_by": outcome}
		sig := fmt.Sprintf("ticker|%s|%s|retry=%s", role.String(), el.class, el.second)
		// the first tick that failed as a whole: leader = two consecutive failing renewals, follower = one failing campaign
		failedAt := -1
		for j, c := range calls {
			if c.Result == "<nil>" {
				continue
			}
			if role == cluster.RoleFollower || (j+1 < len(calls) && calls[j+1].Result != "<nil>") {
				failedAt = j
				if role == cluster.RoleLeader {
					failedAt = j + 1
				}
				break
			}
		}
		switch {
		case el.class == "wins":
			if outcome != "wait-closed" || werr != nil {
				r.Violation("ticker|follower|won-campaign-not-acted-on", key, fmt.Sprintf("a follower's campaign was granted; the wait ended by %s with error %v (expected: closed without error, the syncer restarts as leader)", outcome, werr), w)
				continue
			}
		case el.second == "ok":
			// a tick whose retry succeeded is a good tick; the failing ticks come later
			fallthrough
		default:
			if failedAt < 0 {
				r.Inconclusive("%s: no failed tick in the call log (%d calls)", key, len(calls))
				continue
			}
			late := -1
			for j := failedAt + 1; j < len(calls); j++ {
				if !calls[j].CtxDead {
					late = j
					break
				}
			}
			if late >= 0 {
				r.Violation(sig+"|goes-on-after-failed-tick", key,
					fmt.Sprintf("election call %d (%s) was made with a live context after the tick ending at call %d had failed (%s): the failed renewal/campaign was not reported as loss of leadership", late, calls[late].Kind, failedAt, calls[failedAt].Result), w)
				continue
			}
			if outcome != "wait-closed" || werr == nil || !errors.Is(werr, syncer.ErrBreak) {
				r.Violation(sig+"|failure-not-reported", key, fmt.Sprintf("after the failed tick the wait ended by %s with error %v (expected: closed with the failure and ErrBreak)", outcome, werr), w)
				continue
			}
		}
		r.Distinct(sig)
	}
}
