package main

import (
	"fmt"

	"github.com/anishathalye/porcupine"
)

// The sequential lease object a burst is checked against.  Time is frozen during a burst, so the
// object is deterministic: state = (holder, expiresAt), both taken from the store at the burst's
// start (an expired lease is already normalised to "no holder").

type opKind int

const (
	kCampaign opKind = iota
	kRenew
	kResign
	kLeader
	kObserve // synthetic: the harness reading the store after the burst went quiescent
)

func (k opKind) String() string {
	return [...]string{"campaign", "renew", "resign", "leader", "observe"}[k]
}

type leaseState struct {
	Holder string `json:"holder"`
	Exp    int64  `json:"exp"` // virtual ms; 0 with a holder = lease that never expires
}

func (s leaseState) String() string {
	if s.Holder == "" {
		return "none"
	}
	return fmt.Sprintf("%s@%d", s.Holder, s.Exp)
}

type modelIn struct {
	Kind opKind
	ID   string // caller's election id
}

// modelOut is what the caller learned.
type modelOut struct {
	Open    bool       // the caller got no verdict (lost reply, reset, other error): may or may not have taken effect
	Granted bool       // campaign: role leader; renew: nil
	Addr    string     // leader: address returned ("" = nil reply)
	Obs     leaseState // observe
}

func leaseModel(init leaseState, now, ttlMs int64) porcupine.Model {
	grant := func(st leaseState, id string) (leaseState, bool) {
		if st.Holder == "" || st.Holder == id {
			return leaseState{Holder: id, Exp: now + ttlMs}, true
		}
		return st, false
	}
	return porcupine.Model{
		Init: func() interface{} { return init },
		Step: func(state, input, output interface{}) (bool, interface{}) {
			st := state.(leaseState)
			in := input.(modelIn)
			out := output.(modelOut)
			switch in.Kind {
			case kCampaign, kRenew:
				ns, granted := grant(st, in.ID)
				if out.Open {
					return true, ns
				}
				return granted == out.Granted, ns
			case kResign:
				if st.Holder == in.ID {
					return true, leaseState{}
				}
				return true, st
			case kLeader:
				if out.Open {
					return true, st
				}
				return st.Holder == out.Addr, st
			case kObserve:
				return st == out.Obs, st
			}
			return false, st
		},
		Equal: func(a, b interface{}) bool { return a.(leaseState) == b.(leaseState) },
		DescribeOperation: func(input, output interface{}) string {
			in := input.(modelIn)
			out := output.(modelOut)
			switch {
			case in.Kind == kObserve:
				return "observe -> " + out.Obs.String()
			case out.Open:
				return fmt.Sprintf("%s(%s) -> ?", in.Kind, in.ID)
			case in.Kind == kLeader:
				return fmt.Sprintf("leader() -> %q", out.Addr)
			case in.Kind == kResign:
				return fmt.Sprintf("resign(%s) -> ok", in.ID)
			}
			return fmt.Sprintf("%s(%s) -> granted=%v", in.Kind, in.ID, out.Granted)
		},
		DescribeState: func(state interface{}) string { return state.(leaseState).String() },
	}
}
