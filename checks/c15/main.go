// C15 — at most one instance holds a source's leader lease at any time.
//
// Runs the real cluster.NewRedisCluster / NewElection / Campaign / Renew / Resign / Leader code of
// n contenders (each with its own TCP connection) against the lease-store double
// (internal/leasestore: RESP2 server, scripts executed by internal/minilua, virtual clock) and
// checks
//
//	(i)   every burst of concurrent calls is linearizable (porcupine) w.r.t. the sequential lease
//	      object (holder, expiresAt) at the burst's frozen virtual time, starting from the state
//	      observed at the burst's start and ending in the state observed after it; calls whose
//	      reply was lost stay open (unknown outcome);
//	(ii)  belief intervals [t, t+lease) opened by a granted Campaign / nil Renew of different
//	      contenders never overlap;
//	(iii) script executions by a non-holder leave the key untouched, Renew == nil only for the
//	      holder or on a free lease, Renew by a non-holder returns cluster.ErrNotLeader, a granted
//	      call leaves (id, now+lease) in the store;
//	(iv)  the store never shows a holder later than one lease period after that holder's last
//	      Campaign/Renew call;
//	(v)   configs passed through config.InitSyncerConfig satisfy LeaseRenewInterval <=
//	      LeaseTimeout/3 and the TTL that reaches the store is LeaseTimeout (whole seconds);
//	(vi)  the election ticker of cmd/syncer.go closes the syncer's wait with an error at the first
//	      tick whose renewals (or campaign) failed and makes no election call with a live
//	      context afterwards (ticker.go).
package main

import (
	"context"
	"errors"
	"fmt"
	"runtime"
	"sort"
	"strings"
	"sync"
	"sync/atomic"
	"time"

	"github.com/anishathalye/porcupine"
	"github.com/mgtv-tech/redis-GunYu/config"
	"github.com/mgtv-tech/redis-GunYu/pkg/cluster"
	"github.com/mgtv-tech/redis-GunYu/pkg/log"
	"github.com/mgtv-tech/redis-GunYu/pkg/redis/client/common"

	"verif/internal/harness"
	"verif/internal/leasestore"
)

const rule = "distinct (op kind, caller-visible outcome, lease state before the call as logged by the store: none/own/other[+last-ms], or unreached)"

func main() {
	r := harness.New("C15", "exploration", rule)
	r.MinDistinct(15)
	r.Watchdog(time.Duration(r.N(12, 100)) * time.Minute)
	f := false
	_ = log.InitLog(config.LogConfig{LevelStr: "fatal", Handler: config.LogHandlerConfig{StdOut: true}, Caller: &f, Func: &f})

	r.Assume("lease store is the in-harness double internal/leasestore (RESP2, standalone); scripts are executed by internal/minilua, not by a Lua VM")
	r.Assume("a key is expired when now > expireAt (Redis keyIsExpired): at now == expireAt the store still serves it, so clause (iv) is evaluated for now > t+lease")
	r.Assume("virtual time advances only between bursts; during a burst it is frozen, so call times are exact")
	r.Assume("contenders use distinct election ids (cmd/syncer.go passes server.listenPeer); a contender whose call failed at connection level reconnects, as the syncer restarts")
	r.Assume("redis cluster-mode lease store (pkg/redis/client/cluster) is not exercised")

	for _, k := range []string{"porcupine_ok", "porcupine_illegal", "porcupine_unknown", "store_error_replies"} {
		r.Count(k, 0) // always present in the evidence
	}
	if !r.Replaying() || r.WantCase("config") {
		checkConfig(r)
	}
	checkTicker(r)
	runHistories(r)

	if !r.Replaying() {
		if n := r.Counter("ops_total"); n < 1000 {
			r.Inconclusive("only %d election calls observed", n)
		}
		if r.Counter("expiries_observed") < 10 || r.Counter("leadership_changes") < 10 {
			r.Inconclusive("too few lease expiries (%d) / leadership changes (%d) observed", r.Counter("expiries_observed"), r.Counter("leadership_changes"))
		}
		if r.Counter("porcupine_ok")+r.Counter("porcupine_illegal") < 100 {
			r.Inconclusive("too few bursts checked by porcupine")
		}
	}
	r.Exit()
}

// ---------------------------------------------------------------------------------------------
// workload plan (a deterministic function of the seed and the history index)

type plannedOp struct {
	C     int    `json:"c"`
	Kind  string `json:"kind"`
	Fault string `json:"fault,omitempty"`
	Stale bool   `json:"stale,omitempty"` // if the contender's connection is broken, call on it anyway (as util.Retry does)
	// Resign only: the StallNth-th store request of the call is delivered late, after StallSteps
	// further steps (clock advances, other contenders act); the contender is busy meanwhile
	StallNth   int `json:"stall_nth,omitempty"`
	StallSteps int `json:"stall_steps,omitempty"`
	// cluster-store histories only: the stalled Resign is called with a deadline of 150 ms (real
	// time; cmd/syncer.go bounds election calls). An implementation that gives the call up at its
	// deadline leaves the request on its way: the instance is free again and goes on calling
	StallDeadline bool `json:"stalled_call_has_a_deadline,omitempty"`
	// at the same moment the same instance calls its election of ANOTHER shard (one process runs the
	// elections of all its shards over one lease client): Sib = kind of that call ("" = none)
	Sib     string `json:"sibling_shard_call,omitempty"`
	sibKind opKind
	// the call is made with a deadline (cmd/syncer.go bounds election calls by leaseRenewInterval) and
	// the store answers it late: the reply arrives after the deadline
	LateReply bool `json:"reply_after_deadline,omitempty"`
	// the call has NO deadline and the store answers it after 3.4 s (longer than any fixed I/O
	// time-out a connection might apply on its own): the answer must still be this call's
	VerySlow bool `json:"reply_after_3400ms_no_deadline,omitempty"`
	kind      opKind
	fault     leasestore.Fault
}

type planStep struct {
	Ops      []plannedOp `json:"ops"`
	Mode     string      `json:"mode"`
	Advance  int64       `json:"advance_ms"`
	AdvClass string      `json:"advance_class"`
}

type plan struct {
	Case    string     `json:"case"`
	N       int        `json:"contenders"`
	TTLSec  int        `json:"ttl_s"`
	Key     string     `json:"key"`
	CrashAt []int      `json:"crash_at_step"` // per contender: step index from which it is silent (-1 never)
	// one call of this history is answered after 3.4 s of real time (see plannedOp.VerySlow)
	VerySlow bool `json:"very_slow_reply_history,omitempty"`
	// the lease store is a Redis Cluster (one primary serving every slot): the lease client takes one
	// pooled connection per command, so a call of an instance can overtake an earlier request of the
	// same instance that is still on its way
	Cluster bool       `json:"lease_store_is_a_cluster,omitempty"`
	Steps   []planStep `json:"steps"`
}

func makePlan(r *harness.Run, idx int) *plan {
	rng := r.Rand(fmt.Sprintf("hist-%d", idx))
	p := &plan{Case: fmt.Sprintf("h%d", idx)}
	p.N = 2 + rng.Intn(5)
	p.TTLSec = []int{1, 2, 3, 3, 4, 10}[rng.Intn(6)]
	p.Key = fmt.Sprintf("redis-gunyu/grp%d/input-election/10.9.%d.%d:6379/", idx%7, idx/250, idx%250)
	ttl := int64(p.TTLSec) * 1000
	target := 12 + rng.Intn(29) // <= 40 ops
	p.CrashAt = make([]int, p.N)
	for i := range p.CrashAt {
		p.CrashAt[i] = -1
	}
	if rng.Intn(3) == 0 { // one or two contenders fall silent for good somewhere in the history
		for k := 0; k < 1+rng.Intn(2) && k < p.N-1; k++ {
			p.CrashAt[rng.Intn(p.N)] = 2 + rng.Intn(8)
		}
	}
	ops := 0
	for ops < target {
		stepIdx := len(p.Steps)
		var active []int
		for c := 0; c < p.N; c++ {
			if p.CrashAt[c] < 0 || stepIdx < p.CrashAt[c] {
				active = append(active, c)
			}
		}
		if len(active) == 0 {
			active = []int{0}
			p.CrashAt[0] = -1
		}
		rng.Shuffle(len(active), func(i, j int) { active[i], active[j] = active[j], active[i] })
		st := planStep{}
		size := 1 + rng.Intn(6)
		switch m := rng.Intn(10); {
		case m == 0:
			st.Mode = "resign-storm"
			size = len(active)
		case m == 1:
			st.Mode = "campaign-storm"
			size = len(active)
		case m == 2:
			st.Mode = "renew-storm"
			size = len(active)
		default:
			st.Mode = "mixed"
		}
		if size > len(active) {
			size = len(active)
		}
		if size > 6 {
			size = 6
		}
		if size > target-ops {
			size = target - ops
		}
		for _, c := range active[:size] {
			o := plannedOp{C: c}
			w := rng.Intn(100)
			switch st.Mode {
			case "resign-storm":
				o.kind = kResign
				if w < 15 {
					o.kind = kCampaign
				}
			case "campaign-storm":
				o.kind = kCampaign
			case "renew-storm":
				o.kind = kRenew
			default:
				switch {
				case w < 32:
					o.kind = kCampaign
				case w < 67:
					o.kind = kRenew
				case w < 84:
					o.kind = kResign
				default:
					o.kind = kLeader
				}
			}
			if rng.Intn(100) < 9 {
				o.fault = []leasestore.Fault{leasestore.FaultDropReply, leasestore.FaultDropReply, leasestore.FaultResetBefore, leasestore.FaultResetMid}[rng.Intn(4)]
			}
			o.Stale = rng.Intn(100) < 30
			o.Kind, o.Fault = o.kind.String(), o.fault.String()
			st.Ops = append(st.Ops, o)
		}
		ops += len(st.Ops)
		switch w := rng.Intn(100); {
		case w < 22:
			st.AdvClass, st.Advance = "0", 0
		case w < 52:
			st.AdvClass, st.Advance = "<ttl/3", 1+rng.Int63n(ttl/3-1)
		case w < 60:
			st.AdvClass, st.Advance = "ttl/3..ttl-2", ttl/3+rng.Int63n(ttl-1-ttl/3)
		case w < 70:
			st.AdvClass, st.Advance = "ttl-1", ttl-1
		case w < 80:
			st.AdvClass, st.Advance = "ttl", ttl
		case w < 88:
			st.AdvClass, st.Advance = "ttl+1", ttl+1
		default:
			st.AdvClass, st.Advance = ">ttl", ttl+2+rng.Int63n(2*ttl)
		}
		p.Steps = append(p.Steps, st)
	}
	p.Cluster = idx%3 == 1
	// late delivery of one request of a Resign call (own PRNG stream: the plans above stay as they were)
	srng := r.Rand(fmt.Sprintf("stall-%d", idx))
	for si := range p.Steps {
		for oi := range p.Steps[si].Ops {
			o := &p.Steps[si].Ops[oi]
			if o.kind != kResign || o.fault != leasestore.FaultNone || srng.Intn(100) >= 35 {
				continue
			}
			o.StallNth = 1
			if srng.Intn(3) > 0 {
				o.StallNth = 2
			}
			o.StallSteps = 1 + srng.Intn(3)
			o.StallDeadline = p.Cluster && srng.Intn(2) == 0
			if srng.Intn(2) == 0 { // let the lease run out while the request is under way
				p.Steps[si].AdvClass, p.Steps[si].Advance = "ttl+1", ttl+1
			}
		}
	}
	// reply later than the caller's deadline, and the instance's next call re-uses the same election (own PRNG stream)
	lrng := r.Rand(fmt.Sprintf("late-reply-%d", idx))
	if idx%900 == 7 {
		// a handful of histories (3 in quick) carry one very slow reply instead of the late ones
		p.VerySlow = true
	pick:
		for si := 1; si < len(p.Steps); si++ {
			for oi := range p.Steps[si].Ops {
				o := &p.Steps[si].Ops[oi]
				if o.fault != leasestore.FaultNone || o.StallNth > 0 || (o.kind != kRenew && o.kind != kCampaign) {
					continue
				}
				o.VerySlow = true
				o.fault, o.Fault = leasestore.FaultSlowReply, leasestore.FaultSlowReply.String()
				for sj := si + 1; sj < len(p.Steps); sj++ { // the instance stays on the same lease client afterwards
					for oj := range p.Steps[sj].Ops {
						if p.Steps[sj].Ops[oj].C == o.C {
							p.Steps[sj].Ops[oj].Stale = true
						}
					}
				}
				break pick
			}
		}
	}
	for si := range p.Steps {
		if p.VerySlow {
			break
		}
		for oi := range p.Steps[si].Ops {
			o := &p.Steps[si].Ops[oi]
			if o.fault != leasestore.FaultNone || o.StallNth > 0 || lrng.Intn(100) >= 4 {
				continue
			}
			o.LateReply = true
			o.fault, o.Fault = leasestore.FaultSlowReply, leasestore.FaultSlowReply.String()
			// the instance's following calls stay on the same cluster client
		next:
			for sj := si + 1; sj < len(p.Steps) && sj <= si+3; sj++ {
				for oj := range p.Steps[sj].Ops {
					if p.Steps[sj].Ops[oj].C == o.C {
						p.Steps[sj].Ops[oj].Stale = true
						continue next
					}
				}
			}
		}
	}
	// concurrent call of the same instance on its election of another shard (own PRNG stream)
	brng := r.Rand(fmt.Sprintf("sibling-%d", idx))
	for si := range p.Steps {
		for oi := range p.Steps[si].Ops {
			o := &p.Steps[si].Ops[oi]
			if o.fault != leasestore.FaultNone || o.StallNth > 0 || brng.Intn(100) >= 35 {
				continue
			}
			switch w := brng.Intn(100); {
			case w < 40:
				o.sibKind = kCampaign
			case w < 75:
				o.sibKind = kRenew
			case w < 90:
				o.sibKind = kResign
			default:
				o.sibKind = kLeader
			}
			o.Sib = o.sibKind.String()
		}
	}
	return p
}

// ---------------------------------------------------------------------------------------------
// execution of one history

type opRec struct {
	Step    int    `json:"step"`
	C       int    `json:"c"`
	ID      string `json:"id"`
	Tag     string `json:"conn_tag"`
	Kind    string `json:"kind"`
	VT      int64  `json:"vtime"`
	Call    int64  `json:"call"`
	Ret     int64  `json:"ret"`
	Fault   string `json:"fault,omitempty"`
	Stall   string `json:"late_delivery,omitempty"`
	Shard   string `json:"shard,omitempty"` // "sibling": the call went to the instance's election of the other shard
	Outcome string `json:"outcome"`
	Err     string `json:"err,omitempty"`
	Before  string `json:"store_before"`
	After   string `json:"store_after"`
	Reached bool   `json:"reached_store"`

	kind      opKind
	lateReply bool
	stallDl   bool   // stalled call made with a 150 ms deadline
	key       string // lease key of the election the call went to
	out       modelOut
	role      cluster.ClusterRole
	err       error
	entries   []leasestore.Entry
}

type contender struct {
	idx       int
	id        string
	gen       int
	tag       string
	cl        cluster.Cluster
	el        cluster.Election
	el2       cluster.Election // the same instance's election of another shard, same lease client
	broken    bool
	believes  bool
	since     int64
	until     int64
	lastIssue int64
}

type interval struct {
	C     int   `json:"c"`
	Start int64 `json:"start"`
	End   int64 `json:"end"`
}

type history struct {
	r      *harness.Run
	p      *plan
	st     *leasestore.Store
	ttl    int64
	cs     []*contender
	ops    []*opRec
	ivs    []interval
	lclock atomic.Int64
	failed bool // harness-side problem: rest of the history skipped

	stalled *stalledOp // at most one call with a request under way across steps
}

type stalledOp struct {
	abandoned bool // the call returned (deadline) while its request is still held: the instance is free again
	rec       *opRec
	stall     *leasestore.Stall
	done      chan struct{}
	mark      int
	releaseAt int
}

func runHistories(r *harness.Run) {
	n := r.N(2500, 40000)
	workers := runtime.GOMAXPROCS(0)
	if workers > 12 {
		workers = 12
	}
	var sampled atomic.Int32
	harness.Parallel(n, workers, func(i int) {
		p := makePlan(r, i)
		if !r.WantCase(p.Case) {
			return
		}
		h := &history{r: r, p: p, ttl: int64(p.TTLSec) * 1000}
		h.run()
		r.Count("histories", 1)
		if sampled.Add(1) <= 2 {
			r.Sample(map[string]any{"case": p.Case, "contenders": p.N, "ttl_s": p.TTLSec, "steps": len(p.Steps), "ops": h.summary(12)})
		}
	})
}

func (h *history) summary(max int) []string {
	var out []string
	for i, o := range h.ops {
		if i >= max {
			out = append(out, fmt.Sprintf("... %d more", len(h.ops)-max))
			break
		}
		out = append(out, fmt.Sprintf("t=%d c%d %s -> %s [%s => %s]", o.VT, o.C, o.Kind, o.Outcome, o.Before, o.After))
	}
	return out
}

func (h *history) witness(extra map[string]any) map[string]any {
	w := map[string]any{"plan": h.p, "ops": h.ops, "belief_intervals": h.ivs}
	if h.st != nil {
		lg := h.st.LogFrom(0)
		if len(lg) > 120 {
			lg = lg[len(lg)-120:]
		}
		for i := range lg {
			if len(lg[i].Args) > 0 && len(lg[i].Args[0]) > 60 {
				lg[i].Args[0] = lg[i].Args[0][:60]
			}
		}
		w["store_log_tail"] = lg
		var texts []string
		for _, s := range h.st.Scripts() {
			texts = append(texts, s.SHA+": "+s.Text)
		}
		w["scripts"] = texts
	}
	for k, v := range extra {
		w[k] = v
	}
	return w
}

func (h *history) violation(sig, what string, extra map[string]any) {
	h.r.Violation(sig, h.p.Case, what, h.witness(extra))
}

func (h *history) connect(c *contender) bool {
	if c.cl != nil {
		c.cl.Close()
		c.cl = nil
	}
	c.tag = fmt.Sprintf("%s-c%d-g%d", h.p.Case, c.idx, c.gen)
	c.gen++
	cfg := config.RedisConfig{Addresses: []string{h.st.Addr()}, Type: config.RedisTypeStandalone, UserName: c.tag, Password: "pw"}
	if h.p.Cluster {
		cfg.Type, cfg.Otype = config.RedisTypeCluster, config.RedisTypeCluster
		cfg.ClusterOptions = &config.RedisClusterOptions{HandleMoveErr: true, HandleAskErr: true}
		cfg.Password = c.tag // the cluster client authenticates with the password alone: it is the tag
	}
	cl, err := cluster.NewRedisCluster(context.Background(), cfg, h.p.TTLSec)
	if err != nil {
		h.r.Inconclusive("%s: cannot connect contender %d to the lease store: %v", h.p.Case, c.idx, err)
		h.failed = true
		return false
	}
	c.cl = cl
	c.el = cl.NewElection(context.Background(), h.p.Key, c.id)
	c.el2 = cl.NewElection(context.Background(), h.sibKey(), c.id)
	c.broken = false
	h.r.Count("connections", 1)
	return true
}

func (h *history) sibKey() string { return h.p.Key + "sibling-shard/" }

func waitUntilTrue(max time.Duration, cond func() bool) bool {
	end := time.Now().Add(max)
	for !cond() {
		if time.Now().After(end) {
			return false
		}
		time.Sleep(time.Millisecond)
	}
	return true
}

func stateOf(k leasestore.KeyState) leaseState {
	if !k.Exists {
		return leaseState{}
	}
	return leaseState{Holder: k.Value, Exp: k.ExpiresAt}
}

func (h *history) run() {
	st, err := leasestore.New(1_000_000)
	if err != nil {
		h.r.Inconclusive("%s: cannot start the lease store: %v", h.p.Case, err)
		return
	}
	h.st = st
	st.ClusterMode = h.p.Cluster
	defer st.Close()
	if h.p.TTLSec == 1 {
		// with a 1 s lease a reply later than a third of the lease period is later than any
		// deadline the client could derive from the lease timing options (ttl/3 = 333 ms)
		st.SetSlowReply(420 * time.Millisecond)
	}
	if h.p.VerySlow {
		st.SetSlowReply(3400 * time.Millisecond)
		h.r.Count("histories_with_a_very_slow_reply", 1)
	}
	for i := 0; i < h.p.N; i++ {
		c := &contender{idx: i, id: fmt.Sprintf("10.0.%d.%d:18001", i/200, 10+i), lastIssue: -1}
		h.cs = append(h.cs, c)
		if !h.connect(c) {
			return
		}
	}
	defer func() {
		for _, c := range h.cs {
			if c.cl != nil {
				c.cl.Close()
			}
		}
	}()

	lastHolder := ""
	noteHolder := func(s leaseState) {
		if s.Holder != "" && s.Holder != lastHolder {
			if lastHolder != "" {
				h.r.Count("leadership_changes", 1)
			}
			lastHolder = s.Holder
		}
	}

	for si := range h.p.Steps {
		step := &h.p.Steps[si]
		if h.stalled != nil && si >= h.stalled.releaseAt {
			if !h.deliverStalled(si) {
				break
			}
		}
		if !h.burst(si, step) || h.failed {
			break
		}
		after := stateOf(st.Peek(h.p.Key))
		noteHolder(after)
		h.checkHolderAge("after-burst", si)
		st.Advance(step.Advance)
		h.r.Count("clock_step_"+step.AdvClass, 1)
		adv := stateOf(st.Peek(h.p.Key))
		if after.Holder != "" && adv.Holder == "" {
			h.r.Count("expiries_observed", 1)
		}
		h.checkHolderAge("after-clock-step", si)
	}
	if !h.failed && h.stalled != nil {
		h.deliverStalled(len(h.p.Steps))
	}
	if !h.failed {
		// drain: everybody is silent; one lease period (+1 ms, Redis' expiry rule) later nobody holds the lease
		before := stateOf(st.Peek(h.p.Key))
		st.Advance(h.ttl + 1)
		if before.Holder != "" {
			h.r.Count("expiries_observed", 1)
		}
		h.checkHolderAge("final-drain", len(h.p.Steps))
		h.checkBeliefs()
	}
	for _, s := range st.Scripts() {
		h.r.Seen("scripts_seen", s.SHA[:12]+" "+s.FirstLine)
	}
	if us, uc := st.Unsupported(); len(us) > 0 || len(uc) > 0 {
		h.r.Inconclusive("%s: lease store could not serve the tool: %d script runs outside the minilua subset %q, unknown commands %q", h.p.Case, len(us), uniq(us), uniq(uc))
	}
}

// checkHolderAge is clause (iv): whoever the store shows as holder issued a Campaign/Renew at most
// one lease period ago, and the stored expiry is not later than that call + lease.
func (h *history) checkHolderAge(where string, si int) {
	k := h.st.Peek(h.p.Key)
	if !k.Exists {
		return
	}
	now := h.st.Now()
	var c *contender
	for _, x := range h.cs {
		if x.id == k.Value {
			c = x
		}
	}
	extra := map[string]any{"where": where, "step": si, "now": now, "store": k.String()}
	switch {
	case c == nil:
		h.violation("holder-outlives-lease|unknown-holder", fmt.Sprintf("store shows holder %q which is no contender's id", k.Value), extra)
	case c.lastIssue < 0:
		h.violation("holder-outlives-lease|never-campaigned", fmt.Sprintf("store shows holder %s which never called Campaign/Renew", k.Value), extra)
	case k.ExpiresAt == 0:
		h.violation("holder-outlives-lease|no-expiry", fmt.Sprintf("lease of %s has no expiry in the store", k.Value), extra)
	case now > c.lastIssue+h.ttl:
		extra["last_call_vtime"] = c.lastIssue
		h.violation("holder-outlives-lease|held-after-lease-period", fmt.Sprintf("at t=%d the store still shows holder %s whose last Campaign/Renew call was at t=%d (lease %d ms)", now, k.Value, c.lastIssue, h.ttl), extra)
	case k.ExpiresAt > c.lastIssue+h.ttl:
		extra["last_call_vtime"] = c.lastIssue
		h.violation("holder-outlives-lease|expiry-beyond-lease-period", fmt.Sprintf("lease of %s expires at %d, later than its last Campaign/Renew call (t=%d) + lease %d ms", k.Value, k.ExpiresAt, c.lastIssue, h.ttl), extra)
	}
}

// burst runs one step's concurrent calls, waits for quiescence and checks it.
func (h *history) burst(si int, step *planStep) bool {
	st := h.st
	now := st.Now()
	if h.stalled != nil && !h.stalled.abandoned {
		select {
		case <-h.stalled.done:
			// the call came back (its deadline fired) although its request has not been delivered
			// yet: the instance does not wait for it, it goes on with its next calls
			h.stalled.abandoned = true
			h.r.Count("late_delivery_call_gave_up_at_its_deadline", 1)
		default:
		}
	}
	if h.stalled != nil && !h.stalled.abandoned { // a contender inside a call makes no other call
		kept := make([]plannedOp, 0, len(step.Ops))
		for _, o := range step.Ops {
			if o.C == h.stalled.rec.C {
				h.r.Count("ops_skipped_contender_busy", 1)
				continue
			}
			kept = append(kept, o)
		}
		step = &planStep{Ops: kept, Mode: step.Mode, Advance: step.Advance, AdvClass: step.AdvClass}
	}
	// quiescent point: broken contenders reconnect (unless the plan makes them retry on the dead connection)
	stale := map[int]bool{}
	for _, o := range step.Ops {
		c := h.cs[o.C]
		if c.broken && o.Stale {
			stale[o.C] = true
		}
	}
	for _, c := range h.cs {
		if c.broken && !stale[c.idx] {
			if !h.connect(c) {
				return false
			}
			h.r.Count("reconnects", 1)
		}
	}
	st.ClearFaults()
	init := stateOf(st.Peek(h.p.Key))
	init2 := stateOf(st.Peek(h.sibKey()))
	mark := st.LogLen()

	recs := make([]*opRec, len(step.Ops))
	stallIdx, stallSteps := -1, 0
	var stall *leasestore.Stall
	for i, o := range step.Ops {
		c := h.cs[o.C]
		recs[i] = &opRec{Step: si, C: o.C, ID: c.id, Tag: c.tag, Kind: o.Kind, kind: o.kind, key: h.p.Key, VT: now}
		if o.fault != leasestore.FaultNone && !c.broken {
			st.FaultNext(c.tag, o.fault)
			recs[i].lateReply = o.LateReply
			recs[i].Fault = o.Fault
			h.r.Count("fault_"+o.Fault, 1)
		}
		if c.broken {
			recs[i].Fault = "retry-after-failed-call"
			h.r.Count("fault_retry-after-failed-call", 1)
		}
		if o.kind == kCampaign || o.kind == kRenew {
			c.lastIssue = now
		}
		if o.kind == kResign && o.StallNth > 0 && h.stalled == nil && stallIdx < 0 && !c.broken && o.fault == leasestore.FaultNone {
			stallIdx = i
			stall = st.StallNth(c.tag, o.StallNth)
			stallSteps = o.StallSteps
			recs[i].Stall = fmt.Sprintf("request %d of the call held for %d step(s)", o.StallNth, o.StallSteps)
			recs[i].stallDl = o.StallDeadline
			if o.StallDeadline {
				recs[i].Stall += ", call made with a 150 ms deadline"
			}
		}
	}
	var wg sync.WaitGroup
	start := make(chan struct{})
	opDone := make([]chan struct{}, len(step.Ops))
	call := func(rec *opRec, el cluster.Election) {
		<-start
		ctx := context.Background()
		if rec.lateReply {
			var cancel context.CancelFunc
			ctx, cancel = context.WithTimeout(ctx, h.st.SlowReply()/3)
			defer cancel()
		}
		if rec.stallDl {
			var cancel context.CancelFunc
			ctx, cancel = context.WithTimeout(ctx, 150*time.Millisecond)
			defer cancel()
		}
		rec.Call = h.lclock.Add(1)
		switch rec.kind {
		case kCampaign:
			rec.role, rec.err = el.Campaign(ctx)
		case kRenew:
			rec.err = el.Renew(ctx)
		case kResign:
			rec.err = el.Resign(ctx)
		case kLeader:
			var ri *cluster.RoleInfo
			ri, rec.err = el.Leader(ctx)
			if ri != nil {
				rec.out.Addr = ri.Address
			}
		}
		rec.Ret = h.lclock.Add(1)
	}
	var sibs []*opRec
	sibOf := map[int]bool{}
	for i := range step.Ops {
		opDone[i] = make(chan struct{})
		if i != stallIdx {
			wg.Add(1)
		}
		go func(rec *opRec, el cluster.Election, fin chan struct{}, counted bool) {
			defer close(fin)
			if counted {
				defer wg.Done()
			}
			call(rec, el)
		}(recs[i], h.cs[step.Ops[i].C].el, opDone[i], i != stallIdx)
		o, c := step.Ops[i], h.cs[step.Ops[i].C]
		if o.Sib != "" && i != stallIdx && !c.broken && o.fault == leasestore.FaultNone && !sibOf[o.C] {
			sibOf[o.C] = true
			sr := &opRec{Step: si, C: o.C, ID: c.id, Tag: c.tag, Kind: o.Sib, kind: o.sibKind, key: h.sibKey(), Shard: "sibling", VT: now}
			sibs = append(sibs, sr)
			wg.Add(1)
			go func() { defer wg.Done(); call(sr, c.el2) }()
		}
	}
	done := make(chan struct{})
	go func() {
		wg.Wait()
		if stallIdx >= 0 { // quiescent = the call returned (its request was not the one selected) or its request is held
			select {
			case <-opDone[stallIdx]:
			case <-stall.Parked():
			}
		}
		close(done)
	}()
	close(start)
	select {
	case <-done:
	case <-time.After(90 * time.Second): // watchdog only; the double always answers or closes
		h.r.Inconclusive("%s step %d: election calls did not return within 90 s (watchdog)", h.p.Case, si)
		h.failed = true
		st.Close() // unblocks the callers
		<-done
		return false
	}
	// quiescent: every call returned (or has its request held); the store executes nothing any more
	if stallIdx >= 0 {
		select {
		case <-opDone[stallIdx]:
			stall.Release() // the call had fewer requests: nothing was held
			recs[stallIdx].Stall = ""
			h.r.Count("late_delivery_not_reached", 1)
		default:
			rec := recs[stallIdx]
			h.stalled = &stalledOp{rec: rec, stall: stall, done: opDone[stallIdx], mark: mark, releaseAt: si + stallSteps}
			h.updateBelief(rec, now) // the instance has left the leader role when it calls Resign
			if rec.stallDl {
				// schedule shaping only: a call that honours its deadline comes back now, one that
				// ignores it stays inside (both are fine; what follows must keep the lease exclusive)
				select {
				case <-opDone[stallIdx]:
				case <-time.After(220 * time.Millisecond):
				}
			}
			recs = append(recs[:stallIdx:stallIdx], recs[stallIdx+1:]...)
			h.r.Count("late_delivery_held", 1)
		}
	}
	final := stateOf(st.Peek(h.p.Key))
	final2 := stateOf(st.Peek(h.sibKey()))
	entries := st.LogFrom(mark)
	for _, rec := range append(append([]*opRec{}, recs...), sibs...) {
		for _, e := range entries {
			// one instance's calls share a connection: a request belongs to the call on its key
			if e.Tag == rec.Tag && e.Call > 0 && (e.Key == rec.key || (e.Key == "" && !sibOf[rec.C])) {
				rec.entries = append(rec.entries, e)
			}
		}
		h.classify(rec)
		h.ops = append(h.ops, rec)
	}
	for _, rec := range recs {
		h.checkOp(rec, now)
	}
	for _, rec := range sibs {
		h.checkOp(rec, now)
		if rec.out.Open {
			h.cs[rec.C].broken = true
		}
		h.r.Count("sibling_shard_calls", 1)
	}
	for _, rec := range recs {
		h.updateBelief(rec, now)
	}
	h.linearizable(si, recs, init, final, now)
	if len(sibs) > 0 {
		h.linearizable(si, sibs, init2, final2, now)
	}
	h.r.Count("bursts", 1)
	h.r.Count(fmt.Sprintf("burst_size_%d", len(recs)), 1)
	h.r.Count("burst_mode_"+step.Mode, 1)
	return true
}

// deliverStalled: the held request reaches the store now (quiescent point, virtual time `now`);
// the call completes and is judged as a one-call burst at this time.
func (h *history) deliverStalled(si int) bool {
	so := h.stalled
	h.stalled = nil
	st := h.st
	now := st.Now()
	init := stateOf(st.Peek(h.p.Key))
	if so.abandoned {
		// the request of the given-up call reaches the store now; nobody waits for its reply. Its
		// effect is whatever the store does with it; the instance's belief is not touched (it
		// does not learn of it) - the exclusivity clauses judge what follows
		n0 := st.Calls()
		so.stall.Release()
		ok := waitUntilTrue(5*time.Second, func() bool { return st.Calls() > n0 })
		if !ok {
			h.r.Inconclusive("%s step %d: the late request of a given-up call was not executed within 5 s (watchdog)", h.p.Case, si)
			h.failed = true
			return false
		}
		time.Sleep(2 * time.Millisecond)
		final := stateOf(st.Peek(h.p.Key))
		h.r.Count("late_delivery_of_a_given_up_call", 1)
		if init.Holder == so.rec.ID && final.Holder == "" {
			h.r.Count("late_delivery_of_a_given_up_call_deleted_a_renewed_lease", 1)
		}
		h.r.Distinct(fmt.Sprintf("late-resign-given-up|%s|holder-at-delivery=%s", so.rec.Stall, map[bool]string{true: "own", false: "other-or-none"}[init.Holder == so.rec.ID]))
		return true
	}
	so.stall.Release()
	select {
	case <-so.done:
	case <-time.After(90 * time.Second): // watchdog only
		h.r.Inconclusive("%s step %d: the call with the late request did not return within 90 s (watchdog)", h.p.Case, si)
		h.failed = true
		st.Close()
		<-so.done
		return false
	}
	final := stateOf(st.Peek(h.p.Key))
	rec := so.rec
	for _, e := range st.LogFrom(so.mark) {
		if e.Tag == rec.Tag && e.Call > 0 {
			rec.entries = append(rec.entries, e)
		}
	}
	h.classify(rec)
	h.ops = append(h.ops, rec)
	h.checkOp(rec, now)
	if rec.out.Open {
		h.cs[rec.C].broken = true
	}
	h.linearizable(si, []*opRec{rec}, init, final, now)
	h.r.Count("late_delivery_completed", 1)
	if init.Holder != "" && init.Holder != rec.ID {
		h.r.Count("late_delivery_completed_while_other_holds", 1)
	}
	h.r.Distinct(fmt.Sprintf("late-resign|%s|holder-at-delivery=%s", rec.Stall, map[bool]string{true: "other", false: "own-or-none"}[init.Holder != "" && init.Holder != rec.ID]))
	return true
}

// classify turns the Go-level result into the caller-visible outcome.
func (h *history) classify(rec *opRec) {
	r := h.r
	if rec.err != nil {
		rec.Err = rec.err.Error()
		if len(rec.Err) > 160 {
			rec.Err = rec.Err[:160]
		}
	}
	switch rec.kind {
	case kCampaign:
		switch {
		case rec.err != nil:
			rec.out.Open, rec.Outcome = true, "error"
		case rec.role == cluster.RoleLeader:
			rec.out.Granted, rec.Outcome = true, "leader"
		case rec.role == cluster.RoleFollower:
			rec.Outcome = "follower"
		default:
			rec.out.Open, rec.Outcome = true, "role-"+rec.role.String()
		}
	case kRenew:
		switch {
		case rec.err == nil:
			rec.out.Granted, rec.Outcome = true, "ok"
		case errors.Is(rec.err, cluster.ErrNotLeader):
			rec.Outcome = "not-leader"
		default:
			rec.out.Open, rec.Outcome = true, "error"
		}
	case kResign:
		if rec.err == nil {
			rec.Outcome = "ok"
		} else {
			rec.out.Open, rec.Outcome = true, "error"
		}
	case kLeader:
		switch {
		case rec.err == nil:
			rec.Outcome = "address"
		case errors.Is(rec.err, common.ErrNil):
			rec.out.Addr, rec.Outcome = "", "nil-reply"
		default:
			rec.out.Open, rec.Outcome = true, "error"
		}
	}
	before := "unreached"
	rec.Before, rec.After = "-", "-"
	if len(rec.entries) > 0 {
		rec.Reached = true
		e0, el := rec.entries[0], rec.entries[len(rec.entries)-1]
		rec.Before, rec.After = e0.Before.String(), el.After.String()
		switch {
		case !e0.Before.Exists:
			before = "none"
		case e0.Before.Value == rec.ID:
			before = "own"
		default:
			before = "other"
		}
		if e0.Before.Exists && e0.Before.ExpiresAt == e0.Now {
			before += "+last-ms"
		}
		if e0.Cmd == "(partial)" || !e0.Executed {
			before += "/not-executed"
		}
		if strings.HasPrefix(el.Reply, "-") {
			r.Count("store_error_replies", 1)
			r.Seen("store_error_replies_seen", el.Reply)
		}
	}
	out := rec.Outcome
	if rec.out.Open && rec.Fault != "" {
		out += "(" + rec.Fault + ")"
	}
	r.Eval(1)
	r.Count("ops_total", 1)
	r.Count("op_"+rec.Kind+"_"+out, 1)
	r.Distinct(rec.Kind + "|" + out + "|" + before)
	if len(rec.entries) > 1 {
		r.Count("ops_with_several_store_requests", 1)
	}
}

func holderOf(k leasestore.KeyState) string {
	if k.Exists {
		return k.Value
	}
	return ""
}

// checkOp: clause (iii) and the lease-period clause on the store's own log of the call.
func (h *history) checkOp(rec *opRec, now int64) {
	if len(rec.entries) == 0 {
		if !rec.out.Open {
			if h.r.Replaying() {
				for _, e := range h.st.LogFrom(0) {
					fmt.Printf("NOTE   log seq=%d call=%d conn=%d tag=%q cmd=%s key=%q args=%.80v reply=%.40s\n", e.Seq, e.Call, e.Conn, e.Tag, e.Cmd, e.Key, e.Args, e.Reply)
				}
				fmt.Printf("NOTE   rec tag=%q key=%q\n", rec.Tag, rec.key)
			}
			h.r.Inconclusive("%s: %s by c%d returned %q but the store logged no request for it", h.p.Case, rec.Kind, rec.C, rec.Outcome)
		}
		return
	}
	extra := map[string]any{"op": rec, "store_entries": rec.entries}
	// every request the call issued, whether or not its reply reached the caller
	for _, e := range rec.entries {
		if !e.Executed || e.Key != rec.key {
			continue
		}
		hb := holderOf(e.Before)
		if hb != "" && hb != rec.ID && e.After != e.Before {
			h.violation("store|"+rec.Kind+"|nonholder-modified-lease",
				fmt.Sprintf("%s by %s while %s held the unexpired lease changed the key: %s -> %s", rec.Kind, rec.ID, hb, e.Before, e.After), extra)
		}
		if (hb == "" || hb == rec.ID) && e.After.Exists && (rec.kind == kCampaign || rec.kind == kRenew) {
			switch {
			case e.After.Value != rec.ID:
				h.violation("store|"+rec.Kind+"|lease-written-for-foreign-id", fmt.Sprintf("%s by %s left holder %q", rec.Kind, rec.ID, e.After.Value), extra)
			case e.After.ExpiresAt == 0:
				h.violation("lease-ttl|"+rec.Kind+"|no-expiry", fmt.Sprintf("%s by %s left a lease without expiry", rec.Kind, rec.ID), extra)
			case e.After.ExpiresAt > e.Now+h.ttl:
				h.violation("lease-ttl|"+rec.Kind+"|over", fmt.Sprintf("%s by %s at t=%d left expiry %d = t+%d ms, lease period is %d ms", rec.Kind, rec.ID, e.Now, e.After.ExpiresAt, e.After.ExpiresAt-e.Now, h.ttl), extra)
			case e.After.ExpiresAt < e.Now+h.ttl && e.After != e.Before:
				h.violation("lease-ttl|"+rec.Kind+"|under", fmt.Sprintf("%s by %s at t=%d left expiry %d = t+%d ms, lease period is %d ms", rec.Kind, rec.ID, e.Now, e.After.ExpiresAt, e.After.ExpiresAt-e.Now, h.ttl), extra)
			}
		}
	}
	if rec.out.Open {
		return
	}
	e0, el := rec.entries[0], rec.entries[len(rec.entries)-1]
	hb, ha := holderOf(e0.Before), holderOf(el.After)
	switch rec.kind {
	case kCampaign, kRenew:
		what := map[opKind]string{kCampaign: "Campaign returned leader", kRenew: "Renew returned nil"}[rec.kind]
		if rec.out.Granted {
			if hb != "" && hb != rec.ID {
				h.violation(rec.Kind+"|granted-while-other-holds", fmt.Sprintf("%s for %s while %s held the unexpired lease %s", what, rec.ID, hb, e0.Before), extra)
			} else if ha != rec.ID {
				h.violation(rec.Kind+"|granted-without-lease", fmt.Sprintf("%s for %s but the store holds %s afterwards", what, rec.ID, el.After), extra)
			}
			if rec.kind == kRenew && hb == "" {
				h.r.Count("renew_nil_on_free_lease", 1) // allowed by the statement ("or when no unexpired lease exists")
			}
		} else if rec.kind == kRenew && hb != "" && hb != rec.ID && !errors.Is(rec.err, cluster.ErrNotLeader) {
			h.violation("renew|nonholder-error-not-ErrNotLeader", fmt.Sprintf("Renew by non-holder %s returned %v, not cluster.ErrNotLeader", rec.ID, rec.err), extra)
		}
	case kLeader:
		if rec.err == nil && rec.out.Addr != hb {
			h.violation("leader|address-differs-from-holder", fmt.Sprintf("Leader() returned %q while the store held %s", rec.out.Addr, e0.Before), extra)
		}
	}
}

// updateBelief: clause (ii) bookkeeping.  Time is frozen during the burst, so `now` is exact.
func (h *history) updateBelief(rec *opRec, now int64) {
	c := h.cs[rec.C]
	if rec.out.Open {
		c.broken = true // no verdict from the store: the instance restarts its cluster client (as the syncer does)
	}
	end := func() {
		if c.believes {
			if now < c.until {
				c.until = now
			}
			h.ivs = append(h.ivs, interval{C: c.idx, Start: c.since, End: c.until})
			c.believes = false
		}
	}
	switch rec.kind {
	case kCampaign, kRenew:
		if !rec.out.Open && rec.out.Granted {
			if c.believes && now < c.until {
				c.until = now + h.ttl // same tenure, extended
			} else {
				if c.believes {
					h.ivs = append(h.ivs, interval{C: c.idx, Start: c.since, End: c.until})
				}
				c.believes, c.since, c.until = true, now, now+h.ttl
				h.r.Count("tenures_started", 1)
			}
		} else {
			end() // follower, ErrNotLeader or any error: the syncer leaves the leader role
		}
	case kResign:
		end()
	}
}

func (h *history) checkBeliefs() {
	for _, c := range h.cs {
		if c.believes {
			h.ivs = append(h.ivs, interval{C: c.idx, Start: c.since, End: c.until})
			c.believes = false
		}
	}
	ivs := make([]interval, 0, len(h.ivs))
	for _, iv := range h.ivs {
		if iv.End > iv.Start {
			ivs = append(ivs, iv)
		}
	}
	sort.Slice(ivs, func(i, j int) bool { return ivs[i].Start < ivs[j].Start })
	h.r.Count("belief_intervals", int64(len(ivs)))
	for i := range ivs {
		for j := i + 1; j < len(ivs) && ivs[j].Start < ivs[i].End; j++ {
			if ivs[i].C != ivs[j].C {
				h.violation("belief-overlap", fmt.Sprintf("contender %d was told it is leader for [%d,%d) and contender %d for [%d,%d)",
					ivs[i].C, ivs[i].Start, ivs[i].End, ivs[j].C, ivs[j].Start, ivs[j].End), map[string]any{"a": ivs[i], "b": ivs[j]})
				return
			}
		}
	}
}

// linearizable: clause (i) for one burst.
func (h *history) linearizable(si int, recs []*opRec, init, final leaseState, now int64) {
	var ops []porcupine.Operation
	var maxRet int64
	for _, rec := range recs {
		if rec.Ret > maxRet {
			maxRet = rec.Ret
		}
	}
	obsCall := maxRet + 1
	for _, rec := range recs {
		if rec.kind == kLeader && rec.out.Open {
			continue // a read that told the caller nothing
		}
		ret := rec.Ret
		if rec.out.Open {
			ret = obsCall + 10 // stays open until the end of the burst history
		}
		ops = append(ops, porcupine.Operation{ClientId: rec.C, Input: modelIn{Kind: rec.kind, ID: rec.ID}, Call: rec.Call, Output: rec.out, Return: ret})
	}
	ops = append(ops, porcupine.Operation{ClientId: len(h.cs), Input: modelIn{Kind: kObserve}, Call: obsCall, Output: modelOut{Obs: final}, Return: obsCall + 1})
	res, _ := porcupine.CheckOperationsVerbose(leaseModel(init, now, h.ttl), ops, 20*time.Second)
	switch res {
	case porcupine.Ok:
		h.r.Count("porcupine_ok", 1)
	case porcupine.Unknown:
		h.r.Count("porcupine_unknown", 1)
		h.r.Inconclusive("%s step %d: porcupine timed out", h.p.Case, si)
	case porcupine.Illegal:
		h.r.Count("porcupine_illegal", 1)
		h.violation("not-linearizable", fmt.Sprintf("burst %d at t=%d is not linearizable w.r.t. the lease object from %s to %s", si, now, init, final),
			map[string]any{"burst_ops": recs, "initial": init, "final": final, "now": now})
	}
}

func uniq(in []string) []string {
	seen := map[string]bool{}
	var out []string
	for _, s := range in {
		if !seen[s] {
			seen[s] = true
			out = append(out, s)
		}
	}
	return out
}
