// C18 — cluster-mode bidirectional (bisync) units are single-slot or refused, never best-effort.
//
// The real RedisOutput (BisyncEnabled, replay modes sync / pipeline / parallel) replays a
// snapshot and a generated replication stream into a 3–4 node cluster double.  The double computes
// slots with ref.HashSlot (the independent spec implementation), executes a MULTI block only on
// the owner of one slot (CROSSSLOT / MOVED otherwise) and logs every request of every node in one
// total order.
//
// How the tool is driven: every case starts a tool instance through syncer.VerifNewOutput
// (= NewSyncer(cfg).newOutput(): run-id lookup on a source double, bisync namespace resolution
// via checkpoint.ResolveOrCreateBisyncCheckpointName, bisync_mode bookkeeping, UpdateCheckpoint)
// against the cluster target (output = the whole cluster after redis.FixTopology, as
// cmd/syncer.go builds it for a standalone source), then follows RedisInput.run():
// StartPoint → Send(snapshot reader) → StartPoint → Send(log reader).
//
// Oracle (DESIGN C18):
//   - every MULTI block any node received touches exactly one slot — business keys by the
//     reference key table (ref.Keys), marker / latest / commit / index control keys by their name —
//     and was received by that slot's owner; no MOVED / ASK / TRYAGAIN / CROSSSLOT reply was served;
//   - a unit whose keys share a slot by ref (after the configured key filter) is committed: a
//     block holding exactly its forwarded commands was executed, and Send reports no refusal while
//     only such units have been fed (the stream is held back at a gate until they are all applied);
//   - a unit whose keys span >1 slot by ref, or that holds a command unknown to the tool's static
//     table and to the double's COMMAND GETKEYS, makes Send return an error, and the cluster's
//     request log holds no request (other than COMMAND GETKEYS introspection) carrying the id of
//     that unit or of any unit behind it, nor a marker whose end offset lies at or beyond it.
package main

import (
	"bytes"
	"context"
	"fmt"
	"math/rand"
	"os"
	"regexp"
	"sort"
	"strconv"
	"strings"
	"sync"
	"time"

	"verif/internal/drive"
	"verif/internal/fakeredis"
	"verif/internal/gen"
	"verif/internal/harness"
	"verif/internal/ref"

	"github.com/mgtv-tech/redis-GunYu/config"
	"github.com/mgtv-tech/redis-GunYu/pkg/redis/checkpoint"
	"github.com/mgtv-tech/redis-GunYu/syncer"
)

var modes = []config.ReplayMode{config.ReplayModeSync, config.ReplayModePipeline, config.ReplayModeParallel}
var terminals = []string{"clean", "cross-slot", "undeterminable"}
var snapKinds = []string{"empty", "restore", "expanded"}

type caseCfg struct {
	Mode        config.ReplayMode
	Terminal    string
	Snapshot    string
	Nodes       int
	Window      uint
	Parallelism int
	Filter      bool
	NClean      int
	NAfter      int
	PlanStyle   int
	BufSize     int
	Gated       bool // the refusable unit is only handed out after every earlier unit was applied
	Probe       bool
	ReplaceTag  bool // output.replay.replaceHashTag: the snapshot path strips the first '{' and '}' of every key
	RdbParallel int  // snapshot replay workers
	// snapshot-completeness cases: a large snapshot, one slow node, optionally a target error
	SnapOnly bool
	SnapKeys int
	Directed int    // >= 0: the cross-slot unit is the minimal two-key instance of multi-key command #Directed
	SlowNode int    // -1 = none
	Fault    string // "", "oom-queued" (→ EXECABORT), "oom-exec"
}

func (c caseCfg) String() string {
	if c.SnapOnly {
		return fmt.Sprintf("snapshot-only mode=%s snapshot=%s keys=%d nodes=%d rdb-workers=%d slow-node=%d fault=%q replaceHashTag=%v filter=%v",
			c.Mode, c.Snapshot, c.SnapKeys, c.Nodes, c.RdbParallel, c.SlowNode, c.Fault, c.ReplaceTag, c.Filter)
	}
	return fmt.Sprintf("mode=%s terminal=%s snapshot=%s nodes=%d window=%d parallelism=%d filter=%v clean=%d after=%d plan=%d buf=%d gated=%v replaceHashTag=%v rdb-workers=%d",
		c.Mode, c.Terminal, c.Snapshot, c.Nodes, c.Window, c.Parallelism, c.Filter, c.NClean, c.NAfter, c.PlanStyle, c.BufSize, c.Gated, c.ReplaceTag, c.RdbParallel)
}

func genCase(i int, r *rand.Rand) caseCfg {
	c := caseCfg{}
	c.Mode = modes[i%3]
	c.Terminal = terminals[(i/3)%3]
	c.Snapshot = snapKinds[(i/9+i)%3]
	c.Nodes = []int{3, 4, 1, 3, 4, 3}[r.Intn(6)] // one in six: a cluster of a single primary that serves every slot
	c.Window = []uint{1, 2, 8, 100}[r.Intn(4)]
	c.Parallelism = []int{0, 0, 2, 5, 8}[r.Intn(5)]
	c.Filter = r.Intn(2) == 0
	c.NClean = 6 + r.Intn(7)
	c.NAfter = 1 + r.Intn(3)
	c.PlanStyle = r.Intn(4)
	c.BufSize = []int{64, 4096, 64 * 1024}[r.Intn(3)]
	c.Gated = r.Intn(4) != 0
	c.ReplaceTag = c.Snapshot != "empty" && r.Intn(2) == 0
	c.RdbParallel = []int{1, 1, 2, 4}[r.Intn(4)]
	c.SlowNode = -1
	// two of three cross-slot units walk through the multi-key commands in their minimal form
	c.Directed = -1
	if c.Terminal == "cross-slot" {
		if n := (i/9)*3 + i%3; n%3 != 2 {
			c.Directed = n - n/3
		}
	}
	return c
}

var faults = []string{"", "oom-queued", "", "oom-exec"}

// snapCase: a few hundred small keys spread over all nodes, 2–8 snapshot workers, one node whose
// EXEC replies are late (so one worker is still busy when everything else is done), every other
// case with a target error on that worker's last key.  No stream phase.
func snapCase(i int, r *rand.Rand) caseCfg {
	c := genCase(i, r)
	c.SnapOnly = true
	c.Terminal = "clean"
	c.Snapshot = snapKinds[1+i%2]
	c.Fault = faults[i%4]
	c.ReplaceTag = (i/4)%2 == 1
	c.RdbParallel = []int{2, 3, 4, 8}[r.Intn(4)]
	c.SnapKeys = 150 + r.Intn(250)
	if c.Nodes < 3 {
		c.Nodes = 3 // the straggler scenario needs other nodes to finish first
	}
	c.SlowNode = r.Intn(c.Nodes)
	return c
}

// probeCase: the cheapest configuration that reaches the "refused with an error" clause — an empty
// snapshot, one or two committable units, then the refusable unit behind the gate.  The probes
// repeat that one step many times (what Send returns after a refusal is decided by which of two
// goroutines of the tool closes the replay first).
func probeCase(i int, r *rand.Rand) caseCfg {
	c := genCase(i, r)
	c.Mode = modes[[]int{0, 0, 0, 1, 2}[i%5]]
	c.Terminal = terminals[1+i%2]
	c.Snapshot = "empty"
	c.NClean = 1 + r.Intn(2)
	c.NAfter = 1
	c.Gated = true
	c.Probe = true
	c.Directed = -1
	if c.Terminal == "cross-slot" {
		c.Directed = 25 + i/2 // continues where the regular quick-tier cases stop
	}
	return c
}

// slotTagFirstUse: the table behind checkpoint.BisyncSlotTag (the hash tag that co-locates a
// unit's marker / latest / commit / index keys with the unit's slot) is built on first use, and the
// first users of a process are concurrent (several outputs, replay workers, committer beside the unit
// builder).  This runs before anything else in the process has asked for a tag: 16 goroutines released
// together ask for different slots; every answer must be a non-empty tag T with HASH_SLOT("{T}") = slot
// by the reference implementation.  Then all 16384 slots once, sequentially.
func slotTagFirstUse(run *harness.Run) {
	const g = 16
	r := run.Rand("slot-tag-first-use")
	slots := make([]uint16, g)
	for i := range slots {
		slots[i] = uint16(r.Intn(16384))
	}
	slots[0], slots[1] = 0, 16383
	tags := make([]string, g)
	start := make(chan struct{})
	var wg sync.WaitGroup
	for i := 0; i < g; i++ {
		wg.Add(1)
		go func(i int) {
			defer wg.Done()
			<-start
			tags[i] = checkpoint.BisyncSlotTag(slots[i])
		}(i)
	}
	close(start)
	wg.Wait()
	run.Eval(1)
	check := func(slot uint16, tag, how string) bool {
		if tag != "" && ref.HashSlot([]byte("{"+tag+"}")) == int(slot) && ref.HashSlot([]byte("x:{"+tag+"}:y")) == int(slot) {
			return true
		}
		run.Violation("control-key-tag-not-in-unit-slot|"+how, "slot-tag-first-use",
			fmt.Sprintf("BisyncSlotTag(%d) = %q (%s): keys tagged {%s} hash to slot %d, the unit's slot is %d", slot, tag, how, tag, ref.HashSlot([]byte("x:{"+tag+"}:y")), slot),
			map[string]any{"slot": slot, "tag": tag, "how": how})
		return false
	}
	ok := true
	for i := range slots {
		ok = check(slots[i], tags[i], "concurrent-first-use") && ok
	}
	if ok {
		for s := 0; s < 16384; s++ {
			if !check(uint16(s), checkpoint.BisyncSlotTag(uint16(s)), "sequential") {
				break
			}
		}
	}
	run.Count("slot_tags_checked_against_reference", 16384+g)
}

const blackPrefix = "blk:"

func main() {
	drive.Quiet()
	added := fakeredis.RegisterRefCommands() // before any double is started
	run := harness.New("C18", "exploration",
		"case = (mode, terminal unit kind, snapshot kind) cycled by index × PRNG(seed,i) → (3–4 node cluster double, window, lanes, optional key-prefix blacklist, snapshot dataset whose key names "+
			"carry every brace arrangement, stream of 6–12 committable units [single-slot commands/transactions over the reference command table with 1–5 keys placed in one slot by brace shape, "+
			"arbitrary brace-dense one-key units, near-miss same-slot pairs, COMMAND GETKEYS-resolved commands, filter-reduced units] followed by nothing / a cross-slot unit / an undeterminable unit and 1–3 units behind it) "+
			"+ refusal-report probes (empty snapshot, 1–2 committable units, then the refusable unit behind the gate; sync-heavy) "+
			"+ snapshot-completeness cases (150–400 keys over all nodes, 2–8 snapshot workers, one slow node holding all keys of one worker, fault none / -OOM at queue time / -OOM at EXEC on that worker's last key, replaceHashTag on/off); "+
			"non-trivial = the unit's outcome was observed on the cluster's request log; distinct = (mode, unit class, key-class tuple, outcome)")
	run.Watchdog(28 * time.Minute)
	run.MinDistinct(12)
	n := run.N(110, 1100)
	nProbe := run.N(40, 450)
	nSnap := run.N(12, 160)
	run.Set("double_commands_registered_from_ref_table", len(added))
	run.Assume("cluster double (fakeredis): one cluster-wide lock serialises all nodes; slots by ref.HashSlot; MOVED / CROSSSLOT decided as Redis 7 getNodeByQuery does at queue time and again at EXEC over all queued keys; a MULTI block is executed only by the owner of its single slot")
	run.Assume("the double routes — and answers COMMAND GETKEYS for — every command of the reference key table by the reference key positions (fakeredis.RegisterRefCommands); business writes are logged and answered +OK, not executed (no type clashes); the reserved bookkeeping namespace is executed for real")
	run.Assume("undeterminable = command named in neither the tool's static key table nor the double's command table (PUBLISH, SPUBLISH, SCRIPT FLUSH, module commands of modules the double does not have): COMMAND GETKEYS answers 'Invalid command specified', as a Redis without that module / for a key-less command does")
	run.Assume("the topology is stable: any MOVED / ASK / TRYAGAIN / CROSSSLOT reply served to the tool is caused by where / how the tool sent a block")
	run.Assume("key-less instances (EVAL … 0) and SORT with external BY/GET patterns are outside the quantifier and are not generated; generated requests pass the double's arity check (a master propagates nothing else)")
	run.Assume("a refused unit's COMMAND GETKEYS introspection requests carry its arguments; they are not counted as 'a request belonging to the unit'")
	run.Assume("output.replay.replaceHashTag is honoured by the snapshot path only (the key the target receives = source key without its first '{' and first '}'; the filter is evaluated on the source key); the incremental path of the tool does not read the option, so stream units are expected under their source names with or without it")
	run.Assume("snapshot-completeness cases: 'committed before Send returned' = the block's EXEC is among the requests the cluster had processed when Send(snapshot) returned (request counter read right after the return); one node delays its EXEC replies (back-pressure only); a target error = -OOM to the first command of one key's block (EXEC then answers EXECABORT) or -OOM to that block's EXEC")

	slotTagFirstUse(run)

	d := newDriver()
	defer d.Close()
	harness.Parallel(n+nProbe+nSnap, 14, func(i int) {
		if i >= n+nProbe {
			k := i - n - nProbe
			key := fmt.Sprintf("snap-%d", k)
			if run.WantCase(key) {
				r := run.Rand(key)
				oneCase(run, d, key, 200000+k, r, snapCase(k, r))
			}
			return
		}
		if i >= n {
			key := fmt.Sprintf("probe-%d", i-n)
			if run.WantCase(key) {
				r := run.Rand(key)
				oneCase(run, d, key, 100000+i-n, r, probeCase(i-n, r))
			}
			return
		}
		key := fmt.Sprintf("case-%d", i)
		if !run.WantCase(key) {
			return
		}
		r := run.Rand(key)
		cc := genCase(i, r)
		oneCase(run, d, key, i, r, cc)
	})
	run.Exit()
}

var offRe = regexp.MustCompile(`offsets?\((\d+)(?:,(\d+))?\)`)

// attribute finds the unit an error message of the tool speaks about (by its end offset).
func attribute(err error, base int64, w *workload) *unit {
	if err == nil {
		return nil
	}
	for _, m := range offRe.FindAllStringSubmatch(err.Error(), -1) {
		end := m[1]
		if m[2] != "" {
			end = m[2]
		}
		v, e := strconv.ParseInt(end, 10, 64)
		if e != nil {
			continue
		}
		for _, u := range w.units {
			if base+u.End == v {
				return u
			}
		}
	}
	return nil
}

func oneCase(run *harness.Run, d *driver, key string, idx int, r *rand.Rand, cc caseCfg) {
	hist := fmt.Sprintf("c%d", idx)
	t0 := time.Now()
	lap := func(what string) {
		if os.Getenv("C18_TIMING") != "" {
			fmt.Printf("%s: %-28s %v\n", key, what, time.Since(t0).Round(time.Millisecond))
		}
	}
	cl := fakeredis.NewCluster(cc.Nodes, fakeredis.Options{Permissive: true, LogOnly: func(cmd string, args [][]byte) bool {
		return len(args) == 0 || !drive.Reserved(args[0])
	}})
	defer cl.Close()
	if cc.SlowNode >= 0 {
		// back-pressure only: this node's EXEC replies are 1–2 ms late
		d := time.Duration(1000+r.Intn(1000)) * time.Microsecond
		cl.Node(cc.SlowNode).ReplyDelay = func(cmd string) {
			if cmd == "EXEC" {
				time.Sleep(d)
			}
		}
	}

	target, err := clusterRedis(cl, cc.Nodes)
	if err != nil {
		run.Inconclusive("%s: %v", key, err)
		return
	}
	var black []string
	if cc.Filter {
		black = []string{blackPrefix}
	}
	fc := ref.FilterConfig{PrefixBlack: black, Bookkeeping: []string{config.CheckpointKey, config.NamespacePrefixKey}}
	filter := ref.NewFilter(fc)

	out, err := d.open(target, openCfg{Mode: cc.Mode, Window: cc.Window, Parallelism: cc.Parallelism, Restore: cc.Snapshot != "expanded", PrefixBlack: black,
		ReplaceTag: cc.ReplaceTag, RdbParallel: cc.RdbParallel})
	if err != nil {
		run.Inconclusive("%s: start-up bookkeeping (VerifNewOutput): %v", key, err)
		return
	}
	lap("open (VerifNewOutput)")
	ids := sourceRunIDs()
	ctx := context.Background()
	if _, err := out.StartPoint(ctx, ids); err != nil {
		run.Inconclusive("%s: first StartPoint: %v", key, err)
		return
	}

	modeS := string(cc.Mode)
	wit := func(extra map[string]any) map[string]any {
		w := map[string]any{"config": cc.String(), "redirects_served": cl.Redirects()}
		for k, v := range extra {
			w[k] = v
		}
		return w
	}

	// ---- snapshot phase
	var snap *snapshot
	if cc.SnapOnly {
		snap = genLargeSnapshot(r, cc.Snapshot, hist, black, filter, cc.ReplaceTag, cc.SnapKeys, cc.RdbParallel, cc.SlowNode, cl)
	} else {
		snap = genSnapshot(r, cc.Snapshot, hist, black, filter, cc.ReplaceTag)
	}
	base := int64(1000 + r.Intn(100000))
	ss := &drive.Session{IDs: ids, Out: out, Watch: 180 * time.Second}
	var flt *fault
	if cc.Fault != "" {
		flt = installFault(cl, cc, snap)
	}
	snapErr, reqAtReturn, returned := fullSync(ctx, out, cl, ids[0], snap.File, base, ss.Watch)
	if !returned {
		run.Inconclusive("%s: watchdog: snapshot replay did not return", key)
		return
	}
	lap("snapshot replay")
	if flt != nil {
		cl.Node(cc.SlowNode).SetHooks(nil, nil, nil)
	}
	if cc.SnapOnly && !cl.WaitIdle(100*time.Millisecond, 20*time.Second) {
		run.Inconclusive("%s: cluster double did not become idle after the snapshot replay returned", key)
		return
	}
	snapReqs := cl.Requests()
	snapBlocks, _ := blocksOf(snapReqs)
	if flt != nil && !(snapErr != nil && isRefusal(errClass(snapErr))) {
		// a target error was planted: Send must report it and must not store the snapshot's position
		run.Eval(1)
		run.Count("cases", 1)
		run.Count("cases_snapshot_completeness", 1)
		run.Seen("modes", modeS)
		checkBlocks(run, key, cc, cl, snapBlocks, "snapshot", wit)
		judgeFault(run, key, cc, cl, snap, flt, snapErr, base, ids[0], wit)
		if snapErr == nil {
			checkSnapshot(run, key, cc, cl, snap, snapBlocks, reqAtReturn, wit)
		}
		return
	}
	if snapErr != nil {
		cls := errClass(snapErr)
		if isRefusal(cls) {
			// every snapshot unit concerns one key: it is single-slot by construction
			var last map[string]any
			if len(snapBlocks) > 0 {
				last = analyse(snapBlocks[len(snapBlocks)-1]).render()
			}
			keys := snap.Keys
			if len(keys) > 12 {
				keys = keys[:12]
			}
			run.Violation(fmt.Sprintf("snapshot-unit-refused|%s|%s|%s%s", cls, modeS, cc.Snapshot, tagSig(cc)), key,
				fmt.Sprintf("the snapshot replay was stopped by %q although every snapshot unit holds the commands of one key: %v", cls, snapErr),
				wit(map[string]any{"send_error": snapErr.Error(), "snapshot_keys": keys, "last_block_received": last}))
			checkBlocks(run, key, cc, cl, snapBlocks, "snapshot", wit)
			run.Eval(1)
			return
		}
		run.Inconclusive("%s: snapshot replay failed: %v", key, snapErr)
		return
	}
	if cc.SnapOnly {
		run.Eval(1)
		run.Count("cases", 1)
		run.Count("cases_snapshot_completeness", 1)
		run.Seen("modes", modeS)
		checkBlocks(run, key, cc, cl, snapBlocks, "snapshot", wit)
		for kind, nr := range cl.Redirects() {
			if nr > 0 {
				run.Violation(fmt.Sprintf("cluster-redirect-served|%s|%s", kind, modeS), key,
					fmt.Sprintf("the stable cluster served %d %s repl(ies) to the tool during the snapshot replay", nr, kind), wit(nil))
			}
		}
		checkSnapshot(run, key, cc, cl, snap, snapBlocks, reqAtReturn, wit)
		return
	}
	sp, err := out.StartPoint(ctx, ids)
	if err != nil || sp.Offset != base {
		run.Inconclusive("%s: StartPoint after the snapshot: %+v %v (expected offset %d)", key, sp, err, base)
		return
	}
	reqBase := cl.ReqCount()
	lap("second StartPoint")

	// ---- the stream
	g := &genCtx{r: r, hist: hist, filter: filter, black: black, cl: cl}
	w := &workload{byID: map[string]*unit{}}
	var buf bytes.Buffer
	buf.Write(gen.Encode("SELECT", [][]byte{[]byte("0")}))
	for i := 0; i < cc.NClean; i++ {
		var u *unit
		x := r.Intn(20)
		switch {
		case x < 8:
			u = g.single(false)
		case x < 11:
			u = g.arbitrary()
		case x < 14:
			u = g.nearMissSame()
		case x < 15:
			u = g.single(true)
		case x < 16:
			var first *unit
			first, u = g.shapePair()
			w.add(first, &buf)
			noise(r, &buf)
		case x < 19 && cc.Filter:
			u = g.reduced()
		case cc.Filter:
			u = g.filteredOut()
		default:
			u = g.single(false)
		}
		w.add(u, &buf)
		noise(r, &buf)
	}
	w.cutOff = int64(buf.Len())
	switch cc.Terminal {
	case "cross-slot":
		if cc.Directed >= 0 {
			w.poison = g.crossMinimal(cc.Directed)
		} else {
			w.poison = g.cross()
		}
	case "undeterminable":
		w.poison = g.unknown()
	}
	if w.poison != nil {
		w.poison.Poison = true
		w.add(w.poison, &buf)
		for i := 0; i < cc.NAfter; i++ {
			u := g.single(false)
			u.After = true
			w.add(u, &buf)
		}
	}
	w.bytes = buf.Bytes()

	lap("workload generated")
	// monitor: which unit ids have been applied by an EXEC
	var mu sync.Mutex
	applied := map[string]bool{}
	pending := map[string]bool{}
	for _, u := range w.units {
		if !u.Poison && !u.After && u.Class != clsFiltered {
			pending[u.ID] = true
		}
	}
	gate := make(chan struct{})
	gateOpen := false
	if len(pending) == 0 {
		gateOpen = true
		close(gate)
	}
	cl.SetOnApplied(func(a *fakeredis.CApp) {
		if a.Txn == 0 || a.IsErr {
			return
		}
		id := gen.FindID(a.Args)
		if id == "" {
			return
		}
		mu.Lock()
		applied[id] = true
		if pending[id] {
			delete(pending, id)
			if len(pending) == 0 && !gateOpen {
				gateOpen = true
				close(gate)
			}
		}
		mu.Unlock()
	})
	defer cl.SetOnApplied(nil)

	pause := time.Duration(1+r.Intn(5)) * time.Millisecond
	plan := drive.Plan(r, w.bytes[:w.cutOff], pause, cc.PlanStyle)
	if w.poison != nil {
		if cc.Gated {
			plan = append(plan, drive.Step{Gate: gate})
		}
		plan = append(plan, drive.Step{Data: w.bytes[w.cutOff:]})
	}
	ar := ss.SendAof(ctx, sp.Offset, plan, false, cc.BufSize)

	unapplied := func() []map[string]any {
		mu.Lock()
		defer mu.Unlock()
		var out []map[string]any
		for _, u := range w.units {
			if pending[u.ID] {
				out = append(out, u.describe())
			}
		}
		return out
	}

	var sendErr error
	selfReturned := false
	phase := "clean"
	select {
	case <-gate:
	case e := <-ar.Done:
		sendErr, selfReturned = e, true
		ar.F.Abort()
	case <-time.After(150 * time.Second):
		ar.Stop(10 * time.Second)
		run.Inconclusive("%s: watchdog: %d committable unit(s) neither applied nor refused (handed %d of %d bytes) [%s]", key, len(unapplied()), ar.F.Handed(), len(w.bytes), cc)
		return
	}
	if !selfReturned {
		if w.poison == nil {
			// everything fed is committable and has been applied: stop the way the tool is stopped
			if e, ok := ar.Stop(60 * time.Second); !ok {
				run.Inconclusive("%s: Send did not return after cancel", key)
				return
			} else {
				sendErr = e
			}
		} else {
			phase = "refusable"
			select {
			case e := <-ar.Done:
				sendErr, selfReturned = e, true
				ar.F.Abort()
			case <-time.After(90 * time.Second):
				ar.Stop(10 * time.Second)
				phase = "refusable-watchdog"
			}
		}
	}
	lap("Send returned")
	if !cl.WaitIdle(150*time.Millisecond, 20*time.Second) {
		run.Inconclusive("%s: cluster double did not become idle after Send returned", key)
		return
	}
	cl.SetOnApplied(nil)
	lap("idle")

	// ---- observe
	all := cl.Requests()
	var reqs []fakeredis.CReq
	for _, q := range all {
		if q.GReq > reqBase {
			reqs = append(reqs, q)
		}
	}
	blocks, direct := blocksOf(reqs)
	run.Eval(1)
	run.Count("cases", 1)
	if cc.Probe {
		run.Count("cases_refusal_report_probes", 1)
	}
	run.Count("cluster_requests_logged", int64(len(all)))
	run.Seen("modes", modeS)

	// (1) every block any node received, snapshot phase included
	checkBlocks(run, key, cc, cl, snapBlocks, "snapshot", wit)
	infos := checkBlocks(run, key, cc, cl, blocks, "stream", wit)

	// any redirect at all (blocks or stand-alone requests)
	for kind, nr := range cl.Redirects() {
		if nr > 0 {
			var where []string
			for _, q := range all {
				if errWord(q.Reply) == kind && len(where) < 6 {
					where = append(where, fmt.Sprintf("req %d node%d conn%d %s %.80q -> %v", q.GReq, q.Node, q.Conn, q.Cmd, q.Args, q.Reply))
				}
			}
			run.Violation(fmt.Sprintf("cluster-redirect-served|%s|%s", kind, modeS), key,
				fmt.Sprintf("the stable cluster served %d %s repl(ies) to the tool: a request was sent to a node / in a block its keys do not allow", nr, kind),
				wit(map[string]any{"requests": where, "send_error": fmt.Sprint(sendErr)}))
		}
	}

	// (2) snapshot units
	checkSnapshot(run, key, cc, cl, snap, snapBlocks, reqAtReturn, wit)

	// (3) stream units
	byUnit := map[string][]*blockInfo{}
	for _, bi := range infos {
		for _, id := range bi.IDs {
			byUnit[id] = append(byUnit[id], bi)
		}
	}
	reqsOf := map[string][]fakeredis.CReq{}
	getkeys := map[string]int{}
	for _, q := range reqs {
		id := gen.FindID(q.Args)
		if id == "" {
			continue
		}
		if q.Cmd == "COMMAND" {
			getkeys[id]++
			continue
		}
		reqsOf[id] = append(reqsOf[id], q)
	}
	trace := func(id string) []string {
		var t []string
		for _, q := range reqsOf[id] {
			a := fmt.Sprintf("%.100q", q.Args)
			t = append(t, fmt.Sprintf("req %d node%d conn%d %s %s -> %.60v", q.GReq, q.Node, q.Conn, q.Cmd, a, q.Reply))
			if len(t) >= 12 {
				break
			}
		}
		return t
	}

	cls := errClass(sendErr)
	blamed := attribute(sendErr, base, w)
	outcomeOf := map[string]string{}

	// a refusal while only committable units had been handed out.  Gated / clean streams: nothing
	// refusable has left the feeder yet, so whatever Send reports concerns a committable unit.
	// Ungated streams (the refusable unit travels right behind the others): only a report the
	// tool itself attributes (by stream offsets) to a committable unit counts.
	onlyCommittableFed := cc.Gated || w.poison == nil
	if selfReturned && phase == "clean" {
		switch {
		case !isRefusal(cls) && cls != "nil" && !onlyCommittableFed && blamed != nil && blamed.Poison:
			// e.g. the key resolver's own connection failed while resolving the refusable unit
		case !isRefusal(cls):
			if onlyCommittableFed || cls == "other" {
				run.Inconclusive("%s: Send returned by itself (%s) before every committable unit was applied: %v", key, cls, sendErr)
				return
			}
		default:
			var victim *unit
			raise := false
			switch {
			case blamed != nil && !blamed.Poison && !blamed.After:
				victim, raise = blamed, true
			case onlyCommittableFed:
				raise = true
				for _, u := range w.units { // the first committable unit that was not applied
					if !u.Poison && !u.After && u.Class != clsFiltered && !applied[u.ID] {
						victim = u
						break
					}
				}
			}
			if raise {
				sig := fmt.Sprintf("single-slot-refused|%s|%s", cls, modeS)
				what := fmt.Sprintf("Send stopped with %q while only units whose keys share a slot (by ref, after the filter) had been handed out: %v", cls, sendErr)
				ex := map[string]any{"send_error": sendErr.Error(), "units_not_applied": unapplied()}
				if victim != nil {
					sig += "|" + string(victim.Class)
					ex["refused_unit"] = victim.describe()
					ex["refused_unit_requests"] = trace(victim.ID)
					outcomeOf[victim.ID] = "refused"
				}
				run.Violation(sig, key, what, wit(ex))
			}
		}
	}

	for _, u := range w.units {
		bis := byUnit[u.ID]
		committed := 0
		for _, bi := range bis {
			if bi.B.committed() {
				committed++
			}
		}
		switch {
		case u.Poison || u.After:
			// nothing of it may have been sent
			var markerHit *blockInfo
			for _, bi := range infos {
				if bi.Marker != nil && bi.Marker.EndOffset == base+u.End {
					markerHit = bi
				}
			}
			if len(reqsOf[u.ID]) > 0 || markerHit != nil {
				role := "refusable-unit"
				if u.After {
					role = "unit-behind-refusable-unit"
				}
				how := "rejected-by-cluster"
				if committed > 0 {
					how = "executed"
				}
				ex := map[string]any{"unit": u.describe(), "refusable_unit": w.poison.describe(), "requests_carrying_its_id": trace(u.ID), "send_error": fmt.Sprint(sendErr), "send_error_class": cls}
				if len(bis) > 0 {
					ex["block"] = bis[0].render()
				} else if markerHit != nil {
					ex["block"] = markerHit.render()
				}
				run.Violation(fmt.Sprintf("%s-sent|%s|%s|%s|%s", role, w.poison.Class, coarse(w.poison.Variant), how, modeS), key,
					fmt.Sprintf("unit %d (%s, %s) must stop the replay before anything of it or behind it is sent; the cluster received %d request(s) carrying the id of unit %d (%s)",
						w.poison.Idx, w.poison.Class, w.poison.Variant, len(reqsOf[u.ID]), u.Idx, role), wit(ex))
				outcomeOf[u.ID] = "sent-" + how
			} else if u.Poison {
				switch {
				case phase == "refusable-watchdog":
					run.Inconclusive("%s: watchdog: the refusable unit was neither sent nor reported within 90 s [%s]", key, cc)
					outcomeOf[u.ID] = "unknown"
				case selfReturned && cls == "other":
					run.Inconclusive("%s: Send ended with an error this check cannot classify as a refusal: %v", key, sendErr)
					outcomeOf[u.ID] = "unknown"
				case selfReturned && sendErr != nil && cls != "canceled":
					outcomeOf[u.ID] = "refused:" + cls
					if blamed != nil && blamed != u && !blamed.After && !cc.Gated {
						outcomeOf[u.ID] = "not-reached"
					}
				case selfReturned && sendErr == nil:
					run.Violation(fmt.Sprintf("refusable-unit-dropped-silently|%s|%s|%s", u.Class, coarse(u.Variant), modeS), key,
						"Send returned nil after a unit that cannot be routed: the replay stopped, nothing of the unit was sent, but no error was reported",
						wit(map[string]any{"unit": u.describe(), "send_returned": "nil (no error)", "requests_carrying_its_id": len(reqsOf[u.ID]),
							"COMMAND_GETKEYS_probes_for_it": getkeys[u.ID], "committable_units_applied_before_it": len(applied)}))
					outcomeOf[u.ID] = "dropped"
				default:
					outcomeOf[u.ID] = "unknown"
				}
			} else {
				outcomeOf[u.ID] = "not-sent"
			}
		case u.Class == clsFiltered:
			outcomeOf[u.ID] = "withheld"
			if len(reqsOf[u.ID]) > 0 {
				outcomeOf[u.ID] = "forwarded"
				run.Count("filtered_out_units_seen_on_target(not judged here, C10)", 1)
			}
		default:
			if outcomeOf[u.ID] == "refused" {
				break
			}
			if committed == 0 {
				outcomeOf[u.ID] = "not-applied"
				break
			}
			outcomeOf[u.ID] = "committed"
			for _, bi := range bis {
				if !sameBusiness(bi, u) || len(bi.IDs) != 1 {
					run.Violation(fmt.Sprintf("unit-altered|%s|%s|%s", u.Class, coarse(u.Variant), modeS), key,
						fmt.Sprintf("the block carrying unit %d does not hold exactly the unit's forwarded commands (approximate replay)", u.Idx),
						wit(map[string]any{"unit": u.describe(), "block": bi.render()}))
					outcomeOf[u.ID] = "altered"
					break
				}
			}
		}
	}

	lap("judged")
	// ---- coverage
	for _, u := range w.units {
		oc := outcomeOf[u.ID]
		if oc == "" {
			oc = "unknown"
		}
		role := string(u.Class)
		if u.After {
			role = "behind-refusable"
		}
		run.Count("units", 1)
		run.Count("units:"+role+":"+strings.SplitN(oc, ":", 2)[0], 1)
		if getkeys[u.ID] > 0 {
			run.Count("units_resolved_through_COMMAND_GETKEYS", 1)
		}
		for _, c := range u.KeyCls {
			run.Seen("brace_classes", c)
		}
		for _, s := range u.Shapes {
			run.Seen("brace_shapes", s)
		}
		if u.Variant != "" {
			run.Seen("unit_variants", string(u.Class)+"/"+coarse(u.Variant))
		}
		if oc != "unknown" && oc != "not-applied" && oc != "not-reached" {
			run.Distinct(fmt.Sprintf("%s|%s|%s|%s", modeS, role, u.keyClassSig(), strings.SplitN(oc, ":", 2)[0]))
		}
	}
	run.Seen("send_error_classes", cc.Terminal+"→"+cls)
	run.Count("stand_alone_requests_carrying_a_unit_id(expected 0)", int64(countDirectBusiness(direct)))
	if idx < 6 {
		var us []string
		for _, u := range w.units {
			us = append(us, fmt.Sprintf("%d:%s/%s[%s]→%s", u.Idx, u.Class, u.Variant, u.keyClassSig(), outcomeOf[u.ID]))
		}
		run.Sample(map[string]any{"case": key, "config": cc.String(), "send_error_class": cls, "units": us,
			"stream_blocks": len(blocks), "snapshot_blocks": len(snapBlocks), "snapshot_keys": len(snap.Keys)})
	}
}

// coarse strips the per-instance detail (command name, positions) from a unit variant label.
func coarse(v string) string {
	if i := strings.Index(v, ":"); i > 0 && (strings.HasPrefix(v, "alone") || strings.HasPrefix(v, "in-transaction")) {
		v = v[:i]
	}
	if strings.HasPrefix(v, "in-transaction-pos") {
		v = "in-transaction"
	}
	if strings.HasPrefix(v, "transaction-command-") {
		v = "transaction-command-withheld"
	}
	if i := strings.Index(v, "|transaction-odd-command"); i > 0 {
		v = v[:i] + "|transaction"
	}
	return v
}

func countDirectBusiness(direct []fakeredis.CReq) int {
	n := 0
	for _, q := range direct {
		if q.Cmd == "COMMAND" {
			continue
		}
		if gen.FindID(q.Args) != "" && !(len(q.Args) > 0 && drive.Reserved(q.Args[0])) {
			n++
		}
	}
	return n
}

// checkBlocks applies the per-block clause to every block and returns the analyses.
func checkBlocks(run *harness.Run, key string, cc caseCfg, cl *fakeredis.Cluster, blocks []*block, phase string, wit func(map[string]any) map[string]any) []*blockInfo {
	var infos []*blockInfo
	modeS := string(cc.Mode)
	for _, b := range blocks {
		bi := analyse(b)
		infos = append(infos, bi)
		run.Count("blocks_checked", 1)
		run.Count("blocks_checked:"+phase, 1)
		for _, k := range bi.Keys {
			if k.What != "business" {
				run.Count("control_keys_checked", 1)
				run.Count("control_keys_checked:"+k.What, 1)
			} else {
				run.Count("business_keys_checked", 1)
			}
		}
		if len(bi.Unjudged) > 0 {
			run.Count("blocks_holding_a_command_outside_the_reference_table", 1)
		}
		if len(bi.Keyless) > 0 {
			run.Count("blocks_global_lane(FUNCTION/SCRIPT)", 1)
		}
		what := map[string]bool{}
		for _, k := range bi.Keys {
			what[k.What] = true
		}
		if len(bi.Slots) > 1 {
			// which keys disagree: control vs business, or business among themselves
			bs, cs := map[int]bool{}, map[int]bool{}
			for _, k := range bi.Keys {
				if k.What == "business" {
					bs[k.Slot] = true
				} else {
					cs[k.Slot] = true
				}
			}
			kind := "control-vs-business"
			switch {
			case len(bs) > 1:
				kind = "business-keys"
			case len(cs) > 1:
				kind = "control-keys"
			}
			run.Violation(fmt.Sprintf("block-spans-slots|%s|%s|%s", kind, phase, modeS), key,
				fmt.Sprintf("a MULTI block sent to node %d addresses keys of %d slots %v (by ref.HashSlot)", b.Node, len(bi.Slots), bi.Slots),
				wit(map[string]any{"block": bi.render()}))
		} else if len(bi.Slots) == 1 {
			if own := cl.Owner(bi.Slots[0]); own != b.Node {
				run.Violation(fmt.Sprintf("block-at-wrong-node|%s|%s", phase, modeS), key,
					fmt.Sprintf("a MULTI block for slot %d was sent to node %d, the slot's owner is node %d", bi.Slots[0], b.Node, own),
					wit(map[string]any{"block": bi.render()}))
			}
		}
		if len(bi.Slots) == 1 && b.committed() {
			run.Count("blocks_single_slot_at_owner_executed", 1)
		}
	}
	return infos
}

func tagSig(cc caseCfg) string {
	if cc.ReplaceTag {
		return "|replaceHashTag"
	}
	return ""
}

// fullSync replays a complete snapshot through Send and reads the cluster's request counter
// right after Send returned: what the cluster had processed by then happened before the return.
func fullSync(ctx context.Context, out *syncer.RedisOutput, cl *fakeredis.Cluster, runID string, rdb []byte, offset int64, watch time.Duration) (err error, reqAtReturn int64, returned bool) {
	f := drive.NewFeeder(runID, offset, int64(len(rdb)), false, 4096)
	f.Play([]drive.Step{{Data: rdb}}, true)
	defer f.Abort()
	type res struct {
		err error
		n   int64
	}
	done := make(chan res, 1)
	go func() {
		e := out.Send(ctx, f)
		done <- res{e, cl.ReqCount()}
	}()
	select {
	case x := <-done:
		return x.err, x.n, true
	case <-time.After(watch):
		return nil, 0, false
	}
}

// fault: one node refuses the block of one snapshot key.
type fault struct {
	mu     sync.Mutex
	ID     string
	Kind   string
	conn   int64
	Fired  int
	FiredQ string
}

const oomReply = "OOM command not allowed when used memory > 'maxmemory'."

// installFault plants the target error on the slow node: the victim is the last key (in snapshot
// order) of the worker whose keys live there.
func installFault(cl *fakeredis.Cluster, cc caseCfg, snap *snapshot) *fault {
	f := &fault{Kind: cc.Fault, conn: -1}
	for _, k := range snap.Keys {
		if k.Worker == 0 && !k.Filtered {
			f.ID = k.ID
		}
	}
	if f.ID == "" {
		return f
	}
	cl.Node(cc.SlowNode).SetHooks(nil, func(q *fakeredis.Req) (fakeredis.Reply, bool) {
		f.mu.Lock()
		defer f.mu.Unlock()
		if q.Cmd == "COMMAND" || q.Cmd == "EXISTS" {
			return nil, false
		}
		mine := gen.FindID(q.Args) == f.ID
		switch f.Kind {
		case "oom-queued":
			if mine && f.Fired == 0 {
				f.Fired++
				f.FiredQ = fmt.Sprintf("%s %.80q", q.Cmd, q.Args)
				return fakeredis.Err(oomReply), true
			}
		case "oom-exec":
			if mine {
				f.conn = q.Conn
			} else if q.Cmd == "EXEC" && q.Conn == f.conn && f.Fired == 0 {
				f.Fired++
				f.FiredQ = "EXEC"
				return fakeredis.Err(oomReply), true
			}
		}
		return nil, false
	}, nil)
	return f
}

// storedPosition reads the resume position the tool stored on the target for runID (root
// checkpoint hash of the namespace the run id points to).
func storedPosition(cl *fakeredis.Cluster, runID string) (name string, off int64, ok bool) {
	_, h := cl.Lookup(config.CheckpointKeyHashKey)
	if h == nil || h.Kind != fakeredis.KHash {
		return "", 0, false
	}
	name = string(h.Hash[runID])
	if name == "" {
		return "", 0, false
	}
	_, cp := cl.Lookup(name)
	if cp == nil || cp.Kind != fakeredis.KHash {
		return name, 0, false
	}
	v, found := cp.Hash[(&checkpoint.CheckpointInfo{RunId: runID}).OffsetKey()]
	if !found {
		return name, 0, false
	}
	off, err := strconv.ParseInt(string(v), 10, 64)
	return name, off, err == nil
}

func judgeFault(run *harness.Run, key string, cc caseCfg, cl *fakeredis.Cluster, snap *snapshot, f *fault, snapErr error, base int64, runID string, wit func(map[string]any) map[string]any) {
	modeS := string(cc.Mode)
	f.mu.Lock()
	fired, firedQ := f.Fired, f.FiredQ
	f.mu.Unlock()
	name, off, has := storedPosition(cl, runID)
	ex := map[string]any{"victim_key": snap.ByID[f.ID], "fault": f.Kind, "fault_fired_on": firedQ, "send_error": fmt.Sprint(snapErr),
		"snapshot_offset": base, "stored_resume_offset": off, "stored_resume_offset_present": has, "checkpoint_name": name, "snapshot_keys": len(snap.Keys)}
	oc := "reported"
	switch {
	case fired == 0 && snapErr != nil:
		run.Inconclusive("%s: the snapshot replay failed before the planted target error was reached: %v", key, snapErr)
		return
	case fired == 0:
		// Send returned nil without ever sending the victim's block: the completeness clause speaks
		oc = "victim-never-sent"
	case snapErr == nil:
		oc = "lost"
		run.Violation(fmt.Sprintf("snapshot-target-error-lost|%s|%s|workers=%d", f.Kind, modeS, cc.RdbParallel), key,
			fmt.Sprintf("node %d answered %s of snapshot key %s with -OOM, Send(snapshot) returned nil: an incomplete snapshot replay was reported as completed", cc.SlowNode, firedQ, snap.ByID[f.ID].KeyQ),
			wit(ex))
	}
	if fired > 0 && has && off == base {
		run.Violation(fmt.Sprintf("snapshot-position-stored-after-target-error|%s|%s|workers=%d", f.Kind, modeS, cc.RdbParallel), key,
			fmt.Sprintf("node %d refused a snapshot block (-OOM) and the stored resume position is the snapshot's offset %d: the next start resumes behind a snapshot that was not applied", cc.SlowNode, base),
			wit(ex))
		oc += "+position-stored"
	}
	if os.Getenv("C18_TIMING") != "" {
		fmt.Printf("%s: fault %s fired=%d on %q sendErr=%v stored=%d/%v base=%d outcome=%s\n", key, f.Kind, fired, firedQ, snapErr, off, has, base, oc)
	}
	run.Count("snapshot_target_errors_planted", 1)
	run.Count("snapshot_target_errors:"+oc, 1)
	run.Distinct(fmt.Sprintf("%s|snapshot-target-error/%s|workers=%d|%s", modeS, f.Kind, cc.RdbParallel, oc))
}

// checkSnapshot: Send(snapshot) returned nil ⇒ every snapshot key that passes the filter had a
// committed block — its commands only, executed in a MULTI/EXEC — before Send returned.
func checkSnapshot(run *harness.Run, key string, cc caseCfg, cl *fakeredis.Cluster, snap *snapshot, blocks []*block, reqAtReturn int64, wit func(map[string]any) map[string]any) {
	if snap.Kind == "empty" {
		return
	}
	modeS := string(cc.Mode)
	seen := map[string]int{}     // committed blocks whose EXEC was processed before Send returned
	seenLate := map[string]int{} // ... afterwards
	sentAny := map[string]int{}
	global := map[int]int{}
	named := map[string]bool{}
	for _, b := range blocks {
		bi := analyse(b)
		if len(bi.Keyless) > 0 && b.committed() {
			global[b.Node]++
		}
		for _, id := range bi.IDs {
			sentAny[id]++
		}
		if !b.committed() {
			continue
		}
		for _, id := range bi.IDs {
			if b.GReqExec <= reqAtReturn {
				seen[id]++
			} else {
				seenLate[id]++
			}
			if k := snap.ByID[id]; k != nil {
				for _, bk := range bi.Keys {
					if bk.What == "business" && !bytes.Equal(bk.Key, k.Target) {
						named[id] = true
					}
				}
			}
		}
	}
	var missing []*snapKey
	byWorker := map[int]int{}
	for _, k := range snap.Keys {
		run.Count("units", 1)
		run.Seen("brace_classes", k.KeyClass)
		run.Seen("brace_shapes", k.Shape)
		oc := "committed"
		switch {
		case k.Filtered:
			oc = "withheld"
			if sentAny[k.ID] > 0 {
				oc = "forwarded"
			}
		case seen[k.ID] == 0:
			oc = "not-committed-before-return"
			missing = append(missing, k)
			byWorker[k.Worker]++
		}
		if named[k.ID] {
			run.Count("snapshot_keys_written_under_another_name_than_expected(not judged here)", 1)
		}
		run.Count("units:"+string(clsSnapshot)+":"+oc, 1)
		if oc == "committed" {
			run.Distinct(fmt.Sprintf("%s|%s/%s%s|%s|%s", modeS, clsSnapshot, snap.Kind, tagSig(cc), k.KeyClass, oc))
		}
	}
	run.Count("snapshot_replays_reported_complete", 1)
	if os.Getenv("C18_TIMING") != "" {
		fmt.Printf("%s: snapshot reported complete: %d keys, %d missing (by worker %v) [%s]\n", key, len(snap.Keys), len(missing), byWorker, cc)
		lastOf := map[int]int64{}
		nOf := map[int]int{}
		for _, b := range blocks {
			for _, id := range analyse(b).IDs {
				if k := snap.ByID[id]; k != nil {
					nOf[k.Worker]++
					if b.GReqExec > lastOf[k.Worker] {
						lastOf[k.Worker] = b.GReqExec
					}
				}
			}
		}
		fmt.Printf("%s: blocks per tool worker %v, last EXEC request number per worker %v, requests at return %d, at idle %d\n", key, nOf, lastOf, reqAtReturn, cl.ReqCount())
	}
	if len(missing) > 0 {
		late, never := 0, 0
		var first []map[string]any
		for _, k := range missing {
			if seenLate[k.ID] > 0 {
				late++
			} else if sentAny[k.ID] == 0 {
				never++
			}
			if len(first) < 8 {
				first = append(first, map[string]any{"id": k.ID, "source_key": k.KeyQ, "target_key": k.TargetQ, "slot": k.Slot, "owner": cl.Owner(k.Slot), "tool_worker": k.Worker,
					"blocks_sent": sentAny[k.ID], "committed_after_return": seenLate[k.ID]})
			}
		}
		_, off, has := storedPosition(cl, sourceRunIDs()[0])
		run.Violation(fmt.Sprintf("snapshot-reported-complete-with-keys-missing|%s|%s|workers=%d", modeS, snap.Kind, cc.RdbParallel), key,
			fmt.Sprintf("Send(snapshot) returned nil, but %d of %d snapshot keys that pass the filter had no committed block when it returned (%d committed later, %d never sent)",
				len(missing), len(snap.Keys), late, never),
			wit(map[string]any{"missing_keys": len(missing), "missing_by_tool_worker": byWorker, "first_missing": first, "requests_processed_when_send_returned": reqAtReturn,
				"requests_processed_at_idle": cl.ReqCount(), "stored_resume_offset": off, "stored_resume_offset_present": has}))
	} else if cc.SnapOnly {
		run.Distinct(fmt.Sprintf("%s|snapshot-complete/%s%s|workers=%d|keys>=150", modeS, snap.Kind, tagSig(cc), cc.RdbParallel))
	}
	if snap.Functions > 0 || snap.LuaAux {
		nodes := 0
		for i := 0; i < cc.Nodes; i++ {
			if global[i] > 0 {
				nodes++
			}
		}
		run.Count("units", 1)
		run.Count(fmt.Sprintf("units:%s:blocks-on-%d-of-%d-nodes", clsSnapshotG, nodes, cc.Nodes), 1)
		if nodes > 0 {
			run.Distinct(fmt.Sprintf("%s|%s|keyless|committed", modeS, clsSnapshotG))
		}
	}
	_ = sort.Strings
}
