package main

import (
	"encoding/json"
	"fmt"
	"sort"
	"strings"

	"verif/internal/drive"
	"verif/internal/fakeredis"
	"verif/internal/gen"
	"verif/internal/ref"
)

// bcmd is one command of a MULTI block as the node received it.
type bcmd struct {
	GReq  int64
	Cmd   string
	Args  [][]byte
	Kind  fakeredis.ReqKind
	Reply fakeredis.Reply
}

// block is one MULTI … EXEC/DISCARD sequence received on one connection of one node.
type block struct {
	Node     int
	Conn     int64
	GReqFrom int64
	GReqExec int64
	Cmds     []bcmd
	Closed   string // "exec", "discard", "" (connection ended / log ended inside the block)
	ExecRep  fakeredis.Reply
}

func errWord(r fakeredis.Reply) string {
	e, ok := r.(fakeredis.Err)
	if !ok {
		return ""
	}
	w := string(e)
	if i := strings.IndexByte(w, ' '); i > 0 {
		w = w[:i]
	}
	return w
}

func isRedirect(w string) bool {
	switch w {
	case "MOVED", "ASK", "TRYAGAIN", "CROSSSLOT":
		return true
	}
	return false
}

// blocksOf groups the cluster-wide request log into MULTI blocks (per node and connection) and
// returns the requests that were received outside any block.
func blocksOf(reqs []fakeredis.CReq) (blocks []*block, direct []fakeredis.CReq) {
	type ck struct {
		node int
		conn int64
	}
	open := map[ck]*block{}
	for _, q := range reqs {
		k := ck{q.Node, q.Conn}
		b := open[k]
		switch {
		case q.Kind == fakeredis.ReqMulti:
			if b != nil { // nested MULTI is answered with an error and leaves the block open
				b.Cmds = append(b.Cmds, bcmd{q.GReq, q.Cmd, q.Args, q.Kind, q.Reply})
				continue
			}
			nb := &block{Node: q.Node, Conn: q.Conn, GReqFrom: q.GReq}
			open[k] = nb
			blocks = append(blocks, nb)
		case q.Kind == fakeredis.ReqExec || q.Kind == fakeredis.ReqDiscard:
			if b == nil {
				direct = append(direct, q)
				continue
			}
			b.GReqExec = q.GReq
			b.ExecRep = q.Reply
			b.Closed = "exec"
			if q.Kind == fakeredis.ReqDiscard {
				b.Closed = "discard"
			}
			delete(open, k)
		default:
			if b == nil {
				direct = append(direct, q)
				continue
			}
			b.Cmds = append(b.Cmds, bcmd{q.GReq, q.Cmd, q.Args, q.Kind, q.Reply})
		}
	}
	return
}

func (b *block) committed() bool {
	if b.Closed != "exec" {
		return false
	}
	arr, ok := b.ExecRep.([]fakeredis.Reply)
	if !ok {
		return false
	}
	for _, r := range arr {
		if _, isErr := r.(fakeredis.Err); isErr {
			return false
		}
	}
	return true
}

// controlKind names a bookkeeping key of the bisync namespace.
func controlKind(key string) string {
	switch {
	case strings.Contains(key, ":marker:{"):
		return "marker"
	case strings.Contains(key, ":latest:{"):
		return "latest"
	case strings.Contains(key, ":commit:{"):
		return "commit"
	case strings.Contains(key, ":index:{"):
		return "index"
	case strings.Contains(key, ":rdb:{"):
		return "rdb-record"
	case strings.HasSuffix(key, ":frontier"):
		return "frontier"
	}
	return "other-reserved"
}

type bkey struct {
	Key  []byte
	Slot int
	What string // "business" or a control kind
	Cmd  string
}

type marker struct {
	RecordType  string `json:"record_type"`
	UnitSeq     int64  `json:"unit_seq"`
	StartOffset int64  `json:"start_offset"`
	EndOffset   int64  `json:"end_offset"`
	Slot        int    `json:"slot"`
}

// analysis of one block: every key of every command with its slot by ref.
type blockInfo struct {
	B         *block
	Keys      []bkey
	Slots     []int
	Business  []bcmd // commands outside the reserved namespace, in order
	Unjudged  []string
	Keyless   []string
	Marker    *marker
	IDs       []string
	Redirects []string
	Errors    []string
}

func analyse(b *block) *blockInfo {
	bi := &blockInfo{B: b}
	slots := map[int]bool{}
	ids := map[string]bool{}
	note := func(r fakeredis.Reply, where string) {
		if w := errWord(r); w != "" {
			if isRedirect(w) {
				bi.Redirects = append(bi.Redirects, w)
			}
			bi.Errors = append(bi.Errors, where+": "+fmt.Sprint(r))
		}
	}
	for _, c := range b.Cmds {
		note(c.Reply, c.Cmd)
		if id := gen.FindID(c.Args); id != "" {
			ids[id] = true
		}
		if len(c.Args) > 0 && drive.Reserved(c.Args[0]) {
			k := c.Args[0]
			kind := controlKind(string(k))
			s := ref.HashSlot(k)
			slots[s] = true
			bi.Keys = append(bi.Keys, bkey{k, s, kind, c.Cmd})
			if kind == "marker" && c.Cmd == "SET" && len(c.Args) >= 2 && bi.Marker == nil {
				var m marker
				if json.Unmarshal(c.Args[1], &m) == nil {
					bi.Marker = &m
				}
			}
			continue
		}
		bi.Business = append(bi.Business, c)
		switch c.Cmd {
		case "FUNCTION", "SCRIPT":
			bi.Keyless = append(bi.Keyless, c.Cmd)
			continue
		}
		ks, ok := ref.Keys(c.Cmd, c.Args)
		if !ok {
			bi.Unjudged = append(bi.Unjudged, c.Cmd)
			continue
		}
		for _, k := range ks {
			s := ref.HashSlot(k)
			slots[s] = true
			bi.Keys = append(bi.Keys, bkey{k, s, "business", c.Cmd})
		}
	}
	if b.Closed == "exec" {
		note(b.ExecRep, "EXEC")
		if arr, ok := b.ExecRep.([]fakeredis.Reply); ok {
			for i, r := range arr {
				note(r, fmt.Sprintf("EXEC[%d]", i))
			}
		}
	}
	for s := range slots {
		bi.Slots = append(bi.Slots, s)
	}
	sort.Ints(bi.Slots)
	for id := range ids {
		bi.IDs = append(bi.IDs, id)
	}
	sort.Strings(bi.IDs)
	return bi
}

func (bi *blockInfo) render() map[string]any {
	var cs []string
	for _, c := range bi.B.Cmds {
		s := c.Cmd
		for i, a := range c.Args {
			if i >= 6 {
				s += " …"
				break
			}
			if len(a) > 60 {
				s += fmt.Sprintf(" %q…", a[:60])
			} else {
				s += fmt.Sprintf(" %q", a)
			}
		}
		rep := fmt.Sprint(c.Reply)
		if len(rep) > 80 {
			rep = rep[:80] + "…"
		}
		cs = append(cs, fmt.Sprintf("req %d: %s -> %s", c.GReq, s, rep))
	}
	var ks []string
	for _, k := range bi.Keys {
		ks = append(ks, fmt.Sprintf("%s %q slot %d (%s)", k.What, k.Key, k.Slot, k.Cmd))
	}
	ex := fmt.Sprint(bi.B.ExecRep)
	if len(ex) > 160 {
		ex = ex[:160] + "…"
	}
	return map[string]any{"node": bi.B.Node, "conn": bi.B.Conn, "first_request": bi.B.GReqFrom, "closed_by": bi.B.Closed, "exec_reply": ex,
		"commands": cs, "keys_and_slots_by_ref": ks, "slots": bi.Slots}
}

// sameBusiness: do the block's business commands equal the unit's forwarded commands exactly?
func sameBusiness(bi *blockInfo, u *unit) bool {
	var exp []ucmd
	for _, c := range u.Cmds {
		if c.Fwd != nil {
			exp = append(exp, c)
		}
	}
	if len(exp) != len(bi.Business) {
		return false
	}
	for i, c := range exp {
		g := bi.Business[i]
		if !strings.EqualFold(c.Name, g.Cmd) || !argsEqual(c.Fwd, g.Args) {
			return false
		}
	}
	return true
}

// errClass classifies the error Send returned.
func errClass(err error) string {
	if err == nil {
		return "nil"
	}
	s := err.Error()
	switch {
	case strings.Contains(s, "build replay unit failed"):
		switch {
		case strings.Contains(s, "is cross-slot"):
			return "parser-refused:cross-slot"
		case strings.Contains(s, "not slot-routable"), strings.Contains(s, "resolve keys for command"), strings.Contains(s, "has no routed keys"), strings.Contains(s, "no business keys"):
			return "parser-refused:unresolvable-keys"
		}
		return "parser-refused:other"
	case strings.Contains(s, "CROSSSLOT"):
		return "cluster-reply:CROSSSLOT"
	case strings.Contains(s, "MOVED"):
		return "cluster-reply:MOVED"
	case strings.Contains(s, "TRYAGAIN"), strings.Contains(s, "ASK "):
		return "cluster-reply:ASK/TRYAGAIN"
	case strings.Contains(s, "not hashed in the same"), strings.Contains(s, "span multiple slots"), strings.Contains(s, "should be hashed into the same"):
		return "client-refused:cross-slot"
	case strings.Contains(s, "key spec is unresolved"):
		return "client-refused:unresolvable-keys"
	case strings.Contains(s, "output key exist"), strings.Contains(s, "rdb module object"):
		return "other"
	case strings.Contains(s, "context canceled"):
		return "canceled"
	}
	return "other"
}

func isRefusal(cls string) bool {
	return strings.HasPrefix(cls, "parser-refused") || strings.HasPrefix(cls, "client-refused") || strings.HasPrefix(cls, "cluster-reply")
}
