package main

import (
	"bytes"
	"fmt"
	"hash/fnv"
	"math/rand"
	"time"

	"verif/internal/drive"
	"verif/internal/fakeredis"
	"verif/internal/rdbx"
	"verif/internal/ref"
)

// snapKey is one key of the snapshot dataset with its expectation.
type snapKey struct {
	ID       string
	Key      []byte `json:"-"`
	KeyQ     string // the key as stored at the source, Go-quoted
	Target   []byte `json:"-"`
	TargetQ  string // the key the target must receive (= KeyQ unless replaceHashTag is configured)
	Slot     int    // slot of the key the target receives, by ref
	KeyClass string
	Shape    string
	Kind     string
	Worker   int  // replay worker the tool assigns the entry to (large snapshots only; workload shaping, not judged)
	Filtered bool // withheld by the configured key-prefix blacklist
}

type snapshot struct {
	Kind       string // "empty", "restore", "expanded"
	File       []byte
	Keys       []*snapKey
	ByID       map[string]*snapKey
	Functions  int
	LuaAux     bool
	ReplaceTag bool
}

// stripFirstBraces is what output.replay.replaceHashTag is documented to do to a replayed key:
// the first '{' and the first '}' are removed (written here from the option's description, not
// with the tool's function).
func stripFirstBraces(key []byte) []byte {
	out := append([]byte{}, key...)
	if i := bytes.IndexByte(out, '{'); i >= 0 {
		out = append(out[:i], out[i+1:]...)
	}
	if i := bytes.IndexByte(out, '}'); i >= 0 {
		out = append(out[:i], out[i+1:]...)
	}
	return out
}

func (s *snapshot) targetKey(key []byte) []byte {
	if s.ReplaceTag {
		return stripFirstBraces(key)
	}
	return key
}

func (s *snapshot) addKey(ds []rdbx.Key, i int, id string, key []byte, sh shape, filter *ref.Filter) *snapKey {
	ds[i].Key = key
	if ds[i].ExpireAtMs != 0 && ds[i].ExpireAtMs <= time.Now().UnixMilli()+3600_000 {
		// a key that is already expired is dropped or restored with a 1 ms TTL depending on
		// the path; not this property's business
		ds[i].ExpireAtMs = time.Now().UnixMilli() + 30*24*3600_000
	}
	tk := s.targetKey(key)
	k := &snapKey{ID: id, Key: key, KeyQ: fmt.Sprintf("%q", key), Target: tk, TargetQ: fmt.Sprintf("%q", tk), Slot: ref.HashSlot(tk), KeyClass: ref.KeyClass(key),
		Shape: sh.name, Kind: ds[i].Value.Kind.String(), Filtered: filter.KeyRejected(key)}
	s.Keys = append(s.Keys, k)
	s.ByID[id] = k
	return k
}

func (s *snapshot) encode(r *rand.Rand, ds []rdbx.Key, hist string) {
	fo := rdbx.FileOptions{Version: 10, Aux: rdbx.DefaultAux(10), ResizeDB: true}
	if r.Intn(2) == 0 {
		s.LuaAux = true
		fo.Aux = append(fo.Aux, [2]string{"lua", "return '" + hist + "'"})
	}
	if r.Intn(2) == 0 {
		s.Functions = 1
		fo.Functions = [][]byte{[]byte("#!lua name=lib" + hist + "\nredis.register_function('f" + hist + "', function(keys, args) return args[1] end)")}
	}
	s.File, _ = rdbx.EncodeFile(ds, fo)
}

var snapKinds5 = []rdbx.Kind{rdbx.KindString, rdbx.KindList, rdbx.KindSet, rdbx.KindZSet, rdbx.KindHash}

// genSnapshot builds a small dataset whose key names carry every brace arrangement, encodes it
// with the independent codec and returns the per-key expectations.  All keys live in DB 0 (a
// cluster has no other).
func genSnapshot(r *rand.Rand, kind, hist string, black []string, filter *ref.Filter, replaceTag bool) *snapshot {
	s := &snapshot{Kind: kind, ByID: map[string]*snapKey{}, ReplaceTag: replaceTag}
	if kind == "empty" {
		s.File = drive.EmptyRDB
		return s
	}
	n := 5 + r.Intn(6)
	ds := rdbx.GenDataset(r, rdbx.GenOptions{Version: 10, NumKeys: n, DBs: []int{0}, Plain: true, SafeKeys: true,
		NowMs: time.Now().UnixMilli(), MaxElemBytes: 64, IDPrefix: "tmp" + hist, Kinds: snapKinds5})
	for i := range ds {
		id := fmt.Sprintf("~%sS.%d~", hist, i)
		var key []byte
		sh := shapes[r.Intn(len(shapes))]
		pfx := ""
		if len(black) > 0 && r.Intn(4) == 0 {
			pfx = black[r.Intn(len(black))]
		}
		for {
			slot := r.Intn(ref.Slots)
			psh := sh
			if sh.tagFmt != "" {
				p := sh.pre
				psh.pre = func(id string) string { return pfx + p(id) }
				k, ok := keyInSlot(psh, id, slot)
				if ok && !drive.Reserved(k) {
					key = k
					break
				}
			} else {
				// whole-key shape: take the slot it falls into
				k := []byte(pfx + sh.whole(id, r.Intn(1000)))
				if !drive.Reserved(k) {
					key = k
					break
				}
			}
		}
		s.addKey(ds, i, id, key, sh, filter)
	}
	s.encode(r, ds, hist)
	return s
}

// genLargeSnapshot builds a snapshot of n small keys spread over all nodes for the
// "a snapshot replay reported complete is complete" clause.  The tool hands an entry to replay
// worker fnv32a(key) mod workers; the key names are drawn so that the keys of worker 0 live on
// slowNode (whose EXEC replies are delayed) and all other keys elsewhere: worker 0 is still busy
// when the other workers, the distributor and the global lane are done.  This only shapes the
// schedule; nothing of it enters a verdict.
func genLargeSnapshot(r *rand.Rand, kind, hist string, black []string, filter *ref.Filter, replaceTag bool, n, workers, slowNode int, cl *fakeredis.Cluster) *snapshot {
	s := &snapshot{Kind: kind, ByID: map[string]*snapKey{}, ReplaceTag: replaceTag}
	ds := rdbx.GenDataset(r, rdbx.GenOptions{Version: 10, NumKeys: n, DBs: []int{0}, Plain: true, SafeKeys: true,
		NowMs: time.Now().UnixMilli(), MaxElemBytes: 24, IDPrefix: "tmp" + hist, Kinds: snapKinds5})
	for i := range ds {
		id := fmt.Sprintf("~%sS.%d~", hist, i)
		pfx := ""
		if len(black) > 0 && r.Intn(12) == 0 {
			pfx = black[r.Intn(len(black))]
		}
		// worker 0 gets its fair share of the keys (rejection sampling on the pair alone would starve it)
		wantZero := r.Intn(workers) == 0 || i == len(ds)-1
		for {
			sh := shapes[r.Intn(len(shapes))]
			var key []byte
			if sh.tagFmt != "" {
				p := sh.pre
				psh := sh
				psh.pre = func(id string) string { return pfx + p(id) }
				k, ok := keyInSlot(psh, id, r.Intn(ref.Slots))
				if !ok {
					continue
				}
				key = k
			} else {
				key = []byte(pfx + sh.whole(id, r.Intn(100000)))
			}
			if drive.Reserved(key) {
				continue
			}
			h := fnv.New32a()
			h.Write(key)
			w := int(h.Sum32() % uint32(workers))
			onSlow := cl.Owner(ref.HashSlot(s.targetKey(key))) == slowNode
			if (w == 0) != wantZero || onSlow != wantZero {
				continue
			}
			s.addKey(ds, i, id, key, sh, filter).Worker = w
			break
		}
	}
	s.encode(r, ds, hist)
	return s
}
