package main

import (
	"fmt"
	"math/rand"
	"time"

	"verif/internal/drive"
	"verif/internal/rdbx"
	"verif/internal/ref"
)

// snapKey is one key of the snapshot dataset with its expectation.
type snapKey struct {
	ID       string
	Key      []byte `json:"-"`
	KeyQ     string // the key, Go-quoted
	Slot     int
	KeyClass string
	Shape    string
	Kind     string
	Filtered bool // withheld by the configured key-prefix blacklist
}

type snapshot struct {
	Kind      string // "empty", "restore", "expanded"
	File      []byte
	Keys      []*snapKey
	ByID      map[string]*snapKey
	Functions int
	LuaAux    bool
}

// genSnapshot builds a small dataset whose key names carry every brace arrangement, encodes it
// with the independent codec and returns the per-key expectations.  All keys live in DB 0 (a
// cluster has no other).
func genSnapshot(r *rand.Rand, kind, hist string, black []string, filter *ref.Filter) *snapshot {
	s := &snapshot{Kind: kind, ByID: map[string]*snapKey{}}
	if kind == "empty" {
		s.File = drive.EmptyRDB
		return s
	}
	n := 5 + r.Intn(6)
	ds := rdbx.GenDataset(r, rdbx.GenOptions{Version: 10, NumKeys: n, DBs: []int{0}, Plain: true, SafeKeys: true,
		NowMs: time.Now().UnixMilli(), MaxElemBytes: 64, IDPrefix: "tmp" + hist, Kinds: []rdbx.Kind{rdbx.KindString, rdbx.KindList, rdbx.KindSet, rdbx.KindZSet, rdbx.KindHash}})
	for i := range ds {
		id := fmt.Sprintf("~%sS.%d~", hist, i)
		var key []byte
		sh := shapes[r.Intn(len(shapes))]
		pfx := ""
		if len(black) > 0 && r.Intn(4) == 0 {
			pfx = black[r.Intn(len(black))]
		}
		for {
			slot := r.Intn(ref.Slots)
			psh := sh
			if sh.tagFmt != "" {
				p := sh.pre
				psh.pre = func(id string) string { return pfx + p(id) }
				k, ok := keyInSlot(psh, id, slot)
				if ok && !drive.Reserved(k) {
					key = k
					break
				}
			} else {
				// whole-key shape: take the slot it falls into
				k := []byte(pfx + sh.whole(id, r.Intn(1000)))
				if !drive.Reserved(k) {
					key = k
					break
				}
			}
		}
		ds[i].Key = key
		if ds[i].ExpireAtMs != 0 && ds[i].ExpireAtMs <= time.Now().UnixMilli()+3600_000 {
			// a key that is already expired is dropped or restored with a 1 ms TTL depending on
			// the path; not this property's business
			ds[i].ExpireAtMs = time.Now().UnixMilli() + 30*24*3600_000
		}
		k := &snapKey{ID: id, Key: key, KeyQ: fmt.Sprintf("%q", key), Slot: ref.HashSlot(key), KeyClass: ref.KeyClass(key), Shape: sh.name, Kind: ds[i].Value.Kind.String(),
			Filtered: filter.KeyRejected(key)}
		s.Keys = append(s.Keys, k)
		s.ByID[id] = k
	}
	fo := rdbx.FileOptions{Version: 10, Aux: rdbx.DefaultAux(10), ResizeDB: true}
	if r.Intn(2) == 0 {
		s.LuaAux = true
		fo.Aux = append(fo.Aux, [2]string{"lua", "return '" + hist + "'"})
	}
	if r.Intn(2) == 0 {
		s.Functions = 1
		fo.Functions = [][]byte{[]byte("#!lua name=lib" + hist + "\nredis.register_function('f" + hist + "', function(keys, args) return args[1] end)")}
	}
	s.File, _ = rdbx.EncodeFile(ds, fo)
	return s
}
