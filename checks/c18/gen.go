package main

import (
	"bytes"
	"fmt"
	"math/rand"
	"sort"
	"strconv"
	"strings"
	"sync"

	"verif/internal/drive"
	"verif/internal/fakeredis"
	"verif/internal/gen"
	"verif/internal/ref"
)

// ---------------------------------------------------------------------------------------
// keys: brace arrangements placed in a chosen slot (slots always by ref.HashSlot)
// ---------------------------------------------------------------------------------------

// A shape is a key template.  tagFmt != "": the slot is decided by the hash tag alone (the
// bytes between the first '{' and the first '}' after it, non-empty), written with tagFmt(n);
// the key is pre + "{" + tag + "}" + post where pre holds no '{'.  tagFmt == "": the whole key
// is hashed (no brace, "{}…", unterminated '{'); whole(id, n) renders it.
type shape struct {
	name   string
	tagFmt string // fmt with one %d
	pre    func(id string) string
	post   func(id string) string
	// whole-key shapes: key = wpre(id) + decimal counter + wpost(id)
	wpre  func(id string) string
	wpost func(id string) string
}

func (sh shape) whole(id string, n int) string { return sh.wpre(id) + strconv.Itoa(n) + sh.wpost(id) }

func lit(s string) func(string) string { return func(string) string { return s } }
func withID(pre, post string) func(string) string {
	return func(id string) string { return pre + id + post }
}

var shapes = []shape{
	// tag-determined
	{name: "{t}x", tagFmt: "t%d", pre: lit(""), post: withID("x:", "")},
	{name: "x{t}y", tagFmt: "t%d", pre: withID("u:", ":"), post: lit("y")},
	{name: "{a}{b}", tagFmt: "t%d", pre: lit(""), post: withID("{zz}", "")},
	{name: "{a}{b}-id-in-2nd", tagFmt: "t%d", pre: lit(""), post: withID("{", "}")},
	{name: "}{a}", tagFmt: "t%d", pre: lit("}"), post: withID("", "")},
	{name: "{a}}{b}", tagFmt: "t%d", pre: lit(""), post: withID("}{b}", "")},
	{name: "{a}{", tagFmt: "t%d", pre: lit(""), post: withID("{", "")},
	{name: "foo{{bar}}", tagFmt: "{b%d", pre: lit("foo"), post: withID("}", "")},
	{name: "{{a}", tagFmt: "{%d", pre: lit(""), post: withID("", "")},
	{name: "nonutf8{tag}", tagFmt: "t%d\xfe", pre: lit("\xff"), post: withID("\xc3", "")},
	{name: "utf8{tag}", tagFmt: "日%d", pre: lit("é"), post: withID("", "本")},
	{name: "{tag with spaces\\r\\n}", tagFmt: "a b\r\n%d", pre: lit(""), post: withID("$3\r\n", "")},
	// whole-key
	{name: "plain", wpre: withID("k:", ":"), wpost: lit("")},
	{name: "{}{a}", wpre: withID("{}{a}", ""), wpost: lit("")},
	{name: "{}", wpre: withID("{}", ""), wpost: lit("")},
	{name: "a{}{b}c", wpre: lit("a{}{b"), wpost: withID("}c", "")},
	{name: "{open", wpre: lit("{t"), wpost: withID("", "")},
	{name: "close}", wpre: withID("a}", ""), wpost: lit("")},
	{name: "}{", wpre: withID("}", ""), wpost: lit("{")},
	{name: "nonutf8-plain", wpre: withID("\xc3\x28", "\xff"), wpost: lit("")},
	{name: "empty-ish", wpre: withID("", "\x00"), wpost: lit("")},
}

var nTagShapes = func() int {
	n := 0
	for _, s := range shapes {
		if s.tagFmt != "" {
			n++
		}
	}
	return n
}()

// tag tables: for a tag format, the smallest n whose tag hashes to each slot.
var (
	tagTabMu sync.Mutex
	tagTabs  = map[string]*[ref.Slots]int32{}
)

func tagTable(format string) *[ref.Slots]int32 {
	tagTabMu.Lock()
	defer tagTabMu.Unlock()
	if t, ok := tagTabs[format]; ok {
		return t
	}
	t := &[ref.Slots]int32{}
	for i := range t {
		t[i] = -1
	}
	remaining := ref.Slots
	for n := 0; remaining > 0; n++ {
		tag := fmt.Sprintf(format, n)
		// the slot of "{tag}" by the reference implementation
		s := ref.HashSlot([]byte("{" + tag + "}"))
		if t[s] < 0 {
			t[s] = int32(n)
			remaining--
		}
	}
	tagTabs[format] = t
	return t
}

// keyInSlot renders shape sh for unit id so that ref.HashSlot(key) == slot.  Whole-key shapes
// are brute-forced (≈16 k tries); ok=false if the bound is hit.
func keyInSlot(sh shape, id string, slot int) ([]byte, bool) {
	if sh.tagFmt != "" {
		n := tagTable(sh.tagFmt)[slot]
		k := []byte(sh.pre(id) + "{" + fmt.Sprintf(sh.tagFmt, n) + "}" + sh.post(id))
		return k, ref.HashSlot(k) == slot
	}
	// brute force with a table-driven CRC (search only); the hit is confirmed with ref.HashSlot
	pre, post := []byte(sh.wpre(id)), []byte(sh.wpost(id))
	buf := make([]byte, 0, len(pre)+len(post)+8)
	for n := 0; n < 400000; n++ {
		buf = append(buf[:0], pre...)
		buf = strconv.AppendInt(buf, int64(n), 10)
		buf = append(buf, post...)
		if fastSlot(buf) != slot {
			continue
		}
		if ref.HashSlot(buf) == slot {
			return append([]byte{}, buf...), true
		}
	}
	return nil, false
}

var crcTab = func() (t [256]uint16) {
	for i := range t {
		c := uint16(i) << 8
		for b := 0; b < 8; b++ {
			if c&0x8000 != 0 {
				c = c<<1 ^ 0x1021
			} else {
				c <<= 1
			}
		}
		t[i] = c
	}
	return
}()

// fastSlot: search helper only (never used to judge): CRC16/XMODEM of the hashed part, mod 16384.
func fastSlot(k []byte) int {
	h := k
	if s := bytes.IndexByte(k, '{'); s >= 0 {
		if e := bytes.IndexByte(k[s+1:], '}'); e > 0 {
			h = k[s+1 : s+1+e]
		}
	}
	var c uint16
	for _, b := range h {
		c = c<<8 ^ crcTab[byte(c>>8)^b]
	}
	return int(c) % ref.Slots
}

// ---------------------------------------------------------------------------------------
// units
// ---------------------------------------------------------------------------------------

type unitClass string

const (
	clsSingle    unitClass = "single-slot"         // keys share a slot by ref → must be committed
	clsGetKeys   unitClass = "single-slot-getkeys" // same, but a command is outside the tool's static table: resolved through COMMAND GETKEYS
	clsReduced   unitClass = "filter-reduced"      // cross-slot before the configured key filter, single-slot after it
	clsFiltered  unitClass = "filtered-out"        // every command withheld by the filter: no unit at all
	clsCross     unitClass = "cross-slot"          // keys span >1 slot by ref → must be refused
	clsUnknown   unitClass = "undeterminable"      // a command unknown to the static table and to the double's COMMAND GETKEYS → must be refused
	clsSnapshot  unitClass = "snapshot-key"
	clsSnapshotG unitClass = "snapshot-global"
)

type ucmd struct {
	Name string
	Args [][]byte
	// Fwd: what must reach the target after the configured filter (nil = withheld)
	Fwd [][]byte
}

type unit struct {
	Idx     int
	ID      string
	Class   unitClass
	Txn     bool
	Cmds    []ucmd
	Slots   []int    // slots of the forwarded keys by ref (sorted, unique)
	KeyCls  []string // ref.KeyClass of the source keys (sorted, unique)
	Shapes  []string
	Variant string // how the class was realised (near-miss kind, same-node/other-node, ...)
	Start   int64  // stream offsets (relative)
	End     int64
	Poison  bool // the unit that must stop the replay
	After   bool // generated after the poison unit: must never be sent
}

func (u *unit) keyClassSig() string { return strings.Join(u.KeyCls, "+") }

func (u *unit) describe() map[string]any {
	var cs []string
	for _, c := range u.Cmds {
		s := c.Name
		for _, a := range c.Args {
			if len(a) > 48 {
				s += fmt.Sprintf(" %q…", a[:48])
			} else {
				s += fmt.Sprintf(" %q", a)
			}
		}
		if c.Fwd == nil {
			s += "   [withheld by filter]"
		} else if !argsEqual(c.Fwd, c.Args) {
			s += fmt.Sprintf("   [projected to %q]", c.Fwd)
		}
		cs = append(cs, s)
	}
	return map[string]any{"unit": u.Idx, "id": u.ID, "class": string(u.Class), "variant": u.Variant, "transaction": u.Txn, "commands": cs,
		"slots_by_ref": u.Slots, "key_classes": u.KeyCls, "shapes": u.Shapes, "stream_offsets": []int64{u.Start, u.End}}
}

func argsEqual(a, b [][]byte) bool {
	if len(a) != len(b) {
		return false
	}
	for i := range a {
		if !bytes.Equal(a[i], b[i]) {
			return false
		}
	}
	return true
}

// command pools ---------------------------------------------------------------------------

var (
	poolOnce   sync.Once
	poolStatic []string // in the reference table, usable in generated streams
	poolMulti  []string // of those: able to carry >=2 keys
	poolGetK   = []string{"touch", "exists", "eval_ro", "evalsha_ro"}
)

// excluded: RESTORE-ASKING is on the tool's fixed administrative blacklist (never forwarded);
// XREAD is a pure read.
var excluded = map[string]bool{"restore-asking": true, "xread": true}

func pools() {
	poolOnce.Do(func() {
		isGetK := map[string]bool{}
		for _, c := range poolGetK {
			isGetK[c] = true
		}
		all := ref.Commands()
		sort.Strings(all)
		probe := rand.New(rand.NewSource(1))
		for _, c := range all {
			if excluded[c] || isGetK[c] {
				continue
			}
			poolStatic = append(poolStatic, c)
			// a command is multi-key if some generated instance carries >= 2 keys
			for i := 0; i < 40; i++ {
				n := 0
				args := ref.GenCommand(probe, c, func() []byte { n++; return []byte(fmt.Sprintf("k%d", n)) })
				if ks, ok := ref.Keys(c, args); ok && len(ks) >= 2 {
					poolMulti = append(poolMulti, c)
					break
				}
			}
		}
	})
}

// genCtx generates the units of one case.
type genCtx struct {
	r      *rand.Rand
	hist   string
	next   int
	filter *ref.Filter
	black  []string
	cl     *fakeredis.Cluster
}

func (g *genCtx) newID() string {
	id := fmt.Sprintf("~%s.%d~", g.hist, g.next)
	g.next++
	return id
}

func (g *genCtx) otherSlot(s int, sameNode bool) int {
	if g.cl.NumNodes() == 1 {
		sameNode = true // a single primary serves every slot
	}
	for {
		t := g.r.Intn(ref.Slots)
		if t == s {
			continue
		}
		if (g.cl.Owner(t) == g.cl.Owner(s)) == sameNode {
			return t
		}
	}
}

// keyFn returns a key source: the i-th key requested lands in slotOf(i) with a random shape.
func (g *genCtx) keyFn(id string, slotOf func(i int) int, prefix func(i int) string, u *unit) func() []byte {
	i := 0
	wholeUsed := 0
	return func() []byte {
		defer func() { i++ }()
		for {
			sh := shapes[g.r.Intn(len(shapes))]
			if sh.tagFmt == "" {
				// whole-key shapes are brute-forced: at most two per unit
				if wholeUsed >= 2 {
					continue
				}
			}
			pfx := ""
			if prefix != nil {
				pfx = prefix(i)
			}
			var k []byte
			ok := false
			if pfx != "" {
				// a configured prefix in front: only shapes whose slot survives a brace-free prefix
				psh := sh
				if sh.tagFmt != "" {
					p := sh.pre
					psh.pre = func(id string) string { return pfx + p(id) }
				} else {
					w := sh.wpre
					psh.wpre = func(id string) string { return pfx + w(id) }
				}
				k, ok = keyInSlot(psh, id, slotOf(i))
			} else {
				k, ok = keyInSlot(sh, id, slotOf(i))
			}
			if !ok || drive.Reserved(k) {
				continue
			}
			if sh.tagFmt == "" {
				wholeUsed++
			}
			u.Shapes = append(u.Shapes, sh.name)
			return k
		}
	}
}

// oneCmd generates a well-formed instance of cmd whose keys come from key().
func (g *genCtx) oneCmd(cmd string, key func() []byte) (ucmd, bool) {
	args := ref.GenCommand(g.r, cmd, key)
	// keyless / externally dereferencing instances are outside the quantifier
	ks, ok := ref.Keys(cmd, args)
	if !ok || len(ks) == 0 {
		return ucmd{}, false
	}
	if strings.EqualFold(cmd, "sort") && ref.SortExternalPattern(args) {
		return ucmd{}, false
	}
	// only requests the double's arity check accepts (a master propagates nothing else): pad
	// or trim the trailing non-key arguments
	if known, _ := fakeredis.ArityOK(cmd, len(args)); known {
		for tries := 0; tries < 8; tries++ {
			if _, ok := fakeredis.ArityOK(cmd, len(args)); ok {
				break
			}
			if _, ok := fakeredis.ArityOK(cmd, len(args)+1); ok || tries < 4 {
				args = append(args, []byte("1"))
			} else if len(args) > 1 {
				args = args[:len(args)-1]
			}
		}
		if _, ok := fakeredis.ArityOK(cmd, len(args)); !ok {
			return ucmd{}, false
		}
		ks2, ok2 := ref.Keys(cmd, args)
		if !ok2 || len(ks2) != len(ks) {
			return ucmd{}, false
		}
		for i := range ks {
			if !bytes.Equal(ks[i], ks2[i]) {
				return ucmd{}, false
			}
		}
	}
	// the double must route by the same keys the reference names
	rk, known := fakeredis.RoutingKeys(cmd, args)
	if !known || len(rk) != len(ks) {
		panic(fmt.Sprintf("c18: double routes %s %q by %q, reference keys %q", cmd, args, rk, ks))
	}
	for i := range rk {
		if !bytes.Equal(rk[i], ks[i]) {
			panic(fmt.Sprintf("c18: double routes %s %q by %q, reference keys %q", cmd, args, rk, ks))
		}
	}
	name := cmd
	switch g.r.Intn(4) {
	case 0:
		name = strings.ToUpper(cmd)
	case 1:
		name = strings.ToUpper(cmd[:1]) + cmd[1:]
	}
	return ucmd{Name: name, Args: args}, true
}

// finish computes the filter projection, the slots and key classes of a unit.
func (g *genCtx) finish(u *unit) {
	slots := map[int]bool{}
	kc := map[string]bool{}
	for i := range u.Cmds {
		c := &u.Cmds[i]
		out, fwd, judged := g.filter.CommandKeys(c.Name, c.Args)
		if !judged {
			// outside the reference table (undeterminable class): the filter passes it unchanged
			c.Fwd = c.Args
			continue
		}
		if !fwd {
			c.Fwd = nil
		} else {
			c.Fwd = out
		}
		if ks, ok := ref.Keys(c.Name, c.Args); ok {
			for _, k := range ks {
				kc[ref.KeyClass(k)] = true
			}
		}
		if c.Fwd != nil {
			if ks, ok := ref.Keys(c.Name, c.Fwd); ok {
				for _, k := range ks {
					slots[ref.HashSlot(k)] = true
				}
			}
		}
	}
	u.Slots = u.Slots[:0]
	for s := range slots {
		u.Slots = append(u.Slots, s)
	}
	sort.Ints(u.Slots)
	u.KeyCls = u.KeyCls[:0]
	for c := range kc {
		u.KeyCls = append(u.KeyCls, c)
	}
	sort.Strings(u.KeyCls)
	sort.Strings(u.Shapes)
	u.Shapes = uniq(u.Shapes)
}

func uniq(s []string) []string {
	out := s[:0]
	for i, x := range s {
		if i == 0 || x != s[i-1] {
			out = append(out, x)
		}
	}
	return out
}

func (u *unit) forwarded() [][2]any {
	var out [][2]any
	for _, c := range u.Cmds {
		if c.Fwd != nil {
			out = append(out, [2]any{c.Name, c.Fwd})
		}
	}
	return out
}

// single generates a unit whose keys all hash to one slot.
func (g *genCtx) single(getkeys bool) *unit {
	pools()
	for {
		u := &unit{ID: g.newID(), Class: clsSingle}
		slot := g.r.Intn(ref.Slots)
		key := g.keyFn(u.ID, func(int) int { return slot }, nil, u)
		n := 1
		if g.r.Intn(3) == 0 {
			u.Txn = true
			n = 1 + g.r.Intn(4)
		}
		ok := true
		for i := 0; i < n && ok; i++ {
			cmd := poolStatic[g.r.Intn(len(poolStatic))]
			if g.r.Intn(3) == 0 {
				cmd = poolMulti[g.r.Intn(len(poolMulti))]
			}
			if getkeys && i == 0 {
				cmd = poolGetK[g.r.Intn(len(poolGetK))]
				u.Class = clsGetKeys
			}
			c, good := g.oneCmd(cmd, key)
			if !good {
				ok = false
				break
			}
			u.Cmds = append(u.Cmds, c)
		}
		if !ok {
			continue
		}
		g.finish(u)
		if len(u.Slots) != 1 || u.Slots[0] != slot {
			continue
		}
		u.Variant = "same-slot"
		return u
	}
}

// shapePair generates two single-slot one-command units of the SAME command name and argument
// count whose keys sit at different argument positions - EVAL_RO script 2 k1 k2 and EVAL_RO
// script 1 k1 arg (arg is no key and hashes elsewhere) - in PRNG order.  The command is outside
// the tool's static table: each is resolved through COMMAND GETKEYS, and what was learnt about
// one must not be applied to the other.  Both must be committed, neither refused.
func (g *genCtx) shapePair() (*unit, *unit) {
	pools()
	mk := func(two bool) *unit {
		for {
			u := &unit{ID: g.newID(), Class: clsGetKeys}
			slot := g.r.Intn(ref.Slots)
			key := g.keyFn(u.ID, func(int) int { return slot }, nil, u)
			script := []byte("return redis.call('GET', KEYS[1])")
			var args [][]byte
			if two {
				args = [][]byte{script, []byte("2"), key(), key()}
			} else {
				arg := []byte(fmt.Sprintf("plain-argument-%d", g.r.Intn(1<<30)))
				if ref.HashSlot(arg) == slot {
					continue
				}
				args = [][]byte{script, []byte("1"), key(), arg}
			}
			u.Cmds = []ucmd{{Name: "eval_ro", Args: args}}
			g.finish(u)
			if len(u.Slots) != 1 || u.Slots[0] != slot {
				continue
			}
			u.Variant = "same-name-same-argc-other-key-layout"
			return u
		}
	}
	a, b := mk(true), mk(false)
	if g.r.Intn(2) == 0 {
		a, b = b, a
	}
	return a, b
}

// arbitrary generates a single-command, single-key unit whose key is an arbitrary brace-dense
// byte string (C11's generators): whatever its slot is, a one-key unit is single-slot.
func (g *genCtx) arbitrary() *unit {
	pools()
	fc := ref.FilterConfig{}
	for {
		u := &unit{ID: g.newID(), Class: clsSingle, Variant: "arbitrary-bytes"}
		key := func() []byte {
			k := ref.GenKey(g.r, &fc)
			if g.r.Intn(2) == 0 {
				k = ref.BraceString(g.r, 1+g.r.Intn(12))
			}
			// the unit id rides in the key (inside or outside a tag, wherever the bytes put it)
			pos := g.r.Intn(len(k) + 1)
			out := append(append(append([]byte{}, k[:pos]...), u.ID...), k[pos:]...)
			return out
		}
		var c ucmd
		good := false
		for tries := 0; tries < 20 && !good; tries++ {
			cmd := poolStatic[g.r.Intn(len(poolStatic))]
			n := 0
			c, good = g.oneCmd(cmd, func() []byte { n++; return key() })
			if good && n != 1 {
				good = false
			}
		}
		if !good {
			continue
		}
		ks, _ := ref.Keys(c.Name, c.Args)
		if len(ks) != 1 || drive.Reserved(ks[0]) || g.filter.KeyRejected(ks[0]) {
			continue
		}
		u.Cmds = []ucmd{c}
		u.Shapes = []string{"arbitrary"}
		g.finish(u)
		if len(u.Slots) != 1 {
			continue
		}
		return u
	}
}

// nearMissSame: key pairs a wrong slot function would split although the reference puts them
// in one slot ({a}{b} with {a}x and {a}{c}; foo{{bar}}1 with {{bar}2 …).
func (g *genCtx) nearMissSame() *unit {
	pools()
	for {
		u := &unit{ID: g.newID(), Class: clsSingle, Txn: g.r.Intn(2) == 0}
		n := g.r.Intn(100000)
		var k1, k2 string
		switch g.r.Intn(5) {
		case 0:
			u.Variant = "{a}{b}|{a}x"
			k1, k2 = fmt.Sprintf("{a%d}{b}%s", n, u.ID), fmt.Sprintf("{a%d}x%s", n, u.ID)
		case 1:
			u.Variant = "{a}{b}|{a}{c}"
			k1, k2 = fmt.Sprintf("{a%d}{b%s}", n, u.ID), fmt.Sprintf("{a%d}{c%s}", n, u.ID)
		case 2:
			u.Variant = "foo{{bar}}1|{{bar}2"
			k1, k2 = fmt.Sprintf("foo{{bar%d}}1%s", n, u.ID), fmt.Sprintf("{{bar%d}2%s", n, u.ID)
		case 3:
			u.Variant = "x{a}}{b}|{a}"
			k1, k2 = fmt.Sprintf("x%s{a%d}}{b}", u.ID, n), fmt.Sprintf("{a%d}%s", n, u.ID)
		default:
			u.Variant = "\\xff{t\\xfe}|{t\\xfe}{u}"
			k1, k2 = fmt.Sprintf("\xff{t%d\xfe}%s", n, u.ID), fmt.Sprintf("{t%d\xfe}{u}%s", n, u.ID)
		}
		if !g.pair(u, k1, k2) {
			continue
		}
		g.finish(u)
		if len(u.Slots) != 1 {
			panic("c18: near-miss-same pair is not single-slot by ref: " + u.Variant)
		}
		return u
	}
}

// pair fills u with either one two-key command or a transaction of two one-key commands.
func (g *genCtx) pair(u *unit, k1, k2 string) bool {
	keys := [][]byte{[]byte(k1), []byte(k2)}
	if u.Txn {
		for _, k := range keys {
			k := k
			var c ucmd
			good := false
			for tries := 0; tries < 30 && !good; tries++ {
				cmd := poolStatic[g.r.Intn(len(poolStatic))]
				n := 0
				c, good = g.oneCmd(cmd, func() []byte { n++; return k })
				if good && n != 1 {
					good = false
				}
			}
			if !good {
				return false
			}
			u.Cmds = append(u.Cmds, c)
		}
	} else {
		two := []string{"rename", "renamenx", "smove", "rpoplpush", "lmove", "copy", "zrangestore", "geosearchstore", "brpoplpush", "blmove"}
		i := 0
		c, good := g.oneCmd(two[g.r.Intn(len(two))], func() []byte { i++; return keys[(i-1)%2] })
		if !good || i != 2 {
			return false
		}
		u.Cmds = append(u.Cmds, c)
	}
	u.Shapes = append(u.Shapes, "near-miss")
	return true
}

// cross generates a unit whose keys span two slots by ref.
func (g *genCtx) cross() *unit {
	pools()
	for {
		u := &unit{ID: g.newID(), Class: clsCross}
		switch g.r.Intn(8) {
		case 6, 7: // the empty string is a legal key (slot 0); together with a key elsewhere the unit spans two slots
			u.Txn = g.r.Intn(3) == 0
			u.Variant = "empty-string-key"
			other := fmt.Sprintf("{e%d}%s", g.r.Intn(100000), u.ID)
			if ref.HashSlot([]byte(other)) == 0 {
				continue
			}
			k1, k2 := "", other
			if g.r.Intn(2) == 0 {
				k1, k2 = other, ""
			}
			if !g.pair(u, k1, k2) {
				continue
			}
		case 0, 1: // near misses: a wrong slot function would call them same-slot
			u.Txn = g.r.Intn(2) == 0
			n := g.r.Intn(100000)
			var k1, k2 string
			switch g.r.Intn(4) {
			case 0:
				u.Variant = "near-miss:{a}{z}|{b}{z}"
				k1, k2 = fmt.Sprintf("{a%d}{z%s}", n, u.ID), fmt.Sprintf("{b%d}{z%s}", n, u.ID)
			case 1:
				u.Variant = "near-miss:{}{a}1|{}{a}2"
				k1, k2 = fmt.Sprintf("{}{a%d}1%s", n, u.ID), fmt.Sprintf("{}{a%d}2%s", n, u.ID)
			case 2:
				u.Variant = "near-miss:{a|{ax"
				k1, k2 = fmt.Sprintf("{a%d%s", n, u.ID), fmt.Sprintf("{a%d%sx", n, u.ID)
			default:
				u.Variant = "near-miss:{}x{a}|y{a}"
				k1, k2 = fmt.Sprintf("{}x{a%d}%s", n, u.ID), fmt.Sprintf("y{a%d}%s", n, u.ID)
			}
			if !g.pair(u, k1, k2) {
				continue
			}
		default:
			sameNode := g.r.Intn(2) == 0
			s1 := g.r.Intn(ref.Slots)
			s2 := g.otherSlot(s1, sameNode)
			u.Variant = "other-slot-other-node"
			if sameNode {
				u.Variant = "other-slot-same-node"
			}
			if g.r.Intn(2) == 0 {
				// one multi-key command, one of its keys elsewhere (the 1st..3rd requested; an
				// instance that asked for fewer keys stays single-slot and is re-drawn below)
				odd := g.r.Intn(3)
				key := g.keyFn(u.ID, func(i int) int {
					if i == odd {
						return s2
					}
					return s1
				}, nil, u)
				c, good := g.oneCmd(poolMulti[g.r.Intn(len(poolMulti))], key)
				if !good {
					continue
				}
				u.Cmds = []ucmd{c}
				u.Variant += "|one-command"
			} else {
				u.Txn = true
				n := 2 + g.r.Intn(3)
				oddCmd := g.r.Intn(n)
				ok := true
				for i := 0; i < n && ok; i++ {
					slot := s1
					if i == oddCmd {
						slot = s2
					}
					key := g.keyFn(u.ID, func(int) int { return slot }, nil, u)
					c, good := g.oneCmd(poolStatic[g.r.Intn(len(poolStatic))], key)
					if !good {
						ok = false
						break
					}
					u.Cmds = append(u.Cmds, c)
				}
				if !ok {
					continue
				}
				u.Variant += fmt.Sprintf("|transaction-odd-command-%d-of-%d", oddCmd+1, n)
			}
		}
		g.finish(u)
		if len(u.Slots) < 2 {
			continue
		}
		return u
	}
}

// crossMinimal: the smallest cross-slot instance of one multi-key command — exactly two keys (for
// the counted forms: Z*STORE dst 1 src, EVAL … 2 a b, BITOP op dst src, …), one per slot.  The
// command is chosen by the caller's running index so that every multi-key command of the
// reference table is met in this form within ~40 refusable units.
func (g *genCtx) crossMinimal(n int) *unit {
	pools()
	cmd := poolMulti[((n%len(poolMulti))+len(poolMulti))%len(poolMulti)]
	for tries := 0; tries < 400; tries++ {
		u := &unit{ID: g.newID(), Class: clsCross}
		sameNode := g.r.Intn(2) == 0
		s1 := g.r.Intn(ref.Slots)
		s2 := g.otherSlot(s1, sameNode)
		key := g.keyFn(u.ID, func(i int) int {
			if i == 1 {
				return s2
			}
			return s1
		}, nil, u)
		c, good := g.oneCmd(cmd, key)
		if !good {
			continue
		}
		if ks, _ := ref.Keys(c.Name, c.Args); len(ks) != 2 {
			continue
		}
		u.Cmds = []ucmd{c}
		u.Variant = "minimal-two-key:" + cmd
		g.finish(u)
		if len(u.Slots) != 2 {
			continue
		}
		return u
	}
	return g.cross()
}

// unknownCmds: names in neither the tool's static key table nor the double's command table
// (COMMAND GETKEYS answers "Invalid command specified"), as a Redis without the module / a
// key-less command would.
var unknownCmds = [][]string{
	{"publish", "chan", "ID"},
	{"spublish", "chan", "ID"},
	{"graph.query", "ID", "MATCH (n) RETURN n"},
	{"ts.add", "ID", "*", "1"},
	{"verif.nokeyspec", "ID", "x"},
	{"script", "flush", "ID"},
	{"pfdebug-x", "ID"},
}

func (g *genCtx) unknown() *unit {
	pools()
	for {
		u := &unit{ID: g.newID(), Class: clsUnknown}
		t := unknownCmds[g.r.Intn(len(unknownCmds))]
		var args [][]byte
		for _, a := range t[1:] {
			if a == "ID" {
				a = "{u}" + u.ID
			}
			args = append(args, []byte(a))
		}
		bad := ucmd{Name: t[0], Args: args}
		u.Variant = "alone:" + t[0]
		if g.r.Intn(2) == 0 {
			// inside a transaction among routable single-slot commands
			u.Txn = true
			slot := g.r.Intn(ref.Slots)
			key := g.keyFn(u.ID, func(int) int { return slot }, nil, u)
			n := 1 + g.r.Intn(2)
			pos := g.r.Intn(n + 1)
			ok := true
			for i := 0; i <= n && ok; i++ {
				if i == pos {
					u.Cmds = append(u.Cmds, bad)
					continue
				}
				c, good := g.oneCmd(poolStatic[g.r.Intn(len(poolStatic))], key)
				if !good {
					ok = false
					break
				}
				u.Cmds = append(u.Cmds, c)
			}
			if !ok {
				continue
			}
			u.Variant = fmt.Sprintf("in-transaction-pos-%d-of-%d:%s", pos+1, n+1, t[0])
		} else {
			u.Cmds = []ucmd{bad}
		}
		if _, known := fakeredis.RoutingKeys(t[0], args); known && t[0] != "script" {
			panic("c18: 'unknown' command is known to the double: " + t[0])
		}
		if ref.Known(t[0]) {
			panic("c18: 'unknown' command is in the reference table: " + t[0])
		}
		g.finish(u)
		return u
	}
}

// reduced: cross-slot as issued at the source, single-slot after the configured key-prefix
// blacklist removed the offending key / command.
func (g *genCtx) reduced() *unit {
	pools()
	pfx := g.black[g.r.Intn(len(g.black))]
	for {
		u := &unit{ID: g.newID(), Class: clsReduced}
		s1 := g.r.Intn(ref.Slots)
		s2 := g.otherSlot(s1, g.r.Intn(2) == 0)
		switch g.r.Intn(3) {
		case 0: // DEL / UNLINK / MSET projection
			cmd := []string{"del", "unlink", "mset"}[g.r.Intn(3)]
			// the blacklisted key (in the other slot) at a random position; instances that do
			// not end up "cross-slot before, single-slot after" are re-drawn below
			odd := g.r.Intn(3)
			key := g.keyFn(u.ID, func(i int) int {
				if i == odd {
					return s2
				}
				return s1
			}, func(i int) string {
				if i == odd {
					return pfx
				}
				return ""
			}, u)
			c, good := g.oneCmd(cmd, key)
			if !good {
				continue
			}
			u.Cmds = []ucmd{c}
			u.Variant = "projection:" + cmd
		default: // a transaction whose only cross-slot command is withheld
			u.Txn = true
			n := 2 + g.r.Intn(3)
			oddCmd := g.r.Intn(n)
			ok := true
			for i := 0; i < n && ok; i++ {
				i := i
				slot := s1
				if i == oddCmd {
					slot = s2
				}
				key := g.keyFn(u.ID, func(int) int { return slot }, func(k int) string {
					if i == oddCmd && k == 0 {
						return pfx
					}
					return ""
				}, u)
				c, good := g.oneCmd(poolStatic[g.r.Intn(len(poolStatic))], key)
				if !good {
					ok = false
					break
				}
				u.Cmds = append(u.Cmds, c)
			}
			if !ok {
				continue
			}
			u.Variant = fmt.Sprintf("transaction-command-%d-of-%d-withheld", oddCmd+1, n)
		}
		g.finish(u)
		if len(u.Slots) != 1 {
			continue
		}
		// it must really have been cross-slot before the filter
		pre := map[int]bool{}
		for _, c := range u.Cmds {
			ks, _ := ref.Keys(c.Name, c.Args)
			for _, k := range ks {
				pre[ref.HashSlot(k)] = true
			}
		}
		withheld := false
		for _, c := range u.Cmds {
			if c.Fwd == nil || !argsEqual(c.Fwd, c.Args) {
				withheld = true
			}
		}
		if len(pre) < 2 || !withheld {
			continue
		}
		return u
	}
}

// filteredOut: a command (or a whole transaction) every key of which is blacklisted.
func (g *genCtx) filteredOut() *unit {
	pools()
	pfx := g.black[g.r.Intn(len(g.black))]
	for {
		u := &unit{ID: g.newID(), Class: clsFiltered, Variant: "all-keys-blacklisted"}
		slot := g.r.Intn(ref.Slots)
		key := g.keyFn(u.ID, func(int) int { return slot }, func(int) string { return pfx }, u)
		c, good := g.oneCmd(poolStatic[g.r.Intn(len(poolStatic))], key)
		if !good {
			continue
		}
		u.Cmds = []ucmd{c}
		g.finish(u)
		if c2 := u.Cmds[0]; c2.Fwd != nil {
			continue
		}
		return u
	}
}

// ---------------------------------------------------------------------------------------
// stream assembly
// ---------------------------------------------------------------------------------------

type workload struct {
	units  []*unit
	byID   map[string]*unit
	bytes  []byte
	cutOff int64 // offset of the first byte of the poison unit (len(bytes) when there is none)
	poison *unit
}

func (w *workload) add(u *unit, b *bytes.Buffer) {
	u.Idx = len(w.units)
	u.Start = int64(b.Len())
	if u.Txn {
		b.Write(gen.Encode("MULTI", nil))
	}
	for _, c := range u.Cmds {
		b.Write(gen.Encode(c.Name, c.Args))
	}
	if u.Txn {
		b.Write(gen.Encode("EXEC", nil))
	}
	u.End = int64(b.Len())
	w.units = append(w.units, u)
	w.byID[u.ID] = u
}

func noise(r *rand.Rand, b *bytes.Buffer) {
	switch r.Intn(6) {
	case 0:
		b.Write(gen.Encode("PING", nil))
	case 1:
		b.Write(gen.Encode("SELECT", [][]byte{[]byte("0")}))
	case 2:
		b.Write(gen.Encode("MULTI", nil))
		b.Write(gen.Encode("EXEC", nil))
	}
}
