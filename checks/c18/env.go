package main

import (
	"fmt"
	"strings"
	"sync"
	"time"

	"verif/internal/drive"
	"verif/internal/fakeredis"

	"github.com/mgtv-tech/redis-GunYu/config"
	"github.com/mgtv-tech/redis-GunYu/pkg/redis"
	"github.com/mgtv-tech/redis-GunYu/syncer"
)

// driver creates tool instances the way the tool does at start-up: syncer.VerifNewOutput =
// NewSyncer(cfg).newOutput() — run-id lookup on a source double, bisync namespace resolution
// (checkpoint.ResolveOrCreateBisyncCheckpointName, bisync_mode bookkeeping) and
// checkpoint.UpdateCheckpoint against the CLUSTER target.  newOutput reads the process-global
// configuration (config.GetSyncerConfig()), so "set the global configuration for this case, run
// the start-up bookkeeping" is serialised under one mutex; the returned RedisOutput only uses
// its own copy afterwards.
type driver struct {
	mu  sync.Mutex
	src *fakeredis.Server
}

func newDriver() *driver { return &driver{src: fakeredis.MustStart(fakeredis.Options{})} }

func (d *driver) Close() { d.src.Close() }

// sourceRunIDs is what the source double reports as master_replid / master_replid2.
func sourceRunIDs() []string { return []string{strings.Repeat("f", 40), strings.Repeat("0", 40)} }

type openCfg struct {
	Mode        config.ReplayMode
	Window      uint
	Parallelism int
	Restore     bool
	PrefixBlack []string
	ReplaceTag  bool // output.replay.replaceHashTag
	RdbParallel int  // output.replay.replayRdbParallel (0 = 1)
}

// clusterRedis builds the output configuration the way cmd/syncer.go derives it for a cluster
// target fed from a standalone source: the whole cluster, topology filled in by FixTopology.
func clusterRedis(cl *fakeredis.Cluster, nodes int) (config.RedisConfig, error) {
	full := config.RedisConfig{Addresses: cl.Addrs(), Type: config.RedisTypeCluster, Otype: config.RedisTypeCluster, Version: "7.2.0",
		ClusterOptions: &config.RedisClusterOptions{HandleMoveErr: true, HandleAskErr: true}}
	if err := redis.FixTopology(&full); err != nil {
		return full, fmt.Errorf("FixTopology: %w", err)
	}
	if len(full.GetClusterShards()) != nodes || full.IsMigrating() {
		return full, fmt.Errorf("FixTopology saw %d shards (migrating=%v) on a stable %d-node double", len(full.GetClusterShards()), full.IsMigrating(), nodes)
	}
	return full, nil
}

func (d *driver) open(target config.RedisConfig, oc openCfg) (*syncer.RedisOutput, error) {
	d.mu.Lock()
	defer d.mu.Unlock()
	tr := true
	restore := oc.Restore
	tdb := -1
	if oc.RdbParallel < 1 {
		oc.RdbParallel = 1
	}
	g := config.GetSyncerConfig()
	g.Input = &config.InputConfig{}
	g.Channel = &config.ChannelConfig{}
	g.Output = &config.OutputConfig{Replay: config.ReplayConfig{
		ResumeFromBreakPoint: &tr, BisyncEnabled: &tr, ReplayRdbEnableRestore: &restore, ReplayTransaction: &tr,
		KeyExists: "replace", MaxProtoBulkLen: 512 << 20, TargetDbCfg: &tdb, TargetDb: -1, ReplaceHashTag: oc.ReplaceTag,
		BatchCmdCount: oc.Window, BatchTicker: 10 * time.Millisecond, BatchBufferSize: 64 * 1024, KeepaliveTicker: time.Hour,
		ReplayRdbParallel: oc.RdbParallel, Parallelism: oc.Parallelism, UpdateCheckpointTicker: time.Hour, Mode: oc.Mode,
		Stats: config.OutputStats{DisableLog: true, LogInterval: time.Hour},
	}}
	if len(oc.PrefixBlack) > 0 {
		g.Output.Filter = config.FilterConfig{KeyFilter: &config.FilterKeyConfig{PrefixKeyBlacklist: oc.PrefixBlack}}
	}
	scfg := syncer.SyncerConfig{Id: 1, Input: drive.StandaloneRedis(d.src.Addr(), "7.2.0"), Output: target,
		Channel:        config.ChannelConfig{Type: config.ChannelTypeMemory, Memory: &config.MemoryConfig{MaxSize: 1 << 20, LogSize: 1 << 16}},
		CanTransaction: false}
	return syncer.VerifNewOutput(scfg)
}
