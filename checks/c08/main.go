// C08 — after an unclean stop the disk cache serves only bytes it truly holds.
//
// A child process (checks/c08/child) drives the real StoreChannel with the legal writer protocol
// and PRF bytes; this parent freezes it (SIGSTOP, all threads in state T) at PRNG-aimed instants,
// copies the directory (an exact kill-point image), and re-opens every image with a fresh
// StoreChannel, with checksum verification off and on.  What the re-opened cache *reports*
// (range, snapshot) is checked structurally against the files of the image, what it *serves*
// byte by byte against the PRF.  Second class: closed segments / the completed snapshot are
// altered and must be refused under checksum verification.
package main

import (
	"bytes"
	"encoding/binary"
	"encoding/json"
	"fmt"
	"math/rand"
	"os"
	"os/exec"
	"path/filepath"
	"runtime"
	"sort"
	"strconv"
	"strings"
	"sync"
	"sync/atomic"
	"syscall"
	"time"

	"github.com/mgtv-tech/redis-GunYu/config"
	"github.com/mgtv-tech/redis-GunYu/pkg/digest"
	"github.com/mgtv-tech/redis-GunYu/pkg/log"
	usync "github.com/mgtv-tech/redis-GunYu/pkg/sync"
	"github.com/mgtv-tech/redis-GunYu/syncer"

	"verif/internal/harness"
	"verif/internal/prf"
)

const hdr = 16 // segment header size (pkg/store/aof_writer.go)

// ---------------------------------------------------------------------------------------------
// images

type imgFile struct {
	Name string `json:"name"`
	Data []byte `json:"data"`
}

type image struct {
	Case    string               `json:"case"`
	Idx     int                  `json:"idx"`
	Aim     string               `json:"aim"` // how the freeze instant was chosen
	Params  prf.Params           `json:"params"`
	Shm     prf.ShmState         `json:"shm"`
	Dirs    map[string][]imgFile `json:"dirs"` // run-id directory -> files
	Resumed bool                 `json:"resumed"`
	Derived string               `json:"derived,omitempty"` // how this image was derived from a frozen one ("" = frozen as is)
}

type seg struct {
	Left    int64
	Raw     int64 // file length
	Len     int64 // data length (Raw-16), <=0: ignored by the scan
	HdrSize uint32
	HdrCrc  uint64
	Final   bool // header records exactly this content (size and crc)
	data    []byte
}

func (s seg) Right() int64 { return s.Left + s.Len }

type rdbf struct {
	Off, Size, Raw int64
	Tmp            bool
	data           []byte
}

type dirInfo struct {
	segs   []seg // sorted by left, all *.aof files
	rdbs   []rdbf
	others []string
}

func analyse(files []imgFile) dirInfo {
	var di dirInfo
	for _, f := range files {
		switch {
		case strings.HasSuffix(f.Name, ".aof"):
			left, err := strconv.ParseInt(strings.TrimSuffix(f.Name, ".aof"), 10, 64)
			if err != nil {
				di.others = append(di.others, f.Name)
				continue
			}
			s := seg{Left: left, Raw: int64(len(f.Data)), Len: int64(len(f.Data)) - hdr}
			if len(f.Data) >= hdr {
				s.HdrCrc = binary.LittleEndian.Uint64(f.Data[1:9])
				s.HdrSize = binary.LittleEndian.Uint32(f.Data[9:13])
				s.data = f.Data[hdr:]
				if s.Len > 0 && int64(s.HdrSize) == s.Len {
					h := digest.New()
					h.Write(s.data)
					s.Final = h.Sum64() == s.HdrCrc
				}
			}
			di.segs = append(di.segs, s)
		case strings.HasSuffix(f.Name, ".rdb") || strings.HasSuffix(f.Name, ".rdb.tmp"):
			tmp := strings.HasSuffix(f.Name, ".tmp")
			n := strings.TrimSuffix(strings.TrimSuffix(f.Name, ".tmp"), ".rdb")
			fd := strings.Split(n, "_")
			if len(fd) != 2 {
				di.others = append(di.others, f.Name)
				continue
			}
			o, e1 := strconv.ParseInt(fd[0], 10, 64)
			z, e2 := strconv.ParseInt(fd[1], 10, 64)
			if e1 != nil || e2 != nil {
				di.others = append(di.others, f.Name)
				continue
			}
			di.rdbs = append(di.rdbs, rdbf{Off: o, Size: z, Raw: int64(len(f.Data)), Tmp: tmp, data: f.Data})
		default:
			di.others = append(di.others, f.Name)
		}
	}
	sort.Slice(di.segs, func(i, j int) bool { return di.segs[i].Left < di.segs[j].Left })
	return di
}

// data segments (the ones a scan may use), sorted
func (di dirInfo) dataSegs() []seg {
	var out []seg
	for _, s := range di.segs {
		if s.Len > 0 {
			out = append(out, s)
		}
	}
	return out
}

// segAt returns the data segment holding offset off (left <= off < right).
func (di dirInfo) segAt(off int64) *seg {
	var best *seg
	for i := range di.segs {
		s := &di.segs[i]
		if s.Len > 0 && s.Left <= off && off < s.Right() {
			best = s
		}
	}
	return best
}

// coveredUntil: first offset >= off that no segment file of the image holds.
func (di dirInfo) coveredUntil(off int64) int64 {
	pos := off
	for {
		s := di.segAt(pos)
		if s == nil {
			return pos
		}
		pos = s.Right()
	}
}

// rdbAvail: bytes of the snapshot (off,size) present in the image (final or temporary file).
func (di dirInfo) rdbAvail(off, size int64) int64 {
	best := int64(0)
	for _, r := range di.rdbs {
		if r.Off == off && r.Size == size {
			if !r.Tmp {
				return r.Raw
			}
			best = r.Raw
		}
	}
	return best
}

// firstHole walks [l, r) over the segment extents present in the image; -1 if covered.
func (di dirInfo) firstHole(l, r int64) int64 {
	pos := l
	for pos < r {
		s := di.segAt(pos)
		if s == nil {
			return pos
		}
		pos = s.Right()
	}
	return -1
}

func (di dirInfo) hasGap() (segGap bool, rdbGap bool) {
	ds := di.dataSegs()
	for i := 1; i < len(ds); i++ {
		if ds[i].Left != ds[i-1].Right() {
			segGap = true
		}
	}
	for _, r := range di.rdbs {
		if !r.Tmp && len(ds) > 0 && ds[0].Left != r.Off {
			rdbGap = true
		}
	}
	return
}

func bucket(n int) string {
	switch {
	case n == 0:
		return "0"
	case n == 1:
		return "1"
	case n <= 5:
		return "2-5"
	default:
		return "6+"
	}
}

func phaseName(p int64) string {
	return [...]string{"init", "snap", "snap-fed", "snap-done", "log", "log-end", "reset", "done", "snap-fail", "log-fail"}[p]
}

// ---------------------------------------------------------------------------------------------
// checker

type checker struct {
	stalls atomic.Int64 // readers that made no progress for the whole read watchdog
	r       *harness.Run
	root    string
	gate    modeGate
	tmpSeq  atomic.Int64
	sigMu   sync.Mutex
	sigHist map[string]int
	// set when StoreChannel.NewReader was proven to self-deadlock with checksum verification on
	crcDeadlock  atomic.Bool
	deadlockViol atomic.Int32
}

// modeGate serialises the two settings of the process-global Channel.VerifyCrc that
// StoreChannel.NewReader reads: any number of callers of one mode, never both modes at once.
type modeGate struct {
	mu   sync.Mutex
	cond *sync.Cond
	mode bool
	n    int
}

func (g *modeGate) enter(mode bool) {
	g.mu.Lock()
	if g.cond == nil {
		g.cond = sync.NewCond(&g.mu)
	}
	for g.n > 0 && g.mode != mode {
		g.cond.Wait()
	}
	if g.n == 0 {
		config.GetSyncerConfig().Channel.VerifyCrc = mode
		g.mode = mode
	}
	g.n++
	g.mu.Unlock()
}

func (g *modeGate) leave() {
	g.mu.Lock()
	g.n--
	if g.n == 0 && g.cond != nil {
		g.cond.Broadcast()
	}
	g.mu.Unlock()
}

func (c *checker) materialise(runId string, files []imgFile) string {
	d := filepath.Join(c.root, fmt.Sprintf("open-%d", c.tmpSeq.Add(1)))
	sub := filepath.Join(d, runId)
	if err := os.MkdirAll(sub, 0o755); err != nil {
		panic(err)
	}
	for _, f := range files {
		if err := os.WriteFile(filepath.Join(sub, f.Name), f.Data, 0o644); err != nil {
			panic(err)
		}
	}
	return d
}

type listing struct {
	Name  string `json:"name"`
	Len   int    `json:"len"`
	State string `json:"state,omitempty"`
}

func listFiles(files []imgFile, di dirInfo) []listing {
	var out []listing
	for _, f := range files {
		l := listing{Name: f.Name, Len: len(f.Data)}
		for _, s := range di.segs {
			if fmt.Sprintf("%d.aof", s.Left) == f.Name {
				switch {
				case s.Final:
					l.State = "finalised"
				case s.Len > 0:
					l.State = "unfinalised"
				default:
					l.State = "empty"
				}
			}
		}
		out = append(out, l)
	}
	sort.Slice(out, func(i, j int) bool { return out[i].Name < out[j].Name })
	return out
}

func diskListing(di dirInfo) []string {
	out := []string{}
	for _, s := range di.segs {
		out = append(out, fmt.Sprintf("%d.aof(%d)", s.Left, s.Raw))
	}
	for _, r := range di.rdbs {
		n := fmt.Sprintf("%d_%d.rdb", r.Off, r.Size)
		if r.Tmp {
			n += ".tmp"
		}
		out = append(out, fmt.Sprintf("%s(%d)", n, r.Raw))
	}
	return out
}

func (c *checker) witness(img *image, runId string, di dirInfo, extra map[string]any) map[string]any {
	w := map[string]any{
		"image_case": img.Case, "image_idx": img.Idx, "aim": img.Aim, "run_id_dir": runId, "derived": img.Derived,
		"files": listFiles(img.Dirs[runId], di), "child_progress": img.Shm, "params": img.Params,
		"how_to_replay": "./run.sh C08 replay <this file> re-opens exactly the embedded image",
	}
	total := 0
	for _, fs := range img.Dirs {
		for _, f := range fs {
			total += len(f.Data)
		}
	}
	if total <= 400<<10 {
		w["image"] = img
	}
	for k, v := range extra {
		w[k] = v
	}
	return w
}

type report struct {
	L, R, RdbL, RdbS int64
	RunId            string
	SpRunId          string
	SpOffset         int64
}

// openImage opens a fresh StoreChannel on a private copy and asks the three questions.
// analyseDir: what is on disk in the (re-opened) copy right now.
func analyseDir(dir, runId string) dirInfo {
	files := []imgFile{}
	ents, _ := os.ReadDir(filepath.Join(dir, runId))
	for _, e := range ents {
		if b, err := os.ReadFile(filepath.Join(dir, runId, e.Name())); err == nil {
			files = append(files, imgFile{Name: e.Name(), Data: b})
		}
	}
	return analyse(files)
}

func (c *checker) openImage(runId string, files []imgFile, logSize int64) (*syncer.StoreChannel, report, string, error) {
	dir := c.materialise(runId, files)
	ch, rep, err := c.openDir(dir, runId, logSize)
	return ch, rep, dir, err
}

// openDir opens a fresh StoreChannel on an existing directory (what the next process start sees).
func (c *checker) openDir(dir, runId string, logSize int64) (*syncer.StoreChannel, report, error) {
	ch := syncer.NewStoreChannel(syncer.StorerConf{InputId: "c08", Dir: dir, MaxSize: 0, LogSize: logSize}).(*syncer.StoreChannel)
	sp, err := ch.StartPoint([]string{runId})
	rep := report{RunId: ch.RunId(), SpRunId: sp.RunId, SpOffset: sp.Offset}
	rep.L, rep.R = ch.GetOffsetRange(runId)
	rep.RdbL, rep.RdbS = ch.GetRdb(runId)
	return ch, rep, err
}

type readResult struct {
	Refused   bool   // NewReader returned an error
	Err       string // refusal / end reason
	IsAof     bool
	Left      int64 // first offset of the stream (aof) / snapshot offset (rdb)
	Size      int64
	Want, Got int64
	BadAt     int64 // index in the stream of the first wrong byte, -1 none
	BadGot    byte
	BadWant   byte
	Extra     int64 // bytes available beyond the reported right edge (verified too)
	Stalled   bool
	OpenHung  bool // NewReader itself never returned
	Deadlock  bool // ... and its goroutine is parked on a lock its own frame holds
	Limited   bool // fewer bytes requested than promised because the image does not hold them
}

const readWatchdog = 20 * time.Second
const openWatchdog = 3 * time.Second

// stackHas reports whether one goroutine's stack contains all the given frames.
func stackHas(frames ...string) bool {
	buf := make([]byte, 8<<20)
	buf = buf[:runtime.Stack(buf, true)]
	for _, g := range strings.Split(string(buf), "\n\n") {
		all := true
		for _, f := range frames {
			if !strings.Contains(g, f) {
				all = false
				break
			}
		}
		if all {
			return true
		}
	}
	return false
}

// willBeLogReader: GetReader serves an offset from a segment when one holds it (left <= off <= right).
func willBeLogReader(di dirInfo, off int64) bool {
	for _, s := range di.segs {
		if s.Len > 0 && s.Left <= off && off <= s.Right() {
			return true
		}
	}
	return false
}

// readStream opens a reader at off and consumes exactly the bytes the report promises
// (aof: up to the reported right edge; snapshot: its size), never waiting for more.
func (c *checker) readStream(img *image, di dirInfo, ch *syncer.StoreChannel, runId string, off int64, right int64, crc bool) readResult {
	res := readResult{BadAt: -1}
	type opened struct {
		rd  syncer.ChannelReader
		err error
	}
	oc := make(chan opened, 1)
	c.gate.enter(crc)
	go func() {
		rd, err := ch.NewReader(syncer.Offset{RunId: runId, Offset: off})
		oc <- opened{rd, err}
	}()
	var rd syncer.ChannelReader
	var err error
	select {
	case o := <-oc:
		rd, err = o.rd, o.err
	case <-time.After(openWatchdog):
		res.OpenHung = true
	}
	c.gate.leave()
	if res.OpenHung {
		// not a timing matter if the opener is parked on a lock its own frame holds
		if stackHas("store.(*Storer).GetReader", "isCorrupted", "sync.(*RWMutex).RLock") {
			res.Deadlock = true
			c.crcDeadlock.Store(true)
			c.r.Count("newreader_self_deadlocks", 1)
		} else {
			c.r.Inconclusive("NewReader at %d (%s) did not return within %v", off, crcName(crc), openWatchdog)
		}
		return res
	}
	c.r.Count("readers_opened", 1)
	if err != nil {
		res.Refused, res.Err = true, err.Error()
		c.r.Count("readers_refused_at_open", 1)
		return res
	}
	wait := usync.NewWaitCloser(nil)
	rd.Start(wait)
	res.IsAof, res.Left, res.Size = rd.IsAof(), rd.Left(), rd.Size()
	var expect func(p []byte, at int64) int // first mismatch in p (stream position at) or -1
	if res.IsAof {
		// never ask for bytes no file of the image holds: a follow-mode reader would wait for
		// them for ever (the hole itself is judged structurally by the caller)
		if cu := di.coveredUntil(res.Left); cu < right {
			right = cu
			res.Limited = true
		}
		res.Want = right - res.Left
		key := prf.AofKey(img.Params.Seed, prf.GenOf(res.Left))
		base := res.Left
		expect = func(p []byte, at int64) int { return prf.Mismatch(p, key, base+at) }
	} else {
		res.Want = res.Size
		if av := di.rdbAvail(res.Left, res.Size); av < res.Want {
			res.Want = av
			res.Limited = true
		}
		g := prf.GenOf(res.Left)
		var snap []byte
		if g >= 0 && g < len(img.Params.Gens) {
			snap = prf.Snapshot(img.Params.Seed, g, img.Params.Gens[g].S)
		}
		expect = func(p []byte, at int64) int {
			for i := range p {
				if at+int64(i) >= int64(len(snap)) || snap[at+int64(i)] != p[i] {
					return i
				}
			}
			return -1
		}
	}
	if res.Want < 0 {
		res.Want = 0
	}
	br := rd.IoReader()
	done := make(chan struct{})
	var endErr error
	go func() {
		defer close(done)
		buf := make([]byte, 32<<10)
		for res.Got < res.Want {
			n := int64(len(buf))
			if res.Want-res.Got < n {
				n = res.Want - res.Got
			}
			m, err := br.Read(buf[:n])
			if m > 0 {
				if i := expect(buf[:m], res.Got); i >= 0 && res.BadAt < 0 {
					res.BadAt = res.Got + int64(i)
					res.BadGot = buf[i]
					if res.IsAof {
						res.BadWant = prf.Byte(prf.AofKey(img.Params.Seed, prf.GenOf(res.Left)), res.Left+res.BadAt)
					}
				}
				res.Got += int64(m)
			}
			if err != nil {
				endErr = err
				return
			}
			if res.BadAt >= 0 {
				return
			}
		}
		// anything already delivered beyond the promised bytes is verified too (never waited for)
		if res.IsAof {
			if k := br.Buffered(); k > 0 {
				p, _ := br.Peek(k)
				res.Extra = int64(len(p))
				if i := expect(p, res.Got); i >= 0 && res.BadAt < 0 {
					res.BadAt = res.Got + int64(i)
					res.BadGot = p[i]
				}
			}
		}
	}()
	// a stall is never a verdict (inconclusive at most); once several readers of this run have
	// stalled for the whole watchdog the later ones get a short one, so that a tree on which many
	// readers stall still lets the rest of the images and alterations have their turn
	wd := readWatchdog
	if c.stalls.Load() >= 3 {
		wd = readWatchdog / 8
	}
	select {
	case <-done:
	case <-time.After(wd):
		res.Stalled = true
		c.stalls.Add(1)
		c.r.Count("readers_stalled", 1)
	}
	wait.Close(nil)
	rd.Close()
	<-done
	if endErr != nil {
		res.Err = endErr.Error()
		if e := wait.Error(); e != nil {
			res.Err += " / " + e.Error()
		}
	}
	c.r.Count("bytes_verified", res.Got+res.Extra)
	if res.Got < res.Want && !res.Stalled {
		c.r.Count("readers_ended_early", 1)
	}
	if res.Got == res.Want {
		c.r.Count("readers_served_in_full", 1)
	}
	return res
}

func crcName(b bool) string {
	if b {
		return "crc-on"
	}
	return "crc-off"
}

func segState(di dirInfo, off int64) string {
	s := di.segAt(off)
	switch {
	case s == nil:
		return "no-file"
	case s.Final:
		return "finalised-segment"
	default:
		return "unfinalised-segment"
	}
}

// checkOpen re-opens one run-id directory of an image in one checksum mode and applies the
// oracle: (1) nothing beyond what the source handed out, (2) one contiguous range held by files,
// (2b) nothing older than a gap, (3) snapshot offered only if complete, (4) served bytes, (5) no
// stale segment served.
func (c *checker) checkOpen(img *image, runId string, di dirInfo, crc bool, rng *rand.Rand) {
	dir := c.materialise(runId, img.Dirs[runId])
	defer os.RemoveAll(dir)
	segGap, _ := di.hasGap()
	if segGap {
		c.r.Count("reopens_that_must_discard_log_segments", 1)
	}
	// first reopen, and - for images with a gap between log segments and a sample of the others -
	// a second reopen of the SAME directory: what the next process start finds after the first
	// one has cleaned up
	passes := 1
	if segGap || rng.Intn(8) == 0 {
		passes = 2
	}
	for pass := 1; pass <= passes; pass++ {
		ch, rep, err := c.openDir(dir, runId, img.Params.LogSize)
		c.r.Eval(1)
		c.r.Count("opens", 1)
		if pass == 2 {
			c.r.Count("second_reopens_of_the_same_directory", 1)
		}
		if err != nil {
			c.r.Count("open_errors", 1) // the cache refused the directory: fail-safe
			ch.Close()
			return
		}
		tag := ""
		if pass == 2 {
			tag = "|second-reopen"
		}
		usable := c.judge(img, runId, di, analyseDir(dir, runId), ch, rep, crc, rng, tag)
		ch.Close()
		if !usable {
			return
		}
	}
}

// judge applies the oracle to one fresh StoreChannel.  di is the kill-point image, disk what the
// directory holds after this reopen's own clean-up.  Returns false when the instance became
// unusable (opener deadlock / stall).
func (c *checker) judge(img *image, runId string, di, disk dirInfo, ch *syncer.StoreChannel, rep report, crc bool, rng *rand.Rand, tag string) bool {
	key := fmt.Sprintf("%s/img%d", img.Case, img.Idx)
	p := img.Params
	w := func(extra map[string]any) map[string]any {
		extra["mode"] = crcName(crc) + tag
		extra["reported"] = rep
		extra["files_on_disk_after_this_reopen"] = diskListing(disk)
		return c.witness(img, runId, di, extra)
	}
	if rep.L == -1 && rep.R == -1 {
		c.r.Count("opens_reporting_nothing", 1)
		if rep.RdbL != -1 {
			c.r.Violation("rdb-offered|without-range"+tag, key, "GetRdb offers a snapshot while GetOffsetRange reports nothing", w(map[string]any{}))
		}
		return true
	}
	c.r.Count("opens_reporting_a_range", 1)
	g := prf.GenOf(rep.L)
	if g < 0 || g >= len(p.Gens) || rep.L > rep.R || prf.GenOf(rep.R) != g || rep.L < p.Gens[g].L {
		c.r.Violation("range|malformed"+tag, key, "reported range is not a range of offsets the source ever sent", w(map[string]any{}))
		return true
	}
	gen := p.Gens[g]
	// (1) nothing beyond what the child had handed to the writer when it was frozen
	bound := img.Shm.Gens[g][prf.GenAofHanded]
	if bound < gen.L {
		bound = gen.L
	}
	if rep.R > bound {
		c.r.Violation("range|beyond-handed-out"+tag, key,
			fmt.Sprintf("reported right edge %d exceeds the last offset %d the source had handed to the writer before the freeze", rep.R, bound), w(map[string]any{}))
	}
	// (2) one contiguous range: every reported offset is held by a segment file of the image
	holeAt := di.firstHole(rep.L, rep.R)
	ds := di.dataSegs()
	if holeAt >= 0 {
		sig := "hole|between-segments"
		what := fmt.Sprintf("reported range [%d,%d] contains offset %d that no segment file of the image holds", rep.L, rep.R, holeAt)
		if len(ds) == 0 || holeAt >= ds[len(ds)-1].Right() {
			sig = "range|beyond-last-segment"
			what = fmt.Sprintf("reported range [%d,%d] extends beyond offset %d where the newest segment file of the image ends", rep.L, rep.R, holeAt)
		}
		if rep.RdbL != -1 && holeAt == rep.RdbL {
			sig = "hole|snapshot-then-later-segment"
			what = fmt.Sprintf("snapshot at %d is offered and range [%d,%d] reported, but the first segment present starts after %d: the log right after the snapshot is missing (data older than a gap is served)", rep.RdbL, rep.L, rep.R, holeAt)
		}
		c.r.Violation(sig+tag, key, what, w(map[string]any{"hole_at": holeAt}))
	} else if h := disk.firstHole(rep.L, rep.R); h >= 0 {
		// (2') ... and still held after the reopen's own clean-up
		c.r.Violation("range|not-on-disk-after-reopen"+tag, key,
			fmt.Sprintf("the reported range [%d,%d] was held by the files of the kill-point image, but the reopen itself removed the file holding offset %d: the cache reports (IsValidOffset, start point) bytes it no longer holds", rep.L, rep.R, h),
			w(map[string]any{"hole_at": h}))
	}
	// (2b) segments older than a gap are discarded: the report starts no earlier than the
	// newest contiguous run of segments
	if len(ds) > 1 {
		runL := ds[len(ds)-1].Left
		for i := len(ds) - 1; i > 0 && ds[i].Left == ds[i-1].Right(); i-- {
			runL = ds[i-1].Left
		}
		if runL != ds[0].Left && rep.L < runL {
			c.r.Violation("stale|older-than-gap-reported"+tag, key,
				fmt.Sprintf("the image's newest contiguous run of segments starts at %d (older segments are separated from it by a gap) but the reported range [%d,%d] starts before it", runL, rep.L, rep.R),
				w(map[string]any{"newest_run_starts": runL}))
		}
	}
	// (2c) ... and it is the NEWEST data that is kept: a report that ends before the newest log
	// segment of the image means the newest segments were discarded in favour of older ones
	if len(ds) > 0 && rep.R < ds[len(ds)-1].Right() {
		nw := ds[len(ds)-1]
		c.r.Violation("stale|newest-segments-discarded-older-kept"+tag, key,
			fmt.Sprintf("the reported range [%d,%d] ends before the newest log segment of the image [%d,%d): the cache kept and reports older segments and discarded newer ones (truncation keeps only the newest contiguous run)", rep.L, rep.R, nw.Left, nw.Right()),
			w(map[string]any{"newest_segment": []int64{nw.Left, nw.Right()}}))
	}
	// (3) a snapshot is offered only if all its bytes are there
	if rep.RdbL != -1 {
		c.r.Count("opens_offering_snapshot", 1)
		ok := false
		why := "no completed snapshot file of that name in the image"
		for _, rf := range di.rdbs {
			if rf.Tmp || rf.Off != rep.RdbL || rf.Size != rep.RdbS {
				continue
			}
			gg := prf.GenOf(rf.Off)
			switch {
			case gg < 0 || gg >= len(p.Gens) || p.Gens[gg].L != rf.Off || p.Gens[gg].S != rf.Size:
				why = "snapshot of an offset/size the source never sent"
			case rf.Raw != rf.Size:
				why = fmt.Sprintf("snapshot file holds %d of %d bytes", rf.Raw, rf.Size)
			case !bytes.Equal(rf.data, prf.Snapshot(p.Seed, gg, rf.Size)):
				why = "snapshot file content differs from what the source sent"
			default:
				ok = true
			}
		}
		if !ok {
			tmp := "none"
			for _, rf := range di.rdbs {
				if rf.Tmp {
					tmp = fmt.Sprintf("tmp(%d/%d)", rf.Raw, rf.Size)
				}
			}
			c.r.Violation("rdb-offered|incomplete"+tag, key, "GetRdb offers a snapshot that was not completely received: "+why, w(map[string]any{"tmp": tmp}))
		}
	}

	// (4) what it serves
	type probe struct {
		off  int64
		kind string
	}
	var probes []probe
	if rep.RdbL != -1 {
		probes = append(probes, probe{rep.RdbL - rep.RdbS, "snapshot"})
		if rng.Intn(2) == 0 {
			probes = append(probes, probe{rep.RdbL - 1, "snapshot"})
		}
	}
	probes = append(probes, probe{rep.L, "left-edge"})
	if rep.R > rep.L {
		n := 3
		for i := 0; i < n; i++ {
			probes = append(probes, probe{rep.L + rng.Int63n(rep.R-rep.L+1), "inside"})
		}
		if ds := di.dataSegs(); len(ds) > 0 {
			s := ds[rng.Intn(len(ds))]
			for _, o := range []int64{s.Left, s.Left - 1, s.Right() - 1} {
				if o >= rep.L && o <= rep.R && rng.Intn(2) == 0 {
					probes = append(probes, probe{o, "segment-boundary"})
				}
			}
		}
		probes = append(probes, probe{rep.R - 1, "right-edge"})
	}
	for _, pb := range probes {
		if crc && c.crcDeadlock.Load() && willBeLogReader(di, pb.off) {
			c.r.Count("crc_on_log_probes_skipped_after_deadlock", 1)
			continue
		}
		res := c.readStream(img, disk, ch, runId, pb.off, rep.R, crc)
		if res.OpenHung {
			return false // the opener holds the storer's lock for ever: this instance is unusable
		}
		c.r.Seen("reader_kinds", pb.kind+"|"+crcName(crc))
		if res.Refused {
			continue
		}
		ctx := "snapshot"
		if res.IsAof {
			ctx = "log"
		}
		if res.BadAt >= 0 {
			where := ""
			if res.IsAof {
				where = "|" + segState(di, res.Left+res.BadAt)
			}
			c.r.Violation("wrong-byte|"+ctx+where+"|"+crcName(crc)+tag, key,
				fmt.Sprintf("reader opened at %d served a byte that is not what the source sent at stream position %d", pb.off, res.BadAt),
				w(map[string]any{"reader_at": pb.off, "probe": pb.kind, "read": res}))
			continue
		}
		if !res.IsAof && (res.Left != rep.RdbL || res.Size != rep.RdbS) {
			c.r.Violation("rdb-reader|not-the-offered-snapshot", key, "snapshot reader differs from GetRdb", w(map[string]any{"reader_at": pb.off, "read": res}))
		}
		if res.IsAof && res.Left+res.Got+res.Extra > bound {
			c.r.Violation("served|beyond-handed-out", key, "reader served bytes beyond what the source had handed to the writer", w(map[string]any{"reader_at": pb.off, "read": res}))
		}
		if res.Stalled {
			if holeAt >= 0 {
				c.r.Count("stalls_explained_by_reported_hole", 1)
			} else {
				c.r.Inconclusive("%s %s: reader at %d stalled after %d of %d bytes the image holds (watchdog %v)", key, crcName(crc), pb.off, res.Got, res.Want, readWatchdog)
			}
			return false
		}
		if res.Got < res.Want && !crc {
			// without checksum verification nothing in a hole-free image is refusable; not a
			// violation (refusing is fail-safe) but worth seeing in the evidence
			c.r.Count("early_end_without_crc", 1)
			c.r.Sample(map[string]any{"note": "reader ended early with crc off", "case": key, "at": pb.off, "read": res})
		}
	}
	// (5) data older than a gap is not served
	for _, s := range di.dataSegs() {
		if s.Right() <= rep.L || s.Left > rep.R {
			if crc && c.crcDeadlock.Load() {
				break
			}
			res := c.readStream(img, disk, ch, runId, s.Left, s.Right(), crc)
			if res.OpenHung {
				return false
			}
			c.r.Count("stale_probes", 1)
			if !res.Refused && res.IsAof && res.Got > 0 {
				c.r.Violation("stale-served|segment-outside-reported-range|"+crcName(crc)+tag, key,
					fmt.Sprintf("segment [%d,%d) lies outside the reported range [%d,%d] (discarded as older than a gap) yet a reader at %d was served %d bytes", s.Left, s.Right(), rep.L, rep.R, s.Left, res.Got),
					w(map[string]any{"read": res}))
			}
			break
		}
	}
	return true
}

// ---------------------------------------------------------------------------------------------
// alterations of closed segments / the completed snapshot (checksum verification on)

type alteration struct {
	Target  string `json:"target"` // "aof" / "rdb"
	Kind    string `json:"kind"`
	File    string `json:"file"`
	Pos     int64  `json:"pos"`
	Delta   int64  `json:"delta"`
	Content bool   `json:"content_no_longer_matches_checksum"`
}

func (c *checker) alter(img *image, runId string, di dirInfo, rng *rand.Rand, n int) {
	key := fmt.Sprintf("%s/img%d", img.Case, img.Idx)
	var closed []seg
	for _, s := range di.segs {
		if s.Final {
			closed = append(closed, s)
		}
	}
	var rdb *rdbf
	for i := range di.rdbs {
		if !di.rdbs[i].Tmp && di.rdbs[i].Raw == di.rdbs[i].Size {
			rdb = &di.rdbs[i]
		}
	}
	if len(closed) < 2 && rdb == nil {
		return
	}
	for k := 0; k < n; k++ {
		var a alteration
		var tseg seg
		if rdb != nil && (len(closed) < 2 || rng.Intn(3) == 0 || (k == 0 && rng.Intn(2) == 0)) {
			a.Target, a.File = "rdb", fmt.Sprintf("%d_%d.rdb", rdb.Off, rdb.Size)
			switch rng.Intn(8) {
			case 0:
				a.Kind, a.Pos = "flip-data", rng.Int63n(rdb.Size-8)
			case 1:
				a.Kind, a.Pos = "flip-trailer", rdb.Size-8+rng.Int63n(8)
			case 2:
				a.Kind, a.Delta = "truncate", -(1 + rng.Int63n(rdb.Size-9)) // keeps > 8 bytes
			case 3:
				// the recorded checksum wiped, body intact (what a source with checksums disabled
				// would have sent is NOT what this source sent: the served footer differs)
				a.Kind, a.Pos = "zero-footer", 8
			case 4, 5:
				// the usual shape of a lost tail block: the last k bytes read as zeros, footer
				// and the end of the body
				zk := 9 + rng.Int63n(56)
				if zk > rdb.Size-1 {
					zk = rdb.Size - 1
				}
				a.Kind, a.Pos = "zero-tail", zk
			default:
				// bytes after the S bytes the name promises are never served; the file's first S
				// bytes still carry their own valid trailer, so either outcome is acceptable as
				// long as what is served is the snapshot (CRC64 residue: zero padding even passes
				// the whole-file check)
				a.Kind, a.Delta = "extend", 1+rng.Int63n(64)
			}
			a.Content = a.Kind != "extend"
		} else {
			if len(closed) < 2 {
				continue
			}
			tseg = closed[rng.Intn(len(closed))]
			a.Target, a.File = "aof", fmt.Sprintf("%d.aof", tseg.Left)
			switch rng.Intn(7) {
			case 0, 1:
				a.Kind, a.Pos, a.Content = "flip-data", hdr+rng.Int63n(tseg.Len), true
			case 2:
				a.Kind, a.Pos, a.Content = "flip-header-crc", 1+rng.Int63n(8), true
			case 3:
				a.Kind, a.Pos, a.Content = "flip-header-size", 9+rng.Int63n(4), true
			case 4:
				a.Kind, a.Pos, a.Content = "flip-header-unused", []int64{0, 13, 14, 15}[rng.Intn(4)], false
			case 5:
				a.Kind, a.Delta, a.Content = "truncate", -(1 + rng.Int63n(tseg.Raw)), true
			default:
				a.Kind, a.Delta, a.Content = "extend", 1+rng.Int63n(64), true
			}
		}
		// build the altered file set
		files := make([]imgFile, len(img.Dirs[runId]))
		copy(files, img.Dirs[runId])
		var lo, hi int64 // offsets the altered file accounts for (before or after the change)
		for i := range files {
			if files[i].Name != a.File {
				continue
			}
			d := append([]byte(nil), files[i].Data...)
			switch {
			case strings.HasPrefix(a.Kind, "zero"):
				for j := int64(len(d)) - a.Pos; j < int64(len(d)); j++ {
					d[j] = 0
				}
			case strings.HasPrefix(a.Kind, "flip"):
				d[a.Pos] ^= byte(1 + rng.Intn(255))
			case a.Delta < 0:
				d = d[:int64(len(d))+a.Delta]
			default:
				ext := make([]byte, a.Delta)
				if a.Target == "aof" && rng.Intn(2) == 0 { // plausible continuation bytes
					prf.Fill(ext, prf.AofKey(img.Params.Seed, prf.GenOf(tseg.Left)), tseg.Right())
				} else {
					rng.Read(ext)
				}
				d = append(d, ext...)
			}
			if bytes.Equal(d, files[i].Data) {
				a.Content = false // the bytes were like that already: nothing was altered
			}
			files[i].Data = d
			if a.Target == "aof" {
				lo, hi = tseg.Left, tseg.Right()
				if nr := tseg.Left + int64(len(d)) - hdr; nr > hi {
					hi = nr
				}
			}
		}
		adi := analyse(files)
		ch, rep, dir, err := c.openImage(runId, files, img.Params.LogSize)
		c.r.Eval(1)
		c.r.Count("alterations", 1)
		c.r.Seen("alteration_kinds", a.Target+"|"+a.Kind)
		if a.Target == "rdb" {
			c.r.Count("alterations_of_the_snapshot", 1)
		}
		outcome := "refused"
		func() {
			defer os.RemoveAll(dir)
			defer ch.Close()
			if err != nil {
				return
			}
			w := func(extra map[string]any) map[string]any {
				extra["mode"] = "crc-on"
				extra["alteration"] = a
				extra["reported_after_alteration"] = rep
				return c.witness(img, runId, di, extra)
			}
			if a.Target == "rdb" {
				if rep.RdbL == -1 {
					outcome = "not-offered"
					return
				}
				res := c.readStream(img, adi, ch, runId, rep.RdbL-rep.RdbS, rep.R, true)
				if res.OpenHung {
					outcome = "unobservable-newreader-deadlock"
					return
				}
				if !res.Refused && !res.IsAof && res.BadAt >= 0 {
					outcome = "served"
					c.r.Violation("wrong-byte|snapshot|altered-image|"+a.Kind, key, "snapshot reader served a byte the source never sent", w(map[string]any{"read": res}))
				} else if !res.Refused && !res.IsAof && res.Got > 0 && !a.Content {
					outcome = "served-unchanged-content"
				} else if !res.Refused && !res.IsAof && res.Got > 0 {
					outcome = "served"
					c.r.Violation("crc|altered-snapshot-served|"+a.Kind, key,
						fmt.Sprintf("checksum verification on: the completed snapshot was altered (%s) yet its reader delivered %d bytes instead of refusing", a.Kind, res.Got),
						w(map[string]any{"read": res}))
				} else if res.Stalled {
					c.r.Inconclusive("%s: reader of altered snapshot stalled", key)
				}
				return
			}
			// readers that reach the altered segment: from the left edge, from the previous
			// segment, at its first offset, somewhere inside
			var at []int64
			if rep.L != -1 && rep.L <= lo {
				at = append(at, rep.L)
			}
			for _, s := range closed {
				if s.Right() == lo {
					at = append(at, s.Left)
				}
			}
			at = append(at, lo, lo+rng.Int63n(tseg.Len))
			served := false
			for _, off := range at {
				// inside the reported range never read past its right edge (follow mode would wait);
				// outside it a reader should be refused - if not, try to pull the altered bytes
				right := hi
				if rep.L != -1 && off >= rep.L && off <= rep.R {
					right = rep.R
				}
				if c.crcDeadlock.Load() && willBeLogReader(adi, off) && (c.deadlockViol.Load() >= 3 || !a.Content) {
					outcome = "unobservable-newreader-deadlock"
					continue
				}
				res := c.readStream(img, adi, ch, runId, off, right, true)
				if res.OpenHung {
					outcome = "unobservable-newreader-deadlock"
					if res.Deadlock && a.Content {
						// the segment must be refused; the opener neither refuses nor serves - and
						// that is not a matter of time: it waits for a lock its own frame holds
						c.deadlockViol.Add(1)
						outcome = "never-refused-newreader-deadlock"
						c.r.Violation("crc|altered-segment-not-refused|newreader-self-deadlock", key,
							fmt.Sprintf("checksum verification on: closed segment [%d,%d) no longer matches its recorded size/checksum (%s); the reader opened at %d is never refused: StoreChannel.NewReader does not return (Storer.GetReader holds dataSetMux for writing and NewAofRotateReader->isCorrupted->hasWriter->getDataSet read-locks it again)", lo, hi, a.Kind, off),
							w(map[string]any{"reader_at": off, "read": res}))
					}
					return
				}
				if res.Refused || !res.IsAof {
					continue
				}
				if res.Stalled {
					c.r.Inconclusive("%s: reader at %d over altered segment stalled (%s)", key, off, a.Kind)
					continue
				}
				end := res.Left + res.Got + res.Extra
				if a.Content && end > lo && res.Left < hi {
					served = true
					c.r.Violation("crc|altered-segment-served|"+a.Kind, key,
						fmt.Sprintf("checksum verification on: closed segment [%d,%d) no longer matches its recorded size/checksum (%s) yet a reader opened at %d delivered bytes [%d,%d) of it", lo, hi, a.Kind, off, max64(res.Left, lo), end),
						w(map[string]any{"reader_at": off, "read": res}))
					break
				}
				if res.BadAt >= 0 {
					served = true
					c.r.Violation("wrong-byte|log|altered-image|"+a.Kind, key, "reader served a byte the source never sent", w(map[string]any{"reader_at": off, "read": res}))
					break
				}
				if res.Got > 0 && end > lo {
					outcome = "served-unchanged-content"
				}
			}
			if served {
				outcome = "served"
			}
		}()
		c.r.Count("alteration_outcome_"+outcome, 1)
	}
}

func max64(a, b int64) int64 {
	if a > b {
		return a
	}
	return b
}

// ---------------------------------------------------------------------------------------------
// per-image driver: classification + both modes + alterations

var requiredPhases = []string{"during-snapshot", "during-log", "after-collector-pass", "after-second-snapshot-started"}

func (c *checker) checkImage(img *image, nAlter int) {
	rng := c.r.Rand(fmt.Sprintf("check|%s|%d", img.Case, img.Idx))
	st := img.Shm
	// broad phases (required coverage)
	if st.Gen == 0 && (st.Phase == prf.PhaseSnap || st.Phase == prf.PhaseSnapFed) {
		c.r.Count("phase_during-snapshot", 1)
	}
	if st.Gen == 0 && (st.Phase == prf.PhaseLog || st.Phase == prf.PhaseLogEnd) {
		c.r.Count("phase_during-log", 1)
	}
	if (st.Phase == prf.PhaseLog || st.Phase == prf.PhaseLogEnd) && st.GcEffective > 0 {
		c.r.Count("phase_after-collector-pass", 1)
	}
	if st.Gen >= 1 {
		c.r.Count("phase_after-second-snapshot-started", 1)
	}
	c.r.Count("images", 1)
	if len(img.Params.Faults) > 0 {
		c.r.Count("images_of_hostile_chains", 1)
	}
	faultTag := ""
	if img.Aim == "fault" {
		kind := "?"
		if st.FaultKind >= 0 && int(st.FaultKind) < len(prf.FaultKinds) {
			kind = prf.FaultKinds[st.FaultKind]
		}
		faultTag = "|fault=" + kind
		c.r.Count("images_in_backoff_after_refused_write_or_close", 1)
		c.r.Seen("fault_kinds", kind+"|"+phaseName(st.Phase))
	}
	if img.Resumed {
		c.r.Count("images_of_restarted_writers", 1)
	}
	if len(img.Dirs) == 0 {
		c.r.Seen("windows", "directory-removed")
		c.r.Count("images_without_directory", 1)
	}
	if len(img.Dirs) >= 2 {
		c.r.Seen("windows", "two-run-id-directories")
	}
	ids := make([]string, 0, len(img.Dirs))
	for id := range img.Dirs {
		ids = append(ids, id)
	}
	sort.Strings(ids)
	sig := fmt.Sprintf("ph=%s|gen=%d|gc=%v|dirs=%d", phaseName(st.Phase), min64(st.Gen, 2), st.GcEffective > 0, len(ids))
	for _, id := range ids {
		di := analyse(img.Dirs[id])
		ds := di.dataSegs()
		rdbState := "none"
		for _, rf := range di.rdbs {
			switch {
			case !rf.Tmp && rf.Raw != rf.Size:
				rdbState = "done-but-short"
				c.r.Seen("windows", "renamed-snapshot-shorter-than-its-name")
			case !rf.Tmp:
				rdbState = "done"
			case rf.Raw == 0:
				rdbState = "tmp-empty"
				c.r.Seen("windows", "tmp-snapshot-empty")
			case rf.Raw == rf.Size:
				rdbState = "tmp-complete"
				c.r.Seen("windows", "snapshot-complete-not-renamed")
			default:
				rdbState = "tmp-partial"
				c.r.Seen("windows", "tmp-snapshot-partial")
			}
		}
		tail := "none"
		if n := len(di.segs); n > 0 {
			t := di.segs[n-1]
			switch {
			case t.Raw == 0:
				tail = "created-empty"
				c.r.Seen("windows", "newest-segment-created-no-header")
			case t.Len == 0:
				tail = "header-only"
				c.r.Seen("windows", "newest-segment-header-only")
			case t.Raw < hdr:
				tail = "short-header"
			case t.Final:
				tail = "finalised"
				c.r.Seen("windows", "mid-rotation-all-finalised-no-new-file")
			default:
				tail = "unfinalised"
			}
		}
		unfinalMiddle := false
		nClosed := 0
		for i, s := range ds {
			if s.Final {
				nClosed++
			} else if i < len(ds)-1 {
				unfinalMiddle = true
			}
		}
		if unfinalMiddle {
			c.r.Seen("windows", "unfinalised-middle-segment(restart)")
		}
		sg, rg := di.hasGap()
		gap := "none"
		if sg {
			gap = "segments"
			c.r.Seen("windows", "gap-between-segments")
		}
		if rg {
			gap += "+after-snapshot"
			c.r.Seen("windows", "snapshot-then-later-segment")
		}
		if st.InGc != 0 {
			c.r.Seen("windows", "mid-collector-pass")
		}
		if st.InDel != 0 {
			c.r.Seen("windows", "mid-directory-removal")
			c.r.Count("images_mid_directory_removal", 1)
		}
		sig += fmt.Sprintf("|rdb=%s|segs=%s|tail=%s|gap=%s|midseg-unfinal=%v|ingc=%d|indel=%d", rdbState, bucket(len(ds)), tail, gap, unfinalMiddle, st.InGc, st.InDel)
		if len(di.segs) > 1 && len(fmt.Sprint(di.segs[0].Left)) != len(fmt.Sprint(di.segs[len(di.segs)-1].Left)) {
			// lexical directory order differs from offset order
			sig += "|names=mixed-width"
			c.r.Count("images_with_segment_names_of_different_width", 1)
			if sg {
				c.r.Count("images_with_segment_names_of_different_width_and_a_gap", 1)
			}
			if rdbState == "done" {
				c.r.Count("images_with_segment_names_of_different_width_and_a_snapshot", 1)
			}
		}
		for _, crc := range []bool{false, true} {
			c.checkOpen(img, id, di, crc, rng)
		}
		if nAlter > 0 {
			c.alter(img, id, di, rng, nAlter)
		}
		if img.Derived == "" && rng.Intn(c.r.N(3, 4)) == 0 {
			c.deriveGap(img, id, di, rng)
		}
		if img.Derived == "" && rng.Intn(c.r.N(3, 4)) == 0 {
			c.deriveSubsets(img, id, di, rng)
		}
	}
	sig += faultTag
	c.r.Distinct(sig)
	c.sigMu.Lock()
	c.sigHist[sig]++
	c.sigMu.Unlock()
}

// deriveGap: third class of images.  From a frozen image with at least three log segments one or
// several MIDDLE segment files are removed - what a removal pass that does not go oldest-first
// (os.RemoveAll in DelRunId, a collector pass whose unlink was refused) leaves when the process
// dies inside it - keeping at least one segment before and after the hole.  The derived image goes
// through the same oracle, including the second reopen of the same directory.
func (c *checker) deriveGap(img *image, runId string, di dirInfo, rng *rand.Rand) {
	ds := di.dataSegs()
	if len(ds) < 3 {
		return
	}
	i := 1 + rng.Intn(len(ds)-2)
	k := 1
	if max := len(ds) - 1 - i; max > 1 && rng.Intn(2) == 0 {
		k = 1 + rng.Intn(max)
	}
	drop := map[string]bool{}
	names := []string{}
	for _, s := range ds[i : i+k] {
		n := fmt.Sprintf("%d.aof", s.Left)
		drop[n] = true
		names = append(names, n)
	}
	d := &image{Case: img.Case, Idx: 1000 + img.Idx, Aim: img.Aim, Params: img.Params, Shm: img.Shm, Resumed: img.Resumed,
		Derived: fmt.Sprintf("torn removal pass over frozen image %d: %v unlinked, %d segment(s) before and %d after the hole kept", img.Idx, names, i, len(ds)-i-k),
		Dirs:    map[string][]imgFile{}}
	for _, f := range img.Dirs[runId] {
		if !drop[f.Name] {
			d.Dirs[runId] = append(d.Dirs[runId], f)
		}
	}
	c.r.Count("derived_gap_images", 1)
	ddi := analyse(d.Dirs[runId])
	c.checkOpen(d, runId, ddi, rng.Intn(2) == 0, rng)
	c.r.Distinct(fmt.Sprintf("derived-gap|before=%s|hole=%s|after=%s|rdb=%v", bucket(i), bucket(k), bucket(len(ds)-i-k), len(di.rdbs) > 0))
}

// deriveSubsets: fourth class of images.  os.RemoveAll (DelRunId, the reset in front of a new
// snapshot) unlinks the files of a directory in no particular order, so a process that dies inside
// it can leave ANY subset of them.  From a frozen image with a completed snapshot and/or log
// segments the surviving subsets are enumerated - all of them when the image has at most five
// files, otherwise the directed ones (snapshot plus exactly one segment, for every segment; only
// the newest segment; everything but the first k segments) plus a PRNG sample - and each goes
// through the same oracle as a frozen image.
func (c *checker) deriveSubsets(img *image, runId string, di dirInfo, rng *rand.Rand) {
	files := img.Dirs[runId]
	if len(files) < 2 || len(files) > 40 {
		return
	}
	ds := di.dataSegs()
	isSeg := func(name string) bool { return strings.HasSuffix(name, ".aof") }
	var keeps [][]bool
	n := len(files)
	if n <= 5 {
		for m := 1; m < (1<<n)-1; m++ {
			k := make([]bool, n)
			for i := range k {
				k[i] = m&(1<<i) != 0
			}
			keeps = append(keeps, k)
		}
	} else {
		// snapshot (and whatever is not a segment) plus exactly one segment
		for i := range files {
			if !isSeg(files[i].Name) {
				continue
			}
			k := make([]bool, n)
			for j := range files {
				k[j] = !isSeg(files[j].Name) || j == i
			}
			keeps = append(keeps, k)
		}
		// everything but the first j data segments
		for j := 1; j < len(ds) && j <= 3; j++ {
			gone := map[string]bool{}
			for _, sg := range ds[:j] {
				gone[fmt.Sprintf("%d.aof", sg.Left)] = true
			}
			k := make([]bool, n)
			for i := range files {
				k[i] = !gone[files[i].Name]
			}
			keeps = append(keeps, k)
		}
		for t := 0; t < 6; t++ {
			k := make([]bool, n)
			any, all := false, true
			for i := range k {
				k[i] = rng.Intn(2) == 0
				any = any || k[i]
				all = all && k[i]
			}
			if any && !all {
				keeps = append(keeps, k)
			}
		}
		if len(keeps) > 24 {
			rng.Shuffle(len(keeps), func(i, j int) { keeps[i], keeps[j] = keeps[j], keeps[i] })
			keeps = keeps[:24]
		}
	}
	for si, k := range keeps {
		var kept []imgFile
		var gone []string
		for i, f := range files {
			if k[i] {
				kept = append(kept, f)
			} else {
				gone = append(gone, f.Name)
			}
		}
		d := &image{Case: img.Case, Idx: 2000 + 100*img.Idx + si, Aim: img.Aim, Params: img.Params, Shm: img.Shm, Resumed: img.Resumed,
			Derived: fmt.Sprintf("directory removal torn at an arbitrary point over frozen image %d: %v unlinked, %d file(s) left", img.Idx, gone, len(kept)),
			Dirs:    map[string][]imgFile{runId: kept}}
		c.r.Count("derived_subset_images", 1)
		ddi := analyse(kept)
		c.checkOpen(d, runId, ddi, rng.Intn(2) == 0, rng)
		sg, rg := ddi.hasGap()
		hasRdb := false
		for _, rf := range ddi.rdbs {
			hasRdb = hasRdb || !rf.Tmp
		}
		c.r.Distinct(fmt.Sprintf("derived-subset|rdb=%v|segs=%s|gap=%v|after-snapshot-gap=%v", hasRdb, bucket(len(ddi.dataSegs())), sg, rg))
	}
}

func min64(a, b int64) int64 {
	if a < b {
		return a
	}
	return b
}

// ---------------------------------------------------------------------------------------------
// sampling: child supervision, freezing, copying

func genParams(rng *rand.Rand, hostile bool) prf.Params {
	p := prf.Params{Seed: rng.Int63() >> 8}
	p.LogSize = 200 + rng.Int63n(1849) // 200 B .. 2 KiB
	p.ChunkMax = []int{8, 64, 300, 1500, 4096}[rng.Intn(5)]
	p.PaceUs = []int{0, 40, 200}[rng.Intn(3)]
	p.Procs = []int{1, 2, 4}[rng.Intn(3)]
	id := func() string { return fmt.Sprintf("%016x%016x%08x", rng.Uint64(), rng.Uint64(), rng.Uint32()) }
	prev := ""
	for g := 0; g < 3; g++ {
		var s int64
		switch rng.Intn(10) {
		case 0, 1, 2:
			s = 64 + rng.Int63n(960)
		case 3, 4, 5, 6:
			s = 1024 + rng.Int63n(11*1024)
		default:
			s = 12*1024 + rng.Int63n(36*1024)
		}
		nseg := 6 + rng.Int63n(50)
		if rng.Intn(10) < 3 {
			nseg = 1 + rng.Int63n(4) // short-lived generation: snapshot + a handful of segments
		}
		if p.ChunkMax == 8 && nseg > 14 {
			nseg = 14
		}
		gen := prf.Gen{L: int64(g)*prf.GenStride + 70000 + rng.Int63n(230000), S: s, Log: nseg*p.LogSize + rng.Int63n(p.LogSize)}
		if prev != "" && rng.Intn(2) == 0 {
			gen.RunId = prev // FULLRESYNC from the same master keeps the replication id
		} else {
			gen.RunId = id()
		}
		prev = gen.RunId
		p.Gens = append(p.Gens, gen)
	}
	switch rng.Intn(4) {
	case 0: // collector disabled
	case 1: // passes that never need to remove anything
		p.MaxSize = 1 << 30
	default:
		p.MaxSize = (2 + rng.Int63n(12)) * p.LogSize
		if rng.Intn(3) == 0 {
			p.MaxSize += p.Gens[0].S
		}
	}
	if p.MaxSize > 0 {
		p.GcEvery = (1 + rng.Int63n(6)) * p.LogSize
		p.GcConcurrent = rng.Intn(2) == 0
	}
	if hostile {
		// a hostile environment for every generation of this chain: the file system refuses a write
		// at a PRNG byte count (first chunk / anywhere / the last chunk of the snapshot, a log
		// segment), or the writer is closed while the last snapshot chunk is in flight
		for range p.Gens {
			f := prf.Fault{A: rng.Float64(), B: rng.Float64(), DelayUs: int(rng.Int63n(1 << uint(rng.Intn(10))))}
			switch x := rng.Intn(100); {
			case x < 6:
			case x < 14:
				f.Kind = "rdb-first"
			case x < 24:
				f.Kind = "rdb-mid"
			case x < 52:
				f.Kind = "rdb-last"
			case x < 70:
				f.Kind = "close-last"
			default:
				f.Kind = "log"
			}
			p.Faults = append(p.Faults, f)
		}
	}
	return p
}

// decadeCrossing moves, for a third of the chains, the start of a generation's log just below
// a power of ten, so that the directory holds segment names of different length (…99xxx.aof,
// 100xxx.aof): lexical directory order then differs from offset order.  Drawn from its own PRNG
// stream; only L (and a cap on S) changes.  Generation g owns [g*2^26,(g+1)*2^26): 10^3..10^7 lie
// in generation 0, 10^8 in generation 1.
func decadeCrossing(rng *rand.Rand, p *prf.Params) {
	if rng.Intn(3) != 0 {
		return
	}
	pow := func(k int) int64 {
		v := int64(1)
		for ; k > 0; k-- {
			v *= 10
		}
		return v
	}
	set := func(g int, k int) {
		gen := &p.Gens[g]
		below := gen.Log / 3 // bytes of log in front of the boundary
		if lim := pow(k) / 2; below > lim {
			below = lim
		}
		if rng.Intn(3) == 0 && below > p.LogSize { // sometimes less than one segment in front of it
			below = p.LogSize
		}
		l := pow(k) - 1 - rng.Int63n(below)
		if l <= int64(g)*prf.GenStride+100 {
			return
		}
		gen.L = l
		if local := l - int64(g)*prf.GenStride; gen.S >= local {
			gen.S = local - 1
		}
		if gen.S < 64 {
			gen.S = 64
		}
	}
	set(0, 3+rng.Intn(5))
	if rng.Intn(4) != 0 {
		set(1, 8)
	}
}

// threadsStopped: every thread of pid is in state T (a stopped process performs no syscalls).
func threadsStopped(pid int) (stopped, gone bool) {
	ents, err := os.ReadDir(fmt.Sprintf("/proc/%d/task", pid))
	if err != nil || len(ents) == 0 {
		return false, true
	}
	all := true
	for _, e := range ents {
		b, err := os.ReadFile(fmt.Sprintf("/proc/%d/task/%s/stat", pid, e.Name()))
		if err != nil {
			continue // thread exited meanwhile
		}
		i := bytes.LastIndexByte(b, ')')
		if i < 0 || i+2 >= len(b) {
			all = false
			continue
		}
		switch b[i+2] {
		case 'T', 't':
		case 'Z', 'X':
			if e.Name() == strconv.Itoa(pid) {
				return false, true
			}
		default:
			all = false
		}
	}
	return all, false
}

func copyDirs(base string) map[string][]imgFile {
	out := map[string][]imgFile{}
	ents, err := os.ReadDir(base)
	if err != nil {
		return out
	}
	for _, e := range ents {
		if !e.IsDir() {
			continue
		}
		fs, err := os.ReadDir(filepath.Join(base, e.Name()))
		if err != nil {
			continue
		}
		files := []imgFile{}
		for _, f := range fs {
			b, err := os.ReadFile(filepath.Join(base, e.Name(), f.Name()))
			if err != nil {
				continue
			}
			files = append(files, imgFile{Name: f.Name(), Data: b})
		}
		out[e.Name()] = files
	}
	return out
}

func newestHeaderOnly(img *image) bool {
	for _, fs := range img.Dirs {
		di := analyse(fs)
		if n := len(di.segs); n > 0 && di.segs[n-1].Raw == hdr {
			return true
		}
	}
	return false
}

// countEntries: files in all run-id directories under base.
func countEntries(base string) int {
	n := 0
	ents, _ := os.ReadDir(base)
	for _, e := range ents {
		if f, err := os.Open(filepath.Join(base, e.Name())); err == nil {
			names, _ := f.Readdirnames(-1)
			n += len(names)
			f.Close()
		}
	}
	return n
}

type proc struct {
	cmd    *exec.Cmd
	done   chan struct{}
	err    error
	stderr bytes.Buffer
}

func startChild(bin, paramsPath string) (*proc, error) {
	p := &proc{done: make(chan struct{})}
	p.cmd = exec.Command(bin, paramsPath)
	p.cmd.Stderr = &p.stderr
	p.cmd.Stdout = &p.stderr
	env := []string{}
	for _, e := range os.Environ() {
		if !strings.HasPrefix(e, "GOMAXPROCS=") {
			env = append(env, e)
		}
	}
	p.cmd.Env = env
	if err := p.cmd.Start(); err != nil {
		return nil, err
	}
	go func() { p.err = p.cmd.Wait(); close(p.done) }()
	return p, nil
}

func (p *proc) exited() bool {
	select {
	case <-p.done:
		return true
	default:
		return false
	}
}

const sampleWatchdog = 60 * time.Second

// collectInProcess takes over what the child observed on its live cache (readers under an idle
// writer after a refused write, the lagging-reader/collector shape of a restarted tool).
func collectInProcess(r *harness.Run, caseKey string, p *prf.Params, shm *prf.Shm) {
	r.Count("inprocess_sweeps", shm.Load(prf.SlotLiveChecks))
	r.Count("inprocess_sweeps_after_refused_log_write", shm.Load(prf.SlotLiveFault))
	r.Count("inprocess_sweeps_lagging_reader_after_collector", shm.Load(prf.SlotLiveLag))
	r.Count("inprocess_readers", shm.Load(prf.SlotLiveReaders))
	r.Count("inprocess_bytes_verified", shm.Load(prf.SlotLiveBytes))
	r.Eval(int(shm.Load(prf.SlotLiveChecks)))
	b, err := os.ReadFile(p.Shm + ".findings")
	if err != nil {
		return
	}
	for _, line := range strings.Split(strings.TrimSpace(string(b)), "\n") {
		var f struct {
			Kind, Sig, What string
			Detail          map[string]any
		}
		if json.Unmarshal([]byte(line), &f) != nil {
			continue
		}
		if f.Kind == "violation" {
			r.Violation(f.Sig, caseKey, f.What, map[string]any{"observed_in": "writer child, live cache (not a frozen image)", "detail": f.Detail, "params": p,
				"how_to_replay": "VERIF_CASE=" + caseKey + " re-runs this chain (the schedule is timing dependent; the fault itself is deterministic)"})
		} else {
			r.Inconclusive("%s: in-process probe: %s: %s", caseKey, f.Sig, f.What)
		}
	}
}

// runCase runs one child chain (with PRNG kills and restarts) and returns its images.
func runCase(r *harness.Run, ci int, root, childBin string, perCase int) []*image {
	caseKey := fmt.Sprintf("case-%d", ci)
	rng := r.Rand(caseKey)
	p := genParams(rng, ci%3 == 2)
	decadeCrossing(r.Rand("decade|"+caseKey), &p)
	cdir := filepath.Join(root, caseKey)
	_ = os.MkdirAll(cdir, 0o755)
	defer os.RemoveAll(cdir)
	p.Dir = filepath.Join(cdir, "store")
	p.Shm = filepath.Join(cdir, "progress")
	_ = os.MkdirAll(p.Dir, 0o755)
	shm, err := prf.OpenShm(p.Shm, true)
	if err != nil {
		r.Inconclusive("%s: %v", caseKey, err)
		return nil
	}
	defer shm.Close()
	defer collectInProcess(r, caseKey, &p, shm)
	total := int64(0)
	for _, g := range p.Gens {
		total += g.S + g.Log
	}
	avgGap := total / int64(perCase)
	var images []*image
	kills := 0
	resumed := false
	for session := 0; session < 6 && len(images) < perCase+4; session++ {
		p.Resume = session > 0
		pb, _ := json.Marshal(p)
		pp := filepath.Join(cdir, fmt.Sprintf("params-%d.json", session))
		_ = os.WriteFile(pp, pb, 0o644)
		ch, err := startChild(childBin, pp)
		if err != nil {
			r.Inconclusive("%s: cannot start child: %v", caseKey, err)
			return images
		}
		pid := ch.cmd.Process.Pid
		killed := false
		for !killed {
			// aim
			aim := "bytes"
			seq0 := shm.Load(prf.SlotPhaseSeq)
			del0 := shm.Load(prf.SlotDelSeq)
			target := shm.Load(prf.SlotHandedTotal) + rng.Int63n(2*avgGap+1)
			switch x := rng.Intn(100); {
			case session == 0 && len(images) == 0:
				target = rng.Int63n(p.Gens[0].S + 1) // inside the first snapshot
			case x < 25:
				aim = "trigger" // next phase change / collector pass
				shm.Store(prf.SlotArmed, 1)
			case x < 50:
				aim = "removal" // next directory removal (DelRunId)
				shm.Store(prf.SlotArmed, 1)
			}
			t0 := time.Now()
			timedOut := false
			for !ch.exited() {
				if shm.Load(prf.SlotFaultSeq) != shm.Load(prf.SlotFaultAck) {
					aim = "fault" // a writer ended after a refused write / close: the tool is in its back-off
					break
				}
				if aim == "trigger" && shm.Load(prf.SlotPhaseSeq) != seq0 {
					break
				}
				if aim == "removal" && shm.Load(prf.SlotDelSeq) != del0 {
					break
				}
				if aim == "bytes" && shm.Load(prf.SlotHandedTotal) >= target {
					break
				}
				if time.Since(t0) > sampleWatchdog {
					timedOut = true
					break
				}
				time.Sleep(20 * time.Microsecond)
			}
			if timedOut {
				r.Inconclusive("%s: child made no progress for %v (phase %d)", caseKey, sampleWatchdog, shm.Load(prf.SlotPhase))
				_ = ch.cmd.Process.Kill()
				<-ch.done
				return images
			}
			if !ch.exited() && aim == "removal" {
				// stop after a PRNG number of the directory's entries have been unlinked
				n0 := countEntries(p.Dir)
				if n0 > 0 {
					k := 1 + rng.Intn(n0)
					if rng.Intn(2) == 0 { // the first unlinks decide which end of the log goes first
						k = 1 + rng.Intn(3)
					}
					for !ch.exited() && shm.Load(prf.SlotInDel) != 0 && countEntries(p.Dir) > n0-k && time.Since(t0) < sampleWatchdog {
						runtime.Gosched()
					}
				}
			} else if !ch.exited() {
				// PRNG delay, log-uniform 0..~1 ms
				if d := time.Duration(rng.Int63n(1<<uint(rng.Intn(11)))) * time.Microsecond; d > 0 {
					t := time.Now()
					for time.Since(t) < d {
						if d > 200*time.Microsecond {
							time.Sleep(50 * time.Microsecond)
						} else {
							runtime.Gosched()
						}
					}
				}
			}
			if !ch.exited() {
				_ = syscall.Kill(pid, syscall.SIGSTOP)
				t1 := time.Now()
				for {
					st, gone := threadsStopped(pid)
					if st || gone || ch.exited() {
						break
					}
					if time.Since(t1) > sampleWatchdog {
						r.Inconclusive("%s: child threads did not all reach state T", caseKey)
						_ = ch.cmd.Process.Kill()
						<-ch.done
						return images
					}
					time.Sleep(20 * time.Microsecond)
				}
			}
			shm.Store(prf.SlotArmed, 0)
			finished := ch.exited()
			if finished {
				aim = "after-exit"
			}
			// the child is stopped (or gone): the directory cannot change under the copy
			img := &image{Case: caseKey, Idx: len(images), Aim: aim, Params: p, Shm: shm.State(), Dirs: copyDirs(p.Dir), Resumed: resumed}
			shm.Store(prf.SlotFaultAck, img.Shm.FaultSeq)
			img.Params.Resume = false
			images = append(images, img)
			if finished {
				if ch.err != nil {
					r.Inconclusive("%s: writer child failed: %v: %s", caseKey, ch.err, strings.TrimSpace(ch.stderr.String()))
				}
				return images
			}
			if len(images) >= perCase+4 {
				_ = ch.cmd.Process.Kill()
				<-ch.done
				return images
			}
			// a kill while the newest log file holds only its header is the start of a history of
			// its own (the restarted writer re-creates that file): take it more often
			killPct := 12
			if st := img.Shm; st.Phase == prf.PhaseLog && newestHeaderOnly(img) {
				killPct = 45
			}
			if kills < 2 && rng.Intn(100) < killPct {
				// the process dies here; the tool is restarted on the same directory
				kills++
				_ = ch.cmd.Process.Kill()
				<-ch.done
				killed = true
				resumed = true
			} else {
				_ = syscall.Kill(pid, syscall.SIGCONT)
			}
		}
	}
	return images
}

// ---------------------------------------------------------------------------------------------

func main() {
	r := harness.New("C08", "fault_enumeration",
		"kill-point images of a live writer process (SIGSTOP, all threads in T, directory copied), each re-opened by a fresh StoreChannel with checksum verification off and on; "+
			"distinct = structural signature of the image (child phase, generation, collector effect, snapshot file state, segment count bucket, newest-segment state, gaps, unfinalised middle segment, mid-pass flags). "+
			"NOT exhaustive: freeze instants are sampled by timing (PRNG byte targets and trigger points), alterations are PRNG samples; "+
			"required phases are the four broad ones, narrow windows are only reported as observed")
	no := false
	_ = log.InitLog(config.LogConfig{LevelStr: "fatal", Handler: config.LogHandlerConfig{StdOut: true}, Caller: &no, Func: &no})
	config.GetSyncerConfig().Channel = &config.ChannelConfig{}
	r.Watchdog(time.Duration(r.N(12, 100)) * time.Minute)

	root, err := os.MkdirTemp("", "verif-c08-")
	if err != nil {
		r.Inconclusive("tmp dir: %v", err)
		r.Exit()
	}
	defer os.RemoveAll(root)
	c := &checker{r: r, root: root, sigHist: map[string]int{}}

	finish := func() {
		hist := map[string]int{}
		c.sigMu.Lock()
		for k, v := range c.sigHist {
			hist[k] = v
		}
		c.sigMu.Unlock()
		type kv struct {
			K string
			V int
		}
		var l []kv
		for k, v := range hist {
			l = append(l, kv{k, v})
		}
		sort.Slice(l, func(i, j int) bool { return l[i].V > l[j].V || (l[i].V == l[j].V && l[i].K < l[j].K) })
		top := []string{}
		for i, e := range l {
			if i >= 400 {
				break
			}
			top = append(top, fmt.Sprintf("%d x %s", e.V, e.K))
		}
		r.Set("signature_histogram", top)
		for _, ph := range requiredPhases {
			if r.Counter("phase_"+ph) == 0 {
				r.Count("phase_"+ph, 0)
			}
		}
		os.RemoveAll(root)
		r.Exit()
	}

	// replay of a witness: re-open exactly the embedded image
	if wp := os.Getenv("VERIF_REPLAY"); wp != "" {
		var wf struct {
			Witness struct {
				Image *image `json:"image"`
			} `json:"witness"`
		}
		b, err := os.ReadFile(wp)
		if err == nil {
			err = json.Unmarshal(b, &wf)
		}
		if err != nil || wf.Witness.Image == nil {
			r.Inconclusive("witness %s has no embedded image (%v); freeze instants are timing-sampled and cannot be re-sampled exactly", wp, err)
			finish()
		}
		c.checkImage(wf.Witness.Image, r.N(3, 2))
		finish()
	}

	childBin := filepath.Join(os.Getenv("VERIF_BIN_DIR"), os.Getenv("VERIF_BIN_PREFIX")+"-child")
	if _, err := os.Stat(childBin); err != nil {
		r.Inconclusive("child binary %s: %v", childBin, err)
		finish()
	}
	r.Assume("a process stopped by SIGSTOP with every thread in state T performs no system call, so a copy of its directory is the image a SIGKILL at that instant would leave (page cache included; power loss is not modelled)")
	r.Assume("the source can continue inside the generation the cache is in and answers FULLRESYNC otherwise; a restarted writer follows RedisInput: StartPoint, [DelRunId], SetRunId, NewRdbWriter/NewAofWritter")
	r.Assume("hostile chains (every third case): a refused write is produced with RLIMIT_FSIZE in the child (SIGXFSZ ignored, write(2) stores what fits and fails with EFBIG; stands for ENOSPC/EDQUOT/EIO); after it the child follows RedisInput.Run: run error, back-off, start over")
	r.Assume("in-process sweeps run in the writer child while its writer is parked in the source reader (idle, every handed chunk stored) and no collector pass overlaps: reported valid => NewReader succeeds and delivers PRF bytes up to the reported right edge, nothing beyond; a stall is decided on 400 polls of the child's own run time without a byte, its 30 s watchdog is inconclusive")
	r.Assume("derived gap images: removing MIDDLE log segment files from a frozen image yields a directory a kill inside a removal pass can leave (os.RemoveAll unlinks in readdir order, hashed on ext4; a refused unlink in a collector pass); counted apart from the frozen images")
	r.Assume("alterations: one per opened copy, only files with a recorded checksum (finalised segments, the renamed snapshot); a truncated snapshot keeps more than its 8 trailer bytes")

	wantImages := r.N(150, 5000)
	wantAlter := int64(r.N(200, 5000))
	perPhase := int64(r.N(8, 100))
	maxCases := r.N(60, 1500)
	perCase := 12
	alterPerImage := r.N(3, 2)
	workers := runtime.GOMAXPROCS(0)
	if workers < 4 {
		workers = 4
	}
	if workers > 12 {
		workers = 12
	}
	enough := func() bool {
		if r.Counter("images") < int64(wantImages) || r.Counter("alterations") < wantAlter {
			return false
		}
		for _, ph := range requiredPhases {
			if r.Counter("phase_"+ph) < perPhase {
				return false
			}
		}
		return true
	}
	cases := 0
	for base := 0; base < maxCases && !enough(); base += workers {
		n := workers
		if base+n > maxCases {
			n = maxCases - base
		}
		harness.Parallel(n, workers, func(i int) {
			ci := base + i
			if !r.WantCase(fmt.Sprintf("case-%d", ci)) {
				return
			}
			for _, img := range runCase(r, ci, root, childBin, perCase) {
				c.checkImage(img, alterPerImage)
			}
		})
		cases += n
		fmt.Printf("progress: cases=%d images=%d alterations=%d readers=%d\n", cases, r.Counter("images"), r.Counter("alterations"), r.Counter("readers_opened"))
	}
	r.Set("cases_run", cases)
	r.Set("required_per_phase", perPhase)
	if !r.Replaying() {
		for _, ph := range requiredPhases {
			if n := r.Counter("phase_" + ph); n < perPhase {
				r.Inconclusive("required phase %q has %d images (< %d) after %d cases", ph, n, perPhase, cases)
			}
		}
		if r.Counter("images") < int64(wantImages) {
			r.Inconclusive("only %d images (< %d) after %d cases", r.Counter("images"), wantImages, cases)
		}
		if c.crcDeadlock.Load() {
			r.Set("crc_on_log_readers", fmt.Sprintf("UNOBSERVABLE on this tree: StoreChannel.NewReader self-deadlocks with checksum verification on (%d proven occurrences, %d probes skipped afterwards)", r.Counter("newreader_self_deadlocks"), r.Counter("crc_on_log_probes_skipped_after_deadlock")))
			if c.deadlockViol.Load() == 0 {
				r.Inconclusive("with checksum verification on StoreChannel.NewReader never returns for an offset held by a log segment (self-deadlock on dataSetMux, proven from the goroutine stack); no altered segment was probed, so the refusal clause is unobserved")
			}
		}
		if r.Counter("bytes_verified") == 0 {
			r.Inconclusive("no byte was read back")
		}
	}
	finish()
}
