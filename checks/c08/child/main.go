// C08 writer child: drives the real disk cache (syncer.StoreChannel -> pkg/store) with the legal
// writer protocol of RedisInput (StartPoint / DelRunId / SetRunId / NewRdbWriter / NewAofWritter,
// Start / Wait / Close) while the parent freezes this process with SIGSTOP at arbitrary instants
// and copies the directory.  All source bytes are PRF(generation, offset).  Progress (bytes handed
// to the writer, published BEFORE they are returned to it) and phase changes go to a shared page.
package main

import (
	"context"
	"encoding/json"
	"fmt"
	"io"
	"math/rand"
	"os"
	"os/signal"
	"runtime"
	"sync"
	"sync/atomic"
	"syscall"
	"time"

	"github.com/mgtv-tech/redis-GunYu/config"
	"github.com/mgtv-tech/redis-GunYu/pkg/log"
	usync "github.com/mgtv-tech/redis-GunYu/pkg/sync"
	"github.com/mgtv-tech/redis-GunYu/syncer"

	"verif/internal/prf"
)

type child struct {
	oldLim syscall.Rlimit
	p      prf.Params
	shm    *prf.Shm
	ch     *syncer.StoreChannel
	rng    *rand.Rand
	rngMu  sync.Mutex
	gcMu   sync.Mutex // collector passes never overlap the in-process reader checks
	repMu  sync.Mutex
	gcReq  chan struct{}
	gcAck  chan struct{}
}

func fail(format string, a ...any) {
	fmt.Fprintf(os.Stderr, "c08-child: "+format+"\n", a...)
	os.Exit(3)
}

// trigger marks a point the parent may aim a freeze at; when the parent is armed the child
// idles briefly so that the stop lands in the code that follows, not after it.
func (c *child) trigger() {
	c.shm.Add(prf.SlotPhaseSeq, 1)
	if c.shm.Load(prf.SlotArmed) != 0 {
		time.Sleep(150 * time.Microsecond)
	}
}

func (c *child) phase(ph int64) {
	c.shm.Store(prf.SlotPhase, ph)
	c.trigger()
}

// every feeder has its own PRNG: a closed writer's ingest goroutine may still be inside its
// feeder while the next writer's feeder is already running
func (c *child) newRng() *rand.Rand {
	c.rngMu.Lock()
	defer c.rngMu.Unlock()
	return rand.New(rand.NewSource(c.rng.Int63()))
}

func (c *child) pace(rng *rand.Rand) {
	if c.p.PaceUs > 0 && rng.Intn(4) == 0 {
		time.Sleep(time.Duration(rng.Intn(c.p.PaceUs)+1) * time.Microsecond)
	}
}

func (c *child) fault(g int) prf.Fault {
	if g < len(c.p.Faults) {
		return c.p.Faults[g]
	}
	return prf.Fault{}
}

// setLimit makes the file system refuse every write that would extend a file beyond n bytes
// (RLIMIT_FSIZE with SIGXFSZ ignored: write(2) stores what fits and then fails with EFBIG).
func (c *child) setLimit(n int64, kind string) {
	if n < 0 {
		n = 0
	}
	lim := c.oldLim
	lim.Cur = uint64(n)
	if err := syscall.Setrlimit(syscall.RLIMIT_FSIZE, &lim); err != nil {
		fail("setrlimit: %v", err)
	}
	c.shm.Store(prf.SlotFaultLimit, n)
	c.shm.Store(prf.SlotFaultKind, prf.FaultCode(kind))
}

func (c *child) restoreLimit() {
	lim := c.oldLim
	_ = syscall.Setrlimit(syscall.RLIMIT_FSIZE, &lim)
}

// faultEvent: a writer has ended after a planned fault - the run ends with an error and the tool
// backs off (2 s in RedisInput.Run) before it starts over.  The child stays in that back-off until
// the parent has taken its image of this moment (bounded).
func (c *child) faultEvent(ph int64) {
	seq := c.shm.Add(prf.SlotFaultSeq, 1)
	c.phase(ph)
	t := time.Now()
	for c.shm.Load(prf.SlotFaultAck) < seq && time.Since(t) < 300*time.Millisecond {
		time.Sleep(50 * time.Microsecond)
	}
}

// gcNow runs one collector pass and records whether it removed anything.
func (c *child) gcNow() {
	c.gcMu.Lock()
	defer c.gcMu.Unlock()
	id := c.ch.RunId()
	l0, _ := c.ch.GetOffsetRange(id)
	r0, _ := c.ch.GetRdb(id)
	c.shm.Store(prf.SlotInGc, 1)
	c.trigger()
	c.ch.VerifGcNow()
	c.shm.Store(prf.SlotInGc, 0)
	l1, _ := c.ch.GetOffsetRange(id)
	r1, _ := c.ch.GetRdb(id)
	c.shm.Add(prf.SlotGcPasses, 1)
	if l0 != l1 || r0 != r1 {
		c.shm.Add(prf.SlotGcEffective, 1)
	}
}

func (c *child) gc() {
	if !c.p.GcConcurrent {
		c.gcNow()
		return
	}
	select {
	case c.gcReq <- struct{}{}:
	default:
	}
}

type rdbFeeder struct {
	c     *child
	g     int
	data  []byte
	pos   int
	fault prf.Fault
	w     syncer.RdbChannelWriter
	rng   *rand.Rand
}

func (f *rdbFeeder) Read(p []byte) (int, error) {
	if f.pos >= len(f.data) {
		return 0, io.EOF
	}
	n := 1 + f.rng.Intn(8192)
	if f.rng.Intn(3) == 0 {
		n = 1 + f.rng.Intn(f.c.p.ChunkMax)
	}
	if n > len(p) {
		n = len(p)
	}
	if n > len(f.data)-f.pos {
		n = len(f.data) - f.pos
	}
	if f.pos+n == len(f.data) {
		// the LAST chunk [pos, S) is about to be handed to the writer
		switch f.fault.Kind {
		case "rdb-last":
			lim := int64(f.pos) // nothing of it fits
			switch a := f.fault.A; {
			case a < 0.2:
			case a < 0.4:
				lim = int64(len(f.data)) - 1
			default:
				lim = int64(f.pos) + int64((a-0.4)/0.6*float64(n))
			}
			if lim > int64(len(f.data))-1 {
				lim = int64(len(f.data)) - 1
			}
			f.c.setLimit(lim, f.fault.Kind)
		case "close-last":
			f.c.shm.Store(prf.SlotFaultKind, prf.FaultCode(f.fault.Kind))
			w, d := f.w, time.Duration(f.fault.DelayUs)*time.Microsecond
			go func() {
				if d > 0 {
					time.Sleep(d)
				}
				w.Close() // what syncRdb does when the run is cancelled / the tool shuts down
			}()
		}
	}
	copy(p, f.data[f.pos:f.pos+n])
	f.pos += n
	// publish before the bytes reach the writer
	f.c.shm.Max(prf.GenSlot(f.g, prf.GenRdbHanded), int64(f.pos))
	f.c.shm.Add(prf.SlotHandedTotal, int64(n))
	if f.pos == len(f.data) {
		f.c.phase(prf.PhaseSnapFed)
	}
	f.c.pace(f.rng)
	return n, nil
}

type aofFeeder struct {
	c        *child
	g        int
	key      uint64
	off, end int64
	sinceGc  int64
	segFill  int64
	ended    bool
	fault    prf.Fault
	faulted  *bool
	faultOff *int64 // offset handed out when the limit was lowered
	atEnd    func() // runs once, writer live and idle, before the source closes
	rng      *rand.Rand
}

func (f *aofFeeder) Read(p []byte) (int, error) {
	if f.off >= f.end {
		if !f.ended {
			f.ended = true
			if f.atEnd != nil {
				// every chunk handed out so far is in the file (ingest is read-write-read) and
				// the writer is parked in this Read: its Right() is f.off and stays there
				f.atEnd()
			}
			f.c.shm.Store(prf.GenSlot(f.g, prf.GenLogDone), 1)
			f.c.phase(prf.PhaseLogEnd)
		}
		return 0, io.EOF
	}
	if f.c.p.GcEvery > 0 && f.sinceGc >= f.c.p.GcEvery {
		f.sinceGc = 0
		f.c.gc()
	}
	if f.fault.Kind == "log" && !*f.faulted {
		gen := f.c.p.Gens[f.g]
		if f.off-gen.L >= int64(f.fault.B*float64(gen.Log)) {
			*f.faulted = true
			*f.faultOff = f.off
			if a := f.fault.A; a < 0.7 {
				// cut inside one of the next chunks of the current segment: a partial write
				f.c.setLimit(16+f.segFill+1+int64(a/0.7*float64(2*f.c.p.ChunkMax)), f.fault.Kind)
			} else {
				// anywhere in a segment's size range: refused with 0 bytes if the file is larger already
				f.c.setLimit(16+int64((a-0.7)/0.3*float64(f.c.p.LogSize)), f.fault.Kind)
			}
		}
	}
	n := 1 + f.rng.Intn(f.c.p.ChunkMax)
	if n > len(p) {
		n = len(p)
	}
	if int64(n) > f.end-f.off {
		n = int(f.end - f.off)
	}
	prf.Fill(p[:n], f.key, f.off)
	f.off += int64(n)
	f.sinceGc += int64(n)
	f.segFill += int64(n)
	if f.segFill+16 > f.c.p.LogSize { // the store rotates after this chunk
		f.segFill = 0
		f.c.shm.Add(prf.SlotRotations, 1)
	}
	f.c.shm.Max(prf.GenSlot(f.g, prf.GenAofHanded), f.off)
	f.c.shm.Add(prf.SlotHandedTotal, int64(n))
	f.c.pace(f.rng)
	return n, nil
}

// ---------------------------------------------------------------------------------------------
// in-process checks (live cache, writer idle): what the cache reports valid must be readable

type finding struct {
	Kind   string         `json:"kind"` // violation / inconclusive
	Sig    string         `json:"sig"`
	What   string         `json:"what"`
	Detail map[string]any `json:"detail"`
}

func (c *child) report(f finding) {
	c.repMu.Lock()
	defer c.repMu.Unlock()
	b, _ := json.Marshal(f)
	fh, err := os.OpenFile(c.p.Shm+".findings", os.O_WRONLY|os.O_CREATE|os.O_APPEND, 0o644)
	if err != nil {
		return
	}
	fh.Write(append(b, '\n'))
	fh.Close()
}

const (
	idlePolls    = 400 // x 5 ms of the child's own run time without a byte, writer idle
	probeTimeout = 30 * time.Second
)

// consume reads [x, right) from an opened log reader and requires PRF bytes, arrival at right
// (decided on quiescence: the writer is idle and the reader made no progress over idlePolls polls
// while right > its position) and nothing beyond right.
func (c *child) consume(ctx string, g int, rd syncer.ChannelReader, x, right int64) (ok bool) {
	wait := usync.NewWaitCloser(nil)
	rd.Start(wait)
	defer func() { wait.Close(nil); rd.Close() }()
	c.shm.Add(prf.SlotLiveReaders, 1)
	want := right - x
	var got atomic.Int64
	var bad atomic.Int64
	bad.Store(-1)
	var endErr atomic.Value
	done := make(chan struct{})
	br := rd.IoReader()
	key := prf.AofKey(c.p.Seed, g)
	go func() {
		defer close(done)
		buf := make([]byte, 16<<10)
		for got.Load() < want {
			n := int64(len(buf))
			if r := want - got.Load(); r < n {
				n = r
			}
			m, err := br.Read(buf[:n])
			if m > 0 {
				if i := prf.Mismatch(buf[:m], key, x+got.Load()); i >= 0 {
					bad.Store(got.Load() + int64(i))
					got.Add(int64(m))
					return
				}
				got.Add(int64(m))
			}
			if err != nil {
				endErr.Store(err.Error())
				return
			}
		}
	}()
	det := func() map[string]any {
		l, r := c.ch.GetOffsetRange(c.ch.RunId())
		d := map[string]any{"context": ctx, "reader_at": x, "right_at_the_time": right, "delivered_until": x + got.Load(), "range_now": []int64{l, r}, "generation": g}
		if ents, err := os.ReadDir(c.p.Dir + "/" + c.ch.RunId()); err == nil {
			fl := []string{}
			for _, e := range ents {
				if fi, err := e.Info(); err == nil {
					fl = append(fl, fmt.Sprintf("%s(%d)", e.Name(), fi.Size()))
				}
			}
			d["files"] = fl
		}
		return d
	}
	t0 := time.Now()
	last, idle := int64(-1), 0
	finished := false
	for !finished {
		select {
		case <-done:
			finished = true
			continue
		default:
		}
		time.Sleep(5 * time.Millisecond)
		if gnow := got.Load(); gnow != last {
			last, idle = gnow, 0
		} else {
			idle++
		}
		if idle >= idlePolls {
			c.report(finding{"violation", "reader-stalls" + ctxSig(ctx),
				fmt.Sprintf("reader opened at valid offset %d delivered [%d,%d) and then made no progress over %d polls although the writer is idle and the cache reports data up to %d", x, x, x+got.Load(), idlePolls, right), det()})
			return false
		}
		if time.Since(t0) > probeTimeout {
			c.report(finding{"inconclusive", "probe-watchdog", fmt.Sprintf("reader at %d still progressing after %v", x, probeTimeout), det()})
			return false
		}
	}
	c.shm.Add(prf.SlotLiveBytes, got.Load())
	if b := bad.Load(); b >= 0 {
		c.report(finding{"violation", "live-reader|wrong-byte", fmt.Sprintf("reader opened at %d served a byte the source never sent for offset %d", x, x+b), det()})
		return false
	}
	if got.Load() < want {
		e, _ := endErr.Load().(string)
		d := det()
		d["error"] = e
		c.report(finding{"violation", "valid-offset-unreadable|midstream" + ctxSig(ctx),
			fmt.Sprintf("reader opened at valid offset %d ended after [%d,%d) with %q although nothing was reset and the cache reports data up to %d", x, x, x+got.Load(), e, right), d})
		return false
	}
	// arrived at right; the writer is idle, so nothing may follow
	for i := 0; i < 10; i++ {
		if k := br.Buffered(); k > 0 {
			d := det()
			d["extra_bytes"] = k
			c.report(finding{"violation", "reader-delivers-beyond-right",
				fmt.Sprintf("reader opened at %d delivered %d byte(s) beyond %d, the right edge the cache reports while its writer is idle", x, k, right), d})
			return false
		}
		time.Sleep(time.Millisecond)
	}
	return true
}

func ctxSig(ctx string) string {
	if ctx == "refused-write" {
		return "-behind-refused-write"
	}
	return "|" + ctx
}

// sweep probes offsets of the reported range: reported valid => can be opened and read to the
// right edge.
func (c *child) sweep(ctx string, g int, extra []int64, rng *rand.Rand) {
	c.gcMu.Lock()
	defer c.gcMu.Unlock()
	id := c.ch.RunId()
	l, r := c.ch.GetOffsetRange(id)
	if l < 0 || r <= l || prf.GenOf(l) != g {
		return
	}
	c.shm.Add(prf.SlotLiveChecks, 1)
	if ctx == "refused-write" {
		c.shm.Add(prf.SlotLiveFault, 1)
	} else {
		c.shm.Add(prf.SlotLiveLag, 1)
	}
	offs := append([]int64{l, r - 1}, extra...)
	for i := 0; i < 3; i++ {
		offs = append(offs, l+rng.Int63n(r-l))
	}
	seen := map[int64]bool{}
	for _, x := range offs {
		if x < l || x >= r || seen[x] {
			continue
		}
		seen[x] = true
		if !c.ch.IsValidOffset(syncer.Offset{RunId: id, Offset: x}) {
			continue
		}
		rd, err := c.ch.NewReader(syncer.Offset{RunId: id, Offset: x})
		if err != nil {
			c.report(finding{"violation", "valid-offset-unreadable" + ctxSig(ctx),
				fmt.Sprintf("IsValidOffset(%d) is true (reported range [%d,%d]) but NewReader fails: %v", x, l, r, err),
				map[string]any{"context": ctx, "reader_at": x, "range": []int64{l, r}, "error": err.Error(), "generation": g}})
			continue
		}
		if !rd.IsAof() {
			rd.Close()
			continue
		}
		if !c.consume(ctx, g, rd, x, r) {
			return // one witness per sweep is enough; a stall costs idlePolls
		}
	}
}

// ids the (modelled) source announces while it is in generation g: its replication id and the
// previous one (master_replid2).
func (c *child) sourceIds(g int) []string {
	ids := []string{c.p.Gens[g].RunId}
	if g > 0 && c.p.Gens[g-1].RunId != c.p.Gens[g].RunId {
		ids = append(ids, c.p.Gens[g-1].RunId)
	}
	return ids
}

// fullSync mirrors RedisInput.syncMeta/syncData for a FULLRESYNC answer.
func (c *child) fullSync(g int, startPointDone bool) (goOn bool) {
	gen := c.p.Gens[g]
	c.shm.Store(prf.SlotGen, int64(g))
	c.phase(prf.PhaseReset)
	if !startPointDone {
		if _, err := c.ch.StartPoint(c.sourceIds(g)); err != nil {
			fail("StartPoint: %v", err)
		}
	}
	c.shm.Store(prf.SlotInDel, 1)
	c.shm.Add(prf.SlotDelSeq, 1)
	c.trigger()
	if err := c.ch.DelRunId(c.ch.RunId()); err != nil {
		fail("DelRunId: %v", err)
	}
	c.shm.Store(prf.SlotInDel, 0)
	if err := c.ch.SetRunId(gen.RunId); err != nil {
		fail("SetRunId: %v", err)
	}
	c.shm.Store(prf.SlotGcEffective, 0)
	c.shm.Store(prf.GenSlot(g, prf.GenStarted), 1)
	c.phase(prf.PhaseSnap)
	ft := c.fault(g)
	rf := &rdbFeeder{c: c, g: g, data: prf.Snapshot(c.p.Seed, g, gen.S), fault: ft, rng: c.newRng()}
	w, err := c.ch.NewRdbWriter(rf, gen.L, gen.S)
	if err != nil {
		fail("NewRdbWriter: %v", err)
	}
	rf.w = w
	switch ft.Kind {
	case "rdb-first":
		first := gen.S
		if first > 8192 {
			first = 8192
		}
		c.setLimit(int64(ft.A*float64(first-1)), ft.Kind)
	case "rdb-mid":
		c.setLimit(int64(ft.A*float64(gen.S-1)), ft.Kind)
	}
	w.Start()
	werr := w.Wait(context.Background())
	w.Close()
	switch {
	case ft.Kind == "close-last":
		// the run was cancelled: syncData still creates the log writer, whose Wait returns at
		// once on the cancelled context, closes it, and the tool shuts down
		c.faultEvent(prf.PhaseSnapFail)
		af := &aofFeeder{c: c, g: g, key: prf.AofKey(c.p.Seed, g), off: gen.L, end: gen.L + gen.Log, faulted: new(bool), rng: c.newRng()}
		if aw, err := c.ch.NewAofWritter(af, gen.L); err == nil {
			aw.Start()
			aw.Close()
		}
		return false
	case werr != nil && ft.Kind != "":
		// refused write: the run ends with an error; after the back-off the tool starts over and
		// the source offers a newer snapshot
		c.restoreLimit()
		c.faultEvent(prf.PhaseSnapFail)
		return true
	case werr != nil:
		fail("rdb writer: %v", werr)
	}
	if ft.Kind != "" && ft.Kind != "log" {
		c.shm.Store(prf.SlotFaultOk, 1)
		c.restoreLimit()
	}
	c.phase(prf.PhaseSnapDone)
	return c.incrSync(g, gen.L)
}

// incrSync mirrors the incremental part of syncData: an aof writer at offset, fed until the
// source closes the connection.
func (c *child) incrSync(g int, offset int64) (goOn bool) { return c.incrSyncLag(g, offset, false) }

// incrSyncLag: lag = this is a restarted tool resuming incrementally; a reader is opened at the
// resume offset and left unconsumed (a slow follower / output) while more than maxSize bytes
// accumulate and the collector runs.
func (c *child) incrSyncLag(g int, offset int64, lag bool) (goOn bool) {
	gen := c.p.Gens[g]
	ft := c.fault(g)
	faulted := new(bool)
	faultOff := new(int64)
	end := gen.L + gen.Log
	for {
		c.phase(prf.PhaseLog)
		af := &aofFeeder{c: c, g: g, key: prf.AofKey(c.p.Seed, g), off: offset, end: end, fault: ft, faulted: faulted, faultOff: faultOff, rng: c.newRng()}
		aw, err := c.ch.NewAofWritter(af, offset)
		if err != nil {
			if *faulted {
				// not even the new segment's header could be written
				c.restoreLimit()
				c.faultEvent(prf.PhaseLogFail)
				return true
			}
			fail("NewAofWritter: %v", err)
		}
		id := c.ch.RunId()
		var lagRd syncer.ChannelReader
		if lag && c.p.MaxSize > 0 && c.p.MaxSize < 1<<24 {
			if c.ch.IsValidOffset(syncer.Offset{RunId: id, Offset: offset}) {
				if rd, err := c.ch.NewReader(syncer.Offset{RunId: id, Offset: offset}); err == nil && rd.IsAof() {
					lagRd = rd
					if e := offset + c.p.MaxSize + 3*c.p.LogSize; e > af.end && prf.GenOf(e) == g {
						af.end, end = e, e
					}
				} else if err == nil {
					rd.Close()
				}
			}
		}
		resumedAt := offset
		switch {
		case lagRd != nil:
			af.atEnd = func() {
				if c.p.MaxSize > 0 {
					c.gcNow()
				}
				c.sweep("lagging-reader-after-collector", g, []int64{resumedAt, resumedAt + 1, resumedAt + c.p.LogSize/2}, af.rng)
				c.gcMu.Lock()
				_, r := c.ch.GetOffsetRange(id)
				c.consume("lagging-reader-after-collector", g, lagRd, resumedAt, r)
				c.gcMu.Unlock()
			}
		case *faulted:
			fo := *faultOff
			af.atEnd = func() {
				c.sweep("refused-write", g, []int64{fo - 1, fo - c.p.LogSize/3, resumedAt - 1, resumedAt}, af.rng)
			}
		}
		aw.Start()
		_ = aw.Wait(context.Background()) // "reader error: EOF" when the source closes
		aw.Close()
		if af.ended {
			if *faulted {
				c.restoreLimit()
			}
			return true
		}
		if lagRd != nil {
			lagRd.Close()
		}
		if !*faulted {
			fail("aof writer ended before the source closed: offset %d of %d", af.off, af.end)
		}
		// refused write: run error, back-off, then the tool asks the cache where it is and the
		// source continues from there
		c.restoreLimit()
		c.faultEvent(prf.PhaseLogFail)
		// the writer is gone: whatever is reported valid now must be readable up to the reported
		// right edge, and not beyond it
		c.sweep("refused-write", g, []int64{*faultOff - 1, *faultOff - c.p.LogSize/3}, af.rng)
		ft = prf.Fault{}
		lag = false
		// either the full start-up bookkeeping (StartPoint(ids) re-scans the directory) or, for
		// half of the chains, the position the live cache itself reports (StartPoint(nil), no
		// re-scan - what a leader answers its followers with)
		ids := c.sourceIds(g)
		if c.fault(g).DelayUs%2 == 0 {
			ids = nil
		}
		sp, err := c.ch.StartPoint(ids)
		if err != nil {
			fail("StartPoint(after refused write): %v", err)
		}
		if sp.RunId != gen.RunId || prf.GenOf(sp.Offset) != g || sp.Offset < gen.L {
			return true // nothing usable left: a full sync of the next generation follows
		}
		if err := c.ch.SetRunId(gen.RunId); err != nil {
			fail("SetRunId: %v", err)
		}
		offset = sp.Offset
		if offset >= end { // keep something to append after the re-session
			end = offset + 2*c.p.LogSize
		}
	}
}

func main() {
	if len(os.Args) < 2 {
		fail("usage: child <params.json>")
	}
	b, err := os.ReadFile(os.Args[1])
	if err != nil {
		fail("%v", err)
	}
	c := &child{gcReq: make(chan struct{}, 1)}
	if err := json.Unmarshal(b, &c.p); err != nil {
		fail("%v", err)
	}
	if c.p.Procs > 0 {
		runtime.GOMAXPROCS(c.p.Procs)
	}
	no := false
	_ = log.InitLog(config.LogConfig{LevelStr: "fatal", Handler: config.LogHandlerConfig{StdOut: true}, Caller: &no, Func: &no})
	config.GetSyncerConfig().Channel = &config.ChannelConfig{}
	if c.shm, err = prf.OpenShm(c.p.Shm, false); err != nil {
		fail("%v", err)
	}
	signal.Ignore(syscall.SIGXFSZ)
	if err := syscall.Getrlimit(syscall.RLIMIT_FSIZE, &c.oldLim); err != nil {
		fail("getrlimit: %v", err)
	}
	session := c.shm.Add(prf.SlotSession, 1)
	c.rng = rand.New(rand.NewSource(c.p.Seed*1000003 + session))
	c.ch = syncer.NewStoreChannel(syncer.StorerConf{InputId: "c08", Dir: c.p.Dir, MaxSize: c.p.MaxSize, LogSize: c.p.LogSize}).(*syncer.StoreChannel)
	if c.p.GcConcurrent {
		go func() {
			for range c.gcReq {
				c.gcNow()
			}
		}()
	}

	next := 0
	goOn := true
	if c.p.Resume {
		// restart after a kill: the tool asks the cache where it is and continues there when the
		// source can (it can, inside the generation it is in), otherwise a full sync follows
		g := int(c.shm.Load(prf.SlotGen))
		sp, err := c.ch.StartPoint(c.sourceIds(g))
		if err != nil {
			fail("StartPoint(resume): %v", err)
		}
		gen := c.p.Gens[g]
		if c.shm.Load(prf.GenSlot(g, prf.GenStarted)) != 0 && sp.RunId == gen.RunId &&
			prf.GenOf(sp.Offset) == g && sp.Offset >= gen.L {
			if err := c.ch.SetRunId(gen.RunId); err != nil {
				fail("SetRunId: %v", err)
			}
			goOn = c.incrSyncLag(g, sp.Offset, true)
			next = g + 1
		} else {
			next = g
			if c.shm.Load(prf.GenSlot(g, prf.GenStarted)) != 0 {
				next = g + 1 // that snapshot is gone on the source; it offers a newer one
			}
			if next < len(c.p.Gens) {
				goOn = c.fullSync(next, true)
				next++
			}
		}
	}
	for g := next; goOn && g < len(c.p.Gens); g++ {
		goOn = c.fullSync(g, false)
	}
	c.phase(prf.PhaseDone)
	c.shm.Store(prf.SlotDone, 1)
	c.ch.Close()
}
