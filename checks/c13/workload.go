package main

import (
	"fmt"
	"math/rand"
	"strconv"
	"strings"
	"time"

	"verif/internal/fakeredis"
	"verif/internal/fullsync"
	"verif/internal/rdbx"

	"github.com/mgtv-tech/redis-GunYu/config"
	"github.com/mgtv-tech/redis-GunYu/pkg/redis/checkpoint"
)

// ---------------------------------------------------------------------------------------
// client scripts
// ---------------------------------------------------------------------------------------

// cmdSpec is one client command.  Kind: plain | lk-value | lk-key | lk-near-prefix | lk-txn-first | sentinel | conflict
type cmdSpec struct {
	Args []string // command name first
	ID   string
	Kind string
}

// opSpec is one client step: a plain command or a MULTI … EXEC block.
type opSpec struct {
	Txn  bool
	DB   int
	Cmds []cmdSpec
}

type idGen struct {
	site string
	n    int
}

func (g *idGen) next() string {
	g.n++
	return fmt.Sprintf("~%s.%d~", g.site, g.n)
}

// fakeMarkerJSON is a valid marker value as the tool writes it (used when no real one could be
// copied from the site's keyspace yet).
func fakeMarkerJSON(r *rand.Rand, runID string, rdb bool) string {
	m := checkpoint.BisyncMarker{Version: config.Version, RunID: runID, SyncerID: "127.0.0.1:6379", UnitSeq: int64(1 + r.Intn(50)),
		StartOffset: int64(1000 + r.Intn(5000)), EndOffset: int64(7000 + r.Intn(5000)), Slot: 0, Digest: fmt.Sprintf("%016x", r.Uint64())}
	if rdb {
		m.RecordType = "rdb"
	}
	s, _ := checkpoint.EncodeBisyncMarker(m)
	return s
}

// realMarkerJSON copies the value of a marker key a link wrote at the site ("" if none yet).
func realMarkerJSON(s *site) string {
	v := ""
	s.srv.With(func(dbs []fakeredis.DB) {
		for k, o := range dbs[0] {
			if checkpoint.IsBisyncMarkerKey(k) && o.Kind == fakeredis.KString {
				v = string(o.Str)
				return
			}
		}
	})
	return v
}

var restorePayload = func() string {
	t, vb, _ := rdbx.EncodeValue(rdbx.Value{Kind: rdbx.KindString, Str: []byte("restored-value")}, rdbx.Encoding{})
	return string(rdbx.DumpPayload(t, vb, 9))
}()

// genScript draws `n` steps for one client of site S.  Key families:
//
//	biz:S:…  own keys (only S's clients write them)          biz:X:… shared keys (both sites; only
//	tmp:S:…  keys the filter classes drop                     commands that cannot fail on the
//	biz:S:dN:… keys written in DB N                            other site's value)
//
// A key's name fixes its type, so a replayed command never meets a value of another type.
func genScript(r *rand.Rand, g *idGen, c loopCfg, n int) []opSpec {
	markerOf := func() string { return markerPlaceholder }
	S := g.site
	own := func(t string) string { return fmt.Sprintf("biz:%s:%s:%d", S, t, r.Intn(3)) }
	pickStr := func() string {
		switch x := r.Intn(10); {
		case x < 5:
			return own("s")
		case x < 8:
			return fmt.Sprintf("biz:X:s:%d", r.Intn(3))
		default:
			return fmt.Sprintf("tmp:%s:s:%d", S, r.Intn(2))
		}
	}
	val := func(id string) string { return id + "v" + strconv.Itoa(r.Intn(1000)) }

	// one (or two: create + operate) commands
	draw := func(db int) []cmdSpec {
		id := g.next()
		mk := func(args ...string) []cmdSpec { return []cmdSpec{{Args: args, ID: id, Kind: "plain"}} }
		if db != 0 {
			k := fmt.Sprintf("biz:%s:d%d:s:%d", S, db, r.Intn(2))
			switch r.Intn(3) {
			case 0:
				return mk("SET", k, val(id))
			case 1:
				return mk("SET", k, val(id), "PX", "900000")
			default:
				return mk("DEL", k, fmt.Sprintf("biz:%s:d%d:nokey:%s", S, db, id))
			}
		}
		switch r.Intn(30) {
		case 0, 1, 2:
			return mk("SET", pickStr(), val(id))
		case 3:
			return mk("SET", pickStr(), val(id), "PX", strconv.Itoa(600000+r.Intn(1000)))
		case 4:
			return mk("SET", pickStr(), val(id), "EX", "900")
		case 5:
			return mk("SETEX", pickStr(), "800", val(id))
		case 6:
			return mk("SET", pickStr(), val(id), "NX")
		case 7, 8:
			k := pickStr()
			return mk("DEL", k, k[:strings.LastIndex(k, ":")]+":nokey:"+id)
		case 9:
			// create (maybe) then EXPIRE a single-use key named after the EXPIRE's id
			id2 := g.next()
			k := fmt.Sprintf("biz:%s:e:%s", S, id2)
			exp := cmdSpec{Args: []string{[]string{"EXPIRE", "PEXPIRE"}[r.Intn(2)], k, "700000"}, ID: id2, Kind: "plain"}
			if r.Intn(4) == 0 {
				return []cmdSpec{exp} // key missing: a no-op at the origin
			}
			return []cmdSpec{{Args: []string{"SET", k, val(id)}, ID: id, Kind: "plain"}, exp}
		case 10:
			id2 := g.next()
			k := fmt.Sprintf("biz:%s:p:%s", S, id2)
			return []cmdSpec{{Args: []string{"SET", k, val(id), "PX", "500000"}, ID: id, Kind: "plain"}, {Args: []string{"PERSIST", k}, ID: id2, Kind: "plain"}}
		case 11, 12:
			k := []string{own("h"), fmt.Sprintf("biz:X:h:%d", r.Intn(2))}[r.Intn(2)]
			return mk("HSET", k, "f"+strconv.Itoa(r.Intn(4)), val(id))
		case 13:
			return mk("HDEL", own("h"), "f"+strconv.Itoa(r.Intn(4)), "nofield"+id)
		case 14:
			k := []string{own("t"), fmt.Sprintf("biz:X:t:%d", r.Intn(2))}[r.Intn(2)]
			return mk("SADD", k, val(id))
		case 15:
			return mk("SREM", own("t"), "nomember"+id)
		case 16:
			return mk([]string{"RPUSH", "LPUSH"}[r.Intn(2)], own("l"), val(id))
		case 17:
			id2 := g.next()
			k := fmt.Sprintf("biz:%s:lp:%s", S, id2)
			pop := cmdSpec{Args: []string{[]string{"LPOP", "RPOP"}[r.Intn(2)], k}, ID: id2, Kind: "plain"}
			if r.Intn(4) == 0 {
				return []cmdSpec{pop}
			}
			return []cmdSpec{{Args: []string{"RPUSH", k, val(id), "x"}, ID: id, Kind: "plain"}, pop}
		case 18:
			return mk("ZADD", own("z"), "1.5", val(id))
		case 19:
			return mk("INCRBY", fmt.Sprintf("biz:%s:n:%s", S, id), strconv.Itoa(1+r.Intn(9)))
		case 20:
			return mk("APPEND", own("a"), val(id))
		case 21:
			return mk("MSET", own("s"), "mv", own("s"), val(id))
		case 22, 23:
			return mk("XADD", own("st"), "*", "f", val(id))
		case 24:
			return mk("RESTORE", fmt.Sprintf("biz:%s:r:%s", S, id), strconv.Itoa(600000+r.Intn(1000)), restorePayload)
		case 25:
			return mk("RESTORE", fmt.Sprintf("biz:%s:r:%s", S, id), "0", restorePayload, "REPLACE")
		case 26:
			// value = a valid marker JSON (copied from a real marker when the site holds one)
			v := markerOf()
			return []cmdSpec{{Args: []string{"SET", fmt.Sprintf("biz:%s:lkv:%s", S, id), v}, ID: id, Kind: "lk-value"}}
		case 27:
			k := fmt.Sprintf("biz:%s:x:marker:{slot-0}:%s", S, id)
			if r.Intn(2) == 0 {
				k = fmt.Sprintf("biz:redis-gunyu-bisync:redis-gunyu-checkpoint-bisync:00ff:marker:{slot-0}:%s", id)
			}
			return []cmdSpec{{Args: []string{"SET", k, markerOf(), "PX", "86400000"}, ID: id, Kind: "lk-key"}}
		case 28:
			if c.Filter == "none" || c.Filter == "prefix-blacklist" || c.Filter == "cmd-blacklist" {
				// outside the reserved namespace: the reserved prefix ends with a colon
				return []cmdSpec{{Args: []string{"SET", fmt.Sprintf("redis-gunyu-bisyncX:cp:marker:{slot-0}:%s", id), markerOf()}, ID: id, Kind: "lk-near-prefix"}}
			}
			return mk("SET", own("s"), val(id))
		default:
			return mk("UNLINK", own("s"), fmt.Sprintf("biz:%s:s:nokey:%s", S, id))
		}
	}

	// bk: a NON-KEY argument that begins like a key of the tool's bookkeeping namespace, or that
	// looks like a marker value without being one, carrying the command's id
	bk := func(id string) string {
		switch r.Intn(9) {
		case 0:
			return "redis-gunyu-checkpoint-bisync:ab" + id
		case 1:
			return "redis-gunyu-bisync:redis-gunyu-checkpoint-bisync:00ff:marker:{slot-0}" + id
		case 2:
			return "redis-gunyu-bisync: see the runbook before touching these keys " + id
		case 3:
			return "redis-gunyu-checkpoint rotated by ops " + id
		case 4:
			return "redis-gunyu-checkpoint-hash" + id
		case 5:
			return "redis-gunyu-bisync:redis-gunyu-checkpoint-bisync:00ff:latest:{slot-0}" + id
		case 6:
			// a marker value followed by other bytes: not a marker
			return fakeMarkerJSON(r, strings.Repeat("c", 40), r.Intn(2) == 0) + id
		case 7:
			// decodes as a marker, but carries a field no marker has
			m := fakeMarkerJSON(r, strings.Repeat("c", 40), false)
			return m[:len(m)-1] + `,"note":"` + id + `"}`
		default:
			// cut short: not JSON at all
			m := fakeMarkerJSON(r, strings.Repeat("c", 40), false)
			return m[:len(m)/2] + id
		}
	}
	// drawArg: one command with an ordinary key whose value / member / element / field is bk(id)
	drawArg := func() cmdSpec {
		id := g.next()
		v := bk(id)
		str := []string{own("s"), fmt.Sprintf("biz:X:s:%d", r.Intn(3))}[r.Intn(2)]
		var args []string
		switch r.Intn(16) {
		case 0, 1:
			args = []string{"SET", str, v}
		case 2:
			args = []string{"SET", str, v, "PX", "700000"}
		case 3:
			args = []string{"SETEX", str, "800", v}
		case 4:
			args = []string{"SETNX", fmt.Sprintf("biz:%s:nx:%s", S, id), v}
		case 5:
			args = []string{"APPEND", own("a"), v}
		case 6:
			args = []string{"MSET", own("s"), "mv", own("s"), v}
		case 7, 8:
			args = []string{"SADD", []string{own("t"), fmt.Sprintf("biz:X:t:%d", r.Intn(2))}[r.Intn(2)], v}
		case 9:
			args = []string{[]string{"RPUSH", "LPUSH"}[r.Intn(2)], own("l"), v}
		case 10:
			args = []string{"RPUSH", own("l"), "x" + strconv.Itoa(r.Intn(9)), v}
		case 11:
			args = []string{"HSET", []string{own("h"), fmt.Sprintf("biz:X:h:%d", r.Intn(2))}[r.Intn(2)], "f" + strconv.Itoa(r.Intn(4)), v}
		case 12:
			args = []string{"HSET", own("h"), v, "hv" + strconv.Itoa(r.Intn(9))}
		case 13:
			args = []string{"ZADD", own("z"), "2.5", v}
		case 14:
			args = []string{"XADD", own("st"), "*", "f", v}
		default:
			args = []string{"XADD", own("st"), "*", v, "xv"}
		}
		return cmdSpec{Args: args, ID: id, Kind: "lk-arg-" + strings.ToLower(args[0])}
	}

	// mixed: a DEL / UNLINK / MSET naming accepted (biz:) and rejected (tmp:) keys; the filter
	// classes with a key filter must forward it restricted to the accepted keys.  The id sits in
	// an accepted argument, so it survives the projection.
	keyFilter := c.Filter == "prefix-whitelist" || c.Filter == "prefix-blacklist" || c.Filter == "whitelist+cmd-blacklist"
	acc := func() string {
		if r.Intn(3) == 0 {
			return fmt.Sprintf("biz:X:s:%d", r.Intn(3))
		}
		return own("s")
	}
	rej := func() string { return fmt.Sprintf("tmp:%s:s:%d", S, r.Intn(3)) }
	mixed := func(kind int) cmdSpec {
		id := g.next()
		idk := fmt.Sprintf("biz:%s:s:nokey:%s", S, id)
		var args []string
		switch kind % 3 {
		case 0: // MSET first: it creates the keys the DEL / UNLINK next to it remove
			args = []string{"MSET", acc(), "mv" + strconv.Itoa(r.Intn(99)), rej(), "x"}
			if r.Intn(2) == 0 {
				args = append(args, rej(), "y")
			}
			args = append(args, acc(), val(id))
			if r.Intn(3) == 0 { // a rejected pair at the end as well
				args = append(args, rej(), "z")
			}
		case 1:
			args = []string{"DEL"}
			if r.Intn(2) == 0 {
				args = append(args, rej())
			}
			args = append(args, acc(), rej(), idk)
			if r.Intn(2) == 0 {
				args = append(args, acc())
			}
		default:
			args = []string{"UNLINK", acc(), rej(), acc(), idk, rej()}
		}
		return cmdSpec{Args: args, ID: id, Kind: "mixed-keys-" + strings.ToLower(args[0])}
	}

	var ops []opSpec
	db := 0
	for len(ops) < n {
		if keyFilter && r.Intn(6) == 0 {
			db = 0
			k0 := r.Intn(3)
			if r.Intn(2) == 0 {
				// two or three of them inside one client MULTI/EXEC
				op := opSpec{Txn: true, DB: 0}
				for j, m := 0, 2+r.Intn(2); j < m; j++ {
					op.Cmds = append(op.Cmds, mixed(k0+j*(1+r.Intn(2))))
				}
				ops = append(ops, op)
			} else {
				// stand-alone, back to back
				for j, m := 0, 2+r.Intn(2); j < m; j++ {
					ops = append(ops, opSpec{DB: 0, Cmds: []cmdSpec{mixed(k0 + j)}})
				}
			}
			continue
		}
		if r.Intn(7) == 0 {
			db = r.Intn(4) // databases 1..3 move the site's replication stream out of the links' database
		}
		switch x := r.Intn(13); {
		case x == 10:
			// stand-alone
			db = 0
			ops = append(ops, opSpec{DB: 0, Cmds: []cmdSpec{drawArg()}})
		case x == 11:
			// a MULTI/EXEC with ONE effective command (a Redis ≥ 7 master propagates it bare),
			// sometimes next to a command that changes nothing
			db = 0
			op := opSpec{Txn: true, DB: 0}
			cs := drawArg()
			cs.Kind += "-single-txn"
			if r.Intn(2) == 0 {
				nid := g.next()
				op.Cmds = append(op.Cmds, cmdSpec{Args: []string{"DEL", fmt.Sprintf("biz:%s:never:%s", S, nid)}, ID: nid, Kind: "plain"})
			}
			op.Cmds = append(op.Cmds, cs)
			ops = append(ops, op)
		case x == 12:
			// inside an ordinary transaction
			db = 0
			op := opSpec{Txn: true, DB: 0}
			op.Cmds = append(op.Cmds, draw(0)...)
			cs := drawArg()
			cs.Kind += "-txn"
			op.Cmds = append(op.Cmds, cs)
			ops = append(ops, op)
		case x < 6:
			for _, cs := range draw(db) {
				ops = append(ops, opSpec{DB: db, Cmds: []cmdSpec{cs}})
			}
		case x < 9:
			op := opSpec{Txn: true, DB: db}
			for k := 1 + r.Intn(3); k > 0; k-- {
				op.Cmds = append(op.Cmds, draw(db)...)
			}
			ops = append(ops, op)
		default:
			// a client transaction whose FIRST command is a SET of a marker look-alike key with a
			// marker value, followed by ordinary writes
			id := g.next()
			op := opSpec{Txn: true, DB: 0}
			db = 0
			op.Cmds = append(op.Cmds, cmdSpec{Args: []string{"SET", fmt.Sprintf("biz:%s:y:marker:{slot-0}:%s", S, id), markerOf(), "PX", "86400000"}, ID: id, Kind: "lk-txn-first"})
			for _, cs := range draw(0) {
				cs.Kind = "lk-txn-member"
				op.Cmds = append(op.Cmds, cs)
			}
			ops = append(ops, op)
		}
	}
	return ops
}

// markerPlaceholder is replaced, when the command is issued, by a marker value: a real one copied
// from the site's keyspace if a link has written one by then, a well-formed synthetic one otherwise.
const markerPlaceholder = "\x00MARKER-VALUE\x00"

// issued is what a harness client did.
type issued struct {
	Client string
	Op     opSpec
	Errs   []string // error replies (a no-op is not an error)
}

// runOps plays a script over one connection.
func runOps(cl *client, ops []opSpec, r *rand.Rand, markerOf func() string) ([]issued, error) {
	var out []issued
	for _, op := range ops {
		for ci := range op.Cmds {
			for ai, a := range op.Cmds[ci].Args {
				if a == markerPlaceholder {
					args := append([]string{}, op.Cmds[ci].Args...)
					args[ai] = markerOf()
					op.Cmds[ci].Args = args
				}
			}
		}
		if op.DB != cl.db {
			if _, err := cl.do("SELECT", strconv.Itoa(op.DB)); err != nil {
				return out, err
			}
			cl.db = op.DB
		}
		is := issued{Client: cl.name, Op: op}
		if op.Txn {
			if _, err := cl.do("MULTI"); err != nil {
				return out, err
			}
			for _, cs := range op.Cmds {
				rp, err := cl.do(cs.Args...)
				if err != nil {
					return out, err
				}
				if e, ok := rp.(respErr); ok {
					is.Errs = append(is.Errs, cs.Args[0]+": "+string(e))
				}
			}
			rp, err := cl.do("EXEC")
			if err != nil {
				return out, err
			}
			if arr, ok := rp.([]any); ok {
				for i, x := range arr {
					if e, ok := x.(respErr); ok {
						is.Errs = append(is.Errs, op.Cmds[i].Args[0]+": "+string(e))
					}
				}
			} else {
				is.Errs = append(is.Errs, fmt.Sprintf("EXEC: %v", rp))
			}
		} else {
			rp, err := cl.do(op.Cmds[0].Args...)
			if err != nil {
				return out, err
			}
			if e, ok := rp.(respErr); ok {
				is.Errs = append(is.Errs, op.Cmds[0].Args[0]+": "+string(e))
			}
		}
		out = append(out, is)
		switch r.Intn(6) {
		case 0:
			time.Sleep(time.Duration(r.Intn(400)) * time.Microsecond)
		case 1:
			time.Sleep(time.Duration(1+r.Intn(3)) * time.Millisecond)
		}
	}
	return out, nil
}

// ---------------------------------------------------------------------------------------
// datasets and snapshots
// ---------------------------------------------------------------------------------------

// genDataset: the keys site S holds before anything starts (ids ~Ssnap.N~ in the key names).
func genDataset(r *rand.Rand, S string, nowMs int64) []rdbx.Key {
	var keys []rdbx.Key
	n := 5 + r.Intn(5)
	for i := 0; i < n; i++ {
		id := fmt.Sprintf("~%ssnap.%d~", S, i)
		prefix := "biz:"
		if r.Intn(4) == 0 {
			prefix = "tmp:"
		}
		k := rdbx.Key{DB: 0}
		if r.Intn(3) == 0 {
			k.ExpireAtMs = nowMs + int64(3_600_000+r.Intn(100000))
		}
		e := func(j int) []byte { return []byte(fmt.Sprintf("e%d-%d", i, j)) }
		switch r.Intn(5) {
		case 0:
			k.Key = []byte(fmt.Sprintf("%s%s:snap:s:%s", prefix, S, id))
			k.Value = rdbx.Value{Kind: rdbx.KindString, Str: []byte(fmt.Sprintf("snapshot-value-%d", i))}
			k.Enc.Type = rdbx.TypeString
		case 1:
			k.Key = []byte(fmt.Sprintf("%s%s:snap:l:%s", prefix, S, id))
			k.Value = rdbx.Value{Kind: rdbx.KindList, List: [][]byte{e(0), e(1), e(2)}}
			k.Enc.Type = rdbx.TypeQuicklist
		case 2:
			k.Key = []byte(fmt.Sprintf("%s%s:snap:h:%s", prefix, S, id))
			k.Value = rdbx.Value{Kind: rdbx.KindHash, Hash: [][2][]byte{{e(0), e(1)}, {e(2), e(3)}}}
			if r.Intn(2) == 0 {
				// a "big" hash: with the chunk threshold lowered to 512 bytes (main) the tool replays it
				// in 3-6 pieces (the value-splitting path of the snapshot phase, expanded replay only)
				for j := 4; j < 44+r.Intn(40); j += 2 {
					k.Value.Hash = append(k.Value.Hash, [2][]byte{e(j), []byte(fmt.Sprintf("e%d-%d-%s", i, j+1, strings.Repeat("x", 24)))})
				}
			}
			k.Enc.Type = rdbx.TypeHash
		case 3:
			k.Key = []byte(fmt.Sprintf("%s%s:snap:t:%s", prefix, S, id))
			k.Value = rdbx.Value{Kind: rdbx.KindSet, Set: [][]byte{e(0), e(1)}}
			k.Enc.Type = rdbx.TypeSet
		default:
			k.Key = []byte(fmt.Sprintf("%s%s:snap:z:%s", prefix, S, id))
			k.Value = rdbx.Value{Kind: rdbx.KindZSet, ZSet: []rdbx.ZMember{{Member: e(0), Score: 1}, {Member: e(1), Score: 2.5}}}
			k.Enc.Type = rdbx.TypeZSet2
		}
		keys = append(keys, k)
	}
	return keys
}

func loadDataset(s *site, keys []rdbx.Key) {
	dbs := make([]fakeredis.DB, fakeredis.NumDBs)
	for i := range dbs {
		dbs[i] = fakeredis.DB{}
	}
	for _, k := range keys {
		dbs[k.DB][string(k.Key)] = fullsync.ToObj(k.Value, k.ExpireAtMs)
	}
	s.srv.Load(dbs)
}

func encodeSnapshot(keys []rdbx.Key) []byte {
	file, _ := rdbx.EncodeFile(keys, rdbx.FileOptions{Version: 9})
	return file
}

// snapshotOf serialises the site's CURRENT dataset (all kinds the workload creates except
// streams, which the workload keeps out of snapshots taken mid-run) together with the offset of
// its propagation stream at that instant.
func snapshotOf(s *site) ([]byte, int64, []string) {
	var keys []rdbx.Key
	var off int64
	var skipped []string
	s.srv.With(func(dbs []fakeredis.DB) {
		off = s.prop.End()
		s.prop.ReplicaAttached() // a replica attaching for a full sync: the master's slaveseldb becomes -1
		for db, d := range dbs {
			for name, o := range d {
				k := rdbx.Key{DB: db, Key: []byte(name), ExpireAtMs: o.ExpireAt}
				switch o.Kind {
				case fakeredis.KString:
					k.Value = rdbx.Value{Kind: rdbx.KindString, Str: o.Str}
					k.Enc.Type = rdbx.TypeString
				case fakeredis.KList:
					k.Value = rdbx.Value{Kind: rdbx.KindList, List: o.List}
					k.Enc.Type = rdbx.TypeQuicklist
				case fakeredis.KHash:
					v := rdbx.Value{Kind: rdbx.KindHash}
					for f, x := range o.Hash {
						v.Hash = append(v.Hash, [2][]byte{[]byte(f), x})
					}
					k.Value = v
					k.Enc.Type = rdbx.TypeHash
				case fakeredis.KSet:
					v := rdbx.Value{Kind: rdbx.KindSet}
					for m := range o.Set {
						v.Set = append(v.Set, []byte(m))
					}
					k.Value = v
					k.Enc.Type = rdbx.TypeSet
				case fakeredis.KZSet:
					v := rdbx.Value{Kind: rdbx.KindZSet}
					for m, sc := range o.ZSet {
						v.ZSet = append(v.ZSet, rdbx.ZMember{Member: []byte(m), Score: sc})
					}
					k.Value = v
					k.Enc.Type = rdbx.TypeZSet2
				default:
					skipped = append(skipped, name)
					continue
				}
				keys = append(keys, k)
			}
		}
	})
	// group by DB (EncodeFile emits SELECTDB on change)
	var ordered []rdbx.Key
	for db := 0; db < fakeredis.NumDBs; db++ {
		for _, k := range keys {
			if k.DB == db {
				ordered = append(ordered, k)
			}
		}
	}
	return encodeSnapshot(ordered), off, skipped
}
