package main

import (
	"context"
	"fmt"
	"strconv"
	"strings"
	"time"

	"verif/internal/drive"
	"verif/internal/fakeredis"
	"verif/internal/harness"

	"github.com/mgtv-tech/redis-GunYu/config"
	"github.com/mgtv-tech/redis-GunYu/pkg/redis/checkpoint"
)

// Directed cases: the marker key of a link has expired at the target (24 h TTL: a cold slot, an
// idle link) and lingers until the link's next unit re-SETs it.  The target's master then
// propagates the lazy-expiry deletion in front of the command that found the key expired, inside
// the unit's transaction:
//
//	MULTI / DEL|UNLINK <marker> / SET <marker> <json> PXAT … / <business> / <record> [/ ZADD index] / EXEC
//
// (DEL, or UNLINK with lazyfree-lazy-expire).  The opposite link must still recognise its
// peer's unit: it forwards NOTHING of that transaction.  The double does not model lazy expiry, so
// the shape is injected into site B's replication stream (Propagation.AppendUnit) as a copy of
// the last real transaction link A→B wrote at B, with a fresh business command of origin A.
type expiryCase struct {
	Form   string // del | unlink
	Mode   config.ReplayMode
	Filter string
}

func (x expiryCase) key() string { return fmt.Sprintf("expiry-%s-%s-%s", x.Form, x.Mode, x.Filter) }

func markerExpiryCases(run *harness.Run) {
	var cases []expiryCase
	// bare-marker / marker-only: a snapshot-phase unit (marker + business, no record) whose business
	// commands had no effect at the target (the key appeared there between the existence probe and
	// the unit, RESTORE answered BUSYKEY, SADD of members that are all there): the target's master
	// propagates the marker alone - from Redis 7 on without MULTI/EXEC, a one-command unit.
	for _, form := range []string{"del", "unlink", "bare-marker", "marker-only"} {
		for _, m := range modes {
			for _, f := range []string{"none", "prefix-whitelist"} {
				cases = append(cases, expiryCase{Form: form, Mode: m, Filter: f})
			}
		}
	}
	harness.Parallel(len(cases), 6, func(i int) {
		if run.WantCase(cases[i].key()) {
			oneExpiryCase(run, cases[i])
		}
	})
}

func oneExpiryCase(run *harness.Run, x expiryCase) {
	key := x.key()
	r := run.Rand(key)
	c := loopCfg{Mode: x.Mode, Window: []uint{1, 4, 100}[r.Intn(3)], Filter: x.Filter, Restore: true, Version: []string{"7.2.0", "6.2.6"}[r.Intn(2)], BufSize: 4096}
	A := newSite("A", c.Version, fmt.Sprintf("a%039x", r.Uint64()), int64(1000+r.Intn(1000)), 0)
	B := newSite("B", c.Version, fmt.Sprintf("b%039x", r.Uint64()), int64(1000+r.Intn(1000)), 0)
	defer A.srv.Close()
	defer B.srv.Close()
	ctx, cancel := context.WithCancel(context.Background())
	defer cancel()
	lAB, lBA := newLink(A, B), newLink(B, A)
	links, sites := []*link{lAB, lBA}, []*site{A, B}
	baseA, baseB := A.prop.Base(), B.prop.Base()
	lAB.start(ctx, c, func() ([]byte, int64) { return drive.EmptyRDB, baseA })
	lBA.start(ctx, c, func() ([]byte, int64) { return drive.EmptyRDB, baseB })
	defer func() {
		for _, l := range links {
			l.stop(20 * time.Second)
		}
	}()
	report := func(s string) {
		if x.Form == "del" && x.Mode == config.ReplayModeSync && x.Filter == "none" {
			run.Set("probe_lazy_expire_del_before_marker", s)
		}
	}
	skip := func(why string) {
		report("not judged: " + why)
		run.Inconclusive("%s: %s [%s]", key, why, c.String())
	}
	ca, err := dial(A.srv.Addr(), "Actl")
	if err != nil {
		skip(err.Error())
		return
	}
	defer ca.close()
	cb, err := dial(B.srv.Addr(), "Bctl")
	if err != nil {
		skip(err.Error())
		return
	}
	defer cb.close()
	for _, l := range links {
		if why := waitFor(l.ready, links, sites, "link "+l.name); why != "" {
			skip(why)
			return
		}
	}
	// two ordinary writes first: the second unit's transaction is the template
	for i := 1; i <= 2; i++ {
		id := fmt.Sprintf("~A.%d~", i)
		if _, err := ca.do("SET", "biz:A:s:0", id+"v"); err != nil {
			skip(err.Error())
			return
		}
		if why := waitFor(B.appliedByLink(id), links, sites, "write "+id+" at B"); why != "" {
			skip(why)
			return
		}
	}
	harn := B.harnessConns()
	apps := B.srv.Applied()
	var last int64
	for i := range apps {
		if _, h := harn[apps[i].Conn]; !h && apps[i].Txn != 0 && lastID(apps[i].Args) == "~A.2~" {
			last = apps[i].Txn
		}
	}
	var marker *fakeredis.App
	var tail [][][]byte // the unit's own bookkeeping behind the business commands (record [, index])
	for i := range apps {
		a := &apps[i]
		if a.Txn != last || last == 0 || len(a.Args) == 0 {
			continue
		}
		switch {
		case a.Cmd == "SET" && checkpoint.IsBisyncMarkerKey(string(a.Args[0])):
			marker = a
		case touchesReserved(a.Cmd, a.Args):
			tail = append(tail, append([][]byte{[]byte(a.Cmd)}, a.Args...))
		}
	}
	if marker == nil || len(tail) == 0 {
		skip("no transaction of link A→B found at B")
		return
	}
	pxat := strconv.FormatInt(time.Now().Add(24*time.Hour).UnixMilli(), 10)
	probeID := "~A.3~"
	unit := [][][]byte{
		{[]byte(strings.ToUpper(x.Form)), marker.Args[0]},
		{[]byte("SET"), marker.Args[0], marker.Args[1], []byte("PXAT"), []byte(pxat)},
		{[]byte("SET"), []byte("biz:A:s:1"), []byte(probeID + "v")},
	}
	unit = append(unit, tail...)
	wrapped := true
	if x.Form == "bare-marker" || x.Form == "marker-only" {
		unit = [][][]byte{{[]byte("SET"), marker.Args[0], marker.Args[1], []byte("PXAT"), []byte(pxat)}}
		wrapped = x.Form == "marker-only"
	}
	B.prop.AppendUnit(0, 9999, unit, wrapped)
	// flush: a client write at B, behind the injected transaction in B's stream
	if _, err := cb.do("SET", "biz:sen:B", "~Bsen.1~"); err != nil {
		skip(err.Error())
		return
	}
	why := waitFor(A.appliedByLink("~Bsen.1~"), links, sites, "the flush sentinel at A")
	var got []string
	harnA := A.harnessConns()
	cpAB := string(marker.Args[0])
	if i := strings.Index(cpAB, ":marker:{"); i > 0 {
		cpAB = cpAB[:i+1] // redis-gunyu-bisync:<namespace of link A→B>:
	}
	appsA := A.srv.Applied()
	for i := range appsA {
		a := &appsA[i]
		if _, h := harnA[a.Conn]; h || !a.Write {
			continue
		}
		own := lastID(a.Args) == probeID
		for _, k := range keysOf(a.Cmd, a.Args) {
			if strings.HasPrefix(string(k), cpAB) {
				own = true
			}
		}
		if own {
			got = append(got, appStr(a))
		}
	}
	run.Eval(1)
	run.Count("marker_expiry_cases", 1)
	switch {
	case len(got) > 0:
		report("NOT recognised as mirrored: link B→A forwarded the transaction to A")
		var inj []string
		for _, cmd := range unit {
			inj = append(inj, argStrs(string(cmd[0]), cmd[1:]))
		}
		if !wrapped || x.Form == "marker-only" {
			run.Violation(fmt.Sprintf("echo|marker-of-the-peer-link-sent-back|%s|mode=%s|filter=%s", x.Form, x.Mode, x.Filter), key,
				"site A: link B→A executed bookkeeping of link A→B at A: the marker of a snapshot unit whose business commands had no effect at B is propagated alone (without MULTI/EXEC from Redis 7 on) and must be dropped like every other stand-alone command in the reserved namespace",
				map[string]any{"config": c.String(), "injected_into_stream_of_B": inj, "wrapped_in_MULTI_EXEC": wrapped, "executed_at_A_by_link_B→A": got})
			return
		}
		run.Violation(fmt.Sprintf("echo|own-unit-behind-marker-expiry-deletion|%s|mode=%s|filter=%s", x.Form, x.Mode, x.Filter), key,
			fmt.Sprintf("site A: link B→A executed commands of a transaction link A→B had written at B: the %s of the expired marker key in front of the marker SET hid the mirrored transaction, its business command of origin A came back to A", strings.ToUpper(x.Form)),
			map[string]any{"config": c.String(), "injected_into_stream_of_B": append(append([]string{"MULTI"}, inj...), "EXEC"), "executed_at_A_by_link_B→A": got})
	case why != "":
		skip(why)
	default:
		report("recognised: link B→A suppressed the transaction (nothing of it was executed at A)")
		run.Count("marker_expiry_cases_recognised", 1)
		run.Distinct(fmt.Sprintf("marker-expiry|%s|%s|%s|held", x.Form, x.Mode, x.Filter))
	}
}
