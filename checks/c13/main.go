// C13 — bidirectional sync never echoes its own writes nor swallows foreign ones.
//
// Two site doubles A and B, each a TARGET and a SOURCE: every command executed on a double is
// turned by the double's propagation module into the replication stream a master would emit
// (SELECT on DB change, MULTI … EXEC around a transaction's effective writes, absolute-expiry
// rewrites, no-op omission, XADD ids made explicit) and that stream is served LIVE to the link of
// the opposite direction.  Two real syncer.RedisOutput with bisyncEnabled (A→B and B→A), each
// started through syncer.VerifNewOutput (= syncer.newOutput: run-id lookup on the source double,
// bisync namespace creation, UpdateCheckpoint) and driven with the protocol of RedisInput.run():
// StartPoint → Send(snapshot reader: empty snapshot, or the dataset site A starts with) →
// StartPoint → Send(live log reader at the returned offset).
//
// Harness clients (own TCP connections, named with CLIENT SETNAME) issue plain and MULTI writes
// at both sites concurrently; every command carries an origin id ~A.n~ / ~B.n~.
//
// Oracle (DESIGN C13): (i) no echo — no business command of origin X is executed at X by a link
// connection, no key of the opposite link's bookkeeping namespace is written at X; (ii) exactly
// once — every propagated, unfiltered client write of Y is executed by the link at X exactly once,
// with the arguments Y propagated, in Y's per-key order; (iii) no swallowing — the same for
// commands/transactions that merely look like markers outside the reserved namespace; (iv)
// quiescence — two-phase sentinels make (i)–(iii) conclusive, then K=3 further sentinel rounds
// must not see a link write any business command but the sentinels.
package main

import (
	"context"
	"fmt"
	"math/rand"
	"os"
	"sort"
	"strings"
	"sync"
	"time"

	"verif/internal/drive"
	"verif/internal/fakeredis"
	"verif/internal/harness"
	"verif/internal/rdbx"

	"github.com/mgtv-tech/redis-GunYu/config"
	"github.com/mgtv-tech/redis-GunYu/pkg/rdb"
)

const (
	waitWatch   = 25 * time.Second // wall-clock watchdog of every blocking wait (firing = inconclusive)
	quietRounds = 3
	idleRounds  = 2 // heartbeat-only rounds after the quiet rounds, closed by one flush sentinel round
)

var modes = []config.ReplayMode{config.ReplayModeSync, config.ReplayModePipeline, config.ReplayModeParallel}
var filters = []string{"none", "prefix-whitelist", "prefix-blacklist", "whitelist+cmd-blacklist", "cmd-blacklist"}

func genLoopCfg(r *rand.Rand, i int) loopCfg {
	c := loopCfg{Mode: modes[i%3], Filter: filters[(i/3)%len(filters)]}
	c.Window = []uint{1, 4, 100}[r.Intn(3)]
	c.Snapshot = r.Intn(2) == 0
	c.Restore = r.Intn(4) != 0
	c.Version = []string{"7.2.0", "7.2.0", "6.2.6"}[r.Intn(3)]
	c.BufSize = []int{16, 128, 4096}[r.Intn(3)]
	c.Conflict = r.Intn(3) != 0
	// half of the loops run without any restart (the statement's "absent restarts")
	if r.Intn(2) == 0 {
		ev := func() string { return []string{"", "orderly", "lost-reply", "orderly"}[r.Intn(4)] }
		c.EventAB, c.EventBA = ev(), ev()
		c.EventK = 1 + r.Intn(4)
	}
	c.LateReverse = r.Intn(5) == 0
	c.Clients = 2 + r.Intn(2)
	c.OpsPerClient = []int{8, 12, 18}[r.Intn(3)]
	c.KeyExists = "replace"
	if c.Snapshot {
		switch r.Intn(6) {
		case 0, 1:
			c.Preload, c.KeyExists = true, "ignore"
		case 2:
			c.Preload = true
		}
	}
	return c
}

func main() {
	drive.Quiet()
	// values above 512 bytes are replayed in pieces (hook; the tool's threshold is 16 MiB): half of
	// the snapshot hashes are that big
	rdb.VerifSetMaxBinEntryBuffer(512)
	run := harness.New("C13", "exploration",
		"loop = PRNG(seed,i) → (replay mode by i mod 3, filter class by (i div 3) mod 5, window, snapshot phase yes/no with RESTORE or expanded replay, Redis version of the doubles (single-write "+
			"transactions unwrapped from 7 on), reader buffer, replication-lag window with conflicting writes, reverse link started late from a snapshot of B, per-link restart event: none / orderly stop after k units committed since the last frontier write / lost reply of the k-th EXEC, each followed by a restart through syncer.newOutput + StartPoint) + client scripts of ≈60–170 id-carrying writes "+
			"(plain / MULTI / marker look-alikes in key, value and every other non-key argument, stand-alone, in transactions and in single-write transactions) issued concurrently over 4–6 connections; distinct = (mode, phases, filter class, rewrite kinds and no-op shrink shapes seen in the mirrored traffic, outcome)")
	run.Watchdog(100 * time.Minute)
	run.Assume("the double's propagation module emits what a Redis master would (fakeredis/role_propagate.go: SELECT, MULTI/EXEC wrapping per version, PXAT/PEXPIREAT/ABSTTL/XADD-id rewrites, no-op omission); lazy-expiry DELs are not modelled, TTLs are kept far in the future")
	run.Assume("both sites standalone: one lane per link, links execute their stream in order; 'applied' = executed by a link connection (every connection that is not one of the harness' own named connections)")
	run.Assume("the two sites only write shared keys with commands that cannot fail on the other site's value (bisync does not arbitrate conflicts); the statement's 'absent restarts' holds: no link is restarted")
	run.Assume("in bisync mode the tool replays every source database into database 0 of the target (dispatchBisyncUnit never selects a database); writes the clients make in databases 1..3 are foreign writes judged on exactly-once like any other, the database they land in is not judged; they also move the site's replication stream out of database 0, so that the links' transactions are propagated with a SELECT (inside the MULTI for the Redis ≥ 7 model, before it for 6.2)")
	run.Assume("link restarts (half of the loops): the old incarnation's connections are allowed to drain before the next start-up reads the resume position; repeats of units after a restart are legal in pipeline/parallel mode (counted), a violation in sync mode and whenever no restart lies between the two executions")
	run.MinDistinct(6)

	n := run.N(720, 7200)
	harness.Parallel(n, 8, func(i int) {
		key := fmt.Sprintf("loop-%d", i)
		if !run.WantCase(key) {
			return
		}
		r := run.Rand(key)
		oneLoop(run, key, r, genLoopCfg(r, i))
	})
	markerExpiryCases(run)
	// a run that observed nothing proves nothing
	if run.Replaying() {
		run.Exit()
	}
	if run.Counter("loops_conclusive_after_S2") == 0 {
		run.Inconclusive("no loop reached the point where both S2 sentinels had crossed")
	}
	if run.Counter("mirrored_txn_in_stream|A")+run.Counter("mirrored_txn_in_stream|B") == 0 {
		run.Inconclusive("no mirrored transaction ever appeared in a site's replication stream")
	}
	run.Set("sentinel_rounds_to_quiescence_per_loop", 2)
	run.Set("quiet_rounds_required_per_loop", quietRounds)
	run.Exit()
}

// waitFor waits for ch (a logical event); it gives up when a link died, an echo was seen
// (nothing more to learn: the loop is judged on what happened) or the watchdog fired.
func waitFor(ch <-chan struct{}, links []*link, sites []*site, what string) string {
	t := time.NewTimer(waitWatch)
	defer t.Stop()
	tick := time.NewTicker(5 * time.Millisecond)
	defer tick.Stop()
	var dead0, dead1 <-chan struct{}
	if len(links) > 0 {
		dead0 = links[0].done
	}
	if len(links) > 1 {
		dead1 = links[1].done
	}
	for {
		select {
		case <-ch:
			return ""
		case <-dead0:
			return "link " + links[0].name + " ended while waiting for " + what
		case <-dead1:
			return "link " + links[1].name + " ended while waiting for " + what
		case <-tick.C:
			for _, s := range sites {
				if s.echoSeen.Load() {
					return "echo seen at site " + s.name + " while waiting for " + what
				}
			}
		case <-t.C:
			return "watchdog: " + what
		}
	}
}

func oneLoop(run *harness.Run, key string, r *rand.Rand, c loopCfg) {
	now := time.Now().UnixMilli()
	A := newSite("A", c.Version, fmt.Sprintf("a%039x", r.Uint64()), int64(1000+r.Intn(100000)), 0)
	B := newSite("B", c.Version, fmt.Sprintf("b%039x", r.Uint64()), int64(1000+r.Intn(100000)), 0)
	defer A.srv.Close()
	defer B.srv.Close()
	env := &loopEnv{key: key, cfg: c, sites: map[string]*site{"A": A, "B": B}, dataset: map[string][]rdbx.Key{}, lateSnapOff: -1,
		issued: map[string][]issued{}, snapDone: map[string]bool{}, preloaded: map[string]bool{}, quietFrom: map[string]int{}, idleMarks: map[string][]int{}}

	A.snapshotCopiesOwn = c.LateReverse // set before any traffic; read by A's hooks only
	snapA := drive.EmptyRDB
	if c.Snapshot {
		env.dataset["A"] = genDataset(r, "A", now)
		loadDataset(A, env.dataset["A"])
		snapA = encodeSnapshot(env.dataset["A"])
		if c.Preload {
			var pre []rdbx.Key
			for i, k := range env.dataset["A"] {
				if i%2 == 0 {
					pre = append(pre, k)
					env.preloaded[lastID([][]byte{k.Key})] = true
				}
			}
			loadDataset(B, pre)
			run.Count("loops_with_snapshot_keys_already_at_the_peer|keyExists="+c.KeyExists, 1)
		}
	}

	ctx, cancelAll := context.WithCancel(context.Background())
	defer cancelAll()
	lAB, lBA := newLink(A, B), newLink(B, A)
	B.srv.With(func([]fakeredis.DB) { B.inLink = lAB })
	A.srv.With(func([]fakeredis.DB) { A.inLink = lBA })
	env.links = map[string]*link{"A": lBA, "B": lAB} // by destination site
	links := []*link{lAB, lBA}
	sites := []*site{A, B}
	baseA, baseB := A.prop.Base(), B.prop.Base()
	lAB.start(ctx, c, func() ([]byte, int64) { return snapA, baseA })
	startBA := func() {
		if c.LateReverse {
			lBA.start(ctx, c, func() ([]byte, int64) {
				b, off, _ := snapshotOf(B)
				env.lateSnapOff = off
				return b, off
			})
			return
		}
		lBA.start(ctx, c, func() ([]byte, int64) { return drive.EmptyRDB, baseB })
	}
	if !c.LateReverse {
		startBA()
	}

	// ---- the masters' periodic PING while the applications are active (repl-ping-replica-period,
	// scaled down); during the sentinel phase the heartbeat is driven round by round
	hbStop := make(chan struct{})
	var hbOnce sync.Once
	var hbWG sync.WaitGroup
	stopHeartbeat := func() {
		hbOnce.Do(func() { close(hbStop) })
		hbWG.Wait()
	}
	defer stopHeartbeat()
	hbPeriod := time.Duration(2+run.Rand(key+"/heartbeat").Intn(4)) * time.Millisecond // own PRNG: (seed, case, role)
	hbWG.Add(1)
	go func() {
		defer hbWG.Done()
		t := time.NewTicker(hbPeriod)
		defer t.Stop()
		for {
			select {
			case <-hbStop:
				return
			case <-t.C:
				A.prop.AppendPing()
				B.prop.AppendPing()
			}
		}
	}()

	// ---- clients
	gens := map[string]*idGen{"A": {site: "A"}, "B": {site: "B"}}
	type cl struct {
		s      *site
		c      *client
		w1, w2 []opSpec
		r      *rand.Rand
	}
	var clients []*cl
	var mu sync.Mutex
	fail := func(format string, a ...any) {
		run.Inconclusive("%s: "+format, append([]any{key}, a...)...)
	}
	for _, s := range sites {
		for k := 0; k < c.Clients; k++ {
			c0, err := dial(s.srv.Addr(), fmt.Sprintf("%s%d", s.name, k))
			if err != nil {
				fail("dial %s: %v", s.name, err)
				return
			}
			defer c0.close()
			ops := genScript(r, gens[s.name], c, c.OpsPerClient+r.Intn(4))
			clients = append(clients, &cl{s: s, c: c0, w1: ops[:len(ops)/2], w2: ops[len(ops)/2:], r: run.Rand(fmt.Sprintf("%s/client/%s%d", key, s.name, k))})
		}
	}
	ctl := map[string]*client{}
	for _, s := range sites {
		c0, err := dial(s.srv.Addr(), s.name+"ctl")
		if err != nil {
			fail("dial %s: %v", s.name, err)
			return
		}
		defer c0.close()
		ctl[s.name] = c0
	}
	markerFor := func(s *site, rr *rand.Rand) func() string {
		return func() string {
			if v := realMarkerJSON(s); v != "" {
				run.Count("lookalike_values_copied_from_real_markers", 1)
				return v
			}
			return fakeMarkerJSON(rr, e2(s, sites).replid, rr.Intn(4) == 0)
		}
	}
	wave := func(pick func(*cl) []opSpec) bool {
		var wg sync.WaitGroup
		ok := true
		for _, x := range clients {
			x := x
			wg.Add(1)
			go func() {
				defer wg.Done()
				iss, err := runOps(x.c, pick(x), x.r, markerFor(x.s, x.r))
				mu.Lock()
				env.issued[x.s.name] = append(env.issued[x.s.name], iss...)
				if err != nil {
					ok = false
					fail("client %s: %v", x.c.name, err)
				}
				mu.Unlock()
			}()
		}
		wg.Wait()
		return ok
	}
	ctlDo := func(s *site, op opSpec) bool {
		iss, err := runOps(ctl[s.name], []opSpec{op}, r, nil)
		mu.Lock()
		env.issued[s.name] = append(env.issued[s.name], iss...)
		mu.Unlock()
		if err != nil {
			fail("control client %s: %v", s.name, err)
			return false
		}
		return true
	}
	stopAndJudge := func(why string) {
		env.aborted = why
		finish(run, env, links)
	}

	if !wave(func(x *cl) []opSpec { return x.w1 }) {
		stopAndJudge("client failure")
		return
	}
	if c.LateReverse {
		// the reverse link starts now, from a snapshot of what B holds at this moment — the data
		// mirrored from A and the bookkeeping keys of link A→B included
		if why := waitFor(lAB.ready, links[:1], sites, "link A→B to reach its incremental phase"); why != "" {
			stopAndJudge(why)
			return
		}
		startBA()
	}
	for _, l := range links {
		if why := waitFor(l.ready, links, sites, "link "+l.name+" to reach its incremental phase"); why != "" {
			stopAndJudge(why)
			return
		}
	}

	// ---- replication-lag window: both links hold, both sites write the same shared keys
	if c.Conflict {
		n := r.Intn(1000)
		k1, k2, k3 := fmt.Sprintf("biz:X:c1:%d", n), fmt.Sprintf("biz:X:c2:%d", n), fmt.Sprintf("biz:X:c3:%d", n)
		ga := gens["A"]
		prep := []string{k1, k2}
		var lastPrep string
		for _, k := range prep {
			id := ga.next()
			lastPrep = id
			if !ctlDo(A, opSpec{Cmds: []cmdSpec{{Args: []string{"SET", k, id + "prep"}, ID: id, Kind: "conflict"}}}) {
				stopAndJudge("client failure")
				return
			}
		}
		if why := waitFor(B.appliedByLink(lastPrep), links, sites, "the prepared shared keys to reach B"); why != "" {
			stopAndJudge(why)
			return
		}
		lAB.hold()
		lBA.hold()
		for _, s := range sites {
			g := gens[s.name]
			id1, id2, id3, id4 := g.next(), g.next(), g.next(), g.next()
			okc := ctlDo(s, opSpec{Cmds: []cmdSpec{{Args: []string{"DEL", k1, "biz:X:nokey:" + id1}, ID: id1, Kind: "conflict"}}}) &&
				ctlDo(s, opSpec{Cmds: []cmdSpec{{Args: []string{"SETNX", k3, id2 + "first"}, ID: id2, Kind: "conflict"}}}) &&
				ctlDo(s, opSpec{Txn: true, Cmds: []cmdSpec{
					{Args: []string{"DEL", k2, "biz:X:nokey:" + id3}, ID: id3, Kind: "conflict"},
					{Args: []string{"SET", fmt.Sprintf("biz:%s:s:0", s.name), id4 + "v"}, ID: id4, Kind: "conflict"}}})
			if !okc {
				lAB.release()
				lBA.release()
				stopAndJudge("client failure")
				return
			}
		}
		lAB.release()
		lBA.release()
		run.Count("lag_windows_with_conflicting_writes", 1)
	}

	// ---- restart / fault schedule: armed now, fires on logical events of the second wave
	arm := func(dst *site, ev string) {
		switch ev {
		case "orderly":
			dst.armRestart(c.EventK)
		case "lost-reply":
			dst.armFault(c.EventK)
		}
	}
	arm(B, c.EventAB)
	arm(A, c.EventBA)

	if !wave(func(x *cl) []opSpec { return x.w2 }) {
		stopAndJudge("client failure")
		return
	}

	// what has not fired by now stays off: the sentinel phase runs without new restarts (one that is
	// under way completes; the sentinels are delivered by the restarted link)
	A.disarm()
	B.disarm()

	// pipeline / parallel: the frontier coordinator flushes every 100 ms and then deletes the journal
	// records it covered with STAND-ALONE commands (DEL …:commit:…, ZREM …:index:…).  Give both
	// links the chance to do so before the sentinels, so that the opposite link meets those
	// bookkeeping commands in the stream while it is still judged.  Coverage only: no verdict
	// depends on the flush having happened.
	if c.Mode.UsesFrontier() {
		deadline := time.Now().Add(600 * time.Millisecond)
		for (A.gcSeen.Load() == 0 || B.gcSeen.Load() == 0) && time.Now().Before(deadline) && !A.echoSeen.Load() && !B.echoSeen.Load() {
			time.Sleep(5 * time.Millisecond)
		}
		if A.gcSeen.Load() > 0 && B.gcSeen.Load() > 0 {
			run.Count("loops_with_journal_cleanup_in_both_streams", 1)
		}
	}

	// ---- sentinels: S1, S2, then K quiet rounds.  Every round starts with the masters' heartbeat.
	stopHeartbeat()
	heartbeat := func() {
		A.prop.AppendPing()
		B.prop.AppendPing()
	}
	round := func(k int) string {
		heartbeat()
		ids := map[string]string{}
		for _, s := range sites {
			id := fmt.Sprintf("~%ssen.%d~", s.name, k)
			ids[s.name] = id
			if !ctlDo(s, opSpec{Cmds: []cmdSpec{{Args: []string{"SET", "biz:sen:" + s.name, id}, ID: id, Kind: "sentinel"}}}) {
				return "client failure"
			}
		}
		if why := waitFor(B.appliedByLink(ids["A"]), links, sites, fmt.Sprintf("sentinel %s at B", ids["A"])); why != "" {
			return why
		}
		if why := waitFor(A.appliedByLink(ids["B"]), links, sites, fmt.Sprintf("sentinel %s at A", ids["B"])); why != "" {
			return why
		}
		env.rounds = k
		return ""
	}
	for k := 1; k <= 2; k++ {
		if why := round(k); why != "" {
			stopAndJudge(why)
			return
		}
	}
	env.s2Reached = true
	for _, s := range sites {
		env.quietFrom[s.name] = len(s.srv.Applied())
	}
	for k := 3; k < 3+quietRounds; k++ {
		if why := round(k); why != "" {
			stopAndJudge(why)
			return
		}
		env.quietRounds++
	}
	// idle rounds: the applications are silent, the masters only send their PING; a link that
	// still forwards anything (an empty unit included) keeps the opposite link busy.  The flush
	// round makes every earlier stream item processed (in-order links), so what the idle rounds
	// produced has been executed when its sentinels have crossed.
	for i := 0; i <= idleRounds; i++ {
		for _, s := range sites {
			env.idleMarks[s.name] = append(env.idleMarks[s.name], len(s.srv.Applied()))
		}
		if i == idleRounds {
			break
		}
		heartbeat()
		A.waitLinkQuiet()
		B.waitLinkQuiet()
	}
	if why := round(3 + quietRounds); why != "" {
		stopAndJudge(why)
		return
	}
	env.idleDone = true
	finish(run, env, links)
}

func e2(s *site, sites []*site) *site {
	if sites[0] == s {
		return sites[1]
	}
	return sites[0]
}

// finish stops the links, runs the oracle and records the evidence of one loop.
func finish(run *harness.Run, env *loopEnv, links []*link) {
	c := env.cfg
	for _, l := range links {
		select {
		case <-l.snapOK:
			env.snapDone[l.name] = true
		default:
		}
	}
	// the oracle's view ends here, before the links are told to stop
	for _, S := range []string{"A", "B"} {
		env.sites[S].freeze()
	}
	for _, l := range links {
		if l.cancel == nil {
			continue // never started
		}
		err, ok := l.stop(30 * time.Second)
		if !ok {
			env.problems = append(env.problems, fmt.Sprintf("link %s did not stop after cancellation", l.name))
		} else if err != nil {
			// the tool gave up by itself: a refusal, not a verdict
			env.problems = append(env.problems, fmt.Sprintf("link %s: %v", l.name, err))
		}
	}
	if env.aborted != "" && !strings.HasPrefix(env.aborted, "echo seen") {
		env.problems = append(env.problems, env.aborted)
	}
	if os.Getenv("C13_DEBUG") == "1" {
		debugDump(env)
	}
	nViolBefore := run.ViolationCount()
	views := map[string]*siteView{}
	for _, X := range []string{"A", "B"} {
		views[X] = env.judge(run, X)
	}
	run.Eval(1)
	run.Count("loops", 1)
	if d := os.Getenv("C13_DEBUG"); d != "" && d != "1" {
		for _, sg := range env.sigs {
			if strings.HasPrefix(sg, d) {
				debugDump(env)
				break
			}
		}
	}

	outcome := "held"
	switch {
	case run.ViolationCount() > nViolBefore || env.violated:
		outcome = "violated"
	case env.aborted != "":
		outcome = "stopped-early"
	}
	if outcome != "violated" {
		// a loop that established a violation carries these in its witnesses instead: links that
		// die of a replayed echo (XADD id not greater, BUSYKEY) are consequences, not separate doubts
		for _, p := range env.problems {
			run.Inconclusive("%s: %s [%s]", env.key, p, c.String())
		}
	}

	// evidence
	rewrites := map[string]bool{}
	for _, S := range []string{"A", "B"} {
		s := env.sites[S]
		harn := s.fHarn
		nClient, nProp, nNoop := 0, 0, 0
		for _, is := range env.issued[S] {
			nClient += len(is.Op.Cmds)
			if len(is.Errs) > 0 {
				run.Count("client_error_replies", int64(len(is.Errs)))
			}
			if is.Op.Txn {
				run.Count("client_transactions", 1)
			}
		}
		for _, p := range s.fLog {
			_, h := harn[p.Conn]
			switch {
			case p.Kind == fakeredis.PropWrite && h:
				nProp++
				if p.Rewrite != "" {
					rewrites["client:"+p.Rewrite] = true
					run.Count("rewrites_client|"+p.Rewrite, 1)
				}
			case p.Kind == fakeredis.PropNoop && h:
				nNoop++
			case p.Kind == fakeredis.PropWrite && !h && p.Rewrite != "":
				rewrites["mirrored:"+p.Rewrite] = true
				run.Count("rewrites_mirrored|"+p.Rewrite, 1)
			}
		}
		run.Count("client_writes|"+S, int64(nClient))
		run.Count("client_writes_propagated|"+S, int64(nProp))
		run.Count("client_writes_noop_at_origin|"+S, int64(nNoop))
		v := views[S]
		run.Count("units_delivered|"+v.Y+"→"+S, int64(len(v.units)))
		run.Count("mirrored_txn_in_stream|"+S, int64(v.mirrored))
		if outcome == "held" {
			run.Count("mirrored_txn_suppressed", int64(v.mirrored))
			run.Count("standalone_bookkeeping_commands_skipped", int64(v.standalone))
		}
		run.Count("mirrored_txn_with_select_inside_multi", int64(v.selInside))
		run.Count("mirrored_txn_with_select_before_multi", int64(v.selBefore))
		run.Count("mirrored_txn_shrunk_to_bookkeeping", int64(v.shrunk))
		run.Count("mirrored_txn_partly_shrunk", int64(v.shrunkPart))
		if v.shrunk > 0 {
			rewrites["noop-shrink-to-marker+record"] = true
		}
		if v.shrunkPart > 0 {
			rewrites["noop-shrink-partial"] = true
		}
		if s.fStats["txn_unwrapped_single"] > 0 {
			rewrites["client-txn-unwrapped"] = true
		}
	}
	nRestarts := 0
	for _, l := range links {
		for _, rs := range l.restartLog() {
			nRestarts++
			run.Count("link_restarts|"+rs.Kind+"|"+string(c.Mode), 1)
		}
	}
	if nRestarts > 0 {
		run.Count("loops_with_link_restarts", 1)
	}
	if env.s2Reached {
		run.Count("loops_conclusive_after_S2", 1)
		run.Count("quiet_rounds_checked", int64(env.quietRounds))
		if env.idleDone {
			run.Count("idle_heartbeat_rounds_checked", idleRounds)
		}
	}
	phases := "incremental"
	if c.Snapshot {
		phases = "snapshot+incremental"
	}
	if c.LateReverse {
		phases += "+late-reverse-snapshot"
	}
	if nRestarts > 0 {
		phases += "+restart"
	}
	rk := make([]string, 0, len(rewrites))
	for k := range rewrites {
		rk = append(rk, k)
	}
	sort.Strings(rk)
	run.Seen("config_class", fmt.Sprintf("mode=%s filter=%s phases=%s", c.Mode, c.Filter, phases))
	for _, k := range rk {
		run.Seen("rewrite_kinds_exercised", k)
	}
	if env.s2Reached || outcome == "violated" {
		run.Distinct(fmt.Sprintf("%s|%s|%s|%s|%s", c.Mode, phases, c.Filter, strings.Join(rk, ","), outcome))
	}
	if outcome == "held" {
		run.Sample(map[string]any{"case": env.key, "config": c.String(), "client_writes": map[string]int{"A": countCmds(env.issued["A"]), "B": countCmds(env.issued["B"])},
			"units_delivered":         map[string]int{"A→B": len(views["B"].units), "B→A": len(views["A"].units)},
			"mirrored_txn_suppressed": views["A"].mirrored + views["B"].mirrored, "shrunk": views["A"].shrunk + views["B"].shrunk,
			"rewrites": rk, "sentinel_rounds": env.rounds})
	}
}

func countCmds(iss []issued) int {
	n := 0
	for _, is := range iss {
		n += len(is.Op.Cmds)
	}
	return n
}

// debugDump prints both sites' effect logs and replication streams (C13_DEBUG=1, for replays).
func debugDump(env *loopEnv) {
	for _, S := range []string{"A", "B"} {
		s := env.sites[S]
		harn := s.fHarn
		fmt.Printf("DEBUG %s site %s applied (harness conns %v)\n", env.key, S, harn)
		apps := s.fApps
		for i := range apps {
			if apps[i].Write {
				who := "link"
				if n, ok := harn[apps[i].Conn]; ok {
					who = n
				}
				fmt.Printf("DEBUG   %-12s %s -> %v\n", who, appStr(&apps[i]), apps[i].Reply)
			}
		}
		fmt.Printf("DEBUG %s site %s requests of tool connections\n", env.key, S)
		for _, rq := range s.srv.Requests() {
			if _, ok := harn[rq.Conn]; ok {
				continue
			}
			a0 := ""
			if len(rq.Args) > 0 {
				a0 = string(rq.Args[0])
				if len(a0) > 100 {
					a0 = a0[:100]
				}
			}
			fmt.Printf("DEBUG   req #%d conn%d kind%d %s %q -> %.80v\n", rq.Seq, rq.Conn, rq.Kind, rq.Cmd, a0, rq.Reply)
		}
		fmt.Printf("DEBUG %s site %s stream\n", env.key, S)
		pl := s.fLog
		for i := range pl {
			fmt.Printf("DEBUG   %s %s orig=%s\n", pl[i].Kind, propStr(&pl[i]), pl[i].OrigCmd)
		}
	}
}
