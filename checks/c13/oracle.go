package main

import (
	"bytes"
	"fmt"
	"sort"
	"strings"

	"verif/internal/drive"
	"verif/internal/fakeredis"
	"verif/internal/harness"
	"verif/internal/rdbx"

	"github.com/mgtv-tech/redis-GunYu/config"
	"github.com/mgtv-tech/redis-GunYu/pkg/redis/checkpoint"
)

// loopEnv is everything one loop left behind for the oracle.
type loopEnv struct {
	key       string
	cfg       loopCfg
	sites     map[string]*site
	dataset   map[string][]rdbx.Key // site → keys it held before anything started
	preloaded map[string]bool       // ids of A's dataset keys that B held (same content) before anything started
	// LateReverse: offset of B's stream at the instant B's snapshot was taken (-1 otherwise)
	lateSnapOff int64
	issued      map[string][]issued // site → what its harness clients did
	snapDone    map[string]bool     // link name → snapshot phase completed
	s2Reached   bool                // both S2 sentinels were seen at the opposite sites
	quietFrom   map[string]int      // site → length of its effect log when both S2 were visible
	quietRounds int                 // sentinel rounds completed after S2
	idleDone    bool                // the idle rounds and their flush round completed
	idleMarks   map[string][]int    // site → length of its effect log at the start of each idle (heartbeat-only) round and of the flush round
	rounds      int                 // sentinel rounds completed in total
	aborted     string              // why the loop stopped early ("" = ran to the end)
	problems    []string            // harness-side doubts (links that ended by themselves, watchdogs, error replies to link commands)
	links       map[string]*link    // destination site → the link writing there
	sigs        []string
	violated    bool // the oracle raised at least one violation in this loop (incl. known findings)
}

// violation records a violated clause of this loop.
func (e *loopEnv) violation(run *harness.Run, sig, what string, witness map[string]any) {
	e.violated = true
	e.sigs = append(e.sigs, sig)
	run.Violation(sig, e.key, what, witness)
}

func other(s string) string {
	if s == "A" {
		return "B"
	}
	return "A"
}

func appStr(a *fakeredis.App) string {
	var sb strings.Builder
	fmt.Fprintf(&sb, "#%d conn%d db%d", a.ReqSeq, a.Conn, a.DB)
	if a.Txn != 0 {
		fmt.Fprintf(&sb, " txn%d.%d", a.Txn, a.Pos)
	}
	sb.WriteString(" " + a.Cmd)
	for _, x := range a.Args {
		if len(x) > 90 {
			fmt.Fprintf(&sb, " %q…(%d)", x[:90], len(x))
		} else {
			fmt.Fprintf(&sb, " %q", x)
		}
	}
	return sb.String()
}

func propStr(e *fakeredis.PropCmd) string {
	var sb strings.Builder
	fmt.Fprintf(&sb, "[%d..%d) conn%d db%d", e.Start, e.End, e.Conn, e.DB)
	if e.Txn != 0 {
		fmt.Fprintf(&sb, " txn%d", e.Txn)
	}
	for _, x := range e.Args {
		if len(x) > 90 {
			fmt.Fprintf(&sb, " %q…(%d)", x[:90], len(x))
		} else {
			fmt.Fprintf(&sb, " %q", x)
		}
	}
	if e.Rewrite != "" {
		sb.WriteString(" {rewritten from " + e.OrigCmd + ": " + e.Rewrite + "}")
	}
	return sb.String()
}

// reservedClass names the bookkeeping structure a reserved key belongs to.
func reservedClass(k string) string {
	switch {
	case checkpoint.IsBisyncMarkerKey(k):
		return "marker"
	case checkpoint.IsBisyncLatestKey(k):
		return "latest"
	case checkpoint.IsBisyncCommitKey(k):
		return "commit-journal"
	case checkpoint.IsBisyncCommitIndexKey(k):
		return "commit-index"
	case checkpoint.IsBisyncRdbRecordKey(k):
		return "rdb-record"
	case k == config.CheckpointKeyHashKey:
		return "checkpoint-hash"
	case strings.HasSuffix(k, ":frontier"):
		return "frontier"
	case strings.HasPrefix(k, checkpoint.BisyncCheckpointKeyPrefix):
		return "root-checkpoint"
	}
	return "other-reserved"
}

// fwdUnit is one transaction a link wrote at a site (marker [+ business commands] [+ record]).
type fwdUnit struct {
	txn  int64
	idx  int // position of its first command in the site's effect log
	nBiz int
	ids  []string
	dump []string
}

type bizEntry struct {
	app    *fakeredis.App
	id     string
	origin string
	rdb    bool // inside a transaction whose marker says record_type=rdb
}

// siteView is the digest of what the link Y→X did at X.
type siteView struct {
	X, Y        string
	ownCP       string
	biz         []bizEntry
	units       map[int64]bool // link transactions carrying business commands
	fwd         []*fwdUnit     // every transaction of the link that carries a marker, business commands or not
	toolErrs    []string
	mirrored    int // link-written transactions as they appear in X's own replication stream (the opposite link must suppress them)
	shrunk      int // … of which only bookkeeping survived the no-op omission
	shrunkPart  int // … of which some but not all business commands were omitted
	standalone  int // stand-alone bookkeeping commands in X's stream
	foreignSeen []string
	selInside   int // link transactions propagated as MULTI, SELECT n, marker …
	selBefore   int // link transactions propagated as SELECT n, MULTI, marker …
	// business commands of X's own origin that the link sent to X and X answered with an error
	rejectedEcho []bizEntry
}

func (e *loopEnv) view(run *harness.Run, X string) *siteView {
	sx, sy := e.sites[X], e.sites[other(X)]
	v := &siteView{X: X, Y: sy.name, units: map[int64]bool{}}
	v.ownCP = sx.fHash[sy.replid]
	harn := sx.fHarn
	apps := sx.fApps
	// record type of every link transaction (from its marker, wherever it stands)
	rdbTxn := map[int64]bool{}
	for i := range apps {
		a := &apps[i]
		if _, own := harn[a.Conn]; own || a.Txn == 0 || a.Cmd != "SET" || len(a.Args) < 2 {
			continue
		}
		if checkpoint.IsBisyncMarkerKey(string(a.Args[0])) {
			if m, err := checkpoint.DecodeBisyncMarker(string(a.Args[1])); err == nil && m.RecordType == "rdb" {
				rdbTxn[a.Txn] = true
			}
		}
	}
	own := func(k string) bool {
		if k == config.CheckpointKeyHashKey {
			return true
		}
		if v.ownCP == "" {
			return true // namespace unknown: cannot tell (reported by the caller)
		}
		return strings.HasPrefix(k, v.ownCP) || strings.HasPrefix(k, checkpoint.BisyncKeyPrefix+":"+v.ownCP+":")
	}
	fwdByTxn := map[int64]*fwdUnit{}
	for i := range apps {
		a := &apps[i]
		if _, h := harn[a.Conn]; h || !a.Write || a.IsErr || a.Txn == 0 {
			continue
		}
		u := fwdByTxn[a.Txn]
		if u == nil {
			u = &fwdUnit{txn: a.Txn, idx: a.Idx}
			fwdByTxn[a.Txn] = u
		}
		u.dump = append(u.dump, appStr(a))
		if a.Cmd == "SET" && len(a.Args) >= 2 && checkpoint.IsBisyncMarkerKey(string(a.Args[0])) {
			if len(v.fwd) == 0 || v.fwd[len(v.fwd)-1] != u {
				v.fwd = append(v.fwd, u)
			}
		}
		if !touchesReserved(a.Cmd, a.Args) {
			u.nBiz++
			u.ids = append(u.ids, lastID(a.Args))
		}
	}
	for i := range apps {
		a := &apps[i]
		if _, h := harn[a.Conn]; h || !a.Write {
			continue
		}
		if a.IsErr {
			v.toolErrs = append(v.toolErrs, appStr(a)+" → "+fmt.Sprint(a.Reply))
			if id := lastID(a.Args); originOf(id) == X && !touchesReserved(a.Cmd, a.Args) {
				// the link sent a write of X's own origin back to X; the store happened to refuse it
				// (XADD id not greater than the top item, BUSYKEY …): an echo all the same
				v.rejectedEcho = append(v.rejectedEcho, bizEntry{app: a, id: id, origin: X, rdb: rdbTxn[a.Txn]})
			}
			continue
		}
		foreign := ""
		reserved := false
		for _, k := range keysOf(a.Cmd, a.Args) {
			if drive.Reserved(k) {
				reserved = true
				if !own(string(k)) {
					foreign = string(k)
				}
			}
		}
		if foreign != "" {
			where := "stand-alone"
			if a.Txn != 0 {
				where = "in-unit"
			}
			phase := "incremental"
			if rdbTxn[a.Txn] {
				phase = "snapshot"
			}
			sig := fmt.Sprintf("bookkeeping-as-business|%s|%s|phase=%s|filter=%s", reservedClass(foreign), where, phase, e.cfg.Filter)
			v.foreignSeen = append(v.foreignSeen, sig)
			e.violation(run, sig,
				fmt.Sprintf("link %s→%s executed %s at site %s on the bookkeeping key %q, which belongs to the namespace of the opposite link (own namespace here: %q): bookkeeping traffic was sent back as business data",
					v.Y, X, a.Cmd, X, foreign, v.ownCP),
				e.witness(map[string]any{"command": appStr(a), "transaction": txnDump(apps, a.Txn)}))
			continue
		}
		if reserved {
			continue
		}
		id := lastID(a.Args)
		v.biz = append(v.biz, bizEntry{app: a, id: id, origin: originOf(id), rdb: rdbTxn[a.Txn]})
		if a.Txn != 0 {
			v.units[a.Txn] = true
		}
	}
	// X's own replication stream: what the link's transactions look like to the opposite link
	plog := sx.fLog
	byUnit := map[int][]*fakeredis.PropCmd{}
	var order []int
	for i := range plog {
		p := &plog[i]
		if _, h := harn[p.Conn]; h || p.Kind != fakeredis.PropWrite {
			continue
		}
		if _, ok := byUnit[p.Unit]; !ok {
			order = append(order, p.Unit)
		}
		byUnit[p.Unit] = append(byUnit[p.Unit], p)
	}
	// where the master put the SELECT a link transaction needed (the stream was in another database,
	// or had none yet): inside the MULTI (Redis ≥ 7 model) or in front of it (6.2 model)
	multiOpen := -1
	for i := range plog {
		p := &plog[i]
		if _, h := harn[p.Conn]; h {
			continue
		}
		switch p.Kind {
		case fakeredis.PropMulti:
			multiOpen = p.Unit
		case fakeredis.PropSelect:
			if p.Txn != 0 && p.Unit == multiOpen {
				v.selInside++
			} else if p.Txn != 0 {
				v.selBefore++
			}
		}
	}
	omitted := map[int64]int{} // EXEC request → business commands omitted as no-ops
	for i := range plog {
		p := &plog[i]
		if _, h := harn[p.Conn]; !h && p.Kind == fakeredis.PropNoop && p.Txn != 0 && !touchesReserved(p.OrigCmd, p.OrigArgs) {
			omitted[p.Txn]++
		}
	}
	for _, u := range order {
		cmds := byUnit[u]
		first := cmds[0]
		if first.Txn == 0 {
			v.standalone++
			continue
		}
		v.mirrored++
		nb := 0
		for _, c := range cmds {
			if !touchesReserved(c.Name(), c.Args[1:]) {
				nb++
			}
		}
		if om := omitted[first.Txn]; om > 0 {
			if nb == 0 {
				v.shrunk++
			} else {
				v.shrunkPart++
			}
		}
	}
	return v
}

func sameCmd(a *fakeredis.App, name string, want [][]byte) bool {
	if !strings.EqualFold(a.Cmd, name) || len(a.Args) != len(want) {
		return false
	}
	for j := range want {
		if !bytes.Equal(a.Args[j], want[j]) {
			return false
		}
	}
	return true
}

func argStrs(name string, args [][]byte) string {
	var sb strings.Builder
	sb.WriteString(name)
	for _, x := range args {
		fmt.Fprintf(&sb, " %q", x)
	}
	return sb.String()
}

func txnDump(apps []fakeredis.App, txn int64) []string {
	var out []string
	if txn == 0 {
		return out
	}
	for i := range apps {
		if apps[i].Txn == txn {
			out = append(out, appStr(&apps[i]))
		}
	}
	return out
}

func (e *loopEnv) witness(extra map[string]any) map[string]any {
	w := map[string]any{"config": e.cfg.String(), "sentinel_rounds_completed": e.rounds, "both_S2_seen": e.s2Reached}
	if e.aborted != "" {
		w["loop_stopped_early"] = e.aborted
	}
	if len(e.problems) > 0 {
		w["links_and_waits"] = e.problems
	}
	for k, v := range extra {
		w[k] = v
	}
	return w
}

// kindOf maps the ids of one site's client commands to their workload kind.
func kindsOf(iss []issued) map[string]string {
	m := map[string]string{}
	for _, is := range iss {
		for _, c := range is.Op.Cmds {
			k := c.Kind
			if is.Op.Txn && k == "plain" {
				k = "txn-member"
			}
			m[c.ID] = k
		}
	}
	return m
}

func clauseOfKind(kind string) string {
	if strings.HasPrefix(kind, "lk-") {
		return "swallowed"
	}
	return "lost"
}

// judge evaluates clauses (i)–(iv) for the direction Y→X (writes of Y's clients replayed at X).
func (e *loopEnv) judge(run *harness.Run, X string) *siteView {
	v := e.view(run, X)
	sx, sy := e.sites[X], e.sites[v.Y]
	c := e.cfg
	ctx := fmt.Sprintf("filter=%s", c.Filter)
	ownKinds := kindsOf(e.issued[X])
	yKinds := kindsOf(e.issued[v.Y])
	if v.ownCP == "" && len(v.biz) > 0 {
		run.Inconclusive("%s: site %s: the namespace of link %s→%s could not be read from %s", e.key, X, v.Y, X, config.CheckpointKeyHashKey)
	}
	for _, s := range v.toolErrs {
		e.problems = append(e.problems, fmt.Sprintf("a command of link %s→%s was answered with an error: %s", v.Y, X, s))
	}

	// (i) no echo
	echoCand := append(append([]bizEntry{}, v.biz...), v.rejectedEcho...)
	for i := range echoCand {
		b := &echoCand[i]
		if b.origin != X {
			continue
		}
		if c.LateReverse && X == "A" && b.rdb {
			// a snapshot of B taken after B received A's data necessarily carries it back: not an echo of the stream
			run.Count("snapshot_copies_of_own_data", 1)
			continue
		}
		phase := "incremental"
		if isSnapID(b.id) {
			phase = "snapshot"
		}
		kind := ownKinds[b.id]
		if isSnapID(b.id) {
			kind = "snapshot-key"
		}
		sig := fmt.Sprintf("echo|%s|phase=%s", ctx, phase)
		e.violation(run, sig,
			fmt.Sprintf("site %s: link %s→%s executed a business command of origin %s (id %s, %s%s): a write made at %s came back to %s", X, v.Y, X, X, b.id, kind,
				map[bool]string{true: "; the store answered with an error", false: ""}[b.app.IsErr], X, X),
			e.witness(map[string]any{"echoed": appStr(b.app), "transaction_at_" + X: txnDump(sx.fApps, b.app.Txn),
				"as_seen_in_stream_of_" + v.Y: e.streamAround(sy, b.id)}))
	}

	// expected: what Y's clients got propagated, projected by the reference filter
	rf := c.refFilter()
	ylog := sy.fLog
	yharn := sy.fHarn
	type expE struct {
		p        *fakeredis.PropCmd
		id       string
		filtered bool
		want     [][]byte // arguments the peer must execute (the projection onto the accepted keys)
		n        int
		first    int // index into v.biz of the first delivery
	}
	var exp []*expE
	expByID := map[string]*expE{}
	for i := range ylog {
		p := &ylog[i]
		if _, h := yharn[p.Conn]; !h || p.Kind != fakeredis.PropWrite {
			continue
		}
		if c.LateReverse && v.Y == "B" && p.Start < e.lateSnapOff {
			continue // part of the snapshot B→A started from
		}
		id := lastID(p.Args)
		if id == "" {
			continue
		}
		want, fwd := project(rf, p.Name(), p.Args[1:])
		x := &expE{p: p, id: id, filtered: !fwd, want: want, first: -1}
		if fwd && len(want) != len(p.Args)-1 {
			run.Count("client_writes_projected_to_accepted_keys", 1)
		}
		exp = append(exp, x)
		expByID[id] = x
	}
	snapKeys := map[string]*rdbx.Key{}
	for i := range e.dataset[v.Y] {
		k := &e.dataset[v.Y][i]
		snapKeys[lastID([][]byte{k.Key})] = k
	}
	snapTxns := map[string]map[int64]bool{}
	unknown := 0
	unknownSample := ""
	for i := range v.biz {
		b := &v.biz[i]
		if c.LateReverse && X == "A" && b.rdb {
			continue // B's snapshot: whatever B held, ids or not
		}
		if b.origin != v.Y {
			if b.origin == "" {
				unknown++
				unknownSample = appStr(b.app)
			}
			continue
		}
		if isSnapID(b.id) {
			if snapTxns[b.id] == nil {
				snapTxns[b.id] = map[int64]bool{}
			}
			snapTxns[b.id][b.app.Txn] = true
			continue
		}
		x := expByID[b.id]
		if x == nil {
			if c.LateReverse && v.Y == "B" {
				continue // a write from before B's snapshot
			}
			unknown++
			unknownSample = appStr(b.app)
			continue
		}
		if x.n == 0 {
			x.first = i
		}
		x.n++
	}
	if unknown > 0 {
		e.problems = append(e.problems, fmt.Sprintf("site %s: %d link-executed business commands carry no id of a propagated client write, e.g. %s", X, unknown, unknownSample))
	}

	// (ii) exactly once, unaltered / (iii) no swallowing
	lastDelivered := -1
	for i, x := range exp {
		if !x.filtered && x.n > 0 {
			lastDelivered = i
		}
	}
	delivered := 0
	for i, x := range exp {
		kind := yKinds[x.id]
		if x.filtered {
			if x.n > 0 {
				run.Count("filtered_but_delivered", 1)
			} else {
				run.Count("client_writes_filtered_out", 1)
			}
			continue
		}
		switch {
		case x.n == 0:
			// links are in-order: once a later item of the same stream was executed, this one was passed over
			if e.aborted != "" && i > lastDelivered {
				run.Count("client_writes_still_in_flight_at_stop", 1)
				continue
			}
			sig := fmt.Sprintf("%s|kind=%s|%s", clauseOfKind(kind), kind, ctx)
			e.violation(run, sig,
				fmt.Sprintf("site %s: the %s client write %s of site %s (propagated, not filtered) was never executed by link %s→%s although later items of the same stream were", X, kind, x.id, v.Y, v.Y, X),
				e.witness(map[string]any{"propagated": propStr(x.p), "stream_around": e.streamAround(sy, x.id),
					"propagation_order_with_execution_counts": func() []string {
						var l []string
						for _, y := range exp {
							l = append(l, fmt.Sprintf("%s@%d×%d(filtered=%v)", y.id, y.p.Start, y.n, y.filtered))
						}
						return l
					}(),
					"executed_by_link_in_order": func() []string {
						var l []string
						for j := range v.biz {
							l = append(l, fmt.Sprintf("%s#%d", v.biz[j].id, v.biz[j].app.ReqSeq))
						}
						return l
					}()}))
		case x.n > 1:
			var all []string
			var idxs []int
			for j := range v.biz {
				if v.biz[j].id == x.id && !(c.LateReverse && X == "A" && v.biz[j].rdb) {
					all = append(all, appStr(v.biz[j].app))
					idxs = append(idxs, v.biz[j].app.Idx)
				}
			}
			// several executions carry this id: are they all the write itself, or did another command
			// end up with (part of) this write's arguments?
			eq := 0
			for j := range v.biz {
				b := &v.biz[j]
				if b.id != x.id || (c.LateReverse && X == "A" && b.rdb) {
					continue
				}
				if sameCmd(b.app, x.p.Name(), x.want) {
					eq++
				} else {
					e.violation(run, fmt.Sprintf("altered|cmd=%s|%s", strings.ToUpper(b.app.Cmd), ctx),
						fmt.Sprintf("site %s: link %s→%s executed a command that carries the arguments of client write %s of site %s but is not that write (restricted to its accepted keys)", X, v.Y, X, x.id, v.Y),
						e.witness(map[string]any{"propagated": propStr(x.p), "must_execute": argStrs(x.p.Name(), x.want), "executed": appStr(b.app), "transaction": txnDump(sx.fApps, b.app.Txn)}))
				}
			}
			if eq <= 1 {
				continue
			}
			// a repeat is attributable to a restart iff a new incarnation of the link began between
			// the two executions
			restarts := e.links[X].restartLog()
			sameRun := false
			for j := 1; j < len(idxs); j++ {
				between := false
				for _, rs := range restarts {
					if idxs[j-1] < rs.Mark && rs.Mark <= idxs[j] {
						between = true
					}
				}
				if !between {
					sameRun = true
				}
			}
			sig := fmt.Sprintf("duplicated|%s", ctx)
			what := fmt.Sprintf("site %s: the client write %s of site %s was executed %d times by link %s→%s", X, x.id, v.Y, x.n, v.Y, X)
			switch {
			case len(restarts) == 0 && sx.faultCount.Load() == 0:
				// a loop without restarts and faults: the plain clause
			case sameRun:
				sig = fmt.Sprintf("duplicated|same-run-resend|mode=%s|%s", c.Mode, ctx)
				what += " within one run of the link (no restart in between)"
			case c.Mode == config.ReplayModeSync:
				sig = fmt.Sprintf("duplicated|after-restart|mode=sync|%s", ctx)
				what += ": a restarted sync-mode link resumes exactly behind the last committed unit"
			default:
				// pipeline / parallel resume from the last contiguous committed prefix: units behind it
				// may be sent again after a restart (the statement promises exactly-once absent restarts)
				run.Count("repeats_after_restart_legal", 1)
				continue
			}
			e.violation(run, sig, what, e.witness(map[string]any{"propagated": propStr(x.p), "executions": all, "restarts_of_the_link": restarts}))
		default:
			delivered++
			a := v.biz[x.first].app
			if !sameCmd(a, x.p.Name(), x.want) {
				e.violation(run, fmt.Sprintf("altered|cmd=%s|%s", x.p.Name(), ctx),
					fmt.Sprintf("site %s: client write %s was executed with other arguments than site %s propagated (restricted to the accepted keys)", X, x.id, v.Y),
					e.witness(map[string]any{"propagated": propStr(x.p), "must_execute": argStrs(x.p.Name(), x.want), "executed": appStr(a), "transaction": txnDump(sx.fApps, a.Txn)}))
			}
			run.Count("delivered|"+kind, 1)
			if x.p.Rewrite != "" {
				run.Count("delivered_rewritten|"+x.p.Rewrite, 1)
			}
		}
	}
	run.Count("client_writes_delivered_once", int64(delivered))

	// snapshot keys: one transaction each
	if e.snapDone[v.Y+"→"+X] {
		for id, k := range snapKeys {
			filtered := !rf.SnapshotKey(0, k.Key)
			n := len(snapTxns[id])
			switch {
			case filtered:
				if n > 0 {
					run.Count("filtered_but_delivered", 1)
				}
			case n == 0 && c.KeyExists == "ignore" && v.Y == "A" && e.preloaded[id]:
				// the peer held the key already and the configured policy says: leave it alone
				run.Count("snapshot_keys_left_alone_at_the_peer_under_ignore", 1)
			case n == 0:
				e.violation(run, fmt.Sprintf("lost|kind=snapshot-key|%s", ctx),
					fmt.Sprintf("site %s: snapshot key %q of site %s was not replayed by the completed snapshot phase of link %s→%s", X, k.Key, v.Y, v.Y, X), e.witness(nil))
			case n > 1 && len(k.Value.Hash) > 10:
				// a hash above the (lowered) chunk threshold is replayed in pieces, one unit each
				run.Count("snapshot_keys_replayed_in_pieces", 1)
				run.Count("snapshot_key_pieces", int64(n))
			case n > 1:
				e.violation(run, fmt.Sprintf("duplicated|phase=snapshot|%s", ctx),
					fmt.Sprintf("site %s: snapshot key %q of site %s was written in %d transactions", X, k.Key, v.Y, n), e.witness(nil))
			default:
				run.Count("snapshot_keys_delivered_once", 1)
			}
		}
	}

	// per-key order of the writes delivered exactly once
	type seq struct{ want, got []string }
	perKey := map[string]*seq{}
	at := func(k string) *seq {
		if perKey[k] == nil {
			perKey[k] = &seq{}
		}
		return perKey[k]
	}
	for _, x := range exp {
		if x.filtered || x.n != 1 {
			continue
		}
		for _, k := range keysOf(x.p.Name(), x.want) {
			at(string(k)).want = append(at(string(k)).want, x.id)
		}
	}
	for i := range v.biz {
		b := &v.biz[i]
		x := expByID[b.id]
		if b.origin != v.Y || x == nil || x.filtered || x.n != 1 || (c.LateReverse && X == "A" && b.rdb) {
			continue
		}
		for _, k := range keysOf(b.app.Cmd, b.app.Args) {
			at(string(k)).got = append(at(string(k)).got, b.id)
		}
	}
	keys := make([]string, 0, len(perKey))
	for k := range perKey {
		keys = append(keys, k)
	}
	sort.Strings(keys)
	for _, k := range keys {
		s := perKey[k]
		if strings.Join(s.want, ",") != strings.Join(s.got, ",") {
			e.violation(run, fmt.Sprintf("order|%s", ctx),
				fmt.Sprintf("site %s: the writes of site %s on key %q were executed in another order than %s propagated them", X, v.Y, k, v.Y),
				e.witness(map[string]any{"propagated_order": s.want, "executed_order": s.got}))
			break
		}
		if len(s.want) > 1 {
			run.Count("keys_with_ordered_history", 1)
		}
	}

	// (iv) after both S2: nothing but the later sentinels may be written by a link
	if from, ok := e.quietFrom[X]; ok {
		for i := range v.biz {
			b := &v.biz[i]
			if b.app.Idx < from {
				continue
			}
			if isSentinelID(b.id) && b.origin == v.Y {
				continue
			}
			e.violation(run, fmt.Sprintf("ping-pong|%s", ctx),
				fmt.Sprintf("site %s: after both S2 sentinels had crossed (every earlier stream item processed), link %s→%s still executed the business command %s: the exchange does not quiesce", X, v.Y, X, b.id),
				e.witness(map[string]any{"command": appStr(b.app), "quiet_rounds_completed": e.quietRounds}))
			break
		}
		// forwarded UNITS, with or without business commands: after S2 a link may only write the
		// units that carry the later sentinels; in the idle rounds (the masters only send their
		// heartbeat PING) it may write nothing at all
		perRound := make([]int, len(e.idleMarks[X])+1)
		for _, u := range v.fwd {
			if u.idx < from {
				continue
			}
			r := 0
			for r < len(e.idleMarks[X]) && u.idx >= e.idleMarks[X][r] {
				r++
			}
			perRound[r]++
			onlySentinels := u.nBiz > 0
			for _, id := range u.ids {
				if !isSentinelID(id) || originOf(id) != v.Y {
					onlySentinels = false
				}
			}
			if onlySentinels {
				continue
			}
			if u.nBiz == 0 {
				run.Count("empty_units_forwarded_after_S2", 1)
				e.violation(run, fmt.Sprintf("ping-pong|empty-unit|%s", ctx),
					fmt.Sprintf("site %s: after both S2 sentinels had crossed and the applications had stopped writing, link %s→%s still wrote a transaction without any business command (marker and recovery record only): every such transaction is traffic the opposite link has to read and suppress, the exchange does not quiesce", X, v.Y, X),
					e.witness(map[string]any{"transaction": u.dump, "units_forwarded_per_round_after_S2": perRound, "idle_rounds": len(e.idleMarks[X])}))
				break
			}
		}
		// perRound[0] = the sentinel rounds before the idle rounds, the last entry = the flush round
		for r := 1; r < len(perRound)-1; r++ {
			run.Count("units_forwarded_in_idle_rounds", int64(perRound[r]))
		}
	}
	return v
}

// streamAround renders the propagation unit(s) of site s that carry id.
func (e *loopEnv) streamAround(s *site, id string) []string {
	plog := s.fLog
	units := map[int]bool{}
	for i := range plog {
		if plog[i].Kind != fakeredis.PropNoop && lastID(plog[i].Args) == id {
			units[plog[i].Unit] = true
		}
	}
	var out []string
	for i := range plog {
		if plog[i].Kind != fakeredis.PropNoop && units[plog[i].Unit] && len(out) < 24 {
			out = append(out, propStr(&plog[i]))
		}
	}
	return out
}
