package main

import (
	"bufio"
	"context"
	"fmt"
	"net"
	"regexp"
	"strconv"
	"strings"
	"sync"
	"sync/atomic"
	"time"

	"verif/internal/drive"
	"verif/internal/fakeredis"
	"verif/internal/fullsync"
	"verif/internal/ref"

	"github.com/mgtv-tech/redis-GunYu/config"
	"github.com/mgtv-tech/redis-GunYu/pkg/redis/checkpoint"
	usync "github.com/mgtv-tech/redis-GunYu/pkg/sync"
	"github.com/mgtv-tech/redis-GunYu/syncer"
)

// ---------------------------------------------------------------------------------------
// ids: every client command / snapshot key / sentinel carries ~<site><tag>.<n>~ in one of its
// arguments (same syntax as gen.FindID); the id of a command is the LAST id in its argument
// vector (a single-use key may be named after the id of the id-less command that will later
// operate on it, while the command creating it carries its own id in the value).
// ---------------------------------------------------------------------------------------

var idRe = regexp.MustCompile(`~[A-Za-z0-9]+\.\d+~`)

func lastID(args [][]byte) string {
	for i := len(args) - 1; i >= 0; i-- {
		if m := idRe.FindAll(args[i], -1); len(m) > 0 {
			return string(m[len(m)-1])
		}
	}
	return ""
}

// originOf returns the site letter of an id ("A" / "B"), "" if none.
func originOf(id string) string {
	if len(id) < 2 {
		return ""
	}
	return id[1:2]
}

func isSentinelID(id string) bool { return len(id) > 5 && id[2:5] == "sen" }
func isSnapID(id string) bool     { return len(id) > 6 && id[2:6] == "snap" }

// ---------------------------------------------------------------------------------------
// a site double: target of one link and source of the other
// ---------------------------------------------------------------------------------------

type site struct {
	name   string // "A" / "B"
	srv    *fakeredis.Server
	prop   *fakeredis.Propagation
	replid string

	// all fields below are only touched with the server lock held (hooks, srv.With)
	harness map[int64]string // connection id → harness client name
	waiters map[string]chan struct{}
	byLink  map[string]bool // ids of the commands executed here by link connections
	rdbTxn  map[int64]bool  // link transactions whose marker says record_type=rdb
	// snapshotCopiesOwn: the link writing here started from a snapshot of the other site taken after
	// that site had received this site's data: its snapshot phase necessarily brings that data back
	snapshotCopiesOwn bool

	// frozen copies for the oracle (freeze)
	fApps  []fakeredis.App
	fLog   []fakeredis.PropCmd
	fHarn  map[int64]string
	fStats map[string]int64
	fHash  map[string]string // redis-gunyu-checkpoint-hash: source replication id → namespace

	// restart / fault schedule of the link writing here (all guarded by the server lock)
	inLink        *link
	restartArmed  bool
	restartAfter  int // units committed since the last frontier write (or since arming) that trigger the orderly stop
	sinceFrontier int
	faultArmed    bool
	faultAfter    int // the n-th EXEC of a link connection after arming is executed and its reply dropped
	faultFired    bool
	linkReqs      atomic.Int64 // requests of link connections processed here
	faultCount    atomic.Int64 // lost-reply faults injected here

	echoSeen atomic.Bool  // a link executed a business command of this site's own origin here
	gcSeen   atomic.Int64 // stand-alone journal clean-up commands (DEL commit record / ZREM index) a link executed here
}

const harnessPrefix = "harness-"

func newSite(name, version, replid string, base int64, wrapSingle int) *site {
	s := &site{name: name, replid: replid, harness: map[int64]string{-1: "harness-do"}, waiters: map[string]chan struct{}{}, byLink: map[string]bool{}, rdbTxn: map[int64]bool{}}
	s.srv = fakeredis.MustStart(fakeredis.Options{Version: version, RestoreDecoder: fullsync.RestoreDecoder(version)})
	info := []byte(fmt.Sprintf("# Replication\r\nrole:master\r\nconnected_slaves:0\r\nmaster_failover_state:no-failover\r\n"+
		"master_replid:%s\r\nmaster_replid2:%s\r\nmaster_repl_offset:%d\r\nsecond_repl_offset:-1\r\n\r\n", replid, strings.Repeat("0", 40), base))
	s.srv.SetHooks(func(r *fakeredis.Req) {
		if r.Cmd == "CLIENT" && len(r.Args) == 2 && strings.EqualFold(string(r.Args[0]), "SETNAME") && strings.HasPrefix(string(r.Args[1]), harnessPrefix) {
			s.harness[r.Conn] = string(r.Args[1])
		}
		if _, own := s.harness[r.Conn]; !own {
			s.linkReqs.Add(1)
		}
	}, func(r *fakeredis.Req) (fakeredis.Reply, bool) {
		if r.Cmd == "INFO" && len(r.Args) == 1 && strings.EqualFold(string(r.Args[0]), "replication") {
			return info, true
		}
		return nil, false
	}, func(r *fakeredis.Req) bool {
		// lost reply: the EXEC was executed, the connection dies instead of answering
		if !s.faultArmed || r.Kind != fakeredis.ReqExec {
			return false
		}
		if _, own := s.harness[r.Conn]; own {
			return false
		}
		if _, isArr := r.Reply.([]fakeredis.Reply); !isArr {
			return false
		}
		s.faultAfter--
		if s.faultAfter > 0 {
			return false
		}
		s.faultArmed = false
		s.faultFired = true
		s.faultCount.Add(1)
		return true
	})
	s.srv.SetOnApplied(func(a *fakeredis.App) {
		if !a.Write || a.IsErr {
			return
		}
		if _, own := s.harness[a.Conn]; own {
			return
		}
		if a.Txn != 0 && a.Cmd == "SET" && len(a.Args) >= 2 && checkpoint.IsBisyncMarkerKey(string(a.Args[0])) {
			if m, err := checkpoint.DecodeBisyncMarker(string(a.Args[1])); err == nil && m.RecordType == "rdb" {
				s.rdbTxn[a.Txn] = true
			}
		}
		if len(a.Args) > 0 && a.Cmd == "HSET" {
			k := string(a.Args[0])
			switch {
			case a.Txn == 0 && strings.HasSuffix(k, ":frontier"):
				s.sinceFrontier = 0
			case a.Txn != 0 && (checkpoint.IsBisyncCommitKey(k) || checkpoint.IsBisyncLatestKey(k)):
				s.sinceFrontier++
				if s.restartArmed && s.sinceFrontier >= s.restartAfter && s.inLink != nil {
					s.restartArmed = false
					s.inLink.requestRestart()
				}
			}
		}
		if a.Txn == 0 && len(a.Args) > 0 && (a.Cmd == "DEL" || a.Cmd == "UNLINK" || a.Cmd == "ZREM") &&
			(checkpoint.IsBisyncCommitKey(string(a.Args[0])) || checkpoint.IsBisyncCommitIndexKey(string(a.Args[0]))) {
			s.gcSeen.Add(1)
		}
		id := lastID(a.Args)
		if id == "" {
			return
		}
		s.byLink[id] = true
		if ch, ok := s.waiters[id]; ok {
			close(ch)
			delete(s.waiters, id)
		}
		if originOf(id) == s.name && !touchesReserved(a.Cmd, a.Args) && !(s.snapshotCopiesOwn && s.rdbTxn[a.Txn]) {
			s.echoSeen.Store(true)
		}
	})
	s.prop = s.srv.EnablePropagation(fakeredis.PropagationOptions{Base: base, WrapSingle: wrapSingle})
	return s
}

// appliedByLink returns a channel closed once a link connection has executed a command carrying id here.
func (s *site) appliedByLink(id string) <-chan struct{} {
	ch := make(chan struct{})
	s.srv.With(func([]fakeredis.DB) {
		if s.byLink[id] {
			close(ch)
			return
		}
		s.waiters[id] = ch
	})
	return ch
}

// freeze copies the site's logs.  The oracle only judges what happened BEFORE the harness stopped
// the links: what a link does while it is being cancelled is another property's business.
func (s *site) freeze() {
	s.fApps = s.srv.Applied()
	s.fLog = s.prop.Log()
	s.fHarn = s.harnessConns()
	s.fStats = s.prop.Stats()
	s.srv.With(func(dbs []fakeredis.DB) {
		s.fHash = map[string]string{}
		if o, ok := dbs[0][config.CheckpointKeyHashKey]; ok && o.Kind == fakeredis.KHash {
			for f, v := range o.Hash {
				s.fHash[f] = string(v)
			}
		}
	})
}

// armRestart: the link writing here is stopped (orderly) once k units were committed since the
// last frontier write seen (sync mode: since now), and started again.
func (s *site) armRestart(k int) {
	s.srv.With(func([]fakeredis.DB) {
		s.restartArmed, s.restartAfter, s.sinceFrontier = true, k, 0
	})
}

// armFault: the n-th EXEC a link connection sends from now on is executed and not answered.
func (s *site) armFault(n int) {
	s.srv.With(func([]fakeredis.DB) {
		s.faultArmed, s.faultAfter = true, n
	})
}

// disarm cancels what has not fired yet.
func (s *site) disarm() {
	s.srv.With(func([]fakeredis.DB) {
		s.restartArmed, s.faultArmed = false, false
	})
}

func (s *site) takeFaultFired() bool {
	f := false
	s.srv.With(func([]fakeredis.DB) {
		f = s.faultFired
		s.faultFired = false
	})
	return f
}

func (s *site) appliedLen() int { return len(s.srv.Applied()) }

// waitLinkQuiet waits until no link connection has sent a request here for a few polls (bounded).
func (s *site) waitLinkQuiet() {
	last, stable := s.linkReqs.Load(), 0
	for i := 0; i < 200 && stable < 5; i++ {
		time.Sleep(2 * time.Millisecond)
		if n := s.linkReqs.Load(); n == last {
			stable++
		} else {
			last, stable = n, 0
		}
	}
}

func (s *site) harnessConns() map[int64]string {
	m := map[int64]string{}
	s.srv.With(func([]fakeredis.DB) {
		for k, v := range s.harness {
			m[k] = v
		}
	})
	return m
}

func touchesReserved(cmd string, args [][]byte) bool {
	for _, k := range keysOf(cmd, args) {
		if drive.Reserved(k) {
			return true
		}
	}
	return false
}

// keysOf: key arguments of the commands the workload and the tool use.
func keysOf(cmd string, args [][]byte) [][]byte {
	if len(args) == 0 {
		return nil
	}
	switch strings.ToUpper(cmd) {
	case "DEL", "UNLINK":
		return args
	case "MSET":
		var k [][]byte
		for i := 0; i+1 < len(args); i += 2 {
			k = append(k, args[i])
		}
		return k
	}
	return args[:1]
}

// ---------------------------------------------------------------------------------------
// tiny RESP client (the harness' own connections)
// ---------------------------------------------------------------------------------------

type respErr string

type client struct {
	name string
	nc   net.Conn
	rd   *bufio.Reader
	db   int
}

func dial(addr, name string) (*client, error) {
	nc, err := net.DialTimeout("tcp", addr, 5*time.Second)
	if err != nil {
		return nil, err
	}
	c := &client{name: name, nc: nc, rd: bufio.NewReader(nc)}
	if r, err := c.do("CLIENT", "SETNAME", harnessPrefix+name); err != nil || r != "OK" {
		nc.Close()
		return nil, fmt.Errorf("client setname: %v %v", r, err)
	}
	return c, nil
}

func (c *client) close() { c.nc.Close() }

func (c *client) do(args ...string) (any, error) {
	var sb strings.Builder
	sb.WriteString("*" + strconv.Itoa(len(args)) + "\r\n")
	for _, a := range args {
		sb.WriteString("$" + strconv.Itoa(len(a)) + "\r\n" + a + "\r\n")
	}
	c.nc.SetDeadline(time.Now().Add(20 * time.Second))
	if _, err := c.nc.Write([]byte(sb.String())); err != nil {
		return nil, err
	}
	return c.recv()
}

func (c *client) recv() (any, error) {
	line, err := c.rd.ReadString('\n')
	if err != nil {
		return nil, err
	}
	line = strings.TrimRight(line, "\r\n")
	if line == "" {
		return nil, fmt.Errorf("empty reply line")
	}
	switch line[0] {
	case '+':
		return line[1:], nil
	case '-':
		return respErr(line[1:]), nil
	case ':':
		n, _ := strconv.ParseInt(line[1:], 10, 64)
		return n, nil
	case '$':
		n, _ := strconv.Atoi(line[1:])
		if n < 0 {
			return nil, nil
		}
		buf := make([]byte, n+2)
		for got := 0; got < len(buf); {
			m, err := c.rd.Read(buf[got:])
			if err != nil {
				return nil, err
			}
			got += m
		}
		return string(buf[:n]), nil
	case '*':
		n, _ := strconv.Atoi(line[1:])
		if n < 0 {
			return nil, nil
		}
		out := make([]any, n)
		for i := range out {
			if out[i], err = c.recv(); err != nil {
				return nil, err
			}
		}
		return out, nil
	}
	return nil, fmt.Errorf("bad reply line %q", line)
}

// ---------------------------------------------------------------------------------------
// live feeder: a syncer.ChannelReader serving a site's propagation stream as it grows
// ---------------------------------------------------------------------------------------

type liveFeeder struct {
	runID string
	left  int64
	pr    *fakeredis.PropReader
	br    *bufio.Reader
}

func newLiveFeeder(runID string, left int64, p *fakeredis.Propagation, bufSize int) *liveFeeder {
	pr := p.Reader(left)
	return &liveFeeder{runID: runID, left: left, pr: pr, br: bufio.NewReaderSize(pr, bufSize)}
}

func (f *liveFeeder) Start(wait usync.WaitCloser) {}
func (f *liveFeeder) Left() int64                 { return f.left }
func (f *liveFeeder) RunId() string               { return f.runID }
func (f *liveFeeder) Size() int64                 { return -1 }
func (f *liveFeeder) IoReader() *bufio.Reader     { return f.br }
func (f *liveFeeder) IsAof() bool                 { return true }
func (f *liveFeeder) Close()                      { f.pr.Close() }

var _ syncer.ChannelReader = (*liveFeeder)(nil)

// ---------------------------------------------------------------------------------------
// links: one real RedisOutput per direction
// ---------------------------------------------------------------------------------------

type loopCfg struct {
	Mode         config.ReplayMode
	Window       uint
	Filter       string // none | prefix-whitelist | prefix-blacklist | whitelist+cmd-blacklist
	Snapshot     bool   // site A starts with a dataset
	Restore      bool   // replay.replayRdbEnableRestore
	Version      string // Redis version of both doubles (propagation wraps single-command transactions below 7)
	BufSize      int
	Conflict     bool // a replication-lag window with conflicting writes on shared keys
	Clients      int  // harness client connections per site
	OpsPerClient int  // script length (steps) per client
	LateReverse  bool // link B→A starts after A→B finished its snapshot phase, from a snapshot of B's dataset at that moment
	// link restarts inside the loop ("" = the link runs uninterrupted): orderly = stopped after
	// EventK units were committed since the last frontier write seen, and started again;
	// lost-reply = the EventK-th EXEC of the link is executed and its connection dies unanswered
	EventAB, EventBA string
	EventK           int
	// snapshot phase against a peer that already holds some of the snapshot's keys (an earlier
	// migration, a client that created them): Preload = every second dataset key of A is at B,
	// with the same content, before anything starts; KeyExists = replay.keyExists of both links
	Preload   bool
	KeyExists string
}

func (c loopCfg) String() string {
	return fmt.Sprintf("mode=%s window=%d filter=%s snapshot=%v restore=%v version=%s buf=%d conflict=%v late-reverse=%v clients=%d ops=%d restart[A→B]=%q restart[B→A]=%q k=%d preload=%v keyExists=%s",
		c.Mode, c.Window, c.Filter, c.Snapshot, c.Restore, c.Version, c.BufSize, c.Conflict, c.LateReverse, c.Clients, c.OpsPerClient, c.EventAB, c.EventBA, c.EventK, c.Preload, c.KeyExists)
}

const (
	whitePrefix = "biz:"
	blackPrefix = "tmp:"
	blackCmd    = "append"
)

func (c loopCfg) filterConfig() config.FilterConfig {
	switch c.Filter {
	case "prefix-whitelist":
		return config.FilterConfig{KeyFilter: &config.FilterKeyConfig{PrefixKeyWhitelist: config.SliceString{whitePrefix}}}
	case "prefix-blacklist":
		return config.FilterConfig{KeyFilter: &config.FilterKeyConfig{PrefixKeyBlacklist: config.SliceString{blackPrefix}}}
	case "cmd-blacklist":
		return config.FilterConfig{CmdBlacklist: config.SliceString{blackCmd}}
	case "whitelist+cmd-blacklist":
		return config.FilterConfig{CmdBlacklist: config.SliceString{blackCmd}, KeyFilter: &config.FilterKeyConfig{PrefixKeyWhitelist: config.SliceString{whitePrefix}}}
	}
	return config.FilterConfig{}
}

// refFilter is the oracle's own reading of the configured filters: the reference rules of
// internal/ref (a transcription of the filter statement, independent of pkg/filter).
func (c loopCfg) refFilter() *ref.Filter {
	fc := ref.FilterConfig{Bookkeeping: []string{config.CheckpointKey, config.NamespacePrefixKey}}
	switch c.Filter {
	case "prefix-whitelist":
		fc.PrefixWhite = []string{whitePrefix}
	case "prefix-blacklist":
		fc.PrefixBlack = []string{blackPrefix}
	case "cmd-blacklist":
		fc.CmdBlacklist = []string{blackCmd}
	case "whitelist+cmd-blacklist":
		fc.PrefixWhite, fc.CmdBlacklist = []string{whitePrefix}, []string{blackCmd}
	}
	return ref.NewFilter(fc)
}

// project: what the peer must execute for a propagated command — the command itself, its
// restriction to the accepted keys (DEL / UNLINK / MSET), or nothing.
func project(f *ref.Filter, cmd string, args [][]byte) (want [][]byte, forwarded bool) {
	out, fwd, judged := f.Command(0, cmd, args)
	if !judged {
		// outside the reference key table: first argument is the key
		if len(args) > 0 && f.KeyRejected(args[0]) {
			return nil, false
		}
		return args, true
	}
	return out, fwd
}

var openMu sync.Mutex

// openOutput performs the tool's real start-up bookkeeping (syncer.newOutput through the verif
// hook) for the link src→dst under the process-global configuration of this loop.
func openOutput(c loopCfg, src, dst *site) (*syncer.RedisOutput, error) {
	openMu.Lock()
	defer openMu.Unlock()
	tr := true
	restore := c.Restore
	tdb := -1
	g := config.GetSyncerConfig()
	g.Input = &config.InputConfig{}
	g.Channel = &config.ChannelConfig{}
	g.Output = &config.OutputConfig{Replay: config.ReplayConfig{
		ResumeFromBreakPoint: &tr, BisyncEnabled: &tr, ReplayRdbEnableRestore: &restore, ReplayTransaction: &tr,
		KeyExists: c.KeyExists, MaxProtoBulkLen: 512 << 20, TargetDbCfg: &tdb, TargetDb: -1,
		BatchCmdCount: c.Window, BatchTicker: 10 * time.Millisecond, BatchBufferSize: 64 * 1024, KeepaliveTicker: time.Hour,
		ReplayRdbParallel: 1, UpdateCheckpointTicker: time.Hour, Mode: c.Mode,
		Stats: config.OutputStats{DisableLog: true, LogInterval: time.Hour},
	}, Filter: c.filterConfig()}
	scfg := syncer.SyncerConfig{Id: 1, Input: drive.StandaloneRedis(src.srv.Addr(), c.Version), Output: drive.StandaloneRedis(dst.srv.Addr(), c.Version),
		Channel:        config.ChannelConfig{Type: config.ChannelTypeMemory, Memory: &config.MemoryConfig{MaxSize: 1 << 20, LogSize: 1 << 16}},
		CanTransaction: true}
	return syncer.VerifNewOutput(scfg)
}

// restart is one link restart inside a loop.
type restart struct {
	Kind string // orderly | lost-reply
	// Mark: length of the destination's effect log when the new incarnation began (after the old
	// incarnation's connections had gone quiet): executions below Mark belong to earlier incarnations
	Mark int
	SP   int64 // offset the new incarnation resumed from
}

type link struct {
	name     string // "A→B"
	src, dst *site
	ids      []string

	mu         sync.Mutex
	feeder     *liveFeeder
	curCancel  context.CancelFunc // cancels the running incarnation
	restartReq bool               // an orderly stop-and-restart was requested
	restarts   []restart
	ready      chan struct{} // closed once the incremental phase reads the live stream
	readyOnce  sync.Once
	snapOK     chan struct{} // closed once the snapshot phase has completed
	done       chan struct{} // closed when the link's life ended; result holds why (nil = stopped by the harness)
	result     error
	cancel     context.CancelFunc
}

func newLink(src, dst *site) *link {
	return &link{name: src.name + "→" + dst.name, src: src, dst: dst, ids: []string{src.replid, strings.Repeat("0", 40)},
		ready: make(chan struct{}), snapOK: make(chan struct{}), done: make(chan struct{})}
}

// start runs the link's life in a goroutine.  A life is a sequence of incarnations: each one is
// what a (re)started process does — start-up bookkeeping through syncer.newOutput, StartPoint,
// (first incarnation only: Send(snapshot reader), StartPoint again), Send(live log reader at the
// returned offset) — and ends by an orderly stop the schedule asked for (context cancellation),
// by the error an injected lost reply makes Send return, or by the harness' final stop.
// snap returns the snapshot of the source and its offset at the moment the link asks for it.
func (l *link) start(parent context.Context, c loopCfg, snap func() ([]byte, int64)) {
	ctx, cancel := context.WithCancel(parent)
	l.cancel = cancel
	go func() {
		l.result = l.life(ctx, c, snap)
		close(l.done)
	}()
}

func (l *link) life(ctx context.Context, c loopCfg, snap func() ([]byte, int64)) error {
	for n := 0; ; n++ {
		ictx, icancel := context.WithCancel(ctx)
		l.mu.Lock()
		l.curCancel = icancel
		l.mu.Unlock()
		err := l.incarnation(ictx, c, snap, n)
		icancel()
		if ctx.Err() != nil {
			return nil // stopped by the harness
		}
		l.mu.Lock()
		orderly := l.restartReq
		l.restartReq = false
		l.mu.Unlock()
		kind := ""
		switch {
		case orderly:
			kind = "orderly"
		case l.dst.takeFaultFired():
			kind = "lost-reply"
		default:
			return err
		}
		if n > 8 {
			return fmt.Errorf("too many restarts; last end: %v", err)
		}
		// let the old incarnation's connections drain at the destination before the next start
		// reads the resume position (what was in flight has then either been executed or dropped)
		l.dst.waitLinkQuiet()
		l.mu.Lock()
		l.restarts = append(l.restarts, restart{Kind: kind, Mark: l.dst.appliedLen(), SP: -1})
		l.mu.Unlock()
	}
}

func (l *link) incarnation(ctx context.Context, c loopCfg, snap func() ([]byte, int64), n int) error {
	out, err := openOutput(c, l.src, l.dst)
	if err != nil {
		return fmt.Errorf("start-up bookkeeping: %w", err)
	}
	sp, err := out.StartPoint(ctx, l.ids)
	if err != nil {
		return fmt.Errorf("StartPoint: %w", err)
	}
	if n == 0 {
		if sp.Offset >= 0 {
			return fmt.Errorf("first StartPoint on an empty namespace returned %+v", sp)
		}
		rdb, off := snap()
		ss := &drive.Session{IDs: l.ids, Out: out, Watch: 60 * time.Second}
		if err := ss.FullSync(ctx, rdb, off); err != nil {
			return fmt.Errorf("snapshot phase: %w", err)
		}
		sp, err = out.StartPoint(ctx, l.ids)
		if err != nil {
			return fmt.Errorf("second StartPoint: %w", err)
		}
		if sp.Offset != off {
			return fmt.Errorf("StartPoint after the snapshot phase returned %+v, snapshot offset %d", sp, off)
		}
		close(l.snapOK)
	} else {
		if sp.Offset < 0 {
			return fmt.Errorf("restart %d: StartPoint found no resume position (%+v)", n, sp)
		}
		l.mu.Lock()
		l.restarts[len(l.restarts)-1].SP = sp.Offset
		l.mu.Unlock()
	}
	f := newLiveFeeder(l.ids[0], sp.Offset, l.src.prop, c.BufSize)
	l.mu.Lock()
	l.feeder = f
	l.mu.Unlock()
	l.readyOnce.Do(func() { close(l.ready) })
	err = out.Send(ctx, f)
	f.Close()
	return fmt.Errorf("incremental phase ended: %v", err)
}

// requestRestart asks for an orderly stop-and-restart (called from the destination's hooks).
func (l *link) requestRestart() {
	l.mu.Lock()
	l.restartReq = true
	c := l.curCancel
	l.mu.Unlock()
	if c != nil {
		c()
	}
}

func (l *link) restartLog() []restart {
	l.mu.Lock()
	defer l.mu.Unlock()
	return append([]restart{}, l.restarts...)
}

func (l *link) hold() {
	l.mu.Lock()
	f := l.feeder
	l.mu.Unlock()
	if f != nil {
		f.pr.Hold()
	}
}

func (l *link) release() {
	l.mu.Lock()
	f := l.feeder
	l.mu.Unlock()
	if f != nil {
		f.pr.Release()
	}
}

// stop cancels the link and waits for its goroutine.
func (l *link) stop(watch time.Duration) (error, bool) {
	if l.cancel != nil {
		l.cancel()
	}
	l.mu.Lock()
	f := l.feeder
	l.mu.Unlock()
	if f != nil {
		f.Close()
	}
	select {
	case <-l.done:
		return l.result, true
	case <-time.After(watch):
		return nil, false
	}
}
