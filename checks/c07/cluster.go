package main

// Cluster targets: there the stored resume position does not travel inside the batch it covers (a
// cluster batch is fanned out per node without MULTI/EXEC); it is written by a request of its own
// once the batch is acknowledged - by the sender itself (blocking) or by the receiver goroutine of
// the pipelined sender.  The sweeps of internal/sweep drive a standalone target; this class runs
// the real RedisOutput against a three-node cluster double, in both sending modes, and judges the
// sequence of values written to <runid>_offset in the order the cluster executed them: command
// boundaries only, never decreasing.  Some of the position writes "arrive late" (ArrivalDelay of
// the double: the request has been read from its connection and is executed 4-25 ms later), which
// is where a position write that is not ordered behind its predecessor shows.

import (
	"context"
	"fmt"
	"math/rand"
	"os"
	"strconv"
	"strings"
	"sync"
	"sync/atomic"
	"time"

	"github.com/mgtv-tech/redis-GunYu/config"
	"github.com/mgtv-tech/redis-GunYu/pkg/redis"
	"github.com/mgtv-tech/redis-GunYu/pkg/redis/checkpoint"

	"verif/internal/drive"
	"verif/internal/fakeredis"
	"verif/internal/harness"
)

func resp(args ...string) []byte {
	var b strings.Builder
	fmt.Fprintf(&b, "*%d\r\n", len(args))
	for _, a := range args {
		fmt.Fprintf(&b, "$%d\r\n%s\r\n", len(a), a)
	}
	return []byte(b.String())
}

func clusterPositions(run *harness.Run) {
	n := run.N(24, 400)
	harness.Parallel(n, 6, func(i int) {
		key := fmt.Sprintf("cluster-%d", i)
		if !run.WantCase(key) {
			return
		}
		clusterCase(run, key, run.Rand(key), i)
	})
}

func clusterCase(run *harness.Run, key string, r *rand.Rand, idx int) {
	pipe := idx%2 == 0
	const nodes = 3
	cl := fakeredis.NewCluster(nodes, fakeredis.Options{Version: "6.2.0"})
	defer cl.Close()
	full := config.RedisConfig{Addresses: cl.Addrs(), Type: config.RedisTypeCluster, Otype: config.RedisTypeCluster, Version: "6.2.0",
		ClusterOptions: &config.RedisClusterOptions{HandleMoveErr: true, HandleAskErr: true}}
	if err := redis.FixTopology(&full); err != nil {
		run.Inconclusive("%s: FixTopology: %v", key, err)
		return
	}
	cpName := config.CheckpointKey
	runID := fmt.Sprintf("%040x", r.Uint64())
	ids := []string{runID, strings.Repeat("0", 40)} // the source reports its previous id too
	cfg := drive.OutputConfig("", runID)
	cfg.Redis = full
	cfg.CheckpointName = cpName
	cfg.CanTransaction = false
	cfg.ReplayPipeline = pipe
	cfg.BatchCmdCount = uint(2 + r.Intn(9))
	cfg.BatchBufferSize = 64 << 10
	cfg.BatchTicker = time.Duration(1+r.Intn(4)) * time.Millisecond
	cfg.KeepaliveTicker = time.Duration(15+r.Intn(30)) * time.Millisecond
	cfg.UpdateCheckpointTicker = time.Duration(2+r.Intn(6)) * time.Millisecond

	// the stream: single-key writes spread over the slots, each with its end offset
	base := int64(1000 + r.Intn(1<<20))
	var bytes []byte
	boundary := map[int64]bool{base: true}
	ncmd := 120 + r.Intn(200)
	for c := 0; c < ncmd; c++ {
		k := fmt.Sprintf("{%s-t%d}:k%d", key, r.Intn(40), r.Intn(5))
		var b []byte
		switch r.Intn(4) {
		case 0:
			b = resp("PING")
		case 1:
			b = resp("APPEND", k, fmt.Sprintf("~%s.%d~", key, c))
		default:
			b = resp("SET", k, fmt.Sprintf("~%s.%d~%s", key, c, strings.Repeat("x", r.Intn(200))))
		}
		bytes = append(bytes, b...)
		boundary[base+int64(len(bytes))] = true
	}
	last := resp("SET", fmt.Sprintf("{%s-end}:k", key), "end")
	bytes = append(bytes, last...)
	endOff := base + int64(len(bytes))
	boundary[endOff] = true

	ctx := context.Background()
	ss, err := drive.NewSession(cfg, ids)
	if err != nil {
		run.Inconclusive("%s: session: %v", key, err)
		return
	}
	if _, err := ss.Out.StartPoint(ctx, ids); err != nil {
		run.Inconclusive("%s: startpoint: %v", key, err)
		return
	}
	if err := ss.FullSync(ctx, drive.EmptyRDB, base); err != nil {
		run.Inconclusive("%s: initial full sync: %v", key, err)
		return
	}
	sp, err := ss.Out.StartPoint(ctx, ids)
	if err != nil || sp.Offset != base {
		run.Inconclusive("%s: startpoint after full sync: %v %v", key, sp, err)
		return
	}
	reqBase := cl.ReqCount()
	cpField := (&checkpoint.CheckpointInfo{RunId: runID}).OffsetKey()
	isCp := func(args [][]byte) (int64, bool) {
		if len(args) >= 4 && strings.EqualFold(string(args[0]), "HSET") && string(args[1]) == cpName {
			for j := 2; j+1 < len(args); j += 2 {
				if string(args[j]) == cpField {
					v, err := strconv.ParseInt(string(args[j+1]), 10, 64)
					return v, err == nil
				}
			}
		}
		return 0, false
	}
	// every third position write (counted per node, in arrival order) arrives late
	var late, delayed atomic.Int64
	dl := time.Duration(4+r.Intn(22)) * time.Millisecond
	// one case in three is stopped in mid-traffic: the replay is cancelled at the moment the k-th
	// late position write has been read from its connection (it is executed 80 ms later) and the tool
	// has taken in a few more commands (logical event: the feeder's byte counter moved on), while the
	// source keeps sending - whatever the stopping sender stores on its way out is executed around
	// a position write of the running replay that is still on its way
	stopAtLate := int64(0)
	if idx%3 == 2 {
		stopAtLate = int64(2 + r.Intn(8))
	}
	stopNow := make(chan struct{})
	var stopOnce sync.Once
	for i := 0; i < nodes; i++ {
		cl.Node(i).ArrivalDelay = func(args [][]byte) {
			if _, ok := isCp(args); ok && late.Add(1)%3 == 1 {
				if n := delayed.Add(1); n == stopAtLate {
					stopOnce.Do(func() { close(stopNow) })
					time.Sleep(80 * time.Millisecond)
					return
				}
				time.Sleep(dl)
			}
		}
	}
	cpAtEnd := make(chan struct{})
	var once sync.Once
	cl.SetOnApplied(func(a *fakeredis.CApp) {
		if v, ok := isCp(append([][]byte{[]byte(a.Cmd)}, a.Args...)); ok && v == endOff {
			once.Do(func() { close(cpAtEnd) })
		}
	})
	plan := drive.Plan(r, bytes, time.Duration(1+r.Intn(3))*time.Millisecond, r.Intn(4))
	ar := ss.SendAof(ctx, sp.Offset, plan, false, 64<<10)
	outcome := "completed"
	select {
	case <-cpAtEnd:
		time.Sleep(3 * cfg.UpdateCheckpointTicker) // a few more ticks: late writes of older positions would land now
		if _, ok := ar.Stop(60 * time.Second); !ok {
			run.Inconclusive("%s: Send did not return after cancel", key)
			return
		}
	case <-stopNow:
		outcome = "stopped in mid-traffic"
		// (the wait shapes the schedule only: the verdict is on the order of the executed writes)
		for h0, t0 := ar.F.Handed(), time.Now(); ar.F.Handed() < h0+300 && time.Since(t0) < 40*time.Millisecond; {
			time.Sleep(200 * time.Microsecond)
		}
		if _, ok := ar.Stop(60 * time.Second); !ok {
			run.Inconclusive("%s: Send did not return after cancel (mid-traffic)", key)
			return
		}
		run.Count("cluster_runs_stopped_while_a_position_write_was_on_its_way", 1)
	case e := <-ar.Done:
		outcome = fmt.Sprintf("send returned: %v", e)
		ar.F.Abort()
	case <-time.After(60 * time.Second):
		ar.Stop(10 * time.Second)
		run.Inconclusive("%s: watchdog: the stored position never reached the end of the stream (pipe=%v)", key, pipe)
		return
	}
	cl.WaitIdle(200*time.Millisecond, 10*time.Second)
	cl.SetOnApplied(nil)

	run.Eval(1)
	mode := fmt.Sprintf("txn=false|pipe=%v", pipe)
	var seq []int64
	var trace []string
	for _, q := range cl.Requests() {
		if q.GReq <= reqBase {
			continue
		}
		all := append([][]byte{[]byte(q.Cmd)}, q.Args...)
		if v, ok := isCp(all); ok {
			seq = append(seq, v)
			trace = append(trace, fmt.Sprintf("req %d node%d conn%d -> %d", q.GReq, q.Node, q.Conn, v))
		}
	}
	if os.Getenv("C07_DEBUG") != "" && outcome == "stopped in mid-traffic" {
		t := trace
		if len(t) > 6 {
			t = t[len(t)-6:]
		}
		fmt.Printf("DEBUG %s pipe=%v end=%d %s\n", key, pipe, endOff, strings.Join(t, " | "))
	}
	run.Count("cluster_position_writes", int64(len(seq)))
	run.Count("cluster_position_writes_that_arrived_late", delayed.Load())
	if len(seq) < 2 {
		run.Inconclusive("%s: only %d position writes observed (%s)", key, len(seq), outcome)
		return
	}
	wit := func() map[string]any {
		if len(trace) > 120 {
			trace = append(trace[:60], trace[len(trace)-60:]...)
		}
		return map[string]any{"config": fmt.Sprintf("%s batch=%d tick=%v cp=%v ka=%v late=%v", mode, cfg.BatchCmdCount, cfg.BatchTicker, cfg.UpdateCheckpointTicker, cfg.KeepaliveTicker, dl),
			"stream_base": base, "stream_end": endOff, "position_writes_in_execution_order": trace, "outcome": outcome}
	}
	prev := base
	for j, v := range seq {
		if !boundary[v] {
			run.Violation("cluster|position-not-a-command-boundary|"+mode, key,
				fmt.Sprintf("position write #%d stores %d, which is neither the start offset %d nor the end of a source command", j, v, base), wit())
			return
		}
		if v < prev {
			run.Violation("cluster|position-decreased|"+mode, key,
				fmt.Sprintf("position write #%d stores %d after %d had been stored: on a cluster target the position is written by a request of its own, and a later one was executed before an earlier one", j, v, prev), wit())
			return
		}
		prev = v
	}
	run.Distinct(fmt.Sprintf("cluster|%s|writes=%s|late=%v|%s", mode, map[bool]string{true: "many", false: "few"}[len(seq) > 20], delayed.Load() > 0, map[bool]string{true: "stopped-mid-traffic", false: "ran-to-the-end"}[outcome == "stopped in mid-traffic"]))
}
