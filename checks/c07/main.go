// C07 — the stored resume position only moves forward along command boundaries.
// Request-prefix crash sweep of incremental replay (see internal/sweep).
package main

import (
	"time"

	"verif/internal/drive"
	"verif/internal/harness"
	"verif/internal/sweep"
)

func main() {
	drive.Quiet()
	run := harness.New("C07", "fault_enumeration",
		"base run = PRNG(seed,i) → (configuration, generated stream, feeding plan); crash points = EVERY prefix of the requests the target executed "+
			"during the base run's incremental phase (grouped by the target state they leave; one fresh tool instance is started per distinct state), "+
			"plus a PRNG-chosen subset of second/third crashes inside resumed runs; exhaustive per observed request sequence, not over schedules; "+
			"distinct = (mode, depth, kind of source command the resume position ends at, inside/outside a source transaction, whether the resumed run repeated writes)")
	run.Watchdog(110 * time.Minute)
	run.Assume("target state after a crash = effects of a prefix of the requests the double executed; open MULTI blocks are discarded (fakeredis)")
	run.Assume("a restarted instance performs checkpoint.UpdateCheckpoint, StartPoint, then Send from the returned offset (mirrors syncer.newOutput + RedisInput.run)")
	run.MinDistinct(4)
	depth := 2
	if !run.Quick() {
		depth = 3
	}
	sweep.Explore(run, sweep.Options{Prop: "C07", Bias: "idle", NBase: run.N(120, 1500), Depth: depth, DeepPct: 12, Workers: 6, CleanStops: 4})
	run.Assume("cluster class: three-node cluster double without topology changes, non-transactional replay (blocking and pipelined), position writes that arrive 4-25 ms late on their connection")
	clusterPositions(run)
	run.Exit()
}
