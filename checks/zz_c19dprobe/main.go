package main

import (
	"bufio"
	"fmt"
	"net"
	"strings"
	"time"

	"verif/internal/fakeredis"
)

func main() {
	cl := fakeredis.NewCluster(1, fakeredis.Options{})
	defer cl.Close()
	seen := 0
	cl.Node(0).SetHooks(nil, nil, func(q *fakeredis.Req) bool {
		seen++
		return seen == 3
	})
	c, _ := net.Dial("tcp", cl.Addr(0))
	bw := bufio.NewWriterSize(c, 4096)
	pad := strings.Repeat("x", 64*1024)
	var err error
	n := 0
	t0 := time.Now()
	for i := 0; i < 200 && err == nil; i++ {
		_, err = fmt.Fprintf(bw, "*3\r\n$3\r\nSET\r\n$2\r\nk%d\r\n$%d\r\n%s\r\n", i%10, len(pad), pad)
		n++
	}
	if err == nil {
		err = bw.Flush()
	}
	fmt.Println("write result after", n, "commands:", err, time.Since(t0))
	buf := make([]byte, 100)
	c.SetReadDeadline(time.Now().Add(time.Second))
	m, rerr := c.Read(buf)
	fmt.Println("read:", m, rerr, "server executed", len(cl.Applied()))
}
