package harness

import (
	"bufio"
	"encoding/json"
	"fmt"
	"os"
	"os/exec"
	"runtime"
	"strconv"
	"strings"
	"sync"
	"syscall"
	"time"
)

// CaseResult is what one case reports back to the aggregating parent process.
type CaseResult struct {
	Evals        int                 `json:"evals"`
	Distinct     []string            `json:"distinct,omitempty"`
	Counts       map[string]int64    `json:"counts,omitempty"`
	Seen         map[string][]string `json:"seen,omitempty"`
	Violations   []CaseViolation     `json:"violations,omitempty"`
	Samples      []any               `json:"samples,omitempty"`
	Inconclusive []string            `json:"inconclusive,omitempty"`
	// RestartWorker asks the worker process to exit after reporting this case (e.g. a goroutine of
	// the code under test is left spinning); the parent continues with a fresh worker.
	RestartWorker bool `json:"restart_worker,omitempty"`
}

type CaseViolation struct {
	Sig     string `json:"sig"`
	What    string `json:"what"`
	Witness any    `json:"witness"`
}

func (c *CaseResult) Count(k string, n int64) {
	if c.Counts == nil {
		c.Counts = map[string]int64{}
	}
	c.Counts[k] += n
}
func (c *CaseResult) SeenAdd(set, member string) {
	if c.Seen == nil {
		c.Seen = map[string][]string{}
	}
	for _, m := range c.Seen[set] {
		if m == member {
			return
		}
	}
	c.Seen[set] = append(c.Seen[set], member)
}
func (c *CaseResult) Violation(sig, what string, witness any) {
	c.Violations = append(c.Violations, CaseViolation{sig, what, witness})
}
func (c *CaseResult) Inconc(format string, a ...any) {
	c.Inconclusive = append(c.Inconclusive, fmt.Sprintf(format, a...))
}
func (c *CaseResult) DistinctAdd(sig string) { c.Distinct = append(c.Distinct, sig) }
func (c *CaseResult) Sample(v any)           { c.Samples = append(c.Samples, v) }

type shardMsg struct {
	T    string      `json:"t"` // start | done | trip
	Case string      `json:"case"`
	Why  string      `json:"why,omitempty"`
	Res  *CaseResult `json:"res,omitempty"`
}

// ShardOptions configure RunSharded.
type ShardOptions struct {
	Shards         int
	PerCaseTimeout time.Duration // wall-clock guard per case; firing → the case is retried alone
	MemLimitMB     int           // child RSS guard (0 = 6144)
	// AbnormalSig, when non-nil, turns a case that kills its process / hangs / trips the memory
	// guard (confirmed by 2 isolated re-runs) into a violation with the returned signature;
	// nil → such cases are inconclusive.
	AbnormalSig func(key, why, tail string) (sig, what string)
	// Group, when non-nil, partitions the keys: a worker process only ever handles keys of one
	// group (for process-global settings that must not change while goroutines of an earlier
	// case may still be alive).
	Group func(key string) string
}

const shardPrefix = "@@SHARD "

// IsShardChild reports whether this process is a shard worker.
func IsShardChild() bool { return os.Getenv("VERIF_SHARD_KEYS") != "" }

// RunSharded runs caseFn for every key.  In the parent it spawns worker processes (the same
// binary) each handling a subset of keys sequentially and aggregates their results into run; a
// worker that dies, hangs or exceeds the memory guard identifies the offending case exactly
// (its journal line) and the remaining keys are handed to a fresh worker.  In a worker process
// it runs the cases and never returns (os.Exit).
func RunSharded(run *Run, keys []string, o ShardOptions, caseFn func(key string, res *CaseResult)) {
	if IsShardChild() {
		shardChild(o, caseFn)
		return
	}
	if o.Shards <= 0 {
		o.Shards = runtime.NumCPU()
	}
	if o.PerCaseTimeout == 0 {
		o.PerCaseTimeout = 90 * time.Second
	}
	var want []string
	for _, k := range keys {
		if run.WantCase(k) {
			want = append(want, k)
		}
	}
	if len(want) == 0 {
		return
	}
	var shards [][]string
	if o.Group != nil {
		groups := map[string][]string{}
		var order []string
		for _, k := range want {
			g := o.Group(k)
			if _, ok := groups[g]; !ok {
				order = append(order, g)
			}
			groups[g] = append(groups[g], k)
		}
		// split every group into pieces so that about o.Shards workers run at a time
		per := (len(want) + o.Shards - 1) / o.Shards
		if per < 1 {
			per = 1
		}
		for _, g := range order {
			ks := groups[g]
			for len(ks) > 0 {
				n := per
				if n > len(ks) {
					n = len(ks)
				}
				shards = append(shards, ks[:n])
				ks = ks[n:]
			}
		}
	} else {
		if o.Shards > len(want) {
			o.Shards = len(want)
		}
		shards = make([][]string, o.Shards)
		for i, k := range want {
			shards[i%o.Shards] = append(shards[i%o.Shards], k)
		}
	}
	sem := make(chan struct{}, o.Shards)
	var wg sync.WaitGroup
	for _, sh := range shards {
		wg.Add(1)
		go func(sh []string) {
			defer wg.Done()
			sem <- struct{}{}
			defer func() { <-sem }()
			rest := sh
			for len(rest) > 0 {
				bad, why, tail, done := runWorker(run, rest, o, false)
				rest = rest[done:]
				if bad == "" {
					continue
				}
				// confirm in isolation (twice) before calling it anything
				confirmed := 0
				lastWhy, lastTail := why, tail
				for i := 0; i < 2; i++ {
					b2, w2, t2, _ := runWorker(run, []string{bad}, o, true)
					if b2 != "" {
						confirmed++
						lastWhy, lastTail = w2, t2
					}
				}
				if confirmed == 2 && o.AbnormalSig != nil {
					sig, what := o.AbnormalSig(bad, lastWhy, lastTail)
					run.Eval(1)
					run.Violation(sig, bad, what, map[string]any{"why": lastWhy, "output_tail": lastTail})
				} else if confirmed == 2 {
					run.Inconclusive("%s: worker %s (confirmed twice in isolation)", bad, lastWhy)
				} else if confirmed == 0 {
					// passed alone: results were merged by the isolated run; first failure was load
					run.Count("cases_retried_in_isolation", 1)
				} else {
					run.Inconclusive("%s: worker %s in 1 of 2 isolated re-runs", bad, lastWhy)
				}
				// skip the bad case, continue with the rest
				if len(rest) > 0 && rest[0] == bad {
					rest = rest[1:]
				}
			}
		}(sh)
	}
	wg.Wait()
}

// runWorker runs one worker over keys; returns the key it died on ("" if none), why, the
// tail of its output, and how many keys completed.  isolated: results of a re-run are merged too.
func runWorker(run *Run, keys []string, o ShardOptions, isolated bool) (bad, why, tail string, done int) {
	exe, err := os.Executable()
	if err != nil {
		run.Inconclusive("os.Executable: %v", err)
		return "", "", "", len(keys)
	}
	cmd := exec.Command(exe)
	cmd.Env = append(os.Environ(), "VERIF_SHARD_KEYS="+strings.Join(keys, "\x1f"),
		"VERIF_SEED="+strconv.FormatInt(run.Seed, 10), "VERIF_TIER="+run.Tier, "VERIF_CASE=", "VERIF_REPLAY=")
	cmd.SysProcAttr = &syscall.SysProcAttr{Setpgid: true}
	out, err := cmd.StdoutPipe()
	if err != nil {
		run.Inconclusive("pipe: %v", err)
		return "", "", "", len(keys)
	}
	cmd.Stderr = cmd.Stdout
	if err := cmd.Start(); err != nil {
		run.Inconclusive("start worker: %v", err)
		return "", "", "", len(keys)
	}
	lines := make(chan string, 256)
	go func() {
		sc := bufio.NewScanner(out)
		sc.Buffer(make([]byte, 1<<20), 256<<20)
		for sc.Scan() {
			lines <- sc.Text()
		}
		close(lines)
	}()
	var tailBuf []string
	lastPos := ""
	withPos := func(t []string) string {
		if lastPos != "" {
			t = append([]string{lastPos}, t...)
		}
		return strings.Join(t, "\n")
	}
	current := ""
	timer := time.NewTimer(o.PerCaseTimeout)
	defer timer.Stop()
	kill := func() {
		syscall.Kill(-cmd.Process.Pid, syscall.SIGKILL)
		cmd.Wait()
	}
	for {
		select {
		case ln, ok := <-lines:
			if !ok {
				err := cmd.Wait()
				if current != "" || done < len(keys) {
					if current == "" && done < len(keys) {
						current = keys[done]
					}
					return current, fmt.Sprintf("died (%v)", err), withPos(tailBuf), done
				}
				return "", "", "", done
			}
			if !strings.HasPrefix(ln, shardPrefix) {
				if strings.HasPrefix(ln, "P ") {
					lastPos = ln
					continue
				}
				tailBuf = append(tailBuf, ln)
				if len(tailBuf) > 60 {
					tailBuf = tailBuf[len(tailBuf)-60:]
				}
				continue
			}
			var m shardMsg
			if json.Unmarshal([]byte(ln[len(shardPrefix):]), &m) != nil {
				continue
			}
			switch m.T {
			case "start":
				current = m.Case
				if !timer.Stop() {
					select {
					case <-timer.C:
					default:
					}
				}
				timer.Reset(o.PerCaseTimeout)
			case "done":
				mergeCase(run, m.Case, m.Res)
				current = ""
				done++
			case "bye":
				// voluntary exit after a reported case: not a failure
				cmd.Wait()
				return "", "", "", done
			case "trip":
				kill()
				return m.Case, m.Why, withPos(tailBuf), done
			}
		case <-timer.C:
			// ask for a goroutine dump first, then kill
			syscall.Kill(cmd.Process.Pid, syscall.SIGQUIT)
			deadline := time.After(3 * time.Second)
		drain:
			for {
				select {
				case ln, ok := <-lines:
					if !ok {
						break drain
					}
					if strings.HasPrefix(ln, "goroutine ") || strings.Contains(ln, "redis-GunYu/") {
						tailBuf = append(tailBuf, ln)
					}
					if len(tailBuf) > 200 {
						tailBuf = tailBuf[len(tailBuf)-200:]
					}
				case <-deadline:
					break drain
				}
			}
			kill()
			if current == "" && done < len(keys) {
				current = keys[done]
			}
			return current, fmt.Sprintf("no progress for %v (hang?)", o.PerCaseTimeout), withPos(tailBuf), done
		}
	}
}

func mergeCase(run *Run, key string, res *CaseResult) {
	if res == nil {
		return
	}
	run.Eval(res.Evals)
	for _, d := range res.Distinct {
		run.Distinct(d)
	}
	for k, v := range res.Counts {
		run.Count(k, v)
	}
	for s, ms := range res.Seen {
		for _, m := range ms {
			run.Seen(s, m)
		}
	}
	for _, v := range res.Violations {
		run.Violation(v.Sig, key, v.What, v.Witness)
	}
	for _, s := range res.Samples {
		run.Sample(s)
	}
	for _, s := range res.Inconclusive {
		run.Inconclusive("%s: %s", key, s)
	}
}

func shardChild(o ShardOptions, caseFn func(key string, res *CaseResult)) {
	keys := strings.Split(os.Getenv("VERIF_SHARD_KEYS"), "\x1f")
	w := bufio.NewWriter(os.Stdout)
	var mu sync.Mutex
	emit := func(m shardMsg) {
		b, _ := json.Marshal(m)
		mu.Lock()
		w.WriteString(shardPrefix)
		w.Write(b)
		w.WriteByte('\n')
		w.Flush()
		mu.Unlock()
	}
	limit := o.MemLimitMB
	if limit == 0 {
		limit = 6144
	}
	var cur string
	var curMu sync.Mutex
	go func() {
		for {
			time.Sleep(50 * time.Millisecond)
			if rssMB() > limit {
				curMu.Lock()
				c := cur
				curMu.Unlock()
				emit(shardMsg{T: "trip", Case: c, Why: fmt.Sprintf("resident memory above %d MiB (unbounded allocation?)", limit)})
				os.Exit(3)
			}
		}
	}()
	for _, k := range keys {
		curMu.Lock()
		cur = k
		curMu.Unlock()
		emit(shardMsg{T: "start", Case: k})
		res := &CaseResult{}
		caseFn(k, res)
		emit(shardMsg{T: "done", Case: k, Res: res})
		if res.RestartWorker {
			emit(shardMsg{T: "bye", Case: k})
			os.Exit(0)
		}
	}
	os.Exit(0)
}

func rssMB() int {
	b, err := os.ReadFile("/proc/self/statm")
	if err != nil {
		return 0
	}
	f := strings.Fields(string(b))
	if len(f) < 2 {
		return 0
	}
	pages, _ := strconv.Atoi(f[1])
	return pages * os.Getpagesize() / (1 << 20)
}
