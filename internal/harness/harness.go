// Package harness: verdict bookkeeping, evidence writer, known-findings matching, seeds and
// case selection shared by every check binary under /verif/checks.
package harness

import (
	"encoding/json"
	"fmt"
	"hash/fnv"
	"math/rand"
	"os"
	"path/filepath"
	"regexp"
	"sort"
	"strconv"
	"strings"
	"sync"
	"time"
)

// Root is the /verif directory (override with VERIF_ROOT for snapshot runs).
func Root() string {
	if r := os.Getenv("VERIF_ROOT"); r != "" {
		return r
	}
	return "/verif"
}

// OutRoot is where evidence/ and replay/ are written: Root() normally, a scratch directory
// when run.sh is pointed at a scratch copy of the repository (VERIF_REPO), so that trial runs
// against mutants never overwrite the evidence of the real tree.
func OutRoot() string {
	if r := os.Getenv("VERIF_OUT_ROOT"); r != "" {
		return r
	}
	return Root()
}

type Finding struct {
	Property  string `json:"property"`
	Signature string `json:"signature"` // exact, or regexp when prefixed with "re:"
	What      string `json:"what"`
}

type FixedEntry struct {
	Property string `json:"property"`
	Commit   string `json:"commit"`
	What     string `json:"what"`
	Line     string `json:"line"`
}

type findingsFile struct {
	Known []Finding    `json:"known"`
	Fixed []FixedEntry `json:"fixed"`
}

type violation struct {
	Sig     string
	What    string
	Replay  string
	Known   *Finding
	Witness any
}

type Run struct {
	Prop  string
	Tier  string
	Level string
	Seed  int64
	Rule  string

	start time.Time
	mu    sync.Mutex

	evals        int64
	distinct     map[string]struct{}
	samples      []any
	maxSamples   int
	extra        map[string]any
	counters     map[string]int64
	sets         map[string]map[string]struct{}
	viol         []violation
	violSigs     map[string]int
	inconclusive []string
	assumptions  []string
	exhaustive   bool
	findings     findingsFile
	caseFilter   string
	minDistinct  int
}

// New starts a run for property prop.  level is the evidence level category.
func New(prop, level, rule string) *Run {
	r := &Run{Prop: prop, Level: level, Rule: rule, start: time.Now(),
		distinct: map[string]struct{}{}, extra: map[string]any{}, counters: map[string]int64{},
		sets: map[string]map[string]struct{}{}, violSigs: map[string]int{}, maxSamples: 4, minDistinct: 2}
	r.Tier = os.Getenv("VERIF_TIER")
	if r.Tier != "thorough" {
		r.Tier = "quick"
	}
	r.Seed = 20260924
	if s := os.Getenv("VERIF_SEED"); s != "" {
		if v, err := strconv.ParseInt(s, 10, 64); err == nil {
			r.Seed = v
		}
	}
	r.caseFilter = os.Getenv("VERIF_CASE")
	if p := os.Getenv("VERIF_REPLAY"); p != "" {
		// a witness file: take seed, tier and case from it
		if b, err := os.ReadFile(p); err == nil {
			var w struct {
				Seed int64  `json:"seed"`
				Tier string `json:"tier"`
				Case string `json:"case"`
			}
			if json.Unmarshal(b, &w) == nil {
				r.Seed = w.Seed
				if w.Tier != "" {
					r.Tier = w.Tier
				}
				r.caseFilter = w.Case
			}
		}
	}
	b, err := os.ReadFile(filepath.Join(Root(), "known_findings.json"))
	if err == nil {
		_ = json.Unmarshal(b, &r.findings)
	}
	return r
}

func (r *Run) Quick() bool { return r.Tier != "thorough" }

// N picks the tier's case count.
func (r *Run) N(quick, thorough int) int {
	if r.Quick() {
		return quick
	}
	return thorough
}

// Rand returns a PRNG that is a deterministic function of (seed, salt).
func (r *Run) Rand(salt string) *rand.Rand {
	h := fnv.New64a()
	fmt.Fprintf(h, "%d|%s|%s", r.Seed, r.Prop, salt)
	return rand.New(rand.NewSource(int64(h.Sum64())))
}

// WantCase implements --replay: when a case filter is set only that case runs.
func (r *Run) WantCase(key string) bool {
	return r.caseFilter == "" || r.caseFilter == key
}

func (r *Run) Replaying() bool { return r.caseFilter != "" }

func (r *Run) Eval(n int) {
	r.mu.Lock()
	r.evals += int64(n)
	r.mu.Unlock()
}

// Distinct records a non-trivial case by its signature.
func (r *Run) Distinct(sig string) {
	r.mu.Lock()
	r.distinct[sig] = struct{}{}
	r.mu.Unlock()
}

func (r *Run) Sample(v any) {
	r.mu.Lock()
	if len(r.samples) < r.maxSamples {
		r.samples = append(r.samples, v)
	}
	r.mu.Unlock()
}

func (r *Run) Count(key string, n int64) {
	r.mu.Lock()
	r.counters[key] += n
	r.mu.Unlock()
}

func (r *Run) Counter(key string) int64 {
	r.mu.Lock()
	defer r.mu.Unlock()
	return r.counters[key]
}

// Seen adds member to the named set; the set size is reported in the evidence.
func (r *Run) Seen(set, member string) {
	r.mu.Lock()
	m := r.sets[set]
	if m == nil {
		m = map[string]struct{}{}
		r.sets[set] = m
	}
	m[member] = struct{}{}
	r.mu.Unlock()
}

func (r *Run) SeenCount(set string) int {
	r.mu.Lock()
	defer r.mu.Unlock()
	return len(r.sets[set])
}

func (r *Run) Set(key string, v any) {
	r.mu.Lock()
	r.extra[key] = v
	r.mu.Unlock()
}

func (r *Run) Assume(s string) {
	r.mu.Lock()
	r.assumptions = append(r.assumptions, s)
	r.mu.Unlock()
}

func (r *Run) Exhaustive(b bool) { r.exhaustive = b }

func (r *Run) MinDistinct(n int) { r.minDistinct = n }

// Inconclusive marks the run as neither held nor violated.
func (r *Run) Inconclusive(format string, a ...any) {
	r.mu.Lock()
	if len(r.inconclusive) < 50 {
		r.inconclusive = append(r.inconclusive, fmt.Sprintf(format, a...))
	}
	r.mu.Unlock()
}

// VerifInconclusives: the case-level inconclusive notes recorded so far (engine tests).
func (r *Run) VerifInconclusives() []string {
	r.mu.Lock()
	defer r.mu.Unlock()
	return append([]string(nil), r.inconclusive...)
}

func (r *Run) matchKnown(sig string) *Finding {
	for i := range r.findings.Known {
		f := &r.findings.Known[i]
		if f.Property != r.Prop {
			continue
		}
		if strings.HasPrefix(f.Signature, "re:") {
			if re, err := regexp.Compile("^(?:" + f.Signature[3:] + ")$"); err == nil && re.MatchString(sig) {
				return f
			}
		} else if f.Signature == sig {
			return f
		}
	}
	return nil
}

// Violation records a violated clause.  sig is the violation signature matched against
// known_findings.json; caseKey identifies the case for replay; witness is written to
// /verif/replay/<prop>/<file>.json for violations that are not known findings.
func (r *Run) Violation(sig, caseKey, what string, witness any) {
	r.mu.Lock()
	defer r.mu.Unlock()
	r.violSigs[sig]++
	if r.violSigs[sig] > 3 { // keep the first few witnesses per signature
		return
	}
	v := violation{Sig: sig, What: what, Witness: witness}
	if k := r.matchKnown(sig); k != nil {
		v.Known = k
	} else {
		dir := filepath.Join(OutRoot(), "replay", r.Prop)
		_ = os.MkdirAll(dir, 0o755)
		name := sanitize(sig) + "-" + sanitize(caseKey)
		if len(name) > 150 {
			h := fnv.New32a()
			h.Write([]byte(name))
			name = name[:130] + fmt.Sprintf("-%08x", h.Sum32())
		}
		p := filepath.Join(dir, name+".json")
		b, _ := json.MarshalIndent(map[string]any{
			"property": r.Prop, "seed": r.Seed, "tier": r.Tier, "case": caseKey,
			"signature": sig, "violated": what, "witness": witness,
		}, "", " ")
		_ = os.WriteFile(p, b, 0o644)
		v.Replay = p
	}
	r.viol = append(r.viol, v)
}

func (r *Run) ViolationCount() int {
	r.mu.Lock()
	defer r.mu.Unlock()
	n := 0
	for _, v := range r.viol {
		if v.Known == nil {
			n++
		}
	}
	return n
}

var sanRe = regexp.MustCompile(`[^A-Za-z0-9_.=+-]+`)

func sanitize(s string) string { return strings.Trim(sanRe.ReplaceAllString(s, "_"), "_") }

// Finish writes the evidence file, prints the verdict lines and returns the exit code:
// 0 held on what was observed, 1 violation, 2 inconclusive.
func (r *Run) Finish() int {
	r.mu.Lock()
	defer r.mu.Unlock()
	wall := time.Since(r.start).Seconds()

	realViol := 0
	knownPrinted := map[string]bool{}
	for _, v := range r.viol {
		if v.Known != nil {
			if !knownPrinted[v.Known.Signature] {
				knownPrinted[v.Known.Signature] = true
				fmt.Printf("KNOWN-FINDING: property=%s %s [%s] (%d occurrences)\n", r.Prop, v.Known.What, v.Sig, r.violSigs[v.Sig])
			}
			continue
		}
		realViol++
		fmt.Printf("VIOLATION property=%s replay=%s\n", r.Prop, v.Replay)
		fmt.Printf("  signature: %s\n  clause: %s\n", v.Sig, v.What)
	}
	// every listed finding of this property gets its line, also when this run (seed, tier, schedule)
	// did not happen to reproduce it
	if !r.Replaying() {
		for i := range r.findings.Known {
			f := &r.findings.Known[i]
			if f.Property == r.Prop && !knownPrinted[f.Signature] {
				knownPrinted[f.Signature] = true
				fmt.Printf("KNOWN-FINDING: property=%s %s [%s] (0 occurrences in this run)\n", r.Prop, f.What, f.Signature)
			}
		}
	}

	// Inconclusive comes in two kinds.  Case-level: one scenario could not be decided (a generous
	// watchdog fired on a loaded machine, a harness-side connection problem) while the others were.
	// Structural: the run as a whole observed too little to say anything.  Both are printed and
	// recorded; only the structural kind — or case-level ones beyond a small share of the run —
	// makes the check exit 2, so that one starved scenario does not turn a run of thousands of
	// decided ones into "no verdict".
	caseLevel := len(r.inconclusive)
	structural := 0
	if !r.Replaying() {
		if len(r.distinct) < r.minDistinct {
			r.inconclusive = append(r.inconclusive, fmt.Sprintf("only %d distinct non-trivial cases observed (floor %d)", len(r.distinct), r.minDistinct))
			structural++
		}
		if r.evals == 0 {
			r.inconclusive = append(r.inconclusive, "no evaluations")
			structural++
		}
	}
	tolerated := int(r.evals / 50)
	if tolerated < 2 {
		tolerated = 2
	}

	cov := map[string]any{
		"evaluations":         r.evals,
		"distinct_nontrivial": len(r.distinct),
		"rule":                r.Rule,
		"samples":             r.samples,
	}
	if r.exhaustive {
		cov["exhaustive"] = true
	}
	for k, v := range r.extra {
		cov[k] = v
	}
	for k, v := range r.counters {
		cov[k] = v
	}
	for k, m := range r.sets {
		cov[k+"_distinct"] = len(m)
		if len(m) <= 40 {
			l := make([]string, 0, len(m))
			for s := range m {
				l = append(l, s)
			}
			sort.Strings(l)
			cov[k] = l
		}
	}
	if len(r.samples) == 0 {
		cov["samples"] = []any{"(none recorded)"}
	}
	kf := []string{}
	for _, v := range r.viol {
		if v.Known != nil {
			kf = append(kf, v.Sig)
		}
	}
	if len(kf) > 0 {
		cov["known_findings_reproduced"] = kf
	}
	if len(r.inconclusive) > 0 {
		cov["inconclusive"] = r.inconclusive
		cov["inconclusive_case_level"] = caseLevel
		cov["inconclusive_tolerated_without_exit_2"] = tolerated
	}
	ev := map[string]any{
		"property_id": r.Prop,
		"tier":        r.Tier,
		"seed":        r.Seed,
		"level":       r.Level,
		"coverage":    cov,
		"assumptions": r.assumptions,
		"wall_s":      float64(int(wall*100)) / 100,
		"violations":  realViol,
	}
	if r.assumptions == nil {
		ev["assumptions"] = []string{}
	}
	if !r.Replaying() {
		b, _ := json.MarshalIndent(ev, "", " ")
		dir := filepath.Join(OutRoot(), "evidence")
		_ = os.MkdirAll(dir, 0o755)
		_ = os.WriteFile(filepath.Join(dir, r.Prop+".json"), append(b, '\n'), 0o644)
	}

	fmt.Printf("SUMMARY property=%s tier=%s seed=%d evaluations=%d distinct=%d violations=%d known=%d inconclusive=%d wall=%.1fs\n",
		r.Prop, r.Tier, r.Seed, r.evals, len(r.distinct), realViol, len(kf), len(r.inconclusive), wall)
	if realViol > 0 {
		return 1
	}
	if len(r.inconclusive) > 0 {
		for _, s := range r.inconclusive {
			fmt.Printf("INCONCLUSIVE property=%s %s\n", r.Prop, s)
		}
		if structural > 0 || caseLevel > tolerated {
			return 2
		}
		fmt.Printf("NOTE property=%s %d of %d evaluations undecided (tolerated up to %d): verdict stands for the decided ones\n", r.Prop, caseLevel, r.evals, tolerated)
	}
	return 0
}

// Exit finishes and exits the process.
func (r *Run) Exit() { os.Exit(r.Finish()) }

// Watchdog fires an inconclusive verdict when a whole run exceeds d (a generous wall-clock
// bound that is never a violation).
func (r *Run) Watchdog(d time.Duration) {
	go func() {
		time.Sleep(d)
		fmt.Printf("INCONCLUSIVE property=%s watchdog fired after %v\n", r.Prop, d)
		os.Exit(2)
	}()
}

// Parallel runs fn(i) for i in [0,n) on `workers` goroutines.
func Parallel(n, workers int, fn func(i int)) {
	if workers < 1 {
		workers = 1
	}
	var wg sync.WaitGroup
	ch := make(chan int)
	for w := 0; w < workers; w++ {
		wg.Add(1)
		go func() {
			defer wg.Done()
			for i := range ch {
				fn(i)
			}
		}()
	}
	for i := 0; i < n; i++ {
		ch <- i
	}
	close(ch)
	wg.Wait()
}
