package sweep

import (
	"fmt"
	"hash/crc32"
	"math/rand"
	"strings"
	"sync"
	"time"

	"verif/internal/fakeredis"
	"verif/internal/gen"
	"verif/internal/harness"
)

type Options struct {
	Prop       string // C02, C07 or C09: which clauses are reported
	Bias       string // "barrier" or "idle"
	NBase      int
	Depth      int // maximum number of successive crashes
	DeepPct    int // percentage of resumed runs that are crashed again
	Workers    int
	OnlyTxn    bool // C09: transactional mode only
	CleanStops int  // orderly-stop schedules per case
}

func maxCp(apps []fakeredis.App, runID string) int64 {
	last := int64(-1)
	for _, cw := range CpWrites(apps, runID) {
		if cw.Value > last {
			last = cw.Value
		}
	}
	return last
}

// Explore runs the sweep and reports the clauses of o.Prop.
func Explore(run *harness.Run, o Options) {
	report := func(key string, e *Env, l *RunLog, crash string, fs []Finding) {
		for _, f := range fs {
			if f.Prop != o.Prop {
				continue
			}
			w := map[string]any{"config": e.C.String(), "crash_point": crash, "depth": l.Depth, "start_point": fmt.Sprintf("%+v", l.SP),
				"send_error": fmt.Sprint(l.SendErr), "stream": streamDump(e), "state_tail": tail(l.StartApps, 12), "run_head": head(l.Apps, 30)}
			run.Violation(f.Sig, key, f.What, w)
		}
	}
	var mu sync.Mutex
	sampled := 0
	sem := make(chan struct{}, 40) // bound on concurrently running tool instances
	harness.Parallel(o.NBase, o.Workers, func(i int) {
		key := fmt.Sprintf("case-%d", i)
		if !run.WantCase(key) {
			return
		}
		r := run.Rand(key)
		c := GenCase(r, key, o.Bias)
		if o.OnlyTxn {
			c.Txn = true
		}
		e, why := NewEnv(r, c)
		if e == nil {
			run.Inconclusive("%s: base run: %s", key, why)
			return
		}
		base := e.Base
		if !base.Completed {
			run.Inconclusive("%s: base run did not complete: %v", key, base.SendErr)
			return
		}
		run.Eval(1)
		run.Count("base_runs", 1)
		run.Count("target_requests_logged", base.NReqs)
		// base-run clauses
		fs, _, ncp := e.CheckCpSequence(-1, base)
		run.Count("resume_position_writes_observed", int64(ncp))
		fs = append(fs, e.CheckAtomicity(nil, base)...)
		if c.Txn {
			seen := map[string]bool{}
			for _, id := range IDsOf(base.Apps) {
				if seen[id] {
					fs = append(fs, Finding{"C02", "txn|write-executed-twice-in-one-run|" + c.Mode(), "base run executed " + id + " twice"})
					break
				}
				seen[id] = true
			}
		}
		report(key, e, base, "none (base run)", fs)
		if ncp == 0 && o.Prop == "C07" {
			run.Inconclusive("%s: base run produced no resume-position write", key)
		}

		var explore func(r *rand.Rand, l *RunLog, depth int, path string)
		explore = func(r *rand.Rand, l *RunLog, depth int, path string) {
			reps, represented := l.Prefixes()
			var wg sync.WaitGroup
			for pi, n := range reps {
				deep := depth+1 < o.Depth
				// depth ≥ 2: only a PRNG-chosen subset of the crash points of resumed runs
				if depth >= 1 && r.Intn(100) >= o.DeepPct {
					continue
				}
				rr := rand.New(rand.NewSource(r.Int63()))
				wg.Add(1)
				go func(pi int, n int64, rr *rand.Rand) {
					defer wg.Done()
					sem <- struct{}{}
					release := func() { <-sem }
					state := l.AppsUpTo(n)
					prior := IDsOf(state)
					crash := fmt.Sprintf("%safter request %d of %d (stands for %d request prefixes)", path, n, l.NReqs, represented[pi])
					nl, why := e.Resume(rr, state, depth+1)
					release()
					if nl == nil {
						run.Inconclusive("%s: resume %s: %s", key, crash, why)
						return
					}
					if nl.SPErr != nil {
						run.Inconclusive("%s: resume %s: start point error %v", key, crash, nl.SPErr)
						return
					}
					if strings.HasPrefix(nl.Note, "remaining") {
						run.Inconclusive("%s: resume %s: %s (start point %+v, send error %v)", key, crash, nl.Note, nl.SP, nl.SendErr)
						return
					}
					run.Eval(1)
					run.Count("restarts", 1)
					run.Count("request_prefixes_covered", int64(represented[pi]))
					run.Count("target_requests_logged", nl.NReqs)
					fs := e.CheckResume(prior, nl)
					f2, _, ncp := e.CheckCpSequence(maxCp(state, e.RunID), nl)
					run.Count("resume_position_writes_observed", int64(ncp))
					fs = append(fs, f2...)
					fs = append(fs, e.CheckAtomicity(prior, nl)...)
					report(key, e, nl, crash, fs)
					// coverage signature: where did the crash fall, where did the tool resume
					where := "mid-stream"
					if g := e.groupOfOffset(nl.SP.Offset); g != nil {
						where = "inside-group"
					}
					run.Distinct(fmt.Sprintf("%s|depth=%d|resume-at=%s|%s|dup=%v", c.Mode(), depth+1, e.barrierAt(nl.SP.Offset), where, overlap(prior, nl)))
					run.Seen("resume_at", e.barrierAt(nl.SP.Offset))
					mu.Lock()
					if sampled < 4 && len(nl.Business()) > 0 {
						sampled++
						mu.Unlock()
						run.Sample(map[string]any{"case": key, "config": c.String(), "crash": crash, "start_point": fmt.Sprintf("%+v", nl.SP),
							"executed_before": len(prior), "executed_after_resume": len(nl.Business()), "projected_total": len(e.Proj)})
					} else {
						mu.Unlock()
					}
					if deep && nl.Completed {
						explore(rr, nl, depth+1, crash+" → ")
					}
				}(pi, n, rr)
			}
			wg.Wait()
		}
		explore(r, base, 0, "")
		// orderly stops (context cancellation) while the source is silent at a PRNG-chosen command
		// boundary — inside transactions, right after MULTI / SELECT, mid-batch — then a fresh instance
		for k := 0; k < o.CleanStops; k++ {
			cleanStop(run, key, e, rand.New(rand.NewSource(r.Int63())), report)
		}
		if o.Prop == "C07" || o.Prop == "C02" {
			ResyncScenario(run, key, r, c, o.Prop)
			RerunScenario(run, key, r, c, o.Prop)
		}
	})
}

// cleanStop: one orderly-stop schedule on a fresh target, judged like a crash + restart.
func cleanStop(run *harness.Run, key string, e *Env, r *rand.Rand, report func(key string, e *Env, l *RunLog, crash string, fs []Finding)) {
	cmds := e.Stream.Cmds
	if len(cmds) < 3 {
		return
	}
	// prefer boundaries inside source transactions (two draws out of three)
	idx := r.Intn(len(cmds) - 1)
	for try := 0; try < 8 && r.Intn(3) != 0 && cmds[idx].Group < 0; try++ {
		idx = r.Intn(len(cmds) - 1)
	}
	stopAt := e.C.Base + cmds[idx].End
	linger := []time.Duration{0, e.C.BatchTicker / 2, 2 * e.C.BatchTicker, e.C.KeepAlive + 5*time.Millisecond}[r.Intn(4)]
	srv := newServer()
	defer srv.Close()
	// one schedule in three ends because the stream ends (EOF on the reader), not by cancellation
	eos := crc32.ChecksumIEEE([]byte(fmt.Sprintf("%s/%d/%d", key, stopAt, linger)))%3 == 0
	l1, why := e.runOnStop(r, srv, nil, 0, true, stopAt, linger, eos)
	if l1 == nil {
		run.Inconclusive("%s: orderly stop at %d: %s", key, stopAt, why)
		return
	}
	crash := fmt.Sprintf("orderly stop after the source delivered up to %d (%s, group %d) and stayed silent for %v", stopAt, cmds[idx].Kind, cmds[idx].Group, linger)
	if eos {
		crash = fmt.Sprintf("the stream ended by itself (EOF) after the source had delivered up to %d (%s, group %d) and stayed silent for %v", stopAt, cmds[idx].Kind, cmds[idx].Group, linger)
		run.Count("runs_ended_by_end_of_stream", 1)
		if cmds[idx].Group >= 0 && cmds[idx].Kind != gen.KExec {
			run.Count("runs_ended_by_end_of_stream_inside_a_source_transaction", 1)
		}
	}
	run.Eval(1)
	run.Count("orderly_stops", 1)
	if cmds[idx].Group >= 0 && cmds[idx].Kind != gen.KExec {
		run.Count("orderly_stops_inside_a_source_transaction", 1)
	}
	fs := e.CheckAtomicity(nil, l1)
	f1, _, _ := e.CheckCpSequence(-1, l1)
	fs = append(fs, f1...)
	report(key, e, l1, crash+" [stopped run]", fs)
	state := srv.Applied()
	prior := IDsOf(state)
	nl, why := e.runOn(r, srv, state, 1, false)
	if nl == nil {
		run.Inconclusive("%s: resume after %s: %s", key, crash, why)
		return
	}
	if nl.SPErr != nil {
		run.Inconclusive("%s: resume after %s: start point error %v", key, crash, nl.SPErr)
		return
	}
	run.Count("restarts", 1)
	fs = e.CheckResume(prior, nl)
	f2, _, ncp := e.CheckCpSequence(maxCp(state, e.RunID), nl)
	run.Count("resume_position_writes_observed", int64(ncp))
	fs = append(fs, f2...)
	fs = append(fs, e.CheckAtomicity(prior, nl)...)
	report(key, e, nl, crash, fs)
	run.Distinct(fmt.Sprintf("%s|orderly-stop|at=%s|in-group=%v|resume-at=%s", e.C.Mode(), cmds[idx].Kind, cmds[idx].Group >= 0, e.barrierAt(nl.SP.Offset)))
}

func overlap(prior []string, l *RunLog) bool {
	ps := map[string]bool{}
	for _, id := range prior {
		ps[id] = true
	}
	for _, a := range l.Business() {
		if ps[gen.FindID(a.Args)] {
			return true
		}
	}
	return false
}

func streamDump(e *Env) []string {
	var out []string
	for i := range e.Stream.Cmds {
		c := e.Stream.Cmds[i]
		out = append(out, fmt.Sprintf("abs_end=%d %s", e.C.Base+c.End, c.String()))
	}
	return out
}

func tail(a []fakeredis.App, n int) []string {
	if len(a) > n {
		a = a[len(a)-n:]
	}
	return head(a, n)
}

func head(a []fakeredis.App, n int) []string {
	var o []string
	for i := 0; i < n && i < len(a); i++ {
		o = append(o, a[i].String())
	}
	return o
}
