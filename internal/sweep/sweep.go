// Package sweep: request-prefix crash sweep of incremental replay (used by C02, C07, C09).
//
// A base run replays a generated stream through the real RedisOutput into the target double.
// Every prefix of the requests the target executed is a crash point: the state after the
// prefix is rebuilt on a fresh double by replaying the effect log, a FRESH tool instance is
// started against it (start-up bookkeeping, StartPoint, Send from the returned offset), and
// the logs of all runs are handed to the property-specific oracles.
package sweep

import (
	"context"
	"fmt"
	"math/rand"
	"sort"
	"strconv"
	"strings"
	"time"

	"verif/internal/drive"
	"verif/internal/fakeredis"
	"verif/internal/gen"

	"github.com/mgtv-tech/redis-GunYu/config"
	"github.com/mgtv-tech/redis-GunYu/syncer"
)

type Case struct {
	Key         string
	Txn         bool
	Pipeline    bool
	BatchCount  uint
	BatchBytes  uint64
	BatchTicker time.Duration
	KeepAlive   time.Duration
	CpTicker    time.Duration
	TargetDbMap map[int]int
	DbBlacklist []int // source databases filtered out (filter.dbBlacklist)
	DbMode      string
	PlanStyle   int
	PauseUnit   time.Duration
	NCmds       int
	PSelect     float64
	PTxn        float64
	PTxnSelect  float64
	PNoise      float64
	IdleFirst   time.Duration // idle before the first item of every run
	Base        int64
}

func (c Case) String() string {
	return fmt.Sprintf("txn=%v pipe=%v batch=%d/%dB tick=%v ka=%v cp=%v db=%s black=%v plan=%d pause=%v n=%d idle1=%v base=%d",
		c.Txn, c.Pipeline, c.BatchCount, c.BatchBytes, c.BatchTicker, c.KeepAlive, c.CpTicker, c.DbMode, c.DbBlacklist, c.PlanStyle, c.PauseUnit, c.NCmds, c.IdleFirst, c.Base)
}

func (c Case) Mode() string { return fmt.Sprintf("txn=%v|pipe=%v", c.Txn, c.Pipeline) }

// GenCase draws a configuration.  bias: "barrier" (C02/C09), "idle" (C07).
func GenCase(r *rand.Rand, key, bias string) Case {
	c := Case{Key: key}
	c.Txn = r.Intn(3) != 0
	c.Pipeline = r.Intn(2) == 0
	c.BatchCount = []uint{1, 2, 3, 7, 100}[r.Intn(5)]
	c.BatchBytes = []uint64{1, 64, 64 * 1024}[r.Intn(3)]
	c.BatchTicker = time.Duration(2+r.Intn(6)) * time.Millisecond
	c.KeepAlive = time.Duration(15+r.Intn(30)) * time.Millisecond
	c.CpTicker = []time.Duration{2 * time.Millisecond, 12 * time.Millisecond, time.Second}[r.Intn(3)]
	switch r.Intn(3) {
	case 0:
		c.DbMode = "identity"
	case 1:
		c.DbMode = "swap"
		c.TargetDbMap = map[int]int{0: 1, 1: 0, 2: 7}
	default:
		c.DbMode = "many-to-one"
		c.TargetDbMap = map[int]int{0: 4, 1: 4, 2: 2}
	}
	c.PlanStyle = r.Intn(4)
	c.PauseUnit = []time.Duration{c.BatchTicker, c.KeepAlive + 5*time.Millisecond, c.CpTicker}[r.Intn(3)]
	if c.PauseUnit > 60*time.Millisecond {
		c.PauseUnit = 60 * time.Millisecond
	}
	c.NCmds = 10 + r.Intn(22)
	c.PSelect, c.PTxn, c.PNoise = 0.18, 0.18, 0.15
	if bias == "idle" {
		c.Txn = r.Intn(2) == 0
		c.PSelect, c.PTxn, c.PNoise = 0.08, 0.08, 0.3
		c.IdleFirst = []time.Duration{0, c.KeepAlive + 10*time.Millisecond, c.CpTicker + 5*time.Millisecond, 2*c.KeepAlive + 10*time.Millisecond}[r.Intn(4)]
		if c.IdleFirst > 120*time.Millisecond {
			c.IdleFirst = 120 * time.Millisecond
		}
		c.NCmds = 6 + r.Intn(14)
	}
	c.Base = int64(1000 + r.Intn(1000000))
	if c.Base%3 == 0 { // a third of the cases: transactions that switch databases inside MULTI/EXEC
		c.PTxnSelect = 0.35
	}
	if (c.Base/3)%3 == 0 { // a third of the cases: one source database is filtered out
		c.DbBlacklist = []int{1 + int(c.Base/9)%2}
	}
	return c
}

// CpWrite is one write of a resume position observed on the target.
type CpWrite struct {
	ReqSeq int64
	DB     int
	Value  int64
	Raw    string
	Txn    int64
	Multi  bool // written by a multi-field HSET (SetCheckpoint / UpdateCheckpoint), not a batch
}

// RunLog is what one tool instance lifetime left on the target.
type RunLog struct {
	Depth     int
	StartApps []fakeredis.App // effect log the state was rebuilt from (nil for the base run)
	Apps      []fakeredis.App // effects of this run (bookkeeping + replay), ReqSeq numbered from 1 for resumed runs
	NReqs     int64
	AofFirst  int64 // first request seq of the incremental phase (after bookkeeping / full sync)
	SP        syncer.StartPoint
	SPErr     error
	SendErr   error
	Completed bool // sentinel applied
	Note      string
}

func (l *RunLog) Business() []fakeredis.App { return drive.BusinessApplied(l.Apps) }

// CpWrites extracts the resume-position writes of a log, for run id runID.
func CpWrites(apps []fakeredis.App, runID string) []CpWrite {
	var out []CpWrite
	for _, a := range apps {
		if a.Cmd != "HSET" || a.IsErr || len(a.Args) < 3 || !strings.HasPrefix(string(a.Args[0]), config.CheckpointKey) ||
			string(a.Args[0]) == config.CheckpointKeyHashKey {
			continue
		}
		for i := 1; i+1 < len(a.Args); i += 2 {
			if string(a.Args[i]) == runID+"_offset" {
				v, err := strconv.ParseInt(string(a.Args[i+1]), 10, 64)
				cw := CpWrite{ReqSeq: a.ReqSeq, DB: a.DB, Value: v, Raw: string(a.Args[i+1]), Txn: a.Txn, Multi: len(a.Args) > 3}
				if err != nil {
					cw.Value = -999
				}
				out = append(out, cw)
			}
		}
	}
	return out
}

// Env is one explored base run with its stream.
type Env struct {
	C      Case
	RunID  string
	IDs    []string
	Stream *gen.Stream
	End    *gen.Cmd
	Proj   []drive.Expect
	PC     drive.ProjCfg
	Ends   map[int64]bool // absolute command end offsets
	Groups []Group
	Base   *RunLog
}

// Group is one source MULTI/EXEC group in absolute offsets.
type Group struct {
	Idx      int
	MultiEnd int64
	ExecEnd  int64
	IDs      []string
	KeptEnds []int64 // absolute end offsets of the member writes that pass the filters
}

func newServer() *fakeredis.Server {
	return fakeredis.MustStart(fakeredis.Options{Permissive: true, LogOnly: func(cmd string, args [][]byte) bool {
		return len(args) == 0 || !drive.Reserved(args[0])
	}})
}

func (e *Env) cfg(addr string) syncer.RedisOutputConfig {
	c := e.C
	cfg := drive.OutputConfig(addr, e.RunID)
	cfg.CanTransaction = c.Txn
	cfg.ReplayPipeline = c.Pipeline
	cfg.BatchCmdCount = c.BatchCount
	cfg.BatchBufferSize = c.BatchBytes
	cfg.BatchTicker = c.BatchTicker
	cfg.KeepaliveTicker = c.KeepAlive
	cfg.UpdateCheckpointTicker = c.CpTicker
	cfg.TargetDbMap = c.TargetDbMap
	if len(c.DbBlacklist) > 0 {
		cfg.Filter = config.FilterConfig{DbBlacklist: c.DbBlacklist}
	}
	return cfg
}

// NewEnv generates the stream and performs the base run.  Returns nil + reason when the base
// run itself was inconclusive.
func NewEnv(r *rand.Rand, c Case) (*Env, string) {
	e := &Env{C: c}
	e.RunID = fmt.Sprintf("%040x", r.Uint64())
	e.IDs = []string{e.RunID, strings.Repeat("0", 40)}
	maxTxn := int(c.BatchCount)*3 + 1
	if maxTxn > 10 {
		maxTxn = 10
	}
	e.Stream = gen.GenStream(r, gen.StreamOptions{Hist: "h" + strings.TrimPrefix(c.Key, "case-"), NCmds: c.NCmds, MaxDB: 2,
		PSelect: c.PSelect, PTxn: c.PTxn, PTxnSelect: c.PTxnSelect, PNoise: c.PNoise, MaxTxnLen: maxTxn, StartDB: -1})
	e.PC = drive.ProjCfg{TargetDb: -1, TargetDbMap: c.TargetDbMap, DbBlacklist: c.DbBlacklist}
	if e.PC.DbOut(e.Stream.LastDB()) { // the completion sentinel must not be filtered out
		e.Stream.AppendSelect(0)
	}
	e.End = e.Stream.AppendSentinel(e.Stream.LastDB())
	e.Proj = drive.Project(e.Stream, e.PC)
	e.Ends = map[int64]bool{}
	gm := map[int]*Group{}
	for i := range e.Stream.Cmds {
		cm := &e.Stream.Cmds[i]
		e.Ends[c.Base+cm.End] = true
		if cm.Group >= 0 {
			g := gm[cm.Group]
			if g == nil {
				g = &Group{Idx: cm.Group}
				gm[cm.Group] = g
			}
			switch cm.Kind {
			case gen.KMulti:
				g.MultiEnd = c.Base + cm.End
			case gen.KExec:
				g.ExecEnd = c.Base + cm.End
			case gen.KWrite:
				if !e.PC.DbOut(cm.DB) {
					g.IDs = append(g.IDs, cm.ID)
					g.KeptEnds = append(g.KeptEnds, c.Base+cm.End)
				}
			}
		}
	}
	for _, g := range gm {
		e.Groups = append(e.Groups, *g)
	}
	sort.Slice(e.Groups, func(i, j int) bool { return e.Groups[i].Idx < e.Groups[j].Idx })

	srv := newServer()
	defer srv.Close()
	l, why := e.runOn(r, srv, nil, 0, true)
	if l == nil {
		return nil, why
	}
	e.Base = l
	return e, ""
}

// runOn runs one tool lifetime on srv (whose state was prepared by the caller).
// initial=true: first ever start (bookkeeping, full sync of an empty snapshot, then replay).
func (e *Env) runOn(r *rand.Rand, srv *fakeredis.Server, startApps []fakeredis.App, depth int, initial bool) (*RunLog, string) {
	return e.runOnStop(r, srv, startApps, depth, initial, 0, 0, false)
}

// runOnStop: as runOn, but with stopAt > 0 the source goes silent after the command that ends at
// absolute offset stopAt was delivered (a stalled source link), and after `linger` the tool is
// stopped in the orderly way (context cancellation) instead of running to the sentinel.
func (e *Env) runOnStop(r *rand.Rand, srv *fakeredis.Server, startApps []fakeredis.App, depth int, initial bool, stopAt int64, linger time.Duration, endOfStream bool) (*RunLog, string) {
	ctx := context.Background()
	l := &RunLog{Depth: depth, StartApps: startApps}
	n0 := len(srv.Applied())
	finish := func() {
		srv.WaitNoConns(5 * time.Second) // requests dispatched before the stop are drained first
		apps := srv.Applied()[n0:]
		l.Apps = apps
		l.NReqs = srv.Seq()
	}
	ss, err := drive.NewSession(e.cfg(srv.Addr()), e.IDs)
	if err != nil {
		return nil, "session: " + err.Error()
	}
	sp, err := ss.Out.StartPoint(ctx, e.IDs)
	if err != nil {
		l.SPErr = err
		finish()
		return l, ""
	}
	if initial {
		if sp.Offset >= 0 {
			return nil, fmt.Sprintf("initial start point not initial: %+v", sp)
		}
		if err := ss.FullSync(ctx, drive.EmptyRDB, e.C.Base); err != nil {
			return nil, "initial full sync: " + err.Error()
		}
		sp, err = ss.Out.StartPoint(ctx, e.IDs)
		if err != nil || sp.Offset != e.C.Base {
			return nil, fmt.Sprintf("start point after full sync: %+v %v", sp, err)
		}
	}
	l.SP = sp
	l.AofFirst = srv.Seq() + 1
	if !initial && (sp.RunId == "?" || sp.Offset < 0) {
		// no usable position: RedisInput would start a full resynchronisation here
		finish()
		l.Note = "no usable resume position"
		return l, ""
	}
	if sp.Offset < e.C.Base || sp.Offset > e.C.Base+int64(len(e.Stream.Bytes)) {
		// the resume position is outside the stream: nothing can be fed (the oracle judges it)
		finish()
		l.Note = "resume position outside the stream"
		return l, ""
	}
	rest := e.Stream.Bytes[sp.Offset-e.C.Base:]
	if stopAt > 0 {
		if stopAt <= sp.Offset || stopAt > e.C.Base+int64(len(e.Stream.Bytes)) {
			return nil, "stop point outside the part of the stream this run replays"
		}
		rest = e.Stream.Bytes[sp.Offset-e.C.Base : stopAt-e.C.Base]
	}
	plan := drive.Plan(r, rest, e.C.PauseUnit, e.C.PlanStyle)
	if e.C.IdleFirst > 0 {
		plan = append([]drive.Step{{Pause: e.C.IdleFirst}}, plan...)
	}
	seen := drive.WaitForID(srv, e.End.ID)
	ar := ss.SendAof(ctx, sp.Offset, plan, false, 4096)
	var done <-chan struct{} = seen
	if stopAt > 0 {
		// orderly stop while the source is silent: everything delivered, then `linger`, then cancel
		select {
		case <-ar.F.AllOut():
			time.Sleep(linger)
		case er := <-ar.Done:
			ar.F.Abort()
			l.SendErr = er
			finish()
			return l, ""
		case <-time.After(60 * time.Second):
			ar.Stop(10 * time.Second)
			return nil, fmt.Sprintf("watchdog: stream up to the stop point not consumed (handed %d of %d bytes)", ar.F.Handed(), len(rest))
		}
		if endOfStream {
			// the stream ends by itself (the reader the tool reads from is closed: a follower's
			// leader stream, the cache reader of a stopped input): Send has to return on its own
			ar.F.CloseEOF()
			er, ok := ar.Wait(60 * time.Second)
			if !ok {
				ar.Stop(10 * time.Second)
				return nil, "Send did not return after the stream ended"
			}
			l.SendErr = er
			l.Note = "stream ended by itself"
			finish()
			return l, ""
		}
		er, ok := ar.Stop(60 * time.Second)
		if !ok {
			return nil, "Send did not return after cancel"
		}
		l.SendErr = er
		l.Note = "stopped in the orderly way"
		finish()
		return l, ""
	}
	if e.C.Base+e.End.End <= sp.Offset {
		// nothing left to apply after the resume position: completion = every remaining byte
		// consumed, then a few ticker periods of idling (keep-alive / checkpoint flushes)
		ch := make(chan struct{})
		done = ch
		go func() {
			select {
			case <-ar.F.AllOut():
				time.Sleep(2*e.C.KeepAlive + 10*time.Millisecond)
			case <-time.After(60 * time.Second):
				l.Note = fmt.Sprintf("remaining %d bytes not consumed within 60 s (handed %d)", len(rest), ar.F.Handed())
			}
			close(ch)
		}()
	}
	select {
	case <-done:
		l.Completed = true
		// let an idle period pass after the last item in some runs (keep-alive / ticker flushes)
		if r.Intn(3) == 0 {
			time.Sleep(e.C.KeepAlive + 5*time.Millisecond)
		}
		er, ok := ar.Stop(60 * time.Second)
		if !ok {
			return nil, "Send did not return after cancel"
		}
		l.SendErr = er
	case er := <-ar.Done:
		ar.F.Abort()
		l.SendErr = er
	case <-time.After(60 * time.Second):
		ar.Stop(10 * time.Second)
		return nil, fmt.Sprintf("watchdog: sentinel not applied (handed %d of %d bytes)", ar.F.Handed(), len(rest))
	}
	finish()
	return l, ""
}

// Resume rebuilds the state after `state` (an effect log) on a fresh double and runs a fresh
// tool instance against it.
func (e *Env) Resume(r *rand.Rand, state []fakeredis.App, depth int) (*RunLog, string) {
	srv := newServer()
	defer srv.Close()
	srv.Replay(state)
	return e.runOn(r, srv, state, depth, false)
}

// Prefixes returns the crash points of a run's incremental phase.  Every request prefix n
// (AofFirst-1 ≤ n ≤ NReqs) is a crash point; a restarted tool can only observe the target
// state, so prefixes are grouped by the state they leave — (number of business writes applied,
// content of the checkpoint hashes per database) — and one representative per maximal stretch
// of equal state is returned together with the number of request prefixes it stands for.
func (l *RunLog) Prefixes() (reps []int64, represented []int) {
	nBiz := 0
	book := map[string]string{} // db|key|field → value
	sig := func() string {
		ks := make([]string, 0, len(book))
		for k, v := range book {
			if strings.HasSuffix(k, "_mtime") {
				continue
			}
			ks = append(ks, k+"="+v)
		}
		sort.Strings(ks)
		return fmt.Sprint(nBiz, ks)
	}
	apply := func(a *fakeredis.App) {
		if !a.Write || a.IsErr {
			return
		}
		if len(a.Args) > 0 && drive.Reserved(a.Args[0]) {
			switch a.Cmd {
			case "HSET", "HMSET":
				for i := 1; i+1 < len(a.Args); i += 2 {
					book[fmt.Sprintf("%d|%s|%s", a.DB, a.Args[0], a.Args[i])] = string(a.Args[i+1])
				}
			case "HDEL":
				for i := 1; i < len(a.Args); i++ {
					delete(book, fmt.Sprintf("%d|%s|%s", a.DB, a.Args[0], a.Args[i]))
				}
			default:
				book[fmt.Sprintf("other|%d", a.Idx)] = a.Cmd
			}
			return
		}
		nBiz++
	}
	for i := range l.StartApps {
		apply(&l.StartApps[i])
	}
	idx := 0
	last := "\x00"
	for n := l.AofFirst - 1; n <= l.NReqs; n++ {
		for idx < len(l.Apps) && l.Apps[idx].ReqSeq <= n {
			apply(&l.Apps[idx])
			idx++
		}
		if s := sig(); s != last {
			reps = append(reps, n)
			represented = append(represented, 1)
			last = s
		} else {
			represented[len(represented)-1]++
		}
	}
	return
}

// AppsUpTo returns StartApps + this run's effects up to request n (renumbered so that a later
// Replay reproduces the state).
func (l *RunLog) AppsUpTo(n int64) []fakeredis.App {
	out := append([]fakeredis.App{}, l.StartApps...)
	out = append(out, fakeredis.AppliedUpTo(l.Apps, n)...)
	return out
}
