package sweep

import (
	"context"
	"fmt"
	"math/rand"
	"strings"
	"time"

	"verif/internal/drive"
	"verif/internal/gen"
	"verif/internal/harness"
)

// ResyncScenario: ONE tool instance (RedisInput.run re-uses its output across loop iterations)
// replays snapshot → stream → a second snapshot (full resynchronisation under the same
// replication id, e.g. after a backlog overrun) → stream again; then a FRESH instance asks for
// the start point.  Oracle (C07/C02): every stored position is a command end (or a snapshot
// offset), positions never decrease, and the fresh start finds the newest stored position under
// the run id — state cached inside the long-lived output object must not survive what the
// second snapshot's completion wiped on the target.
func ResyncScenario(run *harness.Run, key string, r *rand.Rand, c Case, prop string) {
	e := &Env{C: c}
	e.RunID = fmt.Sprintf("%040x", r.Uint64())
	e.IDs = []string{e.RunID, strings.Repeat("0", 40)}
	mk := func(h string) (*gen.Stream, *gen.Cmd) {
		st := gen.GenStream(r, gen.StreamOptions{Hist: h, NCmds: 6 + r.Intn(10), MaxDB: 2, PSelect: 0.25, PTxn: 0.1, PNoise: 0.15, MaxTxnLen: 4, StartDB: -1})
		if (drive.ProjCfg{TargetDb: -1, DbBlacklist: c.DbBlacklist}).DbOut(st.LastDB()) { // the completion sentinel must not be filtered out
			st.AppendSelect(0)
		}
		return st, st.AppendSentinel(st.LastDB())
	}
	st1, end1 := mk("r1" + strings.TrimPrefix(key, "case-"))
	st2, end2 := mk("r2" + strings.TrimPrefix(key, "case-"))
	base1 := c.Base
	base2 := base1 + int64(len(st1.Bytes)) + int64(r.Intn(5000))
	ends := map[int64]bool{base1: true, base2: true}
	for _, cm := range st1.Cmds {
		ends[base1+cm.End] = true
	}
	for _, cm := range st2.Cmds {
		ends[base2+cm.End] = true
	}
	srv := newServer()
	defer srv.Close()
	ctx := context.Background()
	ss, err := drive.NewSession(e.cfg(srv.Addr()), e.IDs)
	if err != nil {
		run.Inconclusive("%s: resync: session: %v", key, err)
		return
	}
	phase := func(st *gen.Stream, end *gen.Cmd, base int64) bool {
		if _, err := ss.Out.StartPoint(ctx, e.IDs); err != nil {
			run.Inconclusive("%s: resync: startpoint: %v", key, err)
			return false
		}
		if err := ss.FullSync(ctx, drive.EmptyRDB, base); err != nil {
			run.Inconclusive("%s: resync: full sync: %v", key, err)
			return false
		}
		sp, err := ss.Out.StartPoint(ctx, e.IDs)
		if err != nil || sp.Offset != base {
			run.Inconclusive("%s: resync: startpoint after full sync: %+v %v", key, sp, err)
			return false
		}
		seen := drive.WaitForID(srv, end.ID)
		ar := ss.SendAof(ctx, base, drive.Plan(r, st.Bytes, c.PauseUnit, c.PlanStyle), false, 4096)
		select {
		case <-seen:
			if r.Intn(2) == 0 {
				time.Sleep(c.KeepAlive + 5*time.Millisecond)
			}
			if _, ok := ar.Stop(60 * time.Second); !ok {
				run.Inconclusive("%s: resync: Send did not return", key)
				return false
			}
		case er := <-ar.Done:
			ar.F.Abort()
			run.Inconclusive("%s: resync: Send ended early: %v", key, er)
			return false
		case <-time.After(60 * time.Second):
			ar.Stop(10 * time.Second)
			run.Inconclusive("%s: resync: watchdog", key)
			return false
		}
		return true
	}
	if !phase(st1, end1, base1) || !phase(st2, end2, base2) {
		return
	}
	srv.WaitNoConns(5 * time.Second) // requests dispatched before the stop are drained first
	apps := srv.Applied()
	// stored positions
	last := int64(-1)
	mode := c.Mode()
	w := func() map[string]any {
		return map[string]any{"config": c.String(), "base1": base1, "base2": base2, "log_tail": tail(apps, 25)}
	}
	report := func(p, sig, what string) {
		if p == prop {
			run.Violation(sig+"|"+mode, key, what, w())
		}
	}
	ncp := 0
	for _, cw := range CpWrites(apps, e.RunID) {
		ncp++
		switch {
		case cw.Value == -1 && last < 0:
		case cw.Value < 0:
			report("C07", "same-instance-resync|undefined-position-stored", fmt.Sprintf("request %d wrote %d over %d", cw.ReqSeq, cw.Value, last))
		case cw.Value < last:
			report("C07", "same-instance-resync|position-decreased", fmt.Sprintf("request %d wrote %d after %d", cw.ReqSeq, cw.Value, last))
		case !ends[cw.Value]:
			report("C07", "same-instance-resync|position-not-a-command-boundary", fmt.Sprintf("request %d wrote %d", cw.ReqSeq, cw.Value))
		}
		if cw.Value > last {
			last = cw.Value
		}
	}
	// the fresh start
	fs, err := drive.NewSession(e.cfg(srv.Addr()), e.IDs)
	if err != nil {
		run.Inconclusive("%s: resync: fresh session: %v", key, err)
		return
	}
	sp, err := fs.Out.StartPoint(ctx, e.IDs)
	if err != nil {
		run.Inconclusive("%s: resync: fresh startpoint: %v", key, err)
		return
	}
	run.Eval(1)
	run.Count("same_instance_resync_scenarios", 1)
	run.Count("resume_position_writes_observed", int64(ncp))
	switch {
	case sp.RunId == "?" || sp.Offset < 0:
		report("C07", "same-instance-resync|restart-finds-no-position-although-one-was-stored", fmt.Sprintf("fresh start point %+v although %d had been stored", sp, last))
	case sp.Offset != last:
		report("C07", "same-instance-resync|restart-finds-older-position", fmt.Sprintf("fresh start point %+v, newest stored position %d", sp, last))
		if sp.Offset > last {
			report("C02", "same-instance-resync|resume-beyond-stored-position", fmt.Sprintf("fresh start point %+v, newest stored position %d", sp, last))
		}
	default:
		run.Distinct(fmt.Sprintf("%s|same-instance-resync|db=%d", mode, sp.DbId))
	}
}
