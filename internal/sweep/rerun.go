package sweep

import (
	"context"
	"fmt"
	"math/rand"
	"strings"
	"sync/atomic"
	"time"

	"verif/internal/drive"
	"verif/internal/fakeredis"
	"verif/internal/gen"
	"verif/internal/harness"
)

// RerunScenario: ONE tool instance survives a broken target connection.  RedisInput.Run re-uses
// its output object across loop iterations (StartPoint → Send → error → StartPoint → Send …), so
// whatever the object remembers from the failed run (selected database, checkpointed databases,
// cached positions) meets the state the target really holds.  The target double executes a
// request and closes the connection instead of replying (the reply is lost, the effect is not),
// 1–3 times at PRNG-chosen requests of the incremental phase; the last run is left alone until
// the completion sentinel is applied.
//
// Oracle over the business writes of all runs together (C02): every projected write is executed,
// first executions follow the source order, every execution (first or repeated) happens in the
// database the source intended, in transactional mode nothing is executed twice; and (C07) the
// stored positions never decrease and are command boundaries.
func RerunScenario(run *harness.Run, key string, r *rand.Rand, c Case, prop string) {
	e := &Env{C: c}
	e.RunID = fmt.Sprintf("%040x", r.Uint64())
	e.IDs = []string{e.RunID, strings.Repeat("0", 40)}
	st := gen.GenStream(r, gen.StreamOptions{Hist: "q" + strings.TrimPrefix(key, "case-"), NCmds: 14 + r.Intn(16), MaxDB: 2,
		PSelect: 0.22, PTxn: c.PTxn, PTxnSelect: c.PTxnSelect, PNoise: 0.12, MaxTxnLen: 4, StartDB: -1})
	pc := drive.ProjCfg{TargetDb: -1, TargetDbMap: c.TargetDbMap, DbBlacklist: c.DbBlacklist}
	if pc.DbOut(st.LastDB()) {
		st.AppendSelect(0)
	}
	end := st.AppendSentinel(st.LastDB())
	proj := drive.Project(st, pc)
	base := c.Base
	ends := map[int64]bool{base: true}
	for _, cm := range st.Cmds {
		ends[base+cm.End] = true
	}

	srv := newServer()
	defer srv.Close()
	ctx := context.Background()
	ss, err := drive.NewSession(e.cfg(srv.Addr()), e.IDs)
	if err != nil {
		run.Inconclusive("%s: rerun: session: %v", key, err)
		return
	}
	if _, err := ss.Out.StartPoint(ctx, e.IDs); err != nil {
		run.Inconclusive("%s: rerun: startpoint: %v", key, err)
		return
	}
	if err := ss.FullSync(ctx, drive.EmptyRDB, base); err != nil {
		run.Inconclusive("%s: rerun: full sync: %v", key, err)
		return
	}
	faults := 1 + r.Intn(3)
	var spLog []string
	completed := false
	for attempt := 0; attempt < faults+2 && !completed; attempt++ {
		sp, err := ss.Out.StartPoint(ctx, e.IDs)
		if err != nil {
			run.Inconclusive("%s: rerun: startpoint of run %d: %v", key, attempt, err)
			return
		}
		spLog = append(spLog, fmt.Sprintf("run %d: start point %+v", attempt, sp))
		if sp.RunId == "?" || sp.Offset < base || sp.Offset > base+int64(len(st.Bytes)) {
			if prop == "C07" {
				run.Violation("same-instance-rerun|no-usable-position-after-connection-loss|"+c.Mode(), key,
					fmt.Sprintf("run %d of the same instance finds start point %+v", attempt, sp), map[string]any{"config": c.String(), "start_points": spLog})
			}
			return
		}
		// the fault of this run: the n-th business write executed from now on loses its reply
		var armed atomic.Int64
		if attempt < faults {
			armed.Store(int64(1 + r.Intn(6)))
		}
		srv.SetHooks(nil, nil, func(q *fakeredis.Req) bool {
			if armed.Load() <= 0 || q.Kind == fakeredis.ReqQueued {
				return false // transaction members take effect at their EXEC
			}
			switch q.Cmd {
			case "MULTI", "SELECT", "PING", "INFO", "HGETALL", "HGET", "EXISTS":
				return false
			}
			return armed.Add(-1) == 0
		})
		rest := st.Bytes[sp.Offset-base:]
		seen := drive.WaitForID(srv, end.ID)
		ar := ss.SendAof(ctx, sp.Offset, drive.Plan(r, rest, c.PauseUnit, c.PlanStyle), false, 4096)
		select {
		case <-seen:
			completed = true
			if _, ok := ar.Stop(60 * time.Second); !ok {
				run.Inconclusive("%s: rerun: Send did not return", key)
				return
			}
		case <-ar.Done:
			ar.F.Abort() // the run ended by itself (connection lost): the loop runs again
			run.Count("same_instance_reruns_after_connection_loss", 1)
		case <-time.After(60 * time.Second):
			ar.Stop(10 * time.Second)
			run.Inconclusive("%s: rerun: watchdog in run %d", key, attempt)
			return
		}
		srv.SetHooks(nil, nil, nil)
	}
	if !completed {
		run.Inconclusive("%s: rerun: stream not completed after %d runs", key, faults+2)
		return
	}
	srv.WaitNoConns(5 * time.Second)
	apps := srv.Applied()
	mode := c.Mode()
	w := func() map[string]any {
		return map[string]any{"config": c.String(), "base": base, "start_points": spLog, "log_tail": tail(apps, 30)}
	}
	run.Eval(1)
	run.Count("same_instance_rerun_scenarios", 1)
	if prop == "C07" {
		last := int64(-1)
		for _, cw := range CpWrites(apps, e.RunID) {
			switch {
			case cw.Value == -1 && last < 0:
			case cw.Value < last:
				run.Violation("same-instance-rerun|position-decreased|"+mode, key, fmt.Sprintf("request %d wrote %d after %d", cw.ReqSeq, cw.Value, last), w())
				return
			case !ends[cw.Value]:
				run.Violation("same-instance-rerun|position-not-a-command-boundary|"+mode, key, fmt.Sprintf("request %d wrote %d", cw.ReqSeq, cw.Value), w())
				return
			}
			if cw.Value > last {
				last = cw.Value
			}
		}
		run.Distinct(fmt.Sprintf("%s|same-instance-rerun|faults=%d", mode, faults))
		return
	}
	// C02
	wantDB := map[string]int{}
	order := map[string]int{}
	for i, x := range proj {
		wantDB[x.Cmd.ID] = x.DB
		order[x.Cmd.ID] = i
	}
	count := map[string]int{}
	next := 0
	for _, a := range drive.BusinessApplied(apps) {
		id := gen.FindID(a.Args)
		db, ok := wantDB[id]
		if !ok {
			run.Violation("same-instance-rerun|unexpected-write|"+mode, key, fmt.Sprintf("target executed %s, which the projection of the stream does not contain", a.String()), w())
			return
		}
		if a.DB != db {
			run.Violation("same-instance-rerun|wrong-db|"+mode, key, fmt.Sprintf("%s executed in db %d, the source intended db %d", id, a.DB, db), w())
			return
		}
		count[id]++
		if count[id] == 1 {
			if order[id] != next {
				run.Violation("same-instance-rerun|skips-or-reorders|"+mode, key, fmt.Sprintf("first execution of %s (projection index %d) while index %d was due", id, order[id], next), w())
				return
			}
			next++
		} else if c.Txn {
			run.Violation("same-instance-rerun|txn|write-executed-twice|"+mode, key, fmt.Sprintf("%s executed %d times in transactional mode", id, count[id]), w())
			return
		}
	}
	if next != len(proj) {
		run.Violation("same-instance-rerun|lost-writes|"+mode, key, fmt.Sprintf("%d of %d projected writes executed although the stream completed", next, len(proj)), w())
		return
	}
	run.Distinct(fmt.Sprintf("%s|same-instance-rerun|faults=%d", mode, faults))
}
