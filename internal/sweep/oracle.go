package sweep

import (
	"bytes"
	"fmt"
	"strings"

	"verif/internal/fakeredis"
	"verif/internal/gen"
)

// Finding is one violated clause.
type Finding struct {
	Prop string // property the clause belongs to: C02, C07, C09
	Sig  string
	What string
}

// IDsOf returns the business ids applied in an effect log, in order.
func IDsOf(apps []fakeredis.App) []string {
	var out []string
	for _, a := range apps {
		if !a.Write || a.IsErr {
			continue
		}
		if id := gen.FindID(a.Args); id != "" {
			out = append(out, id)
		}
	}
	return out
}

// groupOfOffset returns the source transaction p lies inside of, if a member write that
// reaches the target still follows p in it.  (With a database filter the tail of a transaction
// may be withheld entirely; a position in front of such a tail splits nothing.)
func (e *Env) groupOfOffset(p int64) *Group {
	for i := range e.Groups {
		g := &e.Groups[i]
		if g.MultiEnd <= p && p < g.ExecEnd {
			for _, k := range g.KeptEnds {
				if k > p {
					return g
				}
			}
			return nil
		}
	}
	return nil
}

// barrierAt classifies what kind of source command ends exactly at absolute offset p.
func (e *Env) barrierAt(p int64) string {
	for i := range e.Stream.Cmds {
		c := &e.Stream.Cmds[i]
		if e.C.Base+c.End == p {
			return c.Kind.String()
		}
	}
	if p == e.C.Base {
		return "start"
	}
	return "none"
}

// CheckResume judges one resumed run l that started from a state in which the business ids
// `prior` (in order of application over all earlier runs) had been executed.
func (e *Env) CheckResume(prior []string, l *RunLog) []Finding {
	var fs []Finding
	mode := e.C.Mode()
	add := func(prop, sig, what string) { fs = append(fs, Finding{prop, sig + "|" + mode, what}) }
	if l.SPErr != nil {
		return fs // harness-level problem, reported as inconclusive by the caller
	}
	P := l.SP.Offset
	if l.SP.RunId == "?" || P < 0 {
		// the next start finds no usable position: the tool falls back to a full
		// resynchronisation, which loses nothing (C02) — but a position had been stored (C07)
		if maxCp(l.StartApps, e.RunID) >= 0 {
			add("C07", "restart-finds-no-position-although-one-was-stored", fmt.Sprintf("start point %+v although position %d had been stored", l.SP, maxCp(l.StartApps, e.RunID)))
		}
		return fs
	}
	priorSet := map[string]int{}
	for _, id := range prior {
		priorSet[id]++
	}
	// C07-type legality of the position itself
	if P != e.C.Base && !e.Ends[P] {
		add("C07", "resume|not-a-command-boundary", fmt.Sprintf("resume position %d (base %d) is not the end of a source command", P, e.C.Base))
		add("C02", "resume|not-a-command-boundary", fmt.Sprintf("resume position %d (base %d) is not the end of a source command", P, e.C.Base))
		return fs
	}
	// clause 1: the position is absorbed
	for _, x := range e.Proj {
		if e.C.Base+x.Cmd.End <= P && priorSet[x.Cmd.ID] == 0 {
			add("C02", "resume|covers-unexecuted-write|at="+e.barrierAt(P), fmt.Sprintf("resume position %d covers write %s (end %d) that the target never executed", P, x.Cmd.ID, e.C.Base+x.Cmd.End))
			break
		}
	}
	if e.C.Txn {
		if g := e.groupOfOffset(P); g != nil {
			add("C02", "resume|inside-source-transaction|at="+e.barrierAt(P), fmt.Sprintf("resume position %d lies inside source transaction %d (MULTI ends %d, EXEC ends %d)", P, g.Idx, g.MultiEnd, g.ExecEnd))
			add("C09", "resume|inside-source-transaction|at="+e.barrierAt(P), fmt.Sprintf("resume position %d lies inside source transaction %d (MULTI ends %d, EXEC ends %d)", P, g.Idx, g.MultiEnd, g.ExecEnd))
		}
	}
	// clause 2/3: the resumed run executes exactly the projected commands after P, in order, in the right DB
	var want []int
	for i, x := range e.Proj {
		if e.C.Base+x.Cmd.End > P {
			want = append(want, i)
		}
	}
	got := l.Business()
	if !l.Completed && l.SendErr == nil {
		return fs
	}
	n := len(want)
	if len(got) < n {
		n = len(got)
	}
	for i := 0; i < n; i++ {
		x := e.Proj[want[i]]
		g := got[i]
		gid := gen.FindID(g.Args)
		if gid != x.Cmd.ID {
			add("C02", "resumed-run|skips-or-reorders|at="+e.barrierAt(P), fmt.Sprintf("resumed from %d: position %d executed %q, expected %s", P, i, gid, x.Cmd.ID))
			return fs
		}
		if !strings.EqualFold(g.Cmd, x.Cmd.Name) || !argsEq(g.Args, x.Cmd.Args) {
			add("C02", "resumed-run|altered", fmt.Sprintf("resumed from %d: %s altered", P, gid))
			return fs
		}
		if g.DB != x.DB {
			add("C02", "resumed-run|wrong-db|at="+e.barrierAt(P), fmt.Sprintf("resumed from %d (db %d): %s executed in db %d, source intended db %d", P, l.SP.DbId, gid, g.DB, x.DB))
			return fs
		}
	}
	if l.Completed && len(got) < len(want) {
		add("C02", "resumed-run|lost-writes", fmt.Sprintf("resumed from %d: %d of %d remaining writes executed although the run completed", P, len(got), len(want)))
	}
	// clause 4: exactly once in transactional mode
	if e.C.Txn {
		seen := map[string]bool{}
		for _, g := range got {
			id := gen.FindID(g.Args)
			if priorSet[id] > 0 {
				add("C02", "txn|write-executed-twice-across-restart|at="+e.barrierAt(P), fmt.Sprintf("resumed from %d: %s had already been executed before the crash", P, id))
				break
			}
			if seen[id] {
				add("C02", "txn|write-executed-twice-in-one-run", fmt.Sprintf("resumed from %d: %s executed twice in the resumed run", P, id))
				break
			}
			seen[id] = true
		}
	}
	return fs
}

func argsEq(a, b [][]byte) bool {
	if len(a) != len(b) {
		return false
	}
	for i := range a {
		if !bytes.Equal(a[i], b[i]) {
			return false
		}
	}
	return true
}

// CheckAtomicity (C09): in a transactional run every source group reaches the target inside one
// MULTI/EXEC block together with a resume position that covers it; and at every request prefix the
// set of a group's commands present (over prior + this run) is empty or complete.
func (e *Env) CheckAtomicity(prior []string, l *RunLog) []Finding {
	var fs []Finding
	if !e.C.Txn {
		return fs
	}
	mode := e.C.Mode()
	add := func(sig, what string) { fs = append(fs, Finding{"C09", sig + "|" + mode, what}) }
	priorSet := map[string]bool{}
	for _, id := range prior {
		priorSet[id] = true
	}
	idGroup := map[string]*Group{}
	for i := range e.Groups {
		for _, id := range e.Groups[i].IDs {
			idGroup[id] = &e.Groups[i]
		}
	}
	// (i) one target block per group, with a covering offset write inside it
	blockOf := map[int]int64{}
	cps := CpWrites(l.Apps, e.RunID)
	for _, a := range l.Business() {
		id := gen.FindID(a.Args)
		g := idGroup[id]
		if g == nil {
			continue
		}
		if a.Txn == 0 {
			add("group-command-outside-target-transaction", fmt.Sprintf("%s of source group %d executed outside MULTI/EXEC", id, g.Idx))
			return fs
		}
		if b, ok := blockOf[g.Idx]; ok && b != a.Txn {
			add("group-split-over-target-transactions|len="+lenClass(len(g.IDs), int(e.C.BatchCount)), fmt.Sprintf("source group %d (%d commands, batch %d) split over target blocks %d and %d", g.Idx, len(g.IDs), e.C.BatchCount, b, a.Txn))
			return fs
		}
		blockOf[g.Idx] = a.Txn
	}
	for gi, blk := range blockOf {
		var g *Group
		for i := range e.Groups {
			if e.Groups[i].Idx == gi {
				g = &e.Groups[i]
			}
		}
		// all of the group's commands must be in the block unless some were executed before (prior)
		cnt := 0
		for _, a := range l.Business() {
			if a.Txn == blk && idGroup[gen.FindID(a.Args)] == g {
				cnt++
			}
		}
		nprior := 0
		for _, id := range g.IDs {
			if priorSet[id] {
				nprior++
			}
		}
		if cnt != len(g.IDs) {
			add("group-partially-executed", fmt.Sprintf("source group %d: %d of %d commands executed in block %d (%d executed before the restart)", g.Idx, cnt, len(g.IDs), blk, nprior))
			return fs
		}
		if nprior != 0 {
			add("group-repeated-after-restart", fmt.Sprintf("source group %d executed again although %d of its commands had been executed before the restart", g.Idx, nprior))
			return fs
		}
		// the position must cover the group: its EXEC, or — when a database filter withholds the
		// tail of the transaction — at least its last member that reaches the target
		need := g.ExecEnd
		if len(e.C.DbBlacklist) > 0 && len(g.KeptEnds) > 0 {
			need = g.KeptEnds[len(g.KeptEnds)-1]
		}
		ok := false
		for _, cw := range cps {
			if cw.Txn == blk && cw.Value >= need {
				ok = true
			}
		}
		if !ok {
			add("group-block-without-covering-position", fmt.Sprintf("target block %d holding source group %d carries no resume position ≥ %d", blk, g.Idx, need))
			return fs
		}
	}
	return fs
}

func lenClass(n, batch int) string {
	switch {
	case n < batch:
		return "lt-batch"
	case n == batch:
		return "eq-batch"
	default:
		return "gt-batch"
	}
}

// CheckCpSequence (C07): every resume position written during run l is a command end offset (or
// the offset the run started from), and the sequence never decreases, starting from `last` (the
// newest position stored before the run; -1 if none).
func (e *Env) CheckCpSequence(last int64, l *RunLog) ([]Finding, int64, int) {
	var fs []Finding
	mode := e.C.Mode()
	add := func(sig, what string) { fs = append(fs, Finding{"C07", sig + "|" + mode, what}) }
	cps := CpWrites(l.Apps, e.RunID)
	firstItem := int64(1 << 62)
	for _, a := range l.Business() {
		firstItem = a.ReqSeq
		break
	}
	for _, cw := range cps {
		when := "after-first-item"
		if cw.ReqSeq < firstItem {
			when = "before-first-item"
		}
		switch {
		case cw.Value == -999:
			add("stored-position-not-a-number", fmt.Sprintf("request %d wrote %q", cw.ReqSeq, cw.Raw))
		case cw.Value == -1 && last < 0:
			// the initial 'none yet' marker, written while no position exists
		case cw.Value < 0:
			if last >= 0 {
				add("good-position-replaced-by-undefined|"+when, fmt.Sprintf("request %d wrote %d over stored position %d", cw.ReqSeq, cw.Value, last))
			} else {
				add("undefined-position-written-by-replay|"+when, fmt.Sprintf("request %d (batch write) stored %d", cw.ReqSeq, cw.Value))
			}
			continue
		case cw.Value < last:
			add("position-decreased|"+when, fmt.Sprintf("request %d wrote %d after %d", cw.ReqSeq, cw.Value, last))
		case cw.Value != e.C.Base && !e.Ends[cw.Value] && cw.Value != l.SP.Offset:
			add("position-not-a-command-boundary", fmt.Sprintf("request %d wrote %d which is neither a source command end nor the start offset", cw.ReqSeq, cw.Value))
		}
		if cw.Value > last {
			last = cw.Value
		}
	}
	return fs, last, len(cps)
}
